#!/usr/bin/env python3
"""Run /repo's suite (guard off) and compare the passing set with /root/.vp/BASELINE.json stable_pass."""
import json, subprocess, sys, xml.etree.ElementTree as ET, os, tempfile
repo = sys.argv[1] if len(sys.argv) > 1 else "/repo"
out = tempfile.mktemp(suffix=".xml")
env = dict(os.environ); env.pop("WAVESPECTRA_VERIF", None)
subprocess.run(f"cd {repo} && /venv/bin/python -m pytest -ra -q -p no:cacheprovider --timeout=900 --continue-on-collection-errors --junitxml={out}", shell=True, capture_output=True, env=env)
passed = set()
for tc in ET.parse(out).getroot().iter("testcase"):
    if not any(c.tag in ("failure", "error", "skipped") for c in tc):
        passed.add(f"{tc.get('classname')}::{tc.get('name')}")
os.remove(out)
base = set(json.load(open("/root/.vp/BASELINE.json"))["stable_pass"])
print("passed", len(passed), "baseline", len(base), "missing", sorted(base - passed), "extra", len(passed - base))
sys.exit(0 if base <= passed else 1)

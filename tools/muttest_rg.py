"""Mutation self-test of translate_rg: single-token edits of the translated functions in a scratch worktree."""
import json, os, subprocess, sys
WT = "/tmp/bldwt_B"
ROOT = os.path.dirname(os.path.dirname(os.path.abspath(__file__)))
U, S = "wavespectra/core/utils.py", "wavespectra/specarray.py"
MUTS = [
    (U, "dsout[attrs.DIRNAME] % 360", "dsout[attrs.DIRNAME] % 180"),
    (U, "if dir.min() < dsout.dir.min() or", "if dir.min() <= dsout.dir.min() or"),
    (U, "dir.min() < dsout.dir.min() or dsout.dir.size == 1", "dir.min() < dsout.dir.min() or dsout.dir.size == 2"),
    (U, "highest = dsout.isel(dir=-1)", "highest = dsout.isel(dir=0)"),
    (U, "highest.dir - 360", "highest.dir + 360"),
    (U, "to_concat = [highest, dsout]", "to_concat = [dsout, highest]"),
    (U, "if dir.max() > dsout.dir.max() or", "if dir.max() >= dsout.dir.max() or"),
    (U, "lowest.dir + 360", "lowest.dir + 180"),
    (U, "interp(dir=dir, assume_sorted=True)", "interp(dir=dir, assume_sorted=False)"),
    (U, "freq.min() < dsout.freq.min()", "freq.min() > dsout.freq.min()"),
    (U, "fzero = 0 * dsout.isel(freq=0)", "fzero = 1 * dsout.isel(freq=0)"),
    (U, 'fzero["freq"] = 0', 'fzero["freq"] = 1'),
    (U, "xr.concat([fzero, dsout]", "xr.concat([dsout, fzero]"),
    (U, '"fill_value": 0', '"fill_value": 1'),
    (U, "dset.spec.hs() ** 2 / dsout", "dset.spec.hs() ** 1 / dsout"),
    (U, "scale = dset.spec.hs()", "scale = dsout.spec.hs()"),
    (U, "np.unique(ds[dim], return_index=True)", "np.unique(ds[dim], return_index=False)"),
    (U, 'dsout = dsout.sortby("dir")', 'dsout = dsout.sortby("freq")'),
    (U, "if len(to_concat) > 1:", "if len(to_concat) > 2:"),
    (U, 'dsout.name = "efth"', 'dsout.name = "efth2"'),
    (U, "if isinstance(freq, (list, tuple)):", "if isinstance(freq, (list,)):"),
    (S, "* (fint - self.freq[ifreq - 1])", "* (fint + self.freq[ifreq - 1])"),
    (S, "if not (self.freq.min() < fint < self.freq.max()):", "if not (self.freq.min() <= fint < self.freq.max()):"),
    (S, "right = self._obj.isel(freq=[ifreq]) *", "right = self._obj.isel(freq=[ifreq - 1]) *"),
    (S, "return (left + right) / df", "return (left + right) * df"),
    (S, "regrid_spec(self._obj, freq, dir, maintain_m0=maintain_m0)", "regrid_spec(self._obj, dir, freq, maintain_m0=maintain_m0)"),
    (S, "dir = getattr(other.spec, attrs.DIRNAME)", "dir = getattr(other.spec, attrs.FREQNAME)"),
]
env = dict(os.environ, VERIF_REPO=WT)
rows = []
for i, (f, old, new) in enumerate(MUTS):
    p = os.path.join(WT, f)
    txt = open(p).read()
    assert txt.count(old) >= 1, (f, old)
    open(p, "w").write(txt.replace(old, new, 1))
    try:
        t = subprocess.run(["/venv/bin/python", "-W", "ignore", "-m", "harness.translate"], cwd=ROOT, env=env, capture_output=True, text=True)
        unt = [l.strip() for l in t.stdout.splitlines() if l.strip().startswith("rg_")]
        b = subprocess.run(["lake", "build", "WsVerif.Props.C08rg"], cwd=os.path.join(ROOT, "lean"), capture_output=True, text=True)
        errs = [l for l in b.stdout.splitlines() if l.startswith("error: WsVerif/Props/C08rg.lean")]
        src = open(os.path.join(ROOT, "lean/WsVerif/Props/C08rg.lean")).read().splitlines()
        broken = set()
        for l in errs:
            ln = int(l.split(":")[2])
            for k in range(ln - 1, -1, -1):
                if src[k].startswith("theorem ") or src[k].startswith("example"):
                    broken.add(src[k].split()[1] if src[k].startswith("theorem") else "example")
                    break
        outcome = "untranslatable" if unt else ("bridge/pin broken" if b.returncode != 0 else "SURVIVED")
        rows.append({"n": i + 1, "file": f, "old": old, "new": new, "outcome": outcome,
                     "detail": (unt[0][:110] if unt else ", ".join(sorted(broken)))})
        print(i + 1, outcome, rows[-1]["detail"], flush=True)
    finally:
        open(p, "w").write(txt)
json.dump(rows, open(os.path.join(ROOT, "tools/muttest_rg_results.json"), "w"), indent=1)
print("survivors:", [r["n"] for r in rows if r["outcome"] == "SURVIVED"])

#!/usr/bin/env python3
"""Confirm a seeded mutation and run checks against it.

usage: tools/seeded.py <dir with patch.diff [demo.py]> <PID> [more PIDs…] [--inplace]
 - default: applies the patch in a scratch worktree of /repo and runs the checks with VERIF_REPO pointing at it
 - --inplace: applies it to /repo itself (git apply), runs the checks, and undoes it (git checkout -- .)
Prints, per check, exit code and the VIOLATION line. Also runs demo.py on HEAD and on the mutant and the baseline suite.
"""
import json, os, shutil, subprocess, sys, tempfile
ROOT = os.path.dirname(os.path.dirname(os.path.abspath(__file__)))
args = [a for a in sys.argv[1:] if not a.startswith("--")]
inplace = "--inplace" in sys.argv
nobase = "--nobaseline" in sys.argv
d, pids = os.path.abspath(args[0]), args[1:]
# the checks run in a private copy of the framework (Gen files, build output, evidence and replays are per copy), so several
# seeded runs can go on at once and /verif can be edited meanwhile; --shared runs them in /verif itself
shared = "--shared" in sys.argv
VROOT = ROOT
if not shared:
    VROOT = tempfile.mkdtemp(prefix="seed_vf_", dir="/tmp")
    subprocess.run(f"rsync -a --exclude .git --exclude replays {ROOT}/ {VROOT}/", shell=True, check=True)
patch = os.path.join(d, "patch.diff")
demo = os.path.join(d, "demo.py")
so = "/repo/wavespectra/partition/specpart.cpython-312-x86_64-linux-gnu.so"
def sh(cmd, **kw):
    return subprocess.run(cmd, shell=True, capture_output=True, text=True, **kw)
res = {"patch": patch, "checks": {}}
if inplace:
    wt = "/repo"
    assert sh("git -C /repo status --porcelain --untracked-files=no").stdout.strip() == "", "/repo not clean"
else:
    wt = tempfile.mkdtemp(prefix="seed_wt_", dir="/tmp")
    os.rmdir(wt)
    r = sh(f"git -C /repo worktree add {wt} HEAD"); assert r.returncode == 0, r.stderr
    shutil.copy(so, os.path.join(wt, "wavespectra/partition/"))
try:
    if os.path.exists(demo):
        res["demo_on_head"] = sh(f"cd {wt} && PYTHONPATH={wt} /venv/bin/python -W ignore {demo}").returncode
    r = sh(f"git -C {wt} apply {patch}")
    if r.returncode != 0:
        print("PATCH DOES NOT APPLY:", r.stderr); sys.exit(3)
    if sh(f"git -C {wt} diff --name-only").stdout.find("specpart/") >= 0 and not inplace:
        sh(f"cd {wt} && /venv/bin/python setup.py build_ext --inplace -q")
    if os.path.exists(demo):
        res["demo_on_mutant"] = sh(f"cd {wt} && PYTHONPATH={wt} /venv/bin/python -W ignore {demo}").returncode
    if not nobase:
        b = sh(f"/venv/bin/python {ROOT}/tools/baseline_check.py {wt}")
        res["baseline"] = b.stdout.strip()[-200:]
    for pid in pids:
        env = dict(os.environ, VERIF_REPO=wt, VERIF_NPROC=os.environ.get("VERIF_NPROC", "8"))
        tier = os.environ.get("VERIF_TIER", "quick")
        c = subprocess.run(f"cd {VROOT} && ./check {pid} --tier {tier}", shell=True, capture_output=True, text=True, env=env)
        viol = [l for l in c.stdout.splitlines() if l.startswith("VIOLATION")]
        summ = [l for l in c.stderr.splitlines() if l.startswith(f"[{pid}]")]
        res["checks"][pid] = dict(rc=c.returncode, violation=viol[:1], summary=summ[-1:] )
finally:
    if inplace:
        sh("git -C /repo checkout -- .")
    else:
        sh(f"git -C /repo worktree remove --force {wt}")
    if shared:
        # evidence files were rewritten by the mutant run: restore the committed ones
        sh(f"cd {ROOT} && git checkout -- evidence 2>/dev/null")
    else:
        shutil.rmtree(VROOT, ignore_errors=True)
print(json.dumps(res, indent=1))

#!/usr/bin/env python3
"""Regenerate the generated tables of DESIGN.md (between <!-- BEGIN:x --> / <!-- END:x --> markers)."""
import json, glob, os, re, subprocess
ROOT = os.path.dirname(os.path.dirname(os.path.abspath(__file__)))
def findings_table():
    k = json.load(open(os.path.join(ROOT, "known_findings.json")))["findings"]
    rows = ["| id | property | status | what fails (short) | disposition |", "|---|---|---|---|---|"]
    for e in sorted(k, key=lambda e: e["id"]):
        what = re.sub(r"^fixed: property=\S+ \S+ ", "", e.get("what", ""))[:230].replace("|", "\\|").replace("\n", " ")
        disp = f"fixed by /repo commit `{e.get('commit')}`" if e["status"] == "fixed" else "KNOWN finding (trigger `%s`)%s" % (
            e.get("trigger"), (": " + e["why_not_fixed"][:160].replace("|", "\\|")) if e.get("why_not_fixed") else "")
        also = ("+" + ",".join(e["also"])) if e.get("also") else ""
        rows.append(f"| {e['id']} | {e['property']}{also} | {e['status']} | {what} | {disp} |")
    return "\n".join(rows)
def seeded_table():
    rows = ["| seeded change | property | what it needs to manifest | result of the check(s) |", "|---|---|---|---|"]
    for d in sorted(glob.glob(os.path.join(ROOT, "seeded", "*"))):
        mp = os.path.join(d, "meta.json")
        if not os.path.exists(mp):
            continue
        m = json.load(open(mp))
        need = m.get("needs_to_manifest", "")[:260].replace("|", "\\|").replace("\n", " ")
        fr = m.get("first_result", {})
        res = ("caught: " + (fr.get("violation") or ["?"])[0][:90]) if fr.get("rc") == 1 else f"MISSED by the first version of the check (rc={fr.get('rc')})"
        if m.get("after_strengthening"):
            a = m["after_strengthening"]
            res += f"; after strengthening ({a.get('what', '')}): {a['check']} → " + a["result"][:160]
        if m.get("caught_by_other_check"):
            res += "; also caught by " + ", ".join(m["caught_by_other_check"])
        rows.append(f"| seeded/{os.path.basename(d)} | {m['property']} | {need} | {res} |")
    return "\n".join(rows)
def status_table():
    man = json.load(open(os.path.join(ROOT, "MANIFEST.json")))
    rows = ["| property | level | obligations (theorems) | quick evaluations / distinct | quick wall s | known findings reproduced |", "|---|---|---|---|---|---|"]
    for c in man["checks"]:
        pid = c["property_id"]
        ep = os.path.join(ROOT, "evidence", f"{pid}.json")
        if not os.path.exists(ep):
            continue
        e = json.load(open(ep)); cov = e["coverage"]
        rows.append(f"| {pid} | {e['level']} | {cov.get('discharged', cov.get('lean_discharged', '–'))}/{cov.get('obligations', cov.get('lean_obligations', '–'))} | {cov['evaluations']} / {cov['distinct_nontrivial']} | {e['wall_s']} | {', '.join(cov.get('known_findings_reproduced') or []) or '–'} |")
    for n in man.get("not_applicable", []):
        rows.append(f"| {n['property_id']} | not claimed | – | – | – | {n['reason'][:80]} |")
    return "\n".join(rows)
def main():
    p = os.path.join(ROOT, "DESIGN.md")
    s = open(p).read()
    for name, fn in (("findings", findings_table), ("seeded", seeded_table), ("status", status_table)):
        pat = re.compile(rf"(<!-- BEGIN:{name} -->\n).*?(<!-- END:{name} -->)", re.S)
        if pat.search(s):
            s = pat.sub(lambda m: m.group(1) + fn() + "\n" + m.group(2), s)
    open(p, "w").write(s)
if __name__ == "__main__":
    main()

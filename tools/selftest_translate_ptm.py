"""source-mutation self-test of harness/translate_ptm.py + Props/C03ptm.lean.
Before running: export the library (`git -C /repo archive HEAD | tar -x -C $HEAD`) and set ROOT / HEAD / MUT below;
MUT is created and removed by the script; results go to /tmp/wk_ptm/scratch/selftest*.json (create the directory)."""
import os, re, shutil, subprocess, sys, json
from pathlib import Path

ROOT = Path("/tmp/wk_ptm/verif")
HEAD = Path("/tmp/wk_ptm/repo_head")
MUT = Path("/tmp/wk_ptm/scratch/mut_repo")
REL = "wavespectra/partition/partition.py"

# (id, function | None (= whole file), kind V|N, old, new, occurrence index, note)
M = [
 ("p1-01", "np_ptm1", "V", "ipart + 1", "ipart", 0, "label offset dropped"),
 ("p1-02", "np_ptm1", "V", "ipart + 1", "ipart + 2", 0, "label offset 2"),
 ("p1-03", "np_ptm1", "V", "wsfrac > wscut", "wsfrac >= wscut", 0, ""),
 ("p1-04", "np_ptm1", "V", "wsfrac > wscut", "wsfrac < wscut", 0, ""),
 ("p1-05", "np_ptm1", "V", "-npstats.hs", "npstats.hs", 0, "ascending sort"),
 ("p1-06", "np_ptm1", "V", "[:swells]", "[:swells - 1]", 0, ""),
 ("p1-07", "np_ptm1", "N", "nparts > swells", "nparts >= swells", 0, "neutral: at equality the slice keeps everything"),
 ("p1-08", "np_ptm1", "N", "nparts < swells", "nparts <= swells", 0, "neutral: at equality nothing is appended"),
 ("p1-09", "np_ptm1", "V", "swell.sum() > 0", "swell.sum() >= 0", 0, ""),
 ("p1-10", "np_ptm1", "V", "wsea_partition += part", "wsea_partition = part", 0, ""),
 ("p1-11", "np_ptm1", "V", "            wsea_partition += part\n        else:\n            swell_partitions[ipart] += part\n", "            wsea_partition += part\n", 0, "else branch dropped"),
 ("p1-12", "np_ptm1", "V", "        else:\n            swell_partitions[ipart] += part\n", "        swell_partitions[ipart] += part\n", 0, "else branch made unconditional"),
 ("p1-13", "np_ptm1", "V", "ipart + 1, spectrum, 0.0", "ipart + 1, spectrum_smooth, 0.0", 0, "np.where takes the smoothed spectrum"),
 ("p1-14", "np_ptm1", "V", "np.ascontiguousarray(spectrum_smooth", "np.ascontiguousarray(spectrum", 0, "watershed of the raw spectrum"),
 ("p1-15", "np_ptm1", "V", "spectrum, 0.0)", "spectrum, 1.0)", 0, "fill value"),
 ("p1-16", "np_ptm1", "V", "part[windseamask].sum()", "part.sum()", 0, "mask dropped from the numerator"),
 ("p1-17", "np_ptm1", "V", "/ part.sum()", "/ spectrum.sum()", 0, "denominator"),
 ("p1-18", "np_ptm1", "N", "wsea_partition = np.zeros_like(spectrum)", "wsea_partition = np.zeros_like(spectrum_smooth)", 0, "neutral when both arrays have one shape (not expressible in the generated signature)"),
 ("p1-19", "np_ptm1", "V", "for ipart in range(nparts)", "for ipart in range(nparts - 1)", 0, ""),
 ("p1-20", "np_ptm1", "V", "for n in range(nparts)", "for n in range(nparts + 1)", 0, "one slot too many"),
 ("p1-21", "np_ptm1", "V", "swells is None", "swells is not None", 0, ""),
 ("p1-22", "np_ptm1", "V", "swells - len(swell_partitions)", "swells + len(swell_partitions)", 0, ""),
 ("p1-23", "np_ptm1", "V", "[wsea_partition] + swell_partitions", "swell_partitions + [wsea_partition]", 0, "wind sea last"),
 ("p1-24", "np_ptm1", "V", "swell_partitions[ipart] += part", "swell_partitions[0] += part", 0, ""),
 ("p1-25", "np_ptm1", "V", "windseamask = up >", "windseamask = up >=", 0, "mask (pinned text)"),
 ("p1-26", "np_ptm1", "V", "agefac * wspd", "agefac + wspd", 0, "mask (pinned text)"),
 ("p1-27", "np_ptm1", "V", "(dir - wdir)", "(dir + wdir)", 0, "mask (pinned text)"),
 ("p1-28", "np_ptm1", "V", "celerity(freq, dpt)", "celerity(freq)", 0, "mask (pinned text)"),
 ("p1-29", "np_ptm1", "V", 'wscut=DEFAULTS["wscut"]', 'wscut=DEFAULTS["agefac"]', 0, "default"),
 ("p1-30", None, "V", '"swells": 3', '"swells": 4', 0, "DEFAULTS"),
 ("p1-31", None, "V", '"wscut": 0.3333', '"wscut": 0.3334', 0, "DEFAULTS"),
 ("p1-32", "np_ptm1", "V", "watershed_map.max()", "watershed_map.min()", 0, ""),
 ("p1-33", "np_ptm1", "N", "for swell in swell_partitions])\n", 'for swell in swell_partitions], kind="stable")\n', 0, "neutral (fixes the tie order to the modelled one); outside the grammar"),
 ("p1-34", "np_ptm1", "V", "npstats.hs(swell, freq, dir)", "npstats.hs(swell, freq)", 0, "sort key without directions"),
 ("p1-35", "np_ptm1", "V", "[isort]", "[isort[::-1]]", 0, ""),
 ("p1-36", "np_ptm1", "V", "dtype=np.float32), ihmax", "dtype=np.float32), ihmax + 1", 0, "watershed call (pinned text)"),
 ("p1-37", "np_ptm1", "V", "swell_partitions.append(np.zeros_like(spectrum))", "swell_partitions.append(spectrum)", 0, "pads with the spectrum"),
 ("p1-38", "np_ptm1", "V", "for i in range(n)", "for i in range(n + 1)", 0, ""),
 ("p1-39", "np_ptm1", "V", "swell_partitions = [np.zeros_like(spectrum) for n in range(nparts)]", "swell_partitions = [wsea_partition for n in range(nparts)]", 0, "aliased slots"),
 ("p2-01", "np_ptm2", "V", "np.where(windseamask, part, 0.0)", "np.where(windseamask, 0.0, part)", 0, ""),
 ("p2-02", "np_ptm2", "V", "np.where(windseamask, 0.0, part)", "np.where(windseamask, part, 0.0)", 0, ""),
 ("p2-03", "np_ptm2", "V", "wsea_secondary_partition += np.where", "wsea_primary_partition += np.where", 0, ""),
 ("p2-04", "np_ptm2", "V", "[wsea_primary_partition, wsea_secondary_partition]", "[wsea_secondary_partition, wsea_primary_partition]", 0, ""),
 ("p2-05", "np_ptm2", "V", "wsea_primary_partition += part", "wsea_secondary_partition += part", 0, ""),
 ("p2-06", "np_ptm2", "V", "ipart + 1", "ipart", 0, ""),
 ("p2-07", "np_ptm2", "V", "wsfrac > wscut", "wsfrac >= wscut", 0, ""),
 ("p2-08", "np_ptm2", "V", "wsea_partitions + swell_partitions", "swell_partitions + wsea_partitions", 0, ""),
 ("p2-09", "np_ptm2", "V", "-npstats.hs", "npstats.hs", 0, ""),
 ("p2-10", "np_ptm2", "V", "swell.sum() > 0", "swell.sum() > 1", 0, ""),
 ("p2-11", "np_ptm2", "V", "[:swells]", "[:nparts]", 0, "no truncation"),
 ("p2-12", "np_ptm2", "N", "swell_partitions[ipart] += np.where", "swell_partitions[ipart] = np.where", 0, "outside the grammar (plain element assignment); neutral in fact: the slot is zero before"),
 ("p2-13", "np_ptm2", "V", "part[windseamask].sum() / part.sum()", "part.sum() / part[windseamask].sum()", 0, ""),
 ("p3-01", "np_ptm3", "V", "range(1, nparts + 1)", "range(1, nparts)", 0, "last basin lost"),
 ("p3-02", "np_ptm3", "V", "range(1, nparts + 1)", "range(0, nparts + 1)", 0, "label 0 becomes a partition"),
 ("p3-03", "np_ptm3", "V", "watershed_map == npart", "watershed_map == npart + 1", 0, ""),
 ("p3-04", "np_ptm3", "V", "parts is not None", "parts is None", 0, ""),
 ("p3-05", "np_ptm3", "N", "nparts > parts", "nparts >= parts", 0, "neutral: at equality the slice keeps everything"),
 ("p3-06", "np_ptm3", "V", "partitions[:parts]", "partitions[:nparts]", 0, "no truncation"),
 ("p3-07", "np_ptm3", "V", "partitions.append(template)", "partitions.append(spectrum)", 0, ""),
 ("p3-08", "np_ptm3", "V", "-npstats.hs", "npstats.hs", 0, ""),
 ("p3-09", "np_ptm3", "V", "npart, spectrum, 0.0", "npart, spectrum_smooth, 0.0", 0, ""),
 ("p3-10", "np_ptm3", "V", "elif nparts < parts", "elif nparts > parts", 0, "padding branch dead"),
 ("p3-11", "np_ptm3", "N", "parts - len(partitions)", "parts - nparts", 0, "neutral: len(partitions) = nparts"),
 ("p3-12", "np_ptm3", "V", "def np_ptm3(", "@np.vectorize\ndef np_ptm3(", 0, "decorated"),
 ("p3-13", "np_ptm3", "N", "PTM3 spectra partitioning on numpy arrays.", "PTM3 spectra partitioning on arrays.", 0, "docstring"),
 ("p3-14", "np_ptm3", "V", "    nparts = watershed_map.max()\n", "    nparts = watershed_map.max()\n    spectrum = spectrum * 2.0\n", 0, "inserted statement"),
 ("p3-15", "np_ptm3", "V", "template = np.zeros_like(spectrum)", "template = spectrum_smooth", 0, "pads with the smoothed spectrum (a bare alias)"),
 ("p3-16", "np_ptm3", "N", 'parts=DEFAULTS["swells"]', 'parts=DEFAULTS["window"]', 0, "default read from another key with the same value 3: neutral"),
 ("p3-21", "np_ptm3", "V", 'parts=DEFAULTS["swells"]', 'parts=DEFAULTS["ihmax"]', 0, "default 100"),
 ("p3-17", "np_ptm3", "V", 'ihmax=DEFAULTS["ihmax"]', "ihmax=50", 0, "default"),
 ("p3-18", "np_ptm3", "V", "partitions = list(np.array(partitions)[isort])", "partitions = list(np.array(partitions))", 0, "sort result unused"),
 ("p3-19", None, "V", "from wavespectra.core import npstats", "from wavespectra.core import xrstats as npstats", 0, "npstats bound to another module"),
 ("hs-01", None, "V", "def hs(spectrum, freq, dir=None, tail=True)", "def hs(spectrum, freq, dir=None, tail=False)", 0, "sort key without the tail", "wavespectra/core/npstats.py"),
 ("ut-01", None, "V", "D2R = np.pi / 180.0", "D2R = np.pi / 200.0", 0, "D2R", "wavespectra/core/utils.py"),
 ("p3-20", None, "V", "\ndef np_hp01(", "\nnp_ptm3 = np_ptm1\n\n\ndef np_hp01(", 0, "np_ptm3 re-bound at module level"),
]



def span(src, fn):
    if fn is None:
        return 0, len(src)
    a = src.index(f"\ndef {fn}(") + 1
    m = re.search(r"\n(?:def|class) ", src[a + 1:])
    b = a + 1 + m.start() if m else len(src)
    return a, b


def apply(src, fn, old, new, k):
    a, b = span(src, fn)
    seg = src[a:b]
    idx = -1
    for _ in range(k + 1):
        idx = seg.find(old, idx + 1)
        if idx < 0:
            raise SystemExit(f"pattern not found: {old!r} in {fn}")
    seg = seg[:idx] + new + seg[idx + len(old):]
    return src[:a] + seg + src[b:]


def theorem_starts(path):
    out = []
    for i, l in enumerate(Path(path).read_text().splitlines(), 1):
        m = re.match(r"\s*theorem\s+(\S+)", l)
        if m:
            out.append((i, m.group(1)))
    return out


def run_one(env):
    r = subprocess.run(["/venv/bin/python", "-W", "ignore", "-m", "harness.translate"], cwd=ROOT, env=env, capture_output=True, text=True)
    tr = [l.strip() for l in r.stdout.splitlines() if "ptm_" in l and "untranslatable" in l]
    b = subprocess.run(["lake", "build", "WsVerif.Props.C03ptm"], cwd=ROOT / "lean", env=env, capture_output=True, text=True)
    out = b.stdout + b.stderr
    bad = set()
    starts = theorem_starts(ROOT / "lean/WsVerif/Props/C03ptm.lean")
    for m in re.finditer(r"error: [^\n]*?C03ptm\.lean:(\d+):\d+", out):
        ln = int(m.group(1))
        c = [n for s, n in starts if s <= ln]
        if c:
            bad.add(c[-1])
    gen_err = bool(re.search(r"error: [^\n]*?Gen/PtmKernels\.lean", out))
    return tr, sorted(bad), gen_err, b.returncode


def main():
    only = set(sys.argv[1:])
    if MUT.exists():
        shutil.rmtree(MUT)
    shutil.copytree(HEAD / "wavespectra", MUT / "wavespectra")
    orig = (HEAD / REL).read_text()
    env = dict(os.environ, VERIF_REPO=str(MUT))
    res = []
    for (mid, fn, kind, old, new, k, note, *rest) in M:
        if only and mid not in only:
            continue
        rel = rest[0] if rest else REL
        (MUT / REL).write_text(orig)
        o2 = (HEAD / rel).read_text()
        (MUT / rel).write_text(apply(o2, fn, old, new, k))
        tr, bad, gen_err, rc = run_one(env)
        res.append(dict(id=mid, fn=fn or "(module)", kind=kind, old=old, new=new, note=note, untranslatable=tr, broken=bad, gen_err=gen_err, rc=rc))
        (MUT / rel).write_text(o2)
        print(mid, kind, "rc", rc, "| untr:", [t[:90] for t in tr], "| broken:", bad, "| gen_err" if gen_err else "", flush=True)
    (MUT / REL).write_text(orig)
    tr, bad, gen_err, rc = run_one(env)
    print("BASELINE on unmutated scratch tree: rc", rc, tr, bad)
    json.dump(res, open("/tmp/wk_ptm/scratch/selftest%s.json" % ("_sub" if only else ""), "w"), indent=1)
    shutil.rmtree(MUT)


main()

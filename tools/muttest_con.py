import os, re, shutil, subprocess, sys, json, time
HEAD="/tmp/wk_con/repo_head"; MUT="/tmp/wk_con/repo_mut"; VERIF="/tmp/wk_con/verif"
FQ="wavespectra/construct/frequency.py"; DR="wavespectra/construct/direction.py"; IN="wavespectra/construct/__init__.py"; UT="wavespectra/core/utils.py"
# (id, file, old, new, occurrence (0-based), value-changing?, description)
M=[
("p1",FQ,"-1.25","-1.35",0,1,"PM: exp coefficient 1.25 -> 1.35"),
("p2",FQ,"(freq / fp) ** -4","(freq / fp) ** -5",0,1,"PM: exponent -4 -> -5"),
("p3",FQ,"freq**5","freq**4",0,1,"PM: f^-5 -> f^-4"),
("p4",FQ,"(2 * pi) ** 4","(2 * pi) ** 3",0,1,"PM: (2pi)^4 -> ^3"),
("p5",FQ,"alpha=0.0081","alpha=0.0082",0,1,"PM: default alpha"),
("p6",FQ,"if hs is not None:","if hs is None:",0,1,"PM: rescale condition inverted"),
("p7",FQ,"alpha * g**2 /","alpha * g**3 /",0,1,"PM: g^2 -> g^3"),
("p8",FQ,"        dsout = scaled(dsout, hs)\n","        pass\n",0,1,"PM: rescale skipped"),
("j1",FQ,"freq <= fp","freq < fp",0,1,"JONSWAP: sigma selection <= -> <"),
("j2",FQ,"freq <= fp, sigma_a, sigma_b","freq <= fp, sigma_b, sigma_a",0,1,"JONSWAP: sigma_a/sigma_b swapped"),
("j3",FQ,"-(5 / 4)","-(5 / 3)",0,1,"JONSWAP: 5/4 -> 5/3"),
("j4",FQ,"freq**-5","freq**-4",0,1,"JONSWAP: f^-5 -> f^-4"),
("j5",FQ,"(2 * sigma**2","(3 * sigma**2",0,1,"JONSWAP: 2 sigma^2 -> 3 sigma^2"),
("j6",FQ,"gamma ** np.exp","alpha ** np.exp",0,1,"JONSWAP: base of peak enhancement"),
("j7",FQ,"np.exp(-((freq - fp) ** 2)","np.exp(((freq - fp) ** 2)",0,1,"JONSWAP: sign of peak exponent"),
("j8",FQ,"sigma_a=0.07","sigma_a=0.08",0,1,"JONSWAP: default sigma_a"),
("j9",FQ,"gamma=3.3","gamma=3.4",0,1,"JONSWAP: default gamma"),
("j10",FQ,"sigma_b=0.09","sigma_b=0.08",0,1,"JONSWAP: default sigma_b"),
("j11",FQ,"term1 * term2 * term3","term1 * term2 * term2",0,1,"JONSWAP: term3 dropped"),
("j12",FQ,"(2 * pi) ** -4","(2 * pi) ** -3",0,1,"JONSWAP: (2pi)^-4 -> ^-3"),
("j13",FQ,"* fp**2))","* fp**3))",0,1,"JONSWAP: fp^2 -> fp^3 in peak exponent"),
("t1",FQ,"jonswap(freq, fp, alpha, gamma,","jonswap(freq, fp, gamma, gamma,",0,1,"TMA: alpha not forwarded (gamma passed)"),
("t1b",FQ,"jonswap(freq, fp, alpha, gamma, sigma_a, sigma_b, hs)","jonswap(freq, fp, gamma=gamma, sigma_a=sigma_a, sigma_b=sigma_b, hs=hs)",0,1,"TMA: alpha forwarding dropped (default used)"),
("t2",FQ,"np.tanh(k * dep) ** 2","np.tanh(k * dep) ** 3",0,1,"TMA: tanh^2 -> tanh^3"),
("t3",FQ,"(1 + (2 * k * dep)","(1 - (2 * k * dep)",0,1,"TMA: sign in depth factor"),
("t4",FQ,"np.sinh(2 * k * dep)","np.sinh(k * dep)",0,1,"TMA: sinh(2kd) -> sinh(kd)"),
("t5",FQ,"np.tanh(k * dep)","np.sinh(k * dep)",0,1,"TMA: tanh -> sinh"),
("t6",FQ,"    dsout = dsout * phi\n\n    if hs is not None:\n        dsout = scaled(dsout, hs)\n","    dsout = dsout * phi\n",0,1,"TMA: second rescale removed"),
("t7",FQ,"dsout * phi","dsout / phi",0,1,"TMA: * phi -> / phi"),
("t8",FQ,"sigma_a, sigma_b, hs)\n    k = wavenuma","sigma_a, sigma_b, None)\n    k = wavenuma",0,1,"TMA: hs not forwarded to jonswap"),
("t9",FQ,"wavenuma(freq, dep)","wavenuma(dep, freq)",0,1,"TMA: wavenuma arguments swapped"),
("g1",FQ,"(hs / 4) ** 2","(hs / 2) ** 2",0,1,"Gaussian: m0 = (hs/4)^2 -> (hs/2)^2"),
("g2",FQ,"np.exp(-0.5 *","np.exp(-0.6 *",0,1,"Gaussian: -0.5 -> -0.6"),
("g3",FQ,"np.sqrt(2 * pi)","np.sqrt(pi)",0,1,"Gaussian: sqrt(2pi) -> sqrt(pi)"),
("g4",FQ,"/ gw) ** 2)","/ gw) ** 3)",0,1,"Gaussian: squared -> cubed"),
("g5",FQ,"dsout = scaled(dsout, hs)\n    dsout.name = attrs.SPECNAME\n    return","dsout = scaled(dsout, fp)\n    dsout.name = attrs.SPECNAME\n    return",0,1,"Gaussian: scaled to fp instead of hs"),
("c1",FQ,'when_true="jonswap", when_false="gaussian"','when_true="gaussian", when_false="jonswap"',0,1,"conditional: defaults swapped"),
("c2",FQ,"xr.where(cond, ds_true, ds_false)","xr.where(cond, ds_false, ds_true)",0,1,"conditional: branches swapped"),
("c3",FQ,"false_func = globals()[when_false]","false_func = globals()[when_true]",0,1,"conditional: false_func from when_true"),
("c4",FQ,'    arguments.update(arg_vals.locals["kwargs"])\n',"",0,1,"conditional: kwargs not forwarded"),
("s1",UT,"spec.spec.hs()) ** 2","spec.spec.hs()) ** 3",0,1,"scaled: squared -> cubed"),
("s2",UT,"(hs / spec.spec.hs())","(spec.spec.hs() / hs)",0,1,"scaled: ratio inverted"),
("s3",UT,"return fac * spec","return fac + spec",0,1,"scaled: * -> +"),
("d1",DR,"dth <= 180","dth < 180",0,1,"cartwright: wrap <= -> <"),
("d2",DR,"360.0 - dth","180.0 - dth",0,1,"cartwright: 360 -> 180"),
("d3",DR,"s = 2.0 /","s = 1.0 /",0,1,"cartwright: s = 2/.. -> 1/.."),
("d4",DR,"** 2) - 1","** 2) - 2",0,1,"cartwright: s = .. - 1 -> - 2"),
("d5",DR,"np.cos(0.5 *","np.cos(0.25 *",0,1,"cartwright: half angle 0.5 -> 0.25"),
("d6",DR,"** (2 * s)","** (s)",0,1,"cartwright: exponent 2s -> s"),
("d7",DR,"<= 90.0","<= 80.0",0,1,"cartwright: under_90 limiter 90 -> 80"),
("d8",DR,"(2 * pi / dir.size)","(pi / dir.size)",0,1,"cartwright: normalisation 2pi -> pi"),
("d9",DR,"return gth / R2D","return gth * R2D",0,1,"cartwright: / R2D -> * R2D"),
("d10",DR,"    gth = gth * gsum\n","",0,1,"cartwright: normalisation by gsum dropped"),
("d11",DR,"under_90=False, **kwargs","under_90=True, **kwargs",0,1,"cartwright: default under_90"),
("d12",DR,"gsum = 1.0 / (gth.sum(attrs.DIRNAME) * (2 * pi / dir.size))","gsum = 1.0 / gth.sum(attrs.DIRNAME)",0,1,"cartwright: normalisation by the bin width dropped"),
("d13",DR,"np.abs(dir - dm)","np.abs(dir + dm)",0,1,"cartwright: dir - dm -> dir + dm"),
("d14",DR,"gth.where(np.abs(dth) <= 90.0, 0.0)","gth.where(np.abs(dth) <= 90.0, 1.0)",0,1,"cartwright: mask value 0 -> 1"),
("a1",DR,"np.maximum(fm - fp, 0.001)","np.maximum(fm - fp, 0.01)",0,1,"asymmetric: limiter 0.001 -> 0.01"),
("a2",DR,"sigma >= 0.14, 0.14","sigma >= 0.14, 0.15",0,1,"asymmetric: limiter value 0.14 -> 0.15"),
("a3",DR,"1.5 * dpm","1.4 * dpm",0,1,"asymmetric: 1.5 dpm -> 1.4 dpm"),
("a4",DR,"0.5 * dspr","0.4 * dspr",0,1,"asymmetric: 0.5 dspr -> 0.4 dspr"),
("a5",DR,"ds = np.maximum(dspr - dpspr, 0)","ds = np.minimum(dspr - dpspr, 0)",0,1,"asymmetric: maximum -> minimum"),
("a6",DR,"% 360 - 180","% 360 - 170",0,1,"asymmetric: wrap offset"),
("a7",DR,"dddf = dd / df","dddf = dd * df",0,1,"asymmetric: dd/df -> dd*df"),
("a8",DR,"under_90=False)","under_90=True)",0,1,"asymmetric: under_90 passed True"),
("a9",DR,"cartwright(dir, theta, sigma,","cartwright(dir, sigma, theta,",0,1,"asymmetric: theta/sigma swapped"),
("a10",DR,"sigma.where(sigma >= 0.14","sigma.where(sigma > 0.14",0,0,"asymmetric: >= -> > at the limiter (value-neutral: both branches give 0.14 at equality)"),
("a11",DR,"theta = dpm + dddf","theta = dm + dddf",0,1,"asymmetric: dpm -> dm in theta"),
("k1",IN,"dset = efth1d * spread","dset = efth1d + spread",0,1,"construct_partition: * -> +"),
("k2",IN,"fillna(0.0)","fillna(1.0)",0,1,"construct_partition: fill value"),
("k3",IN,'load_function("wavespectra.construct.direction", dir_name)','load_function("wavespectra.construct.frequency", dir_name)',0,1,"construct_partition: spreading loaded from the wrong module"),
("k4",IN,'freq_name="jonswap", dir_name="cartwright", freq_kwargs','freq_name="tma", dir_name="cartwright", freq_kwargs',0,1,"construct_partition: default freq_name"),
("k5",IN,"spread = dir_func(**dir_kwargs)","spread = dir_func(**freq_kwargs)",0,1,"construct_partition: wrong kwargs"),
("o1",FQ,"np.exp(-1.25","np.expm1(-1.25",0,1,"PM: np.exp -> np.expm1 (out of grammar)"),
("o2",DR,"gth = np.cos(","gth = np.sin(",0,1,"cartwright: cos -> sin (out of grammar)"),
("o3",FQ,"dsout = term1 * term2 * term3","dsout = np.trapz(term1 * term2 * term3)",0,1,"JONSWAP: unknown call (out of grammar)"),
("n1",FQ,"check_same_coordinates(fp, alpha)","check_same_coordinates(alpha, fp)",0,0,"PM: value-neutral reorder of a plumbing call"),
("n2",FQ,"-1.25 *","-(5 / 4) *",0,0,"PM: value-neutral rewrite of the literal 1.25"),
("n3",DR,"s = 2.0 /","s = 2 /",0,0,"cartwright: value-neutral 2.0 -> 2"),
]
def theorems(path):
    out=[]
    for i,l in enumerate(open(path).read().splitlines()):
        m=re.match(r"\s*theorem\s+(\S+)",l)
        if m: out.append((i+1,m.group(1)))
    return out
def run_one(m):
    mid,f,old,new,occ,vc,desc=m
    for g in (FQ,DR,IN,UT):
        shutil.copy(os.path.join(HEAD,g),os.path.join(MUT,g))
    src=open(os.path.join(MUT,f)).read()
    idx=-1
    for _ in range(occ+1):
        idx=src.find(old,idx+1)
    if idx<0: return dict(id=mid,desc=desc,error="pattern not found")
    src=src[:idx]+new+src[idx+len(old):]
    open(os.path.join(MUT,f),"w").write(src)
    env=dict(os.environ,VERIF_REPO=MUT)
    r=subprocess.run(["/venv/bin/python","-W","ignore","-m","harness.translate"],cwd=VERIF,env=env,capture_output=True,text=True)
    unt=[l.strip() for l in r.stdout.splitlines() if l.strip().startswith("con_")]
    t0=time.time()
    b=subprocess.run(["lake","build","WsVerif.Props.C15con"],cwd=VERIF+"/lean",capture_output=True,text=True)
    out=b.stdout+b.stderr
    bad=set()
    ths=theorems(VERIF+"/lean/WsVerif/Props/C15con.lean")
    for mm in re.finditer(r"error: [^\n]*?C15con\.lean:(\d+):\d+",out):
        ln=int(mm.group(1)); c=[n for s,n in ths if s<=ln]
        if c: bad.add(c[-1])
    other=sorted(set(re.findall(r"error: [^\n]*?((?:Lemmas|Gen|Props)/(?!C15con)\w+\.lean):\d+",out)))
    return dict(id=mid,file=f,desc=desc,value_changing=bool(vc),untranslatable=[u.split()[0] for u in unt],unt_msgs=unt,
                build_ok=b.returncode==0,broken=sorted(bad),other_errors=other,secs=round(time.time()-t0,1))
M2=[
("m1",DR,"gth.sum(attrs.DIRNAME)","gth.sum(attrs.FREQNAME)",0,1,"cartwright: sum over the wrong dimension (out of grammar)"),
("m2",DR,"sigma = dpspr + dsdf * (freq - fp)","sigma = dpspr + dsdf * (freq + fp)",0,1,"asymmetric: freq - fp -> freq + fp in sigma"),
("m3",DR,"theta = np.minimum(1.5 * dpm, np.maximum(0.5 * dpm, theta))","theta = np.maximum(1.5 * dpm, np.minimum(0.5 * dpm, theta))",0,1,"asymmetric: min/max of the theta limiter swapped"),
("m4",DR,"theta, sigma = xr.broadcast(theta, sigma)","sigma, theta = xr.broadcast(theta, sigma)",0,1,"asymmetric: broadcast results swapped"),
("m5",FQ,"from scipy.constants import g, pi","from scipy.constants import g, golden as pi",0,1,"frequency.py: pi bound to another constant"),
("m6",FQ,"from wavespectra.core.utils import scaled,","from wavespectra.core.npstats import scaled\nfrom wavespectra.core.utils import",0,1,"frequency.py: scaled imported from another module"),
("m7",FQ,"ds_false = false_func(**arguments)","ds_false = true_func(**arguments)",0,1,"conditional: both shapes from true_func"),
("m8",FQ,"    freq,\n    fp,\n    dep,\n","    freq,\n    dep,\n    fp,\n",0,1,"tma: signature order fp/dep swapped"),
("m9",FQ,"        dsout = scaled(dsout, hs)\n","        dsout = scaled(dsout, fp)\n",0,1,"PM: rescaled to fp instead of hs"),
("m10",IN,"return dset.fillna(0.0)","return dset",0,1,"construct_partition: fillna dropped"),
("m11",FQ,"jonswap(freq, fp, alpha, gamma, sigma_a, sigma_b, hs)","jonswap(freq, fp, alpha, gamma, sigma_b, sigma_a, hs)",0,1,"TMA: sigma_a/sigma_b swapped in the call"),
("m12",FQ,'to_coords(freq, "freq")','to_coords(freq, "dir")',0,1,"PM: frequency array labelled dir"),
("m13",DR,"    if under_90:","    if not under_90:",0,1,"cartwright: mask condition inverted"),
("m14",UT,"spec.spec.hs()","spec.spec.hs(tail=False)",0,1,"scaled: hs without the tail"),
("m15",UT,"spec.spec.hs()","spec.spec.hmax()",0,1,"scaled: hmax instead of hs"),
("m16",DR,"dth = dth.where(dth <= 180, 360.0 - dth)","dth = dth.where(dth >= 180, 360.0 - dth)",0,1,"cartwright: wrap condition inverted"),
("m17",DR,"gsum = 1.0 / (gth.sum","gsum = 2.0 / (gth.sum",0,1,"cartwright: numerator of gsum 1 -> 2"),
("m18",FQ,"mo / (gw * np.sqrt(2 * pi))","mo * (gw * np.sqrt(2 * pi))",0,1,"Gaussian: / -> * in the coefficient"),
("m19",DR,"def asymmetric(dir, freq, dm, dpm, dspr, dpspr, fm, fp, **kwargs):","def asymmetric(dir, freq, dm, dpm, dspr, dpspr, fm, fp, **kwargs):\n    fm, fp = fp, fm",0,1,"asymmetric: fm/fp swapped at entry (out of grammar)"),
("m21",FQ,"import numpy as np","import math as np",0,1,"frequency.py: np bound to another module"),
("m22",FQ,"\n\ndef gaussian(","\n\ndef scaled(spec, hs):\n    return spec\n\n\ndef gaussian(",0,1,"frequency.py: scaled shadowed by a local definition"),
("m23",DR,"from wavespectra.core.utils import R2D,","from wavespectra.core.utils import D2R as R2D,",0,1,"direction.py: R2D bound to D2R"),
("m20",DR,"\n\ndef asymmetric(","\n\ndef wrapped_normal(dir, dm, dspr, **kwargs):\n    return dir\n\n\ndef asymmetric(",0,0,"direction.py: a new spreading function outside the specification"),
]
if __name__=="__main__":
    if sys.argv[1:2]==["--m2"]:
        M=M+M2; sys.argv=[sys.argv[0]]+["x-all"]

    sel=sys.argv[1:]
    allm = sel==["x-all"]
    if allm: sel=[m[0] for m in M]
    res=[]
    for m in M:
        if sel and m[0] not in sel: continue
        r=run_one(m); res.append(r)
        print(json.dumps(r),flush=True)
    json.dump(res,open("/tmp/wk_con/scratch/mut_results.json" if not sel else ("/tmp/wk_con/scratch/mut_results2.json" if allm else "/tmp/wk_con/scratch/mut_sel.json"),"w"),indent=1)

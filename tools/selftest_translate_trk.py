"""Self-test of harness/translate_trk.py by source mutation (run from the framework root):

    /venv/bin/python tools/selftest_translate_trk.py [--only dfp,match,track] [--keep]

For every single-token edit of `wavespectra/partition/tracking.py` listed below, in a scratch copy of the library
(never /repo): run the translator with VERIF_REPO on the mutated tree, put back every generated file except
`Gen/TrackKernels.lean` (so that only the `gentrk_*` bridges are measured), `lake build WsVerif.Props.C19trk`, and record
which kernels are reported untranslatable and which theorems stop compiling.  Each edit is also classified as
value-changing or not by running the original and the mutated Python functions on random inputs.  At the end the
translator is re-run on the unmutated tree and the scratch copies are removed.
"""
import importlib.util
import os
import re
import shutil
import subprocess
import sys
from pathlib import Path

ROOT = Path(__file__).resolve().parent.parent
LEAN = ROOT / "lean"
GEN = LEAN / "WsVerif" / "Gen"
SCRATCH = Path(os.environ.get("TRK_SCRATCH", "/tmp/wk_trk/selftest"))
SRC = "wavespectra/partition/tracking.py"

# (id, function, old, new, occurrence index (0-based) of `old`, description)
M = [
    ("w01", "dfp", "15.8", "15.9", 0, "dfp_wsea coefficient 15.8 -> 15.9"),
    ("w02", "dfp", "** 0.57", "** 0.58", 0, "exponent 0.57 -> 0.58"),
    ("w03", "dfp", "(g / wspd)", "(g * wspd)", 0, "g / wspd -> g * wspd"),
    ("w04", "dfp", "(-1 / 0.43)", "(1 / 0.43)", 0, "sign of the exponent -1/0.43"),
    ("w05", "dfp", "(t0 + dt)", "(t0 - dt)", 0, "t0 + dt -> t0 - dt"),
    ("w06", "dfp", "(-0.43)", "(-0.44)", 0, "exponent -0.43 -> -0.44"),
    ("w07", "dfp", "(-0.43) - fp", "(-0.43) + fp", 0, "final - fp -> + fp"),
    ("w08", "dfp", "scaling: float = 1.0", "scaling: float = 2.0", 0, "default scaling 1.0 -> 2.0"),
    ("w09", "dfp", "scaling * tmp *", "scaling + tmp *", 0, "scaling * tmp -> scaling + tmp"),
    ("w10", "dfp", "return dt * g / (4 * pi * distance)", "return dt * g / (2 * pi * distance)", 0, "dfp_swell 4 pi -> 2 pi"),
    ("w11", "dfp", "distance: float = 1e6", "distance: float = 1e5", 0, "dfp_swell default distance 1e6 -> 1e5"),
    ("w12", "dfp", "return dt * g / (4", "return dt / g / (4", 0, "dfp_swell dt * g -> dt / g"),
    ("w13", "dfp", "** 0.57", "** 2", 0, "exponent 0.57 -> 2 (no oracle any more)"),
    ("m01", "match", 'dtype="int16") * -999', 'dtype="int16") * -998', 0, "initial marker -999 -> -998"),
    ("m02", "match", "+ 180\n", "+ 90\n", 0, "wrap offset + 180 -> + 90"),
    ("m03", "match", "        % 360\n", "", 0, "`% 360` removed"),
    ("m04", "match", "ddpm = np.abs(\n", "ddpm = (\n", 0, "dropped abs of the direction difference"),
    ("m05", "match", "np.repeat(dpm[:, 1].reshape", "np.repeat(dpm[:, 0].reshape", 0, "current direction column 1 -> 0"),
    ("m06", "match", "np.array([ddpm_sea_max] + [ddpm_swell_max]", "np.array([ddpm_swell_max] + [ddpm_sea_max]", 0, "swapped sea/swell direction thresholds"),
    ("m07", "match", "[-dfp_swell_max]", "[dfp_swell_max]", 0, "dfp_min: dropped minus of the swell threshold"),
    ("m08", "match", "np.array([dfp_sea_max] + [-dfp_swell_max]", "np.array([-dfp_swell_max] + [dfp_sea_max]", 0, "swapped sea/swell lower frequency thresholds"),
    ("m09", "match", "ddpm < ddpm_max", "ddpm <= ddpm_max", 0, "`<` -> `<=` in the direction threshold test"),
    ("m10", "match", "dfp > dfp_min", "dfp >= dfp_min", 0, "`>` -> `>=` in the lower frequency test"),
    ("m11", "match", "dfp < dfp_max", "dfp > dfp_max", 0, "`<` -> `>` in the upper frequency test"),
    ("m12", "match", "np.logical_and(ddpm < ddpm_max, np.logical_and(", "np.logical_or(ddpm < ddpm_max, np.logical_and(", 0, "outer logical_and -> logical_or"),
    ("m13", "match", "np.logical_and(dfp < dfp_max", "np.logical_or(dfp < dfp_max", 0, "inner logical_and -> logical_or"),
    ("m14", "match", "np.maximum(dfp_max", "np.minimum(dfp_max", 0, "np.maximum -> np.minimum in the normalisation"),
    ("m15", "match", "(np.abs(dfp) / np.maximum", "(dfp / np.maximum", 0, "dropped abs of dfp in the distance"),
    ("m16", "match", "+ ddpm / ddpm_max)", "- ddpm / ddpm_max)", 0, "distance: + -> -"),
    ("m17", "match", "        999,\n", "        998,\n", 0, "stored sentinel 999 -> 998"),
    ("m18", "match", "if d != 999", "if d != 998", 0, "tested sentinel 999 -> 998"),
    ("m19", "match", "d != 999 and ip_prev in available", "d != 999 or ip_prev in available", 0, "`and` -> `or` in the candidate filter"),
    ("m20", "match", "d != 999 and ip_prev in available", "d == 999 and ip_prev in available", 0, "`!=` -> `==` in the candidate filter"),
    ("m21", "match", "key=lambda x: x[-1]", "key=lambda x: x[0]", 0, "sort by index instead of distance"),
    ("m22", "match", "key=lambda x: x[-1],\n", "key=lambda x: x[-1], reverse=True,\n", 0, "argmin -> argmax (reverse=True)"),
    ("m23", "match", "matches[ip_curr] = part_matches[0][0]", "matches[ip_curr] = part_matches[-1][0]", 0, "argmin -> argmax (last of the sorted list)"),
    ("m24", "match", "if len(part_matches) == 0", "if len(part_matches) == 1", 0, "no-candidate test == 0 -> == 1"),
    ("m25", "match", "matches[ip_curr] = -888", "matches[ip_curr] = -887", 0, "unmatched marker -888 -> -887"),
    ("m26", "match", "                available.remove(part_matches[0][0])\n", "", 0, "predecessor not marked as used"),
    ("m27", "match", "enumerate(fp[:, 1])", "enumerate(fp[:, 0])", 0, "loop over the previous column"),
    ("m28", "match", "enumerate(~np.isnan(fp[:, 0]))", "enumerate(np.isnan(fp[:, 0]))", 0, "available = the NaN predecessors"),
    ("m29", "match", "enumerate(~np.isnan(fp[:, 0]))", "enumerate(~np.isnan(fp[:, 1]))", 0, "available computed from the current column"),
    ("m30", "match", "if ~np.isnan(fp_curr)", "if np.isnan(fp_curr)", 0, "dropped ~ in the current-slot test"),
    ("m31", "match", "enumerate(partition_distance[ip_curr, :])", "enumerate(partition_distance[0, :])", 0, "row of the distance matrix fixed to 0"),
    ("m32", "match", "available.remove(part_matches[0][0])", "available.remove(ip_curr)", 0, "removes the wrong element"),
    ("m33", "match", "fp[:, 1].reshape((-1, 1)), fp.shape[0], axis=1) - np.repeat(", "fp[:, 1].reshape((-1, 1)), fp.shape[0], axis=1) + np.repeat(", 0, "dfp: - -> +"),
    ("m34", "match", 'dtype="int16") * -999', 'dtype="int8") * -999', 0, "dtype int16 -> int8 (storage not modelled; pinned as text)"),
    ("t01", "track", "ddpm_sea_max=30", "ddpm_sea_max=31", 0, "default ddpm_sea_max 30 -> 31"),
    ("t02", "track", "ddpm_swell_max=20", "ddpm_swell_max=21", 0, "default ddpm_swell_max 20 -> 21"),
    ("t03", "track", "dfp_sea_scaling=1,", "dfp_sea_scaling=2,", 0, "default dfp_sea_scaling 1 -> 2"),
    ("t04", "track", "dfp_swell_source_distance=1e6", "dfp_swell_source_distance=1e5", 0, "default source distance 1e6 -> 1e5"),
    ("t05", "track", 'np.timedelta64(1, "s")', 'np.timedelta64(2, "s")', 0, "dt unit 1 s -> 2 s"),
    ("t06", "track", 'np.timedelta64(1, "s")', 'np.timedelta64(1, "m")', 0, "dt unit s -> m"),
    ("t07", "track", "fp=fp[0, :], dt=dt", "fp=fp[1, :], dt=dt", 0, "sea threshold from partition 1 instead of 0"),
    ("t08", "track", "dfp_sea_max=dfp_sea_max[it - 1]", "dfp_sea_max=dfp_sea_max[it]", 0, "sea threshold of the current step"),
    ("t09", "track", "fp=fp[:, it - 1 : it + 1]", "fp=fp[:, it : it + 1]", 0, "fp slice loses the previous column"),
    ("t10", "track", "dpm=dpm[:, it - 1 : it + 1]", "dpm=dpm[:, it - 1 : it + 2]", 0, "dpm slice one column longer (value-neutral)"),
    ("t11", "track", "ddpm_sea_max=ddpm_sea_max,", "ddpm_sea_max=ddpm_swell_max,", 0, "sea direction threshold replaced by swell in the call"),
    ("t12", "track", "dfp_swell_max=dfp_swell_max,", "dfp_swell_max=-dfp_swell_max,", 0, "negated swell threshold in the call"),
    ("t13", "track", "for it in range(1, times.shape[0])", "for it in range(2, times.shape[0])", 0, "matching starts at step 2"),
    ("t14", "track", "part_id = 0 ", "part_id = 1 ", 0, "counter starts at 1"),
    ("t15", "track", "            part_id += 1\n", "            part_id += 2\n", 0, "first-step counter + 1 -> + 2"),
    ("t16", "track", "                part_id += 1\n", "                part_id += 2\n", 0, "propagation counter + 1 -> + 2"),
    ("t17", "track", "if part_ids[ip, it] == -888", "if part_ids[ip, it] == -887", 0, "unmatched marker test -888 -> -887"),
    ("t18", "track", "elif part_ids[ip, it] != -999", "elif part_ids[ip, it] != -998", 0, "empty marker test -999 -> -998"),
    ("t19", "track", "part_ids[part_ids[ip, it], it - 1]", "part_ids[part_ids[ip, it], it]", 0, "identifier read from the current column"),
    ("t20", "track", "part_ids[part_ids[ip, it], it - 1]", "part_ids[ip, it - 1]", 0, "identifier inherited from the same slot"),
    ("t21", "track", "if ~np.isnan(vfp)", "if np.isnan(vfp)", 0, "first step numbers the NaN slots"),
    ("t22", "track", "part_ids[ip, 0] = part_id", "part_ids[ip, 1] = part_id", 0, "first-step ids written to column 1"),
    ("t23", "track", "return part_ids, part_id", "return part_ids, part_id + 1", 0, "returned count + 1"),
    ("t24", "track", 'dtype="int16") * -999]', 'dtype="int16") * -998]', 0, "first column marker -999 -> -998 (overwritten or not)"),
    ("t25", "track", "for it in range(1, times.size)", "for it in range(2, times.size)", 0, "propagation starts at step 2"),
    ("t26", "track", "for ip in range(fp.shape[0])", "for ip in range(1, fp.shape[0])", 0, "propagation skips slot 0"),
    ("t27", "track", "enumerate(fp[:, 0]):\n        if ~np.isnan(vfp)", "enumerate(fp[:, 1]):\n        if ~np.isnan(vfp)", 0, "first step numbered from column 1"),
    ("t28", "track", "times[:2]", "times[1:3]", 0, "dt from stamps 1, 2 (equal on a regular axis)"),
    ("t29", "track", "dt=dt, scaling=dfp_sea_scaling", "dt=dt", 0, "dfp_sea_scaling not passed on"),
    ("t30", "track", "dfp_swell(dt=dt, distance=dfp_swell_source_distance)", "dfp_swell(dt=dt)", 0, "source distance not passed on (callee default)"),
    ("t31", "track", "part_ids[ip, it] = part_id\n", "part_ids[ip, it] = part_id + 1\n", 0, "fresh identifier off by one"),
    ("t32", "track", "elif part_ids[ip, it] != -999", "if part_ids[ip, it] != -999", 0, "elif -> if (a fresh id is then used as an index)"),
]


def sh(cmd, **kw):
    return subprocess.run(cmd, capture_output=True, text=True, **kw)


def load(path, name):
    spec = importlib.util.spec_from_file_location(name, path)
    m = importlib.util.module_from_spec(spec)
    spec.loader.exec_module(m)
    return m


def behaviour(mod):
    """outputs of the three functions on fixed random inputs (exceptions recorded by type)"""
    import numpy as np

    rng = np.random.default_rng(7)
    out = []
    for _ in range(60):
        P, T = int(rng.integers(1, 5)), int(rng.integers(2, 7))
        fp = rng.choice([0.08, 0.1, 0.1003, 0.101, 0.11, 0.12, 0.2, np.nan], size=(P, T))
        dpm = rng.choice([0.0, 8.0, 15.0, 19.0, 20.0, 25.0, 30.0, 350.0, 90.0, 180.0], size=(P, T))
        dpm[np.isnan(fp)] = np.nan
        wspd = rng.choice([3.0, 8.0, 15.0, np.nan], size=T, p=[0.3, 0.3, 0.3, 0.1])
        step = float(rng.choice([600.0, 3600.0, 10800.0]))
        times = np.array([np.datetime64("2020-01-01T00:00:00") + np.timedelta64(int(step * i), "s") for i in range(T)])
        res = []
        for f in (lambda: mod.dfp_wsea(wspd, fp[0, :], step), lambda: mod.dfp_wsea(8.0, 0.1, step, 1.5), lambda: mod.dfp_swell(step),
                  lambda: mod.dfp_swell(step, 2.0e6),
                  lambda: mod.match_consecutive_partitions(fp[:, :2], dpm[:, :2], -0.004, 0.0005 * step / 600, 30, 20),
                  lambda: mod.match_consecutive_partitions(fp[:, :2], dpm[:, :2], np.nan, 0.02, 19.0, 30),
                  lambda: mod.np_track_partitions(times, fp, dpm, wspd),
                  lambda: mod.np_track_partitions(times, fp, dpm, wspd, 25, 40, 1.3, 3e5)):
            try:
                with np.errstate(all="ignore"):
                    r = f()
                res.append(repr(np.asarray(r[0]).tolist()) + repr(r[1]) if isinstance(r, tuple) else repr(np.asarray(r).tolist()))
            except Exception as e:  # noqa
                res.append("EXC " + type(e).__name__)
        out.append(res)
    return out


def theorem_at(props_lines, ln):
    """name of the declaration that owns line `ln` (1-based); a doc comment belongs to the declaration after it"""
    owner, cur, pending = {}, None, None
    for i, l in enumerate(props_lines, 1):
        if l.lstrip().startswith("/--") and pending is None:
            pending = i
        m = re.match(r"\s*(theorem|example|def)\b\s*(\S*)", l)
        if m:
            cur = m.group(2) if m.group(1) == "theorem" else f"{m.group(1)}@{i}"
            for j in range(pending or i, i + 1):
                owner[j] = cur
            pending = None
        elif pending is None:
            owner[i] = cur
    return owner.get(ln)


def main():
    only = None
    if "--only" in sys.argv:
        only = set(sys.argv[sys.argv.index("--only") + 1].split(","))
    base = SCRATCH / "repo_head"
    mut = SCRATCH / "repo_mut"
    shutil.rmtree(SCRATCH, ignore_errors=True)
    base.mkdir(parents=True)
    tar = subprocess.Popen(["git", "-C", os.environ.get("VERIF_REPO_GIT", "/repo"), "archive", "HEAD"], stdout=subprocess.PIPE)
    subprocess.run(["tar", "-x", "-C", str(base)], stdin=tar.stdout, check=True)
    env0 = dict(os.environ, VERIF_REPO=str(base))
    r = sh(["/venv/bin/python", "-W", "ignore", "-m", "harness.translate"], cwd=ROOT, env=env0)
    assert "trk_" not in r.stdout.split("untranslatable", 1)[-1], r.stdout
    keep = {p.name: p.read_text() for p in GEN.glob("*.lean") if p.name != "TrackKernels.lean"}
    r = sh(["lake", "build", "WsVerif.Props.C19trk"], cwd=LEAN)
    assert r.returncode == 0, "baseline does not build:\n" + r.stdout[-3000:]
    src0 = (base / SRC).read_text()
    ref = behaviour(load(base / SRC, "trk_ref"))
    props = (LEAN / "WsVerif" / "Props" / "C19trk.lean").read_text().splitlines()
    rows = []
    for mid, grp, old, new, occ, desc in M:
        if only and grp not in only:
            continue
        idxs = [m.start() for m in re.finditer(re.escape(old), src0)]
        if len(idxs) <= occ:
            rows.append((mid, desc, "EDIT-NOT-APPLICABLE", "", ""))
            continue
        if len(idxs) > 1 and occ == 0 and mid not in ("t15", "t16"):
            pass
        i = idxs[occ]
        src = src0[:i] + new + src0[i + len(old):]
        shutil.rmtree(mut, ignore_errors=True)
        shutil.copytree(base, mut)
        (mut / SRC).write_text(src)
        try:
            beh = behaviour(load(mut / SRC, "trk_mut_" + mid))
            changing = "yes" if beh != ref else "no"
        except Exception as e:  # syntax error etc.
            changing = "n/a (" + type(e).__name__ + ")"
        r = sh(["/venv/bin/python", "-W", "ignore", "-m", "harness.translate"], cwd=ROOT, env=dict(os.environ, VERIF_REPO=str(mut)))
        untr = [l.strip() for l in r.stdout.splitlines() if l.strip().startswith("trk_")]
        for name, text in keep.items():  # measure only the gentrk bridges
            if (GEN / name).read_text() != text:
                (GEN / name).write_text(text)
        b = sh(["lake", "build", "WsVerif.Props.C19trk"], cwd=LEAN)
        broken = set()
        other = set()
        for m in re.finditer(r"error: ([\w/.]+\.lean):(\d+):\d+", b.stdout + b.stderr):
            if m.group(1).endswith("Props/C19trk.lean"):
                broken.add(theorem_at(props, int(m.group(2))))
            else:
                other.add(Path(m.group(1)).name)
        verdict = "caught" if (untr or b.returncode != 0) else "NOT CAUGHT"
        rows.append((mid, desc, changing, "; ".join(u.split(" ", 2)[0] + " untranslatable: " + u.split("Untranslatable: ", 1)[-1][:90] for u in untr),
                     ", ".join(sorted(x for x in broken if x)) + ((" + errors in " + ", ".join(sorted(other))) if other else ""), verdict))
        print(rows[-1], flush=True)
    # restore
    r = sh(["/venv/bin/python", "-W", "ignore", "-m", "harness.translate"], cwd=ROOT,
           env=dict(os.environ, VERIF_REPO=os.environ.get("VERIF_REPO", "/repo")))
    b = sh(["lake", "build", "WsVerif.Props.C19trk"], cwd=LEAN)
    print("restored against", os.environ.get("VERIF_REPO", "/repo"), "translate:", r.stdout.strip().splitlines()[0] if r.stdout else r.stderr[-200:],
          "| build rc", b.returncode)
    if "--keep" not in sys.argv:
        shutil.rmtree(SCRATCH, ignore_errors=True)
    out = ["| id | edit | value-changing | reported untranslatable | `gentrk_*` theorems that stop compiling | verdict |", "|---|---|---|---|---|---|"]
    for row in rows:
        row = tuple(row) + ("",) * (6 - len(row))
        out.append("| " + " | ".join(str(c).replace("|", "\\|") for c in row) + " |")
    bad = [r for r in rows if len(r) > 5 and r[2] == "yes" and r[5] != "caught"]
    out.append("")
    out.append(f"{len(rows)} edits; value-changing: {sum(1 for r in rows if r[2] == 'yes')}; value-changing and not caught: {len(bad)}")
    Path(os.environ.get("TRK_TABLE", str(ROOT / "tools" / "selftest_translate_trk.md"))).write_text("\n".join(out) + "\n")
    print("\n".join(out[-1:]))
    return 1 if bad else 0


if __name__ == "__main__":
    sys.exit(main())

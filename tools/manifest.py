#!/usr/bin/env python3
"""Regenerate MANIFEST.json from the table below (keeps it valid at all times)."""
import json, os, sys
ROOT = os.path.dirname(os.path.dirname(os.path.abspath(__file__)))
TB = "Trusted: Lean 4.33 kernel; axioms ⊆ {propext, Classical.choice, Quot.sound} (audited per theorem every run); translator harness/translate.py; hand-written model tied to the code only by the correspondence run; float tolerances and ambiguity margins of the harness."
CLAIMED = {
 "C01": dict(cat="proof", tech="Lean 4 proof: model = defining integrals; model/implementation correspondence",
   text="Lean 4 theorems (Props/C01.lean) prove, for every grid size and every list of values, that the model of each integrated statistic (staged like SpecArray: direction first, then frequency) equals the published double sum over bins with the dataset's own Δf_i, Δθ (moments, hs radicand with the 0.333 Hz tail, Tm01, Tm02², spread ingredients, widths, Goda, mss, to_energy, 1D consistency, positive bin widths, deep-water identities); regenerated literal lists tie the code's constants to the property's. The model is tied to the code by a generator-driven differential run of every accessor statistic (Dataset and DataArray, float32/64, extra dims) against the compiled Lean model. Not theorems: float rounding, sqrt/atan2/log, and the 0.1 % dispersion accuracy of wavenuma (numerical sweep, labelled exploration)."),
 "C02": dict(cat="proof", tech="Lean 4 proof: characterisation of the peak search and parabolic fit; correspondence + brute-force oracle",
   text="Lean 4 theorems (Props/C02.lean), all list lengths: the peak index is 0 or the first-largest interior strict local maximum (peakIdx_spec), is 0 exactly when a non-negative spectrum has no interior strict maximum (so NaN is produced then and only then), numpy-argmax semantics for dp, the regenerated npstats.tps kernel equals 1/vertex of the three-point parabola (bridged by rfl), the vertex lies strictly between the neighbouring bin midpoints hence Tp strictly between 1/f[p+1] and 1/f[p-1], dpm/dpspr use the peak row, alpha's window indices are valid. gamma: full statement refuted in Lean by a witness (global maximum on the boundary), partial theorem proved; the same input is a KNOWN-FINDING on the implementation. Tie: differential run of tp/fp/dp/dpm/dpspr/alpha/gamma on multi-modal, flat-topped, equal-peak, monotone, zero spectra at every position of multi-dimensional datasets + brute-force Fraction oracle."),
 "C10": dict(cat="proof", tech="Lean 4 proof: homogeneity, rotation equivariance and Cauchy–Schwarz bounds of the statistics model; pair-law oracle on the implementation",
   text="Lean 4 theorems (Props/C10.lean, 63 obligations), all list lengths: every moment/height radicand/drift/slope is linear in the spectrum (heights ×√k), every period, width, Goda, peak index, fitted peak frequency, peak direction index and gamma is invariant under k>0; relabelling directions rotates the per-frequency moment vectors (tables c'=cC+sS, s'=sC−cS with C²+S²=1) leaving a²+b², e and all table-free statistics unchanged, and the repaired Δθ is unchanged by a 0/360 wrap between the first two stored directions; bounds m1² ≤ m0·m2, m2² ≤ m0·m4, 1/fmax ≤ Tm02 ≤ Tm01 ≤ 1/fmin, swe² ∈ [0,1], sw² ≥ 0, a²+b² ≤ e² (dspr ≤ 81.03°), (·)%360 ∈ [0,360), tp inside the frequency range, dp a coordinate; scale_by_hs gives exactly Hs = |expr| where the condition holds and leaves the spectrum untouched elsewhere. The theorems are about the C01/C02 models (tied by those checks and re-sampled here); this check runs the pair laws and bounds directly on the implementation (S vs kS for k ∈ [1e-6,1e6], S vs relabelled S for any real a, scale_by_hs with random expressions and ranges). Not theorems: sqrt/atan2 steps, float32 rounding of dpm to 360.0; alpha and gw are not claimed scale-free (gw refuted in Lean, observation only)."),
 "C19": dict(cat="proof", tech="Lean 4 proof: invariants of the greedy matcher and id propagation by induction over time steps; exhaustive + random correspondence",
   text="Lean 4 theorems (Props/C19.lean, 27 obligations) for every number of steps T ≥ 1, every partition count and every distance matrix (hence every threshold, wind speed and value): ids_marker, ids_unique_per_step, ids_issued_in_order / ids_exact_range (ids are exactly 0..N−1 in order of first appearance), carry_within_thresholds (also on raw fp/dpm with the code's strict comparisons), match_injective / prev_continued_at_most_once, fresh_is_new, no_resurrection, greedy nearest-available characterisation, sites_independent; regenerated literals (999/888 sentinels, 180/360 wrap, defaults) bridged to the model. Tie: np_track_partitions, track_partitions and ptm1_track vs the compiled model on exhaustively enumerated short histories (quick: 2×46,656; thorough: 2×10⁶ with thresholds placed exactly on the alphabet's differences) and random histories up to T=200; the property's direct oracle runs on every implementation output. Not modelled: float evaluation of dfp_wsea (computed by the harness from the docstring and handed over as exact rationals); int16 storage (KNOWN-FINDING F21 beyond 32768 ids)."),
 "C14": dict(cat="proof", tech="Lean 4 proof: characterisation of nearest / IDW / bbox selection on a mod-360 longitude axis; correspondence + direct oracle",
   text="Lean 4 theorems (Props/C14.lean, 51 obligations) for all station lists, queries, tolerances and max_sites. For the code as repaired in this task (namespace Fixed; fix commits for the short-way distance and the mod-360 bounding box): nearest_min (returned station minimises the short-way distance and is within tolerance; AssertionError beyond it), idw_convex (weights > 0, sum 1, ∝ 1/d, at most max_sites, all within tolerance; exact station at distance 0; missing when fewer than two in range), bbox_exact (selected ⇔ some lon+360k in the widened box and latitude in range), convention_independent for nearest/idw/bbox, reported longitudes in the query's convention; regenerated _is_180/_is_360 kernels and literals bridged to the model. The pre-repair model is kept with its refutations (nearest_min_fails, idw_shortway_fails, bbox_exact_fails …) and partial theorems as a record of what the repair changed. Square roots enter through a verified oracle table (driver checks d² = radicand or the correctly rounded bracket). Tie: Dataset.spec.sel with all methods, both conventions for dataset and query, stations either side of 0°/180°, duplicated queries, precomputed dset_lons/lats vs the compiled model; the property's direct oracle on every result; ties at the max_sites cut compared as sets."),
}
REASON_TODO = "check not built yet in this session (work in progress; see DESIGN.md Appendix E for the order of construction)"
NA = {}

def main():
    props = [json.loads(l) for l in open(os.path.join(ROOT, "properties.jsonl"))]
    extra = {}
    p = os.path.join(ROOT, "tools", "manifest_extra.json")
    if os.path.exists(p):
        extra = json.load(open(p))
    claimed = dict(CLAIMED); claimed.update(extra.get("claimed", {}))
    na_reason = dict(NA); na_reason.update(extra.get("na", {}))
    checks = []
    for pid in sorted(claimed):
        c = claimed[pid]
        checks.append({
          "property_id": pid, "quick_cmd": f"./check {pid} --tier quick", "thorough_cmd": f"./check {pid} --tier thorough",
          "evidence_file": f"evidence/{pid}.json", "replay_cmd_template": f"./check {pid} --replay {{path}}",
          "engine": "lean4-model+correspondence",
          "level_claimed": {"category": c["cat"], "text": c["text"], "design_ref": f"DESIGN.md §3 {pid}"},
          "level_note": c.get("note", TB), "technique": c["tech"]})
    na = [{"property_id": q["id"], "reason": na_reason.get(q["id"], REASON_TODO)} for q in props if q["id"] not in claimed]
    m = {"version": 1, "setup_cmd": "./setup.sh",
      "hooks": {"guard": "WAVESPECTRA_VERIF", "enable": "no hooks in /repo: checks import the package from /repo's working tree with a freshly compiled extension and compile specpart.c into their own drivers (WAVESPECTRA_VERIF=1 is exported but unused)",
                "baseline_off_cmd": "cd /repo && /venv/bin/python -m pytest -ra -q -p no:cacheprovider --timeout=900 --continue-on-collection-errors", "source_commits": [], "add_only": True},
      "engines": [{"name": "lean4-model+correspondence", "path": "lean/", "serves_properties": sorted(claimed),
                   "kind_free_text": "Lean 4.33 + Mathlib proofs about executable rational models; Python harness drives the compiled model and the real package on the same inputs; T-tier translator regenerates constants/kernels from source"}],
      "checks": checks, "not_applicable": na,
      "notes": "See DESIGN.md. Properties move from not_applicable to checks as their models, theorems and correspondence are built."}
    json.dump(m, open(os.path.join(ROOT, "MANIFEST.json"), "w"), indent=1, ensure_ascii=False)
    print("claimed:", sorted(claimed))

if __name__ == "__main__":
    main()

"""Mutation self-test of translate_frm: single in-place-write edits in a scratch worktree; each must change the
regenerated write-set pinned by genfrm_<op>_writes (or make the op untranslatable).  Usage:
VERIF_REPO=/tmp/bldwt_D /venv/bin/python tools/muttest_frm.py  (run from the framework root)"""
import json, os, subprocess, sys
sys.path.insert(0, os.getcwd())
WT = os.environ["VERIF_REPO"]
MUTS = [
    ("from_ww3", "wavespectra/input/ww3.py", "    dset = dset.rename(mapping)\n", "    dset = dset.rename(mapping)\n    dset.attrs[\"x\"] = 1\n", "attrs write on a shallow view: own attrs -> still clean? (expected: unchanged set, see note)"),
    ("from_ww3", "wavespectra/input/ww3.py", "    vars_and_dims = set(dset.data_vars) | set(dset.dims)\n", "    vars_and_dims = set(dset.data_vars) | set(dset.dims)\n    dset.attrs[\"x\"] = 1\n", "dset.attrs[k]=1 on the parameter"),
    ("from_ww3", "wavespectra/input/ww3.py", "dset[attrs.SPECNAME] = dset[attrs.SPECNAME] * D2R", "dset[attrs.SPECNAME] *= D2R", "historic defect re-introduced after rename (shallow)"),
    ("from_ncswan", "wavespectra/input/ncswan.py", "dset[attrs.SPECNAME] = dset[attrs.SPECNAME] / R2D", "dset[attrs.SPECNAME] /= R2D", "historic defect re-introduced"),
    ("from_ncswan", "wavespectra/input/ncswan.py", "    dset = dset.rename(mapping)\n", "    dset[attrs.SPECNAME].values *= 2\n    dset = dset.rename(mapping)\n", "dset[v].values *= 2 on the parameter"),
    ("to_netcdf", "wavespectra/output/netcdf.py", "other = self.copy(deep=True)", "other = self.copy()", "deep copy -> shallow before encoding.update"),
    ("to_netcdf", "wavespectra/output/netcdf.py", "other = self.copy(deep=True)", "other = self", "copy dropped"),
    ("to_ww3", "wavespectra/output/ww3.py", "other = self.copy(deep=True)", "other = self.copy(deep=False)", "deep copy -> shallow before `other[efth] *= R2D`"),
    ("to_ww3", "wavespectra/output/ww3.py", "other = self.copy(deep=True)", "other = self", "copy dropped"),
    ("to_funwave", "wavespectra/output/funwave.py", "dir = (270 - self.dir.values) % 360", "dir = self.dir.values", "arithmetic copy dropped before dir[dir > 180] = …"),
    ("to_funwave", "wavespectra/output/funwave.py", "darr = self.efth.copy(deep=True)", "darr = self.efth.copy(deep=True)\n    self.efth.attrs.update({})", "attrs.update on a variable of the parameter"),
    ("regrid_spec", "wavespectra/core/utils.py", "    dsout = dset.copy()\n", "    dsout = dset\n", "shallow copy dropped before dsout.name = / set_spec_attributes(dsout)"),
    ("regrid_spec", "wavespectra/core/utils.py", "            highest = dsout.isel(dir=-1)\n", "            highest = dsout.isel(dir=-1)\n            highest.values[...] = 0\n", "buffer write through a view of a shallow copy"),
    ("smooth_spec", "wavespectra/core/utils.py", "    dsout = dset.sortby(attrs.DIRNAME)\n", "    dsout = dset\n", "sortby copy dropped before dsout[dir] = …"),
    ("sel_bbox", "wavespectra/core/select.py", "    dsout = dsout.assign_coords({attrs.SITENAME: np.arange(len(station_ids))})\n    return dsout\n\n\ndef", "    dsout = dsout.assign_coords({attrs.SITENAME: np.arange(len(station_ids))})\n    dset.encoding[\"x\"] = 1\n    return dsout\n\n\ndef", "encoding write on the parameter"),
    ("sa_rotate", "wavespectra/specarray.py", "    def rotate(self, angle) -> xr.DataArray:\n", "    def rotate(self, angle) -> xr.DataArray:\n        self._obj.name = \"x\"\n", "name write on the wrapped array"),
    ("scaled", "wavespectra/core/utils.py", "    return fac * spec\n", "    spec *= fac\n    return spec\n", "in-place scaling of the argument"),
    ("set_spec_attributes", "wavespectra/core/attributes.py", "dset[varname].attrs = attrs.ATTRS[varname]", "dset[varname].values = attrs.ATTRS[varname]", "attrs -> values"),
]
def run():
    from harness import translate_frm as T
    summ = {}; res = {}
    for lean, path, qn in T.OPS:
        try:
            w = T.translate_one(lean, path, qn, summ)
            ws = T.solve(w.params, w.prog)
            summ[lean] = (w.pnames, [(w.params.index(v), c) for v, c in ws])
            res[lean] = [(w.pnames[i], c) for i, c in summ[lean][1]]
        except Exception as e:
            res[lean] = "untranslatable: %s" % e
    return res
if __name__ == "__main__":
    if len(sys.argv) > 1 and sys.argv[1] == "one":
        print(json.dumps(run())); sys.exit(0)
    def sub():
        return json.loads(subprocess.run([sys.executable, "-W", "ignore", __file__, "one"], capture_output=True, text=True, env=os.environ).stdout.strip().splitlines()[-1])
    subprocess.run(["git", "-C", WT, "checkout", "-q", "."])
    base = sub()
    rows = []
    for op, path, old, new, what in MUTS:
        subprocess.run(["git", "-C", WT, "checkout", "-q", "."])
        src = open(os.path.join(WT, path)).read()
        if src.count(old) < 1:
            rows.append((op, what, "PATTERN NOT FOUND", "")); continue
        open(os.path.join(WT, path), "w").write(src.replace(old, new, 1))
        r = sub()
        changed = [k for k in r if r[k] != base[k]]
        rows.append((op, what, "caught" if changed else "NOT caught", "; ".join(f"{k}: {r[k]}" for k in changed)[:200]))
    subprocess.run(["git", "-C", WT, "checkout", "-q", "."])
    for r in rows:
        print("| " + " | ".join(r) + " |")

#!/bin/bash
cd /verif
export VERIF_TIER=quick VERIF_SEED=0 WAVESPECTRA_VERIF=1 PYTHONWARNINGS=ignore OMP_NUM_THREADS=1 VERIF_NPROC=1
/venv/bin/python -W ignore -m harness.translate >/dev/null 2>&1
run() { COVERAGE_FILE=${COVDIR:-/tmp/cov}/.coverage.$1 timeout 3000 /venv/bin/python -W ignore -m coverage run --source=/repo/wavespectra -m harness.checks.$1 > ${COVDIR:-/tmp/cov}/$1.log 2>&1; echo "$1 rc=$?" >> ${COVDIR:-/tmp/cov}/summary.txt; }
: > ${COVDIR:-/tmp/cov}/summary.txt
for grp in "c01 c02 c03 c04 c05" "c06 c07 c08 c09 c10" "c11 c12 c13 c14 c15" "c16 c17 c18 c19 c20"; do
  for p in $grp; do run $p & done; wait
done
echo ALLDONE >> ${COVDIR:-/tmp/cov}/summary.txt

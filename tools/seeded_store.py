#!/usr/bin/env python3
"""Store the results of a tools/seeded.py batch log into /verif/seeded/<PID>-<m>/ (patch, demo, notes, meta.json)."""
import json, os, re, shutil, sys
log = sys.argv[1]
t = open(log).read()
for blk in t.split("=== ")[1:]:
    head = blk.splitlines()[0]
    m = re.match(r"(/tmp/mut_(c\d\d)_out/(m\d))/ vs (.*)", head)
    if not m:
        continue
    d, c, mk, pids = m.group(1), m.group(2), m.group(3), m.group(4).split()
    try:
        j = json.loads(blk[blk.index("{"):blk.rindex("}") + 1])
    except Exception:
        print("skip (unparsed)", head); continue
    pid = c.upper()
    dst = f"/verif/seeded/{pid}-{mk}"
    os.makedirs(dst, exist_ok=True)
    for f in ("patch.diff", "demo.py", "notes.txt"):
        if os.path.exists(os.path.join(d, f)):
            shutil.copy(os.path.join(d, f), dst)
    notes = open(os.path.join(d, "notes.txt")).read() if os.path.exists(os.path.join(d, "notes.txt")) else ""
    own = j["checks"].get(pid, {})
    meta = dict(property=pid, origin="fresh sub-agent given only the property text and its own scratch worktree",
                needs_to_manifest=notes.strip().split("\n\n")[0][:900],
                confirmed=dict(baseline_suite=j.get("baseline"), demo_exit_on_head=j.get("demo_on_head"), demo_exit_on_mutant=j.get("demo_on_mutant")),
                ran=f"tools/seeded.py {d} {' '.join(pids)}  (patch applied in a scratch worktree of /repo, ./check <PID> --tier quick with VERIF_REPO=<worktree>)",
                first_result=dict(rc=own.get("rc"), violation=own.get("violation"), summary=own.get("summary")),
                other_checks=[f"{p}: rc={r['rc']} {(r['violation'] or [''])[0][:70]}" for p, r in j["checks"].items() if p != pid])
    json.dump(meta, open(os.path.join(dst, "meta.json"), "w"), indent=1)
    print(pid, mk, {p: r["rc"] for p, r in j["checks"].items()}, "demo", j.get("demo_on_head"), j.get("demo_on_mutant"), (j.get("baseline") or "")[-22:])

#!/usr/bin/env python3
"""Store results of tools/seeded.py batch logs (given in chronological order) into /verif/seeded/<PID>-<m>/.

The FIRST time a mutant appears in the logs is its first result; if its own property's check missed it then and a later
log shows it caught, meta.json records both (first_result_missed / after_strengthening)."""
import json, os, re, shutil, sys
STRENGTHEN = {
 "C01-m2": "history model/check gained in-place frequency assignment (C18)",
 "C02-m3": "dpspr-at-peak-row oracle added to C02",
 "C10-m2": "peak-less spectra with tp/dpm ranges added to the scale_by_hs generator (C10)",
 "C10-m3": "spectra given physical magnitudes (Hs 0.5–8 m) so that k=1e-6 reaches the clipped regime (C10)",
 "C18-m2": "foreign watershed calls in C18 histories now use the same bin count with swapped shape",
 "C03-m1": "label-0 known-finding trigger made precise with the reference transliteration of the unmodified algorithm (C03)",
 "C06-m1": "depth given as a DataArray mixing very deep and shallow sites added to the C06 catalogue",
 "C06-m2": "in-place coordinate edits through ds.coords[...] added to C06 (and C18 histories)",
 "C17-m1": "sel with float64 ndarray queries (views of a caller buffer) in the other longitude convention added to C17",
 "C17-m2": "single-site datasets with scalar lon/lat data variables added to the C17 writers",
 "C07-r2m2": "C07 always runs one watershed operation per case",
 "C17-r2m1": "bbox partitions with omitted limits added to the C17 operation table",
 "C09-r2m2": "three-box overlap construction (overlapping pair separated in fmin order by a third box) added to the C09 bbox generator",
 "C10-r2m2": "tied peak directions are no longer skipped in relabelling mode (storage order kept) and equal-energy crossing seas are generated (C10)",
 "C14-r2m2": "integer-typed station coordinates with fractional queries added to the C14 datasets",
 "C14-r2m1": "ndarray queries are reused for a second identical call and compared with their original values (C14)",
 "C19-r2m2": "a site with no wave systems at all added to the track_partitions dataset runs (C19)",
 "C07-r2m1": "direction-major and strided in-memory blocks with split spectral dimensions added to C07",
 "C18-r2m1": "every C18 observation is repeated in a pristine forked process; direction edits that keep the first/last label added",
 "C18-r2m2": "observed reader calls on in-memory native datasets with random optional variables added to C18 histories (pristine-process oracle)",
 "C02-r2m2": "objects that first held another spectrum, were queried, and were then overwritten in place added to C02",
 "C04-r2m2": "Python layer in front of the C routine (np_ptm3) driven with Fortran-ordered / transposed / strided inputs and compared with the label regions (C04)",
 "C02-r3m1": "fp(smooth=False) added to the C02 comparison and to the no-peak NaN oracle",
 "C02-r3m2": "the smooth flag is passed as callers pass it (numpy booleans / integers as well as the literals) in C02",
 "C03-r3m2": "calm-sea magnitudes (exact power-of-two scaling down to ranges of 1e-9..1e-6) added to the C03 generator",
 "C04-r3m1": "C text of specpart.c pinned by digest theorems (C04ctext): on a changed text the check runs its thorough-tier enumeration (12-cell grids) and reports the failing grid; int_minval also compared with its specification function-by-function",
 "C04-r3m2": "tiny-magnitude float grids added to the C04 oracle run (and the C-text digest escalation)",
 "C05-r3m1": "descending-and-rotated storage (orientation and rotation together) added to the C05 variants",
 "C06-r3m1": "per-worker memory limit: the garbage partition count made a worker allocate 30 GB; now a MemoryError on a kB-sized case is a reported failure",
 "C06-r3m2": "forcing arrays stored with their dimensions in another order than efth's (equal sizes) added to C06",
 "C07-r3m1": "degenerate members (all-zero, single frequency bin, single bin) and fallback-branch statistics added to the C07 worlds",
 "C07-r3m2": "hp01 with and without wind added to the C07 catalogue",
 "C08-r3m1": "integer-typed direction coordinates added to the C08 sources (and to one generated object in six everywhere)",
 "C08-r3m2": "the legacy numpy regridder utils.interp_spec is now covered by C08 (identity, nodes, linear, zero outside, non-negative)",
 "C09-r3m1": "same object asked for the same band statistics while holding other values, then overwritten in place (C09)",
 "C10-r3m1": "S and kS as one object scaled in place after a first round of statistics (C10)",
 "C12-r3m2": "ERA5 native coordinates carrying physical values (Hz, going-to degrees) instead of bin numbers added to C12",
 "C17-r3m2": "bbox selection on a [0,360] dataset beyond 180 with the box in [-180,180] and adjacent stations added to the C17 table",
 "C18-r3m1": "flat non-zero spectra and foreign watershed calls of exactly the object's shape added to C18 histories (C06: constant members)",
 "C19-r3m1": "ptm1_track is run with non-default thresholds in the quick tier too (C19)",
 "C20-r3m1": "spy on the native entry point: every array handed to specpart.partition must be a C-contiguous float32 block; float32/float64 views with negative, non-unit strides and transposed storage are fed through ptm1/2/3/hp01 (C20); float32 non-contiguous variants in C05",
 "C20-r3m2": "worker death (exit() inside native code) is detected at once by the process pool and reported as a failure instead of a hang",
 "C02-r4m1": "direction grids whose north bin is labelled 360 added to C02 (dp must be a coordinate label); the regenerated npstats.dp kernel already broke a bridge",
 "C02-r4m2": "flume-scale amplitudes (exact power-of-two scaling, Hs well below a millimetre) added to C02",
 "C05-r4m2": "the second operand of rmse is stored in another direction order than the first (catalogue)",
 "C07-r4m2": "ptm1/ptm2 with plain-number wind and depth added to the shared catalogue (C07)",
 "C09-r4m2": "full-circle grids labelled dd…360 added to the C09 generator",
 "C10-r4m1": "crossing seas whose mean direction is a cardinal direction up to round-off added to C10 (the regenerated dm body also broke a bridge)",
 "C12-r4m1": "nearly calm wind components (speed below 0.01 m/s) added to C12 (the translator had already reported the changed literal)",
 "C12-r4m2": "WWM datasets whose spectral dimensions carry index coordinates added to C12",
 "C13-r4m1": "NDBC realtime files carry the 999 marker in all four moment files of an empty bin (C13)",
 "C13-r4m2": "read_swanow (nowcast files overlapping in time) is now covered by C13",
 "C17-r4m2": "new basis given as bare coordinate DataArrays without attributes added to the C17 table",
 "C18-r4m1": "histories contain writer calls acting on a writable view of the object's own buffer (observe, write, observe)",
 "C18-r4m2": "histories contain curve fits on another object followed by operations that make numpy/xarray warn",
 "C19-r4m2": "daily and 36-hourly series added to the C19 generator (the regenerated np_track_partitions had already broken a bridge)",
 "C20-r4m2": "an ordinary spectrum with 0, 1 and 2 time records must give finite results for every operation (C20)",
 "C11-r4m2": "stations west of Greenwich ([-180,180) convention) added to C11 (the WW3 writer's format theorem had already broken)",
 "C05-r5m1": "sector (partial-circle) direction grids stored descending added to C05 (statistics, smoothing, direction bands)",
 "C07-r5m1": "window operations with BOTH spectral dimensions split into several chunks added to C07",
 "C07-r5m2": "regrid_spec on dask-backed Datasets with side variables, uniformly and differently chunked, added to C07",
 "C08-r5m2": "the two-dimensional (griddata) branch of interp_spec is now covered: non-negative, finite, nothing above the highest source frequency (C08)",
 "C10-r5m1": "nearly monochromatic spectra (width radicand a few ulp either side of zero) added to C10",
 "C10-r5m2": "very broad peaks (maximum a few parts in 1e8 above its neighbours) added to C10",
 "C11-r5m1": "datasets whose efth is stored with its dimensions in another order added to C11",
 "C13-r5m2": "WW3 station longitudes in the 0–360 convention (beyond 180) added to C13",
 "C17-r5m1": "writer calls that fail half-way (missing directory, invalid format) added to C17: the input must be as before",
 "C17-r5m2": "chunk-related encodings on the site-less coordinates of the C17 datasets",
 "C18-r5m1": "hp01 with more swells than the spectrum has added to the operations C18 observes (pristine-process oracle)",
 "C18-r5m2": "after ds['efth'] = oned() the Dataset accessor must agree with the accessor of efth (C18)",
 "C05-r6m1": "the legacy regridder interp_spec is driven with Fortran-ordered / transposed / strided spectra in C05",
 "C07-r6m1": "bbox (two boxes) and ptm4 are always among the operations run with both spectral dimensions chunked (C07)",
 "C17-r6m1": "from_ncswan on a dataset that already carries the wavespectra names added to the C17 table",
 "C17-r6m2": "statistics on arrays whose non-dimension coordinates (lon, lat, scalar time) have no attributes added to C17",
 "C18-r6m1": "histories in which the variable is replaced by its own energy form (values and the attributes stamped on it), then observed; values compared",
 "C20-r6m1": "two boxes apart along both axes (diagonal in the freq–dir plane) added to the C20 operations",
 "C01-r7m1": "objects with a history (gen.primed): the same Python object held other axes / other energy when its accessor first served the statistics and was edited in place through coords[...] = / ds[efth] = (C01, C08, C16)",
 "C03-r7m2": "the C03 spy precedes one native call in two by a call on another bin count and a call on another grid shape with the SAME bin count (static tables of the C routine must not leak between calls)",
 "C08-r7m1": "objects with a history (gen.primed) before interp / interp_like / rotate / regrid_spec in C08",
 "C16-r7m1": "objects with a history (gen.primed) before smooth in C16",
 "C06-r7m1": "float32 datasets whose spectral dimensions are the slowest in memory (strided (freq, dir) blocks that need no dtype conversion) added to C06",
 "C11-r7m1": "direction axes stored in no particular order (shuffled) for the Funwave writer in C11",
 "C11-r7m2": "the written WW3 file is loaded into memory with plain xarray and converted twice with from_ww3: both conversions and the native dataset afterwards must agree (C11)",
 "C13-r7m1": "paths that first held other files of the format (one case in three) and an Obscape file rewritten in place must be read as they are now (C13)",
 "C07-r8m1": "the second dataset of the concurrent watershed test has the SAME bin count on the transposed grid shape in half the cases, and each in-memory reference is computed after a native call on another bin count (C07)",
 "C18-r8m2": "station datasets: a selection made after another selection (query in the other longitude convention, matches east of 180, consecutive stations) must equal the same selection on a freshly built dataset, and the stations / statistics afterwards too (C18)",
 "C20-r8m1": "ordinary spectra held by dask with both spectral dimensions split into chunks must not raise (C20); the regenerated rechunk plan of every apply_ufunc restated as C20 obligations (Props/C20dask.lean)",
 "C20-m1": "whole-map timeout in pmap: a hang inside native code is reported as a termination failure and the native sub-check still runs (C20)",
}
MANUAL_LATER = {  # re-runs done directly with tools/seeded.py (not in a batch log)
 "C01-m2": ("C18", "VIOLATION property=C18 replay=replays/C18-0-quick.json | 9 stale-result oracle failures"),
 "C02-m3": ("C02", "VIOLATION property=C02 replay=replays/C02-0-quick.json | oracle_failures=41 (known 20): now with a failing input (first run: model disagreement only, no-failing-input-found)"),
 "C10-m2": ("C10", "VIOLATION property=C10 replay=replays/C10-0-quick.json | oracle_failures=28 (known 1)"),
 "C10-m3": ("C10", "VIOLATION property=C10 replay=replays/C10-0-quick.json | oracle_failures=3 (known 1)"),
}
MANUAL_DEMO = {"C14-m1": (0, 1), "C14-m2": (0, 1), "C14-m3": (0, 1)}  # re-run with PYTHONPATH=<tree> (first run imported /repo)
seen = {}
for log in sys.argv[1:]:
    t = open(log).read()
    for blk in t.split("=== ")[1:]:
        head = blk.splitlines()[0]
        m = re.match(r"(/tmp/mut(\d?)_(c\d\d)_out/(m\d))/? vs (.*)", head)
        if not m:
            continue
        d, c, mk, pids = m.group(1), m.group(3), (("r" + m.group(2) + m.group(4)) if m.group(2) else m.group(4)), m.group(5).split()
        try:
            j = json.loads(blk[blk.index("{"):blk.rindex("}") + 1])
        except Exception:
            continue
        seen.setdefault((c.upper(), mk), []).append((d, pids, j))
for (pid, mk), runs in sorted(seen.items()):
    d, pids, j = runs[0]
    dst = f"/verif/seeded/{pid}-{mk}"
    os.makedirs(dst, exist_ok=True)
    for f in ("patch.diff", "demo.py", "notes.txt"):
        if os.path.exists(os.path.join(d, f)):
            shutil.copy(os.path.join(d, f), dst)
    notes = open(os.path.join(d, "notes.txt")).read() if os.path.exists(os.path.join(d, "notes.txt")) else ""
    demos = [(r[2].get("demo_on_head"), r[2].get("demo_on_mutant")) for r in runs]
    base = [r[2].get("baseline") for r in runs if r[2].get("baseline")]
    own = j["checks"].get(pid, {})
    meta = dict(property=pid, origin="fresh sub-agent given only the property text and its own scratch worktree",
                needs_to_manifest=notes.strip().split("\n\n")[0][:900],
                confirmed=dict(baseline_suite=base[0] if base else None, demo_exit_on_head=demos[-1][0], demo_exit_on_mutant=demos[-1][1]),
                ran=f"tools/seeded.py {d} {' '.join(pids)}  (patch applied in a scratch worktree of /repo, ./check <PID> --tier quick with VERIF_REPO=<worktree>)",
                first_result=dict(rc=own.get("rc"), violation=own.get("violation"), summary=own.get("summary")),
                other_checks=sorted({f"{p}: rc={r['rc']} {(r['violation'] or [''])[0][:70]}" for (_, _, jj) in runs for p, r in jj["checks"].items() if p != pid}))
    key = f"{pid}-{mk}"
    if key in MANUAL_DEMO:
        meta["confirmed"]["demo_exit_on_head"], meta["confirmed"]["demo_exit_on_mutant"] = MANUAL_DEMO[key]
    if key in MANUAL_LATER:
        meta["after_strengthening"] = dict(check=MANUAL_LATER[key][0], what=STRENGTHEN.get(key, ""), result=MANUAL_LATER[key][1])
        if own.get("rc") != 1:
            meta["first_result_missed"] = True
    if own.get("rc") != 1 and key not in MANUAL_LATER:
        meta["first_result_missed"] = True
        later = [jj["checks"][pid] for (_, _, jj) in runs[1:] if pid in jj["checks"] and jj["checks"][pid]["rc"] == 1]
        caught_elsewhere = [f"{p} (rc=1)" for (_, _, jj) in runs for p, r in jj["checks"].items() if p != pid and r["rc"] == 1]
        if later:
            meta["after_strengthening"] = dict(check=pid, what=STRENGTHEN.get(key, ""), result=(later[-1]["violation"] or ["VIOLATION"])[0] + " | " + (later[-1]["summary"] or [""])[0][:160])
        elif key in STRENGTHEN and key in ("C01-m2",):
            pass
        if caught_elsewhere:
            meta["caught_by_other_check"] = sorted(set(caught_elsewhere))
    json.dump(meta, open(os.path.join(dst, "meta.json"), "w"), indent=1)
    print(key, "first", own.get("rc"), "later", [jj["checks"].get(pid, {}).get("rc") for (_, _, jj) in runs[1:]], "demo", demos[-1])

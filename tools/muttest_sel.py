"""Self-test of harness/translate_sel.py by source mutation (scratch copies only; /repo and /verif untouched).

For each single edit of wavespectra/core/select.py: copy the pristine tree, apply the edit, run the translator with
VERIF_REPO on the copy, `lake build WsVerif.Props.C14sel`, record (a) kernels reported untranslatable, (b) theorems that
no longer check, (c) whether the edit changes a value on a differential run of original vs mutated module.
"""
import importlib.util
import json
import os
import re
import shutil
import subprocess
import sys
from pathlib import Path

import numpy as np

ROOT = Path("/tmp/wk_sel")
HEAD = ROOT / "repo_head"
MUT = ROOT / "mut_repo"
VERIF = ROOT / "verif"
SEL = "wavespectra/core/select.py"

M = []  # (id, function, description, old, new, occurrence index or None for unique)


FILES = {}


def m(i, fn, old, new, occ=None, desc=None, file=None):
    M.append((i, fn, desc or f"`{old.strip()}` → `{new.strip()}`", old, new, occ))
    if file:
        FILES[i] = file


# distance
m("d01", "distance", "dlon = np.minimum(dlon, 360 - dlon)  # shortest way around the globe\n", "pass\n", desc="`dlon = np.minimum(dlon, 360 - dlon)` removed")
m("d02", "distance", "self.dset_lons % 360 - np.array(lon) % 360", "self.dset_lons - np.array(lon) % 360", desc="dropped `% 360` on the stations")
m("d03", "distance", "np.array(lon) % 360)", "np.array(lon))", desc="dropped `% 360` on the query")
m("d04", "distance", "np.minimum(dlon, 360 - dlon)", "np.minimum(dlon, 180 - dlon)")
m("d05", "distance", "dlon ** 2", "dlon ** 3")
m("d06", "distance", "self.dset_lats - np.array(lat)", "self.dset_lats + np.array(lat)")
m("d07", "distance", "np.abs(self.dset_lons % 360", "np.abs(self.dset_lats % 360", desc="swapped lon/lat: `self.dset_lons % 360` → `self.dset_lats % 360`")
m("d08", "distance", "dlon = np.abs(self.dset_lons % 360 - np.array(lon) % 360)", "dlon = (self.dset_lons % 360 - np.array(lon) % 360)", desc="dropped `np.abs` of the longitude difference")
m("d09", "distance", "np.minimum(dlon", "np.maximum(dlon")
m("d10", "distance", "return np.abs(dist)", "return dist", desc="dropped final `np.abs` (value-neutral)")
m("d11", "distance", "np.minimum(dlon, 360 - dlon)", "np.minimum(dlon, 360 + dlon)")
m("d12", "distance", "np.sqrt(dlon ** 2 + (", "np.sqrt(dlon ** 2 - (")
# nearest
m("n01", "nearest", "dist.argmin()", "dist.argmax()")
m("n02", "nearest", "closest_dist = dist[closest_id]\n        return closest_id", "closest_dist = dist[0]\n        return closest_id", desc="`dist[closest_id]` → `dist[0]` in nearest")
m("n03", "nearest", "return closest_id, closest_dist", "return closest_id + 1, closest_dist")
# nearer
m("r01", "nearer", "closest_dist <= tolerance", "closest_dist < tolerance")
m("r02", "nearer", "[:max_sites]", "[:max_sites + 1]")
m("r03", "nearer", "np.argsort(dist)", "np.argsort(-dist)")
m("r04", "nearer", "return keep_ids, dist[keep_ids]", "return keep_ids, dist[closest_ids]")
m("r05", "nearer", "closest_dist = dist[closest_ids]", "closest_dist = dist")
# swap
m("s01", "_swap", "longitudes[longitudes > 180] = longitudes[longitudes > 180] - 360", "longitudes[longitudes >= 180] = longitudes[longitudes > 180] - 360", desc="`> 180` → `>= 180` (mask on the left only)")
m("s02", "_swap", "longitudes[longitudes > 180] = longitudes[longitudes > 180] - 360", "longitudes[longitudes >= 180] = longitudes[longitudes >= 180] - 360", desc="`> 180` → `>= 180` (both masks)")
m("s03", "_swap", "longitudes > 180] - 360", "longitudes > 180] - 180")
m("s04", "_swap", "return longitudes % 360", "return longitudes % 180")
m("s05", "_swap", "if self._is_180(longitudes):", "if self._is_360(longitudes):")
m("s06", "_swap", "elif self._is_360(longitudes):", "elif self._is_180(longitudes):")
# conventions
m("c01", "_is_360", "array.min() >= 0 and array.max() <= 360", "array.min() >= 0 and array.max() < 360")
m("c02", "_is_360", "array.min() >= 0 and", "array.min() > 0 and")
m("c03", "_is_180", "array.min() < 0 and", "array.min() <= 0 and")
m("c04", "_is_180", "array.max() <= 180", "array.max() < 180")
m("c05", "_is_180", "array.min() < 0 and array.max() <= 180", "array.min() < 0 or array.max() <= 180")
# __init__ / lons
m("i01", "__init__", "if self._is_360(self._lons) == self._is_360(self.dset_lons):\n            self.consistent", "if self._is_360(self._lons) != self._is_360(self.dset_lons):\n            self.consistent", desc="`==` → `!=` in the consistency test of __init__")
m("i02", "lons", "if self._is_360(self._lons) == self._is_360(self.dset_lons):\n            return", "if self._is_360(self._lons) != self._is_360(self.dset_lons):\n            return", desc="`==` → `!=` in the property lons")
m("i03", "__init__", "self.consistent = True", "self.consistent = False")
m("i04", "__init__", "self._lons = np.array(lons)", "self._lons = np.array(lats)")
m("i05", "_validate", "assert len(self._lons) == len(self.lats)", "assert len(self._lons) <= len(self.lats)")
m("i06", "lons", "return self._swap_longitude_convention(self._lons)", "return self._lons")
m("i07", "__init__", "self._is_360(self._lons) == self._is_360(self.dset_lons):\n            self.consistent", "self._is_360(self._lons) == self._is_180(self.dset_lons):\n            self.consistent", desc="`_is_360(dset_lons)` → `_is_180(dset_lons)` in __init__")
# sel_nearest
m("a01", "sel_nearest", "if closest_dist > tolerance:", "if closest_dist >= tolerance:")
m("a02", "sel_nearest", 'if missing == "raise":', 'if missing == "error":')
m("a03", "sel_nearest", "if exact and closest_dist > 0:", "if exact and closest_dist >= 0:")
m("a04", "sel_nearest", "closest_id in station_ids", "closest_id not in station_ids")
m("a05", "sel_nearest", 'from requested location ({lon, lat}), skipping"\n                )\n                continue', 'from requested location ({lon, lat}), skipping"\n                )\n                pass', desc="`continue` → `pass` after missing == 'ignore'")
m("a06", "sel_nearest", "if not station_ids:", "if station_ids:")
m("a07", "sel_nearest", 'raise AssertionError(\n                    f"Nearest site', 'raise ValueError(\n                    f"Nearest site', desc="`AssertionError` → `ValueError` beyond tolerance")
m("a08", "sel_nearest", "    lats,\n    tolerance=2.0,", "    lats,\n    tolerance=2.5,", desc="default `tolerance=2.0` → `2.5` of sel_nearest")
m("a09", "sel_nearest", "coords.nearest(lon, lat)", "coords.nearest(lat, lon)")
m("a10", "sel_nearest", "closest_id, closest_dist = coords.nearest(lon, lat)\n", "closest_id, closest_dist = coords.nearest(lon, lat)\n", desc=None)
m("a11", "sel_nearest", "    station_ids = []\n    for lon, lat in zip(coords.lons, coords.lats):", "    station_ids = []\n    for lon, lat in zip(coords._lons, coords.lats):", desc="`zip(coords.lons, …)` → `zip(coords._lons, …)` in sel_nearest (value-neutral: distance reduces modulo 360)")
m("a12", "sel_nearest", "    dsout = dset.isel(**{attrs.SITENAME: station_ids})\n\n    # Return longitudes in the convention provided\n    if coords.consistent is False:\n        dsout.lon.values = coords._swap_longitude_convention(dsout.lon.values)\n\n    dsout = dsout.assign_coords({attrs.SITENAME: np.arange(len(station_ids))})\n\n    return dsout\n\n\ndef sel_idw",
  "    dsout = dset.isel(**{attrs.SITENAME: station_ids})\n\n    # Return longitudes in the convention provided\n    if coords.consistent is True:\n        dsout.lon.values = coords._swap_longitude_convention(dsout.lon.values)\n\n    dsout = dsout.assign_coords({attrs.SITENAME: np.arange(len(station_ids))})\n\n    return dsout\n\n\ndef sel_idw", desc="`is False` → `is True` in the reporting `if` of sel_nearest")
m("a13", "sel_nearest", "    unique=False,\n    exact=False,", "    unique=False,\n    exact=True,", desc="default `exact=False` → `True`")
m("a14", "sel_nearest", "if unique and closest_id", "if unique or closest_id")
m("a15", "sel_nearest", 'elif missing == "ignore":', 'elif missing != "ignore":')
m("a16", "sel_nearest", "        station_ids.append(closest_id)", "        station_ids.append(closest_id + 1)")
# sel_idw
m("w01", "sel_idw", "factors.append(1.0 / dist)", "factors.append(1.0 / dist ** 2)")
m("w02", "sel_idw", "if dist == 0:", "if dist == 1:")
m("w03", "sel_idw", "factors.append(1.0)\n", "factors.append(2.0)\n")
m("w04", "sel_idw", "                factors.append(1.0)\n                break", "                factors.append(1.0)\n                continue", desc="`break` → `continue` at zero distance")
m("w05", "sel_idw", "len(indices) == 1 and dist > 0", "len(indices) == 1 and dist >= 0")
m("w06", "sel_idw", "tolerance=2.0, max_sites=4,", "tolerance=2.0, max_sites=3,")
m("w07", "sel_idw", "sumfac = float(1.0 / sum(factors))", "sumfac = float(2.0 / sum(factors))")
m("w08", "sel_idw", "if len(indices) > 0:", "if len(indices) > 1:")
m("w09", "sel_idw", "coords.nearer(lon, lat, tolerance, max_sites)", "coords.nearer(lon, lat, max_sites, tolerance)")
m("w10", "sel_idw", "if len(indices) == 0 or (", "if len(indices) == 0 and (")
m("w11", "sel_idw", "ind = indices.pop(0)", "ind = indices.pop()")
m("w12", "sel_idw", "    dset, lons, lats, tolerance=2.0, max_sites=4,", "    dset, lons, lats, tolerance=1.0, max_sites=4,")
m("w13", "sel_idw", "weighted += float(fac) * dset.isel(site=ind, drop=True)", "weighted += float(fac) * dset.isel(site=0, drop=True)")
m("w14", "sel_idw", "len(indices) == 1 and dist", "len(indices) == 2 and dist")
m("w15", "sel_idw", "            indices.append(ind)\n            if dist == 0:", "            indices.append(ind + 1)\n            if dist == 0:", desc="`indices.append(ind)` → `indices.append(ind + 1)`")
m("w16", "sel_idw", "dsout[attrs.LONNAME] = ((attrs.SITENAME), coords.lons)", "dsout[attrs.LONNAME] = ((attrs.SITENAME), coords._lons)", desc="reported `coords.lons` → `coords._lons` in the tail of sel_idw")
# sel_bbox
m("b01", "sel_bbox", "((coords.dset_lons - minlon) % 360 <= maxlon - minlon)", "((coords.dset_lons - minlon) <= maxlon - minlon)", desc="dropped `% 360` in the box test")
m("b02", "sel_bbox", "minlon = min(coords._lons) - tolerance", "minlon = min(coords._lons)", desc="dropped tolerance widening of minlon")
m("b03", "sel_bbox", "maxlon = max(coords._lons) + tolerance", "maxlon = max(coords._lons) - tolerance")
m("b04", "sel_bbox", "% 360 <= maxlon - minlon", "% 360 < maxlon - minlon")
m("b05", "sel_bbox", "coords.dset_lats >= minlat", "coords.dset_lats > minlat")
m("b06", "sel_bbox", "& (coords.dset_lats <= maxlat)", "& (coords.dset_lons <= maxlat)", desc="swapped lon/lat: `dset_lats <= maxlat` → `dset_lons <= maxlat`")
m("b07", "sel_bbox", "minlon = min(coords._lons)", "minlon = min(coords.lons)")
m("b08", "sel_bbox", "if station_ids.size == 0:", "if station_ids.size != 0:")
m("b09", "sel_bbox", "def sel_bbox(dset, lons, lats, tolerance=0.0,", "def sel_bbox(dset, lons, lats, tolerance=1.0,")
m("b10", "sel_bbox", "& (coords.dset_lats >= minlat)", "| (coords.dset_lats >= minlat)")
m("b11", "sel_bbox", "minlat = min(coords.lats) - tolerance", "minlat = max(coords.lats) - tolerance")
m("b12", "sel_bbox", "maxlat = max(coords.lats) + tolerance", "maxlat = max(coords.lats)", desc="dropped tolerance widening of maxlat")
m("b13", "sel_bbox", "% 360 <= maxlon - minlon", "% 360 <= maxlon + minlon")
m("b14", "sel_bbox", "(coords.dset_lons - minlon) % 360", "(coords.dset_lons - minlon) % 180")
m("b15", "sel_bbox", "    coords = Coordinates(\n        dset, lons=lons, lats=lats, dset_lons=dset_lons, dset_lats=dset_lats\n    )\n\n    # Box in", "    coords = Coordinates(\n        dset, lons=lats, lats=lons, dset_lons=dset_lons, dset_lats=dset_lats\n    )\n\n    # Box in", desc="swapped lon/lat in `Coordinates(dset, lons=lats, lats=lons, …)` of sel_bbox")
M[:] = [x for x in M if x[0] != "a10"]
# module shape / imports / dispatch
m("x01", "module", "logger = logging.getLogger(__name__)\n", "logger = logging.getLogger(__name__)\nmin = max\n", desc="module-level `min = max` (shadows a builtin)")
m("x02", "module", "import numpy as np\n", "import numpy.ma as np\n")
m("x03", "lons", "    @property\n    def lons(self):", "    def lons(self):", desc="`@property` removed from `lons`")
m("x04", "Coordinates", "    def nearest(self, lon, lat):\n        \"\"\"Nearest station", "    def nearest(self, lon, lat):\n        return 0, 0.0\n\n    def nearest_(self, lon, lat):\n        \"\"\"Nearest station", desc="`nearest` replaced by a stub, the original kept under another name")
m("p01", "SpecDataset.sel", '"nearest": sel_nearest,', '"nearest": sel_idw,', file="wavespectra/specdataset.py")
m("p02", "SpecDataset.sel", 'kwargs.update({"exact": True})', 'kwargs.update({"exact": False})', file="wavespectra/specdataset.py")
m("p03", "SpecDataset.sel", '        method="idw",\n        tolerance=2.0,\n        dset_lons=None,', '        method="nearest",\n        tolerance=2.0,\n        dset_lons=None,', desc="default `method=\"idw\"` → `\"nearest\"` of SpecDataset.sel", file="wavespectra/specdataset.py")


# ------------------------------------------------------------------------------------------------
def load(path, name):
    spec = importlib.util.spec_from_file_location(name, path)
    mod = importlib.util.module_from_spec(spec)
    spec.loader.exec_module(mod)
    return mod


def make_dataset(xr, dl, dla):
    ns = len(dl)
    efth = np.arange(ns * 4, dtype=float).reshape(ns, 2, 2) * 1.0 + 1.0
    efth = efth ** 2
    return xr.Dataset({"efth": (("site", "freq", "dir"), efth), "lon": (("site",), np.array(dl, dtype=float)),
                       "lat": (("site",), np.array(dla, dtype=float))},
                      coords={"site": np.arange(ns), "freq": [0.1, 0.2], "dir": [0.0, 180.0]})


def cases(rng):
    out = []
    grid = [x / 8 for x in range(-1440, 2881, 5)]
    for k in range(260):
        conv = rng.choice(["360", "180", "mixed"])
        ns = rng.integers(1, 7)
        nq = rng.integers(1, 4)

        def lon(c):
            x = float(rng.choice([0, 0.5, 1, 2, 3, 5, 10, 90, 170, 175, 179, 180, 181, 185, 190, 270, 350, 355, 358, 359, 359.5, 360]))
            if rng.random() < 0.3:
                x = float(rng.integers(0, 720)) / 2
            if c == "180" and x > 180:
                x -= 360
            if rng.random() < 0.04:      # outside both conventions
                x += float(rng.choice([360, -360, 720]))
            return x
        dconv = rng.choice(["360", "180"])
        qconv = rng.choice(["360", "180"])
        dl = [lon(dconv) for _ in range(ns)]
        dla = [float(rng.choice([-2, -1, -0.5, 0, 0.5, 1, 2, 3])) for _ in range(ns)]
        ql = [lon(qconv) for _ in range(nq)]
        if rng.random() < 0.4:   # query on / near a station
            j = int(rng.integers(0, ns))
            ql[0] = dl[j] + float(rng.choice([0, 0, 0.5, -0.5, 360, -360])) if abs(dl[j]) < 1e9 else ql[0]
        qla = [float(rng.choice([-2, -1, -0.5, 0, 0.5, 1, 2, 3])) for _ in range(nq)]
        if rng.random() < 0.4:
            qla[0] = dla[int(rng.integers(0, ns))]
        tol = float(rng.choice([0, 0.5, 1, 2, 2, 3, 5, 10, 400]))
        for method in ("nearest", "idw", "bbox"):
            kw = {}
            if method == "nearest":
                kw = dict(unique=bool(rng.random() < 0.3), exact=bool(rng.random() < 0.2), missing=str(rng.choice(["raise", "ignore", "ignore", "other"])))
                if rng.random() < 0.2:
                    kw.pop("missing")
            if method == "idw" and rng.random() < 0.6:
                kw = dict(max_sites=int(rng.choice([1, 2, 3, 4, 6])))
            use_tol = rng.random() < 0.8
            out.append(dict(method=method, dl=dl, dla=dla, ql=ql, qla=qla, tol=tol if use_tol else None, kw=kw))
    return out


def run(mod, xr, c):
    ds = make_dataset(xr, c["dl"], c["dla"])
    fn = {"nearest": mod.sel_nearest, "idw": mod.sel_idw, "bbox": mod.sel_bbox}[c["method"]]
    kw = dict(c["kw"])
    if c["tol"] is not None:
        kw["tolerance"] = c["tol"]
    try:
        with np.errstate(all="ignore"):
            out = fn(ds, np.array(c["ql"], dtype=float), np.array(c["qla"], dtype=float), **kw)
        return ("ok", np.round(np.asarray(out.efth.transpose("site", "freq", "dir").values, dtype=float), 9).tolist(),
                np.round(np.atleast_1d(out.lon.values).astype(float), 9).tolist(), np.round(np.atleast_1d(out.lat.values).astype(float), 9).tolist())
    except Exception as e:
        return ("err", type(e).__name__)


def same(a, b):
    return json.dumps(a, default=str).replace("NaN", "nan") == json.dumps(b, default=str).replace("NaN", "nan")


def theorems_at(path):
    lines = Path(path).read_text().splitlines()
    return [(i + 1, re.match(r"\s*theorem\s+(\S+)", l).group(1)) for i, l in enumerate(lines) if re.match(r"\s*theorem\s+(\S+)", l)]


def main():
    only = set(sys.argv[1:])
    sys.path.insert(0, str(HEAD))
    import xarray as xr
    import warnings
    warnings.filterwarnings("ignore")
    orig = load(HEAD / SEL, "sel_orig")
    rng = np.random.default_rng(20260929)
    cs = cases(rng)
    base = [run(orig, xr, c) for c in cs]
    src0 = (HEAD / SEL).read_text()
    results = []
    env = dict(os.environ, VERIF_REPO=str(MUT))
    for (mid, fn, desc, old, new, occ) in M:
        if only and mid not in only:
            continue
        target = FILES.get(mid, SEL)
        srcT = (HEAD / target).read_text()
        assert srcT.count(old) == 1, (mid, srcT.count(old))
        src = srcT.replace(old, new)
        if MUT.exists():
            shutil.rmtree(MUT)
        shutil.copytree(HEAD, MUT)
        (MUT / target).write_text(src)
        # differential run
        try:
            if target != SEL:
                raise RuntimeError("not select.py: differential run skipped")
            mod = load(MUT / SEL, "sel_mut_" + mid)
            diff = [i for i, c in enumerate(cs) if not same(run(mod, xr, c), base[i])]
        except Exception as e:
            diff = ["import: " + str(e)]
        # translator
        r = subprocess.run(["/venv/bin/python", "-W", "ignore", "-m", "harness.translate"], cwd=VERIF, env=env, capture_output=True, text=True)
        unt = re.findall(r"^\s+(\S+) untranslatable: (.*)$", r.stdout, re.M)
        b = subprocess.run(["lake", "build", "WsVerif.Props.C14sel"], cwd=VERIF / "lean", capture_output=True, text=True)
        out = b.stdout + b.stderr
        broken = []
        if b.returncode != 0:
            for f in ("Props/C14sel.lean", "Props/C14.lean", "Lemmas/SelBridge.lean"):
                ths = theorems_at(VERIF / "lean/WsVerif" / f)
                for mm in re.finditer(r"error: [^\n]*?%s:(\d+):\d+" % re.escape(f.split("/")[-1]), out):
                    ln = int(mm.group(1))
                    cand = [n for (s, n) in ths if s <= ln]
                    if cand and cand[-1] not in broken:
                        broken.append(cand[-1])
            if not broken:
                mm = re.findall(r"error: [^\n]*", out)
                broken = ["(build fails: " + "; ".join(x[:100] for x in mm[:2]) + ")"]
        res = dict(id=mid, fn=fn, desc=desc, value_changing=len(diff), untranslatable=[f"{k}: {v[:90]}" for k, v in unt],
                   build_ok=b.returncode == 0, broken=broken)
        results.append(res)
        print(json.dumps(res), flush=True)
    if MUT.exists():
        shutil.rmtree(MUT)
    Path(ROOT / "scratch" / ("mut_results.json" if not only else "mut_results_partial.json")).write_text(json.dumps(results, indent=1))


if __name__ == "__main__":
    main()

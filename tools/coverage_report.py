import coverage, ast, os, json, glob, sys
props = {json.loads(l)['id']: json.loads(l) for l in open('/verif/properties.jsonl')}
data = {}
for f in glob.glob('/tmp/cov/.coverage.c*'):
    pid = f.split('.')[-1].upper()
    cd = coverage.CoverageData(basename=f); cd.read()
    data[pid] = {fn: set(cd.lines(fn) or []) for fn in cd.measured_files()}
allex = {}
for pid, d in data.items():
    for fn, ls in d.items():
        allex.setdefault(fn, set()).update(ls)
def funcs(path):
    src = open(path).read(); tree = ast.parse(src)
    out = []
    def visit(node, prefix=""):
        for ch in ast.iter_child_nodes(node):
            if isinstance(ch, (ast.FunctionDef, ast.AsyncFunctionDef)):
                body_lines = set()
                for st in ch.body:
                    if isinstance(st, ast.Expr) and isinstance(getattr(st, 'value', None), ast.Constant) and isinstance(st.value.value, str):
                        continue
                    for n in ast.walk(st):
                        if hasattr(n, 'lineno'): body_lines.add(n.lineno)
                out.append((prefix + ch.name, ch.lineno, body_lines))
                visit(ch, prefix + ch.name + ".")
            elif isinstance(ch, ast.ClassDef):
                visit(ch, prefix + ch.name + ".")
    visit(tree)
    return out
never = []
for root, _, files in os.walk('/repo/wavespectra'):
    for f in files:
        if not f.endswith('.py'): continue
        path = os.path.join(root, f)
        ex = allex.get(path, set())
        for name, ln, body in funcs(path):
            if body and not (body & ex):
                never.append((path.replace('/repo/wavespectra/', ''), name, ln, len(body)))
print("functions never executed by any quick check:", len(never))
for x in sorted(never): print("  ", x)
print()
print("== per property: functions in anchored files not executed by the property's own check")
for pid in sorted(props):
    if pid not in data: continue
    files = [f for f in props[pid]['anchors'].get('files', []) if f.endswith('.py')]
    miss = []
    for rel in files:
        path = '/repo/' + rel
        if not os.path.exists(path): continue
        ex = data[pid].get(path, set())
        for name, ln, body in funcs(path):
            if body and not (body & ex) and (body & allex.get(path, set())):
                miss.append(f"{rel.split('/')[-1]}:{name}")
    print(pid, len(miss), ", ".join(miss)[:1500])

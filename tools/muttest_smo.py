"""Self-test of harness/translate_smo.py by source mutation (scratch git worktree of /repo only; /repo untouched).

    git -C /repo worktree add /tmp/bldwt_C HEAD ; cp /repo/wavespectra/partition/*.so /tmp/bldwt_C/wavespectra/partition/
    /venv/bin/python -W ignore tools/muttest_smo.py            (from the framework root)
    git -C /repo worktree remove --force /tmp/bldwt_C

For each single edit: apply it in the worktree, regenerate ONLY Gen/SmoKernels.lean with VERIF_REPO on the worktree (so
that the older structural ties of Props/C16.lean do not mask the result), `lake build WsVerif.Props.C16smo`, record the
kernels reported untranslatable and the `gensmo_*` theorems that no longer check; a differential run of the mutated
against the pristine `SpecArray.smooth` tells whether the edit changes a value.  Afterwards Gen is regenerated from
/repo.  Output: tools/muttest_smo_results.json and a markdown table on stdout.
"""
import json
import os
import re
import subprocess
import sys
from pathlib import Path

ROOT = Path(__file__).resolve().parent.parent
WT = Path("/tmp/bldwt_C")
PY = "/venv/bin/python"
UTILS = "wavespectra/core/utils.py"
SPECARRAY = "wavespectra/specarray.py"

M = []


def m(i, old, new, desc=None, file=UTILS):
    M.append((i, file, old, new, desc or f"`{old.strip()}` → `{new.strip()}`"))


m("v01", "if (window % 2) == 0:", "if (window % 2) == 1:")
m("v02", "if (window % 2) == 0:", "if (window % 3) == 0:")
m("v03", "for window in [freq_window, dir_window]:", "for window in [freq_window, freq_window]:")
m("v04", "for window in [freq_window, dir_window]:", "for window in [dir_window, freq_window]:", desc="loop list reversed (the leaked value becomes freq_window)")
m("v05", "            raise ValueError(\n                f\"Window size", "            raise TypeError(\n                f\"Window size", desc="`ValueError` → `TypeError` in the parity loop")
m("v06", "if (window % 2) == 0:", "if (window % 2) != 0:")
m("l01", "dsout[attrs.DIRNAME] = dsout[attrs.DIRNAME].astype(\"float32\")", "dsout[attrs.DIRNAME] = dset[attrs.DIRNAME].astype(\"float32\")",
  desc="relabel from `dset` instead of `dsout` (the repaired defect re-introduced)")
m("l02", "astype(\"float32\")", "astype(\"float64\")")
m("l03", "dsout = dset.sortby(attrs.DIRNAME)", "dsout = dset.sortby(attrs.FREQNAME)")
m("c01", "if len(dd) == 1:", "if len(dd) == 2:")
m("c02", "dirs.max() - dirs.min()", "dirs.max() + dirs.min()")
m("c03", "+ dd - 360)) < (0.1", "+ dd - 180)) < (0.1")
m("c04", "< (0.1 * dd)", "< (0.2 * dd)")
m("c05", "- 360)) < (0.1 * dd)", "- 360)) <= (0.1 * dd)")
m("c06", "        is_circular = False\n", "        is_circular = True\n", desc="`is_circular = False` → `True` in the else branch")
m("c07", "dd = list(set(np.diff(dirs)))", "dd = list(set(np.sort(dirs)))")
m("c08", "dirs.max() - dirs.min() + dd - 360", "dirs.max() - dirs.min() - dd - 360")
m("p01", "slice(-window, None)", "slice(-freq_window, None)")
m("p02", "left[attrs.DIRNAME] - 360", "left[attrs.DIRNAME] + 360")
m("p03", "right[attrs.DIRNAME] + 360", "right[attrs.DIRNAME] + 180")
m("p04", "slice(0, window)", "slice(1, window)")
m("p05", "xr.concat([left, dsout, right]", "xr.concat([left, dsout, left]")
m("p06", "xr.concat([left, dsout, right]", "xr.concat([right, dsout, left]", desc="ghost blocks swapped in the concat")
m("p07", "slice(0, window)", "slice(0, freq_window)")
m("p08", "if is_circular:\n        # Extend", "if not is_circular:\n        # Extend", desc="`if is_circular:` → `if not is_circular:`")
m("r01", "attrs.DIRNAME: dir_window}", "attrs.DIRNAME: freq_window}")
m("r02", "dim = {attrs.FREQNAME: freq_window,", "dim = {attrs.FREQNAME: dir_window,")
m("r03", "center=True", "center=False")
m("r04", "center=True).mean()", "center=True).max()")
m("k01", "if not dsout[attrs.DIRNAME].equals(dset[attrs.DIRNAME]):", "if dsout[attrs.DIRNAME].equals(dset[attrs.DIRNAME]):", desc="`not` dropped in the clip test")
m("k02", "dsout = dsout.sel(**{attrs.DIRNAME: dset[attrs.DIRNAME]})", "dsout = dsout.sel(**{attrs.DIRNAME: dsout[attrs.DIRNAME]})")
m("k04", "if not dsout[attrs.DIRNAME].equals(dset[attrs.DIRNAME]):", "if not dsout[attrs.DIRNAME].equals(dsout[attrs.DIRNAME]):")
m("k03", "dsout = dsout.chunk(**{attrs.DIRNAME: -1})", "dsout = dsout.chunk(**{attrs.DIRNAME: 1})", desc="`chunk(dir=-1)` → `chunk(dir=1)` (plumbing, value-neutral)")
m("f01", "xr.where(dsout.notnull(), dsout, dset)", "xr.where(dsout.notnull(), dset, dsout)")
m("f02", "xr.where(dsout.notnull(), dsout, dset)", "xr.where(dsout.isnull(), dsout, dset)")
m("f03", "dsout = dsout.assign_coords(dset.coords)", "dsout = dsout.assign_coords(dsout.coords)")
m("f04", "    set_spec_attributes(dsout)\n\n    return dsout\n\n\ndef is_overlap", "    return dsout\n\n\ndef is_overlap", desc="`set_spec_attributes(dsout)` removed from smooth_spec")
m("s01", "def smooth_spec(dset, freq_window=3, dir_window=3):", "def smooth_spec(dset, freq_window=5, dir_window=3):")
m("s02", "return smooth_spec(self._obj, freq_window=freq_window, dir_window=dir_window)",
  "return smooth_spec(self._obj, freq_window=freq_window, dir_window=freq_window)", file=SPECARRAY)
m("s03", "    def smooth(self, freq_window=3, dir_window=3):", "    def smooth(self, freq_window=3, dir_window=1):", file=SPECARRAY)
m("s04", "def smooth_spec(dset, freq_window=3, dir_window=3):", "abs = max\n\n\ndef smooth_spec(dset, freq_window=3, dir_window=3):",
  desc="module-level `abs = max` in core/utils.py")

VALUES = r'''
import json, sys, warnings
warnings.filterwarnings("ignore")
import numpy as np
from harness.common import import_ws
ws = import_ws()
import xarray as xr
out = []
def ds(dirs, nf, seed):
    rng = np.random.default_rng(seed)
    e = np.round(rng.random((nf, len(dirs))) * 8) / 4
    return xr.DataArray(e, coords={"freq": 0.05 * (1 + np.arange(nf)), "dir": np.array(dirs, dtype=float)}, dims=("freq", "dir"), name="efth")
cases = [([0, 45, 90, 135, 180, 225, 270, 315], 4), ([225, 270, 315, 0, 45, 90, 135, 180], 3), ([10, 20, 30, 40, 50, 60], 4),
         ([0, 30, 60, 90, 120, 150, 180, 210, 240, 270, 300, 330], 5), ([0, 90, 180, 270], 3), ([5, 10, 20, 40, 80], 3),
         ([15, 60, 105, 150, 195, 240, 285, 330], 3), ([0, 40.5, 81, 121.5, 162, 202.5, 243, 283.5, 324], 3)]
for k, (d, nf) in enumerate(cases):
    x = ds(d, nf, k)
    for kw in ({}, dict(freq_window=1, dir_window=3), dict(freq_window=3, dir_window=5), dict(freq_window=5, dir_window=3),
               dict(freq_window=3, dir_window=1), dict(freq_window=2, dir_window=3), dict(freq_window=3, dir_window=4), dict(dir_window=5),
               dict(freq_window=1, dir_window=5), dict(freq_window=1, dir_window=7)):
        try:
            y = x.spec.smooth(**kw)
            out.append([list(map(float, y["dir"].values)), np.round(np.asarray(y.values, dtype=float), 9).tolist()])
        except Exception as e:
            out.append(type(e).__name__)
print("VALUES" + json.dumps(out))
'''


def sh(cmd, env=None, cwd=ROOT, timeout=1800):
    e = dict(os.environ)
    e.update(env or {})
    return subprocess.run(cmd, cwd=cwd, env=e, capture_output=True, text=True, timeout=timeout)


def values(repo):
    r = sh([PY, "-W", "ignore", "-c", VALUES], env={"VERIF_REPO": str(repo)})
    for ln in r.stdout.splitlines():
        if ln.startswith("VALUES"):
            return json.loads(ln[6:])
    return "crash: " + (r.stderr.strip().splitlines() or ["?"])[-1][:100]


def regenerate(repo):
    code = ("import json; from harness.common import LEAN; from harness.translate_smo import generate_smo; "
            "print('STATUS' + json.dumps(generate_smo(LEAN / 'WsVerif' / 'Gen')))")
    r = sh([PY, "-W", "ignore", "-c", code], env={"VERIF_REPO": str(repo)})
    for ln in r.stdout.splitlines():
        if ln.startswith("STATUS"):
            return json.loads(ln[6:])
    raise RuntimeError(r.stderr)


def broken_theorems():
    r = sh(["lake", "build", "WsVerif.Props.C16smo"], cwd=ROOT / "lean")
    if r.returncode == 0:
        return []
    text = (ROOT / "lean/WsVerif/Props/C16smo.lean").read_text().splitlines()
    names = set()
    for mm in re.finditer(r"error: WsVerif/Props/C16smo\.lean:(\d+):", r.stdout + r.stderr):
        ln = int(mm.group(1))
        for k in range(ln - 1, -1, -1):
            t = re.match(r"(theorem|example)\s*(\w*)", text[k])
            if t:
                names.add(t.group(2) or f"example@{k + 1}")
                break
    if "Gen/SmoKernels.lean" in r.stdout + r.stderr or "unknown constant" in (r.stdout + r.stderr).lower():
        names.add("(every gensmo_*: a generated definition is missing)")
    if not names:
        names.add("(build failed: " + (re.findall(r"error: .*", r.stdout + r.stderr) or ["?"])[0][:80] + ")")
    return sorted(names)


def main():
    only = set(sys.argv[1:])
    assert WT.exists(), "create the worktree first (see the docstring)"
    base = values(WT)
    assert not isinstance(base, str), base
    rows = []
    for i, file, old, new, desc in M:
        if only and i not in only:
            continue
        path = WT / file
        orig = path.read_text()
        assert orig.count(old) == 1, (i, orig.count(old))
        path.write_text(orig.replace(old, new))
        try:
            st = regenerate(WT)
            bad = {k: v[:110] for k, v in st.items() if v != "ok"}
            broken = broken_theorems()
            v = values(WT)
            changed = "crash" if isinstance(v, str) else ("yes" if v != base else "no")
        finally:
            path.write_text(orig)
        caught = bool(bad or broken)
        rows.append(dict(id=i, edit=desc, value_changing=changed, untranslatable=bad, broken=broken, caught=caught))
        print(f"| {i} | {desc} | {changed} | {'; '.join(f'{k}: {v}' for k, v in bad.items()) or '—'} | {', '.join(broken) or '—'} | {'yes' if caught else 'NO'} |", flush=True)
    st = regenerate(Path("/repo"))
    assert all(v == "ok" for v in st.values()), st
    assert broken_theorems() == [], "pristine tree no longer builds"
    (ROOT / "tools/muttest_smo_results.json").write_text(json.dumps(rows, indent=1))
    print(f"{sum(r['caught'] for r in rows)}/{len(rows)} caught; value-changing and caught: "
          f"{sum(r['caught'] and r['value_changing'] == 'yes' for r in rows)}/{sum(r['value_changing'] == 'yes' for r in rows)}")


if __name__ == "__main__":
    main()

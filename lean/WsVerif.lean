-- Root of the `WsVerif` library: models, lemmas, property theorems.
import WsVerif.Model.Basic
import WsVerif.Model.Proto
import WsVerif.Model.Consts
import WsVerif.Model.Stats
import WsVerif.Props.C01
import WsVerif.Model.Peak
import WsVerif.Props.C02
import WsVerif.Props.C10
import WsVerif.Model.Track
import WsVerif.Props.C19
import WsVerif.Model.Select
import WsVerif.Model.SelectFixed
import WsVerif.Props.C14
import WsVerif.Model.History
import WsVerif.Props.C18
import WsVerif.Model.Frame
import WsVerif.Props.C17

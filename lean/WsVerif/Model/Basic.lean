/-! Basic list/rational helpers shared by every model file (Mathlib-free, executable). -/
namespace WS

abbrev Vec := List Rat
abbrev Mat := List (List Rat)

/-- Python exception classes the models can return. -/
inductive Err where
  | valueError | indexError | typeError | assertionError | notImplemented | keyError | zeroDivision
deriving Repr, DecidableEq, BEq

def Err.name : Err → String
  | .valueError => "ValueError" | .indexError => "IndexError" | .typeError => "TypeError"
  | .assertionError => "AssertionError" | .notImplemented => "NotImplementedError"
  | .keyError => "KeyError" | .zeroDivision => "ZeroDivisionError"

def absR (x : Rat) : Rat := if x < 0 then -x else x

/-- pointwise product -/
def mulV (a b : Vec) : Vec := List.zipWith (· * ·) a b

/-- Σ a_i b_i -/
def dot (a b : Vec) : Rat := (mulV a b).sum

def scaleV (k : Rat) (a : Vec) : Vec := a.map (k * ·)

def rowSums (e : Mat) : Vec := e.map List.sum

/-- guarded division: `none` models numpy's nan/inf outcome of a zero denominator -/
def divOpt (a b : Rat) : Option Rat := if b = 0 then none else some (a / b)

def lastD (l : Vec) : Rat := l.getLastD 0

def powN (x : Rat) (n : Nat) : Rat := x ^ n

/-- column sums of a matrix with `m` columns -/
def colSums (m : Nat) (e : Mat) : Vec :=
  (List.range m).map fun j => (e.map fun r => r.getD j 0).sum

/-- first index of the maximum (numpy argmax); 0 on the empty list -/
def argmaxFirst : Vec → Nat
  | [] => 0
  | x :: xs => go x 0 1 xs
where
  go (best : Rat) (bi i : Nat) : Vec → Nat
    | [] => bi
    | y :: ys => if best < y then go y i (i+1) ys else go best bi (i+1) ys

def maxD (l : Vec) (d : Rat) : Rat := l.foldl (fun a b => if a < b then b else a) d
def minD (l : Vec) (d : Rat) : Rat := l.foldl (fun a b => if b < a then b else a) d

def getR (l : List Rat) (i : Nat) : Rat := l.getD i 0
def minR (a b : Rat) : Rat := if b < a then b else a
def maxR (a b : Rat) : Rat := if a < b then b else a
/-- Python's float `%` with a positive modulus, on rationals: `a - b*floor(a/b)` -/
def pmod (a b : Rat) : Rat := a - b * ((a / b).floor : Rat)

def transpose (m : Nat) (e : Mat) : Mat :=
  (List.range m).map fun j => e.map fun r => r.getD j 0

end WS

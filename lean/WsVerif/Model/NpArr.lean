import WsVerif.Model.Basic
/-!
The numpy / Python-list vocabulary of the statement-level translator `harness/translate_ptm.py`
(Mathlib-free, executable).  An `(nf, nd)` array is its row-major flattening `List Rat`; a Python list of such arrays
(or a stacked `(np, nf, nd)` array) is a `List (List Rat)`; a Boolean mask is a `List Bool`, an integer label map a
`List Nat`.  Every definition is the *reading* of one numpy form that `Gen/PtmKernels.lean` is generated into; the
reading itself (below) is what is trusted in that step — the bridges in `Props/C03ptm.lean` identify the generated
functions with `Model/Assembly.lean` for all inputs.

Totalisation: where numpy raises (`max()` of an empty array, a shape mismatch, an index out of range) the reading
truncates / returns the default (`0`, `zipWith`, `getD`, `List.modify` leaves the list alone).
-/
namespace WS.Np

/-- `a.max()` of a non-negative integer array (`0` on the empty array, where numpy raises) -/
def maxNat (l : List Nat) : Nat := l.foldr max 0

/-- `np.zeros_like(a)` -/
def zerosLike (a : List Rat) : List Rat := a.map fun _ => 0

/-- `a == k` (array against scalar) -/
def eqS (a : List Nat) (k : Nat) : List Bool := a.map fun w => w == k

/-- `np.where(c, a, s)`: array where the condition holds, the scalar elsewhere -/
def whereAS (c : List Bool) (a : List Rat) (s : Rat) : List Rat := List.zipWith (fun c x => if c then x else s) c a

/-- `np.where(c, s, a)`: the scalar where the condition holds, the array elsewhere -/
def whereSA (c : List Bool) (s : Rat) (a : List Rat) : List Rat := List.zipWith (fun c x => if c then s else x) c a

/-- `np.where(c, a, b)` on two arrays -/
def whereAA (c : List Bool) (a b : List Rat) : List Rat :=
  List.zipWith (fun c (xy : Rat × Rat) => if c then xy.1 else xy.2) c (List.zip a b)

/-- Boolean-mask indexing `a[m]`: the selected entries, in order -/
def maskSel (a : List Rat) (m : List Bool) : List Rat := ((List.zip a m).filter fun p => p.2).map fun p => p.1

/-- `a.sum()` -/
def sum (a : List Rat) : Rat := a.sum

/-- `a + b` / `a += b` on arrays of one shape -/
def add (a b : List Rat) : List Rat := List.zipWith (· + ·) a b

/-- the value of a float division `x / y` whose result is only ever compared:
    `0/0 = nan`, `x/0 = +inf` (`x > 0`) or `-inf` (`x < 0`), otherwise the quotient -/
inductive FDiv where
  | nan | pinf | ninf
  | fin (q : Rat)
deriving Repr, DecidableEq

/-- numpy's `x / y` on float scalars (no exception, `RuntimeWarning` only) -/
def fdiv (x y : Rat) : FDiv :=
  if y = 0 then (if 0 < x then .pinf else if x < 0 then .ninf else .nan) else .fin (x / y)

/-- `q > c` for a finite `c`: every comparison with `nan` is `False` -/
def FDiv.gt : FDiv → Rat → Bool
  | .nan, _ => false | .pinf, _ => true | .ninf, _ => false | .fin q, c => decide (c < q)

/-- `q >= c` -/
def FDiv.ge : FDiv → Rat → Bool
  | .nan, _ => false | .pinf, _ => true | .ninf, _ => false | .fin q, c => decide (c ≤ q)

/-- `q < c` -/
def FDiv.lt : FDiv → Rat → Bool
  | .nan, _ => false | .pinf, _ => false | .ninf, _ => true | .fin q, c => decide (q < c)

/-- `q <= c` -/
def FDiv.le : FDiv → Rat → Bool
  | .nan, _ => false | .pinf, _ => false | .ninf, _ => true | .fin q, c => decide (q ≤ c)

/-- `l[i] += …` / `l[i] = f(l[i])` on a Python list (an index past the end, where Python raises, leaves the list alone) -/
def modifyAt (l : List (List Rat)) (i : Nat) (f : List Rat → List Rat) : List (List Rat) := l.modify i f

/-- `np.argsort(keys)`: the indices in ascending order of key, **ties in index order** (a stable sort; numpy's default
    `kind='quicksort'` does not specify the order of ties) -/
def argsort (keys : List Rat) : List Nat :=
  (List.range keys.length).mergeSort fun i j => decide (keys.getD i 0 ≤ keys.getD j 0)

/-- fancy indexing `np.array(l)[idx]` along the first axis -/
def take (l : List (List Rat)) (idx : List Nat) : List (List Rat) := idx.map fun i => l.getD i []

/-- `range(a, b)` -/
def range2 (a b : Nat) : List Nat := List.range' a (b - a)

end WS.Np

import WsVerif.Model.Stats
/-!
Model of the peak statistics: `SpecArray._peak`, `npstats.tps/tp/dp/dpm/dpspr/alpha`, `SpecArray.gamma`.
-/
namespace WS.Peak
open WS WS.Stats

/-- `fwd & bwd` of `_peak`: interior strict local maximum at index `i` -/
def isPeak (a : Vec) (i : Nat) : Bool :=
  decide (0 < i) && decide (i + 1 < a.length) && decide (getR a (i - 1) < getR a i) && decide (getR a (i + 1) < getR a i)

/-- `arr.where(ispeak, 0)` -/
def masked (a : Vec) : Vec := (List.range a.length).map fun i => if isPeak a i then getR a i else 0

/-- `_peak`: `arr.where(ispeak, 0).argmax(freq)` -/
def peakIdx (a : Vec) : Nat := argmaxFirst (masked a)

/-- closed form of the parabolic-fit peak frequency of `npstats.tps` -/
def tpsFp (f1 f2 f3 e1 e2 e3 : Rat) : Rat :=
  let s12 := f1 + f2
  let q12 := (e1 - e2) / (f1 - f2)
  let q13 := (e1 - e3) / (f1 - f3)
  let qa := (q13 - q12) / (f3 - f2)
  (s12 - q12 / qa) / 2

/-- second divided difference used by `tps` -/
def qa (f1 f2 f3 e1 e2 e3 : Rat) : Rat :=
  ((e1 - e3) / (f1 - f3) - (e1 - e2) / (f1 - f2)) / (f3 - f2)

/-- Newton form of the parabola through the three points -/
def parab (f1 f2 e1 q12 qa x : Rat) : Rat := e1 + q12 * (x - f1) + qa * (x - f1) * (x - f2)

/-- smooth peak frequency at the detected peak (`none` = NaN when there is no interior peak) -/
def fpSmooth (f S : Vec) : Option Rat :=
  let p := peakIdx S
  if p = 0 then none else
    some (tpsFp (getR f (p-1)) (getR f p) (getR f (p+1)) (getR S (p-1)) (getR S p) (getR S (p+1)))

/-- discrete peak frequency -/
def fpDiscrete (f S : Vec) : Option Rat :=
  let p := peakIdx S
  if p = 0 then none else some (getR f p)

/-- `dp`: index of the first maximum of the frequency-summed spectrum -/
def dpIdx (m : Nat) (e : Mat) : Nat := argmaxFirst (colSums m e)

/-- `dpm`: the first-moment vector at the peak row (`none` = NaN) -/
def dpmVec (ddv : Rat) (s c : Vec) (e : Mat) : Option (Rat × Rat) :=
  let p := peakIdx (oned ddv e)
  if p = 0 then none else some (getR (momdRow ddv s e) p, getR (momdRow ddv c e) p)

/-- `dpspr`: ingredients `(a, b, e)` of `fdspr` at the peak row -/
def dpsprABE (ddv : Rat) (s c f : Vec) (e : Mat) : Option (Rat × Rat × Rat) :=
  let p := peakIdx (oned ddv e)
  if p = 0 then none else
    let d := getR (df f) p
    some (getR (momdRow ddv s e) p * d, getR (momdRow ddv c e) p * d, getR (oned ddv e) p * d)

/-- indices with `lo*fp < f_i < hi*fp` -/
def windowIdx (lo hi fp : Rat) (f : Vec) : List Nat :=
  (List.range f.length).filter fun i => decide (lo * fp < getR f i) && decide (getR f i < hi * fp)

/-- `npstats.alpha` tail-fit positions (after the repair of `freq.size[-1]`): empty window → last two
    bins; single → that bin and the next (or the previous when it is the last). -/
def alphaPos (lo hi fp : Rat) (f : Vec) : List Nat :=
  match windowIdx lo hi fp f with
  | [] => [f.length - 2, f.length - 1]
  | [i] => if i = f.length - 1 then [i - 1, i] else [i, i + 1]
  | l => l

/-- `alpha = (2π)^4/g² / ((pos[-1]-pos[0])+1) * Σ s f^5 exp(1.25 (fp/f)^4)`;
    `c0 = (2π)^4/g²` and `ex_i = exp(1.25 (fp/f_i)^4)` come as oracle values -/
def alphaVal (c0 : Rat) (pos : List Nat) (f S ex : Vec) : Rat :=
  c0 / (((pos.getLastD 0 : Nat) : Rat) - ((pos.headD 0 : Nat) : Rat) + 1) *
    (pos.map fun i => getR S i * getR f i ^ 5 * getR ex i).sum

/-- gamma before the polynomial: `max_i S_i / (0.3125·hs²·fp⁴ · fp⁻⁵ · 0.2865048)` as coded
    (`a = 0.3125`, `b = 0.2865048`), `hs² = 16·hsE` -/
def gammaRaw (a b : Rat) (hsE : Rat) (fp : Rat) (S : Vec) : Option Rat :=
  let epm := a * (16 * hsE) * fp ^ 4 * (1 / fp ^ 5) * b
  if fp = 0 ∨ epm = 0 then none else some (maxD S 0 / epm)

/-- polynomial approximation `Σ c_k γ^k` with `p[::-1]` coefficients (lowest order first in `cs`) -/
def polyEval (cs : Vec) (x : Rat) : Rat := (cs.zipIdx.map fun (c, k) => c * x ^ k).sum

end WS.Peak

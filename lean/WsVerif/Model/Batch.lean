import WsVerif.Model.Basic
/-!
Model of batched (dataset-level) operations (C06).  The non-spectral dimensions of a dataset
(time, site, lat/lon, …) are flattened to one list position per spectrum: a dataset is `ds : List Mat`
with, where the method takes them, per-position auxiliary inputs `aux : List α` (wind speed/direction,
depth).  A batched operation applies the single-spectrum model `op` position by position — this is what
xarray broadcasting / `apply_ufunc(..., vectorize=True)` is *specified* to do; that the implementation
really does it is established by the correspondence check, not here.
-/
namespace WS.Batch
open WS

/-- batched operation with a per-position auxiliary input (wind, depth, …) -/
def opD {α β : Type} (op : Mat → α → β) (ds : List Mat) (aux : List α) : List β := List.zipWith op ds aux

/-- batched operation without auxiliary input -/
def opD1 {β : Type} (op : Mat → β) (ds : List Mat) : List β := ds.map op

/-- a `Dataset`: the `efth` variable plus the other data variables (which spectral methods ignore) -/
structure Dataset where
  efth : List Mat
  others : List (String × List Rat)

/-- calling a method through the `Dataset` accessor (`dset.spec.<op>()`): `SpecDataset.__getattr__`
    forwards to the `efth` DataArray's accessor -/
def Dataset.call {β : Type} (op : Mat → β) (d : Dataset) : List β := opD1 op d.efth

/-- same with auxiliary per-position inputs -/
def Dataset.callAux {α β : Type} (op : Mat → α → β) (d : Dataset) (aux : List α) : List β := opD op d.efth aux

end WS.Batch

import WsVerif.Model.IO.Round
/-!
netCDF packing of `to_netcdf(packed=True)`: `int32`, `scale_factor = 1e-5`, `_FillValue = -32768`
(CF encoding as applied by xarray: divide by the scale, NaN ↦ fill, round half to even, cast;
decoding: fill ↦ NaN, multiply by the scale).
-/
namespace WS.IO.Pack
open WS WS.IO

/-- the double `1e-5` -/
def scale : Rat := (5902958103587057 : Rat) / 590295810358705651712
def fill : Int := -32768
/-- int32 range -/
def imin : Int := -2147483648
def imax : Int := 2147483647

def enc (x : Option Rat) : Int :=
  match x with
  | none => fill
  | some v => rhe (v / scale)

def dec (q : Int) : Option Rat := if q = fill then none else some ((q : Rat) * scale)

def inRange (q : Int) : Bool := decide (imin ≤ q) && decide (q ≤ imax)

end WS.IO.Pack

import WsVerif.Model.Basic
/-!
WW3 netCDF (wavespectra/output/ww3.py `to_ww3`, input/ww3.py `from_ww3`): energy density per radian
on file (`× R2D` on write, `× D2R` on read, `R2D = 180/π`, `D2R = π/180` with π a symbolic parameter),
going-to directions (`(θ + 180) % 360` both ways), lon/lat expanded over time on write and reduced
with `isel(time=0)` on read.
-/
namespace WS.IO.WW3
open WS

def flipDir (d : Rat) : Rat := pmod (d + 180) 360
def enc (pi x : Rat) : Rat := x * (180 / pi)
def dec (pi y : Rat) : Rat := y * (pi / 180)
def expandOverTime {α : Type} (T : Nat) (x : α) : List α := List.replicate T x
def reduceTime {α : Type} (l : List α) (d : α) : α := l.headD d

end WS.IO.WW3

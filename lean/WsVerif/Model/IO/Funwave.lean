import WsVerif.Model.IO.Round
import WsVerif.Model.Stats
/-!
Funwave wave-maker files (wavespectra/output/funwave.py, input/funwave.py): amplitudes
`√(8·E·Δf·Δθ)/2` with 8 decimals on a Cartesian going-to direction axis (3 decimals, increasing),
frequencies with 5 decimals; the reader squares, divides by `2·Δf'·Δθ'` of the coordinates it read,
maps directions back (`0 ↦ 360`) and sorts.  The square root enters as a table supplied by the caller.
-/
namespace WS.IO.Funwave
open WS WS.IO

abbrev OMat := List (List (Option Rat))

/-- nautical coming-from ↦ Cartesian going-to in `(-180, 180]` -/
def cart (d : Rat) : Rat :=
  let c := pmod (270 - d) 360
  if 180 < c then c - 360 else c

/-- Cartesian going-to ↦ nautical coming-from in `(0, 360]` -/
def naut (c : Rat) : Rat :=
  let d := pmod (270 - c) 360
  if d = 0 then 360 else d

/-- square of the amplitude `sqrt(E·df·dd·8)/2` -/
def amp2 (w x : Rat) : Rat := x * w * 8 / 4

def q8 (x : Rat) : Rat := quant 8 x

/-- a printed amplitude `a` read back as energy density with the reader's weight `w' = Δf'·Δθ'` -/
def decBin (w' a : Rat) : Rat := q8 a ^ 2 / (w' * 2)

def colO (e : OMat) (j : Nat) : List (Option Rat) := e.map fun r => r.getD j none

/-- writer side: Cartesian directions sorted increasingly, the writer's `Δθ` (first two sorted
    Cartesian directions), and the squared amplitudes (rows = frequencies, columns in Cartesian order).
    `dirs = none`: 1-D spectrum. -/
def writerDirs (dirs : Option Vec) : Vec × Rat :=
  match dirs with
  | none => ([0], 1)
  | some d =>
    if d.length = 1 then ([0], 1) else
    let cs := sortBy (fun a b => decide (a ≤ b)) (d.map cart)
    (cs, Stats.dd (some cs))

/-- squared amplitudes in the stored column order -/
def amp2Mat (f : Vec) (ddW : Rat) (e : OMat) : OMat :=
  List.zipWith (fun r d => r.map fun o => o.map fun x => amp2 (d * ddW) x) e (Stats.df f)

/-- whole trip given the amplitude table `a` (rows = frequencies, columns in the *stored* direction order):
    returns printed frequencies, read-back directions (sorted) and energies (rows = frequencies) -/
def roundtrip (f : Vec) (dirs : Option Vec) (a : OMat) : Vec × Vec × OMat :=
  let fP := f.map (quant 5)
  let dfP := Stats.df fP
  match dirs with
  | none =>
    (fP, [], List.zipWith (fun r d => r.map fun o => o.map fun x => decBin (d * 1) x) a dfP)
  | some d =>
    if d.length = 1 then
      (fP, [], List.zipWith (fun r dd => r.map fun o => o.map fun x => decBin (dd * 1) x) a dfP)
    else
      -- columns keyed by Cartesian direction, sorted as the writer does
      let cols := (List.range d.length).map fun j => (cart (getR d j), colO a j)
      let sorted := sortBy (fun p q => decide (p.1 ≤ q.1)) cols
      -- file order of the reader's directions
      let rd := sorted.map fun c => (naut (quant 3 c.1), c.2)
      let ddR := Stats.dd (some (rd.map (·.1)))
      let out := sortBy (fun p q => decide (p.1 ≤ q.1)) rd
      let en : OMat := (List.range f.length).map fun i =>
        out.map fun c => (c.2.getD i none).map fun x => decBin (getR dfP i * ddR) x
      (fP, out.map (·.1), en)

end WS.IO.Funwave

import WsVerif.Model.Basic
/-!
Decimal quantisation shared by the text formats (C11, C13): what `'%.{d}f' % x` followed by `float()`
does to a number, at the level of exact rationals.  Python/C `printf` round the exact value of the
double correctly, ties to even; numpy `around` (netCDF packing) rounds half to even as well.
-/
namespace WS.IO
open WS

/-- round half to even -/
def rhe (x : Rat) : Int :=
  let f := x.floor
  let r := x - (f : Rat)
  if r < 1/2 then f
  else if (1/2 : Rat) < r then f + 1
  else if f % 2 = 0 then f else f + 1

/-- distance of the fractional part from ½: below `1e-6` the float computation may round either way -/
def tieMargin (x : Rat) : Rat := absR (x - (x.floor : Rat) - 1/2)

def pow10 (n : Nat) : Rat := (10 : Rat) ^ n

/-- `10^e` for an integer exponent -/
def pow10i (e : Int) : Rat := if 0 ≤ e then pow10 e.toNat else 1 / pow10 (-e).toNat

/-- `float('%.{d}f' % x)`: fixed-point quantisation with `d` decimals -/
def quant (d : Nat) (x : Rat) : Rat := (rhe (x * pow10 d) : Rat) / pow10 d

/-- stable insertion sort (structural, so it evaluates in the kernel): numpy's stable `argsort`/`sortby` -/
def insBy {α : Type} (le : α → α → Bool) (x : α) : List α → List α
  | [] => [x]
  | y :: ys => if le x y then x :: y :: ys else y :: insBy le x ys

def sortBy {α : Type} (le : α → α → Bool) (l : List α) : List α := l.foldr (insBy le) []

/-- number of times `x ≥ 10` can be divided by 10 before it drops below 10 -/
def expUp : Nat → Rat → Int
  | 0, _ => 0
  | f + 1, x => if x < 10 then 0 else expUp f (x / 10) + 1

/-- minus the number of times `x < 1` must be multiplied by 10 to reach 1 -/
def expDown : Nat → Rat → Int
  | 0, _ => 0
  | f + 1, x => if 1 ≤ x then 0 else expDown f (x * 10) - 1

/-- decimal exponent of a positive number: the `e` with `10^e ≤ x < 10^(e+1)` -/
def decExp (x : Rat) : Int :=
  if 1 ≤ x then expUp x.num.natAbs x else expDown x.den x

/-- `x` rounded to `s+1` significant digits given its decimal exponent `e`: `'%.{s}E' % x` -/
def sigAt (s : Nat) (e : Int) (x : Rat) : Rat :=
  let u := pow10i (e - s)
  (rhe (x / u) : Rat) * u

/-- `float('%0.8E' % x)`: 9 significant digits -/
def sig9 (x : Rat) : Rat := sigAt 8 (decExp x) x

/-- tie margin of the 9-digit rounding -/
def sig9Margin (x : Rat) : Rat := tieMargin (x / pow10i (decExp x - 8))

end WS.IO

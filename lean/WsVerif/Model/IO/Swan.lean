import WsVerif.Model.IO.Round
/-!
SWAN ASCII spectra files at the level of numbers and orderings
(wavespectra/core/swan.py `SwanSpecFile.write_spectra` / `read`, output/swan.py `to_swan`,
input/swan.py `read_swan`, specdataset.py `_check_and_stack_dims`).
-/
namespace WS.IO.Swan
open WS WS.IO

/-- a spectrum with missing values: rows = frequencies -/
abbrev OMat := List (List (Option Rat))

/-- one spectrum block of the file -/
inductive Block where
  | nodata
  | zero
  | factor (facP : Rat) (q : List (List Int))
deriving Repr, DecidableEq

/-- the code's literal `9998.0` -/
def maxCount : Rat := 9998

def hasNaN (e : OMat) : Bool := e.any fun r => r.any Option.isNone
def vals (e : OMat) : Mat := e.map fun r => r.map fun o => o.getD 0
/-- `spec.max()` of a NaN-free spectrum -/
def specMax (m : Mat) : Rat := maxD m.flatten (m.flatten.headD 0)

/-- `fac = spec.max() / 9998.0` -/
def facOf (e : OMat) : Rat := specMax (vals e) / maxCount

/-- `write_spectra` for one spectrum: NaN anywhere ⇒ `NODATA` (numpy's `max` propagates NaN),
    `fac ≤ 0` ⇒ `ZERO`, otherwise `FACTOR`, the factor printed with 9 significant digits and
    `spec / fac` printed with `%5.0f` -/
def encode (e : OMat) : Block :=
  if hasNaN e then .nodata else
  let fac := facOf e
  if fac ≤ 0 then .zero
  else .factor (sig9 fac) ((vals e).map fun r => r.map fun x => rhe (x / fac))

/-- `SwanSpecFile.read` for one block of an `nf × nd` file -/
def decode (nf nd : Nat) : Block → OMat
  | .nodata => List.replicate nf (List.replicate nd none)
  | .zero => List.replicate nf (List.replicate nd (some 0))
  | .factor fp q => q.map fun r => r.map fun (k : Int) => some ((k : Rat) * fp)

/-- what one bin `x` of a `FACTOR` block comes back as -/
def decBin (fac facP x : Rat) : Rat := (rhe (x / fac) : Rat) * facP

/-! ### locations -/

def insU (x : Rat) : Vec → Vec
  | [] => [x]
  | y :: ys => if x < y then x :: y :: ys else if x = y then y :: ys else y :: insU x ys

/-- `sorted(np.unique(l))` -/
def sortedUniq (l : Vec) : Vec := l.foldr insU []

/-- `is_grid = len(unique lons) * len(unique lats) == len(x)` -/
def isGrid (xs ys : Vec) : Bool := (sortedUniq xs).length * (sortedUniq ys).length == xs.length

/-- header written by `to_swan` for a gridded dataset: `stack(site=(lat, lon))`, latitude-major -/
def gridHeader (lats lons : Vec) : List (Rat × Rat) :=
  lats.flatMap fun la => lons.map fun lo => (lo, la)

/-- cell of block `k` in `read_swan` (after fix 1f147c9): `searchsorted` of its header lon/lat in the sorted
    unique coordinates -/
def fixedCell (xs ys : Vec) (k : Nat) : Nat × Nat :=
  ((sortedUniq ys).idxOf (getR ys k), (sortedUniq xs).idxOf (getR xs k))

/-- the (lon, lat) label of that cell -/
def fixedLabel (xs ys : Vec) (k : Nat) : Rat × Rat :=
  let c := fixedCell xs ys k
  (getR (sortedUniq xs) c.2, getR (sortedUniq ys) c.1)

/-- the (lon, lat) label under which `read_swan` returns the spectrum written at file position `k`:
    for a header taken for a grid, the label of the cell the block is placed in; for stations, the header position -/
def readLabel (asSite : Bool) (xs ys : Vec) (k : Nat) : Rat × Rat :=
  if isGrid xs ys && !asSite then fixedLabel xs ys k else (getR xs k, getR ys k)

/-- **code as found** (before 1f147c9): `reshape(nlon, nlat)` + `swapaxes` labelled with the sorted coordinates,
    i.e. the file was assumed longitude-major -/
def readLabelOld (asSite : Bool) (xs ys : Vec) (k : Nat) : Rat × Rat :=
  if isGrid xs ys && !asSite then
    let lons := sortedUniq xs
    let lats := sortedUniq ys
    (getR lons (k / lats.length), getR lats (k % lats.length))
  else (getR xs k, getR ys k)

/-! ### directions (`dirorder=True`) -/

/-- `dirmap = argsort(dirs % 360)`, `dirs = dirs[dirmap] % 360`, `S = S[:, dirmap]`:
    the (label, column) pairs sorted by label -/
def dirOrder {α : Type} (cols : List (Rat × α)) : List (Rat × α) :=
  sortBy (fun a b => decide (a.1 ≤ b.1)) (cols.map fun p => (pmod p.1 360, p.2))

/-! ### chunked writing -/

/-- Python slice `[i0:i1]` of `range(T)` -/
def slice (T i0 i1 : Nat) : List Nat := List.range' i0 (min i1 T - i0)

/-- `to_swan`: `while i1 <= T or i0 < T: write times[i0:i1]; i0 = i1; i1 += ntime` -/
def swanLoop (T ntime : Nat) : Nat → Nat → Nat → List Nat
  | 0, _, _ => []
  | fuel + 1, i0, i1 =>
    if i1 ≤ T ∨ i0 < T then slice T i0 i1 ++ swanLoop T ntime fuel i1 (i1 + ntime) else []

/-- `ntime = min(ntime or T, T)` -/
def effNtime (T ntime : Nat) : Nat := min (if ntime = 0 then T else ntime) T

/-- time indices written by `to_swan(ntime=…)`, in file order -/
def swanWritten (T ntime : Nat) : List Nat :=
  swanLoop T (effNtime T ntime) (T + 1) 0 (effNtime T ntime)

end WS.IO.Swan

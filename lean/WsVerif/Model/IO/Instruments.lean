import WsVerif.Model.Basic
/-!
Numeric contract of the instrument file readers (C13): what each reader in
`wavespectra/input/{triaxys,ndbc_ascii,spotter,datawell,obscape,ww3_station,swan,xwaves}.py` and
`wavespectra/core/swan.py` does with the *numbers* of a file once they are tokenised.  Tokenisation,
`float()` parsing and time-string parsing are not modelled (DESIGN §1.5-3): the harness carries them
by differential testing with independent reference encoders.

* `pi` is a parameter everywhere (the harness passes the exact rational of `np.pi`; the theorems hold
  for every non-zero / positive value);
* trigonometric and power tables are inputs (oracle tables, DESIGN §1.1), computed by the harness from
  the published formulas: `g_ij = cos(½·Δθ_ij)^(2 s_i)` for Cartwright, `c1_ij = cos(θ_j − α1_i)`,
  `c2_ij = cos 2(θ_j − α2_i)` for NDBC;
* NaN is `none`.
-/
namespace WS.Instr
open WS

/-- `D2R = np.pi/180`, `R2D = 180/np.pi` (wavespectra/core/utils.py) -/
def d2r (pi : Rat) : Rat := pi / 180
def r2d (pi : Rat) : Rat := 180 / pi

/-- `SpecArray.oned` on one frequency row: `dd * efth.sum(dim=dir)` -/
def integ (dd : Rat) (row : Vec) : Rat := dd * row.sum

/-! ## Cartwright spreading as used by Spotter and Datawell (`construct/direction.py:cartwright`) -/

/-- one frequency; `g` is the table `cos(½Δθ_j)^(2s)`:
    `gsum = 1/(gth.sum(dir) * (2π/dir.size)); gth = gth*gsum; return gth/R2D`.
    A vanishing denominator is numpy's `inf`/`nan` outcome (`none`). -/
def cartwrightRow (pi : Rat) (g : Vec) : Option Vec :=
  let tot := g.sum * (2 * pi / (g.length : Rat))
  if tot = 0 then none else some (g.map fun x => x * (1 / tot) / r2d pi)

/-- `dset.efth * cos2` on one frequency -/
def spreadRow (pi : Rat) (ef : Rat) (g : Vec) : Option Vec :=
  (cartwrightRow pi g).map fun G => G.map fun x => ef * x

/-- the 2-D spectrum of one record: row `i` is `efth_i · G_i(θ)` -/
def build2d (pi : Rat) (efs : Vec) (gs : Mat) : List (Option Vec) :=
  List.zipWith (spreadRow pi) efs gs

/-- what a reader returns for one record: the file's frequency spectrum (`dd=None`) or the
    constructed directional spectrum -/
inductive SpecOut where
  | oneD (s : Vec)
  | twoD (rows : List (Option Vec))
deriving Repr, DecidableEq

/-- `Spotter.read(dd)`: `dd = None` keeps `efth(time,freq)` as read -/
def spotterRead (pi : Rat) (dd : Option Rat) (efs : Vec) (gs : Mat) : SpecOut :=
  match dd with
  | none => .oneD efs
  | some _ => .twoD (build2d pi efs gs)

/-- `Datawell.read(dd)`: the file holds the relative psd, `efth = data[1] * smax` -/
def datawellEf (smax : Rat) (rel : Vec) : Vec := rel.map fun x => x * smax

def datawellRead (pi : Rat) (dd : Option Rat) (smax : Rat) (rel : Vec) (gs : Mat) : SpecOut :=
  spotterRead pi dd (datawellEf smax rel) gs

/-! ## NDBC ASCII `construct_spectra` -/

/-- `D(θ) = IPI * (0.5 + r1 cos(D2R(θ−α1)) + r2 cos(2 D2R(θ−α2))) * D2R` with `IPI = 1/π` -/
def ndbcD (pi r1 r2 c1 c2 : Rat) : Rat := (1 / pi) * (1 / 2 + r1 * c1 + r2 * c2) * d2r pi

/-- the literal `0.01` of `read_ndbc_ascii` (exact rational of the double) -/
def rHundredth : Rat := (5764607523034235 : Rat) / 576460752303423488

/-- the `r1`/`r2` the reader puts into `construct_spectra`, from the number printed in the `swr1`/`swr2`
    file.  NDBC prints hundredths in the history files and the value itself in the realtime files;
    since abaf99d the reader multiplies history values by `rscale = 0.01` (history = no `Sep_Freq`). -/
def ndbcR (history : Bool) (printed : Rat) : Rat := if history then printed * rHundredth else printed

/-- code as found (before abaf99d): the printed number was used in both formats -/
def ndbcRAsFound (_history : Bool) (printed : Rat) : Rat := printed

/-- `S = spden * D_fd` on one frequency (tables `c1`, `c2` over the direction bins) -/
def ndbcRow (pi spden r1 r2 : Rat) (c1 c2 : Vec) : Vec :=
  List.zipWith (fun a b => spden * ndbcD pi r1 r2 a b) c1 c2

/-! ## WW3 station files -/

/-- `extract_direction`: `dir = abs((x − 2.5π) % 2π); ((dir·R2D) + 270) % 360` -/
def ww3Dir (pi x : Rat) : Rat :=
  pmod (absR (pmod (x - 5 / 2 * pi) (2 * pi)) * r2d pi + 270) 360

/-- one record: the file lists, for each direction, all frequencies; `spec_arr *= D2R` then
    `swapaxes(dir, freq)`.  `raw` has one row per direction, `nf` values each. -/
def ww3Spec (pi : Rat) (nf : Nat) (raw : Mat) : Mat :=
  (transpose nf raw).map fun r => r.map fun x => x * d2r pi

/-! ## Obscape: `efth * np.pi / 180` (file is m²/Hz/rad) -/
def obscapeRow (pi : Rat) (row : Vec) : Vec := row.map fun x => x * pi / 180
def obscape (pi : Rat) (raw : Mat) : Mat := raw.map (obscapeRow pi)

/-! ## XWaves: `spec2d / R2D` -/
def xwavesRow (pi : Rat) (row : Vec) : Vec := row.map fun x => x / r2d pi

/-! ## stable sort by a key (sort-by-time of the readers; `argsort` of SWAN's `dirorder`) -/
section Sorting
variable {α : Type} {κ : Type} [LE κ] [DecidableLE κ]

/-- insert `x` before the first element whose key is not smaller (keeps equal keys in input order) -/
def insertBy (key : α → κ) (x : α) : List α → List α
  | [] => [x]
  | y :: t => if key x ≤ key y then x :: y :: t else y :: insertBy key x t

/-- stable insertion sort by `key` -/
def sortBy (key : α → κ) : List α → List α
  | [] => []
  | x :: t => insertBy key x (sortBy key t)
end Sorting

/-- `dset.sortby("time")`: records are `(time in seconds, payload)` -/
def sortByTime {α : Type} (recs : List (Int × α)) : List (Int × α) := sortBy (fun p => p.1) recs

/-- the permutation `sortby` applies (indices into the input) -/
def sortPerm (keys : List Int) : List Nat := (sortBy (fun p => p.1) keys.zipIdx).map (·.2)

/-- `np.argsort` (ties in input order) -/
def argsort (keys : Vec) : List Nat := (sortBy (fun p => p.1) keys.zipIdx).map (·.2)

/-- fancy indexing `a[idx]` -/
def takeIdx (l : Vec) (idx : List Nat) : Vec := idx.map fun k => l.getD k 0

/-! ## SWAN ASCII (`core/swan.py: SwanSpecFile`) -/

/-- `to_nautical`: `np.mod(270 − ang, 360)` -/
def toNautical (a : Rat) : Rat := pmod (270 - a) 360

/-- directions as read from the header: `NDIR` values as they are, `CDIR` through `to_nautical` -/
def swanDirs0 (cdir : Bool) (d : Vec) : Vec := if cdir then d.map toNautical else d

/-- `dirmap = argsort(dirs % 360)` when `dirorder`, else `False` -/
def swanDirmap (dirorder : Bool) (d0 : Vec) : Option (List Nat) :=
  if dirorder then some (argsort (d0.map fun x => pmod x 360)) else none

/-- direction labels returned: `dirs[dirmap] % 360` when `dirorder`, else unchanged -/
def swanDirs (dirorder : Bool) (d0 : Vec) : Vec :=
  match swanDirmap dirorder d0 with
  | some m => (takeIdx d0 m).map fun x => pmod x 360
  | none => d0

/-- `E2V = 1025 * 9.81` applies when the unit line starts with `J` -/
def swanUnitsFactor (e2v : Rat) (energyUnits : Bool) : Rat := if energyUnits then e2v else 1

/-- one spectrum block of the file -/
inductive Block where
  | nodata
  | zero
  | factor (fac : Rat) (vals : List (List Int))
deriving Repr, DecidableEq

/-- `SwanSpecFile.read` on one block: NaN array / zeros / `ints·fac` with the columns re-ordered by
    `dirmap`; every outcome is divided by `units_factor`. -/
def decodeBlock (nf nd : Nat) (dirmap : Option (List Nat)) (uf : Rat) : Block → List (List (Option Rat))
  | .nodata => List.replicate nf (List.replicate nd none)
  | .zero => List.replicate nf (List.replicate nd (some (0 / uf)))
  | .factor fac vals => vals.map fun row =>
      let r : Vec := row.map fun (v : Int) => (v : Rat) * fac
      let r' := match dirmap with
        | some m => takeIdx r m
        | none => r
      r'.map fun x => some (x / uf)

/-! ## TRIAXYS grids from header numbers -/

/-- `len(np.arange(start, stop, step))` = `ceil((stop − start)/step)` (exact arithmetic) -/
def arangeLen (start stop step : Rat) : Nat :=
  if step ≤ 0 then 0 else (-((-((stop - start) / step)).floor)).toNat

/-- `np.arange(start, stop, step)`: `start + i·step` -/
def arange (start stop step : Rat) : Vec :=
  (List.range (arangeLen start stop step)).map fun (i : Nat) => start + (i : Rat) * step

/-- `Triaxys.freqs` (since 56dc430): `f0 + df * np.arange(nf)` -/
def triaxysFreqs (f0 df : Rat) (nf : Nat) : Vec := (List.range nf).map fun (i : Nat) => f0 + df * (i : Rat)

/-- code as found: `np.arange(f0, f0 + df*nf, df)` (same list in exact arithmetic; in floating point it
    could hold `nf+1` entries) -/
def triaxysFreqsAsFound (f0 df : Rat) (nf : Nat) : Vec := arange f0 (f0 + df * (nf : Rat)) df

/-- `Triaxys.dirs`: `np.arange(0, 360 + ddir, ddir)` when a direction spacing is given, else `[0.0]` -/
def triaxysDirs (ddir : Rat) : Vec := if ddir = 0 then [0] else arange 0 (360 + ddir) ddir

/-! ## what each reader does with the order of the records (time axis) -/

/-- drop repeated neighbours (`np.unique` on a sorted list) -/
def dedupAdj : List Int → List Int
  | [] => []
  | [a] => [a]
  | a :: b :: t => if a = b then dedupAdj (b :: t) else a :: dedupAdj (b :: t)

inductive Fmt where
  | triaxys | ndbc | spotter | datawell | obscape | ww3station | swan | xwaves
deriving Repr, DecidableEq

/-- records `(time, payload)` of each file, files in the order the reader visits them (sorted file
    names for globs).  Every reader now sorts the concatenation by time (`sortby("time")`; Spotter sorts
    inside each file first; the WW3 station reader labels each record with its own stamp, `times = date`,
    then sorts).  Commits 56dc430, 04fcce3, 3c1bb38, a64223a, 1f147c9. -/
def readerOrder {α : Type} : Fmt → List (List (Int × α)) → List (Int × α)
  | .spotter, files => sortByTime (files.map sortByTime).flatten
  | _, files => sortByTime files.flatten

/-- code as found (before those commits): NDBC / Datawell / Obscape sorted; Spotter sorted inside each
    file only; TRIAXYS / SWAN / XWaves kept the order of the records; the WW3 station reader labelled
    the records, kept in file order, with the *sorted unique* stamps and failed (`reshape`) on repeats. -/
def readerOrderAsFound {α : Type} : Fmt → List (List (Int × α)) → Except Err (List (Int × α))
  | .ndbc, files | .datawell, files | .obscape, files => .ok (sortByTime files.flatten)
  | .spotter, files => .ok (files.map sortByTime).flatten
  | .triaxys, files | .swan, files | .xwaves, files => .ok files.flatten
  | .ww3station, files =>
    let recs := files.flatten
    let ts := dedupAdj (sortBy (fun t => t) (recs.map (·.1)))
    if ts.length = recs.length then .ok (List.zip ts (recs.map (·.2))) else .error .valueError

/-! ## SWAN locations: grid layout -/

/-- `read_swan` on a file whose locations form a grid (`len(unique x)·len(unique y) = nloc`), since
    1f147c9: `arr[:, ilat, ilon] = spectra` with `ilon/ilat = searchsorted(unique, header)`, so the
    spectrum shown at (lat index `a`, lon index `b`) is that of the (last) file location whose header
    position is `(b, a)`; `none` = no such location (NaN).  `locs k = (lon index, lat index)`. -/
def swanGridAt (locs : List (Nat × Nat)) (a b : Nat) : Option Nat :=
  ((locs.zipIdx.filter fun p => p.1 = (b, a)).getLast?).map (·.2)

/-- code as found (before 1f147c9): `reshape(ntime, nlon, nlat, …)` then `swapaxes(1, 2)`: the spectrum
    shown at (lat `a`, lon `b`) was the file's location number `b·nlat + a`, whatever the header said. -/
def swanGridPosAsFound (nlat : Nat) (a b : Nat) : Nat := b * nlat + a

end WS.Instr

import WsVerif.Model.IO.Round
import WsVerif.Model.Stats
/-!
Octopus files (wavespectra/output/octopus.py `to_octopus`, input/octopus.py `read_octopus`)
at the level of numbers and orderings: the file stores `E·Δf·Δθ` with 7 decimals, frequencies with
7 decimals, whole-degree directions in increasing order; the reader divides by the bin widths of the
*printed* coordinates.  Missing energies are written as `missing_val = -99999` and read back as numbers.
-/
namespace WS.IO.Octopus
open WS WS.IO

abbrev OMat := List (List (Option Rat))

/-- default `missing_val` of `to_octopus` -/
def missing : Rat := -99999

def q7 (x : Rat) : Rat := quant 7 x

/-- column `j` of a matrix of optional values -/
def colO (e : OMat) (j : Nat) : List (Option Rat) := e.map fun r => r.getD j none

/-- `to_energy()` (`efth·df·dd`), `sortby("dir")`, `fillna(missing_val)` and the three print formats.
    Returns the printed frequencies, directions and energies (rows = frequencies). -/
def encode (f dirs : Vec) (e : OMat) : Vec × Vec × Mat :=
  let dfv := Stats.df f
  let ddv := Stats.dd (some dirs)
  let en : OMat := List.zipWith (fun r d => r.map fun o => o.map fun x => x * d * ddv) e dfv
  let cols := (List.range dirs.length).map fun j => (getR dirs j, colO en j)
  let sorted := sortBy (fun a b => decide (a.1 ≤ b.1)) cols
  let dirsP := sorted.map fun c => quant 0 c.1
  let enP : Mat := (List.range f.length).map fun i =>
    sorted.map fun c => q7 ((c.2.getD i none).getD missing)
  (f.map q7, dirsP, enP)

/-- `read_octopus`: `energy / (df' · dd')` with the bin widths of the printed coordinates
    (`none` = division by zero) -/
def decode (fP dirsP : Vec) (enP : Mat) : OMat :=
  let dfv := Stats.df fP
  let ddv := Stats.dd (some dirsP)
  List.zipWith (fun r d => r.map fun q => divOpt q (d * ddv)) enP dfv

/-- one bin: stored with weight `w = Δf·Δθ`, read with the reader's `w'` -/
def rtBin (w w' x : Rat) : Rat := q7 (x * w) / w'

/-- one missing bin as it comes back -/
def rtMissing (w' : Rat) : Option Rat := some (q7 missing / w')

/-! ### chunked writing (after fix d2d41be): `while i0 < T: write block times[i0:i1]; i0 = i1; i1 += ntime` -/

def octLoop (T n : Nat) : Nat → Nat → Nat → List (List Nat)
  | 0, _, _ => []
  | fuel + 1, i0, i1 =>
    if i0 < T then List.range' i0 (min i1 T - i0) :: octLoop T n fuel i1 (i1 + n) else []

/-- `ntime = min(ntime or T, T)` -/
def effNtime (T ntime : Nat) : Nat := min (if ntime = 0 then T else ntime) T

/-- the blocks of time indices in the file (one header each) -/
def blocks (T ntime : Nat) : List (List Nat) := octLoop T (effNtime T ntime) (T + 1) 0 (effNtime T ntime)

/-- every time index present in the file -/
def written (T ntime : Nat) : List Nat := (blocks T ntime).flatten

/-- `read_octopus` reads one header and its `nrecs` records: the first block -/
def readBack (T ntime : Nat) : List Nat := (blocks T ntime).headD []

end WS.IO.Octopus

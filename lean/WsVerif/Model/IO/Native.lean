import WsVerif.Model.Basic
import WsVerif.Model.Stats
/-!
Model of the model-native dataset readers (C12): `wavespectra/input/dataset.py` (`read_dataset` dispatch),
`input/{ww3,ncswan,wwm,era5,ndbc}.py` (`from_*`) and `core/utils.uv_to_spddir`, over exact rationals.

* `pi` is a symbolic parameter (the harness passes the exact rational of the double `np.pi`; theorems hold for
  every non-zero / positive value), so `D2R·R2D = 1` is provable;
* `10**x`, `cos`, `atan2` are never evaluated: their values are inputs (oracle tables from the harness);
* the model mirrors what the code does (repaired tree: `from_era5` renames the native names — a998130; `from_wwm`
  renames the keys that are present and reduces directions modulo 360 — 8cfe575).  The behaviour of the code as it
  was found is kept under explicit `…Old` names for the refutation theorems of `Props/C12`.
-/
namespace WS.Native
open WS

/-- `D2R = np.pi / 180.0` -/
def d2r (pi : Rat) : Rat := pi / 180
/-- `R2D = 180.0 / np.pi` -/
def r2d (pi : Rat) : Rat := 180 / pi

/-- apply a scalar map to every bin -/
def mapM (g : Rat → Rat) (e : Mat) : Mat := e.map fun r => r.map g

/-! ### `read_dataset`: identification of the convention from the variable/dimension names -/

/-- `not sig - vars` : every name of the signature is a variable or a dimension of the dataset -/
def subsetB (sig vars : List String) : Bool := sig.all fun x => vars.contains x

/-- first entry of the table (in test order) whose signature is contained in the dataset's names;
    `none` = `ValueError("Cannot identify appropriate reader …")` -/
def dispatch (table : List (String × List String)) (vars : List String) : Option String :=
  (table.find? fun p => subsetB p.2 vars).map (·.1)

/-- the code's table: (reader called | `identity` = dataset returned unchanged, signature), in the order of
    the `if/elif` tests. Hand-written mirror; `Props/C12.gen_dispatch` identifies it with the table regenerated
    from the source by the translator. -/
def dispatchTable : List (String × List String) := [
  ("identity", ["freq", "dir", "site", "efth"]),
  ("ww3", ["frequency", "direction", "station", "efth"]),
  ("ncswan", ["frequency", "direction", "points", "density"]),
  ("wwm", ["nfreq", "ndir", "nbstation", "AC"]),
  ("era5", ["frequency", "direction", "d2fd"]),
  ("ndbc", ["frequency", "spectral_wave_density"])]

/-- the property's description of the conventions: the names that make a dataset "laid out in" each of them -/
def conventions : List (String × List String) := [
  ("ww3", ["frequency", "direction", "station", "efth"]),
  ("ncswan", ["frequency", "direction", "points", "density"]),
  ("wwm", ["nfreq", "ndir", "nbstation", "AC"]),
  ("era5", ["frequency", "direction", "d2fd"]),
  ("ndbc", ["frequency", "spectral_wave_density"]),
  ("identity", ["freq", "dir", "site", "efth"])]

/-- every name that occurs in some signature -/
def sigNames : List String := dispatchTable.flatMap (·.2)

/-! ### naming: what each reader renames (MAPPING tables; hand-written mirrors bridged to the regenerated ones) -/
def mappingWW3 : List (String × String) := [("time", "time"), ("frequency", "freq"), ("direction", "dir"),
  ("station", "site"), ("efth", "efth"), ("longitude", "lon"), ("latitude", "lat"), ("wnddir", "wdir"), ("wnd", "wspd")]
def mappingNcswan : List (String × String) := [("time", "time"), ("frequency", "freq"), ("direction", "dir"),
  ("points", "site"), ("density", "efth"), ("longitude", "lon"), ("latitude", "lat"), ("depth", "dpt")]
def mappingWWM : List (String × String) := [("nfreq", "freq"), ("ndir", "dir"), ("nbstation", "site"), ("AC", "efth"),
  ("lon", "lon"), ("lat", "lat"), ("DEP", "dpt"), ("ocean_time", "time")]
def mappingNdbc : List (String × String) := [("time", "time"), ("frequency", "freq"), ("direction", "dir"),
  ("spectral_wave_density", "efth"), ("longitude", "lon"), ("latitude", "lat"), ("depth", "dpt")]
/-- `from_era5`'s `native` table (a998130) -/
def mappingEra5 : List (String × String) := [("d2fd", "efth"), ("frequency", "freq"), ("direction", "dir"),
  ("longitude", "lon"), ("latitude", "lat")]
/-- `from_ndbc`'s first renaming (alternative NDBC/CDIP names) -/
def mappingNdbcAlt : List (String × String) := [("waveFrequency", "frequency"), ("waveTime", "time"),
  ("waveEnergyDensity", "spectral_wave_density"), ("gpsLatitude", "latitude"), ("gpsLongitude", "longitude")]

def renameName (m : List (String × String)) (n : String) : String := (m.lookup n).getD n
/-- `dset.rename({k: v for k, v in MAPPING.items() if k != v and k in vars_and_dims})` on a list of names -/
def renamePresent (m : List (String × String)) (names : List String) : List String := names.map (renameName m)
/-- `dset.rename(MAPPING)`: xarray raises `ValueError` unless every key is a variable or dimension -/
def renameStrict (m : List (String × String)) (all names : List String) : Except Err (List String) :=
  if m.all (fun p => all.contains p.1) then .ok (names.map (renameName m)) else .error .valueError
def addName (n : String) (l : List String) : List String := if l.contains n then l else l ++ [n]

/-- dimensions of the reader's result from the dimensions `dims` and all names `all` (variables and dimensions)
    of its input; `directional`: NDBC builds a direction axis.  Every reader renames the keys of its table that are
    present; ERA5 then assigns `freq`/`dir` (`dset[attrs.FREQNAME] = …`: replaces the coordinate, or adds the
    dimension if it does not exist). -/
def outDims (reader : String) (directional : Bool) (_all dims : List String) : Except Err (List String) :=
  if reader = "ww3" then .ok ((renamePresent mappingWW3 dims).filter (· ≠ "string16"))
  else if reader = "ncswan" then .ok (renamePresent mappingNcswan dims)
  else if reader = "wwm" then .ok (renamePresent mappingWWM dims)
  else if reader = "era5" then .ok (addName "dir" (addName "freq" (renamePresent mappingEra5 dims)))
  else if reader = "ndbc" then
    let d := renamePresent mappingNdbc (renamePresent mappingNdbcAlt dims)
    .ok (if directional then addName "dir" d else d)
  else .ok dims

/-- name of the spectrum variable in the reader's result, given its name in the input -/
def outSpec (reader spec : String) : String := if reader = "era5" then renameName mappingEra5 spec else "efth"

/-! #### code as found (before a998130 / 8cfe575): `from_era5` renamed nothing, `from_wwm` did `rename(MAPPING)` -/
def outDimsOld (reader : String) (directional : Bool) (all dims : List String) : Except Err (List String) :=
  if reader = "wwm" then renameStrict mappingWWM all dims
  else if reader = "era5" then .ok (addName "dir" (addName "freq" dims))
  else outDims reader directional all dims
def outSpecOld (reader spec : String) : String := if reader = "era5" then spec else "efth"

/-- native conventions: (reader, signature, dimensions among the signature names, spectrum variable) -/
def nativeConventions : List (String × List String × List String × String) := [
  ("ww3", ["frequency", "direction", "station", "efth"], ["frequency", "direction", "station"], "efth"),
  ("ncswan", ["frequency", "direction", "points", "density"], ["frequency", "direction", "points"], "density"),
  ("wwm", ["nfreq", "ndir", "nbstation", "AC"], ["nfreq", "ndir", "nbstation"], "AC"),
  ("era5", ["frequency", "direction", "d2fd"], ["frequency", "direction"], "d2fd"),
  ("ndbc", ["frequency", "spectral_wave_density"], ["frequency"], "spectral_wave_density")]

/-! ### WW3: `efth *= D2R`, `dir = (dir + 180) % 360` -/
def ww3Spec (pi x : Rat) : Rat := x * d2r pi
def ww3Dir (x : Rat) : Rat := pmod (x + 180) 360
def fromWW3 (pi : Rat) (dirs : Vec) (e : Mat) : Vec × Mat := (dirs.map ww3Dir, mapM (ww3Spec pi) e)

/-! ### SWAN netCDF: `efth /= R2D`, `dir = (dir * R2D) % 360` -/
def ncswanSpec (pi x : Rat) : Rat := x / r2d pi
def ncswanDir (pi x : Rat) : Rat := pmod (x * r2d pi) 360
def fromNcswan (pi : Rat) (dirs : Vec) (e : Mat) : Vec × Mat := (dirs.map (ncswanDir pi), mapM (ncswanSpec pi) e)

/-! ### WWM: `freq = SPSIG/(2π)`, `dir = (SPDIR·R2D) % 360`, `efth = AC·SPSIG·(2π)/R2D` -/
def wwmFreq (pi sig : Rat) : Rat := sig / (2 * pi)
def wwmDir (pi x : Rat) : Rat := pmod (x * r2d pi) 360
/-- code as found (before 8cfe575): no modulo -/
def wwmDirOld (pi x : Rat) : Rat := x * r2d pi
def wwmSpec (pi sig x : Rat) : Rat := x * sig * (2 * pi) / r2d pi
/-- rows of `ac` are the frequencies (one `SPSIG` each) -/
def wwmE (pi : Rat) (sig : Vec) (ac : Mat) : Mat := List.zipWith (fun s r => r.map (wwmSpec pi s)) sig ac
def fromWWM (pi : Rat) (sig spdir : Vec) (ac : Mat) : Vec × Vec × Mat :=
  (sig.map (wwmFreq pi), spdir.map (wwmDir pi), wwmE pi sig ac)

/-! ### ERA5: `10**d2fd * π / 180`, NaN ↦ 0; default grids -/
/-- `p` is the oracle value of `10**d` (`none` = missing value) -/
def era5Spec (pi : Rat) (p : Option Rat) : Rat :=
  match p with
  | none => 0
  | some x => x * pi / 180
def era5E (pi : Rat) (p10 : List (List (Option Rat))) : Mat := p10.map fun r => r.map (era5Spec pi)

/-- `np.arange(start, stop, step)` for `step > 0`: `ceil((stop-start)/step)` points -/
def arange (start stop step : Rat) : Vec :=
  (List.range (-((-((stop - start) / step)).floor)).toNat).map fun (k : Nat) => start + (k : Rat) * step

/-- the double `0.03453` -/
def era5F0 : Rat := (4976297444259303 : Rat) / 144115188075855872
/-- the double `1.1` -/
def era5Ratio : Rat := (2476979795053773 : Rat) / 2251799813685248
/-- `np.full(30, 0.03453) * (1.1 ** np.arange(0, 30))` -/
def era5DefaultFreqs : Vec := (List.range 30).map fun k => era5F0 * era5Ratio ^ k
/-- `(np.arange(7.5, 352.5 + 15, 15) + 180) % 360` -/
def era5DefaultDirs : Vec := (arange (15 / 2) (705 / 2 + 15) 15).map fun x => pmod (x + 180) 360

/-! ### NDBC: `D(θ) = 0.5 + r1 cos(θ-α1) + r2 cos(2(θ-α2))`, `efth = ef · D · D2R / π` -/
def ndbcDist (r1 r2 c1 c2 : Rat) : Rat := 1 / 2 + r1 * c1 + r2 * c2
def ndbcSpec (pi ef d : Rat) : Rat := ef * d * d2r pi / pi
/-- one (time, frequency) point: the directional row from the cosine tables
    `c1_j = cos(θ_j - α1)`, `c2_j = cos(2(θ_j - α2))` -/
def ndbcRow (pi ef r1 r2 : Rat) (c1 c2 : Vec) : Vec :=
  List.zipWith (fun a b => ndbcSpec pi ef (ndbcDist r1 r2 a b)) c1 c2
/-- `np.arange(0, 360, dd)` -/
def ndbcDirs (dd : Rat) : Vec := arange 0 360 dd

/-! ### winds: `uv_to_spddir(u, v, coming_from)` -/
/-- radicand of `mag = sqrt(u**2 + v**2)` -/
def uvMag2 (u v : Rat) : Rat := u ^ 2 + v ^ 2
def toNautical (comingFrom : Bool) : Rat := if comingFrom then 270 else 90
/-- `a` = `rad2deg(arctan2(v, u))` (oracle) -/
def uvDir (comingFrom : Bool) (a : Rat) : Rat := pmod (toNautical comingFrom - a) 360
/-- exact `(sin, cos)` of `toNautical`: `(sin 270°, cos 270°) = (-1, 0)`, `(sin 90°, cos 90°) = (1, 0)` -/
def nauticalTrig (comingFrom : Bool) : Rat × Rat := if comingFrom then (-1, 0) else (1, 0)
/-- `(sin θ, cos θ)` of the returned direction `θ = N - a` from `(cos a, sin a)` by the angle-difference formulas -/
def dirTrig (comingFrom : Bool) (ca sa : Rat) : Rat × Rat :=
  let (sN, cN) := nauticalTrig comingFrom
  (sN * ca - cN * sa, cN * ca + sN * sa)

/-! ### variances (discrete rule of the accessor: `Δf = gradient`, `Δθ = dd`) -/
/-- variance of a converted spectrum as the accessor integrates it -/
def varConv (f dirs : Vec) (e : Mat) : Rat := Stats.dsum (Stats.dd (some dirs)) (Stats.df f) e

end WS.Native

import WsVerif.Model.Basic
/-!
# Run-time vocabulary of the tracking translator (`harness/translate_trk.py` → `Gen/TrackKernels.lean`)

Mathlib-free, executable.  Every numpy / Python idiom the translator accepts in
`wavespectra/partition/tracking.py` is mapped to exactly one definition of this file; the generated kernels contain
nothing else but these names, `List` functions of core and arithmetic.  The *reading* of each idiom is what is
trusted (see `tools/NOTES-translate_trk.md`); everything after that is proved (`Lemmas/TrkBridge.lean`,
`Props/C19trk.lean`).

Conventions
* a numpy float (scalar or array element) is `Option Rat`, `none` = NaN.  Arithmetic propagates `none`
  (`lift1`, `lift2`), comparisons with `none` are `false`, `!=` with `none` is `true`.
* a 1-D float array is `List (Option Rat)`; reading outside it gives `none` (Python would raise `IndexError`).
* a 2-D array `a` of shape `(n0, n1)` is the list of its `n1` COLUMNS (each of length `n0`): `a[i, j] = (a[j])[i]`,
  `a[:, j] = a[j]`, `a[:, p:q] = (a.drop p).take (q - p)`, `a[i, :] = a.map (·[i])`, `a.shape[0]` = length of the first
  column, `np.hstack([c0, c1, …])` of `(n, 1)` columns = `[c0, c1, …]`.
* an array obtained by broadcasting (`np.repeat(v.reshape(…), n, axis=…)`, arithmetic on it, `np.where`) is never
  stored: it is a *view* `Nat → Nat → Option Rat` together with its symbolic shape; `m[i, :]` materialises one row.
* integers (identifiers, markers, counters) are `Int` (the `int16` storage of the code is NOT modelled: finding F21).
-/
namespace WS.Trk

/-! ## floats with NaN -/

def isnan (x : Option Rat) : Bool := x.isNone

def lift1 (f : Rat → Rat) : Option Rat → Option Rat
  | some a => some (f a)
  | none => none

def lift2 (f : Rat → Rat → Rat) : Option Rat → Option Rat → Option Rat
  | some a, some b => some (f a b)
  | _, _ => none

def oadd : Option Rat → Option Rat → Option Rat := lift2 (· + ·)
def osub : Option Rat → Option Rat → Option Rat := lift2 (· - ·)
def omul : Option Rat → Option Rat → Option Rat := lift2 (· * ·)
/-- `/` on floats; the result for a zero divisor (numpy: `inf`/`nan` + warning) is Lean's `x / 0 = 0`; the bridges
    prove that no such quotient is ever selected (`C19.dist_lt_two`) -/
def odiv : Option Rat → Option Rat → Option Rat := lift2 (· / ·)
/-- Python/numpy float `%` with a positive modulus -/
def omod : Option Rat → Option Rat → Option Rat := lift2 WS.pmod
def oneg : Option Rat → Option Rat := lift1 (fun a => -a)
def oabs : Option Rat → Option Rat := lift1 WS.absR
/-- `np.maximum` propagates NaN -/
def omax : Option Rat → Option Rat → Option Rat := lift2 WS.maxR
def omin : Option Rat → Option Rat → Option Rat := lift2 WS.minR

def olt : Option Rat → Option Rat → Bool
  | some a, some b => decide (a < b)
  | _, _ => false
def ole : Option Rat → Option Rat → Bool
  | some a, some b => decide (a ≤ b)
  | _, _ => false
def ogt (a b : Option Rat) : Bool := olt b a
def oge (a b : Option Rat) : Bool := ole b a
def oeq : Option Rat → Option Rat → Bool
  | some a, some b => decide (a = b)
  | _, _ => false
/-- `x != y` on floats: `true` as soon as one side is NaN -/
def one (a b : Option Rat) : Bool := !oeq a b

/-! ## 1-D and 2-D arrays -/

/-- `v[i]` on a float vector -/
def oat (l : List (Option Rat)) (i : Nat) : Option Rat := l.getD i none

/-- `a[:, j]` -/
def col {α : Type} (m : List (List α)) (j : Nat) : List α := m.getD j []

/-- `a[i, :]` on a float matrix -/
def row (m : List (List (Option Rat))) (i : Nat) : List (Option Rat) := m.map fun c => c.getD i none

/-- `a[:, p:q]` -/
def cols {α : Type} (m : List (List α)) (p q : Nat) : List (List α) := (m.drop p).take (q - p)

/-- `a.shape[0]` -/
def nrows {α : Type} (m : List (List α)) : Nat := (m.getD 0 []).length

/-- `enumerate(l)`, counting from `i` -/
def enumFrom {α : Type} : Nat → List α → List (Nat × α)
  | _, [] => []
  | i, x :: xs => (i, x) :: enumFrom (i + 1) xs

/-- `enumerate(l)` -/
def enum {α : Type} (l : List α) : List (Nat × α) := enumFrom 0 l

/-- `np.diff(v)` -/
def diff (l : List Rat) : List Rat := List.zipWith (fun a b => b - a) l (l.drop 1)

/-- `range(a, b)` -/
def pyRange (a b : Nat) : List Nat := List.range' a (b - a)

/-! ## `sorted(l, key=…)`: stable, ascending; keys compared as floats (`<` with NaN is `false`) -/

def insertBy {α : Type} (key : α → Option Rat) (x : α) : List α → List α
  | [] => [x]
  | y :: ys => if olt (key y) (key x) then y :: insertBy key x ys else x :: y :: ys

/-- insertion sort from the right: among equal keys the earlier element stays first (stable, as Python's `sorted`) -/
def sortedBy {α : Type} (key : α → Option Rat) : List α → List α
  | [] => []
  | x :: xs => insertBy key x (sortedBy key xs)

/-! ## integer arrays (column-major 2-D) -/

/-- `np.ones(n)`, `np.ones((n, 1))`, `np.ones_like(v)` with an integer dtype -/
def ionesLike {α : Type} (l : List α) : List Int := l.map fun _ => 1
def iones (n : Nat) : List Int := List.replicate n 1
/-- integer array `*` integer scalar -/
def imulS (l : List Int) (k : Int) : List Int := l.map (· * k)

/-- Python index: a negative index counts from the end -/
def pyIdx (n : Nat) (i : Int) : Nat := if i < 0 then (n + i).toNat else i.toNat

/-- `a[i, j]` -/
def get2 (m : List (List Int)) (i j : Nat) : Int := (m.getD j []).getD i 0
/-- `a[i, j]` with an integer-valued (array element) row index -/
def get2i (m : List (List Int)) (i : Int) (j : Nat) : Int := get2 m (pyIdx (m.getD j []).length i) j
/-- `a[i, j] = v` -/
def set2 (m : List (List Int)) (i j : Nat) (v : Int) : List (List Int) := m.set j ((m.getD j []).set i v)

/-- `np.hstack` of `(n, 1)` columns: the list of columns itself -/
def hstack (cs : List (List Int)) : List (List Int) := cs

end WS.Trk

import WsVerif.Model.Basic
/-!
Vocabulary of the smoothing translator (`harness/translate_smo.py` → `Gen/SmoKernels.lean`): one definition per
accepted Python / numpy / xarray idiom of `core.utils.smooth_spec` = the trusted reading of that idiom.  Mathlib-free,
independent of `Model/Smooth.lean` (the bridges `C16.gensmo_*` connect the two).

ONE spectrum: `DS` = a dataset with a `dir` coordinate (`dir` = exact values of the labels, `dir32` = the same labels
after `astype("float32")`, carried positionally because rounding is not modelled; `val` rows = frequencies);
`RS` = the same after `rolling(...).mean()` (`none` = NaN).
-/
namespace WS.Smo
open WS

abbrev OVec := List (Option Rat)
abbrev OMat := List OVec

structure DS where
  dir : Vec
  dir32 : Vec
  val : Mat

structure RS where
  dir : Vec
  val : OMat

def forLeakAux (body : Nat → Except Err Unit) : Nat → List Nat → Except Err Nat
  | last, [] => .ok last
  | _, x :: xs =>
    match body x with
    | .error e => .error e
    | .ok _ => forLeakAux body x xs

/-- `for v in [a, b, …]: body` whose body only tests and raises; the result is the value the loop variable KEEPS after
    the loop (Python does not scope it): the last element.  The translator only emits it for a non-empty list literal
    (for an empty one Python would leave the name unbound; `0` here). -/
def forLeak (l : List Nat) (body : Nat → Except Err Unit) : Except Err Nat := forLeakAux body 0 l

/-- stable insertion of index `i` by label (after every entry whose label is `≤`) -/
def insertIdx (d : Vec) (i : Nat) : List Nat → List Nat
  | [] => [i]
  | j :: js => if getR d i < getR d j then i :: j :: js else j :: insertIdx d i js

def argsortAux (d : Vec) : Nat → List Nat
  | 0 => []
  | n + 1 => insertIdx d n (argsortAux d n)

/-- the stable argsort xarray's `sortby` uses (`np.lexsort` of one key) -/
def argsortStable (d : Vec) : List Nat := argsortAux d d.length

/-- `X.sortby(DIR)`: labels, their float32 images and the columns of every row, permuted together -/
def sortby (x : DS) : DS :=
  let p := argsortStable x.dir
  ⟨p.map (getR x.dir), p.map (getR x.dir32), x.val.map fun r => p.map (getR r)⟩

/-- `X[DIR].astype("float32")` (values; xarray assigns them positionally) -/
def f32 (x : DS) : Vec := x.dir32

/-- `X[DIR] = labels` -/
def setDir (x : DS) (labels : Vec) : DS := ⟨labels, labels, x.val⟩

/-- `X[DIR].values` -/
def dirValues (x : DS) : Vec := x.dir

/-- `np.diff` -/
def npDiff : Vec → Vec
  | a :: b :: t => (b - a) :: npDiff (b :: t)
  | _ => []

/-- `list(set(v))`: the distinct values.  Python's order is unspecified; the translator only lets the result be used
    through `len(…)` and through `[0]` under `len(…) == 1`. -/
def listSet : Vec → Vec
  | [] => []
  | a :: t => a :: (listSet t).filter (fun x => x != a)

/-- `l[0]` of a list known to have one element -/
def item0 (l : Vec) : Rat := getR l 0

/-- `v.max()`, `v.min()` (0 for an empty array, where numpy raises) -/
def amax (l : Vec) : Rat := l.foldr maxR (l.headD 0)
def amin (l : Vec) : Rat := l.foldr minR (l.headD 0)

/-- Python `slice(-w, None)` on a list: the last `w` entries, the WHOLE list for `w = 0` (`-0 == 0`) -/
def lastN {α : Type} (w : Nat) (r : List α) : List α := if w = 0 then r else r.drop (r.length - w)

/-- `X.isel(DIR=slice(-w, None))` -/
def iselLast (w : Nat) (x : DS) : DS := ⟨lastN w x.dir, lastN w x.dir32, x.val.map (lastN w)⟩

/-- `X.isel(DIR=slice(0, w))` -/
def iselFirst (w : Nat) (x : DS) : DS := ⟨x.dir.take w, x.dir32.take w, x.val.map (List.take w)⟩

/-- `X.assign_coords({DIR: f(X[DIR])})` -/
def mapDir (f : Rat → Rat) (x : DS) : DS := ⟨x.dir.map f, x.dir32.map f, x.val⟩

def concat2 (a b : DS) : DS := ⟨a.dir ++ b.dir, a.dir32 ++ b.dir32, List.zipWith (· ++ ·) a.val b.val⟩

/-- `xr.concat([a, b, …], dim=DIR)` of pieces with the same frequencies -/
def concatDir : List DS → DS
  | [] => ⟨[], [], []⟩
  | [a] => a
  | a :: rest => concat2 a (concatDir rest)

def cellAt (e : Mat) (i j : Nat) : Rat := getR (e.getD i []) j

def winSum (e : Mat) (i0 j0 fw dw : Nat) : Rat :=
  ((List.range fw).map fun a => ((List.range dw).map fun b => cellAt e (i0 + a) (j0 + b)).sum).sum

/-- one cell of `rolling(dim={FREQ: fw, DIR: dw}, center=True).mean()` (`min_periods` = the window size): NaN unless
    the whole `fw × dw` block centred on `(i, j)` lies inside the array (odd windows: the parity loop runs first) -/
def rollCell (e : Mat) (nf nc fw dw i j : Nat) : Option Rat :=
  if fw / 2 ≤ i ∧ i + fw / 2 < nf ∧ dw / 2 ≤ j ∧ j + dw / 2 < nc then
    some (winSum e (i - fw / 2) (j - dw / 2) fw dw / (((fw * dw : Nat) : Int) : Rat))
  else none

/-- `X.rolling(dim={FREQ: fw, DIR: dw}, center=True).mean()` -/
def rollingMean (fw dw : Nat) (x : DS) : RS :=
  ⟨x.dir, (List.range x.val.length).map fun i => (List.range x.dir.length).map fun j =>
    rollCell x.val x.val.length x.dir.length fw dw i j⟩

/-- `A[DIR].equals(B[DIR])` on the exact label values -/
def coordEquals (a b : Vec) : Bool := decide (a = b)

/-- `X.sel(DIR=Y[DIR])`: exact lookup of `Y`'s labels (cast to the float32 dtype of `X`'s index) among `X`'s labels;
    a missing label is a `KeyError` -/
def selDir (x : RS) (y : DS) : Except Err RS :=
  if y.dir32.all (fun d => x.dir.contains d) then
    .ok ⟨y.dir32, x.val.map fun row => y.dir32.map fun d => row.getD (x.dir.idxOf d) none⟩
  else .error .keyError

/-- `X.assign_coords(Y.coords)` -/
def assignCoords (x : RS) (y : DS) : RS := ⟨y.dir, x.val⟩

def ocell (r : OMat) (i j : Nat) : Option Rat := (r.getD i []).getD j none

/-- `xr.where(X.notnull(), X, Y)` on identically labelled arrays (shape of `Y`) -/
def whereNotnull (x : RS) (y : DS) : DS :=
  ⟨x.dir, y.dir32, (List.range y.val.length).map fun i => (List.range y.dir.length).map fun k =>
    match ocell x.val i k with
    | some v => v
    | none => cellAt y.val i k⟩

/-- the input of the generated function for stored labels `dirs`, their float32 images `dirs32` and values `e` -/
def mkDS (dirs dirs32 : Vec) (e : Mat) : DS := ⟨dirs, dirs32, e⟩

/-- what `return X` hands back: (direction coordinate, values) -/
def out (x : DS) : Vec × Mat := (x.dir, x.val)

end WS.Smo

import WsVerif.Model.Stats
import WsVerif.Model.Consts
import WsVerif.Model.Dispersion
/-!
Hand-written twins of the remaining derived statistics of `SpecArray` (wavespectra/specarray.py: `uss_x`, `uss_y`, `uss`, `mss`,
`rmse`), in the form the property models (`Stats.ussSum`, `Stats.mss`) take their tables: the wavenumber table `waveK`, the
Stokes-drift weight `fk_i = 4π f_i k_i`, the argument of the cos / sin table, and the two radicands of `rmse`.
Square roots are the oracle function `sqrt`.  Mirrors the code: the deep-water branch divides by `1.56·(1/f)²` as written
(total division: `x / 0 = 0`, numpy gives `inf` there).
-/
namespace WS.XrT3
open WS

/-- `k`: when `depth is None` the deep-water `L = 1.56·(1/f)²`, `k = 2π / L` (staged as coded: `1/f`, square, scale, divide),
    else `wavenuma(freq, depth)` -/
def waveK (pi : Rat) (sqrt : Rat → Rat) (f : Vec) : Option Rat → Vec
  | none => List.map (fun t => (2 * pi) / t)
      (List.map (fun t => Consts.deep * t) (List.map (fun t => t ^ 2) (List.map (fun t => (1 : Rat) / t) f)))
  | some h => List.map (fun t => Dispersion.wavenuma pi sqrt t h) f

/-- `fk = 4π · freq · k` (staged as coded: `(4π·freq)·k`) -/
def fk (pi : Rat) (sqrt : Rat → Rat) (f : Vec) (depth : Option Rat) : Vec :=
  List.zipWith (fun a b => a * b) (List.map (fun t => (4 * pi) * t) f) (waveK pi sqrt f depth)

/-- `k²` -/
def waveK2 (pi : Rat) (sqrt : Rat → Rat) (f : Vec) (depth : Option Rat) : Vec :=
  List.map (fun t => t ^ 2) (waveK pi sqrt f depth)

/-- argument (degrees) of the cos / sin table of `uss_x` / `uss_y`: `180 + theta − dir` -/
def ussArg (theta d : Rat) : Rat := 180 + theta - d

/-- sum over both dimensions -/
def sumM (m : Mat) : Rat := (m.map List.sum).sum

/-- `Σ (e0 − e1)²` -/
def rmseNum (e0 e1 : Mat) : Rat :=
  sumM ((List.zipWith (fun r1 r2 => List.zipWith (fun a b => a - b) r1 r2) e0 e1).map fun r => r.map fun t => t ^ 2)

/-- `(Σ e0)²` -/
def rmseDen (e0 : Mat) : Rat := sumM e0 ^ 2

/-- `rmse = sqrt(Σ(e0−e1)²) / sqrt((Σ e0)²)` (`none` = NaN / inf on a zero denominator) -/
def rmse (sqrt : Rat → Rat) (e0 e1 : Mat) : Option Rat := divOpt (sqrt (rmseNum e0 e1)) (sqrt (rmseDen e0))

end WS.XrT3

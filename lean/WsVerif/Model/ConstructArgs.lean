import WsVerif.Model.Construct
import WsVerif.Model.Dispersion
/-!
The *published formulas* behind the tables of `Model/Construct.lean`, hand-written from the references quoted in
`wavespectra/construct/__init__.py` (Pierson & Moskowitz 1964, Hasselmann et al. 1973, Bouws et al. 1985,
Bunney et al. 2014, Cartwright 1963), over exact rationals.  `Model/Construct.lean` takes the transcendental factors as
tables; this file says what each table is a table *of*: the rational coefficient in front of it and the rational
argument handed to `exp`, `tanh`, `sinh`, `cos`, `**`.  Nothing transcendental is evaluated: `pi`, `g` are symbolic,
`sqrt` is an oracle function.

Tied to the source by regeneration: `harness/translate_con.py` re-derives every one of these expressions from the bodies
of the constructors on each run (`Gen/ConKernels.lean`), `Props/C15con.lean` (`gencon_*`) proves them equal to the
definitions below for all inputs.  Division is total rational division (`x / 0 = 0`), as in the regenerated text; the
divisors concerned are listed in `Gen.con*_divisors`.  Mathlib-free.
-/
namespace WS.Construct
open WS

/-! ### frequency shapes -/

/-- Phillips' high-frequency tail `α g² (2π)⁻⁴ f⁻⁵` (the factor `t1` of PM / JONSWAP / TMA) -/
def phillips (pi g alpha f : Rat) : Rat := alpha * g ^ 2 / ((2 * pi) ^ 4 * f ^ 5)

/-- argument of the Pierson–Moskowitz exponential: `−(5/4)(fp/f)⁴` (table `t2 = exp(·)`) -/
def pmExpArg (fp f : Rat) : Rat := -(5 / 4) * (fp / f) ^ 4

/-- JONSWAP peak width: `σ_a` on and below the peak, `σ_b` above it -/
def sigmaSel (fp sa sb f : Rat) : Rat := if f ≤ fp then sa else sb

/-- exponent of the peak enhancement: `−(f − fp)² / (2 σ² fp²)` (table `t3 = γ ^ exp(·)`) -/
def peakExpArg (fp sigma f : Rat) : Rat := -((f - fp) ^ 2 / (2 * sigma ^ 2 * fp ^ 2))

/-- coefficient of the Gaussian shape: `m0 / (gw·√(2π))`, `m0 = (hs/4)²` -/
def gaussCoef (pi : Rat) (sqrt : Rat → Rat) (hs gw : Rat) : Rat := (hs / 4) ^ 2 / (gw * sqrt (2 * pi))

/-- argument of the Gaussian exponential: `−(f − fp)² / (2 gw²)` -/
def gaussExpArg (fp gw f : Rat) : Rat := -((f - fp) ^ 2 / (2 * gw ^ 2))

/-- the table `tg` of `Construct.gaussian` from the table `ex = exp(gaussExpArg)` -/
def gaussTable (pi : Rat) (sqrt : Rat → Rat) (hs gw : Rat) (ex : Vec) : Vec := scaleV (gaussCoef pi sqrt hs gw) ex

/-- relative depth `k·d` with `k` from `utils.wavenuma` (argument of `tanh`; `sinh` gets `2·k·d`) -/
def kd (pi : Rat) (sqrt : Rat → Rat) (dep f : Rat) : Rat := Dispersion.wavenuma pi sqrt f dep * dep

/-- TMA depth factor (Kitaigorodskii et al.) from `th = tanh(kd)`, `sh = sinh(2kd)`: `tanh²(kd) / (1 + 2kd / sinh(2kd))` -/
def phiElem (kd th sh : Rat) : Rat := th ^ 2 / (1 + 2 * kd / sh)

/-- the table `phi` of `Construct.tma`, bin by bin -/
def tmaPhi : Vec → Vec → Vec → Vec
  | k :: ks, t :: ts, s :: ss => phiElem k t s :: tmaPhi ks ts ss
  | _, _, _ => []

/-! ### directional spreading -/

/-- degrees to radians, `x·π/180` -/
def deg2rad (pi x : Rat) : Rat := x * pi / 180

/-- argument of the cosine of the `cos^{2s}` spreading: half the wrapped angular distance, in radians -/
def cosArg (pi d dm : Rat) : Rat := deg2rad pi (dth d dm) / 2

/-- exponent `2s` of the `cos^{2s}` spreading, `s = 2/σ² − 1` with `σ` the spread in radians -/
def cosExp (pi dspr : Rat) : Rat := 2 * (2 / deg2rad pi dspr ^ 2 - 1)

/-- `gth.where(np.abs(dth) <= 90.0, 0.0)` -/
def mask90 (dirs : Vec) (dm : Rat) (t : Vec) : Vec :=
  List.zipWith (fun d x => if absR (dth d dm) ≤ 90 then x else 0) dirs t

/-- `cartwright(dir, dm, dspr, under_90)` for scalar `dm`, `dspr`, from the table `t = cos(cosArg)^cosExp` -/
def cartwright (pi : Rat) (under90 : Bool) (dirs : Vec) (dm : Rat) (t : Vec) : Option Vec :=
  cartwrightRow pi (if under90 then mask90 dirs dm t else t)

/-- the same with one mean direction per frequency (`asymmetric` passes `under_90=False`) -/
def cartwrightF (pi : Rat) (under90 : Bool) (dirs dms : Vec) (T : Mat) : List (Option Vec) :=
  spreadRows pi (if under90 then List.zipWith (fun m t => mask90 dirs m t) dms T else T)

/-- per-frequency mean direction / spread of `asymmetric` at one frequency -/
def asymThetaAt (dm dpm fm fp f : Rat) : Rat := getR (asymTheta K.lo K.hi K.dfmin dm dpm fm fp [f]) 0
def asymSigmaAt (dspr dpspr fm fp f : Rat) : Rat := getR (asymSigma K.lo K.hi K.dfmin K.smin dspr dpspr fm fp [f]) 0

/-! ### `conditional` -/

/-- `xr.where(cond, a, b)` on three 1-D arrays of the same length -/
def selectV : List Bool → Vec → Vec → Vec
  | c :: cs, a :: as, b :: bs => (if c then a else b) :: selectV cs as bs
  | _, _, _ => []

/-- `conditional(freq, hs, fp, cond, "jonswap", "gaussian")`: both shapes scaled to `hs`, chosen bin by bin
    (`none` as soon as one of the two shapes is NaN — coarser than numpy, which keeps the bins taken from the other) -/
def conditional (thr q h : Rat) (f : Vec) (cond : List Bool) (t1 t2 t3 tg : Vec) : Option Vec :=
  (jonswap thr q (some h) f t1 t2 t3).bind fun a => (gaussian thr q h f tg).map fun b => selectV cond a b

end WS.Construct

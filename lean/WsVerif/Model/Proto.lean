import WsVerif.Model.Basic
/-! Line-protocol parsing/printing for the correspondence driver (DESIGN §2.2). -/
namespace WS.Proto
open WS

abbrev P := StateT (List String) (Except String)

def tok : P String := do
  match (← get) with
  | [] => throw "unexpected end of line"
  | t :: ts => set ts; pure t

def parseRatStr (s : String) : Except String Rat :=
  match s.splitOn "/" with
  | [a] => match a.toInt? with
    | some n => pure (n : Rat)
    | none => throw s!"bad int {a}"
  | [a, b] => match a.toInt?, b.toNat? with
    | some n, some d => if d = 0 then throw "zero den" else pure (mkRat n d)
    | _, _ => throw s!"bad rat {s}"
  | _ => throw s!"bad rat {s}"

def rat : P Rat := do let t ← tok; liftM (m := Except String) (parseRatStr t)
def nat : P Nat := do
  let t ← tok
  match t.toNat? with
  | some n => pure n
  | none => throw s!"bad nat {t}"
def int : P Int := do
  let t ← tok
  match t.toInt? with
  | some n => pure n
  | none => throw s!"bad int {t}"
def bool : P Bool := do let n ← nat; pure (n != 0)

def many {α} (n : Nat) (p : P α) : P (List α) := do
  let mut acc : Array α := Array.mkEmpty n
  for _ in [0:n] do
    acc := acc.push (← p)
  pure acc.toList

/-- `v n x1 … xn` -/
def vec : P Vec := do
  let t ← tok
  if t != "v" then throw s!"expected v got {t}"
  let n ← nat
  many n rat

/-- optional rational: `nan` or a rational -/
def orat : P (Option Rat) := do
  let t ← tok
  if t == "nan" then pure none else do
    let r ← liftM (m := Except String) (parseRatStr t)
    pure (some r)

def ovec : P (List (Option Rat)) := do
  let t ← tok
  if t != "v" then throw s!"expected v got {t}"
  let n ← nat
  many n orat

def ivec : P (List Int) := do
  let t ← tok
  if t != "iv" then throw s!"expected iv got {t}"
  let n ← nat
  many n int

/-- `m r c x11 … xrc` row-major -/
def mat : P Mat := do
  let t ← tok
  if t != "m" then throw s!"expected m got {t}"
  let r ← nat
  let c ← nat
  many r (many c rat)

def imat : P (List (List Int)) := do
  let t ← tok
  if t != "im" then throw s!"expected im got {t}"
  let r ← nat
  let c ← nat
  many r (many c int)

/-- `ov none` or `ov v n …` -/
def optVec : P (Option Vec) := do
  let t ← tok
  if t == "none" then pure none else
  if t != "v" then throw s!"expected v/none got {t}" else do
    let n ← nat
    let xs ← many n rat
    pure (some xs)

def showRat (r : Rat) : String :=
  if r.den = 1 then toString r.num else s!"{r.num}/{r.den}"

def showORat : Option Rat → String
  | none => "nan"
  | some r => showRat r

def showVec (v : Vec) : String :=
  "v " ++ toString v.length ++ v.foldl (fun s x => s ++ " " ++ showRat x) ""

def showOVec (v : List (Option Rat)) : String :=
  "v " ++ toString v.length ++ v.foldl (fun s x => s ++ " " ++ showORat x) ""

def showIVec (v : List Int) : String :=
  "iv " ++ toString v.length ++ v.foldl (fun s x => s ++ " " ++ toString x) ""

def showMat (c : Nat) (e : Mat) : String :=
  "m " ++ toString e.length ++ " " ++ toString c ++
    e.foldl (fun s r => r.foldl (fun s x => s ++ " " ++ showRat x) s) ""

def kv (k : String) (v : String) : String := k ++ "=" ++ v

end WS.Proto

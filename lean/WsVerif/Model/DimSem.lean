import WsVerif.Model.Basic
/-!
Meaning of "acts along a spectral dimension only" (C06).  A labelled array with its non-spectral dimensions flattened is
`List Mat` (one matrix, rows = frequencies, per position).  A reduction `g` along an axis:

* `freq`: inside every matrix, column by column;     * `dir`: inside every matrix, row by row;
* any other axis (`pos`): across the positions, bin by bin — the result has one position and depends on all of them.

`Props/C06dims.lean` proves that reductions along a spectral axis commute with extracting a position, that one along `pos`
does not, and that every axis-sensitive call regenerated from the source (`Gen.dimsAudit`) is of the first kind.
-/
namespace WS.DimSem
open WS

inductive Axis | pos | freq | dir
  deriving DecidableEq, Repr

/-- the axis a dimension name denotes: only `freq` and `dir` are spectral -/
def axisOf (d : String) : Axis := if d = "freq" then .freq else if d = "dir" then .dir else .pos

/-- columns of a matrix (transpose, width taken from the first row) -/
def cols (m : Mat) : Mat := (List.range (m.headD []).length).map fun j => m.map fun r => r.getD j 0

/-- reduce one matrix along a spectral axis (the reduced axis is kept with length one) -/
def reduceMat (ax : Axis) (g : Vec → Rat) (m : Mat) : Mat :=
  match ax with
  | .freq => [(cols m).map g]
  | .dir => m.map fun r => [g r]
  | .pos => m

/-- bin `(i, j)` of every position -/
def binAcross (a : List Mat) (i j : Nat) : Vec := a.map fun m => (m.getD i []).getD j 0

/-- reduce a flattened labelled array along an axis -/
def reduceAx (ax : Axis) (g : Vec → Rat) (a : List Mat) : List Mat :=
  match ax with
  | .pos =>
    let m0 := a.headD []
    [(List.range m0.length).map fun i => (List.range (m0.getD i []).length).map fun j => g (binAcross a i j)]
  | ax => a.map (reduceMat ax g)

/-- one regenerated axis-sensitive call: function, method, kind (`dim` / `coord` / `all`), dimensions, receiver text -/
structure DimUse where
  fn : String
  op : String
  kind : String
  dims : List String
  recv : String
  deriving DecidableEq, Repr

/-- one regenerated `apply_ufunc` call -/
structure UfuncUse where
  fn : String
  kernel : String
  ins : List (List String)
  outs : List (List String)
  vectorize : Bool
  deriving DecidableEq, Repr

/-- the call acts inside each spectrum: a coordinate quantity, or named dimensions that are all spectral -/
def DimUse.spectralOnly (u : DimUse) : Bool :=
  u.kind == "coord" || (u.kind == "dim" && u.dims.all fun d => axisOf d != .pos)

/-- vectorised over everything but spectral core dimensions; outputs may add the `part` axis -/
def UfuncUse.spectralOnly (u : UfuncUse) : Bool :=
  u.vectorize && u.ins.all (·.all fun d => axisOf d != .pos) && u.outs.all (·.all fun d => d == "part" || axisOf d != .pos)

end WS.DimSem

namespace WS.DimSem
/-- one regenerated `apply_ufunc` call seen from the dask side: union of the input core dimensions, the
    `.chunk({dim: value})` specifications applied earlier in the same function (or inside the call's arguments), the
    `allow_rechunk` flag handed to dask and the `dask=` mode -/
structure DaskUse where
  fn : String
  kernel : String
  core : List String
  rechunked : List (String × String)
  allowRechunk : Bool
  dask : String
  deriving DecidableEq, Repr

/-- core dimension `d` is brought to a single chunk before the kernel runs: by the code (`chunk({d: -1})`) or by dask
    itself (`allow_rechunk=True`) -/
def DaskUse.covers (u : DaskUse) (d : String) : Bool := u.allowRechunk || u.rechunked.contains (d, "-1")

def DaskUse.ok (u : DaskUse) : Bool := u.dask == "parallelized" && u.core.all u.covers
end WS.DimSem

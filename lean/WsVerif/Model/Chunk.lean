import WsVerif.Model.Basic
/-!
Model of dask-backed (chunked) arrays (C07).  A chunked 1-D array is the list of its chunks; its logical
content is the concatenation.  Only what the property needs is modelled: blockwise maps, chunked sums with
an arbitrary reduction tree, `apply_ufunc(dask="parallelized")`'s refusal of a core dimension that is split
over several chunks, the two rechunking calls (`chunk({dim: None})` = no-op, the defect; `chunk({dim: -1})`
= one chunk, the repair), and atomic calls into the partitioning extension that share static state.
Graph construction and the scheduler itself are outside the model (DESIGN §1.5).
-/
namespace WS.Chunk
open WS

abbrev Chunks := List (List Rat)

/-- logical content of a chunked array -/
def content (c : Chunks) : List Rat := c.flatten

/-- elementwise operation applied block by block -/
def blockwiseMap (f : Rat → Rat) (c : Chunks) : Chunks := c.map (·.map f)

/-- per-chunk partial sums (first stage of a dask reduction) -/
def chunkSums (c : Chunks) : List Rat := c.map List.sum

/-- a binary reduction tree over partial results -/
inductive Tree where
  | leaf (x : Rat)
  | node (l r : Tree)

def Tree.eval : Tree → Rat
  | .leaf x => x
  | .node l r => l.eval + r.eval

def Tree.leaves : Tree → List Rat
  | .leaf x => [x]
  | .node l r => l.leaves ++ r.leaves

/-- `xr.apply_ufunc(f, …, input_core_dims=[[dim]], dask="parallelized")`: raises `ValueError` when the core
    dimension consists of more than one chunk, else applies `f` to the whole content -/
def applyCore {β : Type} (f : List Rat → β) (c : Chunks) : Except Err β :=
  if 1 < c.length then .error .valueError else .ok (f (content c))

/-- `x.chunk({dim: None})`: keeps the chunking (what the code did before the repair) -/
def rechunkNone (c : Chunks) : Chunks := c

/-- `x.chunk({dim: -1})`: a single chunk along `dim` (the repaired code) -/
def rechunkAll (c : Chunks) : Chunks := [content c]

/-! ### two core dimensions (freq and dir)

Index order `freq-chunk → row within the chunk → dir-chunk → value`: a re-indexing of the block grid
`(freq-chunk, dir-chunk, row, column)` in which the logical content is two nested concatenations. -/

abbrev Chunks2 := List (List (List (List Rat)))

/-- logical matrix: concatenate the freq-chunks, then each row's dir-chunks -/
def content2 (c : Chunks2) : Mat := c.flatten.map List.flatten

/-- `apply_ufunc` with core dims `[freq, dir]`: both must be single-chunk -/
def applyCore2 {β : Type} (f : Mat → β) (c : Chunks2) : Except Err β :=
  if 1 < c.length || c.any (fun rows => rows.any fun row => decide (1 < row.length))
  then .error .valueError else .ok (f (content2 c))

/-- `x.chunk({freq: -1, dir: -1})` -/
def rechunkAll2 (c : Chunks2) : Chunks2 := [(content2 c).map fun r => [r]]

/-- total of all per-block sums -/
def blockSums2 (c : Chunks2) : List Rat := c.map fun rows => (rows.map fun row => (row.map List.sum).sum).sum

/-! ### atomic calls sharing static state

`call s x = (s', out)`: one call into the extension module that finds the static state `s` left by
whatever ran before, and leaves `s'`.  Calls are atomic (the wrapper holds the GIL throughout), so any
multi-threaded execution is *some* sequence of whole calls. -/

/-- run a sequence (an interleaving of the threads' calls) from state `s`, collecting the outputs -/
def runCalls {σ In Out : Type} (call : σ → In → σ × Out) : σ → List In → List Out
  | _, [] => []
  | s, x :: xs => (call s x).2 :: runCalls call (call s x).1 xs

end WS.Chunk

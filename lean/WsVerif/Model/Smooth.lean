import WsVerif.Model.Basic
/-!
Model of `wavespectra.core.utils.smooth_spec` (`SpecArray.smooth`), step by step, for ONE spectrum
`e` (rows = frequencies, columns = directions **in stored order**).

Inputs besides the spectrum: the stored direction labels `dirs` (exact value of the stored numbers) and
`dirs32`, the same labels after `astype("float32")` (exact value of the float32 numbers), supplied by the
caller because rounding is not modelled (DESIGN §1.5-1).  For whole/dyadic degrees `dirs32 = dirs`.

```
for window in [freq_window, dir_window]: if window % 2 == 0: raise ValueError        -- (1)
dsout = dset.sortby("dir")                                                          -- (2)
dsout["dir"] = dset["dir"].astype("float32")          # labels of the UNSORTED input -- (3)  defect
dirs = dsout["dir"].values; dd = list(set(np.diff(dirs)))                           -- (4)
is_circular = len(dd) == 1 and abs(dirs.max() - dirs.min() + dd - 360) < 0.1 * dd
if is_circular: pad `window` (= dir_window, the last loop value) bins on each side, labels ∓ 360   -- (5)
dsout = dsout.rolling(dim={freq: fw, dir: dw}, center=True).mean()   # NaN unless the whole fw×dw window fits -- (6)
if not dsout["dir"].equals(dset["dir"]): dsout = dsout.sel(dir=dset["dir"])         -- (7)  lookup by (float32) label
dsout = dsout.assign_coords(dset.coords)                                            -- (8)
dsout = xr.where(dsout.notnull(), dsout, dset)                                      -- (9)
```
-/
namespace WS.Smooth
open WS

abbrev OVec := List (Option Rat)
abbrev OMat := List OVec

/-- **Which object's direction coordinate is cast in step (3)**: `false` = `dset` (the unsorted input: the
    tree as it is), `true` = `dsout` (the sorted copy: the repaired code).  Tied to the source by
    `WS.C16.tie_smooth_source`; flip this single constant when the repair lands. -/
def codeSortedLabels : Bool := true

/-- the double `0.1` of the circularity test -/
def tenth : Rat := (3602879701896397 : Rat) / 36028797018963968

/-- insert index `i` after every entry whose direction is `≤` that of `i` (stable) -/
def insertIdx (d : Vec) (i : Nat) : List Nat → List Nat
  | [] => [i]
  | j :: js => if getR d i < getR d j then i :: j :: js else j :: insertIdx d i js

def sortPermAux (d : Vec) : Nat → List Nat
  | 0 => []
  | n + 1 => insertIdx d n (sortPermAux d n)

/-- (2) `sortby`: stable argsort of the stored direction values (insertion sort of the indices `0..n-1`) -/
def sortPerm (d : Vec) : List Nat := sortPermAux d d.length

/-- positional column selection (`isel`) -/
def takeCols (idx : List Nat) (e : Mat) : Mat := e.map fun r => idx.map (getR r)

/-- `np.diff` -/
def diffs : Vec → Vec
  | a :: b :: t => (b - a) :: diffs (b :: t)
  | _ => []

def maxL (l : Vec) : Rat := l.foldr maxR (l.headD 0)
def minL (l : Vec) : Rat := l.foldr minR (l.headD 0)

/-- (4) `len(set(np.diff(dirs))) == 1` and `|max − min + dd − 360| < 0.1·dd` -/
def isCircular (lab : Vec) : Bool :=
  match diffs lab with
  | [] => false
  | d :: ds => ds.all (fun x => x == d) && decide (absR (maxL lab - minL lab + d - 360) < tenth * d)

/-- (5) `concat([x.isel(dir=slice(-w, None)), x, x.isel(dir=slice(0, w))])` -/
def padRow {α : Type} (w : Nat) (r : List α) : List α := r.drop (r.length - w) ++ r ++ r.take w

def padLabels (w : Nat) (l : Vec) : Vec :=
  (l.drop (l.length - w)).map (· - 360) ++ l ++ (l.take w).map (· + 360)

def cellAt (e : Mat) (i j : Nat) : Rat := getR (e.getD i []) j

/-- sum of the `fw × dw` block whose first cell is `(i0, j0)` -/
def winSum (e : Mat) (i0 j0 fw dw : Nat) : Rat :=
  ((List.range fw).map fun a => ((List.range dw).map fun b => cellAt e (i0 + a) (j0 + b)).sum).sum

/-- (6) one cell of the centred rolling mean over an `nf × nc` array; `none` = NaN (window incomplete) -/
def rollCell (e : Mat) (nf nc fw dw i j : Nat) : Option Rat :=
  if fw / 2 ≤ i ∧ i + fw / 2 < nf ∧ dw / 2 ≤ j ∧ j + dw / 2 < nc then
    some (winSum e (i - fw / 2) (j - dw / 2) fw dw / (((fw * dw : Nat) : Int) : Rat))
  else none

def rolling (fw dw nc : Nat) (e : Mat) : OMat :=
  (List.range e.length).map fun i => (List.range nc).map fun j => rollCell e e.length nc fw dw i j

def ocell (r : OMat) (i j : Nat) : Option Rat := (r.getD i []).getD j none

/-- (7) `sel(dir=want)`: exact label lookup; a missing label is a `KeyError` -/
def selCols (labels want : Vec) (r : OMat) : Except Err OMat :=
  if want.all (fun d => labels.contains d) then
    .ok (r.map fun row => want.map fun d => row.getD (labels.idxOf d) none)
  else .error .keyError

/-- (9) `xr.where(dsout.notnull(), dsout, dset)` on identically labelled arrays -/
def fill (r : OMat) (e : Mat) (nd : Nat) : Mat :=
  (List.range e.length).map fun i => (List.range nd).map fun k =>
    match ocell r i k with
    | some v => v
    | none => cellAt e i k

/-- (3) direction labels put on the sorted data -/
def labelsOf (sortedLabels : Bool) (dirs dirs32 : Vec) : Vec :=
  if sortedLabels then (sortPerm dirs).map (getR dirs32) else dirs32

/-- the whole pipeline; result = (direction coordinate, values) in stored order -/
def smoothWith (sortedLabels : Bool) (dirs dirs32 : Vec) (e : Mat) (fw dw : Nat) : Except Err (Vec × Mat) :=
  if fw % 2 = 0 ∨ dw % 2 = 0 then .error .valueError else
  let s := takeCols (sortPerm dirs) e
  let lab := labelsOf sortedLabels dirs dirs32
  let w := min dw dirs.length
  let lab2 := if isCircular lab then padLabels w lab else lab
  let s2 := if isCircular lab then s.map (padRow w) else s
  let r := rolling fw dw lab2.length s2
  let sel := if lab2 = dirs then .ok r else selCols lab2 dirs32 r
  match sel with
  | .ok r' => .ok (dirs, fill r' e dirs.length)
  | .error err => .error err

/-- the code on this tree -/
def smooth := smoothWith codeSortedLabels

end WS.Smooth

import WsVerif.Model.Basic
/-!
# Model of partition tracking (`wavespectra/partition/tracking.py`) — Mathlib-free, executable

Two layers.

* **abstract layer** (`matchConsecutive`, `propagate`, `track`): what `match_consecutive_partitions` and the id
  propagation of `np_track_partitions` do once the thresholded distance matrix is known.  The matrix is an
  arbitrary function `dist cur prev : Option Rat` (`none` = the `999` sentinel = outside the thresholds), so
  the theorems of `Props/C19.lean` hold for every threshold parameter, wind speed and frequency/direction value.
* **data layer** (`distEntry`, `distOf`, `trackData`): the distance matrix computed from `fp`, `dpm`
  (`none` = NaN) and the four thresholds exactly as the code does.

Conventions: a time step is a list over partition slots; `Slot = Bool`, `true` = non-empty
(`~isnan(fp)`); ids are `Option Nat`, `none` = the `-999` marker.
-/
namespace WS.Track

/-- `true` = the partition slot has energy (`fp` is not NaN) -/
abbrev Slot := Bool

/-- thresholded distance matrix, `dist cur prev`; `none` = 999 (outside thresholds / NaN) -/
abbrev Dist := Nat → Nat → Option Rat

/-- `[(ip_prev, d) for ip_prev, d in enumerate(partition_distance[c, :]) if d != 999 and ip_prev in available]` -/
def cands (dist : Dist) (avail : List Nat) (n c : Nat) : List (Nat × Rat) :=
  (List.range n).filterMap fun p =>
    match dist c p with
    | some d => if p ∈ avail then some (p, d) else none
    | none => none

/-- head of the stable `sorted(…, key=distance)`: the *first* element of minimal distance -/
def argminFirst : List (Nat × Rat) → Option (Nat × Rat)
  | [] => none
  | x :: xs =>
    match argminFirst xs with
    | none => some x
    | some y => if y.2 < x.2 then some y else some x

/-- entry of the `matches` array of `match_consecutive_partitions` -/
inductive Match where
  | empty            -- -999 : current slot is NaN
  | fresh            -- -888 : no predecessor within thresholds is still available
  | prev (p : Nat)   -- index of the matched partition of the previous step
deriving Repr, DecidableEq

/-- the loop `for ip_curr, fp_curr in enumerate(fp[:, 1])`; `c` = `ip_curr`, `avail` = `available` -/
def matchLoop (dist : Dist) (n : Nat) : List Slot → Nat → List Nat → List Match
  | [], _, _ => []
  | s :: rest, c, avail =>
    if s then
      match argminFirst (cands dist avail n c) with
      | none => Match.fresh :: matchLoop dist n rest (c + 1) avail
      | some (p, _) => Match.prev p :: matchLoop dist n rest (c + 1) (avail.erase p)
    else Match.empty :: matchLoop dist n rest (c + 1) avail

/-- `available = [ip for ip, ok in enumerate(~isnan(fp[:, 0])) if ok]` -/
def availOf (prev : List Slot) : List Nat :=
  (List.range prev.length).filter fun p => prev.getD p false

/-- `match_consecutive_partitions` given the thresholded distance matrix -/
def matchConsecutive (dist : Dist) (prev cur : List Slot) : List Match :=
  matchLoop dist prev.length cur 0 (availOf prev)

/-- one column of "Propagate the partition ids through time": `prevIds` are the (already global) ids of
    step `it-1`, `ms` the local matches of step `it`, `next` the running `part_id` -/
def propagate (prevIds : List (Option Nat)) : List Match → Nat → List (Option Nat) × Nat
  | [], next => ([], next)
  | Match.empty :: ms, next =>
      let r := propagate prevIds ms next
      (none :: r.1, r.2)
  | Match.fresh :: ms, next =>
      let r := propagate prevIds ms (next + 1)
      (some next :: r.1, r.2)
  | Match.prev p :: ms, next =>
      let r := propagate prevIds ms next
      (prevIds.getD p none :: r.1, r.2)

/-- "Number the partitions in the first time step" -/
def firstStep : List Slot → Nat → List (Option Nat) × Nat
  | [], next => ([], next)
  | true :: ss, next =>
      let r := firstStep ss (next + 1)
      (some next :: r.1, r.2)
  | false :: ss, next =>
      let r := firstStep ss next
      (none :: r.1, r.2)

/-- tracker state after a time step: that step's slots and global ids, and the running id counter -/
structure St where
  slots : List Slot
  ids : List (Option Nat)
  next : Nat
deriving Repr

def init (s0 : List Slot) : St :=
  let r := firstStep s0 0
  ⟨s0, r.1, r.2⟩

/-- one time step `it`: local matches against step `it-1`, then globalisation -/
def step (dist : Dist) (st : St) (cur : List Slot) : St :=
  let r := propagate st.ids (matchConsecutive dist st.slots cur) st.next
  ⟨cur, r.1, r.2⟩

/-- the states after step 0, 1, …, T-1 (never empty) -/
def allStates (st : St) : List (Dist × List Slot) → List St
  | [] => [st]
  | (d, s) :: rest => st :: allStates (step d st s) rest

def finalNext (st : St) : List (Dist × List Slot) → Nat
  | [] => st.next
  | (d, s) :: rest => finalNext (step d st s) rest

/-- `np_track_partitions` on the abstract inputs: slots of step 0 and, for every later step, its distance
    matrix against the previous step and its slots.  Returns the id rows (one per time step) and `part_id`. -/
def track (s0 : List Slot) (steps : List (Dist × List Slot)) : List (List (Option Nat)) × Nat :=
  ((allStates (init s0) steps).map (·.ids), finalNext (init s0) steps)

/-! ## data layer -/

/-- thresholds handed to `match_consecutive_partitions` at one step -/
structure Thr where
  /-- `dfp_sea_max[it-1]` (negative in normal use); `none` = NaN (empty sea slot or NaN wind at `it-1`) -/
  dfpSea : Option Rat
  dfpSwell : Rat
  ddpmSea : Rat
  ddpmSwell : Rat
deriving Repr

/-- constants of the direction wrap and the integer markers of the output (tied to the literals of the
    source by `Props/C19.lean: lits_*`) -/
def halfTurn : Rat := 180
def fullTurn : Rat := 360
def emptyMarker : Int := -999
def unmatchedMarker : Int := -888
/-- the in-matrix sentinel for "outside thresholds" (modelled as `none`) -/
def farSentinel : Rat := 999

/-- `abs(((dcur - dprev) + 180) % 360 - 180)` -/
def ddpmOf (dcur dprev : Rat) : Rat := absR (pmod (dcur - dprev + halfTurn) fullTurn - halfTurn)

/-! The threshold vectors `ddpm_max`, `dfp_max`, `dfp_min` have shape `(P,)` and are compared with the
`(P, P)` matrices `ddpm[cur, prev]`, `dfp[cur, prev]`; numpy broadcasting aligns them with the **last** axis,
so the sea/swell choice is made by the index `p` of the *previous* partition (index 0 = sea). -/
def ddpmMax (thr : Thr) (p : Nat) : Rat := if p = 0 then thr.ddpmSea else thr.ddpmSwell
def dfpMax (thr : Thr) (_p : Nat) : Rat := thr.dfpSwell
def dfpMin (thr : Thr) (p : Nat) : Option Rat := if p = 0 then thr.dfpSea else some (-thr.dfpSwell)

/-- the `np.where(...)` condition for finite values (`lo` = `dfp_min[p]`) -/
def within (thr : Thr) (p : Nat) (lo ddpm dfp : Rat) : Prop :=
  ddpm < ddpmMax thr p ∧ dfp < dfpMax thr p ∧ lo < dfp

instance (thr : Thr) (p : Nat) (lo ddpm dfp : Rat) : Decidable (within thr p lo ddpm dfp) := by
  unfold within; exact inferInstance

/-- the value branch of the `np.where(...)` -/
def distVal (thr : Thr) (p : Nat) (lo ddpm dfp : Rat) : Rat :=
  absR dfp / maxR (dfpMax thr p) (absR lo) + ddpm / ddpmMax thr p

/-- `partition_distance[c, p]`: comparisons with NaN are false, so any NaN operand gives 999 = `none` -/
def distEntry (thr : Thr) (p : Nat) (fcur dcur fprev dprev : Option Rat) : Option Rat :=
  match fcur, dcur, fprev, dprev, dfpMin thr p with
  | some fc, some dc, some fp, some dp, some lo =>
    if within thr p lo (ddpmOf dc dp) (fc - fp) then some (distVal thr p lo (ddpmOf dc dp) (fc - fp)) else none
  | _, _, _, _, _ => none

/-- statistics of one time step -/
structure Step where
  fp : List (Option Rat)
  dpm : List (Option Rat)
deriving Repr

def slotsOf (s : Step) : List Slot := s.fp.map Option.isSome

def distOf (thr : Thr) (prev cur : Step) : Dist := fun c p =>
  distEntry thr p (cur.fp.getD c none) (cur.dpm.getD c none) (prev.fp.getD p none) (prev.dpm.getD p none)

/-- pair every later step with its distance matrix against the step before -/
def mkSteps : Step → List (Thr × Step) → List (Dist × List Slot)
  | _, [] => []
  | prev, (thr, cur) :: rest => (distOf thr prev cur, slotsOf cur) :: mkSteps cur rest

/-- `np_track_partitions` on data: first step, then (thresholds used at step `it`, data of step `it`) -/
def trackData (s0 : Step) (rest : List (Thr × Step)) : List (List (Option Nat)) × Nat :=
  track (slotsOf s0) (mkSteps s0 rest)

/-- `match_consecutive_partitions` on data -/
def matchData (thr : Thr) (prev cur : Step) : List Match :=
  matchConsecutive (distOf thr prev cur) (slotsOf prev) (slotsOf cur)

/-- several sites: `apply_ufunc(..., vectorize=True)` = the same function mapped over sites -/
def trackSites (sites : List (Step × List (Thr × Step))) : List (List (List (Option Nat)) × Nat) :=
  sites.map fun s => trackData s.1 s.2

/-! ## vocabulary of the property statements (specification side, used by `Props/C19.lean`) -/

/-- the identifiers in use in one row (one time step), in slot order -/
def present (row : List (Option Nat)) : List Nat := row.filterMap id

/-- indices of the previous step used by a list of local matches -/
def prevs : List Match → List Nat
  | [] => []
  | Match.prev p :: ms => p :: prevs ms
  | _ :: ms => prevs ms

/-- `InOrder n l m`: scanning `l` with an id counter starting at `n`, every element is either an id already
    issued (`< counter`) or exactly the counter (which is then incremented); the counter ends at `m`. -/
def InOrder : Nat → List Nat → Nat → Prop
  | n, [], m => n = m
  | n, x :: xs, m => (x < n ∧ InOrder n xs m) ∨ (x = n ∧ InOrder (n + 1) xs m)

/-- the list without repetitions, keeping first occurrences, in order of first occurrence -/
def firstOcc : List Nat → List Nat
  | [] => []
  | x :: xs => x :: (firstOcc xs).filter (· ≠ x)

end WS.Track

/-! ## scalar thresholds (tied to the source by the regenerated kernels, `Props/C19.lean` "T-tier") -/
namespace WS.Track

/-- `dfp_swell(dt, distance) = dt·g / (4·π·distance)` (Snodgrass et al.), `π`, `g` symbolic -/
def dfpSwell (pi g dt distance : Rat) : Rat := dt * g / (4 * pi * distance)

/-- default `dfp_swell_source_distance` / `distance`: `1e6` m -/
def swellDistanceDefault : Rat := 1000000

end WS.Track

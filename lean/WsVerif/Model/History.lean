import WsVerif.Model.Basic
/-!
History model shared by C17 (frame condition) and C18 (results reflect current contents).

Object contents are abstracted to *version numbers*: an in-place edit of a variable or coordinate bumps the
version; an observation (a statistic, transform, partition…) reports which versions it was computed from.
Two semantics are modelled:
* `stepNew` — the code after the repairs made in this task (`SpecDataset.__getattr__` looks the method up on the
  current `efth`; `SpecArray.dd` is not memoised; `AttrDict.__getitem__` does not insert; the C routine rebuilds or
  reuses its neighbour table depending only on the grid shape);
* `stepOld` — the code as found (bound methods snapshot, `_dd` memo, auto-vivifying attribute table), kept to state
  precisely what the repairs changed.
-/
namespace WS.History

/-- what an observation was computed from: (efth version, dir version, known attribute names at call time) -/
inductive Obs where
  /-- a result computed from the object's contents: (efth version, dir version, freq version, attribute name known) -/
  | stat (efth dir freq : Nat) (attrKnown : Bool)
  /-- the result of a reader call: a function of the dataset handed to the reader (identified by its index) alone -/
  | reader (input : Nat)
deriving Repr, DecidableEq

inductive Op where
  | statDs (name : String)      -- ds.spec.<stat>()
  | statDa (name : String)      -- ds.efth.spec.<stat>() / da.spec.<stat>()
  | editEfth                    -- ds['efth'] = …
  | assignDir                   -- ds['dir'] = … / da['dir'] = …
  | assignFreq                  -- ds['freq'] = … / da['freq'] = …
  | partition (mk mth : Nat)    -- a watershed call on some other array of shape mk × mth
  | attrLookup (key : String)   -- a call that looks `key` up in the global attribute table (e.g. crsd())
  | unknownStat                 -- stats(['nope']) → ValueError
  | read                        -- a reader helper call on an unrelated dataset
  | readObs (input : Nat)       -- an *observed* reader call (read_dataset / from_ww3 / …) on in-memory dataset no. `input`
  | foreign (what : String)     -- any other call whose result is discarded: writing the object to a file, a curve fit, …
deriving Repr, DecidableEq

structure State where
  efthVer : Nat := 0
  dirVer : Nat := 0
  freqVer : Nat := 0
  /-- OLD: efth version the Dataset accessor's bound methods were taken from (none = accessor not created yet) -/
  bound : Option Nat := none
  /-- OLD: dir version at which the DataArray accessor memoised `dd` (per efth version, as the accessor object is
      per DataArray object) -/
  ddMemo : Option (Nat × Nat) := none
  /-- OLD: keys inserted into the global attribute table by lookups -/
  inserted : List String := []
  /-- shape for which the C routine's static neighbour table was last built -/
  cshape : Option (Nat × Nat) := none
deriving Repr

/-- attribute names defined in attributes.yml that are statistic names (regenerated list is bridged in Props) -/
def ymlStats : List String :=
  ["alpha", "dm", "dp", "dpm", "dpspr", "dspr", "fp", "gamma", "goda", "gw", "hmax", "hrms", "hs", "mss", "sw", "swe",
   "tm01", "tm02", "tp", "uss", "uss_x", "uss_y"]

/-- repaired semantics: every observation is computed from the current contents; only the C shape memo changes -/
def stepNew (s : State) : Op → State × Option Obs
  | .statDs n | .statDa n => (s, some (.stat s.efthVer s.dirVer s.freqVer (ymlStats.contains n)))
  | .editEfth => ({ s with efthVer := s.efthVer + 1 }, none)
  | .assignDir => ({ s with dirVer := s.dirVer + 1 }, none)
  | .assignFreq => ({ s with freqVer := s.freqVer + 1 }, none)
  | .partition mk mth => ({ s with cshape := some (mk, mth) }, none)
  | .attrLookup _ => (s, none)
  | .unknownStat => (s, none)
  | .read => (s, none)
  | .readObs v => (s, some (.reader v))
  | .foreign _ => (s, none)

/-- semantics of the code as found -/
def stepOld (s : State) : Op → State × Option Obs
  | .statDs n =>
    -- accessor creation binds the methods of the efth seen now; later calls use that binding
    let b := s.bound.getD s.efthVer
    -- the bound SpecArray accessor memoises dd at its first use
    let (dv, memo) := match s.ddMemo with
      | some (e, d) => if e = b then (d, s.ddMemo) else (s.dirVer, some (b, s.dirVer))
      | none => (s.dirVer, some (b, s.dirVer))
    ({ s with bound := some b, ddMemo := memo }, some (.stat b dv s.freqVer (ymlStats.contains n || s.inserted.contains n)))
  | .statDa n =>
    let (dv, memo) := match s.ddMemo with
      | some (e, d) => if e = s.efthVer then (d, s.ddMemo) else (s.dirVer, some (s.efthVer, s.dirVer))
      | none => (s.dirVer, some (s.efthVer, s.dirVer))
    ({ s with ddMemo := memo }, some (.stat s.efthVer dv s.freqVer (ymlStats.contains n || s.inserted.contains n)))
  | .editEfth => ({ s with efthVer := s.efthVer + 1 }, none)
  | .assignDir => ({ s with dirVer := s.dirVer + 1 }, none)
  | .assignFreq => ({ s with freqVer := s.freqVer + 1 }, none)
  | .partition mk mth => ({ s with cshape := some (mk, mth) }, none)
  | .attrLookup k => ({ s with inserted := k :: s.inserted }, none)
  | .unknownStat => (s, none)
  | .read => (s, none)
  | .readObs v => (s, some (.reader v))
  | .foreign _ => (s, none)

def run (step : State → Op → State × Option Obs) (s : State) : List Op → State × List (Option Obs)
  | [] => (s, [])
  | op :: ops =>
    let (s', o) := step s op
    let (s'', os) := run step s' ops
    (s'', o :: os)

/-- a fresh object holding the same contents: same versions, no caches, pristine attribute table -/
def fresh (s : State) : State := { efthVer := s.efthVer, dirVer := s.dirVer, freqVer := s.freqVer }

/-- what the last operation of a history observes -/
def lastObs (step : State → Op → State × Option Obs) (h : List Op) (op : Op) : Option Obs :=
  (step (run step {} h).1 op).2

/-- the same operation on a freshly constructed object with the contents the history led to -/
def freshObs (step : State → Op → State × Option Obs) (h : List Op) (op : Op) : Option Obs :=
  (step (fresh (run stepNew {} h).1) op).2

end WS.History

import WsVerif.Model.Basic
import WsVerif.Model.Stats
/-!
Model of the parametric constructors (wavespectra/construct/{frequency,direction,__init__}.py,
`core.utils.scaled`, and the numpy twins `core.npstats.{jonswap,gaussian}`), over exact rationals.

Transcendental factors (`exp`, `γ^x`, `tanh/sinh`, `cos^{2s}`) are never evaluated here: they enter as
per-bin *tables* computed by the harness from the published formulas (DESIGN §1.1).  What the model
does is everything the code does with those factors: products, the rescaling to a requested `hs`, the
wrap of `|dir − dm|`, the `gsum` normalisation, the per-frequency parameters of the asymmetric
spreading (plain arithmetic with `min/max` limiters), the outer product and `fillna(0)`.
`sqrt` is in pre-image form: `(hs / (4·√H))² = hs² / (16·H)` with `H` the radicand of `spec.hs()`.
-/
namespace WS.Construct
open WS

/-! ### `core.utils.scaled` -/

/-- `scaled(spec, hs)` for one 1-D spectrum: `fac = (hs / spec.hs())**2`, `fac * spec`.
    `spec.hs() = 4·sqrt(H)`, `H = Stats.hsE … tail=True`; `H ≤ 0` gives `inf`/`nan` (`none`). -/
def scaled (thr q h : Rat) (f E : Vec) : Option Vec :=
  let H := Stats.hsE thr q true f E
  if H ≤ 0 then none else some (scaleV (h ^ 2 / (16 * H)) E)

/-- `if hs is not None: dsout = scaled(dsout, hs)` -/
def withHs (thr q : Rat) (h : Option Rat) (f E : Vec) : Option Vec :=
  match h with
  | none => some E
  | some hv => scaled thr q hv f E

/-! ### frequency shapes as products of tables -/

/-- Pierson–Moskowitz: `t1 = α g² (2π)⁻⁴ f⁻⁵`, `t2 = exp(−1.25 (f/fp)⁻⁴)` -/
def pmRaw (t1 t2 : Vec) : Vec := mulV t1 t2

/-- JONSWAP: `term1 * term2 * term3`, `t3 = γ ^ exp(−(f−fp)²/(2σ²fp²))` -/
def jonswapRaw (t1 t2 t3 : Vec) : Vec := mulV (mulV t1 t2) t3

def pm (thr q : Rat) (h : Option Rat) (f t1 t2 : Vec) : Option Vec := withHs thr q h f (pmRaw t1 t2)

def jonswap (thr q : Rat) (h : Option Rat) (f t1 t2 t3 : Vec) : Option Vec :=
  withHs thr q h f (jonswapRaw t1 t2 t3)

/-- TMA: `jonswap(…, hs)` (already rescaled), times `phi`, rescaled again -/
def tma (thr q : Rat) (h : Option Rat) (f t1 t2 t3 phi : Vec) : Option Vec :=
  (jonswap thr q h f t1 t2 t3).bind fun j => withHs thr q h f (mulV j phi)

/-- Gaussian: `tg = mo/(gw·√(2π))·exp(−½((f−fp)/gw)²)`, always rescaled (`hs` is mandatory) -/
def gaussian (thr q h : Rat) (f tg : Vec) : Option Vec := scaled thr q h f tg

/-! ### numpy twins (core/npstats.py) -/

/-- `npstats.jonswap`: same product, rescaled with the *trapezoid* `npstats.hs` -/
def npJonswap (thr q : Rat) (h : Option Rat) (f t1 t2 t3 : Vec) : Option Vec :=
  let E := jonswapRaw t1 t2 t3
  match h with
  | none => some E
  | some hv =>
    let H := Stats.npHsE thr q true f E
    if H ≤ 0 then none else some (scaleV (hv ^ 2 / (16 * H)) E)

/-- `npstats.gaussian`: the bare formula — **not** rescaled (as coded) -/
def npGaussian (tg : Vec) : Vec := tg

/-! ### directional spreading -/

/-- `dth = |dir − dm|; dth.where(dth <= 180, 360 − dth)` -/
def dth (d dm : Rat) : Rat :=
  let a := absR (d - dm)
  if a ≤ 180 then a else 360 - a

/-- normalisation of one row of the `cos^{2s}` table `t` (already masked when `under_90`):
    `gsum = 1/(Σt · (2π/dir.size))`, `gth·gsum / R2D` with `R2D = 180/π`.
    A zero denominator is `inf`/`nan` in numpy: `none`. -/
def cartwrightRow (pi : Rat) (t : Vec) : Option Vec :=
  let den := t.sum * (2 * pi / (t.length : Rat))
  if den = 0 ∨ pi = 0 then none else some (t.map fun x => x * (1 / den) / (180 / pi))

/-- spreading with one table row per frequency (asymmetric) or a single row (cartwright) -/
def spreadRows (pi : Rat) (T : Mat) : List (Option Vec) := T.map (cartwrightRow pi)

/-- `dd = (dm - dpm + 180) % 360 - 180`: the difference of mean and peak direction taken the short way
    round the circle (after fix df979f0) -/
def asymDd (dm dpm : Rat) : Rat := pmod (dm - dpm + 180) 360 - 180

/-- per-frequency mean direction of `asymmetric` (`lo, hi = 0.5, 1.5`; `dfmin = 0.001`) -/
def asymTheta (lo hi dfmin : Rat) (dm dpm fm fp : Rat) (f : Vec) : Vec :=
  let dd := asymDd dm dpm
  let df := maxR (fm - fp) dfmin
  let dddf := dd / df
  f.map fun x => minR (hi * dpm) (maxR (lo * dpm) (dpm + dddf * (x - fp)))

/-- per-frequency spread of `asymmetric` (`smin = 0.14`) -/
def asymSigma (lo hi dfmin smin : Rat) (dspr dpspr fm fp : Rat) (f : Vec) : Vec :=
  let ds := maxR (dspr - dpspr) 0
  let df := maxR (fm - fp) dfmin
  let dsdf := ds / df
  f.map fun x =>
    let s := dpspr + dsdf * (x - fp)
    let s := maxR (lo * dspr) (minR (hi * maxR dspr dpspr) s)
    if smin ≤ s then s else smin

/-! ### `construct_partition` -/

/-- `efth1d * spread` followed by `fillna(0.0)`: row `i` is `shape_i · G_i`; a NaN spreading row
    (`none`) becomes a row of `nd` zeros. -/
def outerRows (nd : Nat) (shape : Vec) (G : List (Option Vec)) : Mat :=
  List.zipWith (fun a r => match r with
    | some g => g.map (a * ·)
    | none => List.replicate nd 0) shape G

/-- the same spreading for every frequency (cartwright with scalar `dm`, `dspr`) -/
def constRows {α} (n : Nat) (g : α) : List α := List.replicate n g

/-! ### constants of the property statement (exact rational value of the code's doubles; the translator
    regenerates the literals into `Gen/Lits.lean`, `Props/C15.lean` bridges them) -/
namespace K
/-- `np.maximum(fm - fp, 0.001)` -/
def dfmin : Rat := (1152921504606847 : Rat) / 1152921504606846976
/-- limiter `0.5·x … 1.5·x` -/
def lo : Rat := 1 / 2
def hi : Rat := 3 / 2
/-- `sigma.where(sigma >= 0.14, 0.14)` -/
def smin : Rat := (1261007895663739 : Rat) / 9007199254740992
/-- defaults `alpha, gamma, sigma_a, sigma_b` -/
def alpha : Rat := (2334666046828865 : Rat) / 288230376151711744
def gamma : Rat := (3715469692580659 : Rat) / 1125899906842624
def sigmaA : Rat := (1261007895663739 : Rat) / 18014398509481984
def sigmaB : Rat := (3242591731706757 : Rat) / 36028797018963968
end K

end WS.Construct

import WsVerif.Model.Basic
import WsVerif.Model.Stats
import WsVerif.Model.Consts
/-!
Model of the assembly step of the watershed partition methods PTM1 / PTM2 / PTM3
(`wavespectra/partition/partition.py`: `np_ptm1`, `np_ptm2`, `np_ptm3`).

The watershed itself is *not* modelled here: the label map `w` is an input (any map `bin → Nat`, in
the check it is whatever the real C routine returned), so everything below holds for every label map.
A spectrum is handed over flattened (row-major, rows = frequencies) and zipped with its label and its
wave-age wind-sea flag into a list of `Bin`s; the three per-bin arrays of the code (`spectrum`,
`watershed_map`, `windseamask`) always have the same shape, which the list of records encodes.

Every partition is carried as a pair (assignment mask, values) so that the model returns the Boolean
masks together with the arrays.  Mirrored literally (including what is questionable):

* `nparts = watershed_map.max()`; bins labelled `0` belong to no partition;
* `part = np.where(watershed_map == k, spectrum, 0.0)` for `k = 1..nparts`;
* `wsfrac = part[windseamask].sum() / part.sum()`; `wsfrac > wscut` with numpy's division:
  `0/0 = nan` (comparison false → swell), `x/0 = ±inf`;
* `wsea_partition += part`, `swell_partitions[ipart] += part` (onto zero arrays), PTM2's
  `np.where(windseamask, part, 0.0)` / `np.where(windseamask, 0.0, part)`;
* the list of swell slots always has `nparts` entries (wind-sea basins leave an all-zero slot);
* `np.argsort([-hs(...)])`: modelled as a *stable* sort by the radicand of `npstats.hs`
  (`sqrt` is monotone; numpy's default sort is not stable, the check compares ties as sets);
* `swells=None` drops slots whose sum is not positive (PTM1/2), keeps everything (PTM3);
  otherwise truncate to / zero-pad to the requested count.
-/
namespace WS.Assembly
open WS

/-- one spectral bin: energy density of the ORIGINAL spectrum, watershed label, wind-sea flag -/
structure Bin where
  e : Rat
  lab : Nat
  ws : Bool
deriving Repr, Inhabited

/-- one output partition: which bins were assigned to it, and the array that is returned -/
structure Part where
  mask : List Bool
  vals : Vec
deriving Repr, Inhabited

/-- `np.where(sel, spectrum, 0.0)` together with the mask `sel` -/
def select (bins : List Bin) (sel : Bin → Bool) : Part :=
  ⟨bins.map sel, bins.map fun b => if sel b then b.e else 0⟩

/-- `np.zeros_like(spectrum)` -/
def zeros (bins : List Bin) : Part := select bins fun _ => false

/-- `np.where(watershed_map == k, spectrum, 0.0)` -/
def basin (bins : List Bin) (k : Nat) : Part := select bins fun b => b.lab == k

/-- `a += b` on arrays (masks are or-ed) -/
def Part.add (a b : Part) : Part :=
  ⟨List.zipWith (· || ·) a.mask b.mask, List.zipWith (· + ·) a.vals b.vals⟩

/-- `np.where(windseamask, part, 0.0)` -/
def whereWs (bins : List Bin) (p : Part) : Part :=
  ⟨List.zipWith (fun b m => b.ws && m) bins p.mask, List.zipWith (fun b v => if b.ws then v else 0) bins p.vals⟩

/-- `np.where(windseamask, 0.0, part)` -/
def whereNotWs (bins : List Bin) (p : Part) : Part :=
  ⟨List.zipWith (fun b m => !b.ws && m) bins p.mask, List.zipWith (fun b v => if b.ws then 0 else v) bins p.vals⟩

/-- `watershed_map.max()` -/
def nparts : List Bin → Nat
  | [] => 0
  | b :: t => max b.lab (nparts t)

/-- `ipart + 1 for ipart in range(nparts)` -/
def labels (bins : List Bin) : List Nat := List.range' 1 (nparts bins)

/-- `part[windseamask].sum()` for basin `k` -/
def wsNum (bins : List Bin) (k : Nat) : Rat :=
  (bins.map fun b => if b.ws && b.lab == k then b.e else 0).sum

/-- `part.sum()` for basin `k` -/
def wsDen (bins : List Bin) (k : Nat) : Rat := (basin bins k).vals.sum

/-- `wsfrac > wscut` with `wsfrac = num / den` evaluated as numpy does:
    `0/0 = nan` (not greater), `x/0 = +inf` for `x > 0` (greater), `-inf` for `x < 0`. -/
def isWindSea (wscut : Rat) (bins : List Bin) (k : Nat) : Bool :=
  if wsDen bins k = 0 then decide (0 < wsNum bins k)
  else decide (wscut < wsNum bins k / wsDen bins k)

/-- the sort of `np.argsort([-hs(p) for p in slots])`, stable, on the radicand `key` of `hs` -/
def sortSlots (key : Vec → Rat) (slots : List Part) : List Part :=
  slots.mergeSort fun a b => decide (key b.vals ≤ key a.vals)

/-- truncate to / zero-pad to the requested count (`n = nparts`, which is also the number of slots) -/
def fitCount (bins : List Bin) (n req : Nat) (sorted : List Part) : List Part :=
  if req < n then sorted.take req
  else if n < req then sorted ++ List.replicate (req - sorted.length) (zeros bins)
  else sorted

/-- `[swell for swell in swell_partitions if swell.sum() > 0]` -/
def dropNull (sorted : List Part) : List Part := sorted.filter fun p => decide (0 < p.vals.sum)

/-! ### PTM1 -/

/-- the accumulated wind-sea partition: `wsea_partition += part` for every basin with `wsfrac > wscut` -/
def wseaAcc (wscut : Rat) (bins : List Bin) (ks : List Nat) (acc : Part) : Part :=
  ks.foldl (fun a k => if isWindSea wscut bins k then a.add (basin bins k) else a) acc

def ptm1Wsea (wscut : Rat) (bins : List Bin) : Part := wseaAcc wscut bins (labels bins) (zeros bins)

/-- `swell_partitions`: one slot per basin, all-zero when the basin went to the wind sea -/
def ptm1Slots (wscut : Rat) (bins : List Bin) : List Part :=
  (labels bins).map fun k => if isWindSea wscut bins k then zeros bins else (zeros bins).add (basin bins k)

def ptm1Sorted (key : Vec → Rat) (wscut : Rat) (bins : List Bin) : List Part :=
  sortSlots key (ptm1Slots wscut bins)

/-- `np_ptm1` (`swells = none` is Python's `None`) -/
def ptm1 (key : Vec → Rat) (wscut : Rat) (bins : List Bin) (swells : Option Nat) : List Part :=
  ptm1Wsea wscut bins ::
    (match swells with
     | none => dropNull (ptm1Sorted key wscut bins)
     | some s => fitCount bins (nparts bins) s (ptm1Sorted key wscut bins))

/-! ### PTM2 -/

/-- secondary wind sea: `+= np.where(windseamask, part, 0.0)` for every basin that is *not* wind sea -/
def wsea2Acc (wscut : Rat) (bins : List Bin) (ks : List Nat) (acc : Part) : Part :=
  ks.foldl (fun a k => if isWindSea wscut bins k then a else a.add (whereWs bins (basin bins k))) acc

def ptm2Wsea2 (wscut : Rat) (bins : List Bin) : Part := wsea2Acc wscut bins (labels bins) (zeros bins)

def ptm2Slots (wscut : Rat) (bins : List Bin) : List Part :=
  (labels bins).map fun k =>
    if isWindSea wscut bins k then zeros bins else (zeros bins).add (whereNotWs bins (basin bins k))

def ptm2Sorted (key : Vec → Rat) (wscut : Rat) (bins : List Bin) : List Part :=
  sortSlots key (ptm2Slots wscut bins)

/-- `np_ptm2` -/
def ptm2 (key : Vec → Rat) (wscut : Rat) (bins : List Bin) (swells : Option Nat) : List Part :=
  ptm1Wsea wscut bins :: ptm2Wsea2 wscut bins ::
    (match swells with
     | none => dropNull (ptm2Sorted key wscut bins)
     | some s => fitCount bins (nparts bins) s (ptm2Sorted key wscut bins))

/-! ### PTM3 -/

def ptm3Slots (bins : List Bin) : List Part := (labels bins).map (basin bins)

def ptm3Sorted (key : Vec → Rat) (bins : List Bin) : List Part := sortSlots key (ptm3Slots bins)

/-- `np_ptm3` (`parts = none`: every detected partition is returned, nothing is filtered) -/
def ptm3 (key : Vec → Rat) (bins : List Bin) (parts : Option Nat) : List Part :=
  match parts with
  | none => ptm3Sorted key bins
  | some s => fitCount bins (nparts bins) s (ptm3Sorted key bins)

/-! ### the sort key of the code: radicand of `npstats.hs(swell, freq, dir)` -/

/-- rows of a flattened `(nf, nd)` array -/
def rowsOf (nf nd : Nat) (v : Vec) : Mat := (List.range nf).map fun i => (v.drop (i * nd)).take nd

/-- `ddir` of `npstats.hs`: `abs(dir[1]-dir[0])` taken the short way round the circle (`min(ddir, 360 - ddir)`) -/
def npDdir (a b : Rat) : Rat := minR (absR (b - a)) (360 - absR (b - a))

/-- `E` of `npstats.hs`: `ddir * spectrum.sum(1)` when there are at least two directions, else `np.squeeze(spectrum)` -/
def npHsRow (nf : Nat) (dirs : Vec) (v : Vec) : Vec :=
  match dirs with
  | a :: b :: _ => (rowsOf nf dirs.length v).map fun r => npDdir a b * r.sum
  | _ => v

/-- the first two stored directions are at most a full circle apart (true of any directions in [0, 360]) -/
def DirsOk : Vec → Prop
  | a :: b :: _ => absR (b - a) ≤ 360
  | _ => True

/-- radicand `Etot` of `npstats.hs(part, freq, dir)` (tail fitted, as the default) for a flattened partition -/
def npHsKey (f dirs : Vec) (v : Vec) : Rat :=
  Stats.npHsE Consts.thr Consts.quarter true f (npHsRow f.length dirs v)

end WS.Assembly

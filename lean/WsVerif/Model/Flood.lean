/-! # Abstract flooding machine (DESIGN Appendix C)

A label-propagation machine on an arbitrary finite graph `g` (vertices `0 … n-1`, adjacency lists `adj`, a level
per vertex).  Each `Step` has a decidable guard; `step` returns `none` when the guard fails.  A trace is
`Valid` when every step's guard holds in sequence.  The concrete transliteration of `pt_fld`
(`Model/Specpart.lean`) emits such a trace as ghost output, and the driver evaluates `traceValid` on it.
`Props/C04.lean` proves the postcondition (`flood_sound`) for **every** valid complete trace on **every** graph.

Phases of one level `h` (as in `pt_fld`): `level h` (idle → open); `mark`, `inherit`, `conflict`, `finalize`
(steps 1a/1b); `endqueue` (open → seeding; checks that geodesic propagation is finished: every pixel of
level ≤ h has been marked, every non-mask pixel of this level is final, no remaining mask pixel touches a
labelled pixel); `seed`, `flood`, `closed` (step 1c); `endlevel` (seeding → idle).  After the levels:
`sweep` / `resolve` (step 2: watershed-line pixels take the label of a labelled neighbour of the sweep's snapshot).

Compared with the table of Appendix C the guards are slightly *weaker* where that keeps the theorem true
(`finalize` asks for *some* final neighbour with the same basin label instead of the recorded parent) and a
ghost `frontier`/`closed` bookkeeping replaces the "mask-connected component" test of `seed` by local tests.
Mathlib-free, executable. -/
namespace WS.Flood

inductive Lab where
  | init | mask | wshed | basin (k : Nat)
deriving DecidableEq, Repr, Inhabited

inductive Phase where
  | idle | opn | seeding | sweeping
deriving DecidableEq, Repr, Inhabited

structure Graph where
  n : Nat
  adj : Nat → List Nat
  level : Nat → Nat

inductive Step where
  | level (h : Nat) | mark (p : Nat) | inherit (p q : Nat) | conflict (p : Nat) | finalize (p : Nat)
  | endqueue | seed (p k : Nat) | flood (p q : Nat) | closed (q : Nat) | endlevel
  | sweep | resolve (p q : Nat)
deriving Repr, Inhabited

structure St where
  lab : Array Lab
  fin : Array Bool
  snap : Array Lab
  K : Nat
  h : Nat
  phase : Phase
  cur : List Nat
  frontier : List Nat
  seeds : Array Nat

def St.init (n : Nat) : St :=
  { lab := Array.replicate n .init, fin := Array.replicate n false, snap := #[], K := 0, h := 0,
    phase := .idle, cur := [], frontier := [], seeds := #[] }

@[inline] def St.labOf (s : St) (p : Nat) : Lab := s.lab.getD p .init
@[inline] def St.finOf (s : St) (p : Nat) : Bool := s.fin.getD p false
@[inline] def St.snapOf (s : St) (p : Nat) : Lab := s.snap.getD p .init

def Lab.isBasin : Lab → Bool
  | .basin _ => true
  | _ => false
/-- `wshed` or `basin _` -/
def Lab.labelled : Lab → Bool
  | .wshed => true
  | .basin _ => true
  | _ => false
/-- `init` or `mask` -/
def Lab.unlabelled : Lab → Bool
  | .init => true
  | .mask => true
  | _ => false

/-- guard of `endqueue` -/
def endqueueOk (g : Graph) (s : St) : Bool :=
  ((List.range g.n).all fun x => !(g.level x ≤ s.h) || s.labOf x != .init) &&
  (s.cur.all fun x => s.labOf x == .mask || s.finOf x) &&
  (s.cur.all fun x => s.labOf x != .mask || (g.adj x).all fun y => (s.labOf y).unlabelled)

/-- guard of `endlevel` -/
def endlevelOk (g : Graph) (s : St) : Bool :=
  (List.range g.n).all fun x => !(g.level x ≤ s.h) || (s.finOf x && (s.labOf x).labelled)

/-- one guarded step; `none` = guard violated -/
def step (g : Graph) (s : St) : Step → Option St
  | .level h =>
    if s.phase = .idle ∧ h = s.h then some { s with phase := .opn, cur := [] } else none
  | .mark p =>
    if s.phase = .opn ∧ p < g.n ∧ s.labOf p = .init ∧ g.level p = s.h then
      some { s with lab := s.lab.setIfInBounds p .mask, cur := p :: s.cur }
    else none
  | .inherit p q =>
    if s.phase = .opn ∧ p < g.n ∧ q < g.n ∧ s.finOf p = false ∧ (g.adj p).contains q = true ∧ s.finOf q = true ∧
        (s.labOf q).isBasin = true ∧ (s.labOf p = .mask ∨ s.labOf p = .wshed) then
      some { s with lab := s.lab.setIfInBounds p (s.labOf q) }
    else none
  | .conflict p =>
    if s.phase = .opn ∧ p < g.n ∧ s.finOf p = false ∧ s.labOf p ≠ .init ∧
        ((g.adj p).any fun q => s.finOf q && (s.labOf q).labelled) = true then
      some { s with lab := s.lab.setIfInBounds p .wshed }
    else none
  | .finalize p =>
    if s.phase = .opn ∧ p < g.n ∧ s.finOf p = false ∧
        (s.labOf p = .wshed ∨ ((s.labOf p).isBasin = true ∧
          ((g.adj p).any fun q => s.finOf q && s.labOf q == s.labOf p) = true)) then
      some { s with fin := s.fin.setIfInBounds p true }
    else none
  | .endqueue =>
    if s.phase = .opn ∧ endqueueOk g s = true then some { s with phase := .seeding, frontier := [] } else none
  | .seed p k =>
    if s.phase = .seeding ∧ p < g.n ∧ s.frontier = [] ∧ s.labOf p = .mask ∧ k = s.K + 1 then
      some { s with lab := s.lab.setIfInBounds p (.basin k), fin := s.fin.setIfInBounds p true, K := k,
                    seeds := s.seeds.push p, frontier := [p] }
    else none
  | .flood p q =>
    if s.phase = .seeding ∧ p < g.n ∧ q < g.n ∧ s.labOf p = .mask ∧ (g.adj p).contains q = true ∧
        s.finOf q = true ∧ s.labOf q = .basin s.K ∧ 1 ≤ s.K then
      some { s with lab := s.lab.setIfInBounds p (.basin s.K), fin := s.fin.setIfInBounds p true,
                    frontier := p :: s.frontier }
    else none
  | .closed q =>
    if s.phase = .seeding ∧ ((g.adj q).all fun y => s.labOf y != .mask) = true then
      some { s with frontier := s.frontier.filter (· != q) }
    else none
  | .endlevel =>
    if s.phase = .seeding ∧ s.frontier = [] ∧ endlevelOk g s = true then
      some { s with phase := .idle, h := s.h + 1, cur := [] }
    else none
  | .sweep =>
    if s.phase = .idle ∨ s.phase = .sweeping then some { s with phase := .sweeping, snap := s.lab } else none
  | .resolve p q =>
    if s.phase = .sweeping ∧ p < g.n ∧ q < g.n ∧ s.snapOf p = .wshed ∧ s.labOf p = .wshed ∧
        (g.adj p).contains q = true ∧ (s.snapOf q).isBasin = true ∧ s.finOf p = true ∧ s.finOf q = true then
      some { s with lab := s.lab.setIfInBounds p (s.snapOf q) }
    else none

/-- run a trace from a state; `none` as soon as a guard fails -/
def runFrom (g : Graph) : St → List Step → Option St
  | s, [] => some s
  | s, e :: es => match step g s e with
    | some s' => runFrom g s' es
    | none => none

def run (g : Graph) (t : List Step) : Option St := runFrom g (St.init g.n) t

/-- every guard of the trace holds -/
def Valid (g : Graph) (t : List Step) : Prop := (run g t).isSome = true

/-- all levels have been processed and no watershed-line pixel is left -/
def completeB (g : Graph) (s : St) : Bool :=
  (s.phase == .idle || s.phase == .sweeping) &&
  ((List.range g.n).all fun x => decide (g.level x < s.h) && s.labOf x != .wshed)

def Complete (g : Graph) (s : St) : Prop := completeB g s = true

/-- checker used by the driver: index of the first step whose guard fails, or the final state -/
def traceCheck (g : Graph) (t : Array Step) : Except Nat St := Id.run do
  let mut s := St.init g.n
  for i in [0:t.size] do
    match step g s t[i]! with
    | some s' => s := s'
    | none => return .error i
  return .ok s

/-- `(valid, complete, K)`; `valid = false` carries the failing index in the third component -/
def traceValid (g : Graph) (t : Array Step) : Bool × Bool × Nat :=
  match traceCheck g t with
  | .ok s => (true, completeB g s, s.K)
  | .error i => (false, false, i)

end WS.Flood

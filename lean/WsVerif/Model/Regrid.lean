import WsVerif.Model.Basic
import WsVerif.Model.Stats
/-!
Model of `wavespectra.core.utils.regrid_spec` (and of `SpecArray.interp / interp_like / rotate`, which
only forward to it), over exact rationals.  Order of operations as in the code:

1. direction (only when a target `dir` is given): `dir % 360`; `unique_indices` (`np.unique(..,
   return_index=True)`: sorted unique labels, first occurrence kept; `sortby` is then the identity);
   wrap bins `last − 360` prepended when `dir.min() < dsout.dir.min() or dsout.dir.size == 1`, `first + 360`
   appended when `dir.max() > dsout.dir.max() or dsout.dir.size == 1` (repair 0802ffa: a single direction bin
   always gets both); `xarray.interp(dir=…, assume_sorted=True)`;
2. frequency (only when a target `freq` is given): a zero row at `f = 0` prepended when
   `freq.min() < dsout.freq.min() or dsout.freq.size == 1` (repair 0802ffa);
   `xarray.interp(freq=…, assume_sorted=False, fill_value=0)` (the source is sorted by frequency first, stable);
3. `maintain_m0`: every value multiplied by `hs(in)²/hs(out)²` per spectrum, both computed by the
   accessor (`Stats.hsE`, tail rule included) on the grid the respective spectrum lives on.

`xarray.interp` along one dimension is `scipy.interpolate.interp1d(kind="linear")` applied to the
2-D block (`_call_linear`): `searchsorted(side=left)` clipped to `1..n−1`, value
`slope·(x − x_lo) + y_lo`; outside `[x_0, x_{n−1}]` the fill value (NaN for direction, 0 for frequency); a
single node gives `0/0 = NaN` on the node itself.  `locate` mirrors exactly this search.  Since repair 0802ffa a
non-empty source grid never reaches the interpolator with a single node (one direction → three nodes, one frequency →
two), so the single-node branch of `locate` is kept only as the faithful description of `interp1d`.

NaN bookkeeping.  NaN/inf of the implementation is `none`.  Whether an output entry is NaN before the
scaling depends on coordinates only (a target direction outside the extended source range makes its whole
column NaN for every frequency row that is not *filled*; filled rows are `0`), so the model computes the
numeric pipeline over `Rat` (`vals`, with a dummy `0` in NaN positions) next to the masks `colOK`/`rowSt`.
With `maintain_m0` and any NaN entry the factor is non-finite (the NaN rows are skipped by
`sum(skipna)`, all other rows are filled rows, i.e. zero: `hs(out)` is `0` or NaN), hence every entry is.
-/
namespace WS.Regrid
open WS

/-! ### 1-D linear interpolation: where a target lies among the nodes -/

/-- result of the node search of `interp1d(kind="linear")` for one target abscissa -/
inductive Loc where
  /-- outside `[x_0, x_{n-1}]`: the fill value is returned -/
  | out
  /-- degenerate segment (single node, or two equal nodes): `0/0` -/
  | nan
  /-- segment `i` (nodes `i`, `i+1`), weight `t = (x − x_i)/(x_{i+1} − x_i)` -/
  | seg (i : Nat) (t : Rat)
deriving Repr, DecidableEq, BEq

/-- scan for the first node `x1 ≥ x` (numpy `searchsorted(side="left")`); `x0` is the previous node,
    `i` its index.  Called with `x0 ≤ x`. -/
def locGo (x x0 : Rat) (i : Nat) : Vec → Loc
  | [] => .out
  | x1 :: rest =>
    if x ≤ x1 then (if x1 = x0 then .nan else .seg i ((x - x0) / (x1 - x0)))
    else locGo x x1 (i + 1) rest

def locate : Vec → Rat → Loc
  | [], _ => .out
  | [x0], x => if x = x0 then .nan else .out
  | x0 :: x1 :: rest, x => if x < x0 then .out else locGo x x0 0 (x1 :: rest)

def Loc.isSeg : Loc → Bool
  | .seg _ _ => true
  | _ => false

def Loc.isNan : Loc → Bool
  | .nan => true
  | _ => false

/-- `slope·(x − x_lo) + y_lo` with `slope·(x − x_lo) = (y_hi − y_lo)·t` -/
def lerpT (a b t : Rat) : Rat := a + (b - a) * t

/-- scalar values on the nodes; `0` where the implementation has NaN or the fill value -/
def applyLoc (ys : Vec) : Loc → Rat
  | .seg i t => lerpT (getR ys i) (getR ys (i + 1)) t
  | _ => 0

/-- rows on the nodes (interpolation along the row index) -/
def applyLocV (nd : Nat) (rows : Mat) : Loc → Vec
  | .seg i t => List.zipWith (fun a b => lerpT a b t) (rows.getD i []) (rows.getD (i + 1) [])
  | _ => List.replicate nd 0

/-! ### stable sort by key, `np.unique` -/

def insertK {α : Type} (p : Rat × α) : List (Rat × α) → List (Rat × α)
  | [] => [p]
  | q :: t => if p.1 ≤ q.1 then p :: q :: t else q :: insertK p t

/-- stable insertion sort by the rational key (`np.argsort(kind="stable")`, `sortby`) -/
def sortK {α : Type} (l : List (Rat × α)) : List (Rat × α) := l.foldr insertK []

def dedupGo {α : Type} (prev : Rat × α) : List (Rat × α) → List (Rat × α)
  | [] => [prev]
  | q :: t => if prev.1 = q.1 then dedupGo prev t else prev :: dedupGo q t

/-- keep the first element of every run of equal keys -/
def dedupK {α : Type} : List (Rat × α) → List (Rat × α)
  | [] => []
  | p :: t => dedupGo p t

/-- `dir % 360`, then `np.unique(dir, return_index=True)`: sorted unique labels with the stored index of
    their first occurrence -/
def dirNodes (d : Vec) : List (Rat × Nat) :=
  dedupK (sortK ((d.map fun x => pmod x 360).zip (List.range d.length)))

def minL (l : Vec) : Rat := minD l (l.headD 0)
def maxL (l : Vec) : Rat := maxD l (l.headD 0)

/-! ### direction stage -/

/-- `dir.min() < dsout.dir.min() or dsout.dir.size == 1` -/
def wrapLo (dS td : Vec) : Bool := decide (minL td < dS.headD 0) || decide (dS.length = 1)
/-- `dir.max() > dsout.dir.max() or dsout.dir.size == 1` -/
def wrapHi (dS td : Vec) : Bool := decide (lastD dS < maxL td) || decide (dS.length = 1)
/-- `freq.min() < dsout.freq.min() or dsout.freq.size == 1` -/
def anchorLo (f tf : Vec) : Bool := decide (minL tf < minL f) || decide (f.length = 1)

/-- node abscissae of the direction interpolation: sorted unique `dS`, plus wrap bins -/
def dirXs (dS : Vec) (lo hi : Bool) : Vec :=
  (if lo then [lastD dS - 360] else []) ++ dS ++ (if hi then [dS.headD 0 + 360] else [])

/-- node values of one frequency row (already re-indexed to the sorted unique directions) -/
def dirYs (rS : Vec) (lo hi : Bool) : Vec :=
  (if lo then [lastD rS] else []) ++ rS ++ (if hi then [rS.headD 0] else [])

structure DirStage where
  /-- where each target direction lies among the (extended) source directions -/
  locs : List Loc
  vals : Mat

def dirStage (d : Vec) (e : Mat) (td : Vec) : DirStage :=
  let nodes := dirNodes d
  let dS := nodes.map (·.1)
  let ix := nodes.map (·.2)
  let lo := wrapLo dS td
  let hi := wrapHi dS td
  let xs := dirXs dS lo hi
  let locs := td.map (locate xs)
  { locs := locs,
    vals := e.map fun r =>
      let ys := dirYs (ix.map (getR r)) lo hi
      locs.map (applyLoc ys) }

/-! ### frequency stage -/

structure FreqStage where
  locs : List Loc
  vals : Mat

def freqStage (f : Vec) (e : Mat) (tf : Vec) : FreqStage :=
  let nd := (e.headD []).length
  let lo := anchorLo f tf
  let pairs := (if lo then [((0 : Rat), List.replicate nd (0 : Rat))] else []) ++ f.zip e
  let srt := sortK pairs
  let fS := srt.map (·.1)
  let rS := srt.map (·.2)
  let locs := tf.map (locate fS)
  { locs := locs, vals := locs.map (applyLocV nd rS) }

/-! ### the whole of `regrid_spec` for one spectrum -/

/-- frequency spectrum the accessor integrates: `dd·Σ_dir` for 2-D spectra, the data for 1-D spectra -/
def specS (d : Option Vec) (e : Mat) : Vec :=
  match d with
  | some _ => Stats.oned (Stats.dd d) e
  | none => e.map fun r => r.headD 0

def hsOf (thr q : Rat) (f : Vec) (d : Option Vec) (e : Mat) : Rat :=
  Stats.hsE thr q true f (specS d e)

/-- numeric pipeline before the NaN masks and the `maintain_m0` factor -/
structure Core where
  freq : Vec
  dir : Option Vec
  vals : Mat
  /-- per target direction: inside the (extended) source range -/
  colOK : List Bool
  /-- per target frequency: where it lies among the source frequencies -/
  rowSt : List Loc
deriving DecidableEq

/-- direction part of `regrid_spec` (skipped unless a target `dir` is given) -/
def dirPart (d : Option Vec) (e : Mat) (td : Option Vec) : Option Vec × Mat × List Bool :=
  match d, td with
  | some dv, some t => (some t, (dirStage dv e t).vals, (dirStage dv e t).locs.map Loc.isSeg)
  | _, _ => (d, e, (e.headD []).map fun _ => true)

/-- frequency part of `regrid_spec` (skipped unless a target `freq` is given) -/
def freqPart (f : Vec) (e : Mat) (tf : Option Vec) : Vec × Mat × List Loc :=
  match tf with
  | some t => (t, (freqStage f e t).vals, (freqStage f e t).locs)
  | none => (f, e, f.map fun _ => Loc.seg 0 0)

def coreOk (f : Vec) (d : Option Vec) (e : Mat) (tf td : Option Vec) : Core :=
  let dp := dirPart d e td
  let fp := freqPart f dp.2.1 tf
  { freq := fp.1, dir := dp.1, vals := fp.2.1, colOK := dp.2.2, rowSt := fp.2.2 }

def core (f : Vec) (d : Option Vec) (e : Mat) (tf td : Option Vec) : Except Err Core :=
  match d, td with
  | none, some _ => .error .keyError     -- `dsout["dir"]` on a spectrum without a direction dimension
  | _, _ => .ok (coreOk f d e tf td)

def Core.allOK (c : Core) : Bool := c.colOK.all id && c.rowSt.all fun l => !l.isNan

/-- `hs(in)**2 / hs(out)**2` with `hs = 4·sqrt(E)`: NaN for a negative radicand, inf/NaN for `hs(out) = 0` -/
def scaleOf (hsIn hsOut : Rat) (ok : Bool) : Option Rat :=
  if ok && decide (0 ≤ hsIn) && decide (0 < hsOut) then some (hsIn / hsOut) else none

/-- one output entry without `maintain_m0` -/
def maskEntry (row : Loc) (colOK : Bool) (v : Rat) : Option Rat :=
  match row with
  | .nan => none
  | .out => some v          -- filled row: `fill_value = 0`
  | .seg _ _ => if colOK then some v else none

def finish (c : Core) (m0 : Bool) (scale : Option Rat) : List (List (Option Rat)) :=
  if m0 then
    match scale with
    | some k => c.vals.map fun r => r.map fun v => some (k * v)
    | none => c.vals.map fun r => r.map fun _ => none
  else
    List.zipWith (fun row r => List.zipWith (maskEntry row) c.colOK r) c.rowSt c.vals

structure Out where
  freq : Vec
  dir : Option Vec
  e : List (List (Option Rat))
deriving DecidableEq, Repr

/-- decidable equality of model results (used by `decide` in the non-vacuity examples) -/
instance instDecEqExcept {ε α : Type} [DecidableEq ε] [DecidableEq α] : DecidableEq (Except ε α)
  | .ok a, .ok b => if h : a = b then isTrue (by rw [h]) else isFalse (fun h' => by injection h' with h''; exact h h'')
  | .error a, .error b =>
    if h : a = b then isTrue (by rw [h]) else isFalse (fun h' => by injection h' with h''; exact h h'')
  | .ok _, .error _ => isFalse (fun h => by cases h)
  | .error _, .ok _ => isFalse (fun h => by cases h)

def regrid (thr q : Rat) (f : Vec) (d : Option Vec) (e : Mat) (tf td : Option Vec) (m0 : Bool) :
    Except Err Out :=
  match core f d e tf td with
  | .error er => .error er
  | .ok c =>
    let k := scaleOf (hsOf thr q f d e) (hsOf thr q c.freq c.dir c.vals) c.allOK
    .ok { freq := c.freq, dir := c.dir, e := finish c m0 k }

/-- `SpecArray.rotate`: relabel `(dir + angle) % 360`, regrid onto the original directions, `maintain_m0` on -/
def relabel (d : Vec) (angle : Rat) : Vec := d.map fun x => pmod (x + angle) 360

def rotate (thr q : Rat) (f d : Vec) (e : Mat) (angle : Rat) : Except Err Out :=
  regrid thr q f (some (relabel d angle)) e none (some d) true

/-! ### code as found (before repair 0802ffa), kept only to state what was wrong -/

/-- direction stage of the code AS FOUND: wrap bins only when the target leaves the source range -/
def dirStageAsFound (d : Vec) (e : Mat) (td : Vec) : DirStage :=
  let nodes := dirNodes d
  let dS := nodes.map (·.1)
  let ix := nodes.map (·.2)
  let lo := decide (minL td < dS.headD 0)
  let hi := decide (lastD dS < maxL td)
  let xs := dirXs dS lo hi
  let locs := td.map (locate xs)
  { locs := locs,
    vals := e.map fun r =>
      let ys := dirYs (ix.map (getR r)) lo hi
      locs.map (applyLoc ys) }

end WS.Regrid

/-! # Neighbour table of the watershed routine (`specpart.c: ptnghb`)

`neighLin mk mth n` is a line-by-line transliteration of the body of `ptnghb` for pixel `n = i + mk*j`
(`i` = frequency index, no wrap; `j` = direction index, circular), producing the row **in slot order**.
`neighIJ mk mth i j` is the same row in `(i, j)` coordinates; `Props/C04.lean` proves
`neighLin mk mth (i + mk*j) = (neighIJ mk mth i j).map (lin mk)`.

C `int` arithmetic is modelled with `Nat`: for `n < mk*mth` every intermediate value of the C expressions is
non-negative (proved as part of `neigh_spec`: the truncated subtractions agree with the (i,j) form).
Mathlib-free, executable. -/
namespace WS.Neigh

/-- direction index below `j` on the circle (`j-1`, wrapping to `mth-1`) -/
def dn (mth j : Nat) : Nat := if j = 0 then mth - 1 else j - 1
/-- direction index above `j` on the circle (`j+1`, wrapping to `0`) -/
def up (mth j : Nat) : Nat := if j = mth - 1 then 0 else j + 1

/-- linear index of `(i, j)` -/
def lin (mk : Nat) (p : Nat × Nat) : Nat := p.1 + mk * p.2

/-- row of pixel `(i,j)` in slot order: left, right, down(wrap), up(wrap), down-left, down-right,
    up-left, up-right, the frequency neighbours filtered by the bounds `0 ≤ i±1 < mk`. -/
def neighIJ (mk mth i j : Nat) : List (Nat × Nat) :=
  (if i ≠ 0 then [(i - 1, j)] else []) ++
  ((if i ≠ mk - 1 then [(i + 1, j)] else []) ++
  ([(i, dn mth j)] ++
  ([(i, up mth j)] ++
  ((if i ≠ 0 then [(i - 1, dn mth j)] else []) ++
  ((if i ≠ mk - 1 then [(i + 1, dn mth j)] else []) ++
  ((if i ≠ 0 then [(i - 1, up mth j)] else []) ++
  (if i ≠ mk - 1 then [(i + 1, up mth j)] else [])))))))

/-- transliteration of the loop body of `ptnghb` (same tests, same expressions, same order) -/
def neighLin (mk mth n : Nat) : List Nat :=
  let nspec := mk * mth
  let j := n / mk
  let i := n - j * mk
  (if i ≠ 0 then [n - 1] else []) ++
  ((if i ≠ mk - 1 then [n + 1] else []) ++
  ((if j ≠ 0 then [n - mk] else []) ++
  ((if j = 0 then [nspec - (mk - i)] else []) ++
  ((if j ≠ mth - 1 then [n + mk] else []) ++
  ((if j = mth - 1 then [n - (mth - 1) * mk] else []) ++
  ((if i ≠ 0 ∧ j ≠ 0 then [n - mk - 1] else []) ++
  ((if i ≠ 0 ∧ j = 0 then [n - 1 + mk * (mth - 1)] else []) ++
  ((if i ≠ mk - 1 ∧ j ≠ 0 then [n - mk + 1] else []) ++
  ((if i ≠ mk - 1 ∧ j = 0 then [n + 1 + mk * (mth - 1)] else []) ++
  ((if i ≠ 0 ∧ j ≠ mth - 1 then [n + mk - 1] else []) ++
  ((if i ≠ 0 ∧ j = mth - 1 then [n - 1 - mk * (mth - 1)] else []) ++
  ((if i ≠ mk - 1 ∧ j ≠ mth - 1 then [n + mk + 1] else []) ++
  (if i ≠ mk - 1 ∧ j = mth - 1 then [n + 1 - mk * (mth - 1)] else [])))))))))))))

/-- rows of all pixels -/
def rows (mk mth : Nat) : Array (Array Nat) :=
  (Array.range (mk * mth)).map fun n => (neighLin mk mth n).toArray

/-- the flat C table: 9 ints per pixel, slots 0..7 = neighbours (unused slots are uninitialised in C,
    0 here and never read), slot 8 = count -/
def table (mk mth : Nat) : Array Int := Id.run do
  let mut t : Array Int := Array.mkEmpty (9 * mk * mth)
  for n in [0:mk * mth] do
    let r := neighLin mk mth n
    for x in r do t := t.push (x : Int)
    for _ in [r.length:8] do t := t.push 0
    t := t.push (r.length : Int)
  return t

end WS.Neigh

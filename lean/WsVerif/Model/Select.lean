import WsVerif.Model.Basic
/-!
Model of station selection (`wavespectra/core/select.py`: `Coordinates`, `sel_nearest`, `sel_idw`,
`sel_bbox`; dispatch in `SpecDataset.sel`) over exact rationals.  It mirrors the code AS IT IS.

* Longitudes/latitudes are `Rat` (every finite double is one).  `x % 360` is `mod360` (floor-mod).
* **Distances.**  The code computes `sqrt(Δlon² + Δlat²)`.  The model computes the radicand exactly
  (`distSq`) and obtains the distance through a *square-root oracle* `sq : Rat → Rat` supplied by the
  caller (`distRow = (distSqRow …).map sq`).  The driver builds `sq` from a table sent by the harness
  and verifies every entry (`0 ≤ d ∧ d·d = radicand`, op mode `exact`) — the harness places stations
  and queries so that all radicands are squares of rationals — or, for arbitrary positions (mode
  `approx`), accepts the correctly-rounded double `sqrt` after a bracket check.  Theorems quantify over
  every `sq` and assume only `SqrtOn sq radicands` (Props/C14), with a non-vacuity example.
* The longitude difference is a parameter `ld : Rat → Rat → Rat` applied to the two residues
  (`mod360 station`, `mod360 query`):  `ldCoded x y = x − y` is what the code does (NOT the short way
  round the globe);  `ldShort` is the repaired form (`Model/SelectFixed.lean`).
* `np.argsort` is not stable; the model sorts stably (`List.mergeSort`), ties are compared as sets by
  the harness.
-/
namespace WS.Select
open WS

/-- numpy `array.min()` / `array.max()` of a non-empty array (0 on `[]`; callers guard emptiness,
    numpy raises `ValueError` there). -/
def arrMin : Vec → Rat
  | [] => 0
  | x :: xs => minD xs x
def arrMax : Vec → Rat
  | [] => 0
  | x :: xs => maxD xs x

/-- Python `x % 360` on floats (result in `[0, 360)`). -/
def mod360 (x : Rat) : Rat := pmod x 360

/-- `Coordinates._is_180`: `array.min() < 0 and array.max() <= 180` -/
def is180 (a : Vec) : Bool := decide (arrMin a < 0) && decide (arrMax a ≤ 180)
/-- `Coordinates._is_360`: `array.min() >= 0 and array.max() <= 360` -/
def is360 (a : Vec) : Bool := decide (arrMin a ≥ 0) && decide (arrMax a ≤ 360)

/-- element-wise branch of `_swap_longitude_convention` for a 0–360 array -/
def to180 (x : Rat) : Rat := if x > 180 then x - 360 else x

/-- `Coordinates._swap_longitude_convention` (value returned; the in-place update of the 0–360 branch
    yields the same values) -/
def swapConv (a : Vec) : Vec :=
  if is180 a then a.map mod360
  else if is360 a then a.map to180
  else a

/-- `Coordinates.consistent` -/
def consistent (ql dl : Vec) : Bool := is360 ql == is360 dl

/-- `Coordinates.lons`: query longitudes "in the convention of the dataset" -/
def lonsQ (ql dl : Vec) : Vec := if consistent ql dl then ql else swapConv ql

/-! ### distance -/

/-- longitude difference of two residues as coded: plain difference (squared afterwards) -/
def ldCoded (x y : Rat) : Rat := x - y
/-- the short way round: `min(|x−y|, 360−|x−y|)` for residues `x, y ∈ [0,360)` -/
def ldShort (x y : Rat) : Rat := minR (absR (x - y)) (360 - absR (x - y))

/-- radicand of `Coordinates.distance` for one station -/
def distSq (ld : Rat → Rat → Rat) (slon slat qlon qlat : Rat) : Rat :=
  (ld (mod360 slon) (mod360 qlon)) ^ 2 + (slat - qlat) ^ 2

def distSqRow (ld : Rat → Rat → Rat) (dl dla : Vec) (qlon qlat : Rat) : Vec :=
  List.zipWith (fun a b => distSq ld a b qlon qlat) dl dla

/-- `Coordinates.distance(lon, lat)` given the square-root oracle -/
def distRow (sq : Rat → Rat) (ld : Rat → Rat → Rat) (dl dla : Vec) (qlon qlat : Rat) : Vec :=
  (distSqRow ld dl dla qlon qlat).map sq

/-- distance rows of all queries (`zip(coords.lons, coords.lats)`) -/
def distRows (sq : Rat → Rat) (ld : Rat → Rat → Rat) (dl dla ql qla : Vec) : List Vec :=
  List.zipWith (fun qlon qlat => distRow sq ld dl dla qlon qlat) (lonsQ ql dl) qla

/-! ### nearest -/

/-- `dist.argmin()`: first index of the minimum (0 on `[]`) -/
def argminFirst : Vec → Nat
  | [] => 0
  | x :: xs =>
    match xs with
    | [] => 0
    | _ :: _ => if xs.getD (argminFirst xs) 0 < x then argminFirst xs + 1 else 0

/-- the `missing` argument of `sel_nearest`; any string other than the two documented ones falls
    through both tests and the out-of-tolerance station is used -/
inductive Missing where | raise | ignore | other
deriving DecidableEq, Repr

/-- the loop of `sel_nearest` over the distance rows of the queries; `acc` = `station_ids` so far -/
def nearestLoop (tol : Rat) (unique exact : Bool) (missing : Missing) :
    List Vec → List Nat → Except Err (List Nat)
  | [], acc => .ok acc
  | d :: rest, acc =>
    let i := argminFirst d
    let di := d.getD i 0
    if di > tol ∧ missing = .raise then .error .assertionError
    else if di > tol ∧ missing = .ignore then nearestLoop tol unique exact missing rest acc
    else if exact = true ∧ di > 0 then .error .assertionError
    else if unique = true ∧ i ∈ acc then nearestLoop tol unique exact missing rest acc
    else nearestLoop tol unique exact missing rest (acc ++ [i])

/-- input validation common to the three methods (`Coordinates.__init__`): length assertion, then
    `min()` of an empty array -/
def validate (dl ql qla : Vec) : Except Err Unit :=
  if ql.length ≠ qla.length then .error .assertionError
  else if ql = [] ∨ dl = [] then .error .valueError
  else .ok ()

/-- station indices returned by `sel_nearest` -/
def selNearestIds (sq : Rat → Rat) (ld : Rat → Rat → Rat) (dl dla ql qla : Vec) (tol : Rat)
    (unique exact : Bool) (missing : Missing) : Except Err (List Nat) := do
  validate dl ql qla
  let ids ← nearestLoop tol unique exact missing (distRows sq ld dl dla ql qla) []
  if ids = [] then .error .valueError else .ok ids

/-- longitudes reported by `sel_nearest`/`sel_bbox`: the stored longitudes of the selected stations,
    passed through `_swap_longitude_convention` when the conventions were detected as different -/
def reportStations (stored ql dl : Vec) (ids : List Nat) : Vec :=
  let sub := ids.map fun i => stored.getD i 0
  if consistent ql dl then sub else swapConv sub

/-! ### inverse distance weighting -/

/-- Python `xs[:m]` (`m = None`: everything; negative `m` counts from the end) -/
def pyTake {α} (xs : List α) : Option Int → List α
  | none => xs
  | some m => if m ≥ 0 then xs.take m.toNat else xs.take (xs.length - (-m).toNat)

/-- `Coordinates.nearer`: `(distance, index)` pairs, sorted by distance, within tolerance, first
    `max_sites` -/
def nearer (d : Vec) (tol : Rat) (maxSites : Option Int) : List (Rat × Nat) :=
  pyTake ((d.zipIdx.mergeSort fun a b => decide (a.1 ≤ b.1)).filter fun p => decide (p.1 ≤ tol)) maxSites

/-- the collection loop of `sel_idw`: `(index, factor, distance)`; stops after a zero distance -/
def collect : List (Rat × Nat) → List (Nat × Rat × Rat)
  | [] => []
  | (d, i) :: rest => if d = 0 then [(i, 1, d)] else (i, 1 / d, d) :: collect rest

/-- one query of `sel_idw`: `none` = masked (all NaN), `some ws` = `Σ w·station` -/
def idwRow (d : Vec) (tol : Rat) (maxSites : Option Int) : Option (List (Nat × Rat)) :=
  let c := collect (nearer d tol maxSites)
  match c with
  | [] => none
  | [(i, f, dist)] => if dist > 0 then none else some [(i, f)]
  | _ =>
    let s := (c.map fun p => p.2.1).sum
    if s = 0 then none else some (c.map fun p => (p.1, p.2.1 * (1 / s)))

def selIdw (sq : Rat → Rat) (ld : Rat → Rat → Rat) (dl dla ql qla : Vec) (tol : Rat)
    (maxSites : Option Int) : Except Err (List (Option (List (Nat × Rat)))) := do
  validate dl ql qla
  .ok ((distRows sq ld dl dla ql qla).map fun d => idwRow d tol maxSites)

/-- longitudes reported by `sel_idw`: `coords.lons`, swapped back when inconsistent -/
def reportIdw (ql dl : Vec) : Vec :=
  if consistent ql dl then lonsQ ql dl else swapConv (lonsQ ql dl)

/-! ### bounding box -/

/-- indices `i` (ascending) whose `(lon, lat)` satisfies `p` — `np.where(...)[0]` -/
def whereIdx (dl dla : Vec) (p : Rat → Rat → Bool) : List Nat :=
  ((dl.zip dla).zipIdx.filter fun t => p t.1.1 t.1.2).map fun t => t.2

/-- `sel_bbox` station indices as coded (both branches) -/
def selBboxIdsRaw (dl dla ql qla : Vec) (tol : Rat) : List Nat :=
  let lq := lonsQ ql dl
  let minlon := arrMin lq - tol
  let minlat := arrMin qla - tol
  let maxlon := arrMax lq + tol
  let maxlat := arrMax qla + tol
  if !(is360 dl && !(consistent ql dl)) then
    whereIdx dl dla fun lon lat =>
      decide (lon ≥ minlon) && decide (lat ≥ minlat) && decide (lon ≤ maxlon) && decide (lat ≤ maxlat)
  else
    (whereIdx dl dla fun lon lat =>
      decide (lon ≥ maxlon) && decide (lat ≥ minlat) && decide (lon ≤ 360) && decide (lat ≤ maxlat)) ++
    (whereIdx dl dla fun lon lat =>
      decide (lon ≥ 0) && decide (lat ≥ minlat) && decide (lon ≤ minlon) && decide (lat ≤ maxlat))

def selBboxIds (dl dla ql qla : Vec) (tol : Rat) : Except Err (List Nat) := do
  validate dl ql qla
  let ids := selBboxIdsRaw dl dla ql qla tol
  if ids = [] then .error .valueError else .ok ids

end WS.Select

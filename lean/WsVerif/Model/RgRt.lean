import WsVerif.Model.Basic
import WsVerif.Model.Regrid
/-!
Vocabulary of the regridding translator (`harness/translate_rg.py` → `Gen/RgKernels.lean`): one definition per
accepted numpy / xarray idiom = the TRUSTED reading of that idiom.  Mathlib-free.

One spectrum: `freq` labels, `dir` labels, `e` = rows (one per frequency) of columns (one per direction); values are
`Option Rat` (`none` = NaN).  Reading shared with the model: `Regrid.locate` (the node search of
`scipy.interpolate.interp1d(kind="linear")`), `Regrid.sortK` (stable sort), `Regrid.dedupK` (first of every run).
An index outside an axis cannot be produced by the translated code (all indices come from `np.unique` / `argsort`
of the same axis, `0`, `-1`); `getO` reads `some 0` there, like the model's `getR` (an empty axis, where xarray raises
`IndexError` for `isel(dir=-1)`, is therefore read as the label `0`: mirrored from the model, not a claim on the code).
-/
namespace WS.Rg
open WS WS.Regrid

abbrev ORow := List (Option Rat)
abbrev OMat := List ORow

structure Ds where
  freq : Vec
  dir : Vec
  e : OMat
deriving DecidableEq, Repr

/-- a NaN-free spectrum -/
def ofMat (f d : Vec) (e : Mat) : Ds := { freq := f, dir := d, e := e.map fun r => r.map some }

def getO (l : ORow) (i : Nat) : Option Rat := l.getD i (some 0)

/-- `ds[attrs.DIRNAME]`, `ds.dir`, `ds["dir"]` -/
def dirC (ds : Ds) : Vec := ds.dir
/-- `ds.freq` -/
def freqC (ds : Ds) : Vec := ds.freq

/-- `coord % m` (Python float `%`, positive modulus) -/
def modV (v : Vec) (m : Rat) : Vec := v.map fun x => pmod x m
/-- `coord + c`, `coord - c` -/
def addV (v : Vec) (c : Rat) : Vec := v.map fun x => x + c
def subV (v : Vec) (c : Rat) : Vec := v.map fun x => x - c

/-- `ds.assign_coords({"dir": v})`, `ds["dir"] = v` -/
def assignDir (ds : Ds) (v : Vec) : Ds := { ds with dir := v }
/-- `ds["freq"] = c` on a dataset with a single frequency -/
def setFreq (ds : Ds) (c : Rat) : Ds := { ds with freq := ds.freq.map fun _ => c }

/-- `_, index = np.unique(v, return_index=True)`: positions of the first occurrence of every distinct label, in
    increasing label order -/
def npUniqueIndex (v : Vec) : List Nat := (dedupK (sortK (v.zip (List.range v.length)))).map (·.2)

/-- `ds.isel(dir=index)` for an index LIST -/
def iselDirL (ds : Ds) (ix : List Nat) : Ds :=
  { ds with dir := ix.map (getR ds.dir), e := ds.e.map fun r => ix.map (getO r) }

/-- `ds.sortby("dir")`: stable argsort of the labels, then `isel` -/
def sortbyDir (ds : Ds) : Ds := iselDirL ds ((sortK (ds.dir.zip (List.range ds.dir.length))).map (·.2))

/-- Python scalar index (`-1` = last) -/
def pick {α : Type} (l : List α) (k : Int) (d : α) : α :=
  if k < 0 then l.reverse.getD (-k - 1).toNat d else l.getD k.toNat d

/-- `ds.isel(dir=k)` for a scalar `k`; the dropped dimension comes back when the piece is concatenated along it -/
def iselDir (ds : Ds) (k : Int) : Ds :=
  { ds with dir := [pick ds.dir k 0], e := ds.e.map fun r => [pick r k (some 0)] }

/-- `ds.isel(freq=k)` for a scalar `k` -/
def iselFreq (ds : Ds) (k : Int) : Ds :=
  { ds with freq := [pick ds.freq k 0], e := [pick ds.e k []] }

def concat2Dir (a b : Ds) : Ds := { a with dir := a.dir ++ b.dir, e := List.zipWith (· ++ ·) a.e b.e }
/-- `xr.concat(l, dim="dir")` -/
def concatDir : List Ds → Ds
  | [] => { freq := [], dir := [], e := [] }
  | [a] => a
  | a :: rest => concat2Dir a (concatDir rest)

def concat2Freq (a b : Ds) : Ds := { a with freq := a.freq ++ b.freq, e := a.e ++ b.e }
/-- `xr.concat(l, dim="freq")` -/
def concatFreq : List Ds → Ds
  | [] => { freq := [], dir := [], e := [] }
  | [a] => a
  | a :: rest => concat2Freq a (concatFreq rest)

/-- `a.min()` / `a.max()` of a 1-D array (0 for an empty one, where numpy raises) -/
def amin (v : Vec) : Rat := minL v
def amax (v : Vec) : Rat := maxL v

/-- `slope·(x − x_lo) + y_lo` with NaN propagation -/
def lerpO (a b : Option Rat) (t : Rat) : Option Rat :=
  match a, b with
  | some a, some b => some (lerpT a b t)
  | _, _ => none

/-- one value of `interp1d(kind="linear", bounds_error=False, fill_value=fill)` -/
def lin1 (fill : Option Rat) (xs : Vec) (ys : ORow) (x : Rat) : Option Rat :=
  match locate xs x with
  | .seg i t => lerpO (getO ys i) (getO ys (i + 1)) t
  | .nan => none
  | .out => fill

/-- `ds.interp(dir=t, assume_sorted=True)`: linear along `dir`, NaN outside the node range -/
def interpDir (ds : Ds) (t : Vec) : Ds :=
  { ds with dir := t, e := ds.e.map fun r => t.map (lin1 none ds.dir r) }

def lin1V (fill : Rat) (nd : Nat) (xs : Vec) (rows : OMat) (x : Rat) : ORow :=
  match locate xs x with
  | .seg i t => List.zipWith (fun a b => lerpO a b t) (rows.getD i []) (rows.getD (i + 1) [])
  | .nan => List.replicate nd none
  | .out => List.replicate nd (some fill)

/-- `ds.interp(freq=t, assume_sorted=False, kwargs={"fill_value": fill})`: the source is sorted by frequency first
    (stable), then linear along `freq` with the fill value outside the node range -/
def interpFreq (ds : Ds) (t : Vec) (fill : Rat) : Ds :=
  let srt := sortK (ds.freq.zip ds.e)
  { ds with freq := t, e := t.map (lin1V fill (ds.e.headD []).length (srt.map (·.1)) (srt.map (·.2))) }

/-- `c * ds` -/
def scaleDs (c : Rat) (ds : Ds) : Ds := { ds with e := ds.e.map fun r => r.map fun v => v.map fun y => c * y }

/-- `ds * scale` for a per-spectrum factor that may be non-finite -/
def mulScale (ds : Ds) (k : Option Rat) : Ds :=
  { ds with e := ds.e.map fun r => r.map fun v => match k, v with
                                              | some k, some y => some (y * k)
                                              | _, _ => none }

/-- the values of a NaN-free spectrum -/
def fin? (ds : Ds) : Option Mat := ds.e.mapM fun r => r.mapM id

/-- `a / b` of two per-spectrum numbers in float arithmetic: non-finite for `b = 0` -/
def divG (a b : Rat) : Option Rat := if b = 0 then none else some (a / b)

/-- `np.searchsorted(a, v)` (`side="left"`) on a sorted axis: number of labels `< v` -/
def searchsorted (a : Vec) (v : Rat) : Nat := (a.takeWhile fun y => decide (y < v)).length

end WS.Rg

import WsVerif.Model.Neigh
import WsVerif.Model.Flood
/-! # Executable transliteration of `specpart.c` (`partition`, `ptsort`, `pt_fld`, `fifo_*`)

Array for array, loop for loop, same slot order of the neighbour table, same circular FIFO of `nspec` slots
with the fictitious pixel `-100`.  Differences from the C, all deliberate:

* **Integer-valued spectra.**  The input is an `Array Int` (row-major `nk × nth`, as `spec[ifreq*nth+iang]`).
  The C holds `zp` in `float` and `fact = (ihmax-1.0)/(zmax-zmin)` in `double` and computes
  `imi = fmax(0, fmin(ihmax-1, round(zp*fact)))`.  Here the level is computed in exact integers
  (`round` half away from zero of the exact quotient).  For integers of magnitude `< 2^24` the float `zp` is
  exact, and whenever `zmax-zmin` is a power of two, or the exact quotient is not within `1e-9` of a half
  integer, the double product rounds to the same integer; the harness only compares inputs for which a
  Python re-computation of both formulas agrees (others are counted as ambiguous).
  Step 2 compares `|zp[jl]-zp[q]|` (float in C) — exact for such inputs.
* **Bounds.**  Every array access goes through `rd`/`wr`, which substitute a default **and raise the `oob`
  flag** when the index is outside the array (C20 observes the flag; `Props/C20fld.lean` proves it is never raised).
  C `int` indices are `Int` here so that a negative index (e.g. the fictitious pixel used as index) is seen.
* **Termination.**  The `for(;;)` loops run on fuel (`nspec+1`, `4·nspec+8`, `nspec+1`, inner flood `nspec+2`); running
  out of fuel raises `fuelOut` (`Props/C20fld.lean` proves it never happens).  No `partial`, no `while`.
* **Static state.**  `neigh` is passed in (`Neigh.table nk nth`, what `partinit` leaves behind); `imi, ind, imo,
  zp` are fully overwritten before being read in the C, so they are local here.  The `malloc`ed `iq` starts
  from a caller-chosen filling `iqFill` (the checks run two different fillings).
* **Ghost trace.**  With `tr = true` the run records the abstract flooding steps of `Model/Flood.lean`.

Output layout: the wrapper hands a Fortran-ordered `(nk, nth)` array to the C, i.e. `ipart[ifreq + nk*iang]`
is element `[ifreq, iang]`; `Result.labels` is that array read row-major (`[ifreq][iang]`). -/
namespace WS.SP
open WS.Flood (Step)

/-- state = `oob` flag -/
abbrev M := StateM Bool

@[inline] def rd (a : Array Int) (i : Int) : M Int := fun o =>
  if i < 0 then (0, true) else
  match a[i.toNat]? with
  | some v => (v, o)
  | none => (0, true)

@[inline] def wr (a : Array Int) (i : Int) (v : Int) : M (Array Int) := fun o =>
  if i < 0 then (a, true) else
  if i.toNat < a.size then (a.set! i.toNat v, o) else (a, true)

/-- `round` (half away from zero) of `num/den` for `num ≥ 0`, `den > 0` -/
def roundHalfAway (num den : Int) : Int := (2 * num + den) / (2 * den)

/-- `imi = fmax(0, fmin(ihmax-1, round((zmax - z) * (ihmax-1)/(zmax-zmin))))`, exact -/
def levelOf (ihmax : Nat) (zmin zmax z : Int) : Nat :=
  min (roundHalfAway ((zmax - z) * ((ihmax : Int) - 1)) (zmax - zmin)).toNat (ihmax - 1)

/-- new `iq_end` of `fifo_add`: `if (iq_end > nspec-2) return 0; return iq_end+1;` -/
@[inline] def fifoNextEnd (nspec qe : Int) : Int := if qe > nspec - 2 then 0 else qe + 1

/-- new `*iq_start` of `fifo_first`: `*iq_start = *iq_start+1; if (*iq_start > nspec-1) *iq_start = 0;` -/
@[inline] def fifoNextStart (nspec qs : Int) : Int := if qs + 1 > nspec - 1 then 0 else qs + 1

/-- `fifo_add`: store at `iq_end`, advance with wrap -/
@[inline] def fifoAdd (nspec : Int) (iq : Array Int) (qe : Int) (v : Int) : M (Array Int × Int) := do
  let iq ← wr iq qe v
  pure (iq, fifoNextEnd nspec qe)

/-- `fifo_first`: read at `iq_start`, advance with wrap -/
@[inline] def fifoFirst (nspec : Int) (iq : Array Int) (qs : Int) : M (Int × Int) := do
  let v ← rd iq qs
  pure (v, fifoNextStart nspec qs)

/-- `ptsort`: counting sort of the pixels by level; returns `ind` -/
def ptsort (ihmax nspec : Nat) (imi : Array Int) : M (Array Int) := do
  let mut numv : Array Int := Array.replicate ihmax 0
  for i in [0:nspec] do
    let v ← rd imi i
    numv ← wr numv v ((← rd numv v) + 1)
  let mut iaddr : Array Int := Array.replicate ihmax 0
  iaddr ← wr iaddr 0 0
  for i in [0:ihmax - 1] do
    iaddr ← wr iaddr ((i : Int) + 1) ((← rd iaddr i) + (← rd numv i))
  let mut iorder : Array Int := Array.replicate nspec 0
  for i in [0:nspec] do
    let iv ← rd imi i
    let inn ← rd iaddr iv
    iorder ← wr iorder i inn
    iaddr ← wr iaddr iv (inn + 1)
  let mut ind : Array Int := Array.replicate nspec 0
  for i in [0:nspec] do
    ind ← wr ind (← rd iorder i) i
  pure ind

/-- specification of `ptsort`: pixels listed level by level, in increasing pixel order inside a level -/
def ptsortSpec (ihmax nspec : Nat) (imi : Nat → Nat) : List Nat :=
  (List.range ihmax).flatMap fun v => (List.range nspec).filter fun p => imi p == v

/-- final position of pixel `i` in `ind` (`iorder[i]` of the C): the pixels of lower level, then the earlier
    pixels of the same level -/
def slot (nspec : Nat) (imi : Nat → Nat) (i : Nat) : Nat :=
  ((List.range nspec).filter fun x => imi x < imi i).length + ((List.range i).filter fun x => imi x == imi i).length

structure FldOut where
  imo : Array Int
  trace : Array Step
  fuelOut : Bool
  npart : Int

/-- ghost-trace push (no-op unless the run records its trace) -/
@[inline] def pushIf (tr : Bool) (t : Array Step) (s : Step) : Array Step := if tr then t.push s else t

/-! `pt_fld` is split loop by loop (`scan1a`/`step1a`, `nbr1b`/`step1b`, `nbr1c`/`flood1c`/`step1c`, `sweepPix`/`step2`)
so that each loop carries its own specification in `Props/C20fld.lean`; the statements, their order and every array
access are those of the C. -/

/-- `neigh[8+9*ip]`: number of neighbours of pixel `ip` -/
@[inline] def nbCnt (nb : Array Int) (ip : Int) : M Int := rd nb (8 + 9 * ip)

/-- `neigh[i+9*ip]`: `i`-th neighbour of pixel `ip` -/
@[inline] def nbAt (nb : Array Int) (ip : Int) (i : Nat) : M Int := rd nb ((i : Int) + 9 * ip)

/-- `ind[m]` -/
@[inline] def indAt (ind : Array Int) (m : Int) : M Int := rd ind m

/-- 1.a neighbour scan: `for (i…) if (imo[ipp] > 0 || imo[ipp] == iwshed) {…; break;}` — is there such a neighbour? -/
def scan1a (nb imo : Array Int) (ip : Int) : M Bool := do
  let cnt ← nbCnt nb ip
  let mut found := false
  for i in [0:cnt.toNat] do
    let ipp ← nbAt nb ip i
    let l ← rd imo ipp
    if l > 0 || l == 0 then
      found := true
      break
  return found

/-- 1.a: mark the pixels of level `ih` (from `ind[m]` on), queue those that touch a labelled pixel -/
def step1a (nspecN : Nat) (nb imi ind : Array Int) (ih : Int) (tr : Bool)
    (imo imd iq : Array Int) (qe m : Int) (trace : Array Step) :
    M (Array Int × Array Int × Array Int × Int × Int × Array Step × Bool) := do
  let nspec : Int := nspecN
  let mut imo := imo
  let mut imd := imd
  let mut iq := iq
  let mut qe := qe
  let mut m := m
  let mut trace := trace
  let mut brk := false
  for _ in [0:nspecN + 1] do
    let ip ← indAt ind m
    let lv ← rd imi ip
    if lv != ih then
      brk := true; break
    imo ← wr imo ip (-2)
    trace := pushIf tr trace (.mark ip.toNat)
    let found ← scan1a nb imo ip
    if found then
      imd ← wr imd ip 1
      let (a, b) ← fifoAdd nspec iq qe ip
      iq := a; qe := b
    if m > nspec - 2 then
      brk := true; break
    else m := m + 1
  pure (imo, imd, iq, qe, m, trace, brk)

/-- 1.b label decision for the dequeued pixel (`c = imo[ip]`) against a labelled neighbour (`l = imo[ipp] ≥ 0`):
    new value and whether it is an `inherit` (else `conflict`); `none` = unchanged -/
def relabel (c l : Int) : Option (Int × Bool) :=
  if l > 0 then
    if c == -2 || c == 0 then some (l, true)
    else if c != l then some (0, false) else none
  else if c == -2 then some (0, false) else none

/-- 1.b neighbour loop of the dequeued pixel `ip` -/
def nbr1b (nspecN : Nat) (nb : Array Int) (tr : Bool) (ip dist : Int)
    (imo imd iq : Array Int) (qe : Int) (trace : Array Step) :
    M (Array Int × Array Int × Array Int × Int × Array Step) := do
  let nspec : Int := nspecN
  let mut imo := imo
  let mut imd := imd
  let mut iq := iq
  let mut qe := qe
  let mut trace := trace
  let cnt ← nbCnt nb ip
  for i in [0:cnt.toNat] do
    let ipp ← nbAt nb ip i
    let l ← rd imo ipp
    let dq ← rd imd ipp
    if dq < dist && (l > 0 || l == 0) then
      let c ← rd imo ip
      match relabel c l with
      | some (v, inh) =>
        imo ← wr imo ip v
        trace := pushIf tr trace (if inh then .inherit ip.toNat ipp.toNat else .conflict ip.toNat)
      | none => pure ()
    else if l == -2 && dq == 0 then
      imd ← wr imd ipp (dist + 1)
      let (a, b) ← fifoAdd nspec iq qe ipp
      iq := a; qe := b
  pure (imo, imd, iq, qe, trace)

/-- 1.b: process the queue in geodesic-distance order (fictitious pixel `-100` separates the distances) -/
def step1b (nspecN : Nat) (nb : Array Int) (tr : Bool)
    (imo imd iq : Array Int) (qs qe : Int) (trace : Array Step) :
    M (Array Int × Array Int × Array Int × Int × Int × Array Step × Bool) := do
  let nspec : Int := nspecN
  let fict : Int := -100
  let mut imo := imo
  let mut imd := imd
  let mut iq := iq
  let mut qs := qs
  let mut qe := qe
  let mut trace := trace
  let mut dist : Int := 1
  let (a, b) ← fifoAdd nspec iq qe fict
  iq := a; qe := b
  let mut brk := false
  for _ in [0:4 * nspecN + 8] do
    let (v, s) ← fifoFirst nspec iq qs
    let mut ip := v
    qs := s
    if ip == fict then
      if qs == qe then
        brk := true; break
      else
        let (a, b) ← fifoAdd nspec iq qe fict
        iq := a; qe := b
        dist := dist + 1
        let (v, s) ← fifoFirst nspec iq qs
        ip := v; qs := s
    let (a, b, c, d, e) ← nbr1b nspecN nb tr ip dist imo imd iq qe trace
    imo := a; imd := b; iq := c; qe := d; trace := e
    trace := pushIf tr trace (.finalize ip.toNat)
  pure (imo, imd, iq, qs, qe, trace, brk)

/-- 1.c neighbour loop of the dequeued pixel `ipp`: mask neighbours join the new basin `icl` -/
def nbr1c (nspecN : Nat) (nb : Array Int) (tr : Bool) (icl ipp : Int)
    (imo iq : Array Int) (qe : Int) (trace : Array Step) :
    M (Array Int × Array Int × Int × Array Step) := do
  let nspec : Int := nspecN
  let mut imo := imo
  let mut iq := iq
  let mut qe := qe
  let mut trace := trace
  let cnt ← nbCnt nb ipp
  for i in [0:cnt.toNat] do
    let ippp ← nbAt nb ipp i
    let l ← rd imo ippp
    if l == -2 then
      let (a, b) ← fifoAdd nspec iq qe ippp
      iq := a; qe := b
      imo ← wr imo ippp icl
      trace := pushIf tr trace (.flood ippp.toNat ipp.toNat)
  pure (imo, iq, qe, trace)

/-- 1.c inner `for(;;)`: flood the mask plateau of the new seed until the queue is empty -/
def flood1c (nspecN : Nat) (nb : Array Int) (tr : Bool) (icl : Int)
    (imo iq : Array Int) (qs qe : Int) (trace : Array Step) :
    M (Array Int × Array Int × Int × Int × Array Step × Bool) := do
  let nspec : Int := nspecN
  let mut imo := imo
  let mut iq := iq
  let mut qs := qs
  let mut qe := qe
  let mut trace := trace
  let mut brk2 := false
  for _ in [0:nspecN + 2] do
    if qs == qe then
      brk2 := true; break
    let (v, s) ← fifoFirst nspec iq qs
    let ipp := v
    qs := s
    let (a, b, c, d) ← nbr1c nspecN nb tr icl ipp imo iq qe trace
    imo := a; iq := b; qe := c; trace := d
    trace := pushIf tr trace (.closed ipp.toNat)
  pure (imo, iq, qs, qe, trace, brk2)

/-- 1.c: the level's pixels still `MASK` seed new basins; returns also "some loop ran out of fuel" -/
def step1c (nspecN : Nat) (nb imi ind : Array Int) (ih : Int) (tr : Bool)
    (imo imd iq : Array Int) (qs qe icl m : Int) (trace : Array Step) :
    M (Array Int × Array Int × Array Int × Int × Int × Int × Int × Array Step × Bool) := do
  let nspec : Int := nspecN
  let mut imo := imo
  let mut imd := imd
  let mut iq := iq
  let mut qs := qs
  let mut qe := qe
  let mut icl := icl
  let mut m := m
  let mut trace := trace
  let mut fo := false
  let mut brk := false
  for _ in [0:nspecN + 1] do
    let ip ← indAt ind m
    let lv ← rd imi ip
    if lv != ih then
      brk := true; break
    imd ← wr imd ip 0
    let c ← rd imo ip
    if c == -2 then
      icl := icl + 1
      let (a, b) ← fifoAdd nspec iq qe ip
      iq := a; qe := b
      imo ← wr imo ip icl
      trace := pushIf tr trace (.seed ip.toNat icl.toNat)
      let (a, b, c, d, e, brk2) ← flood1c nspecN nb tr icl imo iq qs qe trace
      imo := a; iq := b; qs := c; qe := d; trace := e
      if !brk2 then fo := true
    if m > nspec - 2 then
      brk := true; break
    else m := m + 1
  if !brk then fo := true
  pure (imo, imd, iq, qs, qe, icl, m, trace, fo)

/-- 2. one watershed-line pixel `jl` of a sweep: nearest (in `zp`) labelled neighbour in the snapshot `imo` -/
def sweepPix (nb zp : Array Int) (zpmax : Int) (tr : Bool) (imo : Array Int) (jlN : Nat)
    (imd : Array Int) (trace : Array Step) : M (Array Int × Array Step) := do
  let jl : Int := jlN
  let mut imd := imd
  let mut trace := trace
  let mut ipt : Int := -1
  let c ← rd imo jl
  if c == 0 then
    let mut ep1 := zpmax
    let cnt ← nbCnt nb jl
    for jn in [0:cnt.toNat] do
      let q ← nbAt nb jl jn
      let zj ← rd zp jl
      let zq ← rd zp q
      let diff := (zj - zq).natAbs
      let lq ← rd imo q
      if (diff : Int) ≤ ep1 && lq != 0 then
        ep1 := diff
        ipt := jn
    if ipt > -1 then
      let q ← rd nb (ipt + 9 * jl)
      let lq ← rd imo q
      imd ← wr imd jl lq
      trace := pushIf tr trace (.resolve jlN q.toNat)
  pure (imd, trace)

/-- 2. five clean-up sweeps -/
def step2 (nspecN : Nat) (nb zp : Array Int) (zpmax : Int) (tr : Bool) (imo : Array Int) (trace : Array Step) :
    M (Array Int × Array Step) := do
  let mut imo := imo
  let mut trace := trace
  for _ in [0:5] do
    let mut imd := imo
    trace := pushIf tr trace .sweep
    for jlN in [0:nspecN] do
      let (a, b) ← sweepPix nb zp zpmax tr imo jlN imd trace
      imd := a; trace := b
    imo := imd
    if imo.all (· > 0) then break
  pure (imo, trace)

/-- one level `ih` of step 1 -/
def levelStep (nspecN : Nat) (nb imi ind : Array Int) (ihN : Nat) (tr : Bool)
    (imo imd iq : Array Int) (qs qe icl m : Int) (trace : Array Step) :
    M (Array Int × Array Int × Array Int × Int × Int × Int × Int × Array Step × Bool) := do
  let ih : Int := ihN
  let msave := m
  let trace := pushIf tr trace (.level ihN)
  let (imo, imd, iq, qe, _, trace, brkA) ← step1a nspecN nb imi ind ih tr imo imd iq qe m trace
  let (imo, imd, iq, qs, qe, trace, brkB) ← step1b nspecN nb tr imo imd iq qs qe trace
  let trace := pushIf tr trace .endqueue
  let (imo, imd, iq, qs, qe, icl, m, trace, foC) ← step1c nspecN nb imi ind ih tr imo imd iq qs qe icl msave trace
  let trace := pushIf tr trace .endlevel
  pure (imo, imd, iq, qs, qe, icl, m, trace, !brkA || !brkB || foC)

/-- `zpmax = max zp` -/
def zpMax (nspecN : Nat) (zp : Array Int) : M Int := do
  let mut zpmax ← rd zp 0
  for i in [1:nspecN] do
    let v ← rd zp i
    if v > zpmax then zpmax := v
  pure zpmax

/-- `pt_fld` -/
def ptFld (nspecN : Nat) (nb imi ind zp : Array Int) (ihmax : Nat) (iqFill : Int) (tr : Bool) : M FldOut := do
  let mut imo : Array Int := Array.replicate nspecN (-1)
  let mut imd : Array Int := Array.replicate nspecN 0
  let mut iq : Array Int := Array.replicate nspecN iqFill
  let mut qs : Int := 0
  let mut qe : Int := 0
  let mut icl : Int := 0
  let mut trace : Array Step := #[]
  let mut fuelOut := false
  let zpmax ← zpMax nspecN zp
  let mut m : Int := 0
  for ihN in [0:ihmax] do
    let (a, b, c, d, e, f, g, h, fo) ← levelStep nspecN nb imi ind ihN tr imo imd iq qs qe icl m trace
    imo := a; imd := b; iq := c; qs := d; qe := e; icl := f; m := g; trace := h
    if fo then fuelOut := true
  -- 2. watershed-line pixels
  let (a, b) ← step2 nspecN nb zp zpmax tr imo trace
  pure { imo := a, trace := b, fuelOut := fuelOut, npart := icl }

structure Result where
  /-- label map, row-major `[ifreq][iang]` -/
  labels : Array Int
  /-- discretised levels `imi` in the C's internal layout `ifreq + nk*iang` (empty for a constant spectrum) -/
  imi : Array Int
  ind : Array Int
  trace : Array Step
  oob : Bool
  fuelOut : Bool
  const : Bool

/-- body of `partition` in the bounds-checking monad -/
def partitionM (nk nth ihmax : Nat) (nb : Array Int) (spec : Array Int) (iqFill : Int) (tr : Bool) : M Result := do
  let mk := nk
  let mth := nth
  let nspec := nk * nth
  let mut z : Array Int := Array.replicate nspec 0
  for iang in [0:mth] do
    for ifreq in [0:mk] do
      z ← wr z ((ifreq : Int) + mk * iang) (← rd spec ((ifreq : Int) * mth + iang))
  let mut zmin ← rd z 0
  let mut zmax := zmin
  for i in [1:nspec] do
    let v ← rd z i
    if v < zmin then zmin := v
    if v > zmax then zmax := v
  if zmax == zmin then
    return { labels := Array.replicate nspec 0, imi := #[], ind := #[], trace := #[], oob := false,
             fuelOut := false, const := true }
  let zp := z.map (zmax - ·)
  let imi : Array Int := z.map fun v => (levelOf ihmax zmin zmax v : Int)
  let ind ← ptsort ihmax nspec imi
  let f ← ptFld nspec nb imi ind zp ihmax iqFill tr
  let mut out : Array Int := Array.replicate nspec 0
  for ifreq in [0:mk] do
    for iang in [0:mth] do
      out ← wr out ((ifreq : Int) * mth + iang) (← rd f.imo ((ifreq : Int) + mk * iang))
  return { labels := out, imi := imi, ind := ind, trace := f.trace, oob := false, fuelOut := f.fuelOut,
           const := false }

/-- `partition(spec, ipart, nk, nth, ihmax)` with `neigh` = `nb` -/
def partition (nk nth ihmax : Nat) (nb : Array Int) (spec : Array Int) (iqFill : Int := 0) (tr : Bool := false) :
    Result :=
  let (r, oob) := (partitionM nk nth ihmax nb spec iqFill tr).run false
  { r with oob := oob }

/-- graph on which the ghost trace is validated: the neighbour rows and the discretised levels -/
def graphOf (nk nth : Nat) (rows : Array (Array Nat)) (imi : Array Int) : WS.Flood.Graph :=
  { n := nk * nth, adj := fun p => (rows.getD p #[]).toList, level := fun p => (imi.getD p 0).toNat }

structure Verdict where
  valid : Bool
  complete : Bool
  info : Nat        -- K when valid, index of the failing step otherwise
  indOk : Bool      -- executable `ptsort` = `ptsortSpec`
  labelsOk : Bool   -- final abstract labels = concrete label map

/-- evaluate `Valid (trace)`, `Complete`, and that the abstract final state carries the concrete labels -/
def verdict (nk nth ihmax : Nat) (rows : Array (Array Nat)) (r : Result) : Verdict :=
  if r.const then { valid := true, complete := true, info := 0, indOk := true, labelsOk := true } else
  let g := graphOf nk nth rows r.imi
  let lev := fun p => (r.imi.getD p 0).toNat
  let indOk := r.ind.toList == (ptsortSpec ihmax (nk * nth) lev).map (fun (x : Nat) => (x : Int)) &&
    (nk * nth > 150 || (List.range (nk * nth)).all fun i => r.ind.getD (slot (nk * nth) lev i) (-1) == (i : Int))
  match WS.Flood.traceCheck g r.trace with
  | .error i => { valid := false, complete := false, info := i, indOk := indOk, labelsOk := false }
  | .ok s =>
    let labelsOk := (List.range nk).all fun f => (List.range nth).all fun t =>
      let c := r.labels.getD (f * nth + t) 0
      match s.labOf (f + nk * t) with
      | .basin k => c == (k : Int)
      | .wshed => c == 0
      | _ => false
    { valid := true, complete := WS.Flood.completeB g s, info := s.K, indOk := indOk, labelsOk := labelsOk }

end WS.SP

/-!
# FrameIR — a small imperative IR for the frame analysis of C17 (Mathlib-free)

Objects have seven cells.  A *location* is either a cell of a parameter object as handed in by the caller
(`Loc.param v c`) or something allocated during the call (`Loc.fresh n`).  A variable maps every one of its cells to the
list of locations it may stand for (points-to sets).  Two statements:

* `assign x srcs` — `x := ` result of an expression: a NEW object (one fresh location in every cell) that in addition may
  share, for every `(y, cy, cx) ∈ srcs`, its cell `cx` with cell `cy` of `y` (`fresh x` = no sources; `alias x y` = all
  cells; `view x y [values]` = a shallow wrapper around the same buffer; `proj x y attrs` = the dict `y.attrs` itself);
* `store x c` — any in-place write through `x` into cell `c`: EVERY location `x.c` may stand for is changed.

Control flow is abstracted away: the theorem is about every *trace* `tr` whose statements are taken from the program (any
order, any repetition, any subset: branches, loops, early returns and raises are all covered).

`writes ps p` is the computed may-write set on the cells of the parameters `ps`: a flow-insensitive may-alias table is
computed by `solve`, VALIDATED (`initB`, `closedB`: it contains the parameters and is closed under every assignment of
the program) and read out at the stores; if the validation fails the result is "everything".  `frame_ir` holds for ALL
programs.
-/
namespace WS.FrameIR

inductive Cell where
  | values | coords | attrs | encoding | dims | name
  /-- attrs of the objects HELD by a plain Python object (`self.f = v`), so that `self.g = w` does not count as a write into `v` -/
  | held
deriving DecidableEq, Repr

def Cell.all : List Cell := [.values, .coords, .attrs, .encoding, .dims, .name, .held]

theorem Cell.mem_all (c : Cell) : c ∈ Cell.all := by cases c <;> simp [Cell.all]

def Cell.idx : Cell → Nat
  | .values => 0 | .coords => 1 | .attrs => 2 | .encoding => 3 | .dims => 4 | .name => 5 | .held => 6

abbrev Var := Nat

inductive Loc where
  | param (v : Var) (c : Cell)
  | fresh (n : Nat)
deriving DecidableEq, Repr

/-- `(y, cy, cx)`: cell `cx` of the target may share cell `cy` of `y` -/
abbrev Src := Var × Cell × Cell

inductive Stmt where
  | assign (x : Var) (srcs : List Src)
  | store (x : Var) (c : Cell)
deriving DecidableEq, Repr

abbrev Prog := List Stmt

/-! helpers used by the generated programs -/
/-- all cells of `y`, cell by cell (`x = y`, `x = y[k]`, `x = y.attr`, unknown method: conservative) -/
def allOf (y : Var) : List Src := Cell.all.map fun c => (y, c, c)
/-- the listed cells of `y` only (`[.values]`: `isel`, `sel`, shallow `copy`, `transpose`, `assign_coords`, …) -/
def cellsOf (y : Var) (cs : List Cell) : List Src := cs.map fun c => (y, c, c)
/-- the object that IS cell `c` of `y` (`y.attrs`, `y.values`, `y.encoding`): whatever is written through it hits `y.c` -/
def projOf (y : Var) (c : Cell) : List Src := Cell.all.map fun c' => (y, c, c')

structure State where
  env : Var → Cell → List Loc
  heap : Loc → Nat
  nxt : Nat

def gather {α : Type} (f : Var → Cell → List α) (srcs : List Src) (c : Cell) : List α :=
  srcs.flatMap fun s => if s.2.2 = c then f s.1 s.2.1 else []

def step (σ : State) : Stmt → State
  | .assign x srcs =>
    { env := fun y c => if y = x then Loc.fresh σ.nxt :: gather σ.env srcs c else σ.env y c
      heap := σ.heap, nxt := σ.nxt + 1 }
  | .store x c =>
    { env := σ.env, heap := fun l => if l ∈ σ.env x c then σ.heap l + 1 else σ.heap l, nxt := σ.nxt }

/-- big-step execution of a trace -/
def exec (tr : List Stmt) (σ : State) : State := tr.foldl step σ

/-- entry state: every parameter's cells are the caller's, everything else points nowhere; `h` = caller's heap
    (a version counter per location) -/
def init (ps : List Var) (h : Loc → Nat) : State :=
  { env := fun x c => if x ∈ ps then [Loc.param x c] else [], heap := h, nxt := 0 }

/-! ## the analysis -/
abbrev PC := Var × Cell
/-- may-alias table: entry `7·x + idx c` = parameter cells that cell `c` of `x` may share -/
abbrev AEnv := List (List PC)

def look (A : AEnv) (x : Var) (c : Cell) : List PC := A.getD (7 * x + c.idx) []

def union (a b : List PC) : List PC := b.foldl (fun acc t => if acc.contains t then acc else acc ++ [t]) a

def modAt (f : List PC → List PC) : Nat → AEnv → AEnv
  | _, [] => []
  | 0, a :: l => f a :: l
  | n + 1, a :: l => a :: modAt f n l

def astep (A : AEnv) : Stmt → AEnv
  | .assign x srcs => Cell.all.foldl (fun B c => modAt (fun old => union old (gather (look A) srcs c)) (7 * x + c.idx) B) A
  | .store _ _ => A

def closedB (p : Prog) (A : Var → Cell → List PC) : Bool :=
  p.all fun s => match s with
    | .assign x srcs => Cell.all.all fun c => (gather A srcs c).all fun t => (A x c).contains t
    | .store _ _ => true

def initB (ps : List Var) (A : Var → Cell → List PC) : Bool :=
  ps.all fun v => Cell.all.all fun c => (A v c).contains (v, c)

def maxVar (p : Prog) : Nat :=
  p.foldl (fun m s => match s with
    | .assign x srcs => srcs.foldl (fun m s => max m s.1) (max m x)
    | .store x _ => max m x) 0

def table0 (ps : List Var) (n : Nat) : AEnv :=
  (List.range (7 * (n + 1))).map fun i => if (i / 7) ∈ ps then Cell.all.filterMap (fun c => if c.idx = i % 7 then some (i / 7, c) else none) else []

def solve : Nat → Prog → AEnv → AEnv
  | 0, _, A => A
  | n + 1, p, A => if closedB p (look A) then A else solve n p (p.foldl astep A)

def dedup : List PC → List PC
  | [] => []
  | a :: l => if a ∈ dedup l then dedup l else a :: dedup l

theorem mem_dedup {a : PC} {l : List PC} : a ∈ dedup l ↔ a ∈ l := by
  induction l with
  | nil => simp [dedup]
  | cons b l ih =>
    unfold dedup
    by_cases hb : b ∈ dedup l
    · rw [if_pos hb]
      constructor
      · intro h; exact List.mem_cons_of_mem _ (ih.mp h)
      · intro h
        rcases List.mem_cons.mp h with h | h
        · exact h ▸ hb
        · exact ih.mpr h
    · rw [if_neg hb]
      simp [ih]

/-- parameter cells read out at the stores of `p` under the table `A` -/
def readout (p : Prog) (A : Var → Cell → List PC) : List PC :=
  p.flatMap fun s => match s with
    | .store x c => A x c
    | .assign _ _ => []

def top (ps : List Var) : List PC := ps.flatMap fun v => Cell.all.map fun c => (v, c)

/-- **the computed write-set** of program `p` on the cells of its parameters `ps` -/
def writes (ps : List Var) (p : Prog) : List PC :=
  let A := look (table0 ps (max (maxVar p) (ps.foldl max 0)) |> solve (p.length + 1) p)
  if initB ps A && closedB p A then dedup (readout p A) else top ps

/-! ## soundness -/
def Inv (A : Var → Cell → List PC) (σ : State) : Prop :=
  ∀ x c v c', Loc.param v c' ∈ σ.env x c → (v, c') ∈ A x c

theorem mem_gather {α : Type} {f : Var → Cell → List α} {srcs : List Src} {c : Cell} {a : α} :
    a ∈ gather f srcs c ↔ ∃ s ∈ srcs, s.2.2 = c ∧ a ∈ f s.1 s.2.1 := by
  unfold gather
  rw [List.mem_flatMap]
  constructor
  · rintro ⟨s, hs, ha⟩
    by_cases h : s.2.2 = c
    · rw [if_pos h] at ha; exact ⟨s, hs, h, ha⟩
    · rw [if_neg h] at ha; cases ha
  · rintro ⟨s, hs, h, ha⟩
    exact ⟨s, hs, by rw [if_pos h]; exact ha⟩

theorem closed_assign {p : Prog} {A : Var → Cell → List PC} (hc : closedB p A = true) {x : Var} {srcs : List Src}
    (hs : Stmt.assign x srcs ∈ p) {c : Cell} {t : PC} (ht : t ∈ gather A srcs c) : t ∈ A x c := by
  unfold closedB at hc
  rw [List.all_eq_true] at hc
  have h1 := hc _ hs
  simp only at h1
  rw [List.all_eq_true] at h1
  have h2 := h1 c (Cell.mem_all c)
  rw [List.all_eq_true] at h2
  have h3 := h2 t ht
  exact List.contains_iff_mem.mp h3 |> fun h => h

theorem init_inv {ps : List Var} {A : Var → Cell → List PC} (hi : initB ps A = true) (h : Loc → Nat) :
    Inv A (init ps h) := by
  intro x c v c' hm
  unfold init at hm
  simp only at hm
  by_cases hx : x ∈ ps
  · rw [if_pos hx] at hm
    have := List.mem_singleton.mp hm
    injection this with hv hcc
    subst hv; subst hcc
    unfold initB at hi
    rw [List.all_eq_true] at hi
    have h1 := hi _ hx
    rw [List.all_eq_true] at h1
    have h2 := h1 c' (Cell.mem_all c')
    exact List.contains_iff_mem.mp h2 |> fun h => h
  · rw [if_neg hx] at hm; cases hm

theorem step_inv {p : Prog} {A : Var → Cell → List PC} (hc : closedB p A = true) {σ : State} (hI : Inv A σ)
    {s : Stmt} (hs : s ∈ p) : Inv A (step σ s) := by
  cases s with
  | store x c => exact hI
  | assign x srcs =>
    intro y c v c' hm
    simp only [step] at hm
    by_cases hy : y = x
    · rw [if_pos hy] at hm
      rcases List.mem_cons.mp hm with h | h
      · cases h
      · rcases mem_gather.mp h with ⟨s, hs', hcx, hl⟩
        have := hI _ _ _ _ hl
        subst hy
        exact closed_assign hc hs (mem_gather.mpr ⟨s, hs', hcx, this⟩)
    · rw [if_neg hy] at hm
      exact hI _ _ _ _ hm

theorem step_heap {p : Prog} {A : Var → Cell → List PC} {σ : State} (hI : Inv A σ) {s : Stmt} (hs : s ∈ p)
    {v : Var} {c : Cell} (hn : (v, c) ∉ readout p A) : (step σ s).heap (Loc.param v c) = σ.heap (Loc.param v c) := by
  cases s with
  | assign x srcs => rfl
  | store x cx =>
    simp only [step]
    by_cases hm : Loc.param v c ∈ σ.env x cx
    · exfalso
      apply hn
      unfold readout
      rw [List.mem_flatMap]
      exact ⟨_, hs, hI _ _ _ _ hm⟩
    · rw [if_neg hm]

theorem exec_frame {p : Prog} {A : Var → Cell → List PC} (hc : closedB p A = true) (tr : List Stmt)
    (hsub : ∀ s ∈ tr, s ∈ p) (σ : State) (hI : Inv A σ) {v : Var} {c : Cell} (hn : (v, c) ∉ readout p A) :
    (exec tr σ).heap (Loc.param v c) = σ.heap (Loc.param v c) := by
  induction tr generalizing σ with
  | nil => rfl
  | cons s tr ih =>
    have hs : s ∈ p := hsub s (List.mem_cons_self ..)
    unfold exec
    rw [List.foldl_cons]
    have := ih (fun t ht => hsub t (List.mem_cons_of_mem _ ht)) (step σ s) (step_inv hc hI hs)
    unfold exec at this
    rw [this, step_heap hI hs hn]

theorem mem_top {ps : List Var} {v : Var} (hv : v ∈ ps) (c : Cell) : (v, c) ∈ top ps := by
  unfold top
  rw [List.mem_flatMap]
  exact ⟨v, hv, List.mem_map.mpr ⟨c, Cell.mem_all c, rfl⟩⟩

/-- **general frame theorem**: every parameter cell NOT in the computed write-set has, after any trace over the
    statements of `p` from the entry state, the version it had in the caller's heap -/
theorem frame_ir_general (ps : List Var) (p : Prog) (h : Loc → Nat) (tr : List Stmt) (hsub : ∀ s ∈ tr, s ∈ p)
    (v : Var) (hv : v ∈ ps) (c : Cell) (hn : (v, c) ∉ writes ps p) :
    (exec tr (init ps h)).heap (Loc.param v c) = h (Loc.param v c) := by
  unfold writes at hn
  simp only at hn
  split at hn
  · rename_i hok
    rw [Bool.and_eq_true] at hok
    have := exec_frame hok.2 tr hsub (init ps h) (init_inv hok.1 h) (v := v) (c := c)
      (fun hm => hn (mem_dedup.mpr hm))
    exact this
  · exact absurd (mem_top hv c) hn

/-- **frame theorem**: an empty computed write-set means no cell of any parameter object changes -/
theorem frame_ir (ps : List Var) (p : Prog) (hw : writes ps p = []) (h : Loc → Nat) (tr : List Stmt)
    (hsub : ∀ s ∈ tr, s ∈ p) (v : Var) (hv : v ∈ ps) (c : Cell) :
    (exec tr (init ps h)).heap (Loc.param v c) = h (Loc.param v c) :=
  frame_ir_general ps p h tr hsub v hv c (by rw [hw]; exact List.not_mem_nil)

/-- … in particular for the program executed in its own order -/
theorem frame_ir_self (ps : List Var) (p : Prog) (hw : writes ps p = []) (h : Loc → Nat) (v : Var) (hv : v ∈ ps)
    (c : Cell) : (exec p (init ps h)).heap (Loc.param v c) = h (Loc.param v c) :=
  frame_ir ps p hw h p (fun _ hs => hs) v hv c

end WS.FrameIR

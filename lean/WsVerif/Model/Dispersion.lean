import WsVerif.Model.Consts
/-!
Model of the dispersion helpers of `wavespectra/core/utils.py` on a scalar frequency: `wavenuma`
(Chen & Thomson approximation), `celerity`, `wavelen`.  The square root (`** 0.5`) is an oracle function
parameter `sqrt : Rat → Rat`; `pi` is symbolic.  Tied to the source by the regenerated kernels
`Gen.wavenuma*`, `Gen.celerity`, `Gen.wavelen` (bridges in `Props/C01.lean`).
-/
namespace WS.Dispersion
open WS

/-- `0.10194` (= 1/g as the double written in the code) -/
def chenK : Rat := (3672775568113187 : Rat) / 36028797018963968

/-- `D = [0, 0.6522, 0.4622, 0, 0.0864, 0.0675]` -/
def chenD : List Rat :=
  [0, (5874495353942075 : Rat) / 9007199254740992, (8326254991082573 : Rat) / 18014398509481984, 0,
   (3112888062438487 : Rat) / 36028797018963968, (607985949695017 : Rat) / 9007199254740992]

/-- Horner evaluation `c₀ + x (c₁ + x (c₂ + …))` -/
def horner : List Rat → Rat → Rat
  | [], _ => 0
  | c :: cs, x => c + x * horner cs x

/-- the explicit sum `Σ_k c_k x^(k+s)` -/
def powSum : List Rat → Nat → Rat → Rat
  | [], _, _ => 0
  | c :: cs, s, x => c * x ^ s + powSum cs (s + 1) x

/-- `k0h = 0.10194 · ω² · h`, `ω = 2πf` -/
def k0h (pi f h : Rat) : Rat := chenK * (2 * pi * f) * (2 * pi * f) * h

/-- `a = 1 + Σ_{i=1..5} D[i]·k0h^i` (the loop `for i in range(1, 6)` never reads `D[0]`), Horner form -/
def polyA (x : Rat) : Rat := 1 + x * horner (chenD.drop 1) x

/-- `wavenuma(freq, depth) = k0h·sqrt(1 + 1/(k0h·a)) / depth` -/
def wavenuma (pi : Rat) (sqrt : Rat → Rat) (f h : Rat) : Rat :=
  k0h pi f h * sqrt (1 + 1 / (k0h pi f h * polyA (k0h pi f h))) / h

/-- `celerity(freq, depth)`: `ω/k`, or the deep-water `1.56/f` when no depth is given -/
def celerity (pi : Rat) (sqrt : Rat → Rat) (f : Rat) : Option Rat → Rat
  | none => Consts.deep / f
  | some h => 2 * pi * f / wavenuma pi sqrt f h

/-- `wavelen(freq, depth)`: `2π/k`, or the deep-water `1.56/f²` -/
def wavelen (pi : Rat) (sqrt : Rat → Rat) (f : Rat) : Option Rat → Rat
  | none => Consts.deep / f ^ 2
  | some h => 2 * pi / wavenuma pi sqrt f h

end WS.Dispersion

import WsVerif.Model.Basic
/-!
# Run-time vocabulary of the selection translator (`harness/translate_sel.py` → `Gen/SelKernels.lean`)

Mathlib-free, executable.  Every numpy / Python idiom the translator accepts in `wavespectra/core/select.py` is mapped
to exactly one definition of this file; the generated kernels contain nothing else but these names, `WS.absR/minR/maxR/
pmod/getR` of `Model/Basic.lean`, `List` functions of core, `Except WS.Err` and arithmetic.  The *reading* of each idiom
is what is trusted; everything after it is proved (`Lemmas/SelBridge.lean`, `Props/C14sel.lean`).

Conventions
* a float is `Rat` (coordinates, tolerances and distances are finite; `np.sqrt` is the ORACLE parameter `sqrt : Rat → Rat`
  of the generated kernels, as in `Model/Select.lean`); a 1-D float array is `List Rat`, an index array `List Nat`, a
  Boolean mask `List Bool`.  A scalar against an array broadcasts (`…S` = array∘scalar, `s…V` = scalar∘array);
  array∘array is `List.zipWith` (numpy raises on a length mismatch, the reading truncates).
* reading outside an array gives `0` (Python raises `IndexError`); `min()/max()` of an empty array give `0` (numpy raises
  `ValueError`: the generated `selInit` raises it explicitly before any reduction is reached).
* `np.argsort` — numpy's default `kind="quicksort"` is NOT stable, the order of equal keys is unspecified.  The reading
  is the STABLE ascending order (equal distances in index order), which is the order `Model/Select.lean` (`nearer`:
  `List.mergeSort` on `(distance, index)` by distance) uses; the differential run compares ties as sets.
* `dist.argmin()` is the FIRST index of the minimum (numpy documents this).
* an xarray object built as `c * dset.isel(site=i, drop=True)`, `+=`-ed and `*=`-ed is read as the formal linear
  combination `LC = List (Nat × Rat)` of station indices (term order = order of the additions);
  `dset.isel(site=0, drop=True) * np.nan` (the all-NaN mask) is `none : Option LC`.
-/
namespace WS.Sel

/-! ## element-wise arithmetic -/

def vaddS (v : List Rat) (s : Rat) : List Rat := v.map fun x => x + s
def vsubS (v : List Rat) (s : Rat) : List Rat := v.map fun x => x - s
def vmulS (v : List Rat) (s : Rat) : List Rat := v.map fun x => x * s
def vdivS (v : List Rat) (s : Rat) : List Rat := v.map fun x => x / s
/-- `v % s` (Python float `%`, positive modulus) -/
def vmodS (v : List Rat) (s : Rat) : List Rat := v.map fun x => WS.pmod x s
def saddV (s : Rat) (v : List Rat) : List Rat := v.map fun x => s + x
def ssubV (s : Rat) (v : List Rat) : List Rat := v.map fun x => s - x
def smulV (s : Rat) (v : List Rat) : List Rat := v.map fun x => s * x
def sdivV (s : Rat) (v : List Rat) : List Rat := v.map fun x => s / x
def vadd (a b : List Rat) : List Rat := List.zipWith (· + ·) a b
def vsub (a b : List Rat) : List Rat := List.zipWith (· - ·) a b
def vmul (a b : List Rat) : List Rat := List.zipWith (· * ·) a b
def vdiv (a b : List Rat) : List Rat := List.zipWith (· / ·) a b
/-- `v ** n` with a literal natural `n` -/
def vpow (v : List Rat) (n : Nat) : List Rat := v.map fun x => x ^ n
def vneg (v : List Rat) : List Rat := v.map fun x => -x
/-- `np.abs(v)` -/
def vabs (v : List Rat) : List Rat := v.map WS.absR
/-- `np.minimum(a, b)` / `np.maximum(a, b)` on two arrays -/
def vmin (a b : List Rat) : List Rat := List.zipWith WS.minR a b
def vmax (a b : List Rat) : List Rat := List.zipWith WS.maxR a b
/-- a ufunc given as an oracle (`np.sqrt`) applied to an array -/
def vmap (f : Rat → Rat) (v : List Rat) : List Rat := v.map f

/-! ## comparisons array ∘ scalar → mask, mask algebra -/

def vltS (v : List Rat) (s : Rat) : List Bool := v.map fun x => decide (x < s)
def vleS (v : List Rat) (s : Rat) : List Bool := v.map fun x => decide (x ≤ s)
def vgtS (v : List Rat) (s : Rat) : List Bool := v.map fun x => decide (x > s)
def vgeS (v : List Rat) (s : Rat) : List Bool := v.map fun x => decide (x ≥ s)
def veqS (v : List Rat) (s : Rat) : List Bool := v.map fun x => decide (x = s)
def vneS (v : List Rat) (s : Rat) : List Bool := v.map fun x => decide (x ≠ s)
/-- `m1 & m2`, `m1 | m2`, `~m` -/
def band (a b : List Bool) : List Bool := List.zipWith (· && ·) a b
def bor (a b : List Bool) : List Bool := List.zipWith (· || ·) a b
def bnot (a : List Bool) : List Bool := a.map fun x => !x

/-! ## masks and index arrays -/

/-- Boolean-mask indexing `a[m]`: the selected entries, in order -/
def maskGet {α : Type} (a : List α) (m : List Bool) : List α := ((a.zip m).filter fun p => p.2).map fun p => p.1

/-- masked assignment `a[m] = vals` (`vals` has one entry per `True` of the mask; numpy raises otherwise, the
    reading leaves the remaining entries alone) -/
def maskSet : List Rat → List Bool → List Rat → List Rat
  | [], _, _ => []
  | a :: as, [], _ => a :: as
  | a :: as, false :: ms, vs => a :: maskSet as ms vs
  | a :: as, true :: _, [] => a :: as
  | _ :: as, true :: ms, v :: vs => v :: maskSet as ms vs

/-- `np.where(m)[0]`: the indices of the `True` entries, ascending -/
def whereTrue (m : List Bool) : List Nat := (m.zipIdx.filter fun p => p.1).map fun p => p.2

/-- fancy indexing `a[ids]` -/
def take (a : List Rat) (ids : List Nat) : List Rat := ids.map fun i => a.getD i 0

/-- `ids[k]` on an index array -/
def getN (a : List Nat) (i : Nat) : Nat := a.getD i 0

/-- Python `xs[:m]` (`m = None`: everything; a negative `m` counts from the end) -/
def pySlice {α : Type} (xs : List α) : Option Int → List α
  | none => xs
  | some m => if m ≥ 0 then xs.take m.toNat else xs.take (xs.length - (-m).toNat)

/-! ## reductions, `argmin`, `argsort` -/

/-- `a.min()`, `min(a)` / `a.max()`, `max(a)` of a non-empty array (`0` on `[]`, where numpy raises) -/
def amin : List Rat → Rat
  | [] => 0
  | x :: xs => WS.minD xs x
def amax : List Rat → Rat
  | [] => 0
  | x :: xs => WS.maxD xs x

/-- left-to-right scan of `argmin`: `best` = smallest value so far, found at `bi`; `i` = current index.  A later
    entry replaces the best only when it is STRICTLY smaller: the first occurrence of the minimum wins. -/
def argminGo (best : Rat) (bi i : Nat) : List Rat → Nat
  | [] => bi
  | y :: ys => if y < best then argminGo y i (i + 1) ys else argminGo best bi (i + 1) ys

/-- `a.argmin()` (0 on `[]`, where numpy raises) -/
def argmin : List Rat → Nat
  | [] => 0
  | x :: xs => argminGo x 0 1 xs

/-- `np.argsort(a)`: indices in ascending order of value, **equal values in index order** (stable; see the header) -/
def argsort (a : List Rat) : List Nat := (a.zipIdx.mergeSort fun p q => decide (p.1 ≤ q.1)).map fun p => p.2

/-- `l.pop(0)` on a Python list: the value (`0` on `[]`, where Python raises) — the list continues as `List.tail` -/
def headN (l : List Nat) : Nat := l.headD 0
def headR (l : List Rat) : Rat := l.headD 0

/-! ## formal linear combinations of stations (xarray arithmetic on `dset.isel(site=i, drop=True)`) -/

abbrev LC := List (Nat × Rat)

/-- `c * dset.isel(site=i, drop=True)` -/
def lcTerm (c : Rat) (i : Nat) : LC := [(i, c)]
/-- `a += b` -/
def lcAdd (a b : LC) : LC := a ++ b
/-- `a *= s` -/
def lcScale (a : LC) (s : Rat) : LC := a.map fun p => (p.1, p.2 * s)

end WS.Sel

import WsVerif.Model.Select
/-!
Model of station selection AFTER the two candidate repairs (kept apart from `Model/Select.lean`, which
mirrors the tree as it is):

* distance: the longitude difference is taken the short way round
  (`dlon = abs(a % 360 - b % 360); dlon = minimum(dlon, 360 - dlon)`), i.e. `ld := ldShort`;
* `sel_bbox`: the box is `[min(lons) − tol, max(lons) + tol]` in the query's own numbers and a station is
  inside iff `(lon − minlon) % 360 ≤ maxlon − minlon` (the wrapped branch disappears).

Switching the framework to the repaired code = use these definitions in `Ops/Select.lean`
(`fixdist=1` / `fixbbox=1` already select them) and read the `Fixed` section of `Props/C14.lean`.
-/
namespace WS.Select
open WS

/-- `sel_nearest` with the repaired distance -/
def selNearestIdsFixed (sq : Rat → Rat) := selNearestIds sq ldShort
/-- `sel_idw` with the repaired distance -/
def selIdwFixed (sq : Rat → Rat) := selIdw sq ldShort

/-- repaired `sel_bbox` station indices -/
def selBboxIdsRawFixed (dl dla ql qla : Vec) (tol : Rat) : List Nat :=
  let minlon := arrMin ql - tol
  let minlat := arrMin qla - tol
  let maxlon := arrMax ql + tol
  let maxlat := arrMax qla + tol
  whereIdx dl dla fun lon lat =>
    decide (mod360 (lon - minlon) ≤ maxlon - minlon) && decide (lat ≥ minlat) && decide (lat ≤ maxlat)

def selBboxIdsFixed (dl dla ql qla : Vec) (tol : Rat) : Except Err (List Nat) := do
  validate dl ql qla
  let ids := selBboxIdsRawFixed dl dla ql qla tol
  if ids = [] then .error .valueError else .ok ids

end WS.Select

import WsVerif.Model.Basic
/-!
Vocabulary of the split translator (`harness/translate_spl.py` → `Gen/SplKernels.lean`): one definition per
accepted Python / xarray idiom = the trusted reading of that idiom.  Mathlib-free.

A kernel is generated PER BIN: `freq`, `dir` are the labels of one spectral bin and `x` its energy density; a
partitioning method returns the list of the values this bin has in `part = 0, 1, …` (the order of the list handed
to `xr.concat(..., dim="part")`).
-/
namespace WS.Spl
open WS

/-- `ds.where(mask)` at one bin, after the final `.fillna(fill)`: `where` puts NaN where the mask is false and the
    only NaNs of a (NaN-free) input are those -/
def whereFill (fill : Rat) (m : Bool) (x : Rat) : Rat := if m then x else fill

/-- a box dictionary `{key: None | number}` in insertion order -/
abbrev Dict := List (String × Option Rat)

/-- `d.get(key, dflt)`: the stored value (`None` included) or the default for an absent key -/
def dictGet (d : Dict) (key : String) (dflt : Rat) : Option Rat :=
  match d.find? (fun p => p.1 == key) with
  | some p => p.2
  | none => some dflt

/-- Python `a or b` on an optional number: `None` and `0` are falsy -/
def orElse (a : Option Rat) (b : Rat) : Rat :=
  match a with
  | some v => if v = 0 then b else v
  | none => b

/-- Python truthiness of an optional number -/
def truthy : Option Rat → Bool
  | some v => decide (v ≠ 0)
  | none => false

/-- the number inside an optional argument, read only under an `is not None` guard (the translator checks the guard) -/
def oget (o : Option Rat) : Rat := o.getD 0

/-- `float(a.min())` / `float(a.max())` of a 1-D coordinate (0 for an empty one, where numpy raises) -/
def amin : List Rat → Rat
  | [] => 0
  | x :: xs => minD xs x
def amax : List Rat → Rat
  | [] => 0
  | x :: xs => maxD xs x

/-- `a[0]`, `a[-1]` of a 1-D coordinate; the translator emits the `IndexError` guard for an empty one separately -/
def first (l : List Rat) : Rat := l.headD 0
def last (l : List Rat) : Rat := l.getLastD 0

/-- `itertools.combinations(l, 2)`: pairs in lexicographic index order -/
def combinations2 {α : Type} : List α → List (α × α)
  | [] => []
  | x :: xs => xs.map (fun y => (x, y)) ++ combinations2 xs

/-- membership in the label slice `.sel({dim: slice(lo, hi)})` on a sorted index: both ends inclusive, `None` = open -/
def inSlice (lo hi : Option Rat) (x : Rat) : Bool :=
  (match lo with | some a => decide (a ≤ x) | none => true) &&
  (match hi with | some b => decide (x ≤ b) | none => true)

/-- `sortby(dim)`: stable argsort of the labels (insertion sort, equal labels keep stored order) -/
def insIdx (d : List Rat) (a : Nat) : List Nat → List Nat
  | [] => [a]
  | b :: l => if getR d a ≤ getR d b then a :: b :: l else b :: insIdx d a l
def sortIdx (d : List Rat) : List Nat := (List.range d.length).foldr (insIdx d) []

/-- insertion of `x` into a strictly increasing list unless already present -/
def insertU (x : Rat) : List Rat → List Rat
  | [] => [x]
  | y :: l => if x < y then x :: y :: l else if x = y then y :: l else y :: insertU x l

/-- `sorted(set(a).union(b))` -/
def sortedUnion (a b : List Rat) : List Rat := (a ++ b).foldl (fun acc x => insertU x acc) []

end WS.Spl

import WsVerif.Model.Basic
/-! Constants of the *property statements* (exact rational value of the corresponding double).
    The translator regenerates the code's literals into `Gen/Lits.lean`; bridging theorems in
    `Props/` identify the two, so a changed literal in the repository breaks a proof obligation. -/
namespace WS.Consts
/-- 0.333 Hz tail threshold -/
def thr : Rat := (5998794703657501 : Rat) / 18014398509481984
/-- tail weight 0.25 -/
def quarter : Rat := 1 / 4
/-- deep-water constant 1.56 = g/2π (as the double 1.56) -/
def deep : Rat := (3512807709348987 : Rat) / 2251799813685248
/-- hmax factor without a time axis: 1.86 -/
def hmaxK : Rat := (8376695306909123 : Rat) / 4503599627370496
end WS.Consts

import WsVerif.Model.Basic
/-! Constants of the *property statements* (exact rational value of the corresponding double).
    The translator regenerates the code's literals into `Gen/Lits.lean`; bridging theorems in
    `Props/` identify the two, so a changed literal in the repository breaks a proof obligation. -/
namespace WS.Consts
/-- 0.333 Hz tail threshold -/
def thr : Rat := (5998794703657501 : Rat) / 18014398509481984
/-- tail weight 0.25 -/
def quarter : Rat := 1 / 4
/-- deep-water constant 1.56 = g/2π (as the double 1.56) -/
def deep : Rat := (3512807709348987 : Rat) / 2251799813685248
/-- hmax factor without a time axis: 1.86 -/
def hmaxK : Rat := (8376695306909123 : Rat) / 4503599627370496
/-- gamma: `alpha_pm = 0.3125·hs²·fp⁴`, `E_pm(fp) = alpha_pm·fp⁻⁵·0.2865048` -/
def gammaA : Rat := 5 / 16
def gammaB : Rat := ((2580605821039717 : Rat) / 9007199254740992)
/-- polynomial approximation of gamma, lowest order first (`p[::-1]`) -/
def gammaPoly : List Rat := [((4674721281115827 : Rat) / 36028797018963968), ((5859173927865775 : Rat) / 18014398509481984), ((1443119188183783 : Rat) / 2251799813685248), -((2439742592182793 : Rat) / 18014398509481984), ((5452958428820197 : Rat) / 144115188075855872)]
/-- alpha tail window `(1.35·fp, 2·fp)` -/
def alphaLo : Rat := ((3039929748475085 : Rat) / 2251799813685248)
def alphaHi : Rat := 2
end WS.Consts

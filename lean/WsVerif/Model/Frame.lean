import WsVerif.Model.Basic
/-! Frame model for C17: caller-owned objects are cells; each public operation has a declared write-set over them. -/
namespace WS.Frame

inductive Cell where
  | values | coords | attrs | encoding | dimOrder | windDepth | queryLists | kwargs | baseBuffer
deriving Repr, DecidableEq

def Cell.name : Cell → String
  | .values => "values" | .coords => "coords" | .attrs => "attrs" | .encoding => "encoding" | .dimOrder => "dimOrder"
  | .windDepth => "windDepth" | .queryLists => "queryLists" | .kwargs => "kwargs" | .baseBuffer => "baseBuffer"

/-- caller-visible state: a version counter per cell -/
abbrev CState := Cell → Nat

/-- write-set of an operation on caller-owned cells, code as repaired: nothing is written -/
def writesNew (_op : String) : List Cell := []

/-- code as found: the native readers rescaled the caller's `efth` buffer in place -/
def writesOld (op : String) : List Cell :=
  if op = "from_ww3" ∨ op = "from_ncswan" then [.values, .baseBuffer] else []

def step (writes : String → List Cell) (s : CState) (op : String) : CState :=
  fun c => if c ∈ writes op then s c + 1 else s c

def run (writes : String → List Cell) (s : CState) (ops : List String) : CState := ops.foldl (step writes) s

end WS.Frame

import WsVerif.Model.Basic
import WsVerif.Model.Stats
/-!
Model of the rule-based splits (C09): `core.utils.waveage`, `Partition.ptm4`, `Partition.ptm5`,
`Partition.bbox` (wavespectra/partition/partition.py), `SpecArray.split`, `SpecArray._interp_freq` and the
band limits of `SpecArray.stats` (wavespectra/specarray.py), `regrid_spec(freq=…, maintain_m0=True)` as it is
used by `ptm5` (wavespectra/core/utils.py) — over exact rationals, mirroring what the code does.

Conventions: a spectrum is `e : Mat` (rows = frequencies in *increasing* order, columns = directions in the
*stored* order), `f : Vec` its frequencies, `dirs : Vec` its stored directions.  `sortby("dir")` is the stable
index sort `sortIdx`; every output of a method that sorts is expressed through the picked column indices, so
a bin of the output is always traceable to the stored bin it came from.
-/
namespace WS.Split
open WS

/-- entry `(i, j)` of a matrix, `0` outside -/
def get2 (e : Mat) (i j : Nat) : Rat := getR (e.getD i []) j

/-! ### `sortby("dir")` -/

/-- insert index `a` before the first index whose label is not smaller (keeps equal labels in stored order) -/
def insIdx (d : Vec) (a : Nat) : List Nat → List Nat
  | [] => [a]
  | b :: l => if getR d a ≤ getR d b then a :: b :: l else b :: insIdx d a l

/-- stable argsort of the direction labels (`Dataset.sortby` uses `np.lexsort`, which is stable);
    written as an insertion sort so that it reduces by structural recursion -/
def sortIdx (d : Vec) : List Nat := (List.range d.length).foldr (insIdx d) []

/-- `v[σ]` -/
def pickV (σ : List Nat) (v : Vec) : Vec := σ.map (getR v)
/-- `e[:, σ]` -/
def pickCols (σ : List Nat) (e : Mat) : Mat := e.map (pickV σ)

/-! ### `where(mask).fillna(0)` for a mask that depends on a per-row key and a per-column key -/

def maskRow {β : Type} (p : β → Bool) (ck : List β) (row : Vec) : Vec :=
  List.zipWith (fun t x => if p t then x else 0) ck row

def whereM {α β : Type} (p : α → β → Bool) (rk : List α) (ck : List β) (e : Mat) : Mat :=
  List.zipWith (fun a row => maskRow (p a) ck row) rk e

/-! ### wave-age criterion and PTM4 -/

/-- `waveage`: `celerity(freq, dpt) <= agefac * wspd * cos(D2R*(dir - wdir))`; `c` is the celerity of the
    bin's frequency and `cs` the cosine of the bin's direction relative to the wind (oracle tables) -/
def seaMask (agefac wspd : Rat) (c cs : Rat) : Bool := decide (c ≤ agefac * wspd * cs)

/-- `ptm4`: returns the sorted directions, the wind sea `where(mask)` and the swell `where(~mask)` -/
def ptm4 (cel dirs cosT : Vec) (agefac wspd : Rat) (e : Mat) : Vec × Mat × Mat :=
  let σ := sortIdx dirs
  let e' := pickCols σ e
  let cs := pickV σ cosT
  (pickV σ dirs,
   whereM (seaMask agefac wspd) cel cs e',
   whereM (fun c t => !seaMask agefac wspd c t) cel cs e')

/-! ### bounding boxes -/

/-- one limit of a box dictionary: key absent, key present with `None`, key present with a number -/
inductive Lim where
  | omitted | none | val (v : Rat)
deriving Repr, DecidableEq

/-- `bbox.get(key, dflt) or alt` with Python truthiness (`None` and `0` are falsy) -/
def Lim.get (l : Lim) (dflt alt : Rat) : Rat :=
  match l with
  | .omitted => if dflt = 0 then alt else dflt
  | .none => alt
  | .val v => if v = 0 then alt else v

structure Box where
  fmin : Lim
  fmax : Lim
  dmin : Lim
  dmax : Lim
deriving Repr, DecidableEq

/-- `[fmin, dmin, fmax, dmax]` = `[l, b, r, t]` -/
structure Rect where
  l : Rat
  b : Rat
  r : Rat
  t : Rat
deriving Repr, DecidableEq

def vmin : Vec → Rat
  | [] => 0
  | x :: xs => minD xs x
def vmax : Vec → Rat
  | [] => 0
  | x :: xs => maxD xs x

/-- which extreme of the direction axis an *absent* `dmax` key falls back to in
    `bbox.get("dmax", float(ds.dir.<this>()))`: `true` = `min` (the code as found, typo), `false` = `max`
    (since fix 0288b02).  Tied to the source by `Gen.bboxDefaults` / `C09.bbox_defaults_bridge`. -/
def dmaxAbsentUsesMin : Bool := false

/-- the rectangle the code builds for one box -/
def effRect (fmn fmx dmn dmx : Rat) (bx : Box) : Rect :=
  { l := bx.fmin.get fmn fmn
    b := bx.dmin.get dmn dmn
    r := bx.fmax.get fmx fmx
    t := bx.dmax.get (if dmaxAbsentUsesMin then dmn else dmx) dmx }

/-- the documented rectangle: every limit that is not given is the bound of the spectrum's own axis -/
def Lim.doc (l : Lim) (bound : Rat) : Rat :=
  match l with
  | .val v => v
  | _ => bound

def docRect (fmn fmx dmn dmx : Rat) (bx : Box) : Rect :=
  { l := bx.fmin.doc fmn, b := bx.dmin.doc dmn, r := bx.fmax.doc fmx, t := bx.dmax.doc dmx }

/-- box mask `(freq >= fmin) & (freq <= fmax) & (dir >= dmin) & (dir <= dmax)` -/
def inRect (r : Rect) (x t : Rat) : Bool :=
  decide (r.l ≤ x) && decide (x ≤ r.r) && decide (r.b ≤ t) && decide (t ≤ r.t)

/-- hand twin of `utils.is_overlap` (the regenerated `Gen.isOverlap` is bridged to it in `Props/C09`) -/
def overlap (r1 r2 : Rect) : Bool :=
  if decide (r1.r ≤ r2.l) || decide (r2.r ≤ r1.l) then false else
  if decide (r1.t ≤ r2.b) || decide (r2.t ≤ r1.b) then false else true

/-- `any(is_overlap(a, b) for a, b in combinations(rectangles, 2))` -/
def anyOverlap : List Rect → Bool
  | [] => false
  | r :: rs => rs.any (overlap r) || anyOverlap rs

def inAny (rects : List Rect) (x t : Rat) : Bool := rects.any fun r => inRect r x t

/-- the partitions of `bbox` for given rectangles: one per box, then the complement -/
def bboxParts (rects : List Rect) (f d : Vec) (e : Mat) : List Mat :=
  rects.map (fun r => whereM (inRect r) f d e) ++ [whereM (fun x t => !inAny rects x t) f d e]

def rectsOf (f dirs : Vec) (boxes : List Box) : List Rect :=
  boxes.map (effRect (vmin f) (vmax f) (vmin dirs) (vmax dirs))

/-- `Partition.bbox`: sorted directions and the list of partitions, or `ValueError`.
    (The code also raises `UnboundLocalError` for an empty list of boxes, at the attribute loop; the model
    returns the complement alone there and the check treats the empty list separately.) -/
def bbox (f dirs : Vec) (e : Mat) (boxes : List Box) : Except Err (Vec × List Mat) :=
  let σ := sortIdx dirs
  let rects := rectsOf f dirs boxes
  if rects.any (fun r => decide (r.r ≤ r.l)) then .error .valueError
  else if anyOverlap rects then .error .valueError
  else .ok (pickV σ dirs, bboxParts rects f (pickV σ dirs) (pickCols σ e))

/-! ### `SpecArray.split` -/

/-- the code's `tol = 1e-10` (exact rational of that double; bridged to the regenerated literal in Props/C09) -/
def splitTol : Rat := (7737125245533627 : Rat) / 77371252455336267181195264

/-- Python truthiness of an optional number -/
def truthy : Option Rat → Bool
  | some v => decide (v ≠ 0)
  | none => false

/-- label slice `slice(lo, hi)` on a sorted index: both ends inclusive, `None` = open -/
def inBand (lo hi : Option Rat) (x : Rat) : Bool :=
  (match lo with | some a => decide (a ≤ x) | none => true) &&
  (match hi with | some b => decide (x ≤ b) | none => true)

/-- `np.searchsorted(freq, x)` (side = left) on a sorted list: number of leading elements `< x` -/
def searchsorted (f : Vec) (x : Rat) : Nat := (f.takeWhile (fun y => decide (y < x))).length

/-- the linear interpolation weights of `_interp_freq` applied to two rows -/
def lerpRow (f0 f1 x : Rat) (r0 r1 : Vec) : Vec :=
  List.zipWith (fun a b => (a * (f1 - x) + b * (x - f0)) / (f1 - f0)) r0 r1

/-- `SpecArray._interp_freq(fint)`: `ValueError` unless `freq.min() < fint < freq.max()`, else the row
    `(E[k-1]*(f[k]-fint) + E[k]*(fint-f[k-1])) / (f[k]-f[k-1])`, `k = searchsorted(freq, fint)` -/
def interpFreq (f : Vec) (e : Mat) (x : Rat) : Except Err Vec :=
  if !(decide (vmin f < x) && decide (x < vmax f)) then .error .valueError else
  let k := searchsorted f x
  let f0 := getR f (k - 1)
  let f1 := getR f k
  if f1 - f0 = 0 then .error .zeroDivision  -- unreachable for strictly increasing frequencies
  else .ok (lerpRow f0 f1 x (e.getD (k - 1) []) (e.getD k []))

structure SplitOut where
  freq : Vec
  /-- stored column index of every output column -/
  cols : List Nat
  /-- `none` = 1-D spectrum (no direction dimension) -/
  dirs : Option Vec
  e : Mat
deriving Repr

/-- rows kept by `sel(freq=slice(fmin, fmax))`, as (label, row) pairs -/
def bandRows (f : Vec) (e : Mat) (fmin fmax : Option Rat) : List (Rat × Vec) :=
  (List.zip f e).filter fun p => inBand fmin fmax p.1

/-- "Interpolate at fmin": when the label slice is empty (fix 310e6c4) or its first frequency is farther than
    `tol` from `fmin`, the interpolated row is put in front; otherwise nothing -/
def addLow (tol : Rat) (f : Vec) (e : Mat) (fmin : Option Rat) (interp : Bool)
    (rows : List (Rat × Vec)) : Except Err (List (Rat × Vec)) :=
  match interp, fmin with
  | true, some a =>
    match rows with
    | [] => (interpFreq f e a).map fun r => (a, r) :: rows
    | (x, _) :: _ =>
      if tol < absR (x - a) then (interpFreq f e a).map fun r => (a, r) :: rows
      else .ok rows
  | _, _ => .ok rows

/-- "Interpolate at fmax": `IndexError` on an empty selection (`other.freq[-1]`, reachable only without `fmin`),
    nothing when the last kept frequency is within `tol` of `fmax`, else the interpolated row is appended -/
def addHigh (tol : Rat) (f : Vec) (e : Mat) (fmax : Option Rat) (interp : Bool)
    (rows : List (Rat × Vec)) : Except Err (List (Rat × Vec)) :=
  match interp, fmax with
  | true, some b =>
    match rows.getLast? with
    | none => .error .indexError
    | some (x, _) =>
      if tol < absR (x - b) then (interpFreq f e b).map fun r => rows ++ [(b, r)]
      else .ok rows
  | _, _ => .ok rows

/-- column selection of the direction slicing: only when `dmin or dmax` is truthy; then sort by direction
    and keep `dmin ≤ θ ≤ dmax` -/
def dirCols (d : Vec) (dmin dmax : Option Rat) : List Nat :=
  if truthy dmin || truthy dmax then (sortIdx d).filter fun j => inBand dmin dmax (getR d j)
  else List.range d.length

/-- `fmax <= fmin` / `dmax <= dmin` argument check -/
def badOrder (lo hi : Option Rat) : Bool :=
  match lo, hi with
  | some a, some b => decide (b ≤ a)
  | _, _ => false

/-- `SpecArray.split(fmin, fmax, dmin, dmax, interpolate)`; `tol` is the code's `1e-10` -/
def split (tol : Rat) (f : Vec) (dirs : Option Vec) (e : Mat) (fmin fmax dmin dmax : Option Rat)
    (interp : Bool) : Except Err SplitOut :=
  if badOrder fmin fmax then .error .valueError else
  if badOrder dmin dmax then .error .valueError else
  match addLow tol f e fmin interp (bandRows f e fmin fmax) with
  | .error er => .error er
  | .ok rows1 =>
    match addHigh tol f e fmax interp rows1 with
    | .error er => .error er
    | .ok rows2 =>
      match dirs with
      | none => .ok { freq := rows2.map (·.1), cols := [0], dirs := none, e := rows2.map (·.2) }
      | some d =>
        let σ := dirCols d dmin dmax
        .ok { freq := rows2.map (·.1), cols := σ, dirs := some (pickV σ d),
              e := pickCols σ (rows2.map (·.2)) }

/-- `any((fmin, fmax, dmin, dmax))` of `SpecArray.stats` -/
def anyTruthy (a b c d : Option Rat) : Bool := truthy a || truthy b || truthy c || truthy d

/-- the spectrum `SpecArray.stats(…, fmin, fmax, dmin, dmax)` hands to the statistics -/
def statsInput (tol : Rat) (f : Vec) (dirs : Option Vec) (e : Mat) (fmin fmax dmin dmax : Option Rat) :
    Except Err SplitOut :=
  if anyTruthy fmin fmax dmin dmax then split tol f dirs e fmin fmax dmin dmax true
  else .ok { freq := f, cols := List.range ((dirs.getD [0]).length), dirs := dirs, e := e }

/-- a statistic called through `stats(…, limits)` -/
def statsBand {α : Type} (g : SplitOut → α) (tol : Rat) (f : Vec) (dirs : Option Vec) (e : Mat)
    (fmin fmax dmin dmax : Option Rat) : Except Err α :=
  (statsInput tol f dirs e fmin fmax dmin dmax).map g

/-! ### PTM5 (frequency cut-off; `regrid_spec` inserts the cut-off when it is not a grid frequency) -/

def zeroRow (e : Mat) : Vec := (e.headD []).map fun _ => 0

/-- frequency interpolation of `regrid_spec` at one new frequency `x`: linear between the neighbouring
    rows; linear to a zero row at `f = 0` below the first frequency; zero above the last (and below 0) -/
def interpAt (f : Vec) (e : Mat) (x : Rat) : Vec :=
  let k := searchsorted f x
  if k = 0 then
    -- x ≤ f[0]
    if x = getR f 0 then e.headD []
    else if x < 0 ∨ getR f 0 = 0 then zeroRow e
    else lerpRow 0 (getR f 0) x (zeroRow e) (e.headD [])
  else if f.length ≤ k then zeroRow e
  else if getR f k - getR f (k - 1) = 0 then zeroRow e  -- unreachable for strictly increasing frequencies
  else lerpRow (getR f (k - 1)) (getR f k) x (e.getD (k - 1) []) (e.getD k [])

/-- the spectrum before masking and before the variance factor:
    `(freq', dirs', E', regridded?)`.  On a grid frequency (or with `interpolate=False`): the input sorted
    by direction.  Otherwise `regrid_spec(self.dset, freq=sorted(set(freq) ∪ {fcut}))`: directions stay in
    the stored order and one interpolated row is inserted. -/
def ptm5Base (f dirs : Vec) (e : Mat) (fcut : Rat) (interp : Bool) : Vec × Vec × Mat × Bool :=
  if interp && !(f.contains fcut) then
    let k := searchsorted f fcut
    (f.take k ++ fcut :: f.drop k, dirs, e.take k ++ interpAt f e fcut :: e.drop k, true)
  else
    let σ := sortIdx dirs
    (f, pickV σ dirs, pickCols σ e, false)

/-- radicand of `hs()` of a 2-D spectrum (tail rule included) -/
def hsOf (thr quarter : Rat) (f dirs : Vec) (e : Mat) : Rat :=
  Stats.hsE thr quarter true f (Stats.oned (Stats.dd (some dirs)) e)

/-- `maintain_m0`: `scale = hs(in)**2 / hs(out)**2` (`none` = NaN when the regridded spectrum has no
    energy); `1` when nothing was regridded -/
def ptm5Factor (thr quarter : Rat) (f dirs : Vec) (e : Mat) (fcut : Rat) (interp : Bool) : Option Rat :=
  let (f', d', e', rg) := ptm5Base f dirs e fcut interp
  if rg then divOpt (hsOf thr quarter f dirs e) (hsOf thr quarter f' d' e') else some 1

def scaleM (k : Rat) (e : Mat) : Mat := e.map (scaleV k)

/-- `ptm5`: `(freq', dirs', sea = where(freq >= fcut), swell = where(freq <= fcut))`; a NaN factor
    (all-zero spectrum) turns everything into NaN, which `fillna(0.0)` then zeroes -/
def ptm5 (thr quarter : Rat) (f dirs : Vec) (e : Mat) (fcut : Rat) (interp : Bool) : Vec × Vec × Mat × Mat :=
  let (f', d', e', _) := ptm5Base f dirs e fcut interp
  let s := match ptm5Factor thr quarter f dirs e fcut interp with
    | some k => scaleM k e'
    | none => scaleM 0 e'
  (f', d', whereM (fun x (_ : Rat) => decide (fcut ≤ x)) f' d' s,
           whereM (fun x (_ : Rat) => decide (x ≤ fcut)) f' d' s)

end WS.Split

import WsVerif.Model.Track
/-!
# `np_track_partitions` / `match_consecutive_partitions` on their numpy arguments — Mathlib-free, executable

`Model/Track.lean` models the tracking on abstract inputs (slots, distance matrices, `Match`, `Option Nat` ids).
This file adds the thin data layer the source functions actually have — the sea threshold `dfp_wsea`, the time step
`dt`, the per-step thresholds, the integer coding of the results (`-999`, `-888`, index / identifier) — so that the
regenerated kernels of `Gen/TrackKernels.lean` can be identified with the model on the *same arguments and the same
results* (`Props/C19trk.lean`).

2-D arguments `(part, time)` are given as the list of their time columns (`fp.getD t []` = `fp[:, t]`), the
convention of `Model/TrkRt.lean`; results are the list of the columns of `part_ids` (one per time step).
-/
namespace WS.Track

/-- the integer stored in `matches` -/
def matchCode : Match → Int
  | .empty => emptyMarker
  | .fresh => unmatchedMarker
  | .prev p => (p : Int)

/-- the integer stored in `part_ids` -/
def idCode : Option Nat → Int
  | none => emptyMarker
  | some k => (k : Int)

/-! ## `dfp_wsea` (Ewans & Kibblewhite fetch-limited growth): `pow` is an oracle for `x ** y` with a non-integer `y` -/

/-- `15.8` -/
def wseaCoef : Rat := (4447304632028365 : Rat) / 281474976710656
/-- `0.57` -/
def wseaExpU : Rat := (5134103575202365 : Rat) / 9007199254740992
/-- `0.43` -/
def wseaExpT : Rat := (7746191359077253 : Rat) / 18014398509481984

/-- `tmp = 15.8·(g/wspd)^0.57;  t0 = (fp/tmp)^(-1/0.43);  scaling·tmp·(t0 + dt)^(-0.43) − fp` -/
def dfpWsea (pow : Rat → Rat → Rat) (g wspd fp dt scaling : Rat) : Rat :=
  let tmp := wseaCoef * pow (g / wspd) wseaExpU
  let t0 := pow (fp / tmp) (-1 / wseaExpT)
  scaling * tmp * pow (t0 + dt) (-wseaExpT) - fp

/-- default `scaling` of `dfp_wsea` (`1.0`) and `dfp_sea_scaling` of `np_track_partitions` (`1`) -/
def seaScalingDefault : Rat := 1
/-- default `ddpm_sea_max` (degrees) -/
def ddpmSeaDefault : Rat := 30
/-- default `ddpm_swell_max` (degrees) -/
def ddpmSwellDefault : Rat := 20

/-- `dfp_wsea` applied to array elements: NaN wind speed or NaN sea peak frequency gives NaN -/
def seaThr (pow : Rat → Rat → Rat) (g dt scaling : Rat) : Option Rat → Option Rat → Option Rat
  | some w, some f => some (dfpWsea pow g w f dt scaling)
  | _, _ => none

/-- `dt`: difference of the first two time stamps (seconds) -/
def dtOf : List Rat → Rat
  | a :: b :: _ => b - a
  | _ => 0

/-- `match_consecutive_partitions(fp, dpm, …)` with `fp`, `dpm` of shape `(P, 2)` given as `[previous, current]` -/
def npMatch (fp dpm : List (List (Option Rat))) (sea : Option Rat) (swell ddSea ddSwell : Rat) : List Int :=
  (matchData ⟨sea, swell, ddSea, ddSwell⟩ ⟨fp.getD 0 [], dpm.getD 0 []⟩ ⟨fp.getD 1 [], dpm.getD 1 []⟩).map matchCode

/-- thresholds used when step `i + 1` is matched against step `i`: the sea threshold is `dfp_sea_max[i]`, computed
    from the wind speed and the sea-partition (`part = 0`) peak frequency of step `i` -/
def thrAt (pow : Rat → Rat → Rat) (pi g : Rat) (times : List Rat) (fp : List (List (Option Rat)))
    (wspd : List (Option Rat)) (ddSea ddSwell scaling distance : Rat) (i : Nat) : Thr :=
  ⟨seaThr pow g (dtOf times) scaling (wspd.getD i none) ((fp.getD i []).getD 0 none),
   dfpSwell pi g (dtOf times) distance, ddSea, ddSwell⟩

/-- statistics of time step `t` -/
def stepAt (fp dpm : List (List (Option Rat))) (t : Nat) : Step := ⟨fp.getD t [], dpm.getD t []⟩

/-- `np_track_partitions(times, fp, dpm, wspd, ddpm_sea_max, ddpm_swell_max, dfp_sea_scaling,
    dfp_swell_source_distance)`: the columns of `part_ids` and `part_id` -/
def npTrack (pow : Rat → Rat → Rat) (pi g : Rat) (times : List Rat) (fp dpm : List (List (Option Rat)))
    (wspd : List (Option Rat)) (ddSea ddSwell scaling distance : Rat) : List (List Int) × Int :=
  let r := trackData (stepAt fp dpm 0)
    ((List.range (times.length - 1)).map fun i =>
      (thrAt pow pi g times fp wspd ddSea ddSwell scaling distance i, stepAt fp dpm (i + 1)))
  (r.1.map (·.map idCode), (r.2 : Int))

end WS.Track

import WsVerif.Model.Proto
import WsVerif.Model.Neigh
import WsVerif.Model.Flood
import WsVerif.Model.Specpart
/-! Driver operations for the watershed model (C04, C20 native part; also usable by C03/C07/C18). -/
namespace WS.Ops.Specpart
open WS WS.Proto

def showInts (xs : Array Int) : String := xs.foldl (fun s x => s ++ " " ++ toString x) ""
def b2s (b : Bool) : String := if b then "1" else "0"

/-- `neigh mk mth` → `ok rows=iv L c₀ e… c₁ e… …` (per pixel: count, then the entries in slot order) -/
def opNeigh : P String := do
  let mk ← nat; let mth ← nat
  let mut out : Array Int := #[]
  for n in [0:mk * mth] do
    let r := Neigh.neighLin mk mth n
    out := out.push r.length
    for x in r do out := out.push x
  pure ("ok rows=iv " ++ toString out.size ++ showInts out)

/-- `specpart nk nth ihmax iqfill im nk nth …` → label map + verdict of the ghost trace + flags -/
def opSpecpart : P String := do
  let nk ← nat; let nth ← nat; let ihmax ← nat; let fill ← int
  let g ← imat
  let spec : Array Int := (g.flatten).toArray
  if nk = 0 ∨ nth = 0 ∨ spec.size ≠ nk * nth then throw "bad grid"
  let nb := Neigh.table nk nth
  let r := SP.partition nk nth ihmax nb spec fill true
  let v := SP.verdict nk nth ihmax (Neigh.rows nk nth) r
  pure ("ok " ++ " ".intercalate [
    kv "labels" ("im " ++ toString nk ++ " " ++ toString nth ++ showInts r.labels),
    kv "valid" (b2s v.valid), kv "complete" (b2s v.complete), kv "info" (toString v.info),
    kv "oob" (b2s r.oob), kv "fuel" (b2s r.fuelOut), kv "indok" (b2s v.indOk), kv "labelsok" (b2s v.labelsOk),
    kv "const" (b2s r.const), kv "nsteps" (toString r.trace.size)])

def ops : List (String × P String) := [("neigh", opNeigh), ("specpart", opSpecpart)]

end WS.Ops.Specpart

import WsVerif.Model.Proto
import WsVerif.Model.Regrid
import WsVerif.Model.Consts
/-! Driver operations for regridding / rotation (C08). -/
namespace WS.Ops.Regrid
open WS WS.Proto WS.Regrid

def showOMat (c : Nat) (e : List (List (Option Rat))) : String :=
  "m " ++ toString e.length ++ " " ++ toString c ++
    e.foldl (fun s r => r.foldl (fun s x => s ++ " " ++ showORat x) s) ""

def locCode : Loc → Int
  | .out => 0
  | .nan => 1
  | .seg _ _ => 2

def showCore (thr q : Rat) (f : Vec) (d : Option Vec) (e : Mat) (c : Core) : String :=
  let hsIn := hsOf thr q f d e
  let hsOut := hsOf thr q c.freq c.dir c.vals
  let k := scaleOf hsIn hsOut c.allOK
  let nc := c.colOK.length
  " ".intercalate [
    kv "freq" (showVec c.freq),
    kv "dir" (match c.dir with | some v => showVec v | none => "none"),
    kv "hsIn" (showRat hsIn), kv "hsOut" (showRat hsOut), kv "scale" (showORat k),
    kv "colOK" (showIVec (c.colOK.map fun b => if b then 1 else 0)),
    kv "rowSt" (showIVec (c.rowSt.map locCode)),
    kv "e0" (showOMat nc (finish c false k)),
    kv "e1" (showOMat nc (finish c true k))]

/-- `regrid F D|none E TF|none TD|none` → coordinates, hs radicands, factor, unscaled (`e0`) and scaled (`e1`) output -/
def opRegrid : P String := do
  let f ← vec
  let d ← optVec
  let e ← mat
  let tf ← optVec
  let td ← optVec
  match core f d e tf td with
  | .error er => pure s!"err {er.name}"
  | .ok c => pure ("ok " ++ showCore Consts.thr Consts.quarter f d e c)

/-- `rotate F D E angle` -/
def opRotate : P String := do
  let f ← vec
  let d ← vec
  let e ← mat
  let a ← rat
  let d' := relabel d a
  match core f (some d') e none (some d) with
  | .error er => pure s!"err {er.name}"
  | .ok c => pure ("ok " ++ showCore Consts.thr Consts.quarter f (some d') e c ++ " " ++ kv "relabel" (showVec d'))

def ops : List (String × P String) := [("regrid", opRegrid), ("rotate", opRotate)]

end WS.Ops.Regrid

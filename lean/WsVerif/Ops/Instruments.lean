import WsVerif.Model.Proto
import WsVerif.Model.IO.Instruments
/-! Driver operations for the instrument readers' numeric contract (C13). -/
namespace WS.Ops.Instruments
open WS WS.Proto WS.Instr

def showOMat (c : Nat) (e : List (List (Option Rat))) : String :=
  "m " ++ toString e.length ++ " " ++ toString c ++
    e.foldl (fun s r => r.foldl (fun s x => s ++ " " ++ showORat x) s) ""

def optRows (c : Nat) (rows : List (Option Vec)) : List (List (Option Rat)) :=
  rows.map fun r => match r with
    | some v => v.map some
    | none => List.replicate c none

/-- `none` or a rational -/
def optRat : P (Option Rat) := do
  let t ← tok
  if t == "none" then pure none else do
    let r ← liftM (m := Except String) (parseRatStr t)
    pure (some r)

/-- `instr_cart spotter|datawell pi dd|none smax efs G` -/
def opCart : P String := do
  let mode ← tok
  let pi ← rat
  let dd ← optRat
  let smax ← rat
  let efs ← vec
  let gs ← mat
  let out := if mode == "datawell" then datawellRead pi dd smax efs gs else spotterRead pi dd efs gs
  match out with
  | .oneD s => pure ("ok " ++ " ".intercalate [kv "kind" "1d", kv "e" (showVec s)])
  | .twoD rows =>
    let nd := (gs.headD []).length
    let ddv := dd.getD 0
    pure ("ok " ++ " ".intercalate [kv "kind" "2d", kv "e" (showOMat nd (optRows nd rows)),
      kv "oned" (showOVec (rows.map (Option.map (integ ddv))))])

/-- `instr_ndbc history pi dd spden r1printed r2printed C1 C2` -/
def opNdbc : P String := do
  let history ← bool
  let pi ← rat
  let dd ← rat
  let sp ← vec; let r1p ← vec; let r2p ← vec
  let r1 := r1p.map (ndbcR history); let r2 := r2p.map (ndbcR history)
  let c1 ← mat; let c2 ← mat
  let rows := (List.range sp.length).map fun i =>
    ndbcRow pi (getR sp i) (getR r1 i) (getR r2 i) (c1.getD i []) (c2.getD i [])
  let nd := (c1.headD []).length
  pure ("ok " ++ " ".intercalate [kv "e" (showMat nd rows), kv "oned" (showVec (rows.map (integ dd)))])

/-- `instr_ww3 pi nf dirsRad RAW(nd×nf)` -/
def opWw3 : P String := do
  let pi ← rat
  let nf ← nat
  let d ← vec
  let raw ← mat
  pure ("ok " ++ " ".intercalate [kv "dirs" (showVec (d.map (ww3Dir pi))),
    kv "e" (showMat raw.length (ww3Spec pi nf raw))])

/-- `instr_units obscape|xwaves pi RAW` -/
def opUnits : P String := do
  let mode ← tok
  let pi ← rat
  let raw ← mat
  let out := if mode == "xwaves" then raw.map (xwavesRow pi) else obscape pi raw
  pure ("ok " ++ kv "e" (showMat (raw.headD []).length out))

def block : P Block := do
  let t ← tok
  if t == "nodata" then pure .nodata
  else if t == "zero" then pure .zero
  else if t == "factor" then do
    let fac ← rat
    let v ← imat
    pure (.factor fac v)
  else throw s!"bad block {t}"

/-- `instr_swan dirorder cdir energy e2v nf dirs nblocks block*` -/
def opSwan : P String := do
  let dirorder ← bool
  let cdir ← bool
  let energy ← bool
  let e2v ← rat
  let nf ← nat
  let d ← vec
  let nb ← nat
  let blocks ← many nb block
  let d0 := swanDirs0 cdir d
  let dm := swanDirmap dirorder d0
  let uf := swanUnitsFactor e2v energy
  let nd := d.length
  let outs := blocks.map fun b => showOMat nd (decodeBlock nf nd dm uf b)
  let head := [kv "dirs" (showVec (swanDirs dirorder d0)),
    kv "dirmap" (match dm with | some m => showIVec (m.map Int.ofNat) | none => "iv 0")]
  let rec label (i : Nat) : List String → List String
    | [] => []
    | s :: t => kv s!"b{i}" s :: label (i + 1) t
  pure ("ok " ++ " ".intercalate (head ++ label 0 outs))

def fmtOf : String → Except String Fmt
  | "triaxys" => pure .triaxys | "ndbc" => pure .ndbc | "spotter" => pure .spotter
  | "datawell" => pure .datawell | "obscape" => pure .obscape | "ww3station" => pure .ww3station
  | "swan" => pure .swan | "xwaves" => pure .xwaves
  | s => throw s!"bad format {s}"

/-- `instr_order fmt nfiles iv*` : time stamps of the records of each file; payload = global index -/
def opOrder : P String := do
  let f ← tok
  let fmt ← liftM (m := Except String) (fmtOf f)
  let nfiles ← nat
  let files ← many nfiles ivec
  let rec tag (k : Nat) : List (List Int) → List (List (Int × Nat))
    | [] => []
    | f :: t => (f.zipIdx k) :: tag (k + f.length) t
  let out := readerOrder fmt (tag 0 files)
  pure ("ok " ++ " ".intercalate [kv "times" (showIVec (out.map (·.1))),
      kv "idx" (showIVec (out.map fun p => Int.ofNat p.2))])

/-- `instr_triaxys f0 df nf ddir` -/
def opTriaxys : P String := do
  let f0 ← rat; let df ← rat; let nf ← nat; let ddir ← rat
  pure ("ok " ++ " ".intercalate [kv "freqs" (showVec (triaxysFreqs f0 df nf)), kv "dirs" (showVec (triaxysDirs ddir))])

/-- `instr_gridpos nlat nlon ilon ilat` : file location shown at (lat a, lon b), row-major in (a, b); -1 = none -/
def opGridPos : P String := do
  let nlat ← nat; let nlon ← nat
  let ilon ← ivec; let ilat ← ivec
  let locs := List.zipWith (fun x y => (x.toNat, y.toNat)) ilon ilat
  let pos := (List.range nlat).flatMap fun a => (List.range nlon).map fun b =>
    match swanGridAt locs a b with
    | some k => Int.ofNat k
    | none => -1
  pure ("ok " ++ kv "pos" (showIVec pos))

def ops : List (String × P String) :=
  [("instr_cart", opCart), ("instr_ndbc", opNdbc), ("instr_ww3", opWw3), ("instr_units", opUnits),
   ("instr_swan", opSwan), ("instr_order", opOrder), ("instr_triaxys", opTriaxys), ("instr_gridpos", opGridPos)]

end WS.Ops.Instruments

import WsVerif.Model.Proto
import WsVerif.Model.History
/-! Driver op for operation histories (C17, C18): `history n op…` with ops encoded as tokens
    `sd:<name>` `sa:<name>` `ee` `ad` `pt:<mk>:<mth>` `al:<key>` `us` `rd` `ro:<v>` `fo:<what>`; returns, per step, `-` or
    `efthVer:dirVer:attrKnown` under the repaired semantics. -/
namespace WS.Ops.History
open WS WS.Proto WS.History

def parseOp (t : String) : Except String Op :=
  match t.splitOn ":" with
  | ["sd", n] => pure (.statDs n)
  | ["sa", n] => pure (.statDa n)
  | ["ee"] => pure .editEfth
  | ["ad"] => pure .assignDir
  | ["af"] => pure .assignFreq
  | ["pt", a, b] => match a.toNat?, b.toNat? with
    | some x, some y => pure (.partition x y)
    | _, _ => throw "bad pt"
  | ["al", k] => pure (.attrLookup k)
  | ["us"] => pure .unknownStat
  | ["rd"] => pure .read
  | ["fo", w] => pure (.foreign w)
  | ["ro", v] => match v.toNat? with
    | some x => pure (.readObs x)
    | none => throw "bad ro"
  | _ => throw s!"bad op {t}"

def showObs : Option Obs → String
  | none => "-"
  | some (.stat e d f k) => s!"{e}:{d}:{if k then 1 else 0}:{f}"
  | some (.reader v) => s!"r{v}"

def opHistory (old : Bool) : P String := do
  let n ← nat
  let toks ← many n tok
  let ops ← liftM (m := Except String) (toks.mapM parseOp)
  let (_, obs) := run (if old then stepOld else stepNew) {} ops
  pure ("ok " ++ " ".intercalate (obs.map showObs))

def ops : List (String × P String) := [("history", opHistory false), ("history_old", opHistory true)]

end WS.Ops.History

import WsVerif.Model.Proto
import WsVerif.Model.Stats
import WsVerif.Model.Consts
/-! Driver operations for the integrated statistics (C01, C05, C06, C10). -/
namespace WS.Ops.Stats
open WS WS.Proto

def opStats : P String := do
  let thr := Consts.thr; let quarter := Consts.quarter
  let tail ← bool
  let f ← vec
  let dirs ← optVec
  let e ← mat
  let s ← vec; let c ← vec
  let fk ← vec; let k2 ← vec
  let ddv := Stats.dd dirs
  let S := match dirs with
    | some _ => Stats.oned ddv e
    | none => e.map fun r => r.headD 0
  let ones := (dirs.getD []).map fun _ => (1 : Rat)
  let (ds, dc) := Stats.dmVec ddv s c e
  let (a, b, ee) := Stats.dsprABE ddv s c f e
  let out := [
    kv "dd" (showRat ddv),
    kv "df" (showVec (Stats.df f)),
    kv "oned" (showVec S),
    kv "hsE" (showRat (Stats.hsE thr quarter tail f S)),
    kv "m0" (showRat (Stats.momf 0 f S)),
    kv "m1" (showRat (Stats.momf 1 f S)),
    kv "m2" (showRat (Stats.momf 2 f S)),
    kv "m3" (showRat (Stats.momf 3 f S)),
    kv "m4" (showRat (Stats.momf 4 f S)),
    kv "tm01" (showORat (Stats.tm01 f S)),
    kv "tm02Sq" (showORat (Stats.tm02Sq f S)),
    kv "sweSq" (showORat (Stats.sweSq f S)),
    kv "swSq" (showORat (Stats.swSq f S)),
    kv "gwSq" (showORat (Stats.gwSq thr quarter f S)),
    kv "goda" (showORat (Stats.goda f S)),
    kv "mss" (showRat (Stats.mss k2 f S)),
    kv "npHsE" (showRat (Stats.npHsE thr quarter tail f S))] ++
    (match dirs with
     | none => []
     | some d => [
        kv "msin" (showVec (Stats.momdRow ddv s e)),
        kv "mcos" (showVec (Stats.momdRow ddv c e)),
        kv "dmS" (showRat ds), kv "dmC" (showRat dc),
        kv "dsA" (showRat a), kv "dsB" (showRat b), kv "dsE" (showRat ee),
        kv "uss" (showRat (Stats.ussSum ddv fk ones f e)),
        kv "ussx" (showRat (Stats.ussSum ddv fk c f e)),
        kv "ussy" (showRat (Stats.ussSum ddv fk s f e)),
        kv "npDmS" (showRat (Stats.npDmVec d s c e).1),
        kv "npDmC" (showRat (Stats.npDmVec d s c e).2),
        kv "energy" (showMat d.length (Stats.toEnergy ddv f e))])
  pure ("ok " ++ " ".intercalate out)

def ops : List (String × P String) := [("stats", opStats)]

end WS.Ops.Stats

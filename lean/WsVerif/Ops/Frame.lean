import WsVerif.Model.Proto
import WsVerif.Model.Frame
/-! `frame n name…` → per operation its declared write-set (`-` = empty) under the repaired semantics. -/
namespace WS.Ops.Frame
open WS WS.Proto WS.Frame

def showWrites (l : List Cell) : String := if l.isEmpty then "-" else ",".intercalate (l.map Cell.name)

def opFrame (old : Bool) : P String := do
  let n ← nat
  let names ← many n tok
  pure ("ok " ++ " ".intercalate (names.map fun nm => showWrites ((if old then writesOld else writesNew) nm)))

def ops : List (String × P String) := [("frame", opFrame false), ("frame_old", opFrame true)]
end WS.Ops.Frame

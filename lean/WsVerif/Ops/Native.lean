import WsVerif.Model.Proto
import WsVerif.Model.IO.Native
/-! Driver operations for the model-native readers (C12). -/
namespace WS.Ops.Native
open WS WS.Proto WS.Native

/-- `om r c x11 … xrc` row-major, entries rational or `nan` -/
def omat : P (List (List (Option Rat))) := do
  let t ← tok
  if t != "om" then throw s!"expected om got {t}"
  let r ← nat
  let c ← nat
  many r (many c orat)

def ncols (e : Mat) : Nat := (e.headD []).length

/-- `native_dispatch n name₁ … nameₙ` -/
def opDispatch : P String := do
  let n ← nat
  let names ← many n tok
  pure ("ok reader=" ++ (match dispatch dispatchTable names with | some r => r | none => "none"))

def strs : P (List String) := do
  let n ← nat
  many n tok

/-- `native_names reader directional nAll all… nDims dims… spec` -/
def opNames : P String := do
  let reader ← tok; let dirl ← bool
  let all ← strs; let dims ← strs; let spec ← tok
  match outDims reader dirl all dims with
  | .error e => pure s!"err {e.name}"
  | .ok d => pure ("ok spec=" ++ outSpec reader spec ++ " ndims=" ++ toString d.length ++
      d.foldl (fun s x => s ++ " d=" ++ x) "")

/-- `native_ww3 pi F D E` -/
def opWW3 : P String := do
  let pi ← rat; let f ← vec; let d ← vec; let e ← mat
  let (d', e') := fromWW3 pi d e
  pure ("ok " ++ " ".intercalate [kv "dir" (showVec d'), kv "e" (showMat (ncols e') e'), kv "var" (showRat (varConv f d' e'))])

/-- `native_ncswan pi F D E` -/
def opNcswan : P String := do
  let pi ← rat; let f ← vec; let d ← vec; let e ← mat
  let (d', e') := fromNcswan pi d e
  pure ("ok " ++ " ".intercalate [kv "dir" (showVec d'), kv "e" (showMat (ncols e') e'), kv "var" (showRat (varConv f d' e'))])

/-- `native_wwm pi SIG SPDIR AC` -/
def opWWM : P String := do
  let pi ← rat; let sig ← vec; let sd ← vec; let ac ← mat
  let (f', d', e') := fromWWM pi sig sd ac
  pure ("ok " ++ " ".intercalate [kv "freq" (showVec f'), kv "dir" (showVec d'), kv "e" (showMat (ncols e') e'),
    kv "var" (showRat (varConv f' d' e'))])

/-- `native_era5 pi F D P10` (`F`, `D`: the coordinates the reader assigns — defaults or the caller's) -/
def opEra5 : P String := do
  let pi ← rat; let f ← vec; let d ← vec; let p ← omat
  let e' := era5E pi p
  pure ("ok " ++ " ".intercalate [kv "e" (showMat (ncols e') e'), kv "var" (showRat (varConv f d e'))])

def opEra5Grids : P String :=
  pure ("ok " ++ " ".intercalate [kv "freq" (showVec era5DefaultFreqs), kv "dir" (showVec era5DefaultDirs)])

/-- `native_ndbc pi ef r1 r2 C1 C2` -/
def opNdbc : P String := do
  let pi ← rat; let ef ← rat; let r1 ← rat; let r2 ← rat; let c1 ← vec; let c2 ← vec
  pure ("ok " ++ kv "row" (showVec (ndbcRow pi ef r1 r2 c1 c2)))

/-- `native_ndbc_dirs dd` -/
def opNdbcDirs : P String := do
  let dd ← rat
  if dd ≤ 0 then pure "err ValueError" else pure ("ok " ++ kv "dir" (showVec (ndbcDirs dd)))

/-- `native_uv u v a comingFrom` -/
def opUV : P String := do
  let u ← rat; let v ← rat; let a ← rat; let cf ← bool
  pure ("ok " ++ " ".intercalate [kv "mag2" (showRat (uvMag2 u v)), kv "dir" (showRat (uvDir cf a))])

def ops : List (String × P String) := [
  ("native_dispatch", opDispatch), ("native_names", opNames), ("native_ww3", opWW3), ("native_ncswan", opNcswan), ("native_wwm", opWWM),
  ("native_era5", opEra5), ("native_era5_grids", opEra5Grids), ("native_ndbc", opNdbc), ("native_ndbc_dirs", opNdbcDirs),
  ("native_uv", opUV)]

end WS.Ops.Native

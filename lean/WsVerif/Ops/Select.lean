import WsVerif.Model.Proto
import WsVerif.Model.Select
import WsVerif.Model.SelectFixed
/-!
Driver operation `select` (C14).

```
select <method> <fixdist 0/1> <fixbbox 0/1> <qlons v> <qlats v> <dsetLons v> <dsetLats v> <storedLons v>
       <tol> <maxSites int|none> <unique 0/1> <exact 0/1> <missing raise|ignore|other>
       <sqmode exact|approx> <sq m nq ns …>
```
`method ∈ nearest | none | idw | bbox` (anything else: `err ValueError`, as `SpecDataset.sel`).
`dsetLons/dsetLats` are the arrays the selection works on (`dset_lons/dset_lats`), `storedLons` the
dataset's own `lon` variable (reported longitudes come from it).  `sq[j][k]` is the harness-supplied
square root of the model's radicand for query `j`, station `k` (ignored for `bbox`: send `m 0 0`);
every entry is checked: `exact`: `0 ≤ d ∧ d² = radicand`; `approx`: `0 ≤ d ∧ |d² − radicand| ≤ 1e-12·radicand`
(else `err oracle`).

Responses: nearest/none/bbox: `ok ids=iv … lons=v …`;
idw: `ok cnt=iv nq …  ids=iv …  w=v …  lons=v …` (`cnt[j] = 0` ⇒ query `j` masked; ids/weights flattened).
-/
namespace WS.Ops.Select
open WS WS.Proto WS.Select

def parseMissing : String → P Missing
  | "raise" => pure .raise
  | "ignore" => pure .ignore
  | _ => pure .other

def optInt : P (Option Int) := do
  let t ← tok
  if t == "none" then pure none else
    match t.toInt? with
    | some n => pure (some n)
    | none => throw s!"bad int {t}"

def lookupSq (tbl : List (Rat × Rat)) (x : Rat) : Rat :=
  match tbl.find? (fun p => p.1 == x) with
  | some p => p.2
  | none => 0

def sqEntryOk (approx : Bool) (r d : Rat) : Bool :=
  decide (0 ≤ d) && (if approx then decide (absR (d * d - r) * 1000000000000 ≤ r) else decide (d * d = r))

def errStr (e : Err) : String := "err " ++ e.name

def showNats (l : List Nat) : String := showIVec (l.map Int.ofNat)

def opSelect : P String := do
  let method ← tok
  let fixdist ← bool
  let fixbbox ← bool
  let ql ← vec; let qla ← vec
  let dl ← vec; let dla ← vec
  let stored ← vec
  let tol ← rat
  let maxSites ← optInt
  let unique ← bool
  let exact0 ← bool
  let missing ← (do let t ← tok; parseMissing t)
  let sqmode ← tok
  let sqm ← mat
  if dl.length ≠ dla.length ∨ stored.length ≠ dl.length then throw "dataset lon/lat length mismatch"
  if !(["nearest", "none", "idw", "bbox"].contains method) then return errStr .valueError
  match validate dl ql qla with
  | .error e => return errStr e
  | .ok () =>
  if method == "bbox" then
    let r := if fixbbox then selBboxIdsFixed dl dla ql qla tol else selBboxIds dl dla ql qla tol
    match r with
    | .error e => return errStr e
    | .ok ids =>
      return "ok " ++ kv "ids" (showNats ids) ++ " " ++ kv "lons" (showVec (reportStations stored ql dl ids))
  else
    let ld := if fixdist then ldShort else ldCoded
    let lq := lonsQ ql dl
    let rad : List Vec := List.zipWith (fun qlon qlat => distSqRow ld dl dla qlon qlat) lq qla
    if sqm.length ≠ rad.length ∨ (sqm.any fun r => r.length ≠ dl.length) then throw "sq table shape"
    let tbl : List (Rat × Rat) := (List.zipWith List.zip rad sqm).flatten
    if !(tbl.all fun p => sqEntryOk (sqmode == "approx") p.1 p.2) then return "err oracle"
    let sq := lookupSq tbl
    if method == "idw" then
      match selIdw sq ld dl dla ql qla tol maxSites with
      | .error e => return errStr e
      | .ok rows =>
        let cnt := rows.map fun r => match r with | none => 0 | some ws => ws.length
        let flat := (rows.map fun r => r.getD []).flatten
        return "ok " ++ " ".intercalate [
          kv "cnt" (showNats cnt), kv "ids" (showNats (flat.map (·.1))), kv "w" (showVec (flat.map (·.2))),
          kv "lons" (showVec (reportIdw ql dl))]
    else
      let exact := exact0 || method == "none"
      match selNearestIds sq ld dl dla ql qla tol unique exact missing with
      | .error e => return errStr e
      | .ok ids =>
        return "ok " ++ kv "ids" (showNats ids) ++ " " ++ kv "lons" (showVec (reportStations stored ql dl ids))

def ops : List (String × P String) := [("select", opSelect)]

end WS.Ops.Select

import WsVerif.Model.Proto
import WsVerif.Model.Peak
import WsVerif.Model.Consts
/-! Driver operations for the peak statistics (C02, C10, C20). -/
namespace WS.Ops.Peak
open WS WS.Proto WS.Stats WS.Peak

def showOPair : Option (Rat × Rat) → String × String
  | none => ("nan", "nan")
  | some (a, b) => (showRat a, showRat b)

/-- `peakstats F D|none E s c c0 exS exD` -/
def opPeakStats : P String := do
  let f ← vec
  let dirs ← optVec
  let e ← mat
  let s ← vec; let c ← vec
  let c0 ← rat
  let exS ← vec; let exD ← vec
  let ddv := Stats.dd dirs
  let S := match dirs with
    | some _ => Stats.oned ddv e
    | none => e.map fun r => r.headD 0
  let p := peakIdx S
  let fpS := fpSmooth f S
  let fpD := fpDiscrete f S
  let hsE := Stats.hsE Consts.thr Consts.quarter true f S
  let alphaOf (fp : Option Rat) (ex : Vec) : String × String :=
    match fp with
    | none => ("iv 0", "nan")
    | some fpv =>
      let pos := alphaPos Consts.alphaLo Consts.alphaHi fpv f
      (showIVec (pos.map Int.ofNat), showRat (alphaVal c0 pos f S ex))
  let gammaOf (fp : Option Rat) : String × String :=
    match fp with
    | none => ("nan", "nan")
    | some fpv =>
      match gammaRaw Consts.gammaA Consts.gammaB hsE fpv S with
      | none => ("nan", "nan")
      | some g => (showRat g, showRat (polyEval Consts.gammaPoly g))
  let (aPosS, aValS) := alphaOf fpS exS
  let (aPosD, aValD) := alphaOf fpD exD
  let (gS, gpS) := gammaOf fpS
  let (gD, gpD) := gammaOf fpD
  let out := [
    kv "p" (toString p), kv "oned" (showVec S),
    kv "fpS" (showORat fpS), kv "fpD" (showORat fpD),
    kv "alphaPosS" aPosS, kv "alphaS" aValS, kv "alphaPosD" aPosD, kv "alphaD" aValD,
    kv "gammaRawS" gS, kv "gammaPolyS" gpS, kv "gammaRawD" gD, kv "gammaPolyD" gpD,
    kv "maxS" (showRat (maxD S 0)), kv "Sp" (showRat (getR S p))] ++
    (match dirs with
     | none => []
     | some d =>
       let (ms, mc) := showOPair (dpmVec ddv s c e)
       let abe := dpsprABE ddv s c f e
       [kv "dpIdx" (toString (dpIdx d.length e)),
        kv "colsums" (showVec (colSums d.length e)),
        kv "dpmS" ms, kv "dpmC" mc,
        kv "dpsA" (showORat (abe.map (·.1))), kv "dpsB" (showORat (abe.map (·.2.1))),
        kv "dpsE" (showORat (abe.map (·.2.2)))])
  pure ("ok " ++ " ".intercalate out)

/-- `peak v n …` → index -/
def opPeak : P String := do
  let a ← vec
  pure s!"ok p={peakIdx a}"

def ops : List (String × P String) := [("peakstats", opPeakStats), ("peak", opPeak)]

end WS.Ops.Peak

import WsVerif.Model.Proto
import WsVerif.Model.Stats
import WsVerif.Model.Construct
import WsVerif.Model.Consts
/-! Driver operations for the parametric constructors (C15). -/
namespace WS.Ops.Construct
open WS WS.Proto WS.Construct

def optHs : P (Option Rat) := orat

/-- the 1-D shape selected by `kind` from the tables -/
def shapeOf (kind : String) (h : Option Rat) (f t1 t2 t3 phi : Vec) : Except String (Option Vec) :=
  let thr := Consts.thr; let q := Consts.quarter
  match kind with
  | "pm" => pure (pm thr q h f t1 t2)
  | "jonswap" => pure (jonswap thr q h f t1 t2 t3)
  | "tma" => pure (tma thr q h f t1 t2 t3 phi)
  | "gaussian" => match h with
    | some hv => pure (gaussian thr q hv f t1)
    | none => throw "gaussian needs hs"
  | "npjonswap" => pure (npJonswap thr q h f t1 t2 t3)
  | "npgaussian" => pure (some (npGaussian t1))
  | k => throw s!"unknown shape {k}"

/-- `c15shape kind hs|nan F T1 T2 T3 PHI` → spectrum, accessor radicand, twin radicand -/
def opShape : P String := do
  let kind ← tok
  let h ← optHs
  let f ← vec
  let t1 ← vec; let t2 ← vec; let t3 ← vec; let phi ← vec
  match shapeOf kind h f t1 t2 t3 phi with
  | .error e => throw e
  | .ok none => pure "nan"
  | .ok (some E) =>
    pure ("ok " ++ " ".intercalate [
      kv "E" (showVec E),
      kv "hsE" (showRat (Stats.hsE Consts.thr Consts.quarter true f E)),
      kv "npHsE" (showRat (Stats.npHsE Consts.thr Consts.quarter true f E))])

def showOMat (nd : Nat) (rows : List (Option Vec)) : String :=
  showMat nd (rows.map fun r => r.getD [])

/-- `c15spread PI DIRS DMS T` (`DMS`: one mean direction per table row) →
    wrapped distances, normalised rows (`nanrows` lists the NaN rows), row integrals with the
    accessor's `dd` and with `360/n` -/
def opSpread : P String := do
  let pi ← rat
  let dirs ← vec
  let dms ← vec
  let T ← mat
  let nd := dirs.length
  let ddv := Stats.dd (some dirs)
  let G := spreadRows pi T
  let dthM : Mat := dms.map fun m => dirs.map fun d => dth d m
  let nanrows : List Int := (G.zipIdx.filter fun p => p.1.isNone).map fun p => (p.2 : Int)
  let ints : Vec := G.map fun r => ddv * (r.getD []).sum
  let ints360 : Vec := G.map fun r => (r.getD []).sum * (360 / (nd : Rat))
  pure ("ok " ++ " ".intercalate [
    kv "dd" (showRat ddv),
    kv "dth" (showMat nd dthM),
    kv "G" (showMat nd (G.map fun r => r.getD (List.replicate nd 0))),
    kv "nanrows" (showIVec nanrows),
    kv "int" (showVec ints), kv "int360" (showVec ints360)])

/-- `c15asym DM DPM DSPR DPSPR FM FP F` → per-frequency `theta`, `sigma` -/
def opAsym : P String := do
  let dm ← rat; let dpm ← rat; let dspr ← rat; let dpspr ← rat; let fm ← rat; let fp ← rat
  let f ← vec
  pure ("ok " ++ " ".intercalate [
    kv "theta" (showVec (asymTheta K.lo K.hi K.dfmin dm dpm fm fp f)),
    kv "sigma" (showVec (asymSigma K.lo K.hi K.dfmin K.smin dspr dpspr fm fp f))])

/-- `c15construct kind hs|nan F T1 T2 T3 PHI PI DIRS T S C irow icol`
    (`T` has one row — the same spreading for every frequency — or one row per frequency) →
    statistics of the 2-D spectrum through the accessor model, one full row and one full column -/
def opConstruct : P String := do
  let kind ← tok
  let h ← optHs
  let f ← vec
  let t1 ← vec; let t2 ← vec; let t3 ← vec; let phi ← vec
  let pi ← rat
  let dirs ← vec
  let T ← mat
  let s ← vec; let c ← vec
  let irow ← nat; let icol ← nat
  let nd := dirs.length
  match shapeOf kind h f t1 t2 t3 phi with
  | .error e => throw e
  | .ok none => pure "nan"
  | .ok (some shape) =>
    let rows := spreadRows pi T
    let G := if rows.length == 1 then constRows f.length (rows.headD none) else rows
    let e := outerRows nd shape G
    let ddv := Stats.dd (some dirs)
    let S := Stats.oned ddv e
    let (ds, dc) := Stats.dmVec ddv s c e
    let (a, b, ee) := Stats.dsprABE ddv s c f e
    pure ("ok " ++ " ".intercalate [
      kv "shape" (showVec shape),
      kv "oned" (showVec S),
      kv "hsE" (showRat (Stats.hsE Consts.thr Consts.quarter true f S)),
      kv "dmS" (showRat ds), kv "dmC" (showRat dc),
      kv "dsA" (showRat a), kv "dsB" (showRat b), kv "dsE" (showRat ee),
      kv "row" (showVec (e.getD irow [])),
      kv "col" (showVec (e.map fun r => getR r icol))])

def ops : List (String × P String) :=
  [("c15shape", opShape), ("c15spread", opSpread), ("c15asym", opAsym), ("c15construct", opConstruct)]

end WS.Ops.Construct

import WsVerif.Model.Proto
import WsVerif.Model.IO.Swan
import WsVerif.Model.IO.Octopus
import WsVerif.Model.IO.Pack
import WsVerif.Model.IO.WW3
import WsVerif.Model.IO.Funwave
/-! Driver operations for the file-format round trips (C11). -/
namespace WS.Ops.IO
open WS WS.Proto WS.IO

/-- `m r c …` whose entries may be `nan` -/
def omat : P (List (List (Option Rat))) := do
  let t ← tok
  if t != "m" then throw s!"expected m got {t}"
  let r ← nat
  let c ← nat
  many r (many c orat)

def showOMat (c : Nat) (e : List (List (Option Rat))) : String :=
  "m " ++ toString e.length ++ " " ++ toString c ++
    e.foldl (fun s r => r.foldl (fun s x => s ++ " " ++ showORat x) s) ""

def showIMat (c : Nat) (e : List (List Int)) : String :=
  "im " ++ toString e.length ++ " " ++ toString c ++
    e.foldl (fun s r => r.foldl (fun s x => s ++ " " ++ toString x) s) ""

/-- near-tie threshold of the float computation (DESIGN §2.4) -/
def tieEps : Rat := 1 / 1000000

/-- flat indices (row-major) of the entries whose margin is below `tieEps` -/
def ambIdx (margins : List (List Rat)) : List Int :=
  (margins.flatten.zipIdx.filter fun p => p.1 < tieEps).map fun p => (p.2 : Int)

/-- margin of a count `c`, discounted by the float error of computing a count of that size
    (`|c|·10⁻¹⁴`, about 45 ulp): large counts are ambiguous further away from the tie -/
def relMargin (c : Rat) : Rat := tieMargin c - absR c / 100000000000000

/-- `swan_rt E` : one spectrum through `write_spectra` / `read` -/
def opSwanRt : P String := do
  let e ← omat
  let nf := e.length
  let nd := (e.headD []).length
  let b := Swan.encode e
  let d := Swan.decode nf nd b
  match b with
  | .nodata => pure ("ok kind=0 " ++ kv "dec" (showOMat nd d))
  | .zero => pure ("ok kind=1 " ++ kv "dec" (showOMat nd d))
  | .factor fp q =>
    let fac := Swan.facOf e
    let margins := (Swan.vals e).map fun r => r.map fun x => tieMargin (x / fac)
    pure ("ok kind=2 " ++ " ".intercalate [
      kv "fac" (showRat fac), kv "facP" (showRat fp), kv "facMargin" (showRat (sig9Margin fac)),
      kv "q" (showIMat nd q), kv "dec" (showOMat nd d), kv "amb" (showIVec (ambIdx margins))])

/-- `swan_pos asSite xs ys` : labels under which each written block is read back -/
def opSwanPos : P String := do
  let asSite ← bool
  let xs ← vec
  let ys ← vec
  let ks := List.range xs.length
  let lab := ks.map (Swan.readLabel asSite xs ys)
  let fl := ks.map (Swan.readLabelOld asSite xs ys)
  pure ("ok " ++ " ".intercalate [
    kv "grid" (if Swan.isGrid xs ys then "1" else "0"),
    kv "lon" (showVec (lab.map (·.1))), kv "lat" (showVec (lab.map (·.2))),
    kv "olon" (showVec (fl.map (·.1))), kv "olat" (showVec (fl.map (·.2))),
    kv "ulon" (showVec (Swan.sortedUniq xs)), kv "ulat" (showVec (Swan.sortedUniq ys))])

/-- `swan_grid lats lons` : header positions written for a gridded dataset -/
def opSwanGrid : P String := do
  let lats ← vec
  let lons ← vec
  let h := Swan.gridHeader lats lons
  pure ("ok " ++ kv "x" (showVec (h.map (·.1))) ++ " " ++ kv "y" (showVec (h.map (·.2))))

/-- `swan_dirs dirs` : labels after `dirorder=True` and the source column of each output column -/
def opSwanDirs : P String := do
  let d ← vec
  let o := Swan.dirOrder (d.zipIdx)
  pure ("ok " ++ kv "dirs" (showVec (o.map (·.1))) ++ " " ++ kv "map" (showIVec (o.map fun p => (p.2 : Int))))

def opSwanChunks : P String := do
  let T ← nat
  let n ← nat
  pure ("ok " ++ kv "written" (showIVec ((Swan.swanWritten T n).map Int.ofNat)))

def opOctChunks : P String := do
  let T ← nat
  let n ← nat
  pure ("ok " ++ " ".intercalate [
    kv "written" (showIVec ((Octopus.written T n).map Int.ofNat)),
    kv "read" (showIVec ((Octopus.readBack T n).map Int.ofNat)),
    kv "nblocks" (toString (Octopus.blocks T n).length)])

/-- `oct_rt f dirs E` : one time step through `to_octopus` / `read_octopus` -/
def opOctRt : P String := do
  let f ← vec
  let dirs ← vec
  let e ← omat
  let (fP, dP, enP) := Octopus.encode f dirs e
  let d := Octopus.decode fP dP enP
  -- tie margins of the printed energies, in output order
  let dfv := Stats.df f
  let ddv := Stats.dd (some dirs)
  let cols := (List.range dirs.length).map fun j => (getR dirs j, j)
  let sorted := sortBy (fun a b => decide (a.1 ≤ b.1)) cols
  let margins : List (List Rat) := (List.range f.length).map fun i =>
    sorted.map fun c =>
      match ((e.getD i []).getD c.2 none) with
      | none => 1
      | some x => relMargin (x * getR dfv i * ddv * pow10 7)
  let fm := f.map fun x => tieMargin (x * pow10 7)
  pure ("ok " ++ " ".intercalate [
    kv "f" (showVec fP), kv "dirs" (showVec dP), kv "en" (showMat dP.length enP),
    kv "dec" (showOMat dP.length d), kv "amb" (showIVec (ambIdx margins)),
    kv "famb" (showIVec (ambIdx [fm])), kv "map" (showIVec (sorted.map fun c => (c.2 : Int)))])

/-- `pack_rt v` (entries may be `nan`) -/
def opPackRt : P String := do
  let xs ← ovec
  let q := xs.map Pack.enc
  let margins := xs.map fun o => match o with
    | none => (1 : Rat)
    | some v => relMargin (v / Pack.scale)
  pure ("ok " ++ " ".intercalate [
    kv "q" (showIVec q), kv "dec" (showOVec (q.map Pack.dec)),
    kv "inrange" (if q.all Pack.inRange then "1" else "0"),
    kv "amb" (showIVec (ambIdx [margins]))])

/-- `ww3_rt pi dirs E` -/
def opWw3Rt : P String := do
  let pi ← rat
  let dirs ← vec
  let xs ← vec
  let fd := dirs.map WW3.flipDir
  pure ("ok " ++ " ".intercalate [
    kv "fdirs" (showVec fd), kv "rdirs" (showVec (fd.map WW3.flipDir)),
    kv "file" (showVec (xs.map (WW3.enc pi))),
    kv "dec" (showVec (xs.map fun x => WW3.dec pi (WW3.enc pi x)))])

/-- `funwave_a2 f dirs|none E` : squared amplitudes in the stored column order -/
def opFunwaveA2 : P String := do
  let f ← vec
  let dirs ← optVec
  let e ← omat
  let (cs, ddW) := Funwave.writerDirs dirs
  let nd := (e.headD []).length
  pure ("ok " ++ " ".intercalate [
    kv "ddw" (showRat ddW), kv "cart" (showVec cs), kv "a2" (showOMat nd (Funwave.amp2Mat f ddW e))])

/-- `funwave_rt f dirs|none A` : amplitude table (stored column order) through print / read -/
def opFunwaveRt : P String := do
  let f ← vec
  let dirs ← optVec
  let a ← omat
  let (fP, dP, en) := Funwave.roundtrip f dirs a
  let nd := (en.headD []).length
  let margins := a.map fun r => r.map fun o => match o with
    | none => (1 : Rat)
    | some x => relMargin (x * pow10 8)
  pure ("ok " ++ " ".intercalate [
    kv "f" (showVec fP), kv "dirs" (showVec dP), kv "en" (showOMat nd en),
    kv "namb" (toString (ambIdx margins).length)])

def ops : List (String × P String) := [
  ("swan_rt", opSwanRt), ("swan_pos", opSwanPos), ("swan_grid", opSwanGrid), ("swan_dirs", opSwanDirs),
  ("swan_chunks", opSwanChunks), ("oct_chunks", opOctChunks), ("oct_rt", opOctRt), ("pack_rt", opPackRt),
  ("ww3_rt", opWw3Rt), ("funwave_a2", opFunwaveA2), ("funwave_rt", opFunwaveRt)]

end WS.Ops.IO

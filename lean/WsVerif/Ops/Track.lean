import WsVerif.Model.Proto
import WsVerif.Model.Track
/-! Driver operations for partition tracking (C19).

* `track T P <om P T fp> <om P T dpm> <v T-1 dfp_sea_max[it-1]> dfp_swell_max ddpm_sea_max ddpm_swell_max`
  → `ok ids=im P T … n=N`   (`-999` = empty marker)
* `trackmatch P <v P fp_prev> <v P dpm_prev> <v P fp_cur> <v P dpm_cur> dfp_sea dfp_swell ddpm_sea ddpm_swell`
  → `ok m=iv P …`  (`-999` empty, `-888` unmatched, else index of the predecessor)
  and `d=m P P …` is not printed (distances are internal); `w=im P P` prints the within-threshold mask.

`om r c …` is a row-major matrix whose entries are rationals or `nan`.
-/
namespace WS.Ops.Track
open WS WS.Proto WS.Track

def omat : P (List (List (Option Rat))) := do
  let t ← tok
  if t != "om" then throw s!"expected om got {t}"
  let r ← nat
  let c ← nat
  many r (many c orat)

def showIMat (c : Nat) (e : List (List Int)) : String :=
  "im " ++ toString e.length ++ " " ++ toString c ++
    e.foldl (fun s r => r.foldl (fun s x => s ++ " " ++ toString x) s) ""

def idToInt : Option Nat → Int
  | none => emptyMarker
  | some k => (k : Int)

def matchToInt : Match → Int
  | .empty => emptyMarker
  | .fresh => unmatchedMarker
  | .prev p => (p : Int)

/-- column `t` of a (P × T) matrix -/
def col (m : List (List (Option Rat))) (t : Nat) : List (Option Rat) := m.map fun r => r.getD t none

def opTrack : P String := do
  let T ← nat
  let np ← nat
  let fp ← omat
  let dpm ← omat
  let sea ← ovec
  let dfpSwell ← rat
  let ddpmSea ← rat
  let ddpmSwell ← rat
  if T = 0 then throw "T=0" else
  if fp.length ≠ np ∨ dpm.length ≠ np then throw "shape" else
  if sea.length + 1 ≠ T then throw "thresholds length" else
  let stepAt (t : Nat) : Step := ⟨col fp t, col dpm t⟩
  let rest : List (Thr × Step) := (List.range (T - 1)).map fun i =>
    (⟨sea.getD i none, dfpSwell, ddpmSea, ddpmSwell⟩, stepAt (i + 1))
  let (rows, n) := trackData (stepAt 0) rest
  -- rows are per time step; print as (P × T)
  let out : List (List Int) := (List.range np).map fun p => rows.map fun r => idToInt (r.getD p none)
  pure ("ok " ++ kv "ids" (showIMat T out) ++ " " ++ kv "n" (toString n))

def opMatch : P String := do
  let np ← nat
  let fp0 ← ovec; let d0 ← ovec
  let fp1 ← ovec; let d1 ← ovec
  let sea ← orat
  let dfpSwell ← rat
  let ddpmSea ← rat
  let ddpmSwell ← rat
  if fp0.length ≠ np ∨ d0.length ≠ np ∨ fp1.length ≠ np ∨ d1.length ≠ np then throw "shape" else
  let thr : Thr := ⟨sea, dfpSwell, ddpmSea, ddpmSwell⟩
  let prev : Step := ⟨fp0, d0⟩
  let cur : Step := ⟨fp1, d1⟩
  let ms := matchData thr prev cur
  let w : List (List Int) := (List.range np).map fun c => (List.range np).map fun p =>
    if (distOf thr prev cur c p).isSome then 1 else 0
  pure ("ok " ++ kv "m" (showIVec (ms.map matchToInt)) ++ " " ++ kv "w" (showIMat np w))

def ops : List (String × P String) := [("track", opTrack), ("trackmatch", opMatch)]

end WS.Ops.Track

import WsVerif.Model.Proto
import WsVerif.Model.Split
import WsVerif.Model.Peak
import WsVerif.Model.Consts
/-! Driver operations for the rule-based splits (C09). -/
namespace WS.Ops.Split
open WS WS.Proto WS.Split

def tol : Rat := splitTol

def showErr (e : Err) : String := "err " ++ e.name

/-- limit token: `o` = key omitted, `n` = None, otherwise a rational -/
def lim : P Lim := do
  let t ← tok
  if t == "o" then pure .omitted
  else if t == "n" then pure .none
  else do
    let r ← liftM (m := Except String) (parseRatStr t)
    pure (.val r)

def ncols (e : Mat) : Nat := (e.headD []).length

/-- `ptm4 CEL DIRS COS agefac wspd E` -/
def opPtm4 : P String := do
  let cel ← vec
  let dirs ← vec
  let cosT ← vec
  let agefac ← rat
  let wspd ← rat
  let e ← mat
  let (d, sea, swell) := ptm4 cel dirs cosT agefac wspd e
  pure ("ok " ++ " ".intercalate [kv "dirs" (showVec d), kv "sea" (showMat d.length sea),
                                   kv "swell" (showMat d.length swell)])

/-- `ptm5 F DIRS E fcut interp` -/
def opPtm5 : P String := do
  let f ← vec
  let dirs ← vec
  let e ← mat
  let fcut ← rat
  let interp ← bool
  let (f', d', sea, swell) := ptm5 Consts.thr Consts.quarter f dirs e fcut interp
  let (_, _, base, rg) := ptm5Base f dirs e fcut interp
  pure ("ok " ++ " ".intercalate [kv "freq" (showVec f'), kv "dirs" (showVec d'),
    kv "regrid" (if rg then "1" else "0"),
    kv "k" (showORat (ptm5Factor Consts.thr Consts.quarter f dirs e fcut interp)),
    kv "base" (showMat d'.length base),
    kv "sea" (showMat d'.length sea), kv "swell" (showMat d'.length swell)])

/-- `bbox F DIRS E nb (fmin fmax dmin dmax)*` -/
def opBbox : P String := do
  let f ← vec
  let dirs ← vec
  let e ← mat
  let nb ← nat
  let boxes ← many nb (do
    let a ← lim; let b ← lim; let c ← lim; let d ← lim
    pure ({ fmin := a, fmax := b, dmin := c, dmax := d } : Box))
  let rects := rectsOf f dirs boxes
  let rstr := "m " ++ toString rects.length ++ " 4" ++
    rects.foldl (fun s r => s ++ " " ++ showRat r.l ++ " " ++ showRat r.b ++ " " ++ showRat r.r ++ " " ++ showRat r.t) ""
  match bbox f dirs e boxes with
  | .error er => pure (showErr er ++ " " ++ kv "rects" rstr)
  | .ok (d, parts) =>
    let ps := (List.zip (List.range parts.length) parts).map fun (k, p) => kv s!"p{k}" (showMat d.length p)
    pure ("ok " ++ " ".intercalate ([kv "dirs" (showVec d), kv "nparts" (toString parts.length),
                                     kv "rects" rstr] ++ ps))

/-- `split F DIRS|none E fmin fmax dmin dmax interp viaStats S C` (limits: `nan` = None).
    Returns the split spectrum and the statistics of it that the check compares. -/
def opSplit : P String := do
  let f ← vec
  let dirs ← optVec
  let e ← mat
  let fmin ← orat; let fmax ← orat; let dmin ← orat; let dmax ← orat
  let interp ← bool
  let viaStats ← bool
  let s ← vec; let c ← vec
  let res := if viaStats then statsInput tol f dirs e fmin fmax dmin dmax
             else split tol f dirs e fmin fmax dmin dmax interp
  match res with
  | .error er => pure (showErr er)
  | .ok o =>
    let ddv := Stats.dd o.dirs
    let S := match o.dirs with
      | some _ => Stats.oned ddv o.e
      | none => o.e.map fun r => r.headD 0
    let nc := match o.dirs with | some d => d.length | none => 1
    let base := [kv "freq" (showVec o.freq),
      kv "dirs" (match o.dirs with | some d => showVec d | none => "none"),
      kv "cols" (showIVec (o.cols.map Int.ofNat)),
      kv "e" (showMat nc o.e),
      kv "hsE" (showRat (Stats.hsE Consts.thr Consts.quarter true o.freq S)),
      kv "m0" (showRat (Stats.momf 0 o.freq S)),
      kv "m1" (showRat (Stats.momf 1 o.freq S)),
      kv "m2" (showRat (Stats.momf 2 o.freq S)),
      kv "p" (toString (Peak.peakIdx S)),
      kv "fpS" (showORat (Peak.fpSmooth o.freq S)),
      kv "fpD" (showORat (Peak.fpDiscrete o.freq S))]
    let dirStats := match o.dirs with
      | none => []
      | some d =>
        let s' := pickV o.cols s
        let c' := pickV o.cols c
        let (ds, dc) := Stats.dmVec ddv s' c' o.e
        let (a, b, ee) := Stats.dsprABE ddv s' c' o.freq o.e
        [kv "dmS" (showRat ds), kv "dmC" (showRat dc),
         kv "dsA" (showRat a), kv "dsB" (showRat b), kv "dsE" (showRat ee),
         kv "dpIdx" (toString (Peak.dpIdx d.length o.e)),
         kv "colsums" (showVec (colSums d.length o.e))]
    pure ("ok " ++ " ".intercalate (base ++ dirStats))

def ops : List (String × P String) :=
  [("ptm4", opPtm4), ("ptm5", opPtm5), ("bbox", opBbox), ("split", opSplit)]

end WS.Ops.Split

import WsVerif.Model.Proto
import WsVerif.Model.Smooth
/-! Driver operations for smoothing (C16, C05). -/
namespace WS.Ops.Smooth
open WS WS.Proto WS.Smooth

/-- `smooth variant D D32 E fw dw` with `variant` = `code` (the tree as modelled), `0` (labels of the unsorted
    input) or `1` (labels of the sorted copy).  Windows are integers; non-positive odd windows are outside the
    model (the harness does not send them). -/
def opSmooth : P String := do
  let v ← tok
  let variant := if v == "code" then codeSortedLabels else v == "1"
  let dirs ← vec
  let dirs32 ← vec
  let e ← mat
  let fw ← nat
  let dw ← nat
  let lab := labelsOf variant dirs dirs32
  match smoothWith variant dirs dirs32 e fw dw with
  | .error err => pure s!"err {err.name}"
  | .ok (d, out) =>
    let circ := isCircular lab
    let w := min dw dirs.length
    let lab2 := if circ then padLabels w lab else lab
    pure ("ok " ++ " ".intercalate [
      kv "dirs" (showVec d), kv "out" (showMat d.length out),
      kv "circ" (if circ then "1" else "0"),
      kv "sel" (if lab2 = dirs then "0" else "1"),
      kv "perm" (showIVec ((sortPerm dirs).map Int.ofNat))])

def ops : List (String × P String) := [("smooth", opSmooth)]

end WS.Ops.Smooth

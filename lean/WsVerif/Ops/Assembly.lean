import WsVerif.Model.Proto
import WsVerif.Model.Assembly
/-! Driver operation for the watershed partition assembly (C03). -/
namespace WS.Ops.Assembly
open WS WS.Proto WS.Assembly

/-- per bin: index of the (first) partition whose assignment mask holds there, `-1` if none -/
def assignOf (parts : List Part) (n : Nat) : List Int :=
  let ms : Array (Array Bool) := parts.toArray.map (·.mask.toArray)
  (List.range n).map fun i =>
    match (List.range ms.size).find? (fun j => (ms[j]!).getD i false) with
    | some j => (j : Int)
    | none => -1

/-- no bin lies in two assignment masks -/
def disjointB (parts : List Part) (n : Nat) : Bool :=
  let ms : Array (Array Bool) := parts.toArray.map (·.mask.toArray)
  (List.range n).all fun i => ((List.range ms.size).filter (fun j => (ms[j]!).getD i false)).length ≤ 1

/-- every partition's values are `where(mask, E, 0)` and the mask covers the grid -/
def consistentB (bins : List Bin) (parts : List Part) : Bool :=
  parts.all fun p => p.mask.length == bins.length &&
    p.vals == List.zipWith (fun m (b : Bin) => if m then b.e else 0) p.mask bins

def optNat : P (Option Nat) := do
  let t ← tok
  if t == "none" then pure none else
    match t.toNat? with
    | some n => pure (some n)
    | none => throw s!"bad count {t}"

/-- `assemble method F D E W T wscut count`
    method 1|2|3; `E` m nf nd; `W` im nf nd (labels ≥ 0); `T` im nf nd (0/1 wind-sea mask); count nat|none.
    Response: `nparts`, `nout`, flags `consistent`, `disjoint` (the returned arrays are exactly
    `where(assign == p, E, 0)`), `assign` (per bin: output partition index or -1), `sassign` (same for the
    full sorted slot list before truncation), `keys` (sort key of every sorted slot), `okeys` (sort key of every
    output partition), per-basin `num`, `den`, `ws`. -/
def opAssemble : P String := do
  let method ← nat
  let f ← vec
  let dirs ← vec
  let e ← mat
  let w ← imat
  let t ← imat
  let wscut ← rat
  let cnt ← optNat
  let ef := e.flatten
  let wf := w.flatten
  let tf := t.flatten
  if wf.length != ef.length || tf.length != ef.length then throw "shape mismatch"
  if wf.any (· < 0) then throw "negative label"
  let bins : List Bin := List.zipWith (fun (x : Rat) (lt : Int × Int) => ⟨x, lt.1.toNat, lt.2 != 0⟩) ef (List.zip wf tf)
  let key := npHsKey f dirs
  let (out, sorted) ← match method with
    | 1 => pure (ptm1 key wscut bins cnt, ptm1Sorted key wscut bins)
    | 2 => pure (ptm2 key wscut bins cnt, ptm2Sorted key wscut bins)
    | 3 => pure (ptm3 key bins cnt, ptm3Sorted key bins)
    | _ => throw "bad method"
  let n := bins.length
  let ks := labels bins
  let nd := match e with | r :: _ => r.length | [] => 0
  let showIM (v : List Int) : String :=
    "im " ++ toString e.length ++ " " ++ toString nd ++ v.foldl (fun s x => s ++ " " ++ toString x) ""
  let b2s (b : Bool) : String := if b then "1" else "0"
  let res := [
    kv "nparts" (toString (nparts bins)), kv "nout" (toString out.length),
    kv "consistent" (b2s (consistentB bins out && consistentB bins sorted)),
    kv "disjoint" (b2s (disjointB out n && disjointB sorted n)),
    kv "assign" (showIM (assignOf out n)), kv "sassign" (showIM (assignOf sorted n)),
    kv "keys" (showVec (sorted.map fun p => key p.vals)),
    kv "okeys" (showVec (out.map fun p => key p.vals)),
    kv "num" (showVec (ks.map (wsNum bins))), kv "den" (showVec (ks.map (wsDen bins))),
    kv "ws" (showIVec (ks.map fun k => if isWindSea wscut bins k then 1 else 0))]
  pure ("ok " ++ " ".intercalate res)

def ops : List (String × P String) := [("assemble", opAssemble)]

end WS.Ops.Assembly

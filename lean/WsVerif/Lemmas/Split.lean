import WsVerif.Model.Split
import WsVerif.Lemmas.Moments
import Mathlib.Tactic.Ring
import Mathlib.Tactic.Linarith
import Mathlib.Tactic.FieldSimp
import Mathlib.Algebra.Order.Field.Rat
import Mathlib.Algebra.BigOperators.Group.List.Basic
/-! Helper lemmas for the rule-based splits (C09): entries of masked / column-picked matrices, the index
    sort, the search of `_interp_freq`. -/
namespace WS.Split
open WS

/-! ### entries -/

theorem getR_nil (j : Nat) : getR [] j = 0 := by simp [getR]

theorem getD_of_le {α : Type} (l : List α) (i : Nat) (d : α) (h : l.length ≤ i) : l.getD i d = d := by
  simp [List.getD_eq_getElem?_getD, List.getElem?_eq_none h]

theorem get2_of_le (e : Mat) (i j : Nat) (h : e.length ≤ i) : get2 e i j = 0 := by
  unfold get2
  rw [getD_of_le _ _ _ h]
  exact getR_nil j

theorem getR_maskRow (p : Rat → Bool) (ck row : Vec) (j : Nat) (hj : j < ck.length) :
    getR (maskRow p ck row) j = if p (getR ck j) then getR row j else 0 := by
  induction ck generalizing row j with
  | nil => simp at hj
  | cons t ts ih =>
    cases row with
    | nil => simp [maskRow, getR]
    | cons x xs =>
      cases j with
      | zero => simp [maskRow, getR]
      | succ j =>
        have := ih xs j (by simpa using hj)
        simpa [maskRow, getR] using this

theorem getD_whereM (p : Rat → Rat → Bool) (rk ck : Vec) (e : Mat) (i : Nat) (hi : i < rk.length) :
    (whereM p rk ck e).getD i [] = maskRow (p (getR rk i)) ck (e.getD i []) := by
  induction rk generalizing e i with
  | nil => simp at hi
  | cons a as ih =>
    cases e with
    | nil => simp [whereM, maskRow]
    | cons r rs =>
      cases i with
      | zero => simp [whereM, getR]
      | succ i =>
        have := ih rs i (by simpa using hi)
        simpa [whereM, getR] using this

/-- entry of `where(mask).fillna(0)` -/
theorem get2_whereM (p : Rat → Rat → Bool) (rk ck : Vec) (e : Mat) (i j : Nat)
    (hi : i < rk.length) (hj : j < ck.length) :
    get2 (whereM p rk ck e) i j = if p (getR rk i) (getR ck j) then get2 e i j else 0 := by
  unfold get2
  rw [getD_whereM p rk ck e i hi, getR_maskRow _ _ _ j hj]

theorem getR_pickV (σ : List Nat) (v : Vec) (j : Nat) (hj : j < σ.length) :
    getR (pickV σ v) j = getR v (σ.getD j 0) := by
  unfold pickV getR
  simp [List.getD_eq_getElem?_getD, hj]

theorem pickV_length (σ : List Nat) (v : Vec) : (pickV σ v).length = σ.length := by simp [pickV]

theorem get2_pickCols (σ : List Nat) (e : Mat) (i j : Nat) (hj : j < σ.length) :
    get2 (pickCols σ e) i j = get2 e i (σ.getD j 0) := by
  unfold get2 pickCols
  by_cases hi : i < e.length
  · have : (e.map (pickV σ)).getD i [] = pickV σ (e.getD i []) := by
      simp [List.getD_eq_getElem?_getD, hi]
    rw [this, getR_pickV σ _ j hj]
  · have h1 : (e.map (pickV σ)).getD i [] = [] := by
      apply getD_of_le; simpa using hi
    have h2 : e.getD i [] = [] := by
      apply getD_of_le; omega
    rw [h1, h2]; simp [getR]

theorem getR_scaleV' (k : Rat) (a : Vec) (i : Nat) : getR (scaleV k a) i = k * getR a i :=
  getR_scaleV k a i

theorem get2_scaleM (k : Rat) (e : Mat) (i j : Nat) : get2 (scaleM k e) i j = k * get2 e i j := by
  unfold get2 scaleM
  by_cases hi : i < e.length
  · have : (e.map (scaleV k)).getD i [] = scaleV k (e.getD i []) := by
      simp [List.getD_eq_getElem?_getD, hi]
    rw [this, getR_scaleV]
  · have h1 : (e.map (scaleV k)).getD i [] = [] := by
      apply getD_of_le; simpa using hi
    have h2 : e.getD i [] = [] := by
      apply getD_of_le; omega
    rw [h1, h2]; simp [getR]

/-! ### the index sort -/

theorem insIdx_perm (d : Vec) (a : Nat) (l : List Nat) : (insIdx d a l).Perm (a :: l) := by
  induction l with
  | nil => simp [insIdx]
  | cons b t ih =>
    unfold insIdx
    by_cases h : getR d a ≤ getR d b
    · simp [h]
    · simp only [h, if_false]
      exact (List.Perm.cons b ih).trans (List.Perm.swap a b t)

theorem foldr_insIdx_perm (d : Vec) (l : List Nat) : (l.foldr (insIdx d) []).Perm l := by
  induction l with
  | nil => simp
  | cons a t ih =>
    simp only [List.foldr_cons]
    exact (insIdx_perm d a _).trans (List.Perm.cons a ih)

theorem sortIdx_perm (d : Vec) : (sortIdx d).Perm (List.range d.length) :=
  foldr_insIdx_perm d _

theorem sortIdx_length (d : Vec) : (sortIdx d).length = d.length := by
  rw [(sortIdx_perm d).length_eq]; simp

theorem mem_sortIdx (d : Vec) (j : Nat) : j ∈ sortIdx d ↔ j < d.length := by
  rw [(sortIdx_perm d).mem_iff]; simp

theorem sortIdx_nodup (d : Vec) : (sortIdx d).Nodup :=
  (sortIdx_perm d).nodup_iff.mpr List.nodup_range

theorem insIdx_sorted (d : Vec) (a : Nat) (l : List Nat)
    (h : l.Pairwise (fun x y => getR d x ≤ getR d y)) :
    (insIdx d a l).Pairwise (fun x y => getR d x ≤ getR d y) := by
  induction l with
  | nil => simp [insIdx]
  | cons b t ih =>
    unfold insIdx
    rw [List.pairwise_cons] at h
    by_cases hab : getR d a ≤ getR d b
    · simp only [hab, if_true]
      refine List.pairwise_cons.mpr ⟨?_, List.pairwise_cons.mpr h⟩
      intro x hx
      rcases List.mem_cons.mp hx with rfl | hx
      · exact hab
      · exact le_trans hab (h.1 x hx)
    · simp only [hab, if_false]
      refine List.pairwise_cons.mpr ⟨?_, ih h.2⟩
      intro x hx
      rcases List.mem_cons.mp ((insIdx_perm d a t).mem_iff.mp hx) with rfl | hx
      · exact le_of_lt (not_le.mp hab)
      · exact h.1 x hx

theorem foldr_insIdx_sorted (d : Vec) (l : List Nat) :
    (l.foldr (insIdx d) []).Pairwise (fun x y => getR d x ≤ getR d y) := by
  induction l with
  | nil => simp
  | cons a t ih => simp only [List.foldr_cons]; exact insIdx_sorted d a _ ih

/-- the picked labels are in non-decreasing order -/
theorem sortIdx_sorted (d : Vec) : (pickV (sortIdx d) d).Pairwise (· ≤ ·) := by
  unfold pickV
  rw [List.pairwise_map]
  exact foldr_insIdx_sorted d _

/-- the sorted labels are a permutation of the stored labels -/
theorem pickV_sortIdx_perm (d : Vec) : (pickV (sortIdx d) d).Perm d := by
  have h1 : (pickV (sortIdx d) d).Perm ((List.range d.length).map (getR d)) :=
    (sortIdx_perm d).map _
  have h2 : (List.range d.length).map (getR d) = d := by
    apply List.ext_getElem
    · simp
    · intro i h1 h2
      simp [getR, List.getD_eq_getElem?_getD]
      simp at h1; simp [h1]
  rw [h2] at h1; exact h1

/-! ### `searchsorted` -/

theorem searchsorted_le (f : Vec) (x : Rat) : searchsorted f x ≤ f.length := by
  unfold searchsorted
  exact (List.takeWhile_sublist _).length_le

/-- every element before the insertion point is `< x` -/
theorem lt_of_lt_searchsorted (f : Vec) (x : Rat) (i : Nat) (h : i < searchsorted f x) : getR f i < x := by
  induction f generalizing i with
  | nil => simp [searchsorted] at h
  | cons a t ih =>
    unfold searchsorted at h
    by_cases ha : a < x
    · simp only [List.takeWhile_cons, ha, decide_true, if_true, List.length_cons] at h
      cases i with
      | zero => simpa [getR] using ha
      | succ i =>
        have := ih i (by unfold searchsorted; omega)
        simpa [getR] using this
    · simp [ha] at h

/-- the element at the insertion point (when there is one) is `≥ x` -/
theorem ge_at_searchsorted (f : Vec) (x : Rat) (h : searchsorted f x < f.length) :
    x ≤ getR f (searchsorted f x) := by
  induction f with
  | nil => simp at h
  | cons a t ih =>
    by_cases ha : a < x
    · have e : searchsorted (a :: t) x = searchsorted t x + 1 := by
        simp [searchsorted, ha]
      rw [e] at h ⊢
      have := ih (by simpa using h)
      simpa [getR] using this
    · have e : searchsorted (a :: t) x = 0 := by
        simp [searchsorted, ha]
      rw [e]; simpa [getR] using not_lt.mp ha

theorem getR_lerpRow (f0 f1 x : Rat) (r0 r1 : Vec) (j : Nat) (h0 : j < r0.length) (h1 : j < r1.length) :
    getR (lerpRow f0 f1 x r0 r1) j = (getR r0 j * (f1 - x) + getR r1 j * (x - f0)) / (f1 - f0) := by
  unfold lerpRow getR
  simp [List.getD_eq_getElem?_getD, h0, h1]

/-- the interpolation formula of `_interp_freq` is the convex combination with weight
    `lam = (f1 - x)/(f1 - f0)` on the lower row -/
theorem lerp_convex (f0 f1 x a b : Rat) (h : f0 < f1) :
    (a * (f1 - x) + b * (x - f0)) / (f1 - f0) =
      ((f1 - x) / (f1 - f0)) * a + (1 - (f1 - x) / (f1 - f0)) * b := by
  have hne : f1 - f0 ≠ 0 := by linarith [sub_pos.mpr h] |> ne_of_gt
  field_simp
  ring

/-! ### extremes -/

theorem maxD_mem (l : Vec) (d : Rat) : maxD l d = d ∨ maxD l d ∈ l := by
  induction l generalizing d with
  | nil => left; rfl
  | cons a t ih =>
    have := ih (if d < a then a else d)
    unfold maxD at this ⊢
    simp only [List.foldl_cons]
    rcases this with h | h
    · by_cases hd : d < a
      · right; rw [h]; simp [hd]
      · left; rw [h]; simp [hd]
    · right; exact List.mem_cons_of_mem _ h

theorem vmax_mem (f : Vec) (h : f ≠ []) : vmax f ∈ f := by
  cases f with
  | nil => exact absurd rfl h
  | cons a t =>
    show maxD t a ∈ a :: t
    rcases maxD_mem t a with h | h
    · rw [h]; exact List.mem_cons_self
    · exact List.mem_cons_of_mem _ h

/-- if every element is `< x` then so is the maximum -/
theorem vmax_lt_of_all (f : Vec) (x : Rat) (hne : f ≠ []) (h : ∀ i, i < f.length → getR f i < x) :
    vmax f < x := by
  obtain ⟨i, hi, heq⟩ := List.mem_iff_getElem.mp (vmax_mem f hne)
  have := h i hi
  rw [getR_eq_getElem f i hi, heq] at this
  exact this

/-! ### the variance (`hs²/16`) is linear in the spectrum -/

theorem oned_scaleM (ddv k : Rat) (e : Mat) : Stats.oned ddv (scaleM k e) = scaleV k (Stats.oned ddv e) := by
  unfold Stats.oned scaleM scaleV
  simp only [List.map_map]
  congr 1; funext r
  simp only [Function.comp, sum_map_const_mul]; ring

theorem hsE_scaleV (thr q : Rat) (tail : Bool) (k : Rat) (f S : Vec) :
    Stats.hsE thr q tail f (scaleV k S) = k * Stats.hsE thr q tail f S := by
  unfold Stats.hsE Stats.m0E
  rw [dot_scaleV_left, lastD_scaleV]
  split <;> ring

theorem hsOf_scaleM (thr q k : Rat) (f dirs : Vec) (e : Mat) :
    hsOf thr q f dirs (scaleM k e) = k * hsOf thr q f dirs e := by
  unfold hsOf
  rw [oned_scaleM, hsE_scaleV]

end WS.Split

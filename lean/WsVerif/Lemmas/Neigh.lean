import WsVerif.Model.Neigh
/-! Helper lemmas about the neighbour table (`Model/Neigh.lean`); headline statements are in `Props/C04.lean`. -/
namespace WS.NeighL
open WS.Neigh

theorem lin_div (mk i j : Nat) (hi : i < mk) : (i + mk * j) / mk = j := by
  have hpos : 0 < mk := by omega
  rw [Nat.add_mul_div_left _ _ hpos, Nat.div_eq_of_lt hi, Nat.zero_add]

theorem lin_sub (mk i j : Nat) : (i + mk * j) - j * mk = i := by
  rw [Nat.mul_comm j mk]; omega

theorem prop_cases (p : Prop) : (p ∧ p = True) ∨ (¬p ∧ p = False) := by
  by_cases h : p
  · exact Or.inl ⟨h, eq_true h⟩
  · exact Or.inr ⟨h, eq_false h⟩

theorem dn_lt {mth j : Nat} (hj : j < mth) : dn mth j < mth := by unfold dn; split <;> omega
theorem up_lt {mth j : Nat} (_hj : j < mth) : up mth j < mth := by unfold up; split <;> omega
theorem up_dn {mth j : Nat} (hj : j < mth) : up mth (dn mth j) = j := by
  unfold up dn; split <;> split <;> omega
theorem dn_up {mth j : Nat} (_hj : j < mth) : dn mth (up mth j) = j := by
  unfold up dn; split <;> split <;> omega
theorem up_eq_mod {mth j : Nat} (hj : j < mth) : up mth j = (j + 1) % mth := by
  unfold up
  split
  · have : j + 1 = mth := by omega
    rw [this, Nat.mod_self]
  · rw [Nat.mod_eq_of_lt (by omega)]
theorem dn_eq_mod {mth j : Nat} (hj : j < mth) : dn mth j = (j + mth - 1) % mth := by
  unfold dn
  split
  · subst j; rw [Nat.zero_add, Nat.mod_eq_of_lt (by omega)]
  · have : j + mth - 1 = (j - 1) + mth := by omega
    rw [this, Nat.add_mod_right, Nat.mod_eq_of_lt (by omega)]

/-- membership in the (i,j) row = 8-adjacency on the cylinder (frequency bounded, direction circular) -/
theorem mem_neighIJ (mk mth i j a b : Nat) (hi : i < mk) :
    (a, b) ∈ neighIJ mk mth i j ↔
      a < mk ∧ (((a + 1 = i ∨ a = i + 1) ∧ b = j) ∨
                ((a = i ∨ a + 1 = i ∨ a = i + 1) ∧ (b = dn mth j ∨ b = up mth j))) := by
  unfold neighIJ
  rcases prop_cases (i = 0) with ⟨h1, e1⟩ | ⟨h1, e1⟩ <;>
  rcases prop_cases (i = mk - 1) with ⟨h2, e2⟩ | ⟨h2, e2⟩ <;>
  simp only [e1, e2, ne_eq, not_true_eq_false, not_false_eq_true, if_true, if_false, List.nil_append, List.cons_append,
    List.mem_cons, List.not_mem_nil, or_false, Prod.mk.injEq] <;>
  grind

theorem neighIJ_bounds {mk mth i j : Nat} (hi : i < mk) (hj : j < mth) {p : Nat × Nat}
    (hp : p ∈ neighIJ mk mth i j) : p.1 < mk ∧ p.2 < mth := by
  obtain ⟨a, b⟩ := p
  have := (mem_neighIJ mk mth i j a b hi).mp hp
  have h1 := dn_lt hj; have h2 := up_lt hj
  refine ⟨this.1, ?_⟩
  rcases this.2 with ⟨_, rfl⟩ | ⟨_, rfl | rfl⟩ <;> assumption

theorem lin_lt {mk mth a b : Nat} (ha : a < mk) (hb : b < mth) : a + mk * b < mk * mth := by
  have : mk * (b + 1) ≤ mk * mth := Nat.mul_le_mul_left mk (by omega)
  rw [Nat.mul_succ] at this
  omega

theorem neighIJ_length_le (mk mth i j : Nat) : (neighIJ mk mth i j).length ≤ 8 := by
  unfold neighIJ
  rcases prop_cases (i = 0) with ⟨h1, e1⟩ | ⟨h1, e1⟩ <;>
  rcases prop_cases (i = mk - 1) with ⟨h2, e2⟩ | ⟨h2, e2⟩ <;>
  simp [e1, e2]

/-- symmetry in (i,j) coordinates -/
theorem neighIJ_symm {mk mth i j a b : Nat} (hi : i < mk) (hj : j < mth)
    (h : (a, b) ∈ neighIJ mk mth i j) : (i, j) ∈ neighIJ mk mth a b := by
  have hb := neighIJ_bounds hi hj h
  have h' := (mem_neighIJ mk mth i j a b hi).mp h
  rw [mem_neighIJ mk mth a b i j hb.1]
  have e1 := up_dn hj; have e2 := dn_up hj
  have e3 := up_dn hb.2; have e4 := dn_up hb.2
  refine ⟨hi, ?_⟩
  rcases h'.2 with ⟨h1, rfl⟩ | ⟨h1, rfl | rfl⟩
  · left; exact ⟨by omega, rfl⟩
  · right; exact ⟨by omega, Or.inr e1.symm⟩
  · right; exact ⟨by omega, Or.inl e2.symm⟩

/-- the row of the pixel shifted by one direction bin is the shifted row, **as lists** (slot order kept) -/
theorem neighIJ_shift1 {mk mth i j : Nat} (hj : j < mth) :
    neighIJ mk mth i (up mth j) = (neighIJ mk mth i j).map fun p => (p.1, up mth p.2) := by
  unfold neighIJ
  rw [dn_up hj]
  have e := up_dn hj
  rcases prop_cases (i = 0) with ⟨h1, e1⟩ | ⟨h1, e1⟩ <;>
  rcases prop_cases (i = mk - 1) with ⟨h2, e2⟩ | ⟨h2, e2⟩ <;>
  simp [e1, e2, e]

/-- iterate of the one-bin shift -/
def rot (mth : Nat) : Nat → Nat → Nat
  | 0, j => j
  | s + 1, j => rot mth s (up mth j)

theorem rot_lt {mth j : Nat} (hj : j < mth) (s : Nat) : rot mth s j < mth := by
  induction s generalizing j with
  | zero => exact hj
  | succ s ih => exact ih (up_lt hj)

theorem rot_eq_mod {mth j : Nat} (hj : j < mth) (s : Nat) : rot mth s j = (j + s) % mth := by
  induction s generalizing j with
  | zero => simp [rot, Nat.mod_eq_of_lt hj]
  | succ s ih =>
    show rot mth s (up mth j) = _
    rw [ih (up_lt hj), up_eq_mod hj, Nat.mod_add_mod]
    congr 1; omega

theorem neigh_spec (mk mth i j : Nat) (hi : i < mk) (hj : j < mth) :
    neighLin mk mth (i + mk * j) = (neighIJ mk mth i j).map (lin mk) := by
  unfold neighLin
  simp only [lin_div mk i j hi, lin_sub]
  unfold neighIJ dn up lin
  have hc : (mth - 1) * mk = mk * (mth - 1) := Nat.mul_comm _ _
  have hs : mk * mth = mk * (mth - 1) + mk := by
    have : mth = (mth - 1) + 1 := by omega
    conv => lhs; rw [this, Nat.mul_succ]
  have hd : j ≠ 0 → mk * j = mk * (j - 1) + mk := by
    intro h
    have : j = (j - 1) + 1 := by omega
    conv => lhs; rw [this, Nat.mul_succ]
  have hu : mk * (j + 1) = mk * j + mk := Nat.mul_succ _ _
  have hz : mk * 0 = 0 := Nat.mul_zero _
  have ht : j = mth - 1 → mk * j = mk * (mth - 1) := fun h => by rw [h]
  rw [hc]
  rcases prop_cases (i = 0) with ⟨h1, e1⟩ | ⟨h1, e1⟩ <;>
  rcases prop_cases (i = mk - 1) with ⟨h2, e2⟩ | ⟨h2, e2⟩ <;>
  rcases prop_cases (j = 0) with ⟨h3, e3⟩ | ⟨h3, e3⟩ <;>
  rcases prop_cases (j = mth - 1) with ⟨h4, e4⟩ | ⟨h4, e4⟩ <;>
  simp only [e1, e2, e3, e4, ne_eq, not_true_eq_false, not_false_eq_true, and_true, and_false,
    if_true, if_false, List.map_cons, List.map_nil, List.nil_append, List.cons_append, List.cons.injEq, and_self] <;>
  (try have hd' := hd h3) <;> (try have ht' := ht h4) <;> (try subst h3) <;> omega

theorem neighIJ_shift {mk mth i j : Nat} (hj : j < mth) (s : Nat) :
    neighIJ mk mth i (rot mth s j) = (neighIJ mk mth i j).map fun p => (p.1, rot mth s p.2) := by
  induction s generalizing j with
  | zero => simp [rot]
  | succ s ih =>
    show neighIJ mk mth i (rot mth s (up mth j)) = _
    rw [ih (up_lt hj), neighIJ_shift1 hj, List.map_map]
    rfl

theorem decomp {mk mth n : Nat} (hn : n < mk * mth) : n % mk < mk ∧ n / mk < mth ∧ n = n % mk + mk * (n / mk) := by
  have hpos : 0 < mk := by
    rcases Nat.eq_zero_or_pos mk with h | h
    · subst h; simp at hn
    · exact h
  refine ⟨Nat.mod_lt _ hpos, (Nat.div_lt_iff_lt_mul hpos).mpr (by rw [Nat.mul_comm]; exact hn), ?_⟩
  exact (Nat.mod_add_div n mk).symm

theorem lin_mod (mk i j : Nat) (hi : i < mk) : (i + mk * j) % mk = i := by
  rw [Nat.add_mul_mod_self_left, Nat.mod_eq_of_lt hi]
end WS.NeighL

import WsVerif.Lemmas.Select
import WsVerif.Model.SelRt
/-!
Helper lemmas for `Props/C14sel.lean`: the numpy vocabulary of `Model/SelRt.lean` (what `Gen/SelKernels.lean` is
generated into) against the recursive / `zipIdx`-`filter` forms of the hand model `Model/Select.lean`.
Nothing here mentions a generated definition.
-/
namespace WS.SelBridge
open WS WS.Select WS.Sel

/-! ### the oracle under `np.abs` -/

/-- the model's oracle for a generated kernel called with `sqrt` -/
def absSq (sqrt : ℚ → ℚ) : ℚ → ℚ := fun x => absR (sqrt x)

theorem absR_of_nonneg {x : ℚ} (h : 0 ≤ x) : absR x = x := by
  unfold absR; rw [if_neg (not_lt.mpr h)]

/-- every distance the generated code computes is non-negative (it ends with `np.abs`) -/
theorem absSq_row_nonneg (sqrt : ℚ → ℚ) (dl dla : Vec) (lon lat : ℚ) :
    ∀ x ∈ distRow (absSq sqrt) ldShort dl dla lon lat, 0 ≤ x := by
  intro x hx
  unfold distRow at hx
  obtain ⟨r, _, rfl⟩ := List.mem_map.mp hx
  unfold absSq absR
  split
  · linarith
  · linarith

/-! ### reductions -/

theorem amin_eq (l : Vec) : amin l = arrMin l := by cases l <;> rfl
theorem amax_eq (l : Vec) : amax l = arrMax l := by cases l <;> rfl

/-! ### `argmin`: the left-to-right scan is the model's first argmin -/

theorem argminGo_spec : ∀ (ys : Vec) (best : ℚ) (bi i : Nat),
    argminGo best bi i ys =
      if ys ≠ [] ∧ ys.getD (argminFirst ys) 0 < best then i + argminFirst ys else bi
  | [], best, bi, i => by simp [argminGo]
  | [y], best, bi, i => by
    simp only [argminGo, argminFirst]
    by_cases h : y < best <;> simp [h]
  | y :: z :: zs, best, bi, i => by
    have ih1 := argminGo_spec (z :: zs) y i (i + 1)
    have ih2 := argminGo_spec (z :: zs) best bi (i + 1)
    have hne : (z :: zs) ≠ [] := by simp
    simp only [hne, ne_eq, not_false_eq_true, true_and] at ih1 ih2
    unfold argminGo
    rw [ih1, ih2]
    set a' := argminFirst (z :: zs) with ha'
    set m' := (z :: zs).getD a' 0 with hm'
    have hA : argminFirst (y :: z :: zs) = if m' < y then a' + 1 else 0 := by
      rw [argminFirst]
    have hne2 : (y :: z :: zs) ≠ [] := by simp
    simp only [hne2, ne_eq, not_false_eq_true, true_and]
    rw [hA]
    by_cases h1 : y < best
    · simp only [h1, if_true]
      by_cases h2 : m' < y
      · have h3 : m' < best := lt_trans h2 h1
        simp only [h2, if_true, List.getD_cons_succ, ← hm', h3]
        omega
      · simp only [h2, if_false, List.getD_cons_zero, h1, if_true]
        omega
    · simp only [h1, if_false]
      by_cases h2 : m' < y
      · simp only [h2, if_true, List.getD_cons_succ, ← hm']
        by_cases h3 : m' < best
        · simp only [h3, if_true]; omega
        · simp only [h3, if_false]
      · simp only [h2, if_false, List.getD_cons_zero, h1, if_false]
        have h3 : ¬ m' < best := by
          intro h; exact h2 (lt_of_lt_of_le h (not_lt.mp h1))
        simp only [h3, if_false]

theorem argmin_eq (l : Vec) : argmin l = argminFirst l := by
  cases l with
  | nil => rfl
  | cons x xs =>
    cases xs with
    | nil => rfl
    | cons y ys =>
      show argminGo x 0 1 (y :: ys) = _
      rw [argminGo_spec]
      have hne : (y :: ys) ≠ [] := by simp
      simp only [hne, ne_eq, not_false_eq_true, true_and]
      have hA : argminFirst (x :: y :: ys) =
          if (y :: ys).getD (argminFirst (y :: ys)) 0 < x then argminFirst (y :: ys) + 1 else 0 := by
        rw [argminFirst]
      rw [hA]
      by_cases h : (y :: ys).getD (argminFirst (y :: ys)) 0 < x
      · simp only [h, if_true]; omega
      · simp only [h, if_false]

/-! ### masks -/

theorem maskGet_nil {α : Type} (m : List Bool) : maskGet ([] : List α) m = [] := by simp [maskGet]

theorem maskGet_cons {α : Type} (x : α) (xs : List α) (b : Bool) (m : List Bool) :
    maskGet (x :: xs) (b :: m) = if b then x :: maskGet xs m else maskGet xs m := by
  cases b <;> simp [maskGet]

/-- `a[m]` with the mask computed from `a` itself is a filter -/
theorem maskGet_map_self {α : Type} (p : α → Bool) : ∀ a : List α, maskGet a (a.map p) = a.filter p
  | [] => by simp [maskGet]
  | x :: xs => by
    rw [List.map_cons, maskGet_cons, maskGet_map_self p xs, List.filter_cons]

/-- `g(l)[p(l)]` for two arrays computed elementwise from one list -/
theorem maskGet_map_map {α β : Type} (g : α → β) (p : α → Bool) : ∀ l : List α,
    maskGet (l.map g) (l.map p) = (l.filter p).map g
  | [] => by simp [maskGet]
  | x :: xs => by
    rw [List.map_cons, List.map_cons, maskGet_cons, maskGet_map_map g p xs, List.filter_cons]
    cases p x <;> simp

/-- `a[p(a)] = f(a[p(a)])` (masked in-place update, `p`, `f` elementwise) is an elementwise conditional -/
theorem maskSet_map (p : ℚ → Bool) (f : ℚ → ℚ) : ∀ a : Vec,
    maskSet a (a.map p) ((maskGet a (a.map p)).map f) = a.map fun x => if p x then f x else x
  | [] => by simp [maskSet]
  | x :: xs => by
    rw [List.map_cons, maskGet_cons]
    cases h : p x
    · simp only [Bool.false_eq_true, if_false, List.map_cons, h, maskSet]
      rw [maskSet_map p f xs]
    · simp only [if_true, List.map_cons, h, maskSet]
      rw [maskSet_map p f xs]

/-- `np.where(m)[0]` for a mask computed elementwise from two zipped arrays -/
theorem whereTrue_zipWith (p : ℚ → ℚ → Bool) (dl dla : Vec) :
    whereTrue (List.zipWith p dl dla) = whereIdx dl dla p := by
  unfold whereTrue whereIdx
  rw [← List.map_uncurry_zip_eq_zipWith, List.zipIdx_map, List.filter_map, List.map_map]
  rfl

/-- `(m1 & m2) & m3` with `m1` computed from the first array and `m2`, `m3` from the second -/
theorem band3 (pa pb pc : ℚ → Bool) : ∀ (dl dla : Vec),
    band (band (dl.map pa) (dla.map pb)) (dla.map pc) = List.zipWith (fun a b => pa a && pb b && pc b) dl dla
  | [], _ => by simp [band]
  | _ :: _, [] => by simp [band]
  | a :: dl, b :: dla => by
    have ih := band3 pa pb pc dl dla
    unfold band at ih ⊢
    simp only [List.map_cons, List.zipWith_cons_cons, ih]

/-- the mask of `sel_bbox` (`((lons - lo) % 360 <= w) & (lats >= a) & (lats <= b)`) through `np.where(·)[0]` -/
theorem bbox_where (dl dla : Vec) (lo w a b : ℚ) :
    whereTrue (band (band (vleS (vmodS (vsubS dl lo) 360) w) (vgeS dla a)) (vleS dla b)) =
      whereIdx dl dla fun lon lat => decide (mod360 (lon - lo) ≤ w) && decide (lat ≥ a) && decide (lat ≤ b) := by
  have h : vleS (vmodS (vsubS dl lo) 360) w = dl.map fun x => decide (mod360 (x - lo) ≤ w) := by
    unfold vleS vmodS vsubS mod360
    rw [List.map_map, List.map_map]
    rfl
  rw [h]
  show whereTrue (band (band _ (dla.map fun x => decide (x ≥ a))) (dla.map fun x => decide (x ≤ b))) = _
  rw [band3, whereTrue_zipWith]

/-! ### `nearer`: argsort, fancy indexing, mask, slice -/

theorem pySlice_eq_pyTake {α : Type} (xs : List α) (ms : Option Int) : pySlice xs ms = pyTake xs ms := by
  cases ms <;> rfl

theorem pyTake_map {α β : Type} (f : α → β) (xs : List α) (ms : Option Int) :
    pyTake (xs.map f) ms = (pyTake xs ms).map f := by
  cases ms with
  | none => rfl
  | some m =>
    show (if m ≥ 0 then (xs.map f).take m.toNat else (xs.map f).take ((xs.map f).length - (-m).toNat)) =
      (if m ≥ 0 then xs.take m.toNat else xs.take (xs.length - (-m).toNat)).map f
    by_cases h : m ≥ 0
    · rw [if_pos h, if_pos h, List.map_take]
    · rw [if_neg h, if_neg h, List.map_take, List.length_map]

theorem pyTake_subset {α : Type} (xs : List α) (ms : Option Int) : ∀ x ∈ pyTake xs ms, x ∈ xs := by
  intro x hx
  obtain ⟨n, hn⟩ := pyTake_eq_take xs ms
  rw [hn] at hx
  exact List.mem_of_mem_take hx

/-- the (value, index) pairs of the stably sorted array -/
def sortedPairs (d : Vec) : List (ℚ × Nat) := d.zipIdx.mergeSort fun p q => decide (p.1 ≤ q.1)

theorem sortedPairs_mem {d : Vec} {p : ℚ × Nat} (h : p ∈ sortedPairs d) : d.getD p.2 0 = p.1 := by
  unfold sortedPairs at h
  rw [List.mem_mergeSort, List.mem_zipIdx_iff_getElem?] at h
  exact (getD_of_getElem? h).2

/-- fancy indexing by the index column of pairs taken from the array gives back the value column -/
theorem take_pairs (d : Vec) (l : List (ℚ × Nat)) (h : ∀ p ∈ l, d.getD p.2 0 = p.1) :
    Sel.take d (l.map fun p => p.2) = l.map fun p => p.1 := by
  unfold Sel.take
  rw [List.map_map]
  exact List.map_congr_left fun p hp => h p hp

/-- **`Coordinates.nearer` in numpy vocabulary = the model's `nearer`** (indices and distances of the kept pairs) -/
theorem nearer_vocab (d : Vec) (tol : ℚ) (ms : Option Int) :
    (pySlice (maskGet (argsort d) (vleS (Sel.take d (argsort d)) tol)) ms,
      Sel.take d (pySlice (maskGet (argsort d) (vleS (Sel.take d (argsort d)) tol)) ms)) =
    ((nearer d tol ms).map (fun p => p.2), (nearer d tol ms).map (fun p => p.1)) := by
  have hS : ∀ p ∈ sortedPairs d, d.getD p.2 0 = p.1 := fun p hp => sortedPairs_mem hp
  have h1 : argsort d = (sortedPairs d).map fun p => p.2 := rfl
  have h2 : Sel.take d (argsort d) = (sortedPairs d).map fun p => p.1 := by rw [h1]; exact take_pairs d _ hS
  have h3 : vleS (Sel.take d (argsort d)) tol = (sortedPairs d).map fun p => decide (p.1 ≤ tol) := by
    rw [h2]; unfold vleS; rw [List.map_map]; rfl
  have h4 : pySlice (maskGet (argsort d) (vleS (Sel.take d (argsort d)) tol)) ms = (nearer d tol ms).map fun p => p.2 := by
    rw [h3, h1, maskGet_map_map, pySlice_eq_pyTake, pyTake_map]
    rfl
  rw [h4]
  congr 1
  apply take_pairs
  intro p hp
  have : p ∈ (sortedPairs d).filter fun p => decide (p.1 ≤ tol) := pyTake_subset _ ms p hp
  exact hS p (List.mem_of_mem_filter this)

/-! ### the loop of `sel_nearest` as a monadic fold -/

/-- the string argument `missing` of `sel_nearest` as the model's three-way case -/
def missingOf (s : String) : Missing :=
  if s = "raise" then .raise else if s = "ignore" then .ignore else .other

/-- one iteration of `Select.nearestLoop` on the distance row `d` of the query -/
def nearestStep (tol : ℚ) (unique exact : Bool) (missing : Missing) (acc : List Nat) (d : Vec) : Except Err (List Nat) :=
  if d.getD (argminFirst d) 0 > tol ∧ missing = .raise then .error .assertionError
  else if d.getD (argminFirst d) 0 > tol ∧ missing = .ignore then .ok acc
  else if exact = true ∧ d.getD (argminFirst d) 0 > 0 then .error .assertionError
  else if unique = true ∧ argminFirst d ∈ acc then .ok acc
  else .ok (acc ++ [argminFirst d])

theorem nearestLoop_eq_foldlM (tol : ℚ) (unique exact : Bool) (missing : Missing) :
    ∀ (rows : List Vec) (acc : List Nat),
      nearestLoop tol unique exact missing rows acc = rows.foldlM (nearestStep tol unique exact missing) acc
  | [], acc => rfl
  | d :: rest, acc => by
    rw [List.foldlM_cons]
    unfold nearestLoop nearestStep
    simp only
    split_ifs <;> simp only [bind, Except.bind] <;> exact nearestLoop_eq_foldlM tol unique exact missing rest _

/-! ### the loops of `sel_idw` -/

/-- the collection loop of `sel_idw` as generated (`Gen.selIdw_loop2`, tied by `rfl` in `Props/C14sel.lean`):
    state = (indices, factors, dist, done), element = (ind, dist) -/
def cStep (st : List Nat × List ℚ × ℚ × Bool) (el : Nat × ℚ) : List Nat × List ℚ × ℚ × Bool :=
  if st.2.2.2 then st else
  if decide (el.2 = 0) then (st.1 ++ [el.1], st.2.1 ++ [1], el.2, true)
  else (st.1 ++ [el.1], st.2.1 ++ [1 / el.2], el.2, false)

/-- the accumulation loop of `sel_idw` as generated (`Gen.selIdw_loop3`) -/
def wStep (w : LC) (el : Nat × ℚ) : LC := lcAdd w (lcTerm el.2 el.1)

/-- the value of the loop variable `dist` after the collection loop (unchanged if the loop did not run) -/
def lastDist : List (Nat × ℚ × ℚ) → ℚ → ℚ
  | [], x => x
  | t :: cr, _ => lastDist cr t.2.2

theorem cStep_done (I : List Nat) (F : List ℚ) (x : ℚ) : ∀ l : List (Nat × ℚ),
    List.foldl cStep (I, F, x, true) l = (I, F, x, true)
  | [] => rfl
  | _ :: l => by rw [List.foldl_cons]; exact cStep_done I F x l

/-- the collection loop computes the model's `collect` (indices, factors, last distance) -/
theorem cStep_collect : ∀ (N : List (ℚ × Nat)) (I : List Nat) (F : List ℚ) (x : ℚ),
    ∃ b, List.foldl cStep (I, F, x, false) (N.map fun p => (p.2, p.1)) =
      (I ++ (collect N).map (fun t => t.1), F ++ (collect N).map (fun t => t.2.1), lastDist (collect N) x, b)
  | [], I, F, x => ⟨false, by simp [collect, lastDist]⟩
  | (dd, i) :: rest, I, F, x => by
    rw [List.map_cons, List.foldl_cons]
    by_cases h : dd = 0
    · refine ⟨true, ?_⟩
      have hs : cStep (I, F, x, false) (i, dd) = (I ++ [i], F ++ [1], dd, true) := by simp [cStep, h]
      rw [hs, cStep_done]
      simp [collect, h, lastDist]
    · obtain ⟨b, hb⟩ := cStep_collect rest (I ++ [i]) (F ++ [1 / dd]) dd
      refine ⟨b, ?_⟩
      have hs : cStep (I, F, x, false) (i, dd) = (I ++ [i], F ++ [1 / dd], dd, false) := by simp [cStep, h]
      rw [hs, hb]
      simp [collect, h, lastDist]

theorem wStep_fold : ∀ (l : List (Nat × ℚ)) (w : LC), List.foldl wStep w l = w ++ l.map fun p => (p.1, p.2)
  | [], w => by simp
  | p :: l, w => by
    rw [List.foldl_cons, wStep_fold l]
    simp [wStep, lcAdd, lcTerm]

/-- what `sel_idw` appends for one query, as generated, from the collected (indices, factors) and the last distance -/
def rowOf (I : List Nat) (F : List ℚ) (x : ℚ) : Option LC :=
  if (decide (I.length = 0) || (decide (I.length = 1) && decide (x > 0))) then none
  else if decide (I.tail.length > 0) then
    some (lcScale (List.foldl wStep (lcTerm (headR F) (headN I)) (List.zip I.tail F.tail)) (1 / F.sum))
  else some (List.foldl wStep (lcTerm (headR F) (headN I)) (List.zip I.tail F.tail))

/-- the model's `idwRow` on the collected neighbours -/
def rowM (c : List (Nat × ℚ × ℚ)) : Option (List (Nat × ℚ)) :=
  match c with
  | [] => none
  | [(i, f, dist)] => if dist > 0 then none else some [(i, f)]
  | _ => if (c.map fun p => p.2.1).sum = 0 then none else some (c.map fun p => (p.1, p.2.1 * (1 / (c.map fun p => p.2.1).sum)))

theorem idwRow_eq_rowM (d : Vec) (tol : ℚ) (ms : Option Int) : idwRow d tol ms = rowM (collect (nearer d tol ms)) := rfl

theorem collect_factor_pos : ∀ (N : List (ℚ × Nat)), (∀ p ∈ N, 0 ≤ p.1) → ∀ t ∈ collect N, 0 < t.2.1
  | [], _, t, ht => by simp [collect] at ht
  | (dd, i) :: rest, h, t, ht => by
    by_cases h0 : dd = 0
    · simp [collect, h0] at ht
      subst ht; norm_num
    · simp only [collect, h0, if_false, List.mem_cons] at ht
      rcases ht with rfl | ht
      · have : 0 ≤ dd := h (dd, i) List.mem_cons_self
        exact one_div_pos.mpr (lt_of_le_of_ne this (Ne.symm h0))
      · exact collect_factor_pos rest (fun p hp => h p (List.mem_cons_of_mem _ hp)) t ht

/-- **the generated row = the model's row** when no distance is negative (then `Σ factors ≠ 0`) -/
theorem rowOf_collect (N : List (ℚ × Nat)) (h : ∀ p ∈ N, 0 ≤ p.1) (x : ℚ) :
    rowOf ((collect N).map fun t => t.1) ((collect N).map fun t => t.2.1) (lastDist (collect N) x) = rowM (collect N) := by
  have hpos := collect_factor_pos N h
  generalize collect N = c at hpos
  match c, hpos with
  | [], _ => simp [rowOf, rowM]
  | [(i, f, dd)], _ =>
    by_cases hd : dd > 0
    · simp [rowOf, rowM, lastDist, hd]
    · simp [rowOf, rowM, lastDist, hd, headR, headN, lcTerm]
  | t1 :: t2 :: cr, hpos =>
    have hs : 0 < ((t1 :: t2 :: cr).map fun p => p.2.1).sum := by
      apply List.sum_pos
      · intro y hy
        obtain ⟨r, hr, rfl⟩ := List.mem_map.mp hy
        exact hpos r hr
      · simp
    have hne : ((t1 :: t2 :: cr).map fun p => p.2.1).sum ≠ 0 := ne_of_gt hs
    unfold rowOf rowM
    simp only [hne, if_false]
    simp only [List.map_cons, List.length_cons, List.tail_cons, headR, headN, List.headD_cons, wStep_fold,
      List.zip_cons_cons, lcTerm, lcScale]
    simp [List.zip_map', List.map_map, Function.comp_def]

end WS.SelBridge

import WsVerif.Model.IO.Instruments
import Mathlib.Data.Rat.Floor
import Mathlib.Tactic.NormNum
import Mathlib.Tactic.FieldSimp
import Mathlib.Tactic.Ring
import Mathlib.Tactic.Linarith
import Mathlib.Data.List.Perm.Basic
import Mathlib.Algebra.BigOperators.Group.List.Basic
/-! Helper lemmas for C13 (instrument readers): finite sums, `pmod`, the stable insertion sort and `argsort`. -/
namespace WS.Instr
open WS

theorem sum_map_affine (g : List ℚ) (a b : ℚ) :
    (g.map fun x => x * a / b).sum = g.sum * a / b := by
  induction g with
  | nil => simp
  | cons x t ih => simp only [List.map_cons, List.sum_cons, ih]; ring

theorem sum_map_lmul (g : List ℚ) (k : ℚ) : (g.map fun x => k * x).sum = k * g.sum := by
  induction g with
  | nil => simp
  | cons x t ih => simp only [List.map_cons, List.sum_cons, ih]; ring

theorem sum_zipWith_affine (k h p q : ℚ) (a b : List ℚ) (hlen : a.length = b.length) :
    (List.zipWith (fun x y => k * (h + p * x + q * y)) a b).sum =
      k * ((a.length : ℚ) * h + p * a.sum + q * b.sum) := by
  induction a generalizing b with
  | nil => cases b <;> simp at hlen ⊢
  | cons x t ih =>
    cases b with
    | nil => simp at hlen
    | cons y u =>
      simp only [List.zipWith_cons_cons, List.sum_cons, List.length_cons]
      rw [ih u (by simpa using hlen)]
      push_cast; ring

/-- scaling argument and modulus by the same non-zero factor scales the remainder -/
theorem pmod_mul_left (k x m : ℚ) (hk : k ≠ 0) (hm : m ≠ 0) : pmod (k * x) (k * m) = k * pmod x m := by
  unfold pmod
  have : k * x / (k * m) = x / m := by field_simp
  rw [this]; ring

theorem pmod_add_period (x m : ℚ) (hm : 0 < m) : pmod (x + m) m = pmod x m := by
  unfold pmod
  have hm' : m ≠ 0 := ne_of_gt hm
  have e : (x + m) / m = x / m + ((1 : ℤ) : ℚ) := by field_simp; push_cast; ring
  have : ((x + m) / m).floor = (x / m).floor + 1 := by
    rw [e]; exact Int.floor_add_intCast (x / m) 1
  rw [this]; push_cast; ring

theorem pmod_sub_period (x m : ℚ) (hm : 0 < m) : pmod (x - m) m = pmod x m := by
  have := pmod_add_period (x - m) m hm
  rw [sub_add_cancel] at this; exact this.symm

theorem getD_transpose (m : Nat) (e : Mat) (i : Nat) (hi : i < m) :
    (transpose m e).getD i [] = e.map fun r => r.getD i 0 := by
  unfold transpose
  simp [List.getD_eq_getElem?_getD, hi]

section Sorting
variable {α κ : Type} [LE κ] [DecidableLE κ]

theorem insertBy_perm (key : α → κ) (x : α) (l : List α) : (insertBy key x l).Perm (x :: l) := by
  induction l with
  | nil => simp [insertBy]
  | cons y t ih =>
    unfold insertBy
    split
    · exact List.Perm.refl _
    · exact ((List.Perm.cons y ih).trans (List.Perm.swap x y t))

/-- the sort keeps the multiset of records -/
theorem sortBy_perm (key : α → κ) (l : List α) : (sortBy key l).Perm l := by
  induction l with
  | nil => simp [sortBy]
  | cons x t ih =>
    unfold sortBy
    exact (insertBy_perm key x _).trans (List.Perm.cons x ih)

theorem insertBy_sorted (htot : ∀ a b : κ, a ≤ b ∨ b ≤ a) (htrans : ∀ a b c : κ, a ≤ b → b ≤ c → a ≤ c)
    (key : α → κ) (x : α) (l : List α) (h : l.Pairwise fun a b => key a ≤ key b) :
    (insertBy key x l).Pairwise fun a b => key a ≤ key b := by
  induction l with
  | nil => simp [insertBy]
  | cons y t ih =>
    rw [List.pairwise_cons] at h
    unfold insertBy
    split
    · rename_i hxy
      rw [List.pairwise_cons]
      refine ⟨?_, List.pairwise_cons.mpr h⟩
      intro z hz
      rcases List.mem_cons.mp hz with rfl | hz
      · exact hxy
      · exact htrans _ _ _ hxy (h.1 z hz)
    · rename_i hxy
      rw [List.pairwise_cons]
      refine ⟨?_, ih h.2⟩
      intro z hz
      have hz' := (insertBy_perm key x t).mem_iff.mp hz
      rcases List.mem_cons.mp hz' with rfl | hz'
      · rcases htot (key z) (key y) with h1 | h1
        · exact absurd h1 hxy
        · exact h1
      · exact h.1 z hz'

/-- the output is ordered by the key -/
theorem sortBy_sorted (htot : ∀ a b : κ, a ≤ b ∨ b ≤ a) (htrans : ∀ a b c : κ, a ≤ b → b ≤ c → a ≤ c)
    (key : α → κ) (l : List α) : (sortBy key l).Pairwise fun a b => key a ≤ key b := by
  induction l with
  | nil => simp [sortBy]
  | cons x t ih => unfold sortBy; exact insertBy_sorted htot htrans key x _ ih
end Sorting

/-- equal time stamps keep their file order is not claimed by the property; what is: the permutation
    applied to the time labels is the one applied to the data (`sortPerm` indexes both) -/
theorem sortPerm_perm (keys : List Int) : (sortPerm keys).Perm (List.range keys.length) := by
  unfold sortPerm
  have h := (sortBy_perm (fun p : Int × Nat => p.1) keys.zipIdx).map (fun x : Int × Nat => x.2)
  have e : keys.zipIdx.map (fun x : Int × Nat => x.2) = List.range keys.length := by
    rw [show (fun x : Int × Nat => x.2) = Prod.snd from rfl, List.zipIdx_map_snd, List.range_eq_range']
  rw [e] at h
  exact h

theorem argsort_perm (keys : Vec) : (argsort keys).Perm (List.range keys.length) := by
  unfold argsort
  have h := (sortBy_perm (fun p : Rat × Nat => p.1) keys.zipIdx).map (fun x : Rat × Nat => x.2)
  have e : keys.zipIdx.map (fun x : Rat × Nat => x.2) = List.range keys.length := by
    rw [show (fun x : Rat × Nat => x.2) = Prod.snd from rfl, List.zipIdx_map_snd, List.range_eq_range']
  rw [e] at h
  exact h

theorem takeIdx_argsort (keys : Vec) :
    takeIdx keys (argsort keys) = (sortBy (fun p : Rat × Nat => p.1) keys.zipIdx).map Prod.fst := by
  unfold takeIdx argsort
  rw [List.map_map]
  apply List.map_congr_left
  intro p hp
  have hp' := (sortBy_perm (fun p : Rat × Nat => p.1) keys.zipIdx).mem_iff.mp hp
  have := List.mem_zipIdx_iff_getElem?.mp hp'
  simp [List.getD_eq_getElem?_getD, this]

/-- the labels re-ordered by `argsort` are sorted -/
theorem argsort_sorted (keys : Vec) : (takeIdx keys (argsort keys)).Pairwise (· ≤ ·) := by
  rw [takeIdx_argsort]
  have h := sortBy_sorted (κ := Rat) (fun a b => le_total a b) (fun _ _ _ => le_trans)
    (fun p : Rat × Nat => p.1) keys.zipIdx
  exact List.pairwise_map.mpr h

theorem range_map_getD_zip (keys row : Vec) (hlen : row.length = keys.length) :
    (List.range keys.length).map (fun k => (keys.getD k 0, row.getD k 0)) = List.zip keys row := by
  apply List.ext_getElem
  · simp [hlen]
  · intro i h1 h2
    have hk : i < keys.length := by simpa using h1
    have hr : i < row.length := by rw [hlen]; exact hk
    simp [List.getD_eq_getElem?_getD, hk, hr]

/-- re-ordering labels and a data row by the same `argsort` keeps every (label, value) pair -/
theorem argsort_pairs (keys row : Vec) (hlen : row.length = keys.length) :
    (List.zip (takeIdx keys (argsort keys)) (takeIdx row (argsort keys))).Perm (List.zip keys row) := by
  unfold takeIdx
  rw [List.zip_map']
  have h := (argsort_perm keys).map (fun k => (keys.getD k 0, row.getD k 0))
  rw [range_map_getD_zip keys row hlen] at h
  exact h

theorem insertBy_head {α : Type} (key : α → Int) (x : α) (l : List α)
    (h : ∀ y ∈ l, key x ≤ key y) : insertBy key x l = x :: l := by
  cases l with
  | nil => rfl
  | cons y t => unfold insertBy; rw [if_pos (h y (by simp))]

theorem sortBy_of_sorted {α : Type} (key : α → Int) (l : List α)
    (h : l.Pairwise fun a b => key a ≤ key b) : sortBy key l = l := by
  induction l with
  | nil => rfl
  | cons x t ih =>
    rw [List.pairwise_cons] at h
    unfold sortBy
    rw [ih h.2]; exact insertBy_head key x t h.1

theorem dedupAdj_of_strict (l : List Int) (h : l.Pairwise (· < ·)) : dedupAdj l = l := by
  induction l with
  | nil => rfl
  | cons a t ih =>
    cases t with
    | nil => rfl
    | cons b u =>
      rw [List.pairwise_cons] at h
      have hab : a ≠ b := ne_of_lt (h.1 b (by simp))
      unfold dedupAdj
      rw [if_neg hab, ih h.2]

theorem zip_fst_snd {α : Type} (l : List (Int × α)) : List.zip (l.map (·.1)) (l.map (·.2)) = l := by
  induction l with
  | nil => rfl
  | cons x t ih => simp [ih]

theorem neg_floor_neg_nat (n : Nat) : (-((-(n : ℚ)).floor)).toNat = n := by
  have : (-(n : ℚ)).floor = -(n : ℤ) := by
    have : (-(n : ℚ)) = (((-(n : ℤ)) : ℤ) : ℚ) := by push_cast; ring
    rw [this]; exact Int.floor_intCast (R := ℚ) (-(n : ℤ))
  rw [this]; simp

end WS.Instr

import WsVerif.Model.Assembly
import WsVerif.Model.NpArr
import Mathlib.Tactic.Linarith
import Mathlib.Data.List.Range
/-!
Helper lemmas for `Props/C03ptm.lean`: the list-level forms that `harness/translate_ptm.py` generates from the statements of
`np_ptm1/2/3` (folds over `List.range`, `+=` on list slots, `argsort` + fancy indexing, append loops) are the recursive /
`map` forms of `Model/Assembly.lean`, projected to the returned arrays (`Part.vals`).

Nothing here depends on generated code.
-/
namespace WS.PtmBridge
open WS WS.Assembly

/-! ## the three per-bin arrays of the source, read off the model's list of bins -/

/-- `spectrum` (flattened) -/
def bE (bins : List Bin) : List Rat := bins.map fun b => b.e
/-- `watershed_map` (flattened) -/
def bL (bins : List Bin) : List Nat := bins.map fun b => b.lab
/-- `windseamask` (flattened) -/
def bW (bins : List Bin) : List Bool := bins.map fun b => b.ws
/-- the returned arrays of a list of model partitions (the masks are the model's bookkeeping, the source has none) -/
def vals (ps : List Part) : List (List Rat) := ps.map fun p => p.vals

/-- any three arrays of one shape are the arrays of a list of bins -/
def mkBins (E : List Rat) (labs : List Nat) (ws : List Bool) : List Bin :=
  List.zipWith (fun (x : Rat) (lw : Nat × Bool) => (⟨x, lw.1, lw.2⟩ : Bin)) E (List.zip labs ws)

theorem bE_mkBins : ∀ (E : List Rat) (labs : List Nat) (ws : List Bool), labs.length = E.length → ws.length = E.length →
    bE (mkBins E labs ws) = E
  | [], _, _, _, _ => by simp [mkBins, bE]
  | x :: E, l :: labs, w :: ws, h1, h2 => by
    have := bE_mkBins E labs ws (by simpa using h1) (by simpa using h2)
    simp only [mkBins, bE] at this ⊢
    simp [this]
  | _ :: _, [], _, h1, _ => by simp at h1
  | _ :: _, _ :: _, [], _, h2 => by simp at h2

theorem bL_mkBins : ∀ (E : List Rat) (labs : List Nat) (ws : List Bool), labs.length = E.length → ws.length = E.length →
    bL (mkBins E labs ws) = labs
  | [], [], _, _, _ => by simp [mkBins, bL]
  | [], _ :: _, _, h1, _ => by simp at h1
  | x :: E, l :: labs, w :: ws, h1, h2 => by
    have := bL_mkBins E labs ws (by simpa using h1) (by simpa using h2)
    simp only [mkBins, bL] at this ⊢
    simp [this]
  | _ :: _, [], _, h1, _ => by simp at h1
  | _ :: _, _ :: _, [], _, h2 => by simp at h2

theorem bW_mkBins : ∀ (E : List Rat) (labs : List Nat) (ws : List Bool), labs.length = E.length → ws.length = E.length →
    bW (mkBins E labs ws) = ws
  | [], _, [], _, _ => by simp [mkBins, bW]
  | [], _, _ :: _, _, h2 => by simp at h2
  | x :: E, l :: labs, w :: ws, h1, h2 => by
    have := bW_mkBins E labs ws (by simpa using h1) (by simpa using h2)
    simp only [mkBins, bW] at this ⊢
    simp [this]
  | _ :: _, [], _, h1, _ => by simp at h1
  | _ :: _, _ :: _, [], _, h2 => by simp at h2

/-! ## array primitives -/

theorem maxNat_bL (bins : List Bin) : Np.maxNat (bL bins) = nparts bins := by
  induction bins with
  | nil => rfl
  | cons b t ih =>
    simp only [bL, Np.maxNat, List.map_cons, List.foldr_cons, nparts] at ih ⊢
    rw [ih]

theorem zeros_vals (bins : List Bin) : (zeros bins).vals = Np.zerosLike (bE bins) := by
  simp only [zeros, select, Np.zerosLike, bE]
  induction bins with
  | nil => rfl
  | cons b t ih => simp only [List.map_cons, ih]; simp

theorem basin_vals (bins : List Bin) (k : Nat) :
    (basin bins k).vals = Np.whereAS (Np.eqS (bL bins) k) (bE bins) 0 := by
  simp only [basin, select, Np.whereAS, Np.eqS, bL, bE, List.zipWith_map_left, List.zipWith_map_right]
  induction bins with
  | nil => rfl
  | cons b t ih => simp

theorem add_vals (a b : Part) : (a.add b).vals = Np.add a.vals b.vals := rfl

theorem whereWs_vals (bins : List Bin) (p : Part) : (whereWs bins p).vals = Np.whereAS (bW bins) p.vals 0 := by
  simp [whereWs, Np.whereAS, bW, List.zipWith_map_left]

theorem whereNotWs_vals (bins : List Bin) (p : Part) : (whereNotWs bins p).vals = Np.whereSA (bW bins) 0 p.vals := by
  simp [whereNotWs, Np.whereSA, bW, List.zipWith_map_left]

/-- `part[windseamask].sum()` (select, then sum) is the model's sum of `where(ws ∧ lab = k, e, 0)` -/
theorem maskSel_sum (bins : List Bin) (k : Nat) :
    Np.sum (Np.maskSel (basin bins k).vals (bW bins)) = wsNum bins k := by
  induction bins with
  | nil => rfl
  | cons b t ih =>
    simp only [Np.sum, Np.maskSel, basin, select, bW, wsNum] at ih ⊢
    simp only [List.map_cons, List.zip_cons_cons, List.sum_cons, List.filter_cons]
    cases hw : b.ws <;> simp_all

theorem sum_basin (bins : List Bin) (k : Nat) : Np.sum (basin bins k).vals = wsDen bins k := rfl

/-- the guarded comparison of the generated code is the model's `isWindSea` -/
theorem fdiv_gt (num den wscut : Rat) :
    Np.FDiv.gt (Np.fdiv num den) wscut = (if den = 0 then decide (0 < num) else decide (wscut < num / den)) := by
  unfold Np.fdiv
  by_cases hd : den = 0
  · simp only [hd, if_true]
    by_cases hp : 0 < num
    · simp [hp, Np.FDiv.gt]
    · by_cases hn : num < 0 <;> simp [hp, hn, Np.FDiv.gt]
  · simp [hd, Np.FDiv.gt]

theorem windsea_test (wscut : Rat) (bins : List Bin) (k : Nat) :
    Np.FDiv.gt (Np.fdiv (Np.sum (Np.maskSel (basin bins k).vals (bW bins))) (Np.sum (basin bins k).vals)) wscut
      = isWindSea wscut bins k := by
  rw [maskSel_sum, sum_basin, fdiv_gt]; rfl

/-! ## loops -/

/-- `for i in …: l.append(g(i))` -/
theorem foldl_append_map {α β} (g : β → α) (xs : List β) (init : List α) :
    List.foldl (fun acc i => acc ++ [g i]) init xs = init ++ xs.map g := by
  induction xs generalizing init with
  | nil => simp
  | cons x xs ih => simp [ih]

/-- `for i in range(n): l.append(z)` -/
theorem foldl_append_const {α} (z : α) (n : Nat) (init : List α) :
    List.foldl (fun acc (_ : Nat) => acc ++ [z]) init (List.range n) = init ++ List.replicate n z := by
  rw [foldl_append_map (fun _ => z)]
  congr 1
  induction n with
  | zero => rfl
  | succ n ih => rw [List.range_succ, List.map_append, ih, List.replicate_succ']; rfl

theorem range2_one (n : Nat) : Np.range2 1 (n + 1) = List.range' 1 n := by simp [Np.range2]

theorem labels_eq_map (bins : List Bin) : labels bins = (List.range (nparts bins)).map (· + 1) := by
  simp [labels, List.range'_eq_map_range, Nat.add_comm]

theorem modify_append_length {α} (f : α → α) (A : List α) (x : α) (r : List α) :
    (A ++ x :: r).modify A.length f = A ++ f x :: r := by
  induction A with
  | nil => simp
  | cons a A ih => simp [ih]


/-! ## the assignment loop of PTM1 / PTM2

The generated loop threads a tuple (accumulated wind-sea array(s), list of swell slots) through `List.range nparts` and
updates slot `ipart` in place; the model maps over the labels `1..nparts` and folds the accumulators separately. -/

/-- generic form: after `m ≤ n` rounds the first `m` slots are final, the others still hold the initial `z` -/
theorem loop_slots {σ β} (n : Nat) (c : Nat → Bool) (accT accE : σ → Nat → σ) (slotE : β → Nat → β) (z : β) (a0 : σ)
    (step : σ × List β → Nat → σ × List β)
    (hstep : ∀ st i, step st i = if c i then (accT st.1 i, st.2) else (accE st.1 i, st.2.modify i (fun x => slotE x i)))
    (m : Nat) (hm : m ≤ n) :
    List.foldl step (a0, List.replicate n z) (List.range m) =
      (List.foldl (fun a i => if c i then accT a i else accE a i) a0 (List.range m),
       (List.range m).map (fun i => if c i then z else slotE z i) ++ List.replicate (n - m) z) := by
  induction m with
  | zero => simp
  | succ m ih =>
    have hlt : m < n := hm
    rw [List.range_succ, List.foldl_append, ih (Nat.le_of_lt hlt), List.foldl_append]
    simp only [List.foldl_cons, List.foldl_nil, hstep]
    have hrep : List.replicate (n - m) z = z :: List.replicate (n - (m + 1)) z := by
      have : n - m = (n - (m + 1)) + 1 := by omega
      rw [this, List.replicate_succ]
    have hlen : ((List.range m).map (fun i => if c i then z else slotE z i)).length = m := by simp
    cases hc : c m
    · simp only [Bool.false_eq_true, if_false, List.map_append, List.map_cons, List.map_nil, hc]
      rw [hrep]
      congr 1
      have := modify_append_length (fun x => slotE x m) ((List.range m).map (fun i => if c i then z else slotE z i)) z
        (List.replicate (n - (m + 1)) z)
      rw [hlen] at this
      rw [this]; simp
    · simp only [if_true, List.map_append, List.map_cons, List.map_nil, hc]
      rw [hrep]; simp

theorem loop_slots_full {σ β} (n : Nat) (c : Nat → Bool) (accT accE : σ → Nat → σ) (slotE : β → Nat → β) (z : β) (a0 : σ)
    (step : σ × List β → Nat → σ × List β)
    (hstep : ∀ st i, step st i = if c i then (accT st.1 i, st.2) else (accE st.1 i, st.2.modify i (fun x => slotE x i))) :
    List.foldl step (a0, List.replicate n z) (List.range n) =
      (List.foldl (fun a i => if c i then accT a i else accE a i) a0 (List.range n),
       (List.range n).map (fun i => if c i then z else slotE z i)) := by
  rw [loop_slots n c accT accE slotE z a0 step hstep n (Nat.le_refl n)]; simp

/-- the accumulated wind sea, as a fold on arrays over `0..nparts-1` -/
theorem wseaAcc_vals (wscut : Rat) (bins : List Bin) (ks : List Nat) (acc : Part) :
    (wseaAcc wscut bins ks acc).vals
      = List.foldl (fun a k => if isWindSea wscut bins k then Np.add a (basin bins k).vals else a) acc.vals ks := by
  unfold wseaAcc
  induction ks generalizing acc with
  | nil => rfl
  | cons k ks ih =>
    simp only [List.foldl_cons]
    rw [ih]
    cases isWindSea wscut bins k <;> rfl

theorem wsea2Acc_vals (wscut : Rat) (bins : List Bin) (ks : List Nat) (acc : Part) :
    (wsea2Acc wscut bins ks acc).vals
      = List.foldl (fun a k => if isWindSea wscut bins k then a else Np.add a (whereWs bins (basin bins k)).vals) acc.vals ks := by
  unfold wsea2Acc
  induction ks generalizing acc with
  | nil => rfl
  | cons k ks ih =>
    simp only [List.foldl_cons]
    rw [ih]
    cases isWindSea wscut bins k <;> rfl

/-- PTM1: the generated loop (any `step` that reads as below) ends in (wind-sea array, swell slots) of the model -/
theorem ptm1_loop_bridge (wscut : Rat) (bins : List Bin)
    (step : List Rat × List (List Rat) → Nat → List Rat × List (List Rat))
    (hstep : ∀ st i, step st i =
      if isWindSea wscut bins (i + 1) then (Np.add st.1 (basin bins (i + 1)).vals, st.2)
      else (st.1, Np.modifyAt st.2 i (fun x => Np.add x (basin bins (i + 1)).vals))) :
    List.foldl step ((zeros bins).vals, List.replicate (nparts bins) (zeros bins).vals) (List.range (nparts bins))
      = ((ptm1Wsea wscut bins).vals, vals (ptm1Slots wscut bins)) := by
  rw [loop_slots_full (nparts bins) (fun i => isWindSea wscut bins (i + 1))
    (fun a i => Np.add a (basin bins (i + 1)).vals) (fun a _ => a) (fun x i => Np.add x (basin bins (i + 1)).vals)
    (zeros bins).vals (zeros bins).vals step (by intro st i; rw [hstep]; rfl)]
  congr 1
  · rw [ptm1Wsea, wseaAcc_vals, labels_eq_map, List.foldl_map]
  · simp only [vals, ptm1Slots, labels_eq_map, List.map_map]
    apply List.map_congr_left
    intro i _
    simp only [Function.comp]
    cases isWindSea wscut bins (i + 1) <;> rfl

/-- PTM2: (primary wind sea, (secondary wind sea, swell slots)) -/
theorem ptm2_loop_bridge (wscut : Rat) (bins : List Bin)
    (step : List Rat × List Rat × List (List Rat) → Nat → List Rat × List Rat × List (List Rat))
    (hstep : ∀ st i, step st i =
      if isWindSea wscut bins (i + 1) then (Np.add st.1 (basin bins (i + 1)).vals, st.2.1, st.2.2)
      else (st.1, Np.add st.2.1 (whereWs bins (basin bins (i + 1))).vals,
            Np.modifyAt st.2.2 i (fun x => Np.add x (whereNotWs bins (basin bins (i + 1))).vals))) :
    List.foldl step ((zeros bins).vals, (zeros bins).vals, List.replicate (nparts bins) (zeros bins).vals)
        (List.range (nparts bins))
      = ((ptm1Wsea wscut bins).vals, (ptm2Wsea2 wscut bins).vals, vals (ptm2Slots wscut bins)) := by
  -- re-associate the state `(a, (b, l))` as `((a, b), l)`
  let assoc : List Rat × List Rat × List (List Rat) → (List Rat × List Rat) × List (List Rat) := fun s => ((s.1, s.2.1), s.2.2)
  let back : (List Rat × List Rat) × List (List Rat) → List Rat × List Rat × List (List Rat) := fun s => (s.1.1, s.1.2, s.2)
  have hfold : ∀ (l : List Nat) (s : List Rat × List Rat × List (List Rat)),
      List.foldl step s l = back (List.foldl (fun t i => assoc (step (back t) i)) (assoc s) l) := by
    intro l
    induction l with
    | nil => intro s; rfl
    | cons i l ih => intro s; simp only [List.foldl_cons]; rw [ih]
  rw [hfold]
  have := loop_slots_full (nparts bins) (fun i => isWindSea wscut bins (i + 1))
    (fun (a : List Rat × List Rat) i => (Np.add a.1 (basin bins (i + 1)).vals, a.2))
    (fun a i => (a.1, Np.add a.2 (whereWs bins (basin bins (i + 1))).vals))
    (fun x i => Np.add x (whereNotWs bins (basin bins (i + 1))).vals)
    (zeros bins).vals ((zeros bins).vals, (zeros bins).vals) (fun t i => assoc (step (back t) i))
    (by intro st i; simp only [hstep, assoc, back]; cases isWindSea wscut bins (i + 1) <;> rfl)
  simp only [assoc] at this ⊢
  rw [this]
  simp only [back]
  -- the pair of accumulators splits into two independent folds
  have hsplit : ∀ (l : List Nat) (a b : List Rat),
      List.foldl (fun (a : List Rat × List Rat) i => if isWindSea wscut bins (i + 1) = true
          then (Np.add a.1 (basin bins (i + 1)).vals, a.2) else (a.1, Np.add a.2 (whereWs bins (basin bins (i + 1))).vals)) (a, b) l
        = (List.foldl (fun a i => if isWindSea wscut bins (i + 1) then Np.add a (basin bins (i + 1)).vals else a) a l,
           List.foldl (fun b i => if isWindSea wscut bins (i + 1) then b else Np.add b (whereWs bins (basin bins (i + 1))).vals) b l) := by
    intro l
    induction l with
    | nil => intro a b; rfl
    | cons i l ih =>
      intro a b
      simp only [List.foldl_cons]
      cases hc : isWindSea wscut bins (i + 1) <;> simp only [Bool.false_eq_true, if_false, if_true] <;> rw [ih]
  rw [hsplit]
  simp only
  congr 1
  · rw [ptm1Wsea, wseaAcc_vals, labels_eq_map, List.foldl_map]
  · congr 1
    · rw [ptm2Wsea2, wsea2Acc_vals, labels_eq_map, List.foldl_map]
    · simp only [vals, ptm2Slots, labels_eq_map, List.map_map]
      apply List.map_congr_left
      intro i _
      simp only [Function.comp]
      cases isWindSea wscut bins (i + 1) <;> rfl

/-! ## the sort -/

/-- `np.array(l)[np.argsort([-key(s) for s in l])]` with ties in index order = the stable descending merge sort by `key` -/
theorem take_argsort (key : List Rat → Rat) (L : List (List Rat)) :
    Np.take L (Np.argsort (L.map fun s => -(key s))) = L.mergeSort fun a b => decide (key b ≤ key a) := by
  unfold Np.take Np.argsort
  simp only [List.length_map]
  have hl : ∀ i ∈ List.range L.length, ∀ j ∈ List.range L.length,
      decide ((L.map fun s => -(key s)).getD i 0 ≤ (L.map fun s => -(key s)).getD j 0)
        = decide (key (L.getD j []) ≤ key (L.getD i [])) := by
    intro i hi j hj
    have hi' : i < L.length := List.mem_range.mp hi
    have hj' : j < L.length := List.mem_range.mp hj
    simp [List.getD_eq_getElem?_getD, hi', hj']
  rw [List.map_mergeSort (s := fun a b => decide (key b ≤ key a)) hl]
  congr 1
  apply List.ext_getElem
  · simp
  · intro i h1 h2
    simp [List.getD_eq_getElem?_getD, h2]

theorem sort_bridge (key : Vec → Rat) (slots : List Part) :
    Np.take (vals slots) (Np.argsort ((vals slots).map fun s => -(key s))) = vals (sortSlots key slots) := by
  rw [take_argsort]
  unfold vals sortSlots
  exact (List.map_mergeSort (f := fun p : Part => p.vals) (r := fun a b => decide (key b.vals ≤ key a.vals))
    (s := fun a b => decide (key b ≤ key a)) (l := slots) (fun _ _ _ _ => rfl)).symm

theorem vals_length (ps : List Part) : (vals ps).length = ps.length := by simp [vals]

/-! ## the requested count -/

/-- truncate / pad, as the generated `if nparts > s … elif nparts < s …` reads after the append loop is summed up -/
theorem fit_bridge (bins : List Bin) (n s : Nat) (sorted : List Part) :
    (if n > s then List.take s (vals sorted)
      else if n < s then vals sorted ++ List.replicate (s - (vals sorted).length) (zeros bins).vals
      else vals sorted) = vals (fitCount bins n s sorted) := by
  unfold fitCount
  by_cases h1 : s < n
  · simp [h1, vals, List.map_take]
  · by_cases h2 : n < s
    · simp [h1, h2, vals]
    · simp [h1, h2]

theorem dropNull_bridge (sorted : List Part) :
    List.filter (fun s => decide (Np.sum s > 0)) (vals sorted) = vals (dropNull sorted) := by
  simp only [vals, dropNull, List.filter_map, Np.sum]
  rfl

/-! ## PTM3 -/

theorem ptm3_slots_bridge (bins : List Bin) :
    (List.range' 1 (nparts bins)).map (fun k => Np.whereAS (Np.eqS (bL bins) k) (bE bins) 0) = vals (ptm3Slots bins) := by
  simp [vals, ptm3Slots, labels, basin_vals]

end WS.PtmBridge

import WsVerif.Model.Flood
/-! Invariants of the abstract flooding machine (`Model/Flood.lean`), preserved by every guarded step.
Headline statements are in `Props/C04.lean`. Mathlib-free. -/
namespace WS.FloodL
open WS.Flood

theorem getD_set {α} (a : Array α) (i j : Nat) (v d : α) :
    (a.setIfInBounds i v).getD j d = if i = j ∧ i < a.size then v else a.getD j d := by
  simp only [Array.getD_eq_getD_getElem?, Array.getElem?_setIfInBounds]
  by_cases h : i = j
  · subst h
    by_cases h2 : i < a.size
    · simp [h2]
    · simp [h2]
  · simp [h]

theorem getD_replicate {α} (n j : Nat) (v : α) : (Array.replicate n v).getD j v = v := by
  simp only [Array.getD_eq_getD_getElem?, Array.getElem?_replicate]
  split <;> rfl

theorem getD_lt_of_ne {α} (a : Array α) (j : Nat) (d : α) (h : a.getD j d ≠ d) : j < a.size := by
  false_or_by_contra
  rename_i hh
  apply h
  simp [Array.getD_eq_getD_getElem?, Array.getElem?_eq_none (Nat.le_of_not_lt hh)]

/-- final pixel of basin `k` -/
def FB (s : St) (k p : Nat) : Prop := s.finOf p = true ∧ s.labOf p = .basin k

/-- the seed pixel of basin `k` (labels start at 1) -/
def seedOf (s : St) (k : Nat) : Option Nat := if 1 ≤ k then s.seeds[k - 1]? else none

/-- `p` is joined to the seed of basin `k` by a chain of final basin-`k` pixels, consecutive ones adjacent -/
inductive Linked (g : Graph) (s : St) (k : Nat) : Nat → Prop
  | seed {p} : seedOf s k = some p → FB s k p → Linked g s k p
  | step {p q} : FB s k p → q ∈ g.adj p → Linked g s k q → Linked g s k p

theorem Linked.mono {g : Graph} {s s' : St} {k p : Nat}
    (hfb : ∀ x, FB s k x → FB s' k x) (hseed : ∀ x, seedOf s k = some x → seedOf s' k = some x)
    (h : Linked g s k p) : Linked g s' k p := by
  induction h with
  | seed hs hf => exact .seed (hseed _ hs) (hfb _ hf)
  | step hf ha _ ih => exact .step (hfb _ hf) ha ih

theorem Linked.fb {g : Graph} {s : St} {k p : Nat} (h : Linked g s k p) : FB s k p := by
  cases h with
  | seed _ hf => exact hf
  | step hf _ _ => exact hf

structure Inv (g : Graph) (s : St) : Prop where
  szLab : s.lab.size = g.n
  szFin : s.fin.size = g.n
  range : ∀ p k, s.labOf p = .basin k → 1 ≤ k ∧ k ≤ s.K
  seedsSz : s.seeds.size = s.K
  seedFB : ∀ k p, seedOf s k = some p → FB s k p
  link : ∀ p k, FB s k p → Linked g s k p
  finLab : ∀ x, s.finOf x = true → (s.labOf x).labelled = true
  done : ∀ x, x < g.n → g.level x < s.h → s.finOf x = true ∧ (s.labOf x).labelled = true
  snapOk : s.phase = .sweeping → ∀ x k, s.snapOf x = .basin k → s.labOf x = .basin k

theorem inv_init (g : Graph) : Inv g (St.init g.n) := by
  have hl : ∀ p, (St.init g.n).labOf p = .init := fun p => getD_replicate _ _ _
  have hf : ∀ p, (St.init g.n).finOf p = false := fun p => getD_replicate _ _ _
  refine ⟨by simp [St.init], by simp [St.init], ?_, by simp [St.init], ?_, ?_, ?_, ?_, ?_⟩
  · intro p k h; rw [hl] at h; cases h
  · intro k p h
    simp [seedOf, St.init] at h
  · intro p k h; have := h.1; rw [hf] at this; cases this
  · intro x h; rw [hf] at h; cases h
  · intro x _ h; simp [St.init] at h
  · intro h; simp [St.init] at h

/-! ### accessor lemmas for updated states -/
theorem labOf_setLab (s : St) (p x : Nat) (v : Lab) (l : Array Lab) (hl : l = s.lab.setIfInBounds p v)
    (s' : St) (hs : s'.lab = l) : s'.labOf x = if p = x ∧ p < s.lab.size then v else s.labOf x := by
  unfold St.labOf; rw [hs, hl, getD_set]

theorem finOf_setFin (s : St) (p x : Nat) (s' : St) (hs : s'.fin = s.fin.setIfInBounds p true) :
    s'.finOf x = if p = x ∧ p < s.fin.size then true else s.finOf x := by
  unfold St.finOf; rw [hs, getD_set]

theorem ite_some {α} {c : Prop} [Decidable c] {a b : α} (h : (if c then some a else none) = some b) : c ∧ a = b := by
  split at h
  · exact ⟨‹c›, by injection h⟩
  · cases h

/-- generic transfer of the linking invariant -/
theorem link_transfer {g : Graph} {s s' : St} (I : Inv g s)
    (hfb : ∀ k x, FB s k x → FB s' k x)
    (hseed : ∀ k x, seedOf s k = some x → seedOf s' k = some x)
    (hnew : ∀ k x, FB s' k x → FB s k x ∨ (∃ q, q ∈ g.adj x ∧ FB s k q) ∨ seedOf s' k = some x) :
    ∀ p k, FB s' k p → Linked g s' k p := by
  intro p k h
  rcases hnew k p h with h0 | ⟨q, hq, hfq⟩ | hs
  · exact (I.link p k h0).mono (hfb k) (hseed k)
  · exact .step h hq ((I.link q k hfq).mono (hfb k) (hseed k))
  · exact .seed hs h

/-- steps that change neither labels, finality, seeds, `K`, `h` nor the snapshot -/
theorem inv_frame {g : Graph} {s s' : St} (I : Inv g s)
    (hl : s'.lab = s.lab) (hf : s'.fin = s.fin) (hK : s'.K = s.K) (hs : s'.seeds = s.seeds)
    (hdone : ∀ x, x < g.n → g.level x < s'.h → s.finOf x = true ∧ (s.labOf x).labelled = true)
    (hsnap : s'.phase = .sweeping → ∀ x k, s'.snapOf x = .basin k → s.labOf x = .basin k) : Inv g s' := by
  have e1 : ∀ x, s'.labOf x = s.labOf x := fun x => by simp [St.labOf, hl]
  have e2 : ∀ x, s'.finOf x = s.finOf x := fun x => by simp [St.finOf, hf]
  have e4 : ∀ k, seedOf s' k = seedOf s k := fun k => by simp [seedOf, hs]
  have efb : ∀ k x, FB s' k x ↔ FB s k x := fun k x => by simp [FB, e1, e2]
  refine ⟨by rw [hl]; exact I.szLab, by rw [hf]; exact I.szFin, ?_, by rw [hs, hK]; exact I.seedsSz, ?_, ?_, ?_, ?_, ?_⟩
  · intro p k h; rw [e1] at h; rw [hK]; exact I.range p k h
  · intro k p h; rw [e4] at h; exact (efb k p).mpr (I.seedFB k p h)
  · exact link_transfer I (fun k x h => (efb k x).mpr h) (fun k x h => by rw [e4]; exact h)
      (fun k x h => Or.inl ((efb k x).mp h))
  · intro x h; rw [e2] at h; rw [e1]; exact I.finLab x h
  · intro x hx hlev; rw [e1, e2]; exact hdone x hx hlev
  · intro hph x k h; rw [e1]; exact hsnap hph x k h

/-- a label change at a pixel that is not final (before and after) and does not create/destroy seeds -/
theorem inv_relabel {g : Graph} {s : St} (I : Inv g s) (p : Nat) (v : Lab) (s' : St)
    (hl : s'.lab = s.lab.setIfInBounds p v) (hf : s'.fin = s.fin) (hK : s'.K = s.K) (hs : s'.seeds = s.seeds)
    (hh : s'.h = s.h) (hph : s'.phase ≠ .sweeping)
    (hnf : s.finOf p = false) (hv : ∀ k, v = .basin k → 1 ≤ k ∧ k ≤ s.K) : Inv g s' := by
  have e1 : ∀ x, s'.labOf x = if p = x ∧ p < s.lab.size then v else s.labOf x := fun x => by
    simp only [St.labOf, hl, getD_set]
  have e2 : ∀ x, s'.finOf x = s.finOf x := fun x => by simp [St.finOf, hf]
  have e4 : ∀ k, seedOf s' k = seedOf s k := fun k => by simp [seedOf, hs]
  have efb : ∀ k x, FB s' k x ↔ FB s k x := by
    intro k x
    unfold FB
    rw [e1, e2]
    by_cases hx : p = x
    · subst hx; simp [hnf]
    · simp [hx]
  refine ⟨by rw [hl, Array.size_setIfInBounds]; exact I.szLab, by rw [hf]; exact I.szFin, ?_,
    by rw [hs, hK]; exact I.seedsSz, ?_, ?_, ?_, ?_, ?_⟩
  · intro x k h
    rw [e1] at h; rw [hK]
    split at h
    · exact hv k h
    · exact I.range x k h
  · intro k x h; rw [e4] at h; exact (efb k x).mpr (I.seedFB k x h)
  · exact link_transfer I (fun k x h => (efb k x).mpr h) (fun k x h => by rw [e4]; exact h)
      (fun k x h => Or.inl ((efb k x).mp h))
  · intro x h; rw [e2] at h; rw [e1]
    have hxp : ¬(p = x ∧ p < s.lab.size) := by
      intro hc; rw [← hc.1, hnf] at h; cases h
    rw [if_neg hxp]; exact I.finLab x h
  · intro x hx hlev; rw [hh] at hlev
    have := I.done x hx hlev
    rw [e1, e2]
    refine ⟨this.1, ?_⟩
    have hxp : ¬(p = x ∧ p < s.lab.size) := by
      intro hc; rw [← hc.1, hnf] at this; cases this.1
    rw [if_neg hxp]; exact this.2
  · intro h; exact absurd h hph
theorem labelled_basin (k : Nat) : (Lab.basin k).labelled = true := rfl

/-- a mask pixel becomes a final pixel of basin `k` (steps `seed`, `flood`) -/
theorem inv_newfinal {g : Graph} {s : St} (I : Inv g s) (p k : Nat) (s' : St)
    (hl : s'.lab = s.lab.setIfInBounds p (.basin k)) (hf : s'.fin = s.fin.setIfInBounds p true)
    (hp : p < g.n) (hmask : s.labOf p = .mask) (hh : s'.h = s.h) (hph : s'.phase ≠ .sweeping)
    (hK : s.K ≤ s'.K) (hk : 1 ≤ k ∧ k ≤ s'.K) (hsz : s'.seeds.size = s'.K)
    (hseed : ∀ k' x, seedOf s k' = some x → seedOf s' k' = some x)
    (hseed' : ∀ k' x, seedOf s' k' = some x → seedOf s k' = some x ∨ (x = p ∧ k' = k))
    (hev : (∃ q, q ∈ g.adj p ∧ FB s k q) ∨ seedOf s' k = some p) : Inv g s' := by
  have hpl : p < s.lab.size := by rw [I.szLab]; exact hp
  have hpf : p < s.fin.size := by rw [I.szFin]; exact hp
  have e1 : ∀ x, s'.labOf x = if p = x then .basin k else s.labOf x := fun x => by
    simp only [St.labOf, hl, getD_set, hpl, and_true]
  have e2 : ∀ x, s'.finOf x = if p = x then true else s.finOf x := fun x => by
    simp only [St.finOf, hf, getD_set, hpf, and_true]
  have hfb : ∀ k' x, FB s k' x → FB s' k' x := by
    intro k' x h
    have hx : p ≠ x := by
      intro hc; subst hc; rw [h.2] at hmask; cases hmask
    unfold FB; rw [e1, e2, if_neg hx, if_neg hx]; exact h
  have hfb' : ∀ k' x, FB s' k' x → (x = p ∧ k' = k) ∨ FB s k' x := by
    intro k' x h
    unfold FB at h; rw [e1, e2] at h
    by_cases hx : p = x
    · simp only [if_pos hx] at h
      have := h.2; injection this with this
      exact Or.inl ⟨hx.symm, this.symm⟩
    · rw [if_neg hx, if_neg hx] at h; exact Or.inr h
  have hfbp : FB s' k p := by unfold FB; rw [e1, e2]; simp
  refine ⟨by rw [hl, Array.size_setIfInBounds]; exact I.szLab, by rw [hf, Array.size_setIfInBounds]; exact I.szFin,
    ?_, hsz, ?_, ?_, ?_, ?_, ?_⟩
  · intro x k' h
    rw [e1] at h
    split at h
    · injection h with h; subst h; exact hk
    · have := I.range x k' h; exact ⟨this.1, Nat.le_trans this.2 hK⟩
  · intro k' x h
    rcases hseed' k' x h with h0 | ⟨rfl, rfl⟩
    · exact hfb k' x (I.seedFB k' x h0)
    · exact hfbp
  · apply link_transfer I hfb hseed
    intro k' x h
    rcases hfb' k' x h with ⟨rfl, rfl⟩ | h0
    · rcases hev with ⟨q, hq, hfq⟩ | hs
      · exact Or.inr (Or.inl ⟨q, hq, hfq⟩)
      · exact Or.inr (Or.inr hs)
    · exact Or.inl h0
  · intro x h
    rw [e1]; rw [e2] at h
    by_cases hx : p = x
    · rw [if_pos hx]; rfl
    · rw [if_neg hx] at h ⊢; exact I.finLab x h
  · intro x hx hlev; rw [hh] at hlev
    have := I.done x hx hlev
    have hxp : p ≠ x := by
      intro hc; subst hc; rw [hmask] at this; cases this.2
    rw [e1, e2, if_neg hxp, if_neg hxp]; exact this
  · intro h; exact absurd h hph

theorem inv_finalize {g : Graph} {s : St} (I : Inv g s) (p : Nat) (s' : St)
    (hl : s'.lab = s.lab) (hf : s'.fin = s.fin.setIfInBounds p true) (hK : s'.K = s.K) (hs : s'.seeds = s.seeds)
    (hh : s'.h = s.h) (hph : s'.phase ≠ .sweeping) (hp : p < g.n)
    (hg : s.labOf p = .wshed ∨ ((s.labOf p).isBasin = true ∧
          ((g.adj p).any fun q => s.finOf q && s.labOf q == s.labOf p) = true)) : Inv g s' := by
  have hpf : p < s.fin.size := by rw [I.szFin]; exact hp
  have e1 : ∀ x, s'.labOf x = s.labOf x := fun x => by simp [St.labOf, hl]
  have e2 : ∀ x, s'.finOf x = if p = x then true else s.finOf x := fun x => by
    simp only [St.finOf, hf, getD_set, hpf, and_true]
  have e4 : ∀ k, seedOf s' k = seedOf s k := fun k => by simp [seedOf, hs]
  have hfb : ∀ k' x, FB s k' x → FB s' k' x := by
    intro k' x h
    unfold FB; rw [e1, e2]; refine ⟨?_, h.2⟩
    split
    · rfl
    · exact h.1
  refine ⟨by rw [hl]; exact I.szLab, by rw [hf, Array.size_setIfInBounds]; exact I.szFin, ?_,
    by rw [hs, hK]; exact I.seedsSz, ?_, ?_, ?_, ?_, ?_⟩
  · intro x k h; rw [e1] at h; rw [hK]; exact I.range x k h
  · intro k x h; rw [e4] at h; exact hfb k x (I.seedFB k x h)
  · apply link_transfer I hfb (fun k x h => by rw [e4]; exact h)
    intro k x h
    unfold FB at h; rw [e1, e2] at h
    by_cases hx : p = x
    · subst hx
      rcases hg with hw | ⟨_, hany⟩
      · rw [hw] at h; cases h.2
      · rw [List.any_eq_true] at hany
        obtain ⟨q, hq, hqq⟩ := hany
        rw [Bool.and_eq_true, beq_iff_eq] at hqq
        exact Or.inr (Or.inl ⟨q, hq, hqq.1, by rw [hqq.2]; exact h.2⟩)
    · rw [if_neg hx] at h; exact Or.inl h
  · intro x h
    rw [e1]; rw [e2] at h
    by_cases hx : p = x
    · subst hx
      rcases hg with hw | ⟨hb, _⟩
      · rw [hw]; rfl
      · cases hlab : s.labOf p <;> rw [hlab] at hb <;> first | rfl | cases hb
    · rw [if_neg hx] at h; exact I.finLab x h
  · intro x hx hlev; rw [hh] at hlev
    have := I.done x hx hlev
    rw [e1, e2]; refine ⟨?_, this.2⟩
    split
    · rfl
    · exact this.1
  · intro h; exact absurd h hph

theorem inv_endlevel {g : Graph} {s : St} (I : Inv g s) (s' : St)
    (hl : s'.lab = s.lab) (hf : s'.fin = s.fin) (hK : s'.K = s.K) (hs : s'.seeds = s.seeds)
    (hh : s'.h = s.h + 1) (hph : s'.phase ≠ .sweeping) (hg : endlevelOk g s = true) :
    Inv g s' := by
  refine inv_frame I hl hf hK hs ?_ (fun h => absurd h hph)
  intro x hx hlev
  rw [hh] at hlev
  unfold endlevelOk at hg
  rw [List.all_eq_true] at hg
  have := hg x (List.mem_range.mpr hx)
  have hle : g.level x ≤ s.h := by omega
  simpa [hle] using this

theorem inv_sweep {g : Graph} {s : St} (I : Inv g s) (s' : St)
    (hl : s'.lab = s.lab) (hf : s'.fin = s.fin) (hK : s'.K = s.K) (hs : s'.seeds = s.seeds)
    (hh : s'.h = s.h) (hsn : s'.snap = s.lab) : Inv g s' := by
  refine inv_frame I hl hf hK hs (fun x hx hlev => I.done x hx (by rw [hh] at hlev; exact hlev)) ?_
  intro _ x k h
  have : s'.snapOf x = s.labOf x := by simp [St.snapOf, St.labOf, hsn]
  rw [← this]; exact h

theorem inv_resolve {g : Graph} {s : St} (I : Inv g s) (p q : Nat) (s' : St)
    (hl : s'.lab = s.lab.setIfInBounds p (s.snapOf q)) (hf : s'.fin = s.fin) (hK : s'.K = s.K)
    (hs : s'.seeds = s.seeds) (hh : s'.h = s.h) (hsn : s'.snap = s.snap) (hph : s.phase = .sweeping)
    (hp : p < g.n) (hsp : s.snapOf p = .wshed) (hlp : s.labOf p = .wshed) (hadj : q ∈ g.adj p)
    (hsq : (s.snapOf q).isBasin = true) (_hfp : s.finOf p = true) (hfq : s.finOf q = true) : Inv g s' := by
  obtain ⟨k, hk⟩ : ∃ k, s.snapOf q = .basin k := by
    cases h : s.snapOf q <;> rw [h] at hsq <;> first | exact ⟨_, rfl⟩ | cases hsq
  rw [hk] at hl
  have hlq : s.labOf q = .basin k := I.snapOk hph q k hk
  have hpl : p < s.lab.size := by rw [I.szLab]; exact hp
  have e1 : ∀ x, s'.labOf x = if p = x then .basin k else s.labOf x := fun x => by
    simp only [St.labOf, hl, getD_set, hpl, and_true]
  have e2 : ∀ x, s'.finOf x = s.finOf x := fun x => by simp [St.finOf, hf]
  have e3 : ∀ x, s'.snapOf x = s.snapOf x := fun x => by simp [St.snapOf, hsn]
  have e4 : ∀ k, seedOf s' k = seedOf s k := fun k => by simp [seedOf, hs]
  have hfb : ∀ k' x, FB s k' x → FB s' k' x := by
    intro k' x h
    have hx : p ≠ x := by
      intro hc; subst hc; rw [h.2] at hlp; cases hlp
    unfold FB; rw [e1, e2, if_neg hx]; exact h
  refine ⟨by rw [hl, Array.size_setIfInBounds]; exact I.szLab, by rw [hf]; exact I.szFin, ?_,
    by rw [hs, hK]; exact I.seedsSz, ?_, ?_, ?_, ?_, ?_⟩
  · intro x k' h
    rw [e1] at h; rw [hK]
    split at h
    · injection h with h; subst h; exact I.range q k hlq
    · exact I.range x k' h
  · intro k' x h; rw [e4] at h; exact hfb k' x (I.seedFB k' x h)
  · apply link_transfer I hfb (fun k x h => by rw [e4]; exact h)
    intro k' x h
    unfold FB at h; rw [e1, e2] at h
    by_cases hx : p = x
    · subst hx
      simp only [if_true] at h
      have := h.2; injection this with this; subst this
      exact Or.inr (Or.inl ⟨q, hadj, hfq, hlq⟩)
    · rw [if_neg hx] at h; exact Or.inl h
  · intro x h
    rw [e1]; rw [e2] at h
    by_cases hx : p = x
    · rw [if_pos hx]; rfl
    · rw [if_neg hx]; exact I.finLab x h
  · intro x hx hlev; rw [hh] at hlev
    have := I.done x hx hlev
    rw [e1, e2]; refine ⟨this.1, ?_⟩
    split
    · rfl
    · exact this.2
  · intro _ x k' h
    rw [e3] at h; rw [e1]
    have hx : p ≠ x := by
      intro hc; subst hc; rw [hsp] at h; cases h
    rw [if_neg hx]; exact I.snapOk hph x k' h
theorem seedOf_push_old {s : St} {k x p : Nat} (h : seedOf s k = some x) :
    (if 1 ≤ k then (s.seeds.push p)[k - 1]? else none) = some x := by
  unfold seedOf at h
  split at h
  · rename_i hk
    rw [if_pos hk, Array.getElem?_push]
    have hlt : k - 1 < s.seeds.size := by
      false_or_by_contra
      rename_i hc
      rw [Array.getElem?_eq_none (Nat.le_of_not_lt hc)] at h; cases h
    rw [if_neg (by omega)]; exact h
  · cases h

/-- every guarded step preserves the invariant -/
theorem step_inv {g : Graph} {s s' : St} (e : Step) (I : Inv g s) (h : step g s e = some s') : Inv g s' := by
  cases e with
  | level hh =>
    obtain ⟨_, rfl⟩ := ite_some h
    exact inv_frame I rfl rfl rfl rfl (fun x hx hl => I.done x hx hl) (fun hc => by cases hc)
  | mark p =>
    obtain ⟨hg, rfl⟩ := ite_some h
    refine inv_relabel I p .mask _ rfl rfl rfl rfl rfl (by simp [hg.1]) ?_ (fun k hk => by cases hk)
    cases hf : s.finOf p
    · rfl
    · have := I.finLab p hf; rw [hg.2.2.1] at this; cases this
  | inherit p q =>
    obtain ⟨hg, rfl⟩ := ite_some h
    refine inv_relabel I p (s.labOf q) _ rfl rfl rfl rfl rfl (by simp [hg.1]) hg.2.2.2.1 ?_
    intro k hk; exact I.range q k hk
  | conflict p =>
    obtain ⟨hg, rfl⟩ := ite_some h
    exact inv_relabel I p .wshed _ rfl rfl rfl rfl rfl (by simp [hg.1]) hg.2.2.1 (fun k hk => by cases hk)
  | finalize p =>
    obtain ⟨hg, rfl⟩ := ite_some h
    exact inv_finalize I p _ rfl rfl rfl rfl rfl (by simp [hg.1]) hg.2.1 hg.2.2.2
  | endqueue =>
    obtain ⟨_, rfl⟩ := ite_some h
    exact inv_frame I rfl rfl rfl rfl (fun x hx hl => I.done x hx hl) (fun hc => by cases hc)
  | seed p k =>
    obtain ⟨hg, rfl⟩ := ite_some h
    obtain ⟨hph, hp, _, hmask, hk⟩ := hg
    subst hk
    refine inv_newfinal I p (s.K + 1) _ rfl rfl hp hmask rfl (by simp [hph]) (Nat.le_succ _) ⟨by omega, Nat.le_refl _⟩
      (by simp [I.seedsSz]) ?_ ?_ (Or.inr ?_)
    · intro k' x hx; exact seedOf_push_old hx
    · intro k' x hx
      simp only [seedOf] at hx ⊢
      split at hx
      · rename_i hk1
        rw [Array.getElem?_push] at hx
        split at hx
        · rename_i heq
          injection hx with hx
          right; exact ⟨hx.symm, by rw [I.seedsSz] at heq; omega⟩
        · left; rw [if_pos hk1]; exact hx
      · cases hx
    · have : s.K = s.seeds.size := I.seedsSz.symm
      simp only [seedOf, Nat.le_add_left, if_true, Nat.add_sub_cancel, Array.getElem?_push, this]
  | flood p q =>
    obtain ⟨hg, rfl⟩ := ite_some h
    obtain ⟨hph, hp, hq, hmask, hadj, hfq, hlq, hK⟩ := hg
    refine inv_newfinal I p s.K _ rfl rfl hp hmask rfl (by simp [hph]) (Nat.le_refl _) ⟨hK, Nat.le_refl _⟩
      I.seedsSz (fun _ _ hx => hx) (fun _ _ hx => Or.inl hx) (Or.inl ⟨q, by simpa using hadj, hfq, hlq⟩)
  | closed q =>
    obtain ⟨_, rfl⟩ := ite_some h
    exact inv_frame I rfl rfl rfl rfl (fun x hx hl => I.done x hx hl) (fun hc => by simp_all)
  | endlevel =>
    obtain ⟨hg, rfl⟩ := ite_some h
    exact inv_endlevel I _ rfl rfl rfl rfl rfl (by simp) hg.2.2
  | sweep =>
    obtain ⟨_, rfl⟩ := ite_some h
    exact inv_sweep I _ rfl rfl rfl rfl rfl rfl
  | resolve p q =>
    obtain ⟨hg, rfl⟩ := ite_some h
    obtain ⟨hph, hp, hq, hsp, hlp, hadj, hsq, hfp, hfq⟩ := hg
    exact inv_resolve I p q _ rfl rfl rfl rfl rfl rfl hph hp hsp hlp (by simpa using hadj) hsq hfp hfq

theorem runFrom_inv {g : Graph} (t : List Step) {s s' : St} (I : Inv g s) (h : runFrom g s t = some s') : Inv g s' := by
  induction t generalizing s with
  | nil => simp [runFrom] at h; subst h; exact I
  | cons e es ih =>
    simp only [runFrom] at h
    cases hs : step g s e with
    | none => rw [hs] at h; cases h
    | some s1 => rw [hs] at h; exact ih (step_inv e I hs) h

theorem run_inv {g : Graph} {t : List Step} {s : St} (h : run g t = some s) : Inv g s :=
  runFrom_inv t (inv_init g) h

/-! ### regional minima -/

/-- path inside a vertex set `S`: consecutive vertices adjacent, all vertices in `S` -/
inductive Conn (g : Graph) (S : Nat → Prop) : Nat → Nat → Prop
  | refl {a} : S a → Conn g S a a
  | step {a b c} : S a → b ∈ g.adj a → Conn g S b c → Conn g S a c

theorem Conn.trans {g : Graph} {S : Nat → Prop} {a b c : Nat} (h1 : Conn g S a b) (h2 : Conn g S b c) :
    Conn g S a c := by
  induction h1 with
  | refl _ => exact h2
  | step hs ha _ ih => exact .step hs ha (ih h2)

theorem Conn.right_mem {g : Graph} {S : Nat → Prop} {a b : Nat} (h : Conn g S a b) : S b := by
  induction h with
  | refl hs => exact hs
  | step _ _ _ ih => exact ih

theorem Conn.left_mem {g : Graph} {S : Nat → Prop} {a b : Nat} (h : Conn g S a b) : S a := by
  cases h with
  | refl hs => exact hs
  | step hs _ _ => exact hs

theorem Conn.snoc {g : Graph} {S : Nat → Prop} {a b c : Nat} (h : Conn g S a b) (hc : S c) (hadj : c ∈ g.adj b) :
    Conn g S a c :=
  h.trans (.step h.right_mem hadj (.refl hc))

/-- the plateau of `x0`: vertices joined to `x0` through vertices of the same level -/
def Plateau (g : Graph) (x0 x : Nat) : Prop := Conn g (fun y => y < g.n ∧ g.level y = g.level x0) x0 x

/-- `x0` lies on a regional minimum: no neighbour of its plateau is lower -/
def RegMin (g : Graph) (x0 : Nat) : Prop :=
  x0 < g.n ∧ ∀ x, Plateau g x0 x → ∀ y ∈ g.adj x, y < g.n → g.level x0 ≤ g.level y

theorem Plateau.level {g : Graph} {x0 x : Nat} (h : Plateau g x0 x) : x < g.n ∧ g.level x = g.level x0 := h.right_mem

structure Inv2 (g : Graph) (s : St) : Prop where
  lvl : ∀ x, s.labOf x ≠ .init → g.level x ≤ s.h
  cur : ∀ x, s.labOf x ≠ .init → s.finOf x = false → g.level x = s.h
  nl : ∀ x0, RegMin g x0 → (∃ k p, seedOf s k = some p ∧ Plateau g x0 p) ∨
        (∀ x, Plateau g x0 x → s.labOf x = .init ∨ s.labOf x = .mask)

theorem inv2_init (g : Graph) : Inv2 g (St.init g.n) := by
  have hl : ∀ p, (St.init g.n).labOf p = .init := fun p => getD_replicate _ _ _
  refine ⟨fun x h => absurd (hl x) h, fun x h => absurd (hl x) h, fun x0 _ => Or.inr fun x _ => Or.inl (hl x)⟩

/-- in a regional minimum without a seed nothing is labelled, so a labelled neighbour of one of its pixels is
    strictly higher -/
theorem nl_higher {g : Graph} {s : St} (J : Inv2 g s) {x0 p q : Nat} (hr : RegMin g x0)
    (hns : ¬∃ k p, seedOf s k = some p ∧ Plateau g x0 p) (hp : Plateau g x0 p) (hq : q ∈ g.adj p) (hqn : q < g.n)
    (hlq : (s.labOf q).labelled = true) : g.level p < g.level q := by
  rcases J.nl x0 hr with h | h
  · exact absurd h hns
  · have h1 := hr.2 p hp q hq hqn
    have hpl := hp.level
    rcases Nat.lt_or_ge (g.level p) (g.level q) with hlt | hge
    · exact hlt
    · have heq : g.level q = g.level x0 := by omega
      have := h q (hp.snoc ⟨hqn, heq⟩ hq)
      rcases this with h' | h' <;> rw [h'] at hlq <;> cases hlq

/-- a pixel that changes from `mask`/`wshed` to a label, given a final labelled neighbour, is not in a seedless
    regional minimum (used for inherit / conflict / flood) -/
theorem nl_step_labelled {g : Graph} {s s' : St} (J : Inv2 g s) (p q : Nat)
    (hlab : ∀ x, x ≠ p → s'.labOf x = s.labOf x)
    (hseed : ∀ k x, seedOf s k = some x → seedOf s' k = some x)
    (hp : g.level p = s.h) (hq : q ∈ g.adj p) (hqn : q < g.n) (hlq : (s.labOf q).labelled = true) :
    ∀ x0, RegMin g x0 → (∃ k p, seedOf s' k = some p ∧ Plateau g x0 p) ∨
        (∀ x, Plateau g x0 x → s'.labOf x = .init ∨ s'.labOf x = .mask) := by
  intro x0 hr
  by_cases hs : ∃ k p, seedOf s k = some p ∧ Plateau g x0 p
  · obtain ⟨k, y, h1, h2⟩ := hs
    exact Or.inl ⟨k, y, hseed k y h1, h2⟩
  · right
    rcases J.nl x0 hr with h | h
    · exact absurd h hs
    · intro x hx
      by_cases hxp : x = p
      · subst hxp
        have := nl_higher J hr hs hx hq hqn hlq
        have hq' : g.level q ≤ s.h := J.lvl q (by
          intro hc; rw [hc] at hlq; cases hlq)
        omega
      · rw [hlab x hxp]; exact h x hx

theorem inv2_update {g : Graph} {s s' : St} (J : Inv2 g s) (p : Nat)
    (hlab : ∀ x, x ≠ p → s'.labOf x = s.labOf x) (hfin : ∀ x, x ≠ p → s'.finOf x = s.finOf x)
    (hh : s'.h = s.h) (hp_lvl : g.level p ≤ s.h) (hp_cur : s'.finOf p = false → g.level p = s.h)
    (hnl : ∀ x0, RegMin g x0 → (∃ k p, seedOf s' k = some p ∧ Plateau g x0 p) ∨
        (∀ x, Plateau g x0 x → s'.labOf x = .init ∨ s'.labOf x = .mask)) : Inv2 g s' := by
  refine ⟨?_, ?_, hnl⟩
  · intro x hx
    rw [hh]
    by_cases hxp : x = p
    · subst hxp; exact hp_lvl
    · rw [hlab x hxp] at hx; exact J.lvl x hx
  · intro x hx hf
    rw [hh]
    by_cases hxp : x = p
    · subst hxp; exact hp_cur hf
    · rw [hlab x hxp] at hx; rw [hfin x hxp] at hf; exact J.cur x hx hf

theorem inv2_frame {g : Graph} {s s' : St} (J : Inv2 g s)
    (hl : s'.lab = s.lab) (hf : ∀ x, s'.finOf x = false → s.finOf x = false) (hs : s'.seeds = s.seeds)
    (hh : s'.h = s.h) : Inv2 g s' := by
  have e1 : ∀ x, s'.labOf x = s.labOf x := fun x => by simp [St.labOf, hl]
  have e4 : ∀ k, seedOf s' k = seedOf s k := fun k => by simp [seedOf, hs]
  refine ⟨?_, ?_, ?_⟩
  · intro x hx; rw [e1] at hx; rw [hh]; exact J.lvl x hx
  · intro x hx hfx; rw [e1] at hx; rw [hh]; exact J.cur x hx (hf x hfx)
  · intro x0 hr
    rcases J.nl x0 hr with ⟨k, y, h1, h2⟩ | h
    · exact Or.inl ⟨k, y, by rw [e4]; exact h1, h2⟩
    · exact Or.inr fun x hx => by rw [e1]; exact h x hx

theorem labOf_lt {g : Graph} {s : St} (I : Inv g s) {x : Nat} (h : s.labOf x ≠ .init) : x < g.n := by
  have := getD_lt_of_ne s.lab x .init h
  rw [I.szLab] at this; exact this

theorem mask_not_fin {g : Graph} {s : St} (I : Inv g s) {p : Nat} (h : s.labOf p = .mask) : s.finOf p = false := by
  cases hf : s.finOf p
  · rfl
  · have := I.finLab p hf; rw [h] at this; cases this

theorem labOf_ne (s s' : St) (p : Nat) (v : Lab) (h : s'.lab = s.lab.setIfInBounds p v) :
    ∀ x, x ≠ p → s'.labOf x = s.labOf x := by
  intro x hx; simp only [St.labOf, h, getD_set]; rw [if_neg]; intro hc; exact hx hc.1.symm

theorem finOf_ne (s s' : St) (p : Nat) (h : s'.fin = s.fin.setIfInBounds p true) :
    ∀ x, x ≠ p → s'.finOf x = s.finOf x := by
  intro x hx; simp only [St.finOf, h, getD_set]; rw [if_neg]; intro hc; exact hx hc.1.symm

theorem step_inv2 {g : Graph} {s s' : St} (e : Step) (I : Inv g s) (J : Inv2 g s) (h : step g s e = some s') :
    Inv2 g s' := by
  cases e with
  | level hh =>
    obtain ⟨_, rfl⟩ := ite_some h
    exact inv2_frame J rfl (fun _ hx => hx) rfl rfl
  | mark p =>
    obtain ⟨hg, hs'⟩ := ite_some h
    obtain ⟨_, hp, hlp, hlev⟩ := hg
    have hl : s'.lab = s.lab.setIfInBounds p .mask := by rw [← hs']
    have e1 := labOf_ne s s' p _ hl
    refine inv2_update J p e1 (fun x _ => by simp [St.finOf, ← hs']) (by rw [← hs']) (by omega) (fun _ => hlev) ?_
    intro x0 hr
    rcases J.nl x0 hr with ⟨k, y, h1, h2⟩ | hh
    · exact Or.inl ⟨k, y, by simpa [seedOf, ← hs'] using h1, h2⟩
    · right; intro x hx
      by_cases hxp : x = p
      · subst hxp; right
        simp only [St.labOf, hl, getD_set]; simp [I.szLab, hp]
      · rw [e1 x hxp]; exact hh x hx
  | inherit p q =>
    obtain ⟨hg, hs'⟩ := ite_some h
    obtain ⟨_, hp, hq, hfp, hadj, hfq, hbq, hlp⟩ := hg
    have hlev : g.level p = s.h := J.cur p (by rcases hlp with h | h <;> rw [h] <;> intro hc <;> cases hc) hfp
    have hl : s'.lab = s.lab.setIfInBounds p (s.labOf q) := by rw [← hs']
    have e1 := labOf_ne s s' p _ hl
    refine inv2_update J p e1 (fun x _ => by simp [St.finOf, ← hs']) (by rw [← hs']) (by omega) (fun _ => hlev) ?_
    exact nl_step_labelled J p q e1 (fun k x hx => by simpa [seedOf, ← hs'] using hx) hlev (by simpa using hadj) hq (by
      cases hl : s.labOf q <;> rw [hl] at hbq <;> first | rfl | cases hbq)
  | conflict p =>
    obtain ⟨hg, hs'⟩ := ite_some h
    obtain ⟨_, hp, hfp, hlp, hany⟩ := hg
    have hlev : g.level p = s.h := J.cur p hlp hfp
    have hl : s'.lab = s.lab.setIfInBounds p .wshed := by rw [← hs']
    have e1 := labOf_ne s s' p _ hl
    rw [List.any_eq_true] at hany
    obtain ⟨q, hq, hqq⟩ := hany
    rw [Bool.and_eq_true] at hqq
    have hqn : q < g.n := labOf_lt I (by intro hc; rw [hc] at hqq; cases hqq.2)
    refine inv2_update J p e1 (fun x _ => by simp [St.finOf, ← hs']) (by rw [← hs']) (by omega) (fun _ => hlev) ?_
    exact nl_step_labelled J p q e1 (fun k x hx => by simpa [seedOf, ← hs'] using hx) hlev hq hqn hqq.2
  | finalize p =>
    obtain ⟨hg, rfl⟩ := ite_some h
    refine inv2_frame J rfl ?_ rfl rfl
    intro x hx
    simp only [St.finOf, getD_set] at hx ⊢
    split at hx
    · cases hx
    · exact hx
  | endqueue =>
    obtain ⟨_, rfl⟩ := ite_some h
    exact inv2_frame J rfl (fun _ hx => hx) rfl rfl
  | seed p k =>
    obtain ⟨hg, hs'⟩ := ite_some h
    obtain ⟨hph, hp, _, hmask, hk⟩ := hg
    subst hk
    have hlev : g.level p = s.h := J.cur p (by rw [hmask]; intro hc; cases hc) (mask_not_fin I hmask)
    have hl : s'.lab = s.lab.setIfInBounds p (.basin (s.K + 1)) := by rw [← hs']
    have hf : s'.fin = s.fin.setIfInBounds p true := by rw [← hs']
    have hsd : s'.seeds = s.seeds.push p := by rw [← hs']
    have e1 := labOf_ne s s' p _ hl
    refine inv2_update J p e1 (finOf_ne s s' p hf) (by rw [← hs']) (by omega) (fun _ => hlev) ?_
    intro x0 hr
    by_cases hpp : Plateau g x0 p
    · left
      refine ⟨s.K + 1, p, ?_, hpp⟩
      have : s.K = s.seeds.size := I.seedsSz.symm
      simp only [seedOf, hsd, Nat.le_add_left, if_true, Nat.add_sub_cancel, Array.getElem?_push, this]
    · rcases J.nl x0 hr with ⟨k, y, h1, h2⟩ | hh
      · exact Or.inl ⟨k, y, by unfold seedOf; rw [hsd]; exact seedOf_push_old h1, h2⟩
      · right; intro x hx
        have hxp : x ≠ p := by intro hc; subst hc; exact hpp hx
        rw [e1 x hxp]; exact hh x hx
  | flood p q =>
    obtain ⟨hg, hs'⟩ := ite_some h
    obtain ⟨hph, hp, hq, hmask, hadj, hfq, hlq, hK⟩ := hg
    have hlev : g.level p = s.h := J.cur p (by rw [hmask]; intro hc; cases hc) (mask_not_fin I hmask)
    have hl : s'.lab = s.lab.setIfInBounds p (.basin s.K) := by rw [← hs']
    have hf : s'.fin = s.fin.setIfInBounds p true := by rw [← hs']
    have e1 := labOf_ne s s' p _ hl
    refine inv2_update J p e1 (finOf_ne s s' p hf) (by rw [← hs']) (by omega) (fun _ => hlev) ?_
    exact nl_step_labelled J p q e1 (fun k x hx => by simpa [seedOf, ← hs'] using hx) hlev (by simpa using hadj) hq
      (by rw [hlq]; rfl)
  | closed q =>
    obtain ⟨_, rfl⟩ := ite_some h
    exact inv2_frame J rfl (fun _ hx => hx) rfl rfl
  | endlevel =>
    obtain ⟨hg, rfl⟩ := ite_some h
    have hok := hg.2.2
    unfold endlevelOk at hok
    rw [List.all_eq_true] at hok
    refine ⟨?_, ?_, ?_⟩
    · intro x hx
      have := J.lvl x hx
      show g.level x ≤ s.h + 1
      omega
    · intro x hx hf
      exfalso
      have hxn : x < g.n := labOf_lt I hx
      have := hok x (List.mem_range.mpr hxn)
      have hle := J.lvl x hx
      have hf' : s.finOf x = false := hf
      simp [hle, hf'] at this
    · exact J.nl
  | sweep =>
    obtain ⟨_, rfl⟩ := ite_some h
    exact inv2_frame J rfl (fun _ hx => hx) rfl rfl
  | resolve p q =>
    obtain ⟨hg, hs'⟩ := ite_some h
    obtain ⟨hph, hp, hq, hsp, hlp, hadj, hsq, hfp, hfq⟩ := hg
    have hl : s'.lab = s.lab.setIfInBounds p (s.snapOf q) := by rw [← hs']
    have e1 := labOf_ne s s' p _ hl
    have e2 : ∀ x, s'.finOf x = s.finOf x := fun x => by simp [St.finOf, ← hs']
    refine inv2_update J p e1 (fun x _ => e2 x) (by rw [← hs']) (J.lvl p (by rw [hlp]; intro hc; cases hc)) ?_ ?_
    · intro hf
      rw [e2, hfp] at hf; cases hf
    · intro x0 hr
      rcases J.nl x0 hr with ⟨k, y, h1, h2⟩ | hh
      · exact Or.inl ⟨k, y, by simpa [seedOf, ← hs'] using h1, h2⟩
      · right; intro x hx
        by_cases hxp : x = p
        · subst hxp
          rcases hh x hx with h' | h' <;> rw [hlp] at h' <;> cases h'
        · rw [e1 x hxp]; exact hh x hx

theorem runFrom_inv2 {g : Graph} (t : List Step) {s s' : St} (I : Inv g s) (J : Inv2 g s)
    (h : runFrom g s t = some s') : Inv2 g s' := by
  induction t generalizing s with
  | nil => simp [runFrom] at h; subst h; exact J
  | cons e es ih =>
    simp only [runFrom] at h
    cases hs : step g s e with
    | none => rw [hs] at h; cases h
    | some s1 => rw [hs] at h; exact ih (step_inv e I hs) (step_inv2 e I J hs) h

theorem run_inv2 {g : Graph} {t : List Step} {s : St} (h : run g t = some s) : Inv2 g s :=
  runFrom_inv2 t (inv_init g) (inv2_init g) h

/-! ### seeds and regional minima -/

/-- well-formed symmetric graph -/
structure WF (g : Graph) : Prop where
  lt : ∀ x y, y ∈ g.adj x → y < g.n
  symm : ∀ x y, y ∈ g.adj x → x ∈ g.adj y

structure Inv3 (g : Graph) (s : St) : Prop where
  noMaskIdle : (s.phase = .idle ∨ s.phase = .sweeping) → ∀ x, s.labOf x ≠ .mask
  maskCur : ∀ x, s.labOf x = .mask → x ∈ s.cur
  seedLow : s.phase = .seeding → ∀ x, x < g.n → g.level x ≤ s.h → s.labOf x ≠ .init
  maskNb : s.phase = .seeding → ∀ x, s.labOf x = .mask → ∀ y ∈ g.adj x,
    s.labOf y = .init ∨ s.labOf y = .mask ∨ y ∈ s.frontier
  rm : ∀ k p, seedOf s k = some p → RegMin g p
  dyn : ∀ k p, seedOf s k = some p → ∀ x, Plateau g p x →
    (s.labOf x = .basin k ∧ s.finOf x = true) ∨
    (s.labOf x = .mask ∧ s.phase = .seeding ∧ g.level p = s.h ∧ k = s.K)

theorem inv3_init (g : Graph) : Inv3 g (St.init g.n) := by
  have hl : ∀ p, (St.init g.n).labOf p = .init := fun p => getD_replicate _ _ _
  refine ⟨?_, ?_, ?_, ?_, ?_, ?_⟩
  · intro _ x h; rw [hl] at h; cases h
  · intro x h; rw [hl] at h; cases h
  · intro h; simp [St.init] at h
  · intro h; simp [St.init] at h
  · intro k p h; simp [seedOf, St.init] at h
  · intro k p h; simp [seedOf, St.init] at h

theorem mask_level {g : Graph} {s : St} (I : Inv g s) (J : Inv2 g s) {x : Nat} (h : s.labOf x = .mask) :
    g.level x = s.h :=
  J.cur x (by rw [h]; intro hc; cases hc) (mask_not_fin I h)

/-- at a moment of the seeding phase when the frontier is empty, a level-`h` path that starts at a mask pixel
    stays inside mask pixels -/
theorem plateau_all_mask {g : Graph} {s : St} (K3 : Inv3 g s)
    (hph : s.phase = .seeding) (hfr : s.frontier = []) {a x : Nat}
    (hc : Conn g (fun y => y < g.n ∧ g.level y = s.h) a x) (ha : s.labOf a = .mask) : s.labOf x = .mask := by
  induction hc with
  | refl _ => exact ha
  | @step a b c hs hadj hbc ih =>
    apply ih
    have hb := hbc.left_mem
    rcases K3.maskNb hph a ha b hadj with h | h | h
    · exact absurd h (K3.seedLow hph b hb.1 (by omega))
    · exact h
    · rw [hfr] at h; cases h

/-- a basin pixel and a mask pixel cannot be joined inside one plateau when the frontier is empty -/
theorem no_mask_in_seeded_plateau {g : Graph} {s : St} (wf : WF g) (K3 : Inv3 g s)
    (hph : s.phase = .seeding) (hfr : s.frontier = []) {k p : Nat} (hs : seedOf s k = some p) {a x : Nat}
    (hpa : Plateau g p a) (hc : Conn g (fun y => y < g.n ∧ g.level y = g.level p) a x)
    (ha : ∃ k', s.labOf a = .basin k') (hx : s.labOf x = .mask) : False := by
  induction hc with
  | refl _ => obtain ⟨k', hk'⟩ := ha; rw [hk'] at hx; cases hx
  | @step a b c hsa hadj hbc ih =>
    have hpb : Plateau g p b := hpa.snoc hbc.left_mem hadj
    rcases K3.dyn k p hs b hpb with ⟨hb, _⟩ | ⟨hb, _⟩
    · exact ih hpb ⟨k, hb⟩ hx
    · obtain ⟨k', hk'⟩ := ha
      rcases K3.maskNb hph b hb a (wf.symm a b hadj) with h | h | h
      · rw [hk'] at h; cases h
      · rw [hk'] at h; cases h
      · rw [hfr] at h; cases h

/-- steps that keep labels, seeds, `K`, `h` (finality may grow) -/
theorem inv3_same_lab {g : Graph} {s s' : St} (K3 : Inv3 g s)
    (hl : s'.lab = s.lab) (hfin : ∀ x, s.finOf x = true → s'.finOf x = true) (hs : s'.seeds = s.seeds)
    (hK : s'.K = s.K) (hh : s'.h = s.h) (hph : s.phase = .seeding → s'.phase = .seeding)
    (h1 : (s'.phase = .idle ∨ s'.phase = .sweeping) → ∀ x, s.labOf x ≠ .mask)
    (h2 : ∀ x, s.labOf x = .mask → x ∈ s'.cur)
    (h3 : s'.phase = .seeding → ∀ x, x < g.n → g.level x ≤ s.h → s.labOf x ≠ .init)
    (h4 : s'.phase = .seeding → ∀ x, s.labOf x = .mask → ∀ y ∈ g.adj x,
      s.labOf y = .init ∨ s.labOf y = .mask ∨ y ∈ s'.frontier) : Inv3 g s' := by
  have e1 : ∀ x, s'.labOf x = s.labOf x := fun x => by simp [St.labOf, hl]
  have e4 : ∀ k, seedOf s' k = seedOf s k := fun k => by simp [seedOf, hs]
  refine ⟨?_, ?_, ?_, ?_, ?_, ?_⟩
  · intro hp x; rw [e1]; exact h1 hp x
  · intro x hx; rw [e1] at hx; exact h2 x hx
  · intro hp x hx hlev; rw [e1]; rw [hh] at hlev; exact h3 hp x hx hlev
  · intro hp x hx y hy; rw [e1] at hx; rw [e1]; exact h4 hp x hx y hy
  · intro k p h; rw [e4] at h; exact K3.rm k p h
  · intro k p h x hx
    rw [e4] at h
    rcases K3.dyn k p h x hx with ⟨a, b⟩ | ⟨a, b, c, d⟩
    · exact Or.inl ⟨by rw [e1]; exact a, hfin x b⟩
    · exact Or.inr ⟨by rw [e1]; exact a, hph b, by rw [hh]; exact c, by rw [hK]; exact d⟩

/-- a relabelling of a non-final pixel during the open phase (`mark`, `inherit`, `conflict`) -/
theorem inv3_opn_update {g : Graph} {s s' : St} (K3 : Inv3 g s) (p : Nat) (v : Lab)
    (hl : s'.lab = s.lab.setIfInBounds p v) (hf : s'.fin = s.fin) (hs : s'.seeds = s.seeds)
    (hph : s.phase = .opn) (hph' : s'.phase = .opn)
    (hcur : ∀ x, x ∈ s.cur → x ∈ s'.cur) (hpc : v = .mask → p ∈ s'.cur) (hnf : s.finOf p = false) : Inv3 g s' := by
  have e1 := labOf_ne s s' p v hl
  have e2 : ∀ x, s'.finOf x = s.finOf x := fun x => by simp [St.finOf, hf]
  have e4 : ∀ k, seedOf s' k = seedOf s k := fun k => by simp [seedOf, hs]
  have ep : s'.labOf p = v ∨ s'.labOf p = s.labOf p := by
    simp only [St.labOf, hl, getD_set]
    split
    · exact Or.inl rfl
    · exact Or.inr rfl
  refine ⟨?_, ?_, ?_, ?_, ?_, ?_⟩
  · intro hp; rw [hph'] at hp; rcases hp with h | h <;> cases h
  · intro x hx
    by_cases hxp : x = p
    · subst hxp
      rcases ep with h | h
      · exact hpc (by rw [← h]; exact hx)
      · rw [h] at hx; exact hcur _ (K3.maskCur _ hx)
    · rw [e1 x hxp] at hx; exact hcur _ (K3.maskCur _ hx)
  · intro hp; rw [hph'] at hp; cases hp
  · intro hp; rw [hph'] at hp; cases hp
  · intro k q h; rw [e4] at h; exact K3.rm k q h
  · intro k q h x hx
    rw [e4] at h
    rcases K3.dyn k q h x hx with ⟨a, b⟩ | ⟨a, b, c, d⟩
    · have hxp : x ≠ p := by intro hc; subst hc; rw [hnf] at b; cases b
      exact Or.inl ⟨by rw [e1 x hxp]; exact a, by rw [e2]; exact b⟩
    · rw [hph] at b; cases b

theorem init_not_fin {g : Graph} {s : St} (I : Inv g s) {p : Nat} (h : s.labOf p = .init) : s.finOf p = false := by
  cases hf : s.finOf p
  · rfl
  · have := I.finLab p hf; rw [h] at this; cases this

theorem step_inv3 {g : Graph} {s s' : St} (wf : WF g) (e : Step) (I : Inv g s) (J : Inv2 g s) (K3 : Inv3 g s)
    (h : step g s e = some s') : Inv3 g s' := by
  cases e with
  | level hh =>
    obtain ⟨hg, rfl⟩ := ite_some h
    refine inv3_same_lab K3 rfl (fun _ hx => hx) rfl rfl rfl (fun hp => by rw [hg.1] at hp; cases hp) ?_ ?_ ?_ ?_
    · intro hp; rcases hp with hp | hp <;> cases hp
    · intro x hx; exact absurd hx (K3.noMaskIdle (Or.inl hg.1) x)
    · intro hp; cases hp
    · intro hp; cases hp
  | mark p =>
    obtain ⟨hg, hs'⟩ := ite_some h
    obtain ⟨hph, hp, hlp, hlev⟩ := hg
    refine inv3_opn_update K3 p .mask (by rw [← hs']) (by rw [← hs']) (by rw [← hs']) hph (by rw [← hs']; exact hph)
      ?_ ?_ (init_not_fin I hlp)
    · intro x hx; rw [← hs']; exact List.mem_cons_of_mem _ hx
    · intro _; rw [← hs']; exact List.mem_cons_self
  | inherit p q =>
    obtain ⟨hg, hs'⟩ := ite_some h
    obtain ⟨hph, hp, hq, hfp, hadj, hfq, hbq, hlp⟩ := hg
    refine inv3_opn_update K3 p (s.labOf q) (by rw [← hs']) (by rw [← hs']) (by rw [← hs']) hph
      (by rw [← hs']; exact hph) (fun x hx => by rw [← hs']; exact hx) ?_ hfp
    intro hc; rw [hc] at hbq; cases hbq
  | conflict p =>
    obtain ⟨hg, hs'⟩ := ite_some h
    obtain ⟨hph, hp, hfp, hlp, hany⟩ := hg
    exact inv3_opn_update K3 p .wshed (by rw [← hs']) (by rw [← hs']) (by rw [← hs']) hph
      (by rw [← hs']; exact hph) (fun x hx => by rw [← hs']; exact hx) (fun hc => by cases hc) hfp
  | finalize p =>
    obtain ⟨hg, rfl⟩ := ite_some h
    refine inv3_same_lab K3 rfl ?_ rfl rfl rfl (fun hp => hp) ?_ K3.maskCur ?_ ?_
    · intro x hx
      simp only [St.finOf, getD_set]
      split
      · rfl
      · exact hx
    · intro hp; rw [hg.1] at hp; rcases hp with hp | hp <;> cases hp
    · intro hp; rw [hg.1] at hp; cases hp
    · intro hp; rw [hg.1] at hp; cases hp
  | endqueue =>
    obtain ⟨hg, rfl⟩ := ite_some h
    obtain ⟨hph, hok⟩ := hg
    unfold endqueueOk at hok
    simp only [Bool.and_eq_true, List.all_eq_true] at hok
    obtain ⟨⟨ha, _⟩, hc⟩ := hok
    refine inv3_same_lab K3 rfl (fun _ hx => hx) rfl rfl rfl (fun hp => by simp [hph] at hp) ?_ K3.maskCur ?_ ?_
    · intro hp; rcases hp with hp | hp <;> cases hp
    · intro _ x hx hlev
      have := ha x (List.mem_range.mpr hx)
      simpa [hlev] using this
    · intro _ x hx y hy
      have := hc x (K3.maskCur x hx)
      simp only [hx, bne_self_eq_false, Bool.false_or, List.all_eq_true] at this
      have := this y hy
      cases hl : s.labOf y with
      | init => exact Or.inl rfl
      | mask => exact Or.inr (Or.inl rfl)
      | wshed => rw [hl] at this; simp [Lab.unlabelled] at this
      | basin k => rw [hl] at this; simp [Lab.unlabelled] at this
  | seed p k =>
    obtain ⟨hg, hs'⟩ := ite_some h
    obtain ⟨hph, hp, hfr, hmask, hk⟩ := hg
    subst hk
    have hlev : g.level p = s.h := mask_level I J hmask
    have hl : s'.lab = s.lab.setIfInBounds p (.basin (s.K + 1)) := by rw [← hs']
    have hf : s'.fin = s.fin.setIfInBounds p true := by rw [← hs']
    have hsd : s'.seeds = s.seeds.push p := by rw [← hs']
    have hph' : s'.phase = .seeding := by rw [← hs']; exact hph
    have hfr' : s'.frontier = [p] := by rw [← hs']
    have hK' : s'.K = s.K + 1 := by rw [← hs']
    have hh' : s'.h = s.h := by rw [← hs']
    have hcur' : s'.cur = s.cur := by rw [← hs']
    have e1 := labOf_ne s s' p _ hl
    have e2 := finOf_ne s s' p hf
    have epl : s'.labOf p = .basin (s.K + 1) := by
      simp only [St.labOf, hl, getD_set]; simp [I.szLab, hp]
    have epf : s'.finOf p = true := by
      simp only [St.finOf, hf, getD_set]; simp [I.szFin, hp]
    have hsnew : seedOf s' (s.K + 1) = some p := by
      have : s.K = s.seeds.size := I.seedsSz.symm
      simp only [seedOf, hsd, Nat.le_add_left, if_true, Nat.add_sub_cancel, Array.getElem?_push, this]
    have hsold : ∀ k x, seedOf s' k = some x → seedOf s k = some x ∨ (k = s.K + 1 ∧ x = p) := by
      intro k x hx
      simp only [seedOf, hsd] at hx ⊢
      split at hx
      · rename_i hk1
        rw [Array.getElem?_push] at hx
        split at hx
        · rename_i heq
          injection hx with hx
          right; exact ⟨by rw [I.seedsSz] at heq; omega, hx.symm⟩
        · left; rw [if_pos hk1]; exact hx
      · cases hx
    -- the plateau of the new seed is made of mask pixels
    have hplm : ∀ x, Plateau g p x → s.labOf x = .mask := by
      intro x hx
      have : Conn g (fun y => y < g.n ∧ g.level y = s.h) p x := by
        unfold Plateau at hx; rw [hlev] at hx; exact hx
      exact plateau_all_mask K3 hph hfr this hmask
    refine ⟨?_, ?_, ?_, ?_, ?_, ?_⟩
    · intro hp'; rw [hph'] at hp'; rcases hp' with hp' | hp' <;> cases hp'
    · intro x hx
      have hxp : x ≠ p := by intro hc; subst hc; rw [epl] at hx; cases hx
      rw [e1 x hxp] at hx; rw [hcur']; exact K3.maskCur x hx
    · intro _ x hx hlv
      rw [hh'] at hlv
      by_cases hxp : x = p
      · subst hxp; rw [epl]; intro hc; cases hc
      · rw [e1 x hxp]; exact K3.seedLow hph x hx hlv
    · intro _ x hx y hy
      have hxp : x ≠ p := by intro hc; subst hc; rw [epl] at hx; cases hx
      rw [e1 x hxp] at hx
      rw [hfr']
      by_cases hyp : y = p
      · right; right; rw [hyp]; exact List.mem_singleton.mpr rfl
      · rw [e1 y hyp]
        rcases K3.maskNb hph x hx y hy with h' | h' | h'
        · exact Or.inl h'
        · exact Or.inr (Or.inl h')
        · rw [hfr] at h'; cases h'
    · intro k x hx
      rcases hsold k x hx with h0 | ⟨_, rfl⟩
      · exact K3.rm k x h0
      · refine ⟨hp, ?_⟩
        intro x hx y hy hyn
        have hxm := hplm x hx
        have hxl := hx.level
        rcases K3.maskNb hph x hxm y hy with h' | h' | h'
        · have := K3.seedLow hph y hyn
          rcases Nat.lt_or_ge s.h (g.level y) with hlt | hge
          · omega
          · exact absurd h' (this hge)
        · have := mask_level I J h'; omega
        · rw [hfr] at h'; cases h'
    · intro k q hq x hx
      rcases hsold k q hq with h0 | ⟨rfl, rfl⟩
      · rcases K3.dyn k q h0 x hx with ⟨a, b⟩ | ⟨a, b, c, d⟩
        · have hxp : x ≠ p := by intro hc; subst hc; rw [hmask] at a; cases a
          exact Or.inl ⟨by rw [e1 x hxp]; exact a, by rw [e2 x hxp]; exact b⟩
        · exfalso
          have hqb : s.labOf q = .basin k := (I.seedFB k q h0).2
          exact no_mask_in_seeded_plateau wf K3 hph hfr h0 (.refl ⟨(K3.rm k q h0).1, rfl⟩) hx ⟨k, hqb⟩ a
      · by_cases hxp : x = q
        · subst hxp; exact Or.inl ⟨epl, epf⟩
        · right
          exact ⟨by rw [e1 x hxp]; exact hplm x hx, hph', by rw [hh']; exact hlev, hK'.symm⟩
  | flood p q =>
    obtain ⟨hg, hs'⟩ := ite_some h
    obtain ⟨hph, hp, hq, hmask, hadj, hfq, hlq, hK⟩ := hg
    have hl : s'.lab = s.lab.setIfInBounds p (.basin s.K) := by rw [← hs']
    have hf : s'.fin = s.fin.setIfInBounds p true := by rw [← hs']
    have hph' : s'.phase = .seeding := by rw [← hs']; exact hph
    have hfr' : s'.frontier = p :: s.frontier := by rw [← hs']
    have e1 := labOf_ne s s' p _ hl
    have e2 := finOf_ne s s' p hf
    have e4 : ∀ k, seedOf s' k = seedOf s k := fun k => by simp [seedOf, ← hs']
    have epl : s'.labOf p = .basin s.K := by
      simp only [St.labOf, hl, getD_set]; simp [I.szLab, hp]
    have epf : s'.finOf p = true := by
      simp only [St.finOf, hf, getD_set]; simp [I.szFin, hp]
    refine ⟨?_, ?_, ?_, ?_, ?_, ?_⟩
    · intro hp'; rw [hph'] at hp'; rcases hp' with hp' | hp' <;> cases hp'
    · intro x hx
      have hxp : x ≠ p := by intro hc; subst hc; rw [epl] at hx; cases hx
      rw [e1 x hxp] at hx; rw [← hs']; exact K3.maskCur x hx
    · intro _ x hx hlv
      have hlv' : g.level x ≤ s.h := by rw [← hs'] at hlv; exact hlv
      by_cases hxp : x = p
      · subst hxp; rw [epl]; intro hc; cases hc
      · rw [e1 x hxp]; exact K3.seedLow hph x hx hlv'
    · intro _ x hx y hy
      have hxp : x ≠ p := by intro hc; subst hc; rw [epl] at hx; cases hx
      rw [e1 x hxp] at hx
      rw [hfr']
      by_cases hyp : y = p
      · right; right; rw [hyp]; exact List.mem_cons_self
      · rw [e1 y hyp]
        rcases K3.maskNb hph x hx y hy with h' | h' | h'
        · exact Or.inl h'
        · exact Or.inr (Or.inl h')
        · exact Or.inr (Or.inr (List.mem_cons_of_mem _ h'))
    · intro k x hx; rw [e4] at hx; exact K3.rm k x hx
    · intro k r hr x hx
      rw [e4] at hr
      rcases K3.dyn k r hr x hx with ⟨a, b⟩ | ⟨a, b, c, d⟩
      · have hxp : x ≠ p := by intro hc; subst hc; rw [hmask] at a; cases a
        exact Or.inl ⟨by rw [e1 x hxp]; exact a, by rw [e2 x hxp]; exact b⟩
      · by_cases hxp : x = p
        · subst hxp; left; exact ⟨by rw [epl, d], epf⟩
        · right; exact ⟨by rw [e1 x hxp]; exact a, hph', by rw [← hs']; exact c, by rw [← hs']; exact d⟩
  | closed q =>
    obtain ⟨hg, rfl⟩ := ite_some h
    obtain ⟨hph, hok⟩ := hg
    rw [List.all_eq_true] at hok
    refine inv3_same_lab K3 rfl (fun _ hx => hx) rfl rfl rfl (fun hp => hp) ?_ K3.maskCur (K3.seedLow) ?_
    · intro hp; rw [hph] at hp; rcases hp with hp | hp <;> cases hp
    · intro _ x hx y hy
      rcases K3.maskNb hph x hx y hy with h' | h' | h'
      · exact Or.inl h'
      · exact Or.inr (Or.inl h')
      · right; right
        refine List.mem_filter.mpr ⟨h', ?_⟩
        by_cases hyq : y = q
        · exfalso
          subst hyq
          have := hok x (wf.symm x y hy)
          simp [hx] at this
        · simpa using hyq
  | endlevel =>
    obtain ⟨hg, rfl⟩ := ite_some h
    obtain ⟨hph, _, hok⟩ := hg
    unfold endlevelOk at hok
    rw [List.all_eq_true] at hok
    have hnomask : ∀ x, s.labOf x ≠ .mask := by
      intro x hx
      have hxn : x < g.n := labOf_lt I (by rw [hx]; intro hc; cases hc)
      have hlev := mask_level I J hx
      have := hok x (List.mem_range.mpr hxn)
      simp [hlev, hx, Lab.labelled] at this
    refine ⟨fun _ => hnomask, fun x hx => absurd hx (hnomask x), (fun hp => by cases hp), (fun hp => by cases hp),
      K3.rm, ?_⟩
    intro k p hp x hx
    rcases K3.dyn k p hp x hx with h' | ⟨a, _⟩
    · exact Or.inl h'
    · exact absurd a (hnomask x)
  | sweep =>
    obtain ⟨hg, rfl⟩ := ite_some h
    have hnm := K3.noMaskIdle hg
    refine inv3_same_lab K3 rfl (fun _ hx => hx) rfl rfl rfl ?_ (fun _ => hnm) (fun x hx => absurd hx (hnm x)) ?_ ?_
    · intro hp; rcases hg with hg | hg <;> rw [hg] at hp <;> cases hp
    · intro hp; cases hp
    · intro hp; cases hp
  | resolve p q =>
    obtain ⟨hg, hs'⟩ := ite_some h
    obtain ⟨hph, hp, hq, hsp, hlp, hadj, hsq, hfp, hfq⟩ := hg
    have hl : s'.lab = s.lab.setIfInBounds p (s.snapOf q) := by rw [← hs']
    have hph' : s'.phase = .sweeping := by rw [← hs']; exact hph
    have e1 := labOf_ne s s' p _ hl
    have e2 : ∀ x, s'.finOf x = s.finOf x := fun x => by simp [St.finOf, ← hs']
    have e4 : ∀ k, seedOf s' k = seedOf s k := fun k => by simp [seedOf, ← hs']
    have hnm := K3.noMaskIdle (Or.inr hph)
    have epl : s'.labOf p = s.snapOf q := by
      simp only [St.labOf, hl, getD_set]; simp [I.szLab, hp]
    have hnm' : ∀ x, s'.labOf x ≠ .mask := by
      intro x
      by_cases hxp : x = p
      · subst hxp; rw [epl]; intro hc; rw [hc] at hsq; cases hsq
      · rw [e1 x hxp]; exact hnm x
    refine ⟨fun _ => hnm', fun x hx => absurd hx (hnm' x), (fun hp' => by rw [hph'] at hp'; cases hp'),
      (fun hp' => by rw [hph'] at hp'; cases hp'), (fun k x hx => K3.rm k x (by rw [← e4]; exact hx)), ?_⟩
    intro k r hr x hx
    rw [e4] at hr
    rcases K3.dyn k r hr x hx with ⟨a, b⟩ | ⟨a, _⟩
    · have hxp : x ≠ p := by intro hc; subst hc; rw [hlp] at a; cases a
      exact Or.inl ⟨by rw [e1 x hxp]; exact a, by rw [e2]; exact b⟩
    · exact absurd a (hnm x)

theorem runFrom_inv3 {g : Graph} (wf : WF g) (t : List Step) {s s' : St} (I : Inv g s) (J : Inv2 g s) (K3 : Inv3 g s)
    (h : runFrom g s t = some s') : Inv3 g s' := by
  induction t generalizing s with
  | nil => simp [runFrom] at h; subst h; exact K3
  | cons e es ih =>
    simp only [runFrom] at h
    cases hs : step g s e with
    | none => rw [hs] at h; cases h
    | some s1 => rw [hs] at h; exact ih (step_inv e I hs) (step_inv2 e I J hs) (step_inv3 wf e I J K3 hs) h

theorem run_inv3 {g : Graph} (wf : WF g) {t : List Step} {s : St} (h : run g t = some s) : Inv3 g s :=
  runFrom_inv3 wf t (inv_init g) (inv2_init g) (inv3_init g) h

theorem Conn.symm {g : Graph} {S : Nat → Prop} (hsym : ∀ a b, b ∈ g.adj a → a ∈ g.adj b) {a b : Nat}
    (h : Conn g S a b) : Conn g S b a := by
  induction h with
  | refl hs => exact .refl hs
  | step hs ha hc ih => exact ih.trans (.step hc.left_mem (hsym _ _ ha) (.refl hs))

theorem Plateau.of_level_eq {g : Graph} {a b x y : Nat} (h : g.level a = g.level b)
    (hc : Conn g (fun z => z < g.n ∧ g.level z = g.level a) x y) :
    Conn g (fun z => z < g.n ∧ g.level z = g.level b) x y := by
  rw [h] at hc; exact hc

theorem Plateau.swap {g : Graph} (wf : WF g) {a b : Nat} (h : Plateau g a b) : Plateau g b a :=
  Plateau.of_level_eq h.level.2.symm (Conn.symm wf.symm h)

theorem Plateau.trans {g : Graph} {a b c : Nat} (h1 : Plateau g a b) (h2 : Plateau g b c) : Plateau g a c :=
  Conn.trans h1 (Plateau.of_level_eq h1.level.2 h2)
end WS.FloodL

import WsVerif.Model.Track
import Mathlib.Data.List.Nodup
import Mathlib.Data.List.Basic
import Mathlib.Data.List.Range
import Mathlib.Tactic.Linarith
/-! Helper lemmas for C19 (partition tracking): the greedy loop, the id propagation, the invariant of the
    tracker state and its preservation by a time step. -/
namespace WS.Track

/-! ### small list facts -/

theorem getD_eq_some_iff {l : List (Option Nat)} {p k : Nat} :
    l.getD p none = some k ↔ l[p]? = some (some k) := by
  rw [List.getD_eq_getElem?_getD]
  cases h : l[p]? with
  | none => simp
  | some v => simp

theorem mem_present {row : List (Option Nat)} {k : Nat} : k ∈ present row ↔ some k ∈ row := by
  simp [present, List.mem_filterMap]

theorem present_nil : present [] = [] := rfl
theorem present_none (l : List (Option Nat)) : present (none :: l) = present l := by simp [present]
theorem present_some (k : Nat) (l : List (Option Nat)) : present (some k :: l) = k :: present l := by
  simp [present]

theorem mem_of_getElem? {l : List (Option Nat)} {p k : Nat} (h : l[p]? = some (some k)) : some k ∈ l :=
  List.mem_of_getElem? h

/-- distinct ids in a row ⇒ a slot is determined by its id -/
theorem present_nodup_inj : ∀ {l : List (Option Nat)}, (present l).Nodup →
    ∀ {p q k : Nat}, l[p]? = some (some k) → l[q]? = some (some k) → p = q := by
  intro l
  induction l with
  | nil => intro _ p q k hp; simp at hp
  | cons a l ih =>
    intro hnd p q k hp hq
    cases a with
    | none =>
      rw [present_none] at hnd
      cases p with
      | zero => simp at hp
      | succ p =>
        cases q with
        | zero => simp at hq
        | succ q =>
          simp only [List.getElem?_cons_succ] at hp hq
          rw [ih hnd hp hq]
    | some j =>
      rw [present_some, List.nodup_cons] at hnd
      cases p with
      | zero =>
        cases q with
        | zero => rfl
        | succ q =>
          simp only [List.getElem?_cons_zero, Option.some.injEq] at hp
          simp only [List.getElem?_cons_succ] at hq
          subst hp
          exact absurd (mem_present.2 (mem_of_getElem? hq)) hnd.1
      | succ p =>
        cases q with
        | zero =>
          simp only [List.getElem?_cons_zero, Option.some.injEq] at hq
          simp only [List.getElem?_cons_succ] at hp
          subst hq
          exact absurd (mem_present.2 (mem_of_getElem? hp)) hnd.1
        | succ q =>
          simp only [List.getElem?_cons_succ] at hp hq
          rw [ih hnd.2 hp hq]

/-! ### `argminFirst`, `cands` -/

theorem argminFirst_mem : ∀ (l : List (Nat × Rat)) (x : Nat × Rat), argminFirst l = some x → x ∈ l := by
  intro l
  induction l with
  | nil => intro x h; simp [argminFirst] at h
  | cons a as ih =>
    intro x h
    simp only [argminFirst] at h
    cases hrec : argminFirst as with
    | none => simp [hrec] at h; simp [h]
    | some y =>
      simp only [hrec] at h
      split at h
      · have := ih y hrec; simp at h; subst h; simp [this]
      · simp at h; simp [h]

theorem argminFirst_none : ∀ (l : List (Nat × Rat)), argminFirst l = none → l = [] := by
  intro l h
  cases l with
  | nil => rfl
  | cons a as =>
    simp only [argminFirst] at h
    cases hrec : argminFirst as with
    | none => simp [hrec] at h
    | some y => simp only [hrec] at h; split at h <;> simp at h

/-- the chosen candidate has minimal distance -/
theorem argminFirst_le : ∀ (l : List (Nat × Rat)) (x : Nat × Rat), argminFirst l = some x →
    ∀ y ∈ l, x.2 ≤ y.2 := by
  intro l
  induction l with
  | nil => intro x h; simp [argminFirst] at h
  | cons a as ih =>
    intro x h y hy
    simp only [argminFirst] at h
    cases hrec : argminFirst as with
    | none =>
      have := argminFirst_none as hrec
      subst this
      simp [hrec] at h
      simp at hy
      subst h; subst hy; exact le_refl _
    | some z =>
      simp only [hrec] at h
      have hz := ih z hrec
      split at h
      · rename_i hlt
        simp at h; subst h
        rcases List.mem_cons.1 hy with rfl | hy
        · exact le_of_lt hlt
        · exact hz y hy
      · rename_i hnlt
        simp at h; subst h
        rcases List.mem_cons.1 hy with rfl | hy
        · exact le_refl _
        · exact le_trans (not_lt.1 hnlt) (hz y hy)

theorem cands_mem {dist : Dist} {avail : List Nat} {n c p : Nat} {d : Rat}
    (h : (p, d) ∈ cands dist avail n c) : p < n ∧ p ∈ avail ∧ dist c p = some d := by
  simp only [cands, List.mem_filterMap, List.mem_range] at h
  obtain ⟨q, hq1, hq⟩ := h
  cases hd : dist c q with
  | none => simp [hd] at hq
  | some d' =>
    simp only [hd] at hq
    split at hq
    · simp at hq; obtain ⟨rfl, rfl⟩ := hq; exact ⟨hq1, ‹_›, hd⟩
    · simp at hq

theorem mem_cands {dist : Dist} {avail : List Nat} {n c p : Nat} {d : Rat}
    (hp : p < n) (ha : p ∈ avail) (hd : dist c p = some d) : (p, d) ∈ cands dist avail n c := by
  simp only [cands, List.mem_filterMap, List.mem_range]
  exact ⟨p, hp, by simp [hd, ha]⟩

/-! ### the greedy loop -/

def Match.nonempty : Match → Bool
  | .empty => false
  | _ => true

theorem matchLoop_nonempty (dist : Dist) (n : Nat) : ∀ (cur : List Slot) (c : Nat) (avail : List Nat),
    (matchLoop dist n cur c avail).map Match.nonempty = cur := by
  intro cur
  induction cur with
  | nil => intro c avail; simp [matchLoop]
  | cons s rest ih =>
    intro c avail
    cases s with
    | false => simp [matchLoop, Match.nonempty, ih]
    | true =>
      simp only [matchLoop, if_true]
      cases hm : argminFirst (cands dist avail n c) with
      | none => simp [Match.nonempty, ih]
      | some pd => obtain ⟨p, d⟩ := pd; simp [Match.nonempty, ih]

/-- pointwise: a slot matched to `p` was matched through an in-threshold entry to a still available `p` -/
theorem matchLoop_get (dist : Dist) (n : Nat) : ∀ (cur : List Slot) (c : Nat) (avail : List Nat) (i p : Nat),
    (matchLoop dist n cur c avail)[i]? = some (Match.prev p) →
      p ∈ avail ∧ ∃ d, dist (c + i) p = some d := by
  intro cur
  induction cur with
  | nil => intro c avail i p h; simp [matchLoop] at h
  | cons s rest ih =>
    intro c avail i p h
    cases s with
    | false =>
      simp only [matchLoop, Bool.false_eq_true, if_false] at h
      cases i with
      | zero => simp at h
      | succ i =>
        simp only [List.getElem?_cons_succ] at h
        have := ih (c + 1) avail i p h
        have e : c + 1 + i = c + (i + 1) := by omega
        rw [e] at this; exact this
    | true =>
      simp only [matchLoop, if_true] at h
      cases hm : argminFirst (cands dist avail n c) with
      | none =>
        simp only [hm] at h
        cases i with
        | zero => simp at h
        | succ i =>
          simp only [List.getElem?_cons_succ] at h
          have := ih (c + 1) avail i p h
          have e : c + 1 + i = c + (i + 1) := by omega
          rw [e] at this; exact this
      | some pd =>
        obtain ⟨q, d⟩ := pd
        simp only [hm] at h
        cases i with
        | zero =>
          simp only [List.getElem?_cons_zero, Option.some.injEq, Match.prev.injEq] at h
          subst h
          have hmem := cands_mem (argminFirst_mem _ _ hm)
          exact ⟨hmem.2.1, d, by simpa using hmem.2.2⟩
        | succ i =>
          simp only [List.getElem?_cons_succ] at h
          have := ih (c + 1) (avail.erase q) i p h
          have e : c + 1 + i = c + (i + 1) := by omega
          rw [e] at this
          exact ⟨List.mem_of_mem_erase this.1, this.2⟩

/-- the chosen predecessor is the nearest still-available in-threshold one; among equally near ones the
    smallest index is never beaten (stable sort) -/
theorem matchLoop_head_nearest (dist : Dist) (n : Nat) (rest : List Slot) (c : Nat) (avail : List Nat) (p : Nat)
    (h : (matchLoop dist n (true :: rest) c avail)[0]? = some (Match.prev p)) :
    ∃ d, dist c p = some d ∧ ∀ q d', q < n → q ∈ avail → dist c q = some d' → d ≤ d' := by
  simp only [matchLoop, if_true] at h
  cases hm : argminFirst (cands dist avail n c) with
  | none => simp [hm] at h
  | some pd =>
    obtain ⟨q, d⟩ := pd
    simp only [hm, List.getElem?_cons_zero, Option.some.injEq, Match.prev.injEq] at h
    subst h
    have hmem := cands_mem (argminFirst_mem _ _ hm)
    refine ⟨d, hmem.2.2, ?_⟩
    intro q' d' hq' ha hd
    exact argminFirst_le _ _ hm (q', d') (mem_cands hq' ha hd)

/-- a slot left unmatched (`-888`) had no available in-threshold predecessor -/
theorem matchLoop_head_fresh (dist : Dist) (n : Nat) (rest : List Slot) (c : Nat) (avail : List Nat)
    (h : (matchLoop dist n (true :: rest) c avail)[0]? = some Match.fresh) :
    ∀ q, q < n → q ∈ avail → dist c q = none := by
  simp only [matchLoop, if_true] at h
  cases hm : argminFirst (cands dist avail n c) with
  | some pd => obtain ⟨q, d⟩ := pd; simp [hm] at h
  | none =>
    intro q hq ha
    have hnil := argminFirst_none _ hm
    cases hd : dist c q with
    | none => rfl
    | some d =>
      have := mem_cands (n := n) hq ha hd
      rw [hnil] at this; simp at this

/-- a slot is left unmatched only if every available in-threshold predecessor was taken by an earlier slot -/
theorem matchLoop_fresh (dist : Dist) (n : Nat) : ∀ (cur : List Slot) (c : Nat) (avail : List Nat) (i : Nat),
    (matchLoop dist n cur c avail)[i]? = some Match.fresh →
      ∀ q d, q < n → q ∈ avail → dist (c + i) q = some d →
        ∃ j, j < i ∧ (matchLoop dist n cur c avail)[j]? = some (Match.prev q) := by
  intro cur
  induction cur with
  | nil => intro c avail i h; simp [matchLoop] at h
  | cons s rest ih =>
    intro c avail i h q d hq ha hd
    cases s with
    | false =>
      simp only [matchLoop, Bool.false_eq_true, if_false] at h ⊢
      cases i with
      | zero => simp at h
      | succ i =>
        simp only [List.getElem?_cons_succ] at h
        have e : c + (i + 1) = c + 1 + i := by omega
        rw [e] at hd
        obtain ⟨j, hj, hjm⟩ := ih (c + 1) avail i h q d hq ha hd
        exact ⟨j + 1, by omega, by simpa using hjm⟩
    | true =>
      simp only [matchLoop, if_true] at h ⊢
      cases hm : argminFirst (cands dist avail n c) with
      | none =>
        simp only [hm] at h ⊢
        cases i with
        | zero =>
          have hnil := argminFirst_none _ hm
          have := mem_cands (n := n) hq ha (by simpa using hd)
          rw [hnil] at this; simp at this
        | succ i =>
          simp only [List.getElem?_cons_succ] at h
          have e : c + (i + 1) = c + 1 + i := by omega
          rw [e] at hd
          obtain ⟨j, hj, hjm⟩ := ih (c + 1) avail i h q d hq ha hd
          exact ⟨j + 1, by omega, by simpa using hjm⟩
      | some pd =>
        obtain ⟨p', d'⟩ := pd
        simp only [hm] at h ⊢
        cases i with
        | zero => simp at h
        | succ i =>
          simp only [List.getElem?_cons_succ] at h
          by_cases hqp : q = p'
          · subst hqp
            exact ⟨0, by omega, by simp⟩
          · have e : c + (i + 1) = c + 1 + i := by omega
            rw [e] at hd
            have ha' : q ∈ avail.erase p' := (List.mem_erase_of_ne hqp).2 ha
            obtain ⟨j, hj, hjm⟩ := ih (c + 1) (avail.erase p') i h q d hq ha' hd
            exact ⟨j + 1, by omega, by simpa using hjm⟩

theorem prevs_cons_prev (p : Nat) (ms : List Match) : prevs (Match.prev p :: ms) = p :: prevs ms := rfl
theorem prevs_cons_fresh (ms : List Match) : prevs (Match.fresh :: ms) = prevs ms := rfl
theorem prevs_cons_empty (ms : List Match) : prevs (Match.empty :: ms) = prevs ms := rfl

theorem mem_prevs {ms : List Match} {p : Nat} : p ∈ prevs ms ↔ Match.prev p ∈ ms := by
  induction ms with
  | nil => simp [prevs]
  | cons m ms ih =>
    cases m with
    | empty => simp [prevs_cons_empty, ih]
    | fresh => simp [prevs_cons_fresh, ih]
    | prev q => simp [prevs_cons_prev, ih]

/-- the greedy loop uses every predecessor at most once, and only available ones -/
theorem matchLoop_prevs (dist : Dist) (n : Nat) : ∀ (cur : List Slot) (c : Nat) (avail : List Nat),
    avail.Nodup →
      (prevs (matchLoop dist n cur c avail)).Nodup ∧ ∀ p ∈ prevs (matchLoop dist n cur c avail), p ∈ avail := by
  intro cur
  induction cur with
  | nil => intro c avail _; simp [matchLoop, prevs]
  | cons s rest ih =>
    intro c avail hnd
    cases s with
    | false =>
      simp only [matchLoop, Bool.false_eq_true, if_false, prevs_cons_empty]
      exact ih (c + 1) avail hnd
    | true =>
      simp only [matchLoop, if_true]
      cases hm : argminFirst (cands dist avail n c) with
      | none =>
        simp only [prevs_cons_fresh]
        exact ih (c + 1) avail hnd
      | some pd =>
        obtain ⟨q, d⟩ := pd
        simp only [prevs_cons_prev]
        have hmem := cands_mem (argminFirst_mem _ _ hm)
        obtain ⟨r1, r2⟩ := ih (c + 1) (avail.erase q) (hnd.erase q)
        refine ⟨List.nodup_cons.2 ⟨?_, r1⟩, ?_⟩
        · intro hq
          exact ((List.Nodup.mem_erase_iff hnd).1 (r2 q hq)).1 rfl
        · intro p hp
          rcases List.mem_cons.1 hp with rfl | hp
          · exact hmem.2.1
          · exact List.mem_of_mem_erase (r2 p hp)

theorem availOf_nodup (prev : List Slot) : (availOf prev).Nodup :=
  List.Nodup.filter _ List.nodup_range

theorem mem_availOf {prev : List Slot} {p : Nat} : p ∈ availOf prev ↔ prev[p]? = some true := by
  simp only [availOf, List.mem_filter, List.mem_range, List.getD_eq_getElem?_getD]
  constructor
  · rintro ⟨hlt, h⟩
    rw [List.getElem?_eq_getElem hlt] at h ⊢
    simpa using h
  · intro h
    have hlt : p < prev.length := by
      by_contra hc
      rw [List.getElem?_eq_none (by omega)] at h
      simp at h
    exact ⟨hlt, by simp [h]⟩

/-! ### id propagation -/

theorem propagate_isSome (prevIds : List (Option Nat)) : ∀ (ms : List Match) (next : Nat),
    (∀ p, Match.prev p ∈ ms → (prevIds.getD p none).isSome = true) →
      (propagate prevIds ms next).1.map Option.isSome = ms.map Match.nonempty := by
  intro ms
  induction ms with
  | nil => intro next _; simp [propagate]
  | cons m ms ih =>
    intro next h
    have h' : ∀ p, Match.prev p ∈ ms → (prevIds.getD p none).isSome = true :=
      fun p hp => h p (List.mem_cons_of_mem _ hp)
    cases m with
    | empty => simp [propagate, Match.nonempty, ih next h']
    | fresh => simp [propagate, Match.nonempty, ih (next + 1) h']
    | prev p =>
      have := h p (by simp)
      rw [List.getD_eq_getElem?_getD] at this
      simp [propagate, Match.nonempty, ih next h', this]

/-- where an id of the new row comes from -/
theorem propagate_get (prevIds : List (Option Nat)) : ∀ (ms : List Match) (next c k : Nat),
    (propagate prevIds ms next).1[c]? = some (some k) →
      (next ≤ k ∧ ms[c]? = some Match.fresh) ∨
      (∃ p, ms[c]? = some (Match.prev p) ∧ prevIds.getD p none = some k) := by
  intro ms
  induction ms with
  | nil => intro next c k h; simp [propagate] at h
  | cons m ms ih =>
    intro next c k h
    cases m with
    | empty =>
      simp only [propagate] at h
      cases c with
      | zero => simp at h
      | succ c =>
        simp only [List.getElem?_cons_succ] at h ⊢
        exact ih next c k h
    | fresh =>
      simp only [propagate] at h
      cases c with
      | zero =>
        simp only [List.getElem?_cons_zero, Option.some.injEq] at h
        subst h
        exact Or.inl ⟨le_refl _, by simp⟩
      | succ c =>
        simp only [List.getElem?_cons_succ] at h ⊢
        rcases ih (next + 1) c k h with ⟨h1, h2⟩ | h2
        · exact Or.inl ⟨by omega, h2⟩
        · exact Or.inr h2
    | prev p =>
      simp only [propagate] at h
      cases c with
      | zero =>
        simp only [List.getElem?_cons_zero, Option.some.injEq] at h
        exact Or.inr ⟨p, by simp, h⟩
      | succ c =>
        simp only [List.getElem?_cons_succ] at h ⊢
        exact ih next c k h

/-! ### `InOrder` -/

theorem InOrder.le : ∀ {l : List Nat} {n m : Nat}, InOrder n l m → n ≤ m := by
  intro l
  induction l with
  | nil => intro n m h; simp only [InOrder] at h; omega
  | cons x xs ih =>
    intro n m h
    simp only [InOrder] at h
    rcases h with ⟨_, h⟩ | ⟨_, h⟩
    · exact ih h
    · have := ih h; omega

theorem InOrder.append : ∀ {l1 : List Nat} {n m k : Nat} {l2 : List Nat},
    InOrder n l1 m → InOrder m l2 k → InOrder n (l1 ++ l2) k := by
  intro l1
  induction l1 with
  | nil => intro n m k l2 h1 h2; simp only [InOrder] at h1; subst h1; simpa using h2
  | cons x xs ih =>
    intro n m k l2 h1 h2
    simp only [InOrder, List.cons_append] at h1 ⊢
    rcases h1 with ⟨hx, h⟩ | ⟨hx, h⟩
    · exact Or.inl ⟨hx, ih h h2⟩
    · exact Or.inr ⟨hx, ih h h2⟩

theorem InOrder.lt_of_mem : ∀ {l : List Nat} {n m : Nat}, InOrder n l m → ∀ x ∈ l, x < m := by
  intro l
  induction l with
  | nil => intro n m _ x hx; simp at hx
  | cons y ys ih =>
    intro n m h x hx
    simp only [InOrder] at h
    rcases h with ⟨hy, h⟩ | ⟨hy, h⟩
    · rcases List.mem_cons.1 hx with rfl | hx
      · have := h.le; omega
      · exact ih h x hx
    · rcases List.mem_cons.1 hx with rfl | hx
      · have := h.le; omega
      · exact ih h x hx

theorem InOrder.mem_of_lt : ∀ {l : List Nat} {n m : Nat}, InOrder n l m → ∀ x, n ≤ x → x < m → x ∈ l := by
  intro l
  induction l with
  | nil => intro n m h x h1 h2; simp only [InOrder] at h; omega
  | cons y ys ih =>
    intro n m h x h1 h2
    simp only [InOrder] at h
    rcases h with ⟨_, h⟩ | ⟨hy, h⟩
    · exact List.mem_cons_of_mem _ (ih h x h1 h2)
    · by_cases hxy : x = y
      · subst hxy; simp
      · exact List.mem_cons_of_mem _ (ih h x (by omega) h2)

theorem InOrder.firstOcc : ∀ {l : List Nat} {n m : Nat}, InOrder n l m →
    (firstOcc l).filter (fun a => decide (n ≤ a)) = List.range' n (m - n) := by
  intro l
  induction l with
  | nil => intro n m h; simp only [InOrder] at h; subst h; simp [Track.firstOcc]
  | cons x xs ih =>
    intro n m h
    simp only [InOrder] at h
    rcases h with ⟨hx, h⟩ | ⟨hx, h⟩
    · have hnot : ¬ n ≤ x := by omega
      simp only [Track.firstOcc, List.filter_cons, hnot, decide_false, Bool.false_eq_true, if_false]
      rw [List.filter_filter]
      have : (List.filter (fun a => decide (n ≤ a) && decide (a ≠ x)) (Track.firstOcc xs))
          = List.filter (fun a => decide (n ≤ a)) (Track.firstOcc xs) := by
        apply List.filter_congr
        intro a _
        by_cases ha : n ≤ a
        · have : a ≠ x := by omega
          simp [ha, this]
        · simp [ha]
      rw [this, ih h]
    · subst hx
      have hle := h.le
      simp only [Track.firstOcc, List.filter_cons, le_refl, decide_true, if_true]
      rw [List.filter_filter]
      have : (List.filter (fun a => decide (x ≤ a) && decide (a ≠ x)) (Track.firstOcc xs))
          = List.filter (fun a => decide (x + 1 ≤ a)) (Track.firstOcc xs) := by
        apply List.filter_congr
        intro a _
        by_cases ha : x + 1 ≤ a
        · have h1 : x ≤ a := by omega
          have h2 : a ≠ x := by omega
          simp [ha, h1, h2]
        · by_cases h1 : x ≤ a
          · have h2 : a = x := by omega
            simp [h2]
          · simp [ha, h1]
      rw [this, ih h]
      have e : m - x = (m - (x + 1)) + 1 := by omega
      rw [e, List.range'_succ]

/-! ### first step and propagation produce ids in order -/

theorem firstStep_spec : ∀ (ss : List Slot) (next : Nat),
    (firstStep ss next).1.map Option.isSome = ss ∧
    (present (firstStep ss next).1).Nodup ∧
    (∀ k ∈ present (firstStep ss next).1, next ≤ k) ∧
    InOrder next (present (firstStep ss next).1) (firstStep ss next).2 := by
  intro ss
  induction ss with
  | nil => intro next; simp [firstStep, present, InOrder]
  | cons s ss ih =>
    intro next
    cases s with
    | false =>
      obtain ⟨h1, h2, h3, h4⟩ := ih next
      simp only [firstStep, present_none]
      exact ⟨by simp [h1], h2, h3, h4⟩
    | true =>
      obtain ⟨h1, h2, h3, h4⟩ := ih (next + 1)
      simp only [firstStep, present_some]
      refine ⟨by simp [h1], List.nodup_cons.2 ⟨?_, h2⟩, ?_, ?_⟩
      · intro hin; have := h3 next hin; omega
      · intro k hk
        rcases List.mem_cons.1 hk with rfl | hk
        · exact le_refl _
        · have := h3 k hk; omega
      · simp only [InOrder]; exact Or.inr ⟨by first | rfl | trivial, h4⟩

/-- main lemma on one propagation step -/
theorem propagate_spec (prevIds : List (Option Nat)) (next0 : Nat)
    (hb : ∀ p k, prevIds.getD p none = some k → k < next0)
    (hinj : ∀ p q k, prevIds.getD p none = some k → prevIds.getD q none = some k → p = q) :
    ∀ (ms : List Match) (next : Nat), next0 ≤ next → (prevs ms).Nodup →
      (present (propagate prevIds ms next).1).Nodup ∧
      (∀ k ∈ present (propagate prevIds ms next).1,
          (next ≤ k) ∨ (k < next0 ∧ ∃ p ∈ prevs ms, prevIds.getD p none = some k)) ∧
      InOrder next (present (propagate prevIds ms next).1) (propagate prevIds ms next).2 := by
  intro ms
  induction ms with
  | nil => intro next _ _; simp [propagate, present, InOrder]
  | cons m ms ih =>
    intro next hle hnd
    cases m with
    | empty =>
      rw [prevs_cons_empty] at hnd
      obtain ⟨h1, h2, h3⟩ := ih next hle hnd
      simp only [propagate, present_none, prevs_cons_empty]
      exact ⟨h1, h2, h3⟩
    | fresh =>
      rw [prevs_cons_fresh] at hnd
      obtain ⟨h1, h2, h3⟩ := ih (next + 1) (by omega) hnd
      simp only [propagate, present_some, prevs_cons_fresh]
      refine ⟨List.nodup_cons.2 ⟨?_, h1⟩, ?_, ?_⟩
      · intro hin
        rcases h2 next hin with h | ⟨h, _⟩ <;> omega
      · intro k hk
        rcases List.mem_cons.1 hk with rfl | hk
        · exact Or.inl (le_refl _)
        · rcases h2 k hk with h | h
          · exact Or.inl (by omega)
          · exact Or.inr h
      · simp only [InOrder]; exact Or.inr ⟨by first | rfl | trivial, h3⟩
    | prev p =>
      rw [prevs_cons_prev, List.nodup_cons] at hnd
      obtain ⟨h1, h2, h3⟩ := ih next hle hnd.2
      simp only [propagate, prevs_cons_prev]
      cases hv : prevIds.getD p none with
      | none =>
        simp only [present_none]
        refine ⟨h1, ?_, h3⟩
        intro k hk
        rcases h2 k hk with h | ⟨h, q, hq, hqk⟩
        · exact Or.inl h
        · exact Or.inr ⟨h, q, List.mem_cons_of_mem _ hq, hqk⟩
      | some j =>
        have hj : j < next0 := hb p j hv
        simp only [present_some]
        refine ⟨List.nodup_cons.2 ⟨?_, h1⟩, ?_, ?_⟩
        · intro hin
          rcases h2 j hin with h | ⟨_, q, hq, hqk⟩
          · omega
          · have := hinj p q j hv hqk
            subst this
            exact hnd.1 hq
        · intro k hk
          rcases List.mem_cons.1 hk with rfl | hk
          · exact Or.inr ⟨hj, p, by simp, hv⟩
          · rcases h2 k hk with h | ⟨h, q, hq, hqk⟩
            · exact Or.inl h
            · exact Or.inr ⟨h, q, List.mem_cons_of_mem _ hq, hqk⟩
        · simp only [InOrder]; exact Or.inl ⟨by omega, h3⟩

/-! ### invariant of the tracker state -/

/-- marker pattern, per-step uniqueness, ids below the counter -/
structure Inv (st : St) : Prop where
  marker : st.ids.map Option.isSome = st.slots
  nodup : (present st.ids).Nodup
  bound : ∀ k ∈ present st.ids, k < st.next

/-- what a time step guarantees about the new state relative to the old one -/
structure StepRel (d : Dist) (a b : St) : Prop where
  mono : a.next ≤ b.next
  origin : ∀ c k, b.ids[c]? = some (some k) →
    (a.next ≤ k) ∨ (∃ p, a.ids[p]? = some (some k) ∧ ∃ x, d c p = some x)
  inorder : InOrder a.next (present b.ids) b.next

theorem inv_init (s0 : List Slot) : Inv (init s0) ∧ InOrder 0 (present (init s0).ids) (init s0).next := by
  obtain ⟨h1, h2, _, h4⟩ := firstStep_spec s0 0
  exact ⟨⟨h1, h2, fun k hk => h4.lt_of_mem k hk⟩, h4⟩

theorem isSome_of_avail {st : St} (hI : Inv st) {p : Nat} (hp : p ∈ availOf st.slots) :
    (st.ids.getD p none).isSome = true := by
  have h := mem_availOf.1 hp
  rw [← hI.marker, List.getElem?_map] at h
  rw [List.getD_eq_getElem?_getD]
  cases hv : st.ids[p]? with
  | none => simp [hv] at h
  | some v => simpa [hv] using h

theorem step_spec (d : Dist) (st : St) (cur : List Slot) (hI : Inv st) :
    Inv (step d st cur) ∧ StepRel d st (step d st cur) := by
  have hms := matchLoop_prevs d st.slots.length cur 0 (availOf st.slots) (availOf_nodup _)
  have hb : ∀ p k, st.ids.getD p none = some k → k < st.next := fun p k h =>
    hI.bound k (mem_present.2 (mem_of_getElem? (getD_eq_some_iff.1 h)))
  have hinj : ∀ p q k, st.ids.getD p none = some k → st.ids.getD q none = some k → p = q := fun p q k h1 h2 =>
    present_nodup_inj hI.nodup (getD_eq_some_iff.1 h1) (getD_eq_some_iff.1 h2)
  obtain ⟨h1, h2, h3⟩ := propagate_spec st.ids st.next hb hinj
    (matchConsecutive d st.slots cur) st.next (le_refl _) hms.1
  have hsome : ∀ p, Match.prev p ∈ matchConsecutive d st.slots cur → (st.ids.getD p none).isSome = true :=
    fun p hp => isSome_of_avail hI (hms.2 p (mem_prevs.2 hp))
  refine ⟨⟨?_, h1, ?_⟩, ⟨h3.le, ?_, h3⟩⟩
  · show (propagate st.ids (matchConsecutive d st.slots cur) st.next).1.map Option.isSome = cur
    rw [propagate_isSome _ _ _ hsome]
    exact matchLoop_nonempty _ _ _ _ _
  · intro k hk
    exact h3.lt_of_mem k hk
  · intro c k hck
    rcases propagate_get st.ids _ _ c k hck with ⟨h, _⟩ | ⟨p, hp, hpk⟩
    · exact Or.inl h
    · right
      obtain ⟨_, x, hx⟩ := matchLoop_get d _ cur 0 _ c p hp
      exact ⟨p, getD_eq_some_iff.1 hpk, x, by simpa using hx⟩

/-! ### lifting over the list of time steps -/

theorem allStates_zero (st : St) (steps : List (Dist × List Slot)) : (allStates st steps)[0]? = some st := by
  cases steps with
  | nil => simp [allStates]
  | cons x rest => obtain ⟨d, s⟩ := x; simp [allStates]

theorem allStates_succ (st : St) (d : Dist) (s : List Slot) (rest : List (Dist × List Slot)) (t : Nat) :
    (allStates st ((d, s) :: rest))[t + 1]? = (allStates (step d st s) rest)[t]? := by
  simp [allStates]

theorem allStates_inv : ∀ (steps : List (Dist × List Slot)) (st : St), Inv st →
    ∀ (t : Nat) (a : St), (allStates st steps)[t]? = some a → Inv a := by
  intro steps
  induction steps with
  | nil =>
    intro st hI t a h
    cases t with
    | zero => simp [allStates] at h; subst h; exact hI
    | succ t => simp [allStates] at h
  | cons x rest ih =>
    obtain ⟨d, s⟩ := x
    intro st hI t a h
    cases t with
    | zero => rw [allStates_zero] at h; simp at h; subst h; exact hI
    | succ t =>
      rw [allStates_succ] at h
      exact ih _ (step_spec d st s hI).1 t a h

/-- two consecutive states are related by `step` with the distance matrix and slots of that time step -/
theorem allStates_consec : ∀ (steps : List (Dist × List Slot)) (st : St) (t : Nat) (a b : St),
    (allStates st steps)[t]? = some a → (allStates st steps)[t + 1]? = some b →
      ∃ d s, steps[t]? = some (d, s) ∧ b = step d a s := by
  intro steps
  induction steps with
  | nil => intro st t a b _ h; simp [allStates] at h
  | cons x rest ih =>
    obtain ⟨d, s⟩ := x
    intro st t a b ha hb
    cases t with
    | zero =>
      rw [allStates_zero] at ha
      rw [allStates_succ, allStates_zero] at hb
      simp at ha hb
      subst ha; subst hb
      exact ⟨d, s, by simp, rfl⟩
    | succ t =>
      rw [allStates_succ] at ha hb
      obtain ⟨d', s', h1, h2⟩ := ih _ t a b ha hb
      exact ⟨d', s', by simpa using h1, h2⟩

theorem allStates_suffix : ∀ (steps : List (Dist × List Slot)) (st : St) (t : Nat) (a : St),
    (allStates st steps)[t]? = some a →
      ∀ (j : Nat), (allStates st steps)[t + j]? = (allStates a (steps.drop t))[j]? := by
  intro steps
  induction steps with
  | nil =>
    intro st t a h j
    cases t with
    | zero => simp [allStates] at h; subst h; simp
    | succ t => simp [allStates] at h
  | cons x rest ih =>
    obtain ⟨d, s⟩ := x
    intro st t a h j
    cases t with
    | zero => rw [allStates_zero] at h; simp at h; subst h; simp
    | succ t =>
      rw [allStates_succ] at h
      have e : t + 1 + j = (t + j) + 1 := by omega
      rw [e, allStates_succ, ih _ t a h j]
      simp

/-- an id that has been issued (`< next`) and is not in use stays out of use for ever -/
theorem absent_persists (k : Nat) : ∀ (steps : List (Dist × List Slot)) (st : St), Inv st →
    k < st.next → k ∉ present st.ids →
      ∀ (j : Nat) (b : St), (allStates st steps)[j]? = some b → k ∉ present b.ids ∧ k < b.next := by
  intro steps
  induction steps with
  | nil =>
    intro st _ h1 h2 j b hb
    cases j with
    | zero => simp [allStates] at hb; subst hb; exact ⟨h2, h1⟩
    | succ j => simp [allStates] at hb
  | cons x rest ih =>
    obtain ⟨d, s⟩ := x
    intro st hI h1 h2 j b hb
    cases j with
    | zero => rw [allStates_zero] at hb; simp at hb; subst hb; exact ⟨h2, h1⟩
    | succ j =>
      rw [allStates_succ] at hb
      obtain ⟨hI', hR⟩ := step_spec d st s hI
      refine ih _ hI' (lt_of_lt_of_le h1 hR.mono) ?_ j b hb
      intro hin
      obtain ⟨c, hc⟩ := List.mem_iff_getElem?.1 (mem_present.1 hin)
      rcases hR.origin c k hc with h | ⟨p, hp, _⟩
      · omega
      · exact h2 (mem_present.2 (mem_of_getElem? hp))

theorem finalNext_eq : ∀ (steps : List (Dist × List Slot)) (st : St),
    ∃ b, (allStates st steps).getLast? = some b ∧ finalNext st steps = b.next := by
  intro steps
  induction steps with
  | nil => intro st; exact ⟨st, by simp [allStates], rfl⟩
  | cons x rest ih =>
    obtain ⟨d, s⟩ := x
    intro st
    obtain ⟨b, h1, h2⟩ := ih (step d st s)
    refine ⟨b, ?_, by simpa [finalNext] using h2⟩
    simp only [allStates]
    rw [List.getLast?_cons]
    simp [h1]

/-- the ids of all steps, scanned in time order then slot order, are issued in order; the counter ends at
    the reported count -/
theorem allStates_inOrder : ∀ (steps : List (Dist × List Slot)) (st : St) (n0 : Nat), Inv st →
    InOrder n0 (present st.ids) st.next →
      InOrder n0 ((allStates st steps).flatMap fun a => present a.ids) (finalNext st steps) := by
  intro steps
  induction steps with
  | nil => intro st n0 _ h; simpa [allStates, finalNext] using h
  | cons x rest ih =>
    obtain ⟨d, s⟩ := x
    intro st n0 hI h
    obtain ⟨hI', hR⟩ := step_spec d st s hI
    have := ih (step d st s) st.next hI' hR.inorder
    simp only [allStates, finalNext, List.flatMap_cons]
    exact h.append this

/-! ## plumbing between `track` and the list of tracker states -/

theorem rows_get {s0 : List Slot} {steps : List (Dist × List Slot)} {t : Nat} {row : List (Option Nat)}
    (h : (track s0 steps).1[t]? = some row) :
    ∃ a, (allStates (init s0) steps)[t]? = some a ∧ a.ids = row ∧ Inv a := by
  simp only [track, List.getElem?_map] at h
  cases ha : (allStates (init s0) steps)[t]? with
  | none => simp [ha] at h
  | some a =>
    simp [ha] at h
    exact ⟨a, rfl, h, allStates_inv steps _ (inv_init s0).1 t a ha⟩

theorem allStates_slots : ∀ (steps : List (Dist × List Slot)) (st : St),
    (allStates st steps).map (·.slots) = st.slots :: steps.map (·.2) := by
  intro steps
  induction steps with
  | nil => intro st; simp [allStates]
  | cons x rest ih =>
    obtain ⟨d, s⟩ := x
    intro st
    simp only [allStates, List.map_cons, ih]
    simp [step]

theorem next_mono : ∀ (steps : List (Dist × List Slot)) (st : St), Inv st →
    ∀ (j : Nat) (b : St), (allStates st steps)[j]? = some b → st.next ≤ b.next := by
  intro steps
  induction steps with
  | nil =>
    intro st _ j b hb
    cases j with
    | zero => simp [allStates] at hb; subst hb; exact le_refl _
    | succ j => simp [allStates] at hb
  | cons x rest ih =>
    obtain ⟨d, s⟩ := x
    intro st hI j b hb
    cases j with
    | zero => rw [allStates_zero] at hb; simp at hb; subst hb; exact le_refl _
    | succ j =>
      rw [allStates_succ] at hb
      obtain ⟨hI', hR⟩ := step_spec d st s hI
      exact le_trans hR.mono (ih _ hI' j b hb)

theorem mkSteps_get : ∀ (rest : List (Thr × Step)) (s0 : Step) (t : Nat) (thr : Thr) (prevStep cur : Step),
    rest[t]? = some (thr, cur) → (s0 :: rest.map (·.2))[t]? = some prevStep →
      (mkSteps s0 rest)[t]? = some (distOf thr prevStep cur, slotsOf cur) := by
  intro rest
  induction rest with
  | nil => intro s0 t thr prevStep cur h; simp at h
  | cons x rest ih =>
    obtain ⟨thr0, cur0⟩ := x
    intro s0 t thr prevStep cur h hp
    cases t with
    | zero =>
      simp only [List.getElem?_cons_zero, Option.some.injEq, Prod.mk.injEq] at h hp
      obtain ⟨rfl, rfl⟩ := h
      subst hp
      simp [mkSteps]
    | succ t =>
      simp only [List.getElem?_cons_succ, List.map_cons] at h hp
      simp only [mkSteps, List.getElem?_cons_succ]
      exact ih cur0 t thr prevStep cur h hp


end WS.Track

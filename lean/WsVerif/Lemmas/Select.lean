import WsVerif.Model.Select
import WsVerif.Model.SelectFixed
import WsVerif.Lemmas.Sums
import Mathlib.Tactic.Ring
import Mathlib.Tactic.Linarith
import Mathlib.Tactic.Positivity
import Mathlib.Tactic.FieldSimp
import Mathlib.Algebra.Order.Field.Rat
import Mathlib.Algebra.BigOperators.Group.List.Basic
import Mathlib.Algebra.Order.BigOperators.Group.List
/-! Helper lemmas for C14 (station selection): floor-mod, first argmin, square-root oracle. -/
namespace WS.Select
open WS

/-! ### `x % 360` -/

theorem mod360_def (x : ℚ) : mod360 x = x - 360 * ((x / 360).floor : ℚ) := rfl

theorem mod360_nonneg (x : ℚ) : 0 ≤ mod360 x := by
  have h := Rat.floor_le (x / 360)
  rw [mod360_def]
  have : (360 : ℚ) * ((x / 360).floor : ℚ) ≤ 360 * (x / 360) := by
    apply mul_le_mul_of_nonneg_left h (by norm_num)
  have h2 : (360 : ℚ) * (x / 360) = x := by ring
  linarith

theorem mod360_lt (x : ℚ) : mod360 x < 360 := by
  have h := Rat.lt_floor_add_one (x / 360)
  rw [mod360_def]
  have h1 : x / 360 < ((x / 360).floor : ℚ) + 1 := by
    simpa using h
  have : x < 360 * (((x / 360).floor : ℚ) + 1) := by
    have := mul_lt_mul_of_pos_left h1 (by norm_num : (0 : ℚ) < 360)
    have h2 : (360 : ℚ) * (x / 360) = x := by ring
    linarith
  linarith

/-- periodicity: `(x + 360 k) % 360 = x % 360` -/
theorem mod360_add_int (x : ℚ) (k : ℤ) : mod360 (x + 360 * k) = mod360 x := by
  rw [mod360_def, mod360_def]
  have h : (x + 360 * (k : ℚ)) / 360 = x / 360 + (k : ℚ) := by ring
  rw [h, Rat.floor_add_intCast]
  push_cast
  ring

theorem mod360_of_range {x : ℚ} (h0 : 0 ≤ x) (h1 : x < 360) : mod360 x = x := by
  have hf : (x / 360).floor = 0 := by
    apply le_antisymm
    · have : (x / 360).floor < 1 := by
        rw [Rat.floor_lt_iff]
        have : x / 360 < 1 := by
          rw [div_lt_one (by norm_num)]; exact h1
        simpa using this
      omega
    · rw [Rat.le_floor_iff]
      have : 0 ≤ x / 360 := div_nonneg h0 (by norm_num)
      simpa using this
  rw [mod360_def, hf]; simp

theorem mod360_idem (x : ℚ) : mod360 (mod360 x) = mod360 x :=
  mod360_of_range (mod360_nonneg x) (mod360_lt x)

theorem mod360_sub_360 (x : ℚ) : mod360 (x - 360) = mod360 x := by
  have := mod360_add_int x (-1)
  simpa [sub_eq_add_neg] using this

theorem mod360_to180 (x : ℚ) : mod360 (to180 x) = mod360 x := by
  unfold to180
  split
  · exact mod360_sub_360 x
  · rfl

/-- `x % 360` differs from `x` by a whole number of turns -/
theorem mod360_eq_add_int (x : ℚ) : ∃ k : ℤ, mod360 x = x + 360 * k :=
  ⟨-(x / 360).floor, by rw [mod360_def]; push_cast; ring⟩

/-! ### first argmin -/

theorem argminFirst_lt : ∀ (l : Vec), l ≠ [] → argminFirst l < l.length
  | [], h => absurd rfl h
  | [_], _ => by simp [argminFirst]
  | x :: y :: ys, _ => by
    have ih := argminFirst_lt (y :: ys) (by simp)
    unfold argminFirst
    split
    · simp at *
    · split <;> simp_all <;> omega

theorem argminFirst_le : ∀ (l : Vec) (k : Nat), k < l.length →
    l.getD (argminFirst l) 0 ≤ l.getD k 0
  | [], k, h => by simp at h
  | [x], k, h => by
    have : k = 0 := by simpa using h
    subst this; simp [argminFirst]
  | x :: y :: ys, k, h => by
    have ih := argminFirst_le (y :: ys)
    have hlt := argminFirst_lt (y :: ys) (by simp)
    unfold argminFirst
    simp only
    by_cases hc : (y :: ys).getD (argminFirst (y :: ys)) 0 < x
    · simp only [hc, if_true]
      cases k with
      | zero => simpa using le_of_lt hc
      | succ k =>
        have hk : k < (y :: ys).length := by simpa using h
        simpa using ih k hk
    · simp only [hc, if_false]
      cases k with
      | zero => simp
      | succ k =>
        have hk : k < (y :: ys).length := by simpa using h
        have := ih k hk
        have hx : x ≤ (y :: ys).getD (argminFirst (y :: ys)) 0 := not_lt.mp hc
        simpa using le_trans hx this

/-! ### square-root oracle -/

/-- `sq` is an exact square root on the radicands `S` -/
def SqrtOn (sq : ℚ → ℚ) (S : List ℚ) : Prop := ∀ x ∈ S, 0 ≤ sq x ∧ sq x * sq x = x

theorem sqrt_le_iff {sq : ℚ → ℚ} {x y : ℚ} (hx : 0 ≤ sq x ∧ sq x * sq x = x) (hy : 0 ≤ sq y ∧ sq y * sq y = y) :
    sq x ≤ sq y ↔ x ≤ y := by
  constructor
  · intro h
    have := mul_le_mul h h hx.1 hy.1
    rw [hx.2, hy.2] at this; exact this
  · intro h
    by_contra hc
    have hc : sq y < sq x := not_le.mp hc
    have := mul_lt_mul hc (le_of_lt hc) (lt_of_le_of_lt hy.1 hc |> fun _ => ?_) hx.1
    · rw [hy.2, hx.2] at this; exact absurd h (not_le.mpr this)
    · rcases lt_or_eq_of_le hy.1 with h0 | h0
      · exact h0
      · exfalso
        have hy0 : y = 0 := by rw [← hy.2, ← h0]; ring
        have hxpos : 0 < sq x := by rw [← h0] at hc; exact hc
        have : 0 < x := by rw [← hx.2]; positivity
        linarith

/-! ### radicand rows, residues -/

/-- the radicands of `Coordinates.distance` for every query (rows) and station (columns) -/
def radRows (ld : ℚ → ℚ → ℚ) (dl dla ql qla : Vec) : List Vec :=
  List.zipWith (fun qlon qlat => distSqRow ld dl dla qlon qlat) (lonsQ ql dl) qla

theorem distRows_eq (sq : ℚ → ℚ) (ld : ℚ → ℚ → ℚ) (dl dla ql qla : Vec) :
    distRows sq ld dl dla ql qla = (radRows ld dl dla ql qla).map (fun r => r.map sq) := by
  unfold distRows radRows distRow
  rw [List.map_zipWith]

/-- radicand row from residues -/
def distSqRowR (ld : ℚ → ℚ → ℚ) (dr dla : Vec) (qr qlat : ℚ) : Vec :=
  List.zipWith (fun a b => (ld a qr) ^ 2 + (b - qlat) ^ 2) dr dla

theorem distSqRow_residues (ld : ℚ → ℚ → ℚ) (dl dla : Vec) (qlon qlat : ℚ) :
    distSqRow ld dl dla qlon qlat = distSqRowR ld (dl.map mod360) dla (mod360 qlon) qlat := by
  unfold distSqRow distSqRowR distSq
  rw [List.zipWith_map_left]

theorem swapConv_residues (a : Vec) : (swapConv a).map mod360 = a.map mod360 := by
  unfold swapConv
  split
  · simp [List.map_map, Function.comp_def, mod360_idem]
  · split
    · simp [List.map_map, Function.comp_def, mod360_to180]
    · rfl

/-- `Coordinates.lons` never changes a longitude modulo 360 -/
theorem lonsQ_residues (ql dl : Vec) : (lonsQ ql dl).map mod360 = ql.map mod360 := by
  unfold lonsQ
  split
  · rfl
  · exact swapConv_residues ql

theorem radRows_residues (ld : ℚ → ℚ → ℚ) (dl dla ql qla : Vec) :
    radRows ld dl dla ql qla =
      List.zipWith (fun qr qlat => distSqRowR ld (dl.map mod360) dla qr qlat) (ql.map mod360) qla := by
  unfold radRows
  rw [← lonsQ_residues ql dl, List.zipWith_map_left]
  congr 1
  funext a b
  exact distSqRow_residues ld dl dla a b

theorem validate_residues (dl dl' ql ql' qla : Vec) (hd : dl.map mod360 = dl'.map mod360)
    (hq : ql.map mod360 = ql'.map mod360) : validate dl ql qla = validate dl' ql' qla := by
  have h1 : dl.length = dl'.length := by simpa using congrArg List.length hd
  have h2 : ql.length = ql'.length := by simpa using congrArg List.length hq
  have e1 : (dl = []) ↔ (dl' = []) := by
    rw [← List.length_eq_zero_iff, ← List.length_eq_zero_iff, h1]
  have e2 : (ql = []) ↔ (ql' = []) := by
    rw [← List.length_eq_zero_iff, ← List.length_eq_zero_iff, h2]
  unfold validate
  simp only [h2, e1, e2]

/-! ### the loop of `sel_nearest` -/

theorem nearestLoop_raise (tol : ℚ) (exact : Bool) :
    ∀ (rows : List Vec) (acc ids : List Nat),
      nearestLoop tol false exact .raise rows acc = .ok ids →
      ids = acc ++ rows.map argminFirst ∧
        ∀ d ∈ rows, d.getD (argminFirst d) 0 ≤ tol ∧ (exact = true → d.getD (argminFirst d) 0 ≤ 0)
  | [], acc, ids, h => by
    simp [nearestLoop] at h
    simp [h]
  | d :: rest, acc, ids, h => by
    unfold nearestLoop at h
    simp only at h
    by_cases h1 : d.getD (argminFirst d) 0 > tol
    · simp only [h1, true_and, if_true] at h
      cases h
    · by_cases h2 : exact = true ∧ d.getD (argminFirst d) 0 > 0
      · simp only [h1, h2, and_self, false_and, if_false, if_true] at h
        cases h
      · simp only [h1, h2, false_and, if_false, Bool.false_eq_true] at h
        have ih := nearestLoop_raise tol exact rest (acc ++ [argminFirst d]) ids h
        refine ⟨by simpa using ih.1, ?_⟩
        intro d' hd'
        rcases List.mem_cons.mp hd' with rfl | hr
        · refine ⟨not_lt.mp h1, ?_⟩
          intro he
          exact not_lt.mp (fun hlt => h2 ⟨he, hlt⟩)
        · exact ih.2 d' hr

theorem nearestLoop_mem (tol : ℚ) (unique exact : Bool) (missing : Missing) (hm : missing ≠ .other) :
    ∀ (rows : List Vec) (acc ids : List Nat),
      nearestLoop tol unique exact missing rows acc = .ok ids →
      ∀ i ∈ ids, i ∈ acc ∨ ∃ d ∈ rows, i = argminFirst d ∧ d.getD i 0 ≤ tol ∧ (exact = true → d.getD i 0 ≤ 0)
  | [], acc, ids, h => by
    simp [nearestLoop] at h
    subst h; intro i hi; exact Or.inl hi
  | d :: rest, acc, ids, h => by
    unfold nearestLoop at h
    simp only at h
    have lift : ∀ acc', (∀ i ∈ acc', i ∈ acc ∨ i = argminFirst d) →
        (d.getD (argminFirst d) 0 ≤ tol ∧ (exact = true → d.getD (argminFirst d) 0 ≤ 0) ∨ ∀ i ∈ acc', i ∈ acc) →
        nearestLoop tol unique exact missing rest acc' = .ok ids →
        ∀ i ∈ ids, i ∈ acc ∨ ∃ d' ∈ d :: rest, i = argminFirst d' ∧ d'.getD i 0 ≤ tol ∧ (exact = true → d'.getD i 0 ≤ 0) := by
      intro acc' hacc hgood h' i hi
      rcases nearestLoop_mem tol unique exact missing hm rest acc' ids h' i hi with h0 | ⟨d', hd', rest'⟩
      · rcases hgood with hg | hg
        · rcases hacc i h0 with h00 | h00
          · exact Or.inl h00
          · exact Or.inr ⟨d, List.mem_cons_self, h00, by rw [h00]; exact hg⟩
        · exact Or.inl (hg i h0)
      · exact Or.inr ⟨d', List.mem_cons_of_mem _ hd', rest'⟩
    by_cases h1 : d.getD (argminFirst d) 0 > tol
    · cases missing with
      | raise =>
        simp only [h1, true_and, if_true] at h
        cases h
      | ignore =>
        simp only [h1, true_and, if_true, reduceCtorEq, if_false] at h
        exact lift acc (fun i hi => Or.inl hi) (Or.inr fun i hi => hi) h
      | other => exact absurd rfl hm
    · by_cases h2 : exact = true ∧ d.getD (argminFirst d) 0 > 0
      · simp only [h1, h2, and_self, false_and, if_false, if_true] at h
        cases h
      · have hgood : d.getD (argminFirst d) 0 ≤ tol ∧ (exact = true → d.getD (argminFirst d) 0 ≤ 0) :=
          ⟨not_lt.mp h1, fun he => not_lt.mp (fun hlt => h2 ⟨he, hlt⟩)⟩
        simp only [h1, h2, false_and, if_false] at h
        by_cases h3 : unique = true ∧ argminFirst d ∈ acc
        · rw [if_pos h3] at h
          exact lift acc (fun i hi => Or.inl hi) (Or.inr fun i hi => hi) h
        · rw [if_neg h3] at h
          refine lift (acc ++ [argminFirst d]) ?_ (Or.inl hgood) h
          intro i hi
          rcases List.mem_append.mp hi with h | h
          · exact Or.inl h
          · exact Or.inr (by simpa using h)

theorem nearestLoop_beyond (tol : ℚ) (unique exact : Bool) :
    ∀ (rows : List Vec) (acc : List Nat), (∃ d ∈ rows, tol < d.getD (argminFirst d) 0) →
      nearestLoop tol unique exact .raise rows acc = .error .assertionError
  | [], _, h => by simp at h
  | d :: rest, acc, h => by
    unfold nearestLoop
    simp only
    by_cases h1 : d.getD (argminFirst d) 0 > tol
    · simp only [h1, true_and, if_true]
    · have hrest : ∃ d' ∈ rest, tol < d'.getD (argminFirst d') 0 := by
        obtain ⟨d', hd', hlt⟩ := h
        rcases List.mem_cons.mp hd' with rfl | hr
        · exact absurd hlt h1
        · exact ⟨d', hr, hlt⟩
      simp only [h1, false_and, if_false]
      by_cases h2 : exact = true ∧ d.getD (argminFirst d) 0 > 0
      · simp only [h2, and_self, if_true]
      · simp only [h2, if_false]
        split
        · exact nearestLoop_beyond tol unique exact rest acc hrest
        · exact nearestLoop_beyond tol unique exact rest _ hrest

theorem getD_map_of_lt (f : ℚ → ℚ) (l : Vec) (i : Nat) (h : i < l.length) :
    (l.map f).getD i 0 = f (l.getD i 0) := by
  simp [List.getD_eq_getElem?_getD, h]

theorem getD_mem_of_lt (l : Vec) (i : Nat) (h : i < l.length) : l.getD i 0 ∈ l := by
  simp [List.getD_eq_getElem?_getD, h]

/-! ### `array.min()` / `array.max()` -/

theorem minD_spec : ∀ (l : Vec) (d : ℚ), minD l d ≤ d ∧ ∀ x ∈ l, minD l d ≤ x
  | [], d => by simp [minD]
  | y :: ys, d => by
    have ih := minD_spec ys (if y < d then y else d)
    have e : minD (y :: ys) d = minD ys (if y < d then y else d) := by simp [minD]
    rw [e]
    refine ⟨le_trans ih.1 (by split <;> [exact le_of_lt ‹_›; exact le_refl _]), ?_⟩
    intro x hx
    rcases List.mem_cons.mp hx with rfl | h
    · refine le_trans ih.1 ?_
      split
      · exact le_refl _
      · exact not_lt.mp ‹_›
    · exact ih.2 x h

theorem le_minD : ∀ (l : Vec) (d b : ℚ), b ≤ d → (∀ x ∈ l, b ≤ x) → b ≤ minD l d
  | [], d, b, h, _ => by simpa [minD] using h
  | y :: ys, d, b, h, hl => by
    have e : minD (y :: ys) d = minD ys (if y < d then y else d) := by simp [minD]
    rw [e]
    apply le_minD ys
    · split
      · exact hl y List.mem_cons_self
      · exact h
    · intro x hx; exact hl x (List.mem_cons_of_mem _ hx)

theorem maxD_spec : ∀ (l : Vec) (d : ℚ), d ≤ maxD l d ∧ ∀ x ∈ l, x ≤ maxD l d
  | [], d => by simp [maxD]
  | y :: ys, d => by
    have ih := maxD_spec ys (if d < y then y else d)
    have e : maxD (y :: ys) d = maxD ys (if d < y then y else d) := by simp [maxD]
    rw [e]
    refine ⟨le_trans (by split <;> [exact le_of_lt ‹_›; exact le_refl _]) ih.1, ?_⟩
    intro x hx
    rcases List.mem_cons.mp hx with rfl | h
    · refine le_trans ?_ ih.1
      split
      · exact le_refl _
      · exact not_lt.mp ‹_›
    · exact ih.2 x h

theorem maxD_le : ∀ (l : Vec) (d b : ℚ), d ≤ b → (∀ x ∈ l, x ≤ b) → maxD l d ≤ b
  | [], d, b, h, _ => by simpa [maxD] using h
  | y :: ys, d, b, h, hl => by
    have e : maxD (y :: ys) d = maxD ys (if d < y then y else d) := by simp [maxD]
    rw [e]
    apply maxD_le ys
    · split
      · exact hl y List.mem_cons_self
      · exact h
    · intro x hx; exact hl x (List.mem_cons_of_mem _ hx)

/-- `arrMin` is a lower bound, `arrMax` an upper bound of the array -/
theorem arrMin_le {l : Vec} {x : ℚ} (h : x ∈ l) : arrMin l ≤ x := by
  cases l with
  | nil => simp at h
  | cons y ys =>
    rcases List.mem_cons.mp h with rfl | h'
    · exact (minD_spec ys _).1
    · exact (minD_spec ys y).2 x h'

theorem le_arrMax {l : Vec} {x : ℚ} (h : x ∈ l) : x ≤ arrMax l := by
  cases l with
  | nil => simp at h
  | cons y ys =>
    rcases List.mem_cons.mp h with rfl | h'
    · exact (maxD_spec ys _).1
    · exact (maxD_spec ys y).2 x h'

theorem le_arrMin {l : Vec} {b : ℚ} (hb : b ≤ 0) (h : ∀ x ∈ l, b ≤ x) : b ≤ arrMin l := by
  cases l with
  | nil => simpa [arrMin] using hb
  | cons y ys => exact le_minD ys y b (h y List.mem_cons_self) fun x hx => h x (List.mem_cons_of_mem _ hx)

theorem arrMax_le {l : Vec} {b : ℚ} (hb : 0 ≤ b) (h : ∀ x ∈ l, x ≤ b) : arrMax l ≤ b := by
  cases l with
  | nil => simpa [arrMax] using hb
  | cons y ys => exact maxD_le ys y b (h y List.mem_cons_self) fun x hx => h x (List.mem_cons_of_mem _ hx)

/-! ### `np.where` -/

theorem mem_whereIdx (dl dla : Vec) (p : ℚ → ℚ → Bool) (i : Nat) :
    i ∈ whereIdx dl dla p ↔ ∃ lon lat, (dl.zip dla)[i]? = some (lon, lat) ∧ p lon lat = true := by
  unfold whereIdx
  constructor
  · intro h
    obtain ⟨t, ht, rfl⟩ := List.mem_map.mp h
    obtain ⟨hz, hp⟩ := List.mem_filter.mp ht
    exact ⟨t.1.1, t.1.2, by simpa using List.mem_zipIdx_iff_getElem?.mp hz, hp⟩
  · rintro ⟨lon, lat, hz, hp⟩
    refine List.mem_map.mpr ⟨((lon, lat), i), List.mem_filter.mpr ⟨?_, hp⟩, rfl⟩
    exact List.mem_zipIdx_iff_getElem?.mpr hz

theorem whereIdx_map_left (c : ℚ → ℚ) (dl dla : Vec) (p : ℚ → ℚ → Bool) :
    whereIdx (dl.map c) dla p = whereIdx dl dla (fun lon lat => p (c lon) lat) := by
  unfold whereIdx
  rw [List.zip_map_left, List.zipIdx_map, List.filter_map, List.map_map]
  rfl

theorem mod360_le_self {y : ℚ} (h : 0 ≤ y) : mod360 y ≤ y := by
  rw [mod360_def]
  have : (0 : ℤ) ≤ (y / 360).floor := by
    rw [Rat.le_floor_iff]
    have : 0 ≤ y / 360 := div_nonneg h (by norm_num)
    simpa using this
  have h2 : (0 : ℚ) ≤ ((y / 360).floor : ℚ) := by exact_mod_cast this
  nlinarith

/-- membership in the repaired box test ⇔ some representative of the longitude lies in `[lo, hi]` -/
theorem mod360_sub_le_iff (x lo hi : ℚ) :
    mod360 (x - lo) ≤ hi - lo ↔ ∃ k : ℤ, lo ≤ x + 360 * k ∧ x + 360 * k ≤ hi := by
  constructor
  · intro h
    obtain ⟨k, hk⟩ := mod360_eq_add_int (x - lo)
    have h0 := mod360_nonneg (x - lo)
    exact ⟨k, by linarith, by linarith⟩
  · rintro ⟨k, h1, h2⟩
    have e : mod360 (x - lo) = mod360 (x + 360 * k - lo) := by
      rw [← mod360_add_int (x - lo) k]; congr 1; ring
    rw [e]
    have := mod360_le_self (y := x + 360 * k - lo) (by linarith)
    linarith

/-! ### `nearer`, `collect` -/

theorem pyTake_eq_take {α} (xs : List α) (ms : Option Int) : ∃ n, pyTake xs ms = xs.take n := by
  cases ms with
  | none => exact ⟨xs.length, by simp [pyTake]⟩
  | some m =>
    by_cases hm : m ≥ 0
    · exact ⟨m.toNat, by simp [pyTake, hm]⟩
    · exact ⟨xs.length - (-m).toNat, by simp only [pyTake, hm, if_false]⟩

/-- the sorted in-range list from which `nearer` takes its first `max_sites` entries -/
def inRangeSorted (d : Vec) (tol : ℚ) : List (ℚ × Nat) :=
  (d.zipIdx.mergeSort fun a b => decide (a.1 ≤ b.1)).filter fun p => decide (p.1 ≤ tol)

theorem nearer_eq (d : Vec) (tol : ℚ) (ms : Option Int) : nearer d tol ms = pyTake (inRangeSorted d tol) ms := rfl

theorem inRangeSorted_mem {d : Vec} {tol : ℚ} {p : ℚ × Nat} :
    p ∈ inRangeSorted d tol ↔ d[p.2]? = some p.1 ∧ p.1 ≤ tol := by
  unfold inRangeSorted
  rw [List.mem_filter, List.mem_mergeSort, List.mem_zipIdx_iff_getElem?]
  simp

theorem inRangeSorted_sorted (d : Vec) (tol : ℚ) : (inRangeSorted d tol).Pairwise (fun a b => a.1 ≤ b.1) := by
  unfold inRangeSorted
  apply List.Pairwise.filter
  have := List.pairwise_mergeSort (le := fun (a b : ℚ × Nat) => decide (a.1 ≤ b.1))
    (fun a b c h1 h2 => by simp only [decide_eq_true_eq] at *; exact le_trans h1 h2)
    (fun a b => by
      simp only [Bool.or_eq_true, decide_eq_true_eq]
      exact le_total a.1 b.1) d.zipIdx
  exact this.imp (fun h => by simpa using h)

theorem inRangeSorted_length (d : Vec) (tol : ℚ) :
    (inRangeSorted d tol).length = (d.filter fun x => decide (x ≤ tol)).length := by
  unfold inRangeSorted
  rw [((List.mergeSort_perm d.zipIdx _).filter _).length_eq]
  conv_rhs => rw [← List.zipIdx_map_fst 0 d, List.filter_map, List.length_map]
  rfl

theorem nearer_mem {d : Vec} {tol : ℚ} {ms : Option Int} {p : ℚ × Nat} (h : p ∈ nearer d tol ms) :
    d[p.2]? = some p.1 ∧ p.1 ≤ tol := by
  obtain ⟨n, hn⟩ := pyTake_eq_take (inRangeSorted d tol) ms
  rw [nearer_eq, hn] at h
  exact inRangeSorted_mem.mp (List.mem_of_mem_take h)

theorem nearer_sorted (d : Vec) (tol : ℚ) (ms : Option Int) : (nearer d tol ms).Pairwise (fun a b => a.1 ≤ b.1) := by
  obtain ⟨n, hn⟩ := pyTake_eq_take (inRangeSorted d tol) ms
  rw [nearer_eq, hn]
  exact (inRangeSorted_sorted d tol).sublist (List.take_sublist _ _)

theorem nearer_length_le (d : Vec) (tol : ℚ) (m : Nat) : (nearer d tol (some (m : Int))).length ≤ m := by
  rw [nearer_eq]
  unfold pyTake
  simp only [Int.natCast_nonneg, ge_iff_le, if_true, Int.toNat_natCast]
  exact List.length_take_le _ _

theorem nearer_length_le_inrange (d : Vec) (tol : ℚ) (ms : Option Int) :
    (nearer d tol ms).length ≤ (d.filter fun x => decide (x ≤ tol)).length := by
  obtain ⟨n, hn⟩ := pyTake_eq_take (inRangeSorted d tol) ms
  rw [nearer_eq, hn, ← inRangeSorted_length]
  exact List.length_take_le' _ _

theorem getD_of_getElem? {d : Vec} {i : Nat} {x : ℚ} (h : d[i]? = some x) : i < d.length ∧ d.getD i 0 = x := by
  have hi : i < d.length := by
    by_contra hc
    have := List.getElem?_eq_none (Nat.le_of_not_lt hc)
    rw [this] at h; cases h
  exact ⟨hi, by simp [List.getD_eq_getElem?_getD, h]⟩

theorem collect_pos : ∀ (l : List (ℚ × Nat)), (∀ p ∈ l, p.1 ≠ 0) →
    collect l = l.map fun p => (p.2, 1 / p.1, p.1)
  | [], _ => rfl
  | (d, i) :: rest, h => by
    have hd : d ≠ 0 := h (d, i) List.mem_cons_self
    simp only [collect, hd, if_false, List.map_cons]
    rw [collect_pos rest fun p hp => h p (List.mem_cons_of_mem _ hp)]

/-- a sorted list of non-negative distances either starts with 0 or is positive throughout -/
theorem sorted_nonneg_cases (l : List (ℚ × Nat)) (hs : l.Pairwise (fun a b => a.1 ≤ b.1)) (h0 : ∀ p ∈ l, 0 ≤ p.1) :
    (∃ i rest, l = (0, i) :: rest) ∨ (∀ p ∈ l, 0 < p.1) := by
  cases l with
  | nil => right; simp
  | cons p rest =>
    by_cases hp : p.1 = 0
    · left; exact ⟨p.2, rest, by rw [← hp]⟩
    · right
      have hpos : 0 < p.1 := lt_of_le_of_ne (h0 p List.mem_cons_self) (Ne.symm hp)
      intro q hq
      rcases List.mem_cons.mp hq with rfl | hq'
      · exact hpos
      · exact lt_of_lt_of_le hpos ((List.pairwise_cons.mp hs).1 q hq')

end WS.Select

import WsVerif.Model.Basic
import WsVerif.Model.Stats
import Mathlib.Algebra.Order.Ring.Abs
import Mathlib.Tactic.NormNum
import WsVerif.Lemmas.Sums
import Mathlib.Tactic.Ring
import Mathlib.Tactic.Linarith
import Mathlib.Tactic.Positivity
import Mathlib.Tactic.FieldSimp
import Mathlib.Algebra.Order.Field.Rat
import Mathlib.Algebra.BigOperators.Group.List.Basic
import Mathlib.Algebra.Order.BigOperators.Group.List
/-!
Helper lemmas for C10: homogeneity of list sums under `scaleV`, positive-scaling invariance of
`argmaxFirst`/`maxD`, weighted moments with Cauchy–Schwarz, and the "disk" (norm) inequality used for the
directional-spread bound.
-/
namespace WS

/-! ### `scaleV` basics -/

theorem scaleV_length (k : ℚ) (a : Vec) : (scaleV k a).length = a.length := by simp [scaleV]

theorem scaleV_nil (k : ℚ) : scaleV k [] = [] := rfl

theorem scaleV_cons (k x : ℚ) (a : Vec) : scaleV k (x :: a) = (k * x) :: scaleV k a := rfl

theorem getR_scaleV (k : ℚ) (a : Vec) (i : Nat) : getR (scaleV k a) i = k * getR a i := by
  unfold getR scaleV
  simp only [List.getD_eq_getElem?_getD, List.getElem?_map]
  cases a[i]? <;> simp

theorem lastD_scaleV (k : ℚ) (a : Vec) : lastD (scaleV k a) = k * lastD a := by
  unfold lastD scaleV
  simp only [List.getLastD_eq_getLast?, List.getLast?_map]
  cases a.getLast? <;> simp

theorem sum_scaleV (k : ℚ) (a : Vec) : (scaleV k a).sum = k * a.sum := sum_map_const_mul a k

/-- homogeneity of a `zipWith` sum in its right argument -/
theorem sum_zipWith_map_right {α β : Type} (F : α → β → ℚ) (h : β → β) (k : ℚ)
    (hF : ∀ a b, F a (h b) = k * F a b) (as : List α) (bs : List β) :
    (List.zipWith F as (bs.map h)).sum = k * (List.zipWith F as bs).sum := by
  induction as generalizing bs with
  | nil => simp
  | cons a as ih =>
    cases bs with
    | nil => simp
    | cons b bs => simp only [List.map_cons, List.zipWith_cons_cons, List.sum_cons, ih, hF]; ring

/-- homogeneity of a `zipWith` sum in its left argument -/
theorem sum_zipWith_map_left {α β : Type} (F : α → β → ℚ) (h : α → α) (k : ℚ)
    (hF : ∀ a b, F (h a) b = k * F a b) (as : List α) (bs : List β) :
    (List.zipWith F (as.map h) bs).sum = k * (List.zipWith F as bs).sum := by
  induction as generalizing bs with
  | nil => simp
  | cons a as ih =>
    cases bs with
    | nil => simp
    | cons b bs => simp only [List.map_cons, List.zipWith_cons_cons, List.sum_cons, ih, hF]; ring

/-- `zipWith` of a function homogeneous in the right argument commutes with `scaleV` -/
theorem zipWith_scaleV_right (g : ℚ → ℚ → ℚ) (k : ℚ) (hg : ∀ x y, g x (k * y) = k * g x y)
    (a b : Vec) : List.zipWith g a (scaleV k b) = scaleV k (List.zipWith g a b) := by
  induction a generalizing b with
  | nil => simp [scaleV]
  | cons x a ih =>
    cases b with
    | nil => simp [scaleV]
    | cons y b =>
      have := ih b
      simp only [scaleV, List.map_cons, List.zipWith_cons_cons, hg] at this ⊢
      rw [this]

theorem zipWith_scaleV_left (g : ℚ → ℚ → ℚ) (k : ℚ) (hg : ∀ x y, g (k * x) y = k * g x y)
    (a b : Vec) : List.zipWith g (scaleV k a) b = scaleV k (List.zipWith g a b) := by
  induction a generalizing b with
  | nil => simp [scaleV]
  | cons x a ih =>
    cases b with
    | nil => simp [scaleV]
    | cons y b =>
      have := ih b
      simp only [scaleV, List.map_cons, List.zipWith_cons_cons, hg] at this ⊢
      rw [this]

theorem dot_scaleV_left (k : ℚ) (a b : Vec) : dot (scaleV k a) b = k * dot a b := by
  unfold dot mulV scaleV
  exact sum_zipWith_map_left (· * ·) (k * ·) k (fun a b => by ring) a b

theorem dot_scaleV_right (k : ℚ) (a b : Vec) : dot a (scaleV k b) = k * dot a b := by
  unfold dot mulV scaleV
  exact sum_zipWith_map_right (· * ·) (k * ·) k (fun a b => by ring) a b

/-! ### division guards -/

theorem divOpt_mul_left (k a b : ℚ) (hk : k ≠ 0) : divOpt (k * a) (k * b) = divOpt a b := by
  unfold divOpt
  by_cases hb : b = 0
  · simp [hb]
  · simp [hb, hk, mul_div_mul_left]

/-! ### positive scaling: `argmaxFirst`, `maxD` -/

theorem argmaxFirst_go_scaleV (k : ℚ) (hk : 0 < k) (best : ℚ) (bi i : Nat) (ys : Vec) :
    argmaxFirst.go (k * best) bi i (scaleV k ys) = argmaxFirst.go best bi i ys := by
  induction ys generalizing best bi i with
  | nil => rfl
  | cons y ys ih =>
    simp only [scaleV_cons, argmaxFirst.go]
    have : (k * best < k * y) ↔ (best < y) := mul_lt_mul_iff_right₀ hk
    by_cases h : best < y
    · simp only [h, this.mpr h, if_true]; exact ih y i (i + 1)
    · have h' : ¬ (k * best < k * y) := fun hh => h (this.mp hh)
      simp only [h, h', if_false]; exact ih best bi (i + 1)

/-- numpy `argmax` is invariant under multiplication by a positive constant -/
theorem argmaxFirst_scaleV (k : ℚ) (hk : 0 < k) (l : Vec) :
    argmaxFirst (scaleV k l) = argmaxFirst l := by
  cases l with
  | nil => rfl
  | cons x xs => simp only [scaleV_cons, argmaxFirst]; exact argmaxFirst_go_scaleV k hk x 0 1 xs

theorem maxD_scaleV (k : ℚ) (hk : 0 ≤ k) (l : Vec) (d : ℚ) :
    maxD (scaleV k l) (k * d) = k * maxD l d := by
  unfold maxD
  induction l generalizing d with
  | nil => rfl
  | cons x xs ih =>
    simp only [scaleV_cons, List.foldl_cons]
    have : (if k * d < k * x then k * x else k * d) = k * (if d < x then x else d) := by
      rcases eq_or_lt_of_le hk with h0 | hpos
      · subst h0; simp
      · have hi : (k * d < k * x) ↔ (d < x) := mul_lt_mul_iff_right₀ hpos
        by_cases h : d < x
        · simp [h, hi.mpr h]
        · have h' : ¬ (k * d < k * x) := fun hh => h (hi.mp hh)
          simp [h, h']
    rw [this]; exact ih _

theorem maxD_scaleV_zero (k : ℚ) (hk : 0 ≤ k) (l : Vec) : maxD (scaleV k l) 0 = k * maxD l 0 := by
  have := maxD_scaleV k hk l 0
  rwa [mul_zero] at this

/-! ### weighted moments `Σ w_i x_i^m`, Cauchy–Schwarz and range bounds -/

/-- weighted moment `Σ_i w_i · x_i^m` -/
def wmom (m : Nat) (w x : Vec) : ℚ := (List.zipWith (fun wi xi => wi * xi ^ m) w x).sum

theorem wmom_nil_left (m : Nat) (x : Vec) : wmom m [] x = 0 := by simp [wmom]
theorem wmom_nil_right (m : Nat) (w : Vec) : wmom m w [] = 0 := by simp [wmom]
theorem wmom_cons (m : Nat) (a b : ℚ) (w x : Vec) :
    wmom m (a :: w) (b :: x) = a * b ^ m + wmom m w x := by simp [wmom]

/-- `Σ w (x^q − t)² = m_{2q} − 2 t m_q + t² m_0` -/
theorem wquad_expand (q : Nat) (t : ℚ) (w x : Vec) :
    (List.zipWith (fun wi xi => wi * (xi ^ q - t) ^ 2) w x).sum =
      wmom (2 * q) w x - 2 * t * wmom q w x + t ^ 2 * wmom 0 w x := by
  induction w generalizing x with
  | nil => simp [wmom]
  | cons a w ih =>
    cases x with
    | nil => simp [wmom]
    | cons b x =>
      simp only [List.zipWith_cons_cons, List.sum_cons, ih, wmom_cons]
      ring

theorem wquad_nonneg (q : Nat) (t : ℚ) (w x : Vec) (hw : ∀ v ∈ w, 0 ≤ v) :
    0 ≤ (List.zipWith (fun wi xi => wi * (xi ^ q - t) ^ 2) w x).sum := by
  induction w generalizing x with
  | nil => simp
  | cons a w ih =>
    cases x with
    | nil => simp
    | cons b x =>
      simp only [List.zipWith_cons_cons, List.sum_cons]
      have h1 : 0 ≤ a := hw a (by simp)
      have h2 := ih x (fun v hv => hw v (List.mem_cons_of_mem _ hv))
      have := mul_nonneg h1 (sq_nonneg (b ^ q - t))
      linarith

/-- Cauchy–Schwarz for weighted moments: `m_q² ≤ m_0 · m_{2q}` -/
theorem wmom_cauchy (q : Nat) (w x : Vec) (hw : ∀ v ∈ w, 0 ≤ v) (h0 : 0 < wmom 0 w x) :
    wmom q w x ^ 2 ≤ wmom 0 w x * wmom (2 * q) w x := by
  have h := wquad_nonneg q (wmom q w x / wmom 0 w x) w x hw
  rw [wquad_expand] at h
  have h0' : wmom 0 w x ≠ 0 := ne_of_gt h0
  have key : wmom 0 w x * (wmom (2 * q) w x - 2 * (wmom q w x / wmom 0 w x) * wmom q w x +
      (wmom q w x / wmom 0 w x) ^ 2 * wmom 0 w x) = wmom 0 w x * wmom (2 * q) w x - wmom q w x ^ 2 := by
    field_simp
    ring
  have := mul_nonneg (le_of_lt h0) h
  rw [key] at this
  linarith

/-- with all abscissae in `[lo, hi]`, `0 ≤ lo`: `lo · m_n ≤ m_{n+1} ≤ hi · m_n` -/
theorem wmom_succ_bounds (n : Nat) (lo hi : ℚ) (hlo : 0 ≤ lo) (w x : Vec) (hw : ∀ v ∈ w, 0 ≤ v)
    (hx : ∀ y ∈ x, lo ≤ y ∧ y ≤ hi) :
    lo * wmom n w x ≤ wmom (n + 1) w x ∧ wmom (n + 1) w x ≤ hi * wmom n w x := by
  induction w generalizing x with
  | nil => simp [wmom]
  | cons a w ih =>
    cases x with
    | nil => simp [wmom]
    | cons b x =>
      simp only [wmom_cons]
      have ha : 0 ≤ a := hw a (by simp)
      obtain ⟨hb1, hb2⟩ := hx b (by simp)
      have hb0 : 0 ≤ b := le_trans hlo hb1
      obtain ⟨i1, i2⟩ := ih x (fun v hv => hw v (List.mem_cons_of_mem _ hv))
        (fun y hy => hx y (List.mem_cons_of_mem _ hy))
      have hp : 0 ≤ a * b ^ n := mul_nonneg ha (pow_nonneg hb0 n)
      have e : a * b ^ (n + 1) = (a * b ^ n) * b := by ring
      constructor
      · have := mul_le_mul_of_nonneg_left hb1 hp
        rw [e]; linarith
      · have := mul_le_mul_of_nonneg_left hb2 hp
        rw [e]; linarith

theorem zipWith_mul_nonneg (a b : Vec) (ha : ∀ v ∈ a, 0 ≤ v) (hb : ∀ v ∈ b, 0 ≤ v) :
    ∀ v ∈ List.zipWith (· * ·) a b, 0 ≤ v := by
  induction a generalizing b with
  | nil => simp
  | cons x a ih =>
    cases b with
    | nil => simp
    | cons y b =>
      intro v hv
      simp only [List.zipWith_cons_cons, List.mem_cons] at hv
      rcases hv with rfl | hv
      · exact mul_nonneg (ha x (by simp)) (hb y (by simp))
      · exact ih b (fun v hv => ha v (List.mem_cons_of_mem _ hv))
          (fun v hv => hb v (List.mem_cons_of_mem _ hv)) v hv

/-- `momf` is the weighted moment with weights `w_i = Δf_i · S_i` -/
theorem momf_eq_wmom (n : Nat) (f S : Vec) :
    Stats.momf n f S = wmom n (List.zipWith (· * ·) (Stats.df f) S) f := by
  unfold Stats.momf wmom
  generalize Stats.df f = D
  induction D generalizing f S with
  | nil => simp
  | cons d D ih =>
    cases f with
    | nil => simp
    | cons x f =>
      cases S with
      | nil => simp
      | cons y S =>
        simp only [List.zipWith_cons_cons, List.sum_cons, ih]
        ring

/-- on a strictly increasing list every element lies between the first and the last -/
theorem pairwise_lt_le_getLastD (l : Vec) (h : l.Pairwise (· < ·)) (d : ℚ) :
    ∀ y ∈ l, y ≤ l.getLastD d := by
  induction l generalizing d with
  | nil => simp
  | cons a rest ih =>
    intro y hy
    have hp := List.pairwise_cons.mp h
    rw [List.getLastD_cons]
    rcases List.mem_cons.mp hy with rfl | hy
    · have hm : rest.getLastD y ∈ y :: rest := List.getLastD_mem_cons
      rcases List.mem_cons.mp hm with e | hm
      · rw [e]
      · exact le_of_lt (hp.1 _ hm)
    · exact ih hp.2 a y hy

theorem pairwise_lt_bounds (l : Vec) (h : l.Pairwise (· < ·)) :
    ∀ y ∈ l, l.headD 0 ≤ y ∧ y ≤ lastD l := by
  intro y hy
  refine ⟨?_, pairwise_lt_le_getLastD l h 0 y hy⟩
  cases l with
  | nil => simp at hy
  | cons a rest =>
    simp only [List.headD_cons]
    rcases List.mem_cons.mp hy with rfl | hy
    · exact le_refl _
    · exact le_of_lt ((List.pairwise_cons.mp h).1 _ hy)

/-! ### the disk inequality: `|Σ w_j (s_j, c_j)| ≤ Σ w_j` for unit vectors and `w_j ≥ 0` -/

/-- `(A, B)` lies in the disk of radius `T` -/
def InDisk (A B T : ℚ) : Prop := 0 ≤ T ∧ A ^ 2 + B ^ 2 ≤ T ^ 2

theorem InDisk.zero {T : ℚ} (hT : 0 ≤ T) : InDisk 0 0 T := ⟨hT, by nlinarith [sq_nonneg T]⟩

/-- triangle inequality in rational form -/
theorem InDisk.add {A B T A' B' T' : ℚ} (h : InDisk A B T) (h' : InDisk A' B' T') :
    InDisk (A + A') (B + B') (T + T') := by
  obtain ⟨hT, hd⟩ := h
  obtain ⟨hT', hd'⟩ := h'
  refine ⟨add_nonneg hT hT', ?_⟩
  have hcs : (A * A' + B * B') ^ 2 ≤ (T * T') ^ 2 := by
    have h1 : (A * A' + B * B') ^ 2 ≤ (A ^ 2 + B ^ 2) * (A' ^ 2 + B' ^ 2) := by
      nlinarith [sq_nonneg (A * B' - A' * B)]
    have h2 : (A ^ 2 + B ^ 2) * (A' ^ 2 + B' ^ 2) ≤ T ^ 2 * T' ^ 2 :=
      mul_le_mul hd hd' (by positivity) (by positivity)
    calc (A * A' + B * B') ^ 2 ≤ T ^ 2 * T' ^ 2 := le_trans h1 h2
      _ = (T * T') ^ 2 := by ring
  have hle : A * A' + B * B' ≤ T * T' := le_of_sq_le_sq hcs (mul_nonneg hT hT')
  nlinarith

theorem InDisk.smul {A B T : ℚ} (d : ℚ) (hd : 0 ≤ d) (h : InDisk A B T) :
    InDisk (d * A) (d * B) (d * T) := by
  obtain ⟨hT, hdk⟩ := h
  refine ⟨mul_nonneg hd hT, ?_⟩
  have : (d * A) ^ 2 + (d * B) ^ 2 = d ^ 2 * (A ^ 2 + B ^ 2) := by ring
  rw [this, mul_pow]
  exact mul_le_mul_of_nonneg_left hdk (sq_nonneg d)

theorem InDisk.unit {w s c : ℚ} (hw : 0 ≤ w) (h : c ^ 2 + s ^ 2 = 1) : InDisk (w * s) (w * c) w := by
  refine ⟨hw, ?_⟩
  have : (w * s) ^ 2 + (w * c) ^ 2 = w ^ 2 * (c ^ 2 + s ^ 2) := by ring
  rw [this, h, mul_one]

/-- one frequency row: `(Σ_j Δθ E_j s_j, Σ_j Δθ E_j c_j)` lies in the disk of radius `Δθ Σ_j E_j` -/
theorem row_inDisk (ddv : ℚ) (hdd : 0 ≤ ddv) (r c s : Vec) (hlen : c.length = s.length)
    (hunit : ∀ p ∈ c.zip s, p.1 ^ 2 + p.2 ^ 2 = 1) (hr : ∀ x ∈ r, 0 ≤ x) :
    InDisk (List.zipWith (fun x y => ddv * x * y) r s).sum (List.zipWith (fun x y => ddv * x * y) r c).sum
      (ddv * r.sum) := by
  induction r generalizing c s with
  | nil => simp [InDisk]
  | cons x r ih =>
    have hx : 0 ≤ x := hr x (by simp)
    have hr' : ∀ y ∈ r, 0 ≤ y := fun y hy => hr y (List.mem_cons_of_mem _ hy)
    cases c with
    | nil =>
      cases s with
      | nil =>
        simp only [List.zipWith_nil_right, List.sum_nil]
        exact InDisk.zero (mul_nonneg hdd (List.sum_nonneg hr))
      | cons _ _ => simp at hlen
    | cons cj c =>
      cases s with
      | nil => simp at hlen
      | cons sj s =>
        simp only [List.zipWith_cons_cons, List.sum_cons]
        have hu : cj ^ 2 + sj ^ 2 = 1 := hunit (cj, sj) (by simp)
        have h1 : InDisk (ddv * x * sj) (ddv * x * cj) (ddv * x) := InDisk.unit (mul_nonneg hdd hx) hu
        have h2 := ih c s (by simpa using hlen)
          (fun p hp => hunit p (by simp only [List.zip_cons_cons]; exact List.mem_cons_of_mem _ hp)) hr'
        have := InDisk.add h1 h2
        rwa [← mul_add] at this

/-- weighted over frequencies with non-negative weights: the `(a, b, e)` of `dspr` -/
theorem dot_inDisk (ddv : ℚ) (hdd : 0 ≤ ddv) (c s : Vec) (hlen : c.length = s.length)
    (hunit : ∀ p ∈ c.zip s, p.1 ^ 2 + p.2 ^ 2 = 1) (e : Mat) (he : ∀ r ∈ e, ∀ x ∈ r, 0 ≤ x)
    (w : Vec) (hw : ∀ d ∈ w, 0 ≤ d) :
    InDisk (dot (Stats.momdRow ddv s e) w) (dot (Stats.momdRow ddv c e) w) (dot (Stats.oned ddv e) w) := by
  unfold dot mulV Stats.momdRow Stats.oned
  induction e generalizing w with
  | nil => simp [InDisk]
  | cons r e ih =>
    cases w with
    | nil => simp [InDisk]
    | cons d w =>
      simp only [List.map_cons, List.zipWith_cons_cons, List.sum_cons]
      have h1 := row_inDisk ddv hdd r c s hlen hunit (he r (by simp))
      have h2 := ih (fun r' hr' => he r' (List.mem_cons_of_mem _ hr')) w
        (fun d' hd' => hw d' (List.mem_cons_of_mem _ hd'))
      have h3 := InDisk.smul d (hw d (by simp)) h1
      have := InDisk.add h3 h2
      simpa only [mul_comm d] using this

/-! ### linear combinations of per-row functionals (rotation of the trig tables) -/

theorem getR_map_lin (e : Mat) (g g1 g2 : Vec → ℚ) (α β : ℚ) (h : ∀ r, g r = α * g1 r + β * g2 r)
    (i : Nat) : getR (e.map g) i = α * getR (e.map g1) i + β * getR (e.map g2) i := by
  unfold getR
  simp only [List.getD_eq_getElem?_getD, List.getElem?_map]
  cases e[i]? with
  | none => simp
  | some r => simp [h]

theorem sum_map_lin (e : Mat) (g g1 g2 : Vec → ℚ) (α β : ℚ) (h : ∀ r, g r = α * g1 r + β * g2 r) :
    (e.map g).sum = α * (e.map g1).sum + β * (e.map g2).sum := by
  induction e with
  | nil => simp
  | cons r e ih => simp only [List.map_cons, List.sum_cons, ih, h]; ring

theorem dot_map_lin (e : Mat) (g g1 g2 : Vec → ℚ) (α β : ℚ) (h : ∀ r, g r = α * g1 r + β * g2 r)
    (w : Vec) : dot (e.map g) w = α * dot (e.map g1) w + β * dot (e.map g2) w := by
  unfold dot mulV
  induction e generalizing w with
  | nil => simp
  | cons r e ih =>
    cases w with
    | nil => simp
    | cons d w => simp only [List.map_cons, List.zipWith_cons_cons, List.sum_cons, ih, h]; ring

/-- one row against a table that is a pointwise linear combination of two equally long tables -/
theorem row_zipWith_lin (ddv α β : ℚ) (r c s : Vec) (hlen : c.length = s.length) :
    (List.zipWith (fun x y => ddv * x * y) r (List.zipWith (fun cj sj => α * sj + β * cj) c s)).sum =
      α * (List.zipWith (fun x y => ddv * x * y) r s).sum +
        β * (List.zipWith (fun x y => ddv * x * y) r c).sum := by
  induction r generalizing c s with
  | nil => simp
  | cons x r ih =>
    cases c with
    | nil =>
      cases s with
      | nil => simp
      | cons _ _ => simp at hlen
    | cons cj c =>
      cases s with
      | nil => simp at hlen
      | cons sj s =>
        simp only [List.zipWith_cons_cons, List.sum_cons, ih c s (by simpa using hlen)]
        ring

theorem getR_map_mem_or_zero (e : Mat) (g : Vec → ℚ) (i : Nat) :
    (∃ r ∈ e, getR (e.map g) i = g r ∧ ∀ g' : Vec → ℚ, getR (e.map g') i = g' r) ∨
      (∀ g' : Vec → ℚ, getR (e.map g') i = 0) := by
  unfold getR
  simp only [List.getD_eq_getElem?_getD, List.getElem?_map]
  cases h : e[i]? with
  | none => right; intro g'; simp
  | some r => left; exact ⟨r, List.mem_of_getElem? h, by simp, fun g' => by simp⟩

theorem getR_eq_getElem (l : Vec) (i : Nat) (h : i < l.length) : getR l i = l[i] := by
  simp [getR, List.getD_eq_getElem?_getD, h]

theorem getR_mem (l : Vec) (i : Nat) (h : i < l.length) : getR l i ∈ l := by
  rw [getR_eq_getElem l i h]; exact List.getElem_mem h

theorem getR_nonneg_of_forall (l : Vec) (h : ∀ d ∈ l, 0 ≤ d) (i : Nat) : 0 ≤ getR l i := by
  by_cases hi : i < l.length
  · exact h _ (getR_mem l i hi)
  · simp [getR, List.getD_eq_getElem?_getD, List.getElem?_eq_none (not_lt.mp hi)]

theorem pairwise_getR_lt (l : Vec) (h : l.Pairwise (· < ·)) :
    ∀ i, i + 1 < l.length → getR l i < getR l (i + 1) := by
  intro i hi
  rw [getR_eq_getElem l i (by omega), getR_eq_getElem l (i + 1) hi]
  exact List.pairwise_iff_getElem.mp h i (i + 1) (by omega) hi (by omega)

end WS

import WsVerif.Model.IO.Round
import Mathlib.Data.Rat.Floor
import Mathlib.Tactic.NormNum
import Mathlib.Tactic.Ring
import Mathlib.Tactic.Linarith
import Mathlib.Tactic.Positivity
import Mathlib.Tactic.FieldSimp
import Mathlib.Algebra.Order.Field.Rat
import Mathlib.Algebra.Order.Field.Power
/-! Helper lemmas on decimal rounding (`rhe`, `quant`, `sigAt`, `decExp`). -/
namespace WS.IO
open WS

theorem absR_eq_abs (x : ℚ) : absR x = |x| := by
  unfold absR
  split
  · rw [abs_of_neg ‹_›]
  · rw [abs_of_nonneg (not_lt.mp ‹_›)]

/-- rounding half to even moves a number by at most one half -/
theorem rhe_err (x : ℚ) : |((rhe x : ℤ) : ℚ) - x| ≤ 1 / 2 := by
  unfold rhe
  have h1 : ((x.floor : ℤ) : ℚ) ≤ x := Int.floor_le x
  have h2 : x < ((x.floor : ℤ) : ℚ) + 1 := Int.lt_floor_add_one x
  simp only
  split_ifs with a b c
  · rw [abs_le]; constructor <;> linarith
  · push_cast; rw [abs_le]; constructor <;> linarith
  · rw [abs_le]; constructor <;> linarith
  · push_cast; rw [abs_le]; constructor <;> linarith

theorem rhe_le (x : ℚ) (n : ℤ) (h : x ≤ n) : rhe x ≤ n := by
  have := rhe_err x
  rw [abs_le] at this
  have h3 : ((rhe x : ℤ) : ℚ) < (n : ℚ) + 1 := by linarith [this.2]
  have : rhe x < n + 1 := by exact_mod_cast h3
  omega

theorem le_rhe (x : ℚ) (n : ℤ) (h : (n : ℚ) ≤ x) : n ≤ rhe x := by
  have := rhe_err x
  rw [abs_le] at this
  have h3 : (n : ℚ) - 1 < ((rhe x : ℤ) : ℚ) := by linarith [this.1]
  have : n - 1 < rhe x := by exact_mod_cast h3
  omega

theorem rhe_int (n : ℤ) : rhe (n : ℚ) = n := le_antisymm (rhe_le _ n le_rfl) (le_rhe _ n le_rfl)

theorem pow10_pos (d : Nat) : 0 < pow10 d := by unfold pow10; positivity

/-- `'%.{d}f'` moves a number by at most half a unit of the last printed decimal -/
theorem quant_err (d : Nat) (x : ℚ) : |quant d x - x| ≤ 1 / (2 * pow10 d) := by
  unfold quant
  have hp := pow10_pos d
  have h := rhe_err (x * pow10 d)
  have e : ((rhe (x * pow10 d) : ℤ) : ℚ) / pow10 d - x = (((rhe (x * pow10 d) : ℤ) : ℚ) - x * pow10 d) / pow10 d := by
    field_simp
  rw [e, abs_div, abs_of_pos hp, div_le_div_iff₀ hp (by positivity)]
  calc |((rhe (x * pow10 d) : ℤ) : ℚ) - x * pow10 d| * (2 * pow10 d) ≤ 1 / 2 * (2 * pow10 d) :=
        mul_le_mul_of_nonneg_right h (by positivity)
    _ = 1 * pow10 d := by ring

theorem quant_zero (d : Nat) : quant d 0 = 0 := by
  unfold quant
  have : rhe (0 * pow10 d) = 0 := by rw [zero_mul]; exact_mod_cast rhe_int 0
  rw [this]; simp

/-! ### decimal exponent -/

theorem pow10i_eq_zpow (e : ℤ) : pow10i e = (10 : ℚ) ^ e := by
  unfold pow10i pow10
  split
  · rename_i h
    conv_rhs => rw [← Int.toNat_of_nonneg h]
    rw [zpow_natCast]
  · rename_i h
    have hn : 0 ≤ -e := by omega
    have : e = -((-e).toNat : ℤ) := by rw [Int.toNat_of_nonneg hn]; ring
    conv_rhs => rw [this, zpow_neg, zpow_natCast]
    rw [one_div]

theorem pow10i_pos (e : ℤ) : 0 < pow10i e := by rw [pow10i_eq_zpow]; positivity

theorem pow10i_succ (e : ℤ) : pow10i (e + 1) = 10 * pow10i e := by
  rw [pow10i_eq_zpow, pow10i_eq_zpow, zpow_add_one₀ (by norm_num : (10 : ℚ) ≠ 0)]; ring

/-- `e` is the decimal exponent of `x` -/
def IsExp (x : ℚ) (e : ℤ) : Prop := pow10i e ≤ x ∧ x < pow10i (e + 1)

theorem isExp_of_div (x : ℚ) (e : ℤ) (h : IsExp (x / 10) e) : IsExp x (e + 1) := by
  unfold IsExp at *
  rw [pow10i_succ (e + 1), pow10i_succ e]
  rw [pow10i_succ e] at h
  constructor <;> linarith [h.1, h.2]

theorem isExp_of_mul (x : ℚ) (e : ℤ) (h : IsExp (x * 10) e) : IsExp x (e - 1) := by
  unfold IsExp at *
  have e1 : pow10i e = 10 * pow10i (e - 1) := by rw [← pow10i_succ]; congr 1; ring
  have e3 := pow10i_succ e
  have e2 : e - 1 + 1 = e := by ring
  rw [e2]
  constructor <;> linarith [h.1, h.2]

theorem expUp_spec (fuel : Nat) : ∀ x : ℚ, 1 ≤ x → x < pow10 (fuel + 1) → IsExp x (expUp fuel x) := by
  induction fuel with
  | zero =>
    intro x h1 h2
    simp only [expUp]
    unfold IsExp
    have : pow10i (0 + 1) = 10 := by rw [pow10i_eq_zpow]; norm_num
    rw [this]
    have : pow10i 0 = 1 := by rw [pow10i_eq_zpow]; norm_num
    rw [this]
    unfold pow10 at h2; norm_num at h2
    exact ⟨h1, h2⟩
  | succ n ih =>
    intro x h1 h2
    simp only [expUp]
    split
    · rename_i h
      unfold IsExp
      have : pow10i (0 + 1) = 10 := by rw [pow10i_eq_zpow]; norm_num
      rw [this]
      have : pow10i 0 = 1 := by rw [pow10i_eq_zpow]; norm_num
      rw [this]
      exact ⟨h1, h⟩
    · rename_i h
      have h10 : (10 : ℚ) ≤ x := not_lt.mp h
      apply isExp_of_div
      apply ih
      · linarith
      · unfold pow10 at *
        rw [pow_succ] at h2
        linarith

theorem expDown_spec (fuel : Nat) : ∀ x : ℚ, 0 < x → x < 1 → 1 ≤ x * pow10 fuel → IsExp x (expDown fuel x) := by
  induction fuel with
  | zero =>
    intro x _ h1 h2
    unfold pow10 at h2; norm_num at h2
    linarith
  | succ n ih =>
    intro x h0 h1 h2
    simp only [expDown]
    rw [if_neg (not_le.mpr h1)]
    apply isExp_of_mul
    by_cases hx : x * 10 < 1
    · apply ih (x * 10) (by linarith) hx
      unfold pow10 at *
      rw [pow_succ] at h2
      linarith
    · have hge : 1 ≤ x * 10 := not_lt.mp hx
      cases n with
      | zero =>
        simp only [expDown]
        unfold IsExp
        have : pow10i (0 + 1) = 10 := by rw [pow10i_eq_zpow]; norm_num
        rw [this]
        have : pow10i 0 = 1 := by rw [pow10i_eq_zpow]; norm_num
        rw [this]
        exact ⟨hge, by linarith⟩
      | succ m =>
        simp only [expDown]
        rw [if_pos hge]
        unfold IsExp
        have : pow10i (0 + 1) = 10 := by rw [pow10i_eq_zpow]; norm_num
        rw [this]
        have : pow10i 0 = 1 := by rw [pow10i_eq_zpow]; norm_num
        rw [this]
        exact ⟨hge, by linarith⟩

theorem nat_lt_pow10 (n : Nat) : (n : ℚ) < pow10 (n + 1) := by
  unfold pow10
  have : n < 10 ^ (n + 1) := Nat.lt_of_lt_of_le (Nat.lt_pow_self (by norm_num : 1 < 10)) (Nat.pow_le_pow_right (by norm_num) (Nat.le_succ n))
  exact_mod_cast this

/-- the search `decExp` finds the decimal exponent of every positive rational -/
theorem decExp_spec (x : ℚ) (hx : 0 < x) : IsExp x (decExp x) := by
  have hmul : x * (x.den : ℚ) = (x.num : ℚ) := Rat.mul_den_eq_num x
  have hd : (1 : ℚ) ≤ x.den := by exact_mod_cast x.den_pos
  have hnum : 0 < x.num := Rat.num_pos.mpr hx
  unfold decExp
  split
  · rename_i h1
    apply expUp_spec _ x h1
    have hz : ((x.num.natAbs : ℕ) : ℤ) = x.num := Int.natAbs_of_nonneg (le_of_lt hnum)
    have hq : ((x.num.natAbs : ℕ) : ℚ) = (x.num : ℚ) := by
      have : (((x.num.natAbs : ℕ) : ℤ) : ℚ) = ((x.num : ℤ) : ℚ) := congrArg (fun z : ℤ => (z : ℚ)) hz
      rw [← this]; rfl
    have hle : x ≤ (x.num.natAbs : ℚ) := by
      rw [hq, ← hmul]
      nlinarith
    exact lt_of_le_of_lt hle (nat_lt_pow10 _)
  · rename_i h1
    apply expDown_spec _ x hx (not_le.mp h1)
    have hn1 : (1 : ℚ) ≤ x.num := by exact_mod_cast hnum
    have hp : (x.den : ℚ) ≤ pow10 x.den := by
      have : x.den < 10 ^ x.den := Nat.lt_pow_self (by norm_num)
      have : (x.den : ℚ) < 10 ^ x.den := by exact_mod_cast this
      unfold pow10
      linarith
    calc (1 : ℚ) ≤ x.num := hn1
      _ = x * x.den := hmul.symm
      _ ≤ x * pow10 x.den := mul_le_mul_of_nonneg_left hp (le_of_lt hx)

/-- rounding to `s+1` significant digits moves `x` by at most half a unit of its last kept digit,
    i.e. by at most `x · 10^(-s) / 2` -/
theorem sigAt_err (s : Nat) (e : ℤ) (x : ℚ) (he : IsExp x e) :
    |sigAt s e x - x| ≤ pow10i (e - s) / 2 ∧ pow10i (e - s) / 2 ≤ x / (2 * pow10 s) := by
  have hu := pow10i_pos (e - s)
  constructor
  · unfold sigAt
    simp only
    have h := rhe_err (x / pow10i (e - s))
    have e1 : ((rhe (x / pow10i (e - s)) : ℤ) : ℚ) * pow10i (e - s) - x =
        (((rhe (x / pow10i (e - s)) : ℤ) : ℚ) - x / pow10i (e - s)) * pow10i (e - s) := by
      field_simp
    rw [e1, abs_mul, abs_of_pos hu]
    calc _ ≤ 1 / 2 * pow10i (e - s) := mul_le_mul_of_nonneg_right h (le_of_lt hu)
      _ = pow10i (e - s) / 2 := by ring
  · have hs : pow10i (e - s) * pow10 s = pow10i e := by
      rw [pow10i_eq_zpow, pow10i_eq_zpow]
      unfold pow10
      rw [← zpow_natCast, ← zpow_add₀ (by norm_num : (10 : ℚ) ≠ 0)]
      congr 1; ring
    have hps := pow10_pos s
    rw [div_le_div_iff₀ (by norm_num) (by positivity)]
    have := he.1
    nlinarith

/-- `'%0.8E'`: nine significant digits, relative error at most `5·10⁻⁹` -/
theorem sig9_err (x : ℚ) (hx : 0 < x) : |sig9 x - x| ≤ x * (5 / 1000000000) := by
  have h := sigAt_err 8 (decExp x) x (decExp_spec x hx)
  unfold sig9
  have : x / (2 * pow10 8) = x * (5 / 1000000000) := by unfold pow10; norm_num; ring
  linarith [h.1, h.2]

end WS.IO

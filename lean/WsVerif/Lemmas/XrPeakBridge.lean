import WsVerif.Model.PeakXr
import WsVerif.Lemmas.Argmax
import Mathlib.Tactic.Linarith
import Mathlib.Tactic.Ring
import Mathlib.Tactic.FieldSimp
/-!
Helper lemmas for the T-tier bridges of `Props/C02xr.lean`: the list forms emitted by `harness/translate_xr2.py` for the
`concat / diff / where / argmax` pipeline of `SpecArray._peak` are the index forms of `Model/Peak.lean`.  No generated definition is
mentioned here.
-/
namespace WS
open WS.Stats WS.Peak

theorem getR_of_lt (a : Vec) (i : Nat) (h : i < a.length) : getR a i = a[i] := by
  unfold getR; simp [List.getD_eq_getElem?_getD, h]

theorem lastD_eq_getR (a : Vec) : lastD a = getR a (a.length - 1) := by
  unfold lastD getR
  rcases List.eq_nil_or_concat a with h | ⟨l, x, h⟩
  · subst h; rfl
  · subst h; simp [List.getD_eq_getElem?_getD]

theorem diff1_length (l : Vec) : (XrP.diff1 l).length = l.length - 1 := by
  unfold XrP.diff1; simp

theorem diff1_getElem (l : Vec) (i : Nat) (h : i < (XrP.diff1 l).length) :
    (XrP.diff1 l)[i] = getR l (i + 1) - getR l i := by
  have hl := diff1_length l
  have h1 : i + 1 < l.length := by omega
  rw [getR_of_lt l (i + 1) h1, getR_of_lt l i (by omega)]
  simp [XrP.diff1]

/-- **the mask of `_peak`**: prepend the first bin / append the last one, difference, `> 0` / `< 0`, `logical_and`, `where(·, 0)`
    is `Peak.masked` (interior strict local maxima keep their value, everything else is 0) -/
theorem peak_mask_eq (a : Vec) :
    List.zipWith (fun x c => if c then x else (0 : Rat)) a
      (List.zipWith (fun p q => p && q)
        (List.map (fun t => decide (t > (0 : Rat))) (XrP.diff1 (getR a 0 :: a)))
        (List.map (fun t => decide (t < (0 : Rat))) (XrP.diff1 (a ++ [lastD a])))) = masked a := by
  have l1 : (XrP.diff1 (getR a 0 :: a)).length = a.length := by rw [diff1_length]; simp
  have l2 : (XrP.diff1 (a ++ [lastD a])).length = a.length := by rw [diff1_length]; simp
  apply List.ext_getElem
  · simp [masked, l1, l2]
  intro i h1 h2
  have hi : i < a.length := by simpa [masked] using h2
  simp only [List.getElem_zipWith, List.getElem_map, masked, List.getElem_range]
  rw [diff1_getElem, diff1_getElem]
  have e1 : getR (getR a 0 :: a) (i + 1) = getR a i := by simp [getR]
  have e2 : getR (getR a 0 :: a) i = getR a (i - 1) := by
    cases i with
    | zero => simp [getR]
    | succ j => simp [getR]
  have e3 : getR (a ++ [lastD a]) i = getR a i := getR_append_left _ _ _ hi
  have e4 : getR (a ++ [lastD a]) (i + 1) = if i + 1 < a.length then getR a (i + 1) else getR a i := by
    split
    · rename_i h; exact getR_append_left _ _ _ h
    · rename_i h
      have : i + 1 = a.length := by omega
      rw [getR_append_right _ _ _ (by omega), this, lastD_eq_getR]
      have e : a.length - 1 = i := by omega
      simp [getR, e]
  rw [e1, e2, e3, e4, ← getR_of_lt a i hi]
  unfold isPeak
  by_cases h0 : i = 0
  · subst h0; simp
  · by_cases hn : i + 1 < a.length
    · have : 0 < i := Nat.pos_of_ne_zero h0
      simp [hn, this]
    · simp [hn]

/-- entry of an element-wise product (out of range on either side: `0`) -/
theorem getR_zipWith_mul (u v : Vec) (p : Nat) :
    getR (List.zipWith (fun a b => a * b) u v) p = getR u p * getR v p := by
  induction u generalizing v p with
  | nil => simp [getR]
  | cons x u ih =>
    cases v with
    | nil => simp [getR]
    | cons y v =>
      cases p with
      | zero => simp [getR]
      | succ q => simpa [getR] using ih v q

/-! ### `scale_by_hs`: one guarded range test -/

/-- `if lo != -inf or hi != inf: condition = condition * ((x >= lo) & (x <= hi))` on a possibly-NaN statistic -/
theorem range_step (c : Bool) (lo hi : XrP.Bound) (x : Option ℚ) :
    (if (decide (lo ≠ XrP.Bound.ninf) || decide (hi ≠ XrP.Bound.pinf)) = true then
        (c && (Option.any (fun t => XrP.geB t lo) x && Option.any (fun t => XrP.leB t hi) x)) else c) =
      (c && XrP.rangeTest lo hi x) := by
  unfold XrP.rangeTest
  by_cases h1 : lo = XrP.Bound.ninf <;> by_cases h2 : hi = XrP.Bound.pinf <;> cases x <;> simp [h1, h2]

/-- … and on `hs` (never NaN) -/
theorem range_step_some (c : Bool) (lo hi : XrP.Bound) (x : ℚ) :
    (if (decide (lo ≠ XrP.Bound.ninf) || decide (hi ≠ XrP.Bound.pinf)) = true then
        (c && (XrP.geB x lo && XrP.leB x hi)) else c) =
      (c && XrP.rangeTest lo hi (some x)) := by
  unfold XrP.rangeTest
  by_cases h1 : lo = XrP.Bound.ninf <;> by_cases h2 : hi = XrP.Bound.pinf <;> simp [h1, h2]

theorem range_step_some_true (lo hi : XrP.Bound) (x : ℚ) :
    (if (decide (lo ≠ XrP.Bound.ninf) || decide (hi ≠ XrP.Bound.pinf)) = true then
        (XrP.geB x lo && XrP.leB x hi) else true) = XrP.rangeTest lo hi (some x) := by
  have := range_step_some true lo hi x
  simpa using this

/-- `maxV` of a non-empty non-negative array is the model's `maxD · 0` -/
theorem maxD_mono_init (l : Vec) (a b : ℚ) (h : a ≤ b) : maxD l a ≤ maxD l b := by
  induction l generalizing a b with
  | nil => simpa [maxD]
  | cons x xs ih =>
    simp only [maxD, List.foldl_cons]
    apply ih
    split <;> split <;> linarith

theorem maxV_eq_maxD (S : Vec) (h0 : ∀ x ∈ S, 0 ≤ x) : XrP.maxV S = maxD S 0 := by
  cases S with
  | nil => rfl
  | cons x xs =>
    have hx : 0 ≤ x := h0 x (by simp)
    simp only [XrP.maxV, maxD, List.foldl_cons]
    rcases lt_or_eq_of_le hx with h | h
    · simp [h]
    · subst h; simp

end WS

import WsVerif.Lemmas.Fld.Base
/-! The executable counting sort `ptsort` makes no out-of-range access and returns a listing of the pixels
(`IndOK`): `ind[slot i] = i` with `slot` a bijection of `[0, n)`. -/
namespace WS.Fld
open Std.Do WS.SP
set_option mvcgen.warning false

/-! ### counting sort (`ptsort`): counts -/

/-- number of pixels `< n` whose level is below `v` -/
def below (n : Nat) (lev : Nat → Nat) (v : Nat) : Nat := ((List.range n).filter fun x => lev x < v).length
/-- number of pixels `< k` at level `v` -/
def eqUpTo (k : Nat) (lev : Nat → Nat) (v : Nat) : Nat := ((List.range k).filter fun x => lev x == v).length

theorem slot_eq (n : Nat) (lev : Nat → Nat) (i : Nat) : slot n lev i = below n lev (lev i) + eqUpTo i lev (lev i) := rfl

theorem eqUpTo_succ (k : Nat) (lev : Nat → Nat) (v : Nat) :
    eqUpTo (k + 1) lev v = eqUpTo k lev v + if lev k = v then 1 else 0 := by
  unfold eqUpTo
  rw [List.range_succ, List.filter_append, List.length_append]
  by_cases h : lev k = v <;> simp [h]

theorem eqUpTo_mono (lev : Nat → Nat) (v : Nat) {k k' : Nat} (h : k ≤ k') : eqUpTo k lev v ≤ eqUpTo k' lev v := by
  induction h with
  | refl => exact Nat.le_refl _
  | step _ ih => rw [eqUpTo_succ]; omega

theorem below_succ (n : Nat) (lev : Nat → Nat) (v : Nat) :
    below n lev (v + 1) = below n lev v + eqUpTo n lev v := by
  unfold below eqUpTo
  induction n with
  | zero => simp
  | succ n ih =>
    rw [List.range_succ, List.filter_append, List.filter_append, List.filter_append, List.length_append,
      List.length_append, List.length_append, ih]
    by_cases h1 : lev n < v
    · have h3 : ¬ lev n = v := by omega
      have h4 : lev n < v + 1 := by omega
      simp [h1, h3, h4]; omega
    · by_cases h2 : lev n = v
      · simp [h2]; omega
      · have : ¬ lev n < v + 1 := by omega
        simp [h1, h2, this]

theorem below_zero (n : Nat) (lev : Nat → Nat) : below n lev 0 = 0 := by simp [below]

theorem below_mono (n : Nat) (lev : Nat → Nat) {v v' : Nat} (h : v ≤ v') : below n lev v ≤ below n lev v' := by
  induction h with
  | refl => exact Nat.le_refl _
  | step _ ih => rw [below_succ]; omega

theorem below_le (n : Nat) (lev : Nat → Nat) (v : Nat) : below n lev v ≤ n := by
  unfold below
  have := List.length_filter_le (fun x => decide (lev x < v)) (List.range n)
  simpa using this

theorem slot_lt_next {n : Nat} {lev : Nat → Nat} {i : Nat} (hi : i < n) :
    slot n lev i < below n lev (lev i + 1) := by
  rw [slot_eq, below_succ]
  have h1 := eqUpTo_succ i lev (lev i)
  have h2 := eqUpTo_mono lev (lev i) (show i + 1 ≤ n by omega)
  simp at h1; omega

theorem slot_lt' {n : Nat} {lev : Nat → Nat} {i : Nat} (hi : i < n) : slot n lev i < n := by
  have := slot_lt_next (lev := lev) hi
  have := below_le n lev (lev i + 1)
  omega

theorem slot_lt_of_lt {n : Nat} {lev : Nat → Nat} {i j : Nat} (hi : i < n) (hj : j < n) (hij : i < j) :
    slot n lev i ≠ slot n lev j := by
  rcases Nat.lt_trichotomy (lev i) (lev j) with h | h | h
  · have h1 := slot_lt_next (lev := lev) hi
    have h2 := below_mono n lev (show lev i + 1 ≤ lev j by omega)
    rw [slot_eq n lev j]; omega
  · rw [slot_eq, slot_eq, h]
    have h1 := eqUpTo_succ i lev (lev j)
    have h2 := eqUpTo_mono lev (lev j) (show i + 1 ≤ j by omega)
    simp [h] at h1; omega
  · have h1 := slot_lt_next (lev := lev) hj
    have h2 := below_mono n lev (show lev j + 1 ≤ lev i by omega)
    rw [slot_eq n lev i]; omega

theorem slot_inj {n : Nat} {lev : Nat → Nat} {i j : Nat} (hi : i < n) (hj : j < n)
    (h : slot n lev i = slot n lev j) : i = j := by
  rcases Nat.lt_trichotomy i j with hlt | heq | hgt
  · exact absurd h (slot_lt_of_lt hi hj hlt)
  · exact heq
  · exact absurd h.symm (slot_lt_of_lt hj hi hgt)

/-- an injective map of `[0,n)` into itself hits every value -/
theorem inj_surj {n : Nat} (f : Nat → Nat) (hr : ∀ i, i < n → f i < n)
    (hinj : ∀ i j, i < n → j < n → f i = f j → i = j) (k : Nat) (hk : k < n) : ∃ i, i < n ∧ f i = k := by
  apply Classical.byContradiction
  intro hne
  have hnot : ∀ i, i < n → f i ≠ k := fun i hi he => hne ⟨i, hi, he⟩
  let l : List Int := ((k :: (List.range n).map f)).map (fun (x : Nat) => (x : Int))
  have hnd : l.Nodup := by
    have h1 : ((List.range n).map f).Nodup := by
      rw [List.Nodup, List.pairwise_map]
      exact List.Pairwise.imp_of_mem (fun {a b} ha hb hne heq => hne
        (hinj a b (List.mem_range.mp ha) (List.mem_range.mp hb) heq)) List.nodup_range
    have h2 : (k :: (List.range n).map f).Nodup := by
      rw [List.nodup_cons]
      refine ⟨?_, h1⟩
      intro hm
      obtain ⟨i, hi, he⟩ := List.mem_map.mp hm
      exact hnot i (List.mem_range.mp hi) he
    show (List.map _ _).Nodup
    rw [List.Nodup, List.pairwise_map]
    exact List.Pairwise.imp (fun hne heq => hne (by omega)) h2
  have hlen := pigeon n l hnd (by
    intro x hx
    obtain ⟨y, hy, rfl⟩ := List.mem_map.mp hx
    simp at hy
    rcases hy with rfl | ⟨i, hi, rfl⟩
    · omega
    · have := hr i hi; omega)
  simp [l] at hlen
  omega

/-! ### counting sort: loop invariants -/

section
variable {ihmax n : Nat} {imi : Array Int}

/-- level of pixel `x` as a natural number -/
def levOf (imi : Array Int) (x : Nat) : Nat := (imi[x]!).toNat

/-- after `k` pixels, `numv` holds the histogram of the levels of the first `k` pixels -/
def C1 (ihmax : Nat) (imi : Array Int) (k : Nat) (numv : Array Int) : Prop :=
  numv.size = ihmax ∧ ∀ v, v < ihmax → numv[v]! = (eqUpTo k (levOf imi) v : Int)

/-- `iaddr[v]` = number of pixels below level `v`, for `v ≤ k` -/
def C2 (ihmax n : Nat) (imi : Array Int) (k : Nat) (iaddr : Array Int) : Prop :=
  iaddr.size = ihmax ∧ ∀ v, v ≤ k → v < ihmax → iaddr[v]! = (below n (levOf imi) v : Int)

/-- third loop: `iaddr[v]` = next free position of level `v`; `iorder[i]` = final position of pixel `i < k` -/
def C3 (ihmax n : Nat) (imi : Array Int) (k : Nat) (iaddr iorder : Array Int) : Prop :=
  iaddr.size = ihmax ∧ iorder.size = n ∧
  (∀ v, v < ihmax → iaddr[v]! = ((below n (levOf imi) v + eqUpTo k (levOf imi) v : Nat) : Int)) ∧
  ∀ i, i < k → iorder[i]! = (slot n (levOf imi) i : Int)

/-- fourth loop: pixels `i < k` have been stored at their positions -/
def C4 (n : Nat) (imi : Array Int) (k : Nat) (ind : Array Int) : Prop :=
  ind.size = n ∧ ∀ i, i < k → ind[slot n (levOf imi) i]! = (i : Int)

theorem C1.init : C1 ihmax imi 0 (Array.replicate ihmax 0) := by
  refine ⟨by simp, fun v hv => ?_⟩
  simp [eqUpTo, hv]

theorem C1.step {k : Nat} {numv : Array Int} (h : C1 ihmax imi k numv)
    (h0 : 0 ≤ imi[k]!) (h1 : imi[k]! < ihmax) :
    C1 ihmax imi (k + 1) (numv.set! (imi[k]!).toNat (numv[(imi[k]!).toNat]! + 1)) := by
  obtain ⟨hs, hv⟩ := h
  refine ⟨by simp [hs], fun v hvlt => ?_⟩
  rw [get_set, eqUpTo_succ]
  have hl : levOf imi k = (imi[k]!).toNat := rfl
  by_cases hc : v = (imi[k]!).toNat
  · subst hc
    rw [if_pos ⟨rfl, by omega⟩, hv _ hvlt, if_pos hl]; omega
  · rw [if_neg (fun hh => hc hh.1), hv _ hvlt, if_neg (by rw [hl]; exact fun e => hc e.symm)]; omega

theorem C2.init (hi : 1 ≤ ihmax) : C2 ihmax n imi 0 ((Array.replicate ihmax (0 : Int)).set! 0 0) := by
  refine ⟨by simp, fun v hv hvlt => ?_⟩
  have : v = 0 := by omega
  subst this
  rw [get_set, if_pos ⟨rfl, by simp; omega⟩, below_zero]; rfl

theorem C2.step {k : Nat} {iaddr numv : Array Int} (h : C2 ihmax n imi k iaddr) (hn : C1 ihmax imi n numv)
    (hk : k + 1 < ihmax) : C2 ihmax n imi (k + 1) (iaddr.set! (k + 1) (iaddr[k]! + numv[k]!)) := by
  obtain ⟨hs, hv⟩ := h
  refine ⟨by simp [hs], fun v hvk hvlt => ?_⟩
  rw [get_set]
  by_cases hc : v = k + 1
  · subst hc
    rw [if_pos ⟨rfl, by omega⟩, hv k (by omega) (by omega), hn.2 k (by omega), below_succ]; omega
  · rw [if_neg (fun hh => hc hh.1)]; exact hv v (by omega) hvlt

theorem C3.init {iaddr : Array Int} (h : C2 ihmax n imi (ihmax - 1) iaddr) :
    C3 ihmax n imi 0 iaddr (Array.replicate n 0) := by
  refine ⟨h.1, by simp, fun v hv => ?_, fun i hi => by omega⟩
  rw [h.2 v (by omega) hv]; simp [eqUpTo]

theorem C3.step {k : Nat} {iaddr iorder : Array Int} (h : C3 ihmax n imi k iaddr iorder) (hk : k < n)
    (h0 : 0 ≤ imi[k]!) (h1 : imi[k]! < ihmax) :
    C3 ihmax n imi (k + 1) (iaddr.set! (imi[k]!).toNat (iaddr[(imi[k]!).toNat]! + 1))
      (iorder.set! k iaddr[(imi[k]!).toNat]!) := by
  obtain ⟨hs, ho, hv, hi⟩ := h
  have hl : levOf imi k = (imi[k]!).toNat := rfl
  refine ⟨by simp [hs], by simp [ho], fun v hvlt => ?_, fun i hik => ?_⟩
  · rw [get_set, eqUpTo_succ]
    by_cases hc : v = (imi[k]!).toNat
    · subst hc
      rw [if_pos ⟨rfl, by omega⟩, hv _ hvlt, if_pos hl]; omega
    · rw [if_neg (fun hh => hc hh.1), hv _ hvlt, if_neg (by rw [hl]; exact fun e => hc e.symm)]; omega
  · rw [get_set]
    by_cases hc : i = k
    · subst hc
      rw [if_pos ⟨rfl, by omega⟩, hv _ (by omega), slot_eq, hl]
    · rw [if_neg (fun hh => hc hh.1)]; exact hi i (by omega)

theorem C4.init : C4 n imi 0 (Array.replicate n 0) := ⟨by simp, fun i hi => by omega⟩

theorem C4.step {k : Nat} {iaddr iorder ind : Array Int} (h3 : C3 ihmax n imi n iaddr iorder) (h : C4 n imi k ind)
    (hk : k < n) :
    (0 ≤ iorder[k]! ∧ (iorder[k]!).toNat < ind.size) ∧ C4 n imi (k + 1) (ind.set! (iorder[k]!).toNat k) := by
  obtain ⟨hs, hv⟩ := h
  have hio := h3.2.2.2 k hk
  have hlt := slot_lt' (lev := levOf imi) hk
  refine ⟨by omega, by simp [hs], fun i hik => ?_⟩
  rw [get_set, hio, Int.toNat_natCast]
  by_cases hc : i = k
  · subst hc; rw [if_pos ⟨rfl, by omega⟩]
  · rw [if_neg (fun hh => hc (slot_inj (by omega) hk hh.1))]
    exact hv i (by omega)

theorem C4.final {ind : Array Int} (h : C4 n imi n ind) : IndOK n ind := by
  obtain ⟨hs, hv⟩ := h
  have hsur := inj_surj (n := n) (slot n (levOf imi)) (fun i hi => slot_lt' hi) (fun i j hi hj => slot_inj hi hj)
  refine ⟨hs, fun k hk => ?_, fun j k hj hk he => ?_⟩
  · obtain ⟨i, hi, rfl⟩ := hsur k hk
    rw [hv i hi]; exact ⟨by omega, by omega⟩
  · obtain ⟨a, ha, rfl⟩ := hsur j hj
    obtain ⟨b, hb, rfl⟩ := hsur k hk
    rw [hv a ha, hv b hb] at he
    have : a = b := by omega
    rw [this]
end

/-! ### the executable `ptsort` computes `ptsortSpec` -/

/-- position `i` inside the pixels of its own level -/
theorem filter_get (n : Nat) (lev : Nat → Nat) (i : Nat) (hi : i < n) :
    ((List.range n).filter fun x => lev x == lev i)[eqUpTo i lev (lev i)]? = some i := by
  obtain ⟨m, rfl⟩ : ∃ m, n = i + (m + 1) := ⟨n - i - 1, by omega⟩
  rw [List.range_add, List.filter_append, List.range_succ_eq_map, List.map_cons, List.filter_cons]
  have : (lev (i + 0) == lev i) = true := by simp
  rw [this]
  simp only [if_true]
  rw [List.getElem?_append_right (by unfold eqUpTo; exact Nat.le_refl _)]
  unfold eqUpTo
  simp

/-- number of entries of `ptsortSpec` before level `v` -/
theorem spec_prefix_len (n : Nat) (lev : Nat → Nat) (v : Nat) :
    ((List.range v).flatMap fun u => (List.range n).filter fun p => lev p == u).length = below n lev v := by
  induction v with
  | zero => simp [below_zero]
  | succ v ih =>
    rw [List.range_succ, List.flatMap_append, List.length_append, ih, below_succ]
    simp [eqUpTo]

theorem spec_get (ihmax n : Nat) (lev : Nat → Nat) (i : Nat) (hi : i < n) (hl : lev i < ihmax) :
    (ptsortSpec ihmax n lev)[slot n lev i]? = some i := by
  unfold ptsortSpec
  obtain ⟨m, rfl⟩ : ∃ m, ihmax = lev i + (m + 1) := ⟨ihmax - lev i - 1, by omega⟩
  rw [List.range_add, List.flatMap_append, List.range_succ_eq_map, List.map_cons, List.flatMap_cons]
  have hlen := spec_prefix_len n lev (lev i)
  rw [slot_eq, List.getElem?_append_right (by rw [hlen]; omega), hlen, Nat.add_sub_cancel_left,
    Nat.add_zero, List.getElem?_append_left]
  · exact filter_get n lev i hi
  · have := filter_get n lev i hi
    exact (List.getElem?_eq_some_iff.mp this).1

theorem spec_length (ihmax n : Nat) (lev : Nat → Nat) (hl : ∀ i, i < n → lev i < ihmax) :
    (ptsortSpec ihmax n lev).length = n := by
  unfold ptsortSpec
  rw [spec_prefix_len]
  unfold below
  rw [List.filter_eq_self.mpr, List.length_range]
  intro x hx
  simpa using hl x (List.mem_range.mp hx)

/-- a complete fourth loop yields exactly the specification list -/
theorem C4.eq_spec {ihmax n : Nat} {imi ind : Array Int} (h : C4 n imi n ind)
    (hl : ∀ i, i < n → levOf imi i < ihmax) :
    ind.toList = (ptsortSpec ihmax n (levOf imi)).map (fun (x : Nat) => (x : Int)) := by
  obtain ⟨hs, hv⟩ := h
  have hsur := inj_surj (n := n) (slot n (levOf imi)) (fun i hi => slot_lt' hi) (fun i j hi hj => slot_inj hi hj)
  apply List.ext_getElem?
  intro k
  by_cases hk : k < n
  · obtain ⟨i, hi, rfl⟩ := hsur k hk
    rw [List.getElem?_map, spec_get ihmax n _ i hi (hl i hi)]
    have := hv i hi
    rw [getElem!_def] at this
    rw [Array.getElem?_toList]
    have hlt : slot n (levOf imi) i < ind.size := by rw [hs]; exact slot_lt' hi
    rw [Array.getElem?_eq_getElem hlt] at this ⊢
    simp at this ⊢
    exact this
  · rw [List.getElem?_eq_none (by simp [hs]; omega), List.getElem?_eq_none (by simp [spec_length ihmax n _ hl]; omega)]

theorem range_toList_length (a b : Nat) : [a:b].toList.length = b - a := by
  simp [Std.Legacy.Range.toList]

theorem ptsort_spec {ihmax n : Nat} {imi : Array Int} (hi : 1 ≤ ihmax) (hs : imi.size = n)
    (hl : ∀ i, i < n → 0 ≤ imi[i]! ∧ imi[i]! < ihmax) :
    ⦃fun o => ⌜o = false⌝⦄ ptsort ihmax n imi
    ⦃⇓ r o => ⌜o = false ∧ IndOK n r ∧
      r.toList = (ptsortSpec ihmax n (levOf imi)).map (fun (x : Nat) => (x : Int))⌝⦄ := by
  mvcgen [ptsort]
  case inv1 => exact ⇓⟨xs, numv⟩ o => ⌜o = false ∧ C1 ihmax imi xs.prefix.length numv⌝
  case inv2 => exact ⇓⟨xs, iaddr⟩ o => ⌜o = false ∧ C2 ihmax n imi xs.prefix.length iaddr⌝
  case inv3 => exact ⇓⟨xs, iaddr, iorder⟩ o => ⌜o = false ∧ C3 ihmax n imi xs.prefix.length iaddr iorder⌝
  case inv4 => exact ⇓⟨xs, ind⟩ o => ⌜o = false ∧ C4 n imi xs.prefix.length ind⌝
  all_goals vcr; vcp
  all_goals try simp only [Int.toNat_natCast, range_toList_length, Nat.sub_zero, List.length_append, List.length_cons,
    List.length_nil, Nat.zero_add] at *
  all_goals try rfl
  all_goals try vco
  all_goals try (have hk := hl _ ‹_ < imi.size›)
  all_goals try (grab h1 : C1; have h1s := h1.1)
  all_goals try (grab h2 : C2; have h2s := h2.1)
  all_goals try (grab h3 : C3; have h3s := h3.1; have h3o := h3.2.1)
  all_goals try (grab h4 : C4; have h4s := h4.1)
  all_goals try vco
  case vc10 => exact ⟨trivial, h1.step hk.1 hk.2⟩
  case vc11 => exact ⟨trivial, C1.init⟩
  case vc13 => simp; omega
  case vc24 =>
    rw [show ∀ k : Nat, ((k : Int) + 1).toNat = k + 1 from fun k => by omega]
    exact ⟨trivial, h2.step h1 (by omega)⟩
  case vc25 => exact ⟨trivial, C2.init hi⟩
  case vc38 => exact ⟨trivial, h3.step (by assumption) hk.1 hk.2⟩
  case vc39 => exact ⟨trivial, C3.init h2⟩
  case vc43 | vc44 => have := (C4.step h3 h4 (by assumption)).1; omega
  case vc46 => exact ⟨trivial, (C4.step h3 h4 (by assumption)).2⟩
  case vc47 => exact ⟨trivial, C4.init⟩
  case vc48 =>
    exact ⟨trivial, h4.final, h4.eq_spec (fun i hi => by have := hl i hi; unfold levOf; omega)⟩

end WS.Fld

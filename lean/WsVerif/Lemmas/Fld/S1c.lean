import WsVerif.Lemmas.Fld.Base
/-! Step 1c of `pt_fld` (seeding and flooding of new basins): invariants and Hoare triples. -/
namespace WS.Fld
open Std.Do WS.SP
set_option mvcgen.warning false

/-! ### step 1c: pure invariants -/

/-- flood of a new basin: `P` = pixels already dequeued, `q` = pixels waiting; all distinct, none `MASK` -/
structure QC (n : Nat) (imo : Array Int) (P q : List Int) : Prop where
  nodup : (P ++ q).Nodup
  pix : ∀ x ∈ P ++ q, Pix n x
  lab : ∀ x ∈ P ++ q, imo[x.toNat]! ≠ -2

section
variable {n : Nat} {imo : Array Int} {P q : List Int}

theorem QC.len (h : QC n imo P q) : P.length + q.length ≤ n := by
  have := pigeon n _ h.nodup h.pix
  simpa using this

/-- dequeue: the head moves to the done list -/
theorem QC.pop {v : Int} (h : QC n imo P (v :: q)) : QC n imo (P ++ [v]) q ∧ Pix n v := by
  have e : (P ++ [v]) ++ q = P ++ v :: q := by simp
  refine ⟨⟨by rw [e]; exact h.nodup, by rw [e]; exact h.pix, by rw [e]; exact h.lab⟩, h.pix v (by simp)⟩

/-- enqueue a `MASK` pixel and give it the label `icl ≠ MASK` -/
theorem QC.add {x icl : Int} (h : QC n imo P q) (hP : P ≠ []) (hx : Pix n x) (hm : imo[x.toNat]! = -2)
    (hicl : icl ≠ -2) (hs : imo.size = n) :
    QC n (imo.set! x.toNat icl) P (q ++ [x]) ∧ (q ++ [x]).length + 1 ≤ n := by
  have hnot : x ∉ P ++ q := fun hx' => h.lab x hx' hm
  have hx2 : x.toNat < imo.size := by have := hx.1; have := hx.2; omega
  have hq : QC n (imo.set! x.toNat icl) P (q ++ [x]) := by
    refine ⟨?_, ?_, ?_⟩
    · rw [← List.append_assoc, List.nodup_append]
      exact ⟨h.nodup, by simp, by intro a ha b hb; simp at hb; subst hb; exact fun e => hnot (e ▸ ha)⟩
    · intro y hy
      rw [← List.append_assoc] at hy
      rcases List.mem_append.mp hy with hy | hy
      · exact h.pix y hy
      · simp at hy; subst hy; exact hx
    · intro y hy
      rw [← List.append_assoc] at hy
      rcases List.mem_append.mp hy with hy | hy
      · rw [get_setI _ hx.1 (h.pix y hy).1 hx2]
        split
        · exact hicl
        · exact h.lab y hy
      · simp at hy; subst hy
        rw [get_setI _ hx.1 hx.1 hx2, if_pos rfl]; exact hicl
  refine ⟨hq, ?_⟩
  have := hq.len
  have : 0 < P.length := List.length_pos_iff.mpr hP
  simp at *; omega
end

theorem nbr1c_spec {n : Nat} {nb : Array Int} (tr : Bool) {icl ipp : Int} {imo iq : Array Int} {qs qe : Int}
    (trace : Array Flood.Step) (P q : List Int)
    (hnb : NbOK n nb) (hs : imo.size = n) (hp : Pix n ipp) (hicl : icl ≠ -2)
    (hq : QRep n iq qs qe q) (hc : QC n imo P q) (hP : P ≠ []) (hl : q.length + 1 ≤ n) :
    ⦃fun o => ⌜o = false⌝⦄ nbr1c n nb tr icl ipp imo iq qe trace
    ⦃⇓ r o => ⌜o = false ∧ r.1.size = n ∧
      ∃ q', QRep n r.2.1 qs r.2.2.1 q' ∧ QC n r.1 P q' ∧ q'.length + 1 ≤ n⌝⦄ := by
  have s1 := nbCnt_spec hnb
  have s2 := nbAt_spec hnb
  mvcgen [nbr1c, s1, s2, fifoAdd_spec]
  case inv1 =>
    exact ⇓⟨_, imo', iq', qe', _⟩ o => ⌜o = false ∧ imo'.size = n ∧
      ∃ q', QRep n iq' qs qe' q' ∧ QC n imo' P q' ∧ q'.length + 1 ≤ n⌝
  all_goals vcr; vcp
  all_goals try rfl
  all_goals try (grab hq' : QRep; have hqe := hq'.qe_range)
  all_goals try vco
  all_goals try (simp [*]; done)
  case vc15.step.post.success.post.success.isTrue.post.success.post.success =>
    grab hc' : QC
    have hadd := hc'.add hP ‹Pix _ _› (by simpa using ‹(_ == (-2 : Int)) = true›) hicl (by assumption)
    exact ⟨rfl, by simp [*], _, hq'.add (by omega) _, hadd.1, hadd.2⟩
  case vc16.step.post.success.post.success.isFalse =>
    grab hc' : QC
    exact ⟨rfl, by assumption, _, hq', hc', by assumption⟩
  case vc17.post.success.pre =>
    exact ⟨rfl, rfl, _, hq', hc, hl⟩
  case vc18.post.success.post.success =>
    grab hc' : QC
    exact ⟨rfl, by assumption, _, hq', hc', by assumption⟩

/-- ghost-free form of `nbr1c_spec` -/
theorem nbr1c_spec' {n : Nat} {nb : Array Int} (tr : Bool) {icl ipp : Int} {imo iq : Array Int} {qs qe : Int}
    (trace : Array Flood.Step)
    (hnb : NbOK n nb) (hs : imo.size = n) (hp : Pix n ipp) (hicl : icl ≠ -2)
    (hex : ∃ Pq : List Int × List Int, QRep n iq qs qe Pq.2 ∧ QC n imo Pq.1 Pq.2 ∧ Pq.1 ≠ [] ∧ Pq.2.length + 1 ≤ n) :
    ⦃fun o => ⌜o = false⌝⦄ nbr1c n nb tr icl ipp imo iq qe trace
    ⦃⇓ r o => ⌜o = false ∧ ∀ Pq : List Int × List Int,
      (QRep n iq qs qe Pq.2 ∧ QC n imo Pq.1 Pq.2 ∧ Pq.1 ≠ [] ∧ Pq.2.length + 1 ≤ n) →
      r.1.size = n ∧ ∃ q', QRep n r.2.1 qs r.2.2.1 q' ∧ QC n r.1 Pq.1 q' ∧ q'.length + 1 ≤ n⌝⦄ :=
  triple_forall _ _ _ (fun Pq h => nbr1c_spec tr trace Pq.1 Pq.2 hnb hs hp hicl h.1 h.2.1 h.2.2.1 h.2.2.2) hex

theorem flood1c_spec {n : Nat} {nb : Array Int} (tr : Bool) {icl : Int} {imo iq : Array Int} {qs qe : Int}
    (trace : Array Flood.Step) (q : List Int)
    (hnb : NbOK n nb) (hs : imo.size = n) (hicl : icl ≠ -2)
    (hq : QRep n iq qs qe q) (hc : QC n imo [] q) (hl : q.length + 1 ≤ n) :
    ⦃fun o => ⌜o = false⌝⦄ flood1c n nb tr icl imo iq qs qe trace
    ⦃⇓ r o => ⌜o = false ∧ r.2.2.2.2.2 = true ∧ r.1.size = n ∧ QRep n r.2.1 r.2.2.1 r.2.2.2.1 []⌝⦄ := by
  mvcgen [flood1c, nbr1c_spec', fifoFirst_spec]
  case inv1 =>
    exact ⇓⟨xs, imo', iq', qs', qe', _, brk⟩ o => ⌜o = false ∧ imo'.size = n ∧
      ((brk = false ∧ ∃ P q, P.length = xs.prefix.length ∧ QRep n iq' qs' qe' q ∧ QC n imo' P q ∧ q.length + 1 ≤ n) ∨
       (brk = true ∧ xs.suffix = [] ∧ QRep n iq' qs' qe' []))⌝
  all_goals vcr; vcp
  all_goals try (grab hor : Or; rcases hor with ⟨hb, P, q', hP, hq', hc', hl'⟩ | ⟨hb, hnil, hq'⟩ <;> try (simp at hnil; done))
  all_goals try rfl
  all_goals try (have hqs := hq'.qs_ok)
  all_goals try vco
  all_goals try (simp [*]; done)
  case vc1.step.isTrue.inl =>
    have := hq'.eq_nil hl' (by assumption); subst this
    exact ⟨rfl, by assumption, Or.inr ⟨by trivial, by trivial, hq'⟩⟩
  case vc8.hp.inl =>
    obtain ⟨v, t, rfl⟩ := hq'.eq_cons hl' (by assumption)
    rw [hq'.pop.1]; exact hc'.pop.2
  case vc10.hex.inl =>
    obtain ⟨v, t, rfl⟩ := hq'.eq_cons hl' (by assumption)
    exact ⟨(P ++ [v], t), hq'.pop.2, hc'.pop.1, by simp, by simp at hl'; simp; omega⟩
  case vc12.step.isFalse.post.success.post.success.inl =>
    obtain ⟨v, t, rfl⟩ := hq'.eq_cons hl' (by assumption)
    grab_all hall
    obtain ⟨hsz, q2, h1, h2, h3⟩ := hall (P ++ [v], t) hq'.pop.2 hc'.pop.1 (by simp) (by simp at hl'; simp; omega)
    exact ⟨rfl, hsz, Or.inl ⟨hb, P ++ [v], q2, by simp [hP], h1, h2, h3⟩⟩
  case vc13.pre =>
    exact ⟨rfl, rfl, Or.inl ⟨by trivial, [], q, rfl, hq, hc, hl⟩⟩
  case vc14.post.success.inl =>
    have := hc'.len
    simp [Std.Legacy.Range.toList] at hP; omega

/-- ghost-free form of `flood1c_spec` -/
theorem flood1c_spec' {n : Nat} {nb : Array Int} (tr : Bool) {icl : Int} {imo iq : Array Int} {qs qe : Int}
    (trace : Array Flood.Step)
    (hnb : NbOK n nb) (hs : imo.size = n) (hicl : icl ≠ -2)
    (hex : ∃ q, QRep n iq qs qe q ∧ QC n imo [] q ∧ q.length + 1 ≤ n) :
    ⦃fun o => ⌜o = false⌝⦄ flood1c n nb tr icl imo iq qs qe trace
    ⦃⇓ r o => ⌜o = false ∧ r.2.2.2.2.2 = true ∧ r.1.size = n ∧ QRep n r.2.1 r.2.2.1 r.2.2.2.1 []⌝⦄ := by
  obtain ⟨q, h1, h2, h3⟩ := hex
  exact flood1c_spec tr trace q hnb hs hicl h1 h2 h3

theorem QC.single {n : Nat} {imo : Array Int} {x icl : Int} (hx : Pix n x) (hs : imo.size = n) (hicl : icl ≠ -2) :
    QC n (imo.set! x.toNat icl) [] [x] := by
  refine ⟨by simp, by simpa using hx, ?_⟩
  intro y hy
  simp at hy; subst hy
  rw [get_setI _ hx.1 hx.1 (by have := hx.1; have := hx.2; omega), if_pos rfl]; exact hicl

/-- state between the phases of a level: buffers of size `n`, cursor in range, queue empty, labels non-negative -/
structure Idle (n : Nat) (imo imd iq : Array Int) (qs qe icl m : Int) : Prop where
  so : imo.size = n
  sd : imd.size = n
  m0 : 0 ≤ m
  m1 : m < n
  icl0 : 0 ≤ icl
  q : QRep n iq qs qe []

theorem step1c_spec {n : Nat} {nb imi ind : Array Int} (ih : Int) (tr : Bool) {imo imd iq : Array Int}
    {qs qe icl m : Int} (trace : Array Flood.Step)
    (hnb : NbOK n nb) (hind : IndOK n ind) (hi : imi.size = n) (hn : 2 ≤ n)
    (h : Idle n imo imd iq qs qe icl m) :
    ⦃fun o => ⌜o = false⌝⦄ step1c n nb imi ind ih tr imo imd iq qs qe icl m trace
    ⦃⇓ r o => ⌜o = false ∧ r.2.2.2.2.2.2.2.2 = false ∧
      Idle n r.1 r.2.1 r.2.2.1 r.2.2.2.1 r.2.2.2.2.1 r.2.2.2.2.2.1 r.2.2.2.2.2.2.1⌝⦄ := by
  have s1 := indAt_spec hind
  have s2 := @flood1c_spec' n nb
  mvcgen [step1c, s1, s2, fifoAdd_spec]
  case inv1 =>
    exact ⇓⟨xs, imo', imd', iq', qs', qe', icl', m', _, fo, brk⟩ o => ⌜o = false ∧ fo = false ∧
      Idle n imo' imd' iq' qs' qe' icl' m' ∧
      ((brk = false ∧ m' = m + xs.prefix.length) ∨ (brk = true ∧ xs.suffix = []))⌝
  all_goals vcr; vcp
  all_goals try (grab hor : Or; rcases hor with ⟨hb, hm⟩ | ⟨hb, hnil⟩ <;> try (simp at hnil; done))
  all_goals try rfl
  all_goals try (grab hI : Idle; have hqe := hI.q.qe_range; have h1 := hI.so; have h2 := hI.sd; have h3 := hI.m0; have h4 := hI.m1; have h5 := hI.icl0)
  all_goals try vco
  all_goals try (simp [*]; done)
  all_goals try (exact absurd ‹(!true) = true› (by decide))
  case vc7.step.post.success.post.success.isTrue.inl =>
    exact ⟨rfl, rfl, hI, Or.inr ⟨by trivial, by trivial⟩⟩
  case vc23 =>
    grab hpx : Pix
    refine ⟨[_], hI.q.add (by simp; omega) _, QC.single hpx h1 (by omega), by simp; omega⟩
  case vc27 =>
    exact ⟨rfl, rfl, ⟨by assumption, by simp [*], by omega, by omega, by omega, by assumption⟩, Or.inr ⟨by trivial, by trivial⟩⟩
  case vc28 =>
    exact ⟨rfl, rfl, ⟨by assumption, by simp [*], by omega, by omega, by omega, by assumption⟩, Or.inl ⟨hb, by simp; omega⟩⟩
  case vc29 =>
    exact ⟨rfl, rfl, ⟨by assumption, by simp [*], by omega, by omega, by omega, hI.q⟩, Or.inr ⟨by trivial, by trivial⟩⟩
  case vc30 =>
    exact ⟨rfl, rfl, ⟨by assumption, by simp [*], by omega, by omega, by omega, hI.q⟩, Or.inl ⟨hb, by simp; omega⟩⟩
  case vc32.post.success.isTrue.inl =>
    have := h.m0
    simp only [Std.Legacy.Range.toList, List.length_range', Nat.add_sub_cancel, Nat.div_one, Nat.sub_zero] at hm; omega
  case vc32.post.success.isTrue.inr =>
    subst hb; simp at *
  case vc33 =>
    have := h.m0
    simp only [Std.Legacy.Range.toList, List.length_range', Nat.add_sub_cancel, Nat.div_one, Nat.sub_zero] at hm; omega

end WS.Fld

import WsVerif.Lemmas.Fld.G2
import WsVerif.Lemmas.Fld.Part
/-! The context of the simulation (`Ctx`) for what `partition` hands to `pt_fld`: the cylinder neighbour table and the graph
`graphOf` built from the same rows, the discretised level map, the output of `ptsort`. -/
namespace WS.Fld
open Std.Do WS.SP WS.Flood WS.Neigh
set_option mvcgen.warning false

theorem table_cnt (mk mth : Nat) {p : Nat} (hp : p < mk * mth) :
    (table mk mth)[(8 + 9 * (p : Int)).toNat]! = ((neighLin mk mth p).length : Int) := by
  have ht := table_toList mk mth
  obtain ⟨hlen, hget⟩ := flatMap_block (f := slots mk mth) (L := 9) (mk * mth) (fun p hp => slots_length hp)
  have hl := (neighLin_ok hp).1
  have e : (8 + 9 * (p : Int)).toNat = 9 * p + 8 := by omega
  rw [e]
  apply get_of_toList ht
  rw [hget _ 8 hp (by omega)]
  simp [slots]
  rw [List.getElem?_append_right (by simp; omega)]
  simp

theorem table_ent (mk mth : Nat) {p i : Nat} (hp : p < mk * mth) (hi : i < (neighLin mk mth p).length) :
    (table mk mth)[((i : Int) + 9 * (p : Int)).toNat]! = (((neighLin mk mth p)[i] : Nat) : Int) := by
  have ht := table_toList mk mth
  obtain ⟨hlen, hget⟩ := flatMap_block (f := slots mk mth) (L := 9) (mk * mth) (fun p hp => slots_length hp)
  have hl := (neighLin_ok hp).1
  have e : ((i : Int) + 9 * (p : Int)).toNat = 9 * p + i := by omega
  rw [e]
  apply get_of_toList ht
  rw [hget _ i hp (by omega)]
  simp only [slots]
  rw [List.append_assoc, List.getElem?_append_left (by simp; omega)]
  simp [hi]

theorem neighLin_symm (mk mth n m : Nat) (hn : n < mk * mth) (hm : m ∈ neighLin mk mth n) : n ∈ neighLin mk mth m := by
  obtain ⟨hi, hj, e⟩ := NeighL.decomp hn
  have hrow : neighLin mk mth n = (neighIJ mk mth (n % mk) (n / mk)).map (lin mk) := by
    have := NeighL.neigh_spec mk mth (n % mk) (n / mk) hi hj
    rw [← e] at this; exact this
  rw [hrow] at hm
  obtain ⟨⟨a, b⟩, hp, rfl⟩ := List.mem_map.mp hm
  have hb := NeighL.neighIJ_bounds hi hj hp
  have hs := NeighL.neighIJ_symm hi hj hp
  show n ∈ neighLin mk mth (a + mk * b)
  rw [NeighL.neigh_spec mk mth a b hb.1 hb.2]
  exact List.mem_map.mpr ⟨(n % mk, n / mk), hs, e.symm⟩

theorem graphOf_adj (mk mth : Nat) (imi : Array Int) {p : Nat} (hp : p < mk * mth) :
    (graphOf mk mth (rows mk mth) imi).adj p = neighLin mk mth p := by
  simp [graphOf, rows, Array.getD, hp]

/-- `ptsortSpec` is sorted by level -/
theorem spec_sorted (ihmax nspec : Nat) (lev : Nat → Nat) :
    (ptsortSpec ihmax nspec lev).Pairwise fun a b => lev a ≤ lev b := by
  unfold ptsortSpec
  rw [List.pairwise_flatMap]
  constructor
  · intro v _
    have : (List.range nspec).Pairwise (· < ·) := List.pairwise_lt_range
    refine (this.filter _).imp_of_mem ?_
    intro a b ha hb _
    simp only [List.mem_filter, beq_iff_eq] at ha hb
    rw [ha.2, hb.2]; exact Nat.le_refl _
  · have : (List.range ihmax).Pairwise (· < ·) := List.pairwise_lt_range
    refine this.imp ?_
    intro v1 v2 hv x hx y hy
    simp only [List.mem_filter, beq_iff_eq] at hx hy
    omega

/-- the context handed to `pt_fld` by `partition` -/
theorem ctx_partition (mk mth ihmax : Nat) {imi ind : Array Int} (hs : imi.size = mk * mth)
    (hl : ∀ i, i < mk * mth → 0 ≤ imi[i]! ∧ imi[i]! < ihmax) (hind : IndOK (mk * mth) ind)
    (he : ind.toList = (ptsortSpec ihmax (mk * mth) (levOf imi)).map (fun (x : Nat) => (x : Int))) :
    Ctx (mk * mth) (table mk mth) imi ind (graphOf mk mth (rows mk mth) imi) := by
  have hlev : ∀ p, p < mk * mth → (graphOf mk mth (rows mk mth) imi).level p = levOf imi p := by
    intro p hp
    simp [graphOf, levOf, Array.getD, hs, hp]
  refine ⟨table_ok mk mth, hind, hs, rfl, ?_, ?_, ?_, ?_, ?_⟩
  · intro ip hp i hi
    obtain ⟨p, rfl⟩ : ∃ p : Nat, ip = p := ⟨ip.toNat, by have := hp.1; omega⟩
    have hp' : p < mk * mth := by have := hp.2; omega
    rw [table_cnt mk mth hp'] at hi
    have hi' : i < (neighLin mk mth p).length := by omega
    rw [Int.toNat_natCast, graphOf_adj mk mth imi hp', table_ent mk mth hp' hi', Int.toNat_natCast]
    exact List.getElem_mem hi'
  · intro ip hp y hy
    obtain ⟨p, rfl⟩ : ∃ p : Nat, ip = p := ⟨ip.toNat, by have := hp.1; omega⟩
    have hp' : p < mk * mth := by have := hp.2; omega
    rw [Int.toNat_natCast, graphOf_adj mk mth imi hp'] at hy
    obtain ⟨i, hi, hget⟩ := List.mem_iff_getElem.mp hy
    refine ⟨i, ?_, ?_⟩
    · rw [table_cnt mk mth hp']; omega
    · rw [table_ent mk mth hp' hi, hget]
  · intro x y hx hy
    rw [graphOf_adj mk mth imi hx] at hy
    have hyn := (neighLin_ok hx).2 y hy
    rw [graphOf_adj mk mth imi hyn]
    exact neighLin_symm mk mth x y hx hy
  · intro p hp
    rw [hlev p hp]
    unfold levOf
    have := (hl p hp).1
    omega
  · intro j k hjk hk
    have hlen := spec_length ihmax (mk * mth) (levOf imi) (fun i hi => by have := hl i hi; unfold levOf; omega)
    have hgetI : ∀ i, (hi : i < mk * mth) → ind[i]! = (((ptsortSpec ihmax (mk * mth) (levOf imi))[i]'(by rw [hlen]; exact hi) : Nat) : Int) := by
      intro i hi
      apply get_of_toList he
      rw [List.getElem?_map, List.getElem?_eq_getElem (by rw [hlen]; exact hi)]
      rfl
    have hj : j < mk * mth := by omega
    have hmem : ∀ i, (hi : i < mk * mth) → (ptsortSpec ihmax (mk * mth) (levOf imi))[i]'(by rw [hlen]; exact hi) < mk * mth := by
      intro i hi
      have := hind.rng i hi
      rw [hgetI i hi] at this
      have := this.2; omega
    rw [hgetI j hj, hgetI k hk, Int.toNat_natCast, Int.toNat_natCast, hlev _ (hmem j hj), hlev _ (hmem k hk)]
    rcases Nat.lt_or_eq_of_le hjk with h1 | h1
    · exact (List.pairwise_iff_getElem.mp (spec_sorted ihmax (mk * mth) (levOf imi))) j k _ _ h1
    · subst h1; exact Nat.le_refl _

theorem graphOf_level_lt (mk mth ihmax : Nat) {imi : Array Int} (hs : imi.size = mk * mth)
    (hl : ∀ i, i < mk * mth → 0 ≤ imi[i]! ∧ imi[i]! < ihmax) (p : Nat) (hp : p < mk * mth) :
    (graphOf mk mth (rows mk mth) imi).level p < ihmax := by
  have := hl p hp
  simp [graphOf, Array.getD, hs, hp]
  have e : imi[p]! = imi[p]'(by rw [hs]; exact hp) := by simp [hs, hp]
  rw [e] at this
  omega

theorem partitionM_specG (nk nth ihmax : Nat) (spec : Array Int) (iqFill : Int)
    (hk : 1 ≤ nk) (ht : 1 ≤ nth) (hi : 1 ≤ ihmax) (hs : spec.size = nk * nth) :
    ⦃fun o => ⌜o = false⌝⦄ partitionM nk nth ihmax (Neigh.table nk nth) spec iqFill true
    ⦃⇓ r o => ⌜o = false ∧ (r.const = false →
      ∃ s, run (graphOf nk nth (rows nk nth) r.imi) r.trace.toList = some s ∧
        (s.phase = .idle ∨ s.phase = .sweeping) ∧
        ∀ p, p < nk * nth → (graphOf nk nth (rows nk nth) r.imi).level p < s.h)⌝⦄ := by
  have hnb := table_ok nk nth
  have hpos : 1 ≤ nk * nth := Nat.mul_pos hk ht
  have s1 := @ptsort_spec ihmax (nk * nth)
  have s2 := fun (imi ind zp : Array Int) =>
    @ptFld_specG (nk * nth) (Neigh.table nk nth) imi ind (graphOf nk nth (rows nk nth) imi)
  mvcgen [partitionM, s1, s2]
  case inv1 => exact ⇓⟨_, z⟩ o => ⌜o = false ∧ z.size = nk * nth⌝
  case inv2 => exact ⇓⟨_, z⟩ o => ⌜o = false ∧ z.size = nk * nth⌝
  case inv3 => exact ⇓⟨_, zmin, zmax⟩ o => ⌜o = false ∧ (nk * nth ≤ 1 → zmax = zmin)⌝
  case inv4 => exact ⇓⟨_, out⟩ o => ⌜o = false ∧ out.size = nk * nth⌝
  case inv5 => exact ⇓⟨_, out⟩ o => ⌜o = false ∧ out.size = nk * nth⌝
  all_goals vcr; vcp
  all_goals try rfl
  all_goals try vco
  all_goals try (simp [*]; done)
  all_goals try (have h1 := idx_mk (mk := nk) (mth := nth) ‹_ < nk› ‹_ < nth›
                 have h2 := idx_km (mk := nk) (mth := nth) ‹_ < nk› ‹_ < nth›
                 omega)
  case vc18 | vc19 | vc20 => exact ⟨rfl, fun h => by omega⟩
  case vc25 =>
    exact map_level_bound _ hi _ _ _ _ (by omega)
  case vc28 =>
    exact ctx_partition nk nth ihmax (by simp [*]) (fun i hi' => map_level_bound _ hi _ _ _ _ (by omega))
      (by assumption) (by assumption)
  case vc30 =>
    have hne := ‹¬(_ == _) = true›
    apply Classical.byContradiction
    intro hlt
    have := ‹nk * nth ≤ 1 → _› (by omega)
    simp [this] at hne
  case vc31 =>
    exact graphOf_level_lt nk nth ihmax (by simp [*]) (fun i hi' => map_level_bound _ hi _ _ _ _ (by omega)) _
      (by assumption)
  case vc34 =>
    grab hG : G2i
    have := hG.size
    have h1 := idx_km (mk := nk) (mth := nth) ‹_ < nk› ‹_ < nth›
    omega
  case vc43 =>
    grab hG : G2i
    obtain ⟨s, hrun, hR⟩ := hG
    exact ⟨rfl, s, hrun, hR.ph, hR.hh⟩

end WS.Fld

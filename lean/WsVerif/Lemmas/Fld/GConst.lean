import WsVerif.Lemmas.Fld.T3
/-! The constant-spectrum branch of `partition`: `zmax == zmin` after the copy-in and range loops, early return. -/
namespace WS.Fld
open Std.Do WS.SP
set_option mvcgen.warning false

theorem lin_inj {nk f t f' t' : Nat} (hf : f < nk) (hf' : f' < nk) (h : f + nk * t = f' + nk * t') : f = f' ∧ t = t' := by
  have h1 := NeighL.lin_mod nk f t hf
  have h2 := NeighL.lin_mod nk f' t' hf'
  have h3 := NeighL.lin_div nk f t hf
  have h4 := NeighL.lin_div nk f' t' hf'
  rw [h] at h1 h3
  exact ⟨by omega, by omega⟩

/-- one write of the copy-in loop of a constant spectrum -/
theorem in_step {nk nth : Nat} {z : Array Int} {c : Int} {a b : Nat} (hs : z.size = nk * nth) (ha : a < nth) (hb : b < nk)
    (h1 : ∀ f t, f < nk → t < a → z[f + nk * t]! = c) (h2 : ∀ f, f < b → z[f + nk * a]! = c) :
    let z' := z.set! ((b : Int) + (nk : Int) * (a : Int)).toNat c
    (∀ f t, f < nk → t < a → z'[f + nk * t]! = c) ∧ ∀ f, f < b + 1 → z'[f + nk * a]! = c := by
  intro z'
  have hlt : b + nk * a < z.size := by rw [hs]; exact NeighL.lin_lt hb ha
  refine ⟨fun f t hf ht => ?_, fun f hf => ?_⟩
  · show (z.set! _ _)[_]! = _
    rw [toNat_km, get_set]
    split
    · rfl
    · exact h1 f t hf ht
  · show (z.set! _ _)[_]! = _
    rw [toNat_km, get_set]
    split
    · rfl
    · rename_i hne
      have : f ≠ b := fun e => hne ⟨by rw [e], hlt⟩
      exact h2 f (by omega)

theorem all_of_lin {nk nth : Nat} {z : Array Int} {c : Int}
    (h : ∀ f t, f < nk → t < nth → z[f + nk * t]! = c) (p : Nat) (hp : p < nk * nth) : z[p]! = c := by
  obtain ⟨h1, h2, h3⟩ := NeighL.decomp hp
  rw [h3]; exact h _ _ h1 h2

theorem partitionM_const (nk nth ihmax : Nat) (spec : Array Int) (iqFill : Int) (tr : Bool)
    (hk : 1 ≤ nk) (ht : 1 ≤ nth) (hs : spec.size = nk * nth) (hc : ∀ i, i < nk * nth → spec[i]! = spec[0]!) :
    ⦃fun o => ⌜o = false⌝⦄ partitionM nk nth ihmax (Neigh.table nk nth) spec iqFill tr
    ⦃⇓ r o => ⌜o = false ∧ r.const = true ∧ r.labels = Array.replicate (nk * nth) 0 ∧ r.trace = #[] ∧
      r.fuelOut = false⌝⦄ := by
  have hpos : 1 ≤ nk * nth := Nat.mul_pos hk ht
  mvcgen [partitionM]
  case inv1 =>
    exact ⇓⟨xs, z⟩ o => ⌜o = false ∧ z.size = nk * nth ∧
      ∀ f t, f < nk → t < xs.prefix.length → z[f + nk * t]! = spec[0]!⌝
  case inv2 =>
    rename_i cur _ _ _ _ _
    exact ⇓⟨ys, z⟩ o => ⌜o = false ∧ z.size = nk * nth ∧
      (∀ f t, f < nk → t < cur → z[f + nk * t]! = spec[0]!) ∧ ∀ f, f < ys.prefix.length → z[f + nk * cur]! = spec[0]!⌝
  case inv3 => exact ⇓⟨_, zmin, zmax⟩ o => ⌜o = false ∧ zmin = spec[0]! ∧ zmax = spec[0]!⌝
  all_goals vcr; vcp
  all_goals try rfl
  all_goals try vco
  all_goals try (simp [*]; done)
  all_goals try (have h1 := idx_mk (mk := nk) (mth := nth) ‹_ < nk› ‹_ < nth›
                 have h2 := idx_km (mk := nk) (mth := nth) ‹_ < nk› ‹_ < nth›
                 omega)
  case vc7 =>
    have hv := hc _ (idx_mk (mk := nk) (mth := nth) ‹_ < nk› ‹_ < nth›).2
    rw [hv]
    grab_all h2
    revert h2
    grab_all h1
    intro h2
    have hst := in_step (nk := nk) (nth := nth) (c := spec[0]!) (by assumption) ‹_ < nth› ‹_ < nk› h1 h2
    exact ⟨rfl, by simp [*], hst.1, fun f hf => hst.2 f (by simpa using hf)⟩
  case vc8 =>
    exact ⟨rfl, by assumption, by assumption, fun f hf => by simp at hf⟩
  case vc9 =>
    grab_all h2
    revert h2
    grab_all h1
    intro h2
    refine ⟨rfl, by assumption, fun f t hf ht' => ?_⟩
    rcases Nat.lt_succ_iff_lt_or_eq.mp (by simpa using ht') with h | h
    · exact h1 f t hf h
    · subst h; exact h2 f (by simpa [range_toList_length] using hf)
  case vc18 | vc19 =>
    grab_all hall
    have := all_of_lin (nk := nk) (nth := nth) (fun f t hf ht' => hall f t hf (by simpa [range_toList_length] using ht'))
      _ ‹1 + _ < nk * nth›
    simp only [Int.toNat_natCast] at *
    refine ⟨trivial, ?_, ?_⟩ <;> omega
  case vc21 =>
    grab_all hall
    have := all_of_lin (nk := nk) (nth := nth) (fun f t hf ht' => hall f t hf (by simpa [range_toList_length] using ht'))
      0 (by omega)
    exact ⟨rfl, this, this⟩
  case vc23 =>
    exfalso
    have h := ‹¬(_ == _) = true›
    simp at h

end WS.Fld

import WsVerif.Lemmas.Fld.GValid
import WsVerif.Lemmas.Flood
/-! Helpers for `Props/C04sound.lean`: the graph `graphOf` of the cylinder table is well formed, label decoding, paths. -/
namespace WS.Fld
open WS.SP WS.Flood WS.FloodL WS.Neigh

theorem labC_wshed_iff (v : Int) : labC v = .wshed ↔ v = 0 := by
  unfold labC
  split
  · simp; omega
  · split
    · simp; omega
    · split <;> simp_all

theorem labC_basin {v : Int} {k : Nat} (h : labC v = .basin k) (hk : 1 ≤ k) : v = (k : Int) := by
  unfold labC at h
  split at h
  · cases h
  · split at h
    · cases h
    · split at h
      · cases h
      · injection h with h; omega

theorem graphOf_adj_ge (mk mth : Nat) (imi : Array Int) {p : Nat} (hp : ¬ p < mk * mth) :
    (graphOf mk mth (rows mk mth) imi).adj p = [] := by
  simp [graphOf, rows, Array.getD, hp]

/-- the graph on which the ghost trace is replayed is symmetric and closed -/
theorem graphOf_wf (mk mth : Nat) (imi : Array Int) : WF (graphOf mk mth (rows mk mth) imi) := by
  constructor
  · intro x y hy
    by_cases hx : x < mk * mth
    · rw [graphOf_adj mk mth imi hx] at hy
      exact (neighLin_ok hx).2 y hy
    · rw [graphOf_adj_ge mk mth imi hx] at hy; cases hy
  · intro x y hy
    by_cases hx : x < mk * mth
    · rw [graphOf_adj mk mth imi hx] at hy
      have hyn := (neighLin_ok hx).2 y hy
      rw [graphOf_adj mk mth imi hyn]
      exact neighLin_symm mk mth x y hx hy
    · rw [graphOf_adj_ge mk mth imi hx] at hy; cases hy

theorem Conn_mono {g : Graph} {S T : Nat → Prop} (h : ∀ x, S x → T x) {a b : Nat} (c : Conn g S a b) : Conn g T a b := by
  induction c with
  | refl hs => exact .refl (h _ hs)
  | step hs ha _ ih => exact .step (h _ hs) ha ih

/-- pixel `p = ifreq + nk·iang` read back as `(ifreq, iang)` -/
theorem pix_decomp {nk nth p : Nat} (hp : p < nk * nth) :
    p % nk < nk ∧ p / nk < nth ∧ p = p % nk + nk * (p / nk) ∧ (p % nk) * nth + p / nk < nk * nth := by
  obtain ⟨h1, h2, h3⟩ := NeighL.decomp hp
  refine ⟨h1, h2, h3, ?_⟩
  calc (p % nk) * nth + p / nk < (p % nk) * nth + nth := by omega
    _ = (p % nk + 1) * nth := by rw [Nat.add_mul, Nat.one_mul]
    _ ≤ nk * nth := Nat.mul_le_mul_right nth h1

end WS.Fld

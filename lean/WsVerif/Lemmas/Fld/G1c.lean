import WsVerif.Lemmas.Fld.G1b
/-! Step 1c of `pt_fld` with the simulation relation: `seed`, `flood`, `closed`, `endlevel` satisfy their guards. -/
namespace WS.Fld
open Std.Do WS.SP WS.Flood
set_option mvcgen.warning false

/-- flooding the basin of a new seed, loop head: `P` closed pixels, `q` waiting pixels (the abstract frontier) -/
structure RFl (n : Nat) (ind : Array Int) (g : Graph) (s : St) (P q : List Nat) (imo imd : Array Int) (icl : Int) (ih : Nat)
    (m : Int) : Prop where
  base : Base n g s imo icl ih
  sd : imd.size = n
  ph : s.phase = .seeding
  i1 : 1 ≤ icl
  fr : ∀ x, x ∈ s.frontier ↔ x ∈ q
  nd : (P ++ q).Nodup
  ql : ∀ x ∈ P ++ q, x < n ∧ imo[x]! = icl ∧ s.finOf x = true
  qlen : q.length + 1 ≤ n
  lc : LvC n ind g s imo imd ih m

/-- … inside an iteration: `v` dequeued, the first `i` slots of its neighbour row examined -/
structure RFlMid (n : Nat) (nb ind : Array Int) (g : Graph) (s : St) (P : List Nat) (v : Nat) (q : List Nat)
    (imo imd : Array Int) (icl : Int) (ih : Nat) (m : Int) (i : Nat) : Prop where
  base : Base n g s imo icl ih
  sd : imd.size = n
  ph : s.phase = .seeding
  i1 : 1 ≤ icl
  fr : ∀ x, x ∈ s.frontier ↔ x = v ∨ x ∈ q
  nd : (P ++ v :: q).Nodup
  ql : ∀ x ∈ P ++ v :: q, x < n ∧ imo[x]! = icl ∧ s.finOf x = true
  lc : LvC n ind g s imo imd ih m
  pcl : ∀ j : Nat, j < i → imo[nbN nb v j]! ≠ -2

section
variable {n : Nat} {nb imi ind : Array Int} {g : Graph}

theorem step_seed {g : Graph} {s : St} {p k : Nat} (hph : s.phase = .seeding) (hp : p < g.n) (hf : s.frontier = [])
    (hl : s.labOf p = .mask) (hk : k = s.K + 1) :
    step g s (.seed p k) = some { s with lab := s.lab.setIfInBounds p (.basin k), fin := s.fin.setIfInBounds p true, K := k,
                                         seeds := s.seeds.push p, frontier := [p] } := by
  simp only [step]
  rw [if_pos ⟨hph, hp, hf, hl, hk⟩]

theorem step_flood {g : Graph} {s : St} {p q : Nat} (hph : s.phase = .seeding) (hp : p < g.n) (hq : q < g.n)
    (hl : s.labOf p = .mask) (ha : q ∈ g.adj p) (hfq : s.finOf q = true) (hlq : s.labOf q = .basin s.K) (hK : 1 ≤ s.K) :
    step g s (.flood p q) = some { s with lab := s.lab.setIfInBounds p (.basin s.K), fin := s.fin.setIfInBounds p true,
                                          frontier := p :: s.frontier } := by
  have hc : (g.adj p).contains q = true := by simpa using ha
  simp only [step]
  rw [if_pos ⟨hph, hp, hq, hl, hc, hfq, hlq, hK⟩]

theorem step_closed {g : Graph} {s : St} {q : Nat} (hph : s.phase = .seeding) (h : ∀ y ∈ g.adj q, s.labOf y ≠ .mask) :
    step g s (.closed q) = some { s with frontier := s.frontier.filter (· != q) } := by
  have hc : ((g.adj q).all fun y => s.labOf y != .mask) = true := by
    rw [List.all_eq_true]; intro y hy; simpa using h y hy
  simp only [step]
  rw [if_pos ⟨hph, hc⟩]

theorem step_endlevel {g : Graph} {s : St} (hph : s.phase = .seeding) (hf : s.frontier = []) (h : endlevelOk g s = true) :
    step g s .endlevel = some { s with phase := .idle, h := s.h + 1, cur := [] } := by
  simp only [step]
  rw [if_pos ⟨hph, hf, h⟩]

/-- effect of labelling a `MASK` pixel `y` of the level with a basin label and making it final -/
theorem LvC.label {s s' : St} {imo imd : Array Int} {ih : Nat} {m : Int} {y : Nat} {v : Int}
    (h : LvC n ind g s imo imd ih m) (hy : y < imo.size) (hv : 0 ≤ v)
    (hf : ∀ x, s'.finOf x = if x = y then true else s.finOf x) :
    LvC n ind g s' (imo.set! y v) imd ih m := by
  have hget : ∀ j, (imo.set! y v)[j]! = if j = y then v else imo[j]! := fun j => get_setP imo y j v hy
  refine ⟨?_, ?_, h.imdl⟩
  · intro p hp hl
    rw [hget, hf]
    split
    · exact Or.inr ⟨hv, rfl⟩
    · exact h.lvl p hp hl
  · intro k hk hl hkm
    have := h.pos k hk hl hkm
    rw [hget]
    split
    · exact ⟨hv, this.2⟩
    · exact this

theorem getD_setB'' {s : St} {p : Nat} {l : Lab} {K : Nat} {sd : Array Nat} {fr : List Nat} (hp : p < s.fin.size) (x : Nat) :
    ({ s with lab := s.lab.setIfInBounds p l, fin := s.fin.setIfInBounds p true, K := K, seeds := sd, frontier := fr } :
      St).finOf x = if x = p then true else s.finOf x := by
  unfold St.finOf
  show (s.fin.setIfInBounds p true).getD x false = _
  rw [getD_setB]
  by_cases h : x = p
  · rw [if_pos ⟨h, hp⟩, if_pos h]
  · rw [if_neg (fun hh => h hh.1), if_neg h]

/-- base relation after labelling a `MASK` pixel of the level with `v ≥ 1` -/
theorem Base.label {s s' : St} {imo : Array Int} {icl icl' : Int} {ih : Nat} {y : Nat} {v : Int}
    (b : Base n g s imo icl ih) (hy : y < n) (hl : g.level y = ih) (hv : 1 ≤ v)
    (hlab : s'.lab = s.lab.setIfInBounds y (.basin v.toNat)) (hfs : s'.fin.size = n)
    (hK : s'.K = icl'.toNat) (hi : 0 ≤ icl') (hh : s'.h = s.h)
    (hf : ∀ x, s'.finOf x = if x = y then true else s.finOf x) :
    Base n g s' (imo.set! y v) icl' ih := by
  have hys : y < imo.size := by rw [b.so]; exact hy
  have hget : ∀ j, (imo.set! y v)[j]! = if j = y then v else imo[j]! := fun j => get_setP imo y j v hys
  refine ⟨by simp [b.so], by rw [hlab, b.lab, map_set, labC_pos hv], hfs, hK, hi, ?_, by rw [hh]; exact b.h, ?_, ?_⟩
  · intro x hx; rw [hget]; split
    · omega
    · exact b.lo x hx
  · intro x hx hlx
    have hne : x ≠ y := fun e => by rw [e] at hlx; omega
    rw [hget, if_neg hne, hf, if_neg hne]; exact b.old x hx hlx
  · intro x hx hlx
    have hne : x ≠ y := fun e => by rw [e] at hlx; omega
    rw [hget, if_neg hne, hf, if_neg hne]; exact b.new x hx hlx

/-- a `MASK` pixel belongs to the current level -/
theorem Base.mask_lv {s : St} {imo : Array Int} {icl : Int} {ih : Nat} (b : Base n g s imo icl ih) {y : Nat} (hy : y < n)
    (hm : imo[y]! = -2) : g.level y = ih := by
  rcases Nat.lt_trichotomy (g.level y) ih with h1 | h1 | h1
  · have := (b.old y hy h1).2; omega
  · exact h1
  · have := (b.new y hy h1).2; omega

/-- resetting the distance of the pixel under the cursor -/
theorem R1c.setd {s : St} {imo imd : Array Int} {icl : Int} {ih : Nat} {m : Int} (h : R1c n ind g s imo imd icl ih m)
    {p : Nat} (hp : p < n) : R1c n ind g s imo (imd.set! p 0) icl ih m := by
  have hps : p < imd.size := by rw [h.sd]; exact hp
  have hget : ∀ j, (imd.set! p 0)[j]! = if j = p then 0 else imd[j]! := fun j => get_setP imd p j 0 hps
  refine ⟨h.base, by simp [h.sd], h.ph, h.fr, h.lc.lvl, ?_, ?_⟩
  · intro k hk hl hkm
    have := h.lc.pos k hk hl hkm
    rw [hget]; split
    · exact ⟨this.1, rfl⟩
    · exact this
  · intro x hx hl
    rw [hget]; split
    · rfl
    · exact h.lc.imdl x hx hl

/-- the pixel under the cursor is already labelled: advance -/
theorem R1c.skip (C : Ctx n nb imi ind g) {s : St} {imo imd : Array Int} {icl : Int} {ih : Nat} {m : Int}
    (h : R1c n ind g s imo imd icl ih m) (hm0 : 0 ≤ m) (hm1 : m < n)
    (hd : imd[(ind[m.toNat]!).toNat]! = 0) (hl : 0 ≤ imo[(ind[m.toNat]!).toNat]!) :
    R1c n ind g s imo imd icl ih (m + 1) := by
  refine ⟨h.base, h.sd, h.ph, h.fr, h.lc.lvl, ?_, h.lc.imdl⟩
  intro k hk hlk hkm
  by_cases hkm' : (k : Int) < m
  · exact h.lc.pos k hk hlk hkm'
  · have : k = m.toNat := by omega
    subst this
    exact ⟨hl, hd⟩

/-- `seed` -/
theorem R1c.seed (C : Ctx n nb imi ind g) {s : St} {imo imd : Array Int} {icl : Int} {ih : Nat} {m : Int}
    (h : R1c n ind g s imo imd icl ih m) (hn : 2 ≤ n) (hm0 : 0 ≤ m) (hm1 : m < n)
    (hd : imd[(ind[m.toNat]!).toNat]! = 0) (hl : imo[(ind[m.toNat]!).toNat]! = -2) :
    ∃ s', step g s (.seed (ind[m.toNat]!).toNat (icl + 1).toNat) = some s' ∧
      RFl n ind g s' [] [(ind[m.toNat]!).toNat] (imo.set! (ind[m.toNat]!).toNat (icl + 1)) imd (icl + 1) ih (m + 1) := by
  have hp := (C.ind_lt (show m.toNat < n by omega)).1
  generalize hpe : (ind[m.toNat]!).toNat = p at *
  have hi0 := h.base.icl0
  have hlv := h.base.mask_lv hp hl
  have hk : (icl + 1).toNat = s.K + 1 := by rw [h.base.K]; omega
  refine ⟨_, step_seed h.ph (by rw [C.gn]; exact hp) h.fr (by rw [h.base.labOf hp, hl]; rfl) hk, ?_⟩
  have hfe := @getD_setB'' s p (.basin (icl + 1).toNat) (icl + 1).toNat (s.seeds.push p) [p] (by rw [h.base.fsz]; exact hp)
  have hps : p < imo.size := by rw [h.base.so]; exact hp
  have hget : ∀ j, (imo.set! p (icl + 1))[j]! = if j = p then icl + 1 else imo[j]! := fun j => get_setP imo p j _ hps
  refine ⟨h.base.label hp hlv (by omega) rfl (by simpa using h.base.fsz) rfl (by omega) rfl hfe, h.sd, h.ph, by omega,
    by intro x; simp, by simp, ?_, by simp; omega, ?_⟩
  · intro x hx
    simp at hx; subst hx
    exact ⟨hp, by rw [hget, if_pos rfl], by rw [hfe, if_pos rfl]⟩
  · have := h.lc.label (v := icl + 1) hps (by omega) hfe
    refine ⟨this.lvl, ?_, this.imdl⟩
    intro k hk' hlk hkm
    by_cases hkm' : (k : Int) < m
    · exact this.pos k hk' hlk hkm'
    · have : k = m.toNat := by omega
      subst this
      rw [hpe, hget, if_pos rfl]
      exact ⟨by omega, hd⟩

/-- dequeue -/
theorem RFl.pop {s : St} {P q : List Nat} {v : Nat} {imo imd : Array Int} {icl : Int} {ih : Nat} {m : Int}
    (h : RFl n ind g s P (v :: q) imo imd icl ih m) : RFlMid n nb ind g s P v q imo imd icl ih m 0 :=
  ⟨h.base, h.sd, h.ph, h.i1, fun x => by rw [h.fr]; simp, h.nd, h.ql, h.lc, fun j hj => by omega⟩

/-- queue empty: the flood of this seed is over -/
theorem RFl.done {s : St} {P : List Nat} {imo imd : Array Int} {icl : Int} {ih : Nat} {m : Int}
    (h : RFl n ind g s P [] imo imd icl ih m) : R1c n ind g s imo imd icl ih m :=
  ⟨h.base, h.sd, h.ph, List.eq_nil_iff_forall_not_mem.mpr (fun x hx => by have := (h.fr x).mp hx; simp at this), h.lc⟩

theorem RFl.len {s : St} {P q : List Nat} {imo imd : Array Int} {icl : Int} {ih : Nat} {m : Int}
    (h : RFl n ind g s P q imo imd icl ih m) : P.length + q.length ≤ n := by
  have := pigeonN n _ h.nd (fun x hx => (h.ql x hx).1)
  simpa using this

theorem RFlMid.len {s : St} {P q : List Nat} {v : Nat} {imo imd : Array Int} {icl : Int} {ih : Nat} {m : Int} {i : Nat}
    (h : RFlMid n nb ind g s P v q imo imd icl ih m i) : P.length + 1 + q.length ≤ n := by
  have := pigeonN n _ h.nd (fun x hx => (h.ql x hx).1)
  simp at this; omega

/-- slot `i` is not `MASK` -/
theorem RFlMid.keep {s : St} {P q : List Nat} {v : Nat} {imo imd : Array Int} {icl : Int} {ih : Nat} {m : Int} {i : Nat}
    (h : RFlMid n nb ind g s P v q imo imd icl ih m i) (hc : imo[nbN nb v i]! ≠ -2) :
    RFlMid n nb ind g s P v q imo imd icl ih m (i + 1) := by
  refine { h with pcl := ?_ }
  intro j hj
  by_cases hji : j < i
  · exact h.pcl j hji
  · have : j = i := by omega
    subst this; exact hc

/-- `flood` -/
theorem RFlMid.flood (C : Ctx n nb imi ind g) {s : St} {P q : List Nat} {v : Nat} {imo imd : Array Int} {icl : Int} {ih : Nat}
    {m : Int} {i : Nat} (h : RFlMid n nb ind g s P v q imo imd icl ih m i)
    (hi : (i : Int) < nb[(8 + 9 * (v : Int)).toNat]!) (hc : imo[nbN nb v i]! = -2) :
    ∃ s', step g s (.flood (nbN nb v i) v) = some s' ∧
      RFlMid n nb ind g s' P v (q ++ [nbN nb v i]) (imo.set! (nbN nb v i) icl) imd icl ih m (i + 1) := by
  have hv := h.ql v (by simp)
  have hvx : Pix n (v : Int) := ⟨by omega, by omega⟩
  have hyadj : nbN nb v i ∈ g.adj v := by
    have := C.adj_mem v hvx i hi
    rwa [Int.toNat_natCast] at this
  have hpcl := h.pcl
  generalize hyd : nbN nb v i = y at *
  have hy : y < n := C.adj_lt hv.1 hyadj
  have hi1 := h.i1
  have hlv := h.base.mask_lv hy hc
  have hK1 : 1 ≤ s.K := by rw [h.base.K]; omega
  have hlabv : s.labOf v = .basin s.K := by rw [h.base.labOf hv.1, hv.2.1, labC_pos hi1, h.base.K]
  refine ⟨_, step_flood h.ph (by rw [C.gn]; exact hy) (by rw [C.gn]; exact hv.1) (by rw [h.base.labOf hy, hc]; rfl)
    (C.adj_symm v y hv.1 hyadj) hv.2.2 hlabv hK1, ?_⟩
  have hfe := @getD_setB'' s y (.basin s.K) s.K s.seeds (y :: s.frontier) (by rw [h.base.fsz]; exact hy)
  have hys : y < imo.size := by rw [h.base.so]; exact hy
  have hget : ∀ j, (imo.set! y icl)[j]! = if j = y then icl else imo[j]! := fun j => get_setP imo y j _ hys
  have hynot : y ∉ P ++ v :: q := fun hm => by have := (h.ql y hm).2.1; omega
  have hmem : ∀ x, x ∈ P ++ v :: (q ++ [y]) ↔ x ∈ P ++ v :: q ∨ x = y := by
    intro x; simp; grind
  refine ⟨h.base.label hy hlv hi1 (by show _ = s.lab.setIfInBounds y (.basin icl.toNat); rw [← h.base.K])
    (by simpa using h.base.fsz) h.base.K h.base.icl0 rfl hfe, h.sd, h.ph, hi1, ?_, ?_, ?_, h.lc.label hys (by omega) hfe, ?_⟩
  · intro x
    show x ∈ y :: s.frontier ↔ _
    rw [List.mem_cons, h.fr, List.mem_append, List.mem_singleton]
    constructor
    · rintro (h1 | h1 | h1)
      · exact Or.inr (Or.inr h1)
      · exact Or.inl h1
      · exact Or.inr (Or.inl h1)
    · rintro (h1 | h1 | h1)
      · exact Or.inr (Or.inl h1)
      · exact Or.inr (Or.inr h1)
      · exact Or.inl h1
  · have e : P ++ v :: (q ++ [y]) = (P ++ v :: q) ++ [y] := by simp
    rw [e, List.nodup_append]
    exact ⟨h.nd, by simp, by intro a ha b hb; simp at hb; subst hb; exact fun e => hynot (e ▸ ha)⟩
  · intro x hx
    rcases (hmem x).mp hx with hx | rfl
    · have := h.ql x hx
      have hne : x ≠ y := fun e => hynot (e ▸ hx)
      exact ⟨this.1, by rw [hget, if_neg hne]; exact this.2.1, by rw [hfe, if_neg hne]; exact this.2.2⟩
    · exact ⟨hy, by rw [hget, if_pos rfl], by rw [hfe, if_pos rfl]⟩
  · intro j hj
    rw [hget]; split
    · omega
    · by_cases hji : j < i
      · exact hpcl j hji
      · have : j = i := by omega
        subst this
        rename_i hne
        exact absurd hyd hne

/-- `closed` after the whole neighbour row -/
theorem RFlMid.close (C : Ctx n nb imi ind g) {s : St} {P q : List Nat} {v : Nat} {imo imd : Array Int} {icl : Int} {ih : Nat}
    {m : Int} {i : Nat} (h : RFlMid n nb ind g s P v q imo imd icl ih m i)
    (hi : ∀ j : Nat, (j : Int) < nb[(8 + 9 * (v : Int)).toNat]! → j < i) :
    step g s (.closed v) = some { s with frontier := s.frontier.filter (· != v) } ∧
    RFl n ind g { s with frontier := s.frontier.filter (· != v) } (P ++ [v]) q imo imd icl ih m := by
  have hv := h.ql v (by simp)
  have hvx : Pix n (v : Int) := ⟨by omega, by omega⟩
  have hvq : v ∉ q := by
    have := h.nd
    rw [List.nodup_append] at this
    exact (List.nodup_cons.mp this.2.1).1
  constructor
  · refine step_closed h.ph ?_
    intro y hy
    obtain ⟨j, hj, he⟩ := C.adj_cov v hvx y (by rw [Int.toNat_natCast]; exact hy)
    have hpc := h.pcl j (hi j hj)
    have hyn := C.adj_lt hv.1 hy
    rw [h.base.labOf hyn]
    intro e
    have hm2 := (labC_mask (h.base.lo y hyn)).mp e
    have e2 : nbN nb v j = y := by unfold nbN; rw [he, Int.toNat_natCast]
    rw [e2] at hpc
    exact hpc hm2
  · have hlen := h.len
    refine ⟨⟨h.base.so, h.base.lab, h.base.fsz, h.base.K, h.base.icl0, h.base.lo, h.base.h, h.base.old, h.base.new⟩, h.sd, h.ph,
      h.i1, ?_, by simpa using h.nd, fun x hx => h.ql x (by simpa using hx), by omega, h.lc.lvl, h.lc.pos, h.lc.imdl⟩
    intro x
    show x ∈ s.frontier.filter (· != v) ↔ _
    rw [List.mem_filter, h.fr]
    simp only [bne_iff_ne, ne_eq, decide_not, Bool.not_eq_eq_eq_not, Bool.not_true, decide_eq_false_iff_not]
    constructor
    · rintro ⟨h1 | h1, h2⟩
      · exact absurd h1 h2
      · exact h1
    · intro h1
      exact ⟨Or.inr h1, fun e => hvq (e ▸ h1)⟩

/-- all pixels of the level are labelled: `endlevel` -/
theorem R1c.endlevel (C : Ctx n nb imi ind g) {s : St} {imo imd : Array Int} {icl : Int} {ih : Nat} {m m' : Int}
    (h : R1c n ind g s imo imd icl ih m) (hall : ∀ k : Nat, k < n → g.level (ind[k]!).toNat = ih → (k : Int) < m)
    (hmi : MInv n ind g (ih + 1) m') :
    step g s .endlevel = some { s with phase := .idle, h := s.h + 1, cur := [] } ∧
    RIdle n ind g { s with phase := .idle, h := s.h + 1, cur := [] } imo imd icl (ih + 1) m' := by
  have hlab : ∀ p, p < n → g.level p = ih → 0 ≤ imo[p]! ∧ s.finOf p = true ∧ imd[p]! = 0 := by
    intro p hp hl
    obtain ⟨k, hk, he⟩ := C.ind_surj hp
    have hl' : g.level (ind[k]!).toNat = ih := by rw [he, Int.toNat_natCast]; exact hl
    have := h.lc.pos k hk hl' (hall k hk hl')
    rw [he, Int.toNat_natCast] at this
    rcases h.lc.lvl p hp hl with h1 | h1
    · omega
    · exact ⟨this.1, h1.2, this.2⟩
  constructor
  · refine step_endlevel h.ph h.fr ?_
    unfold endlevelOk
    simp only [List.all_eq_true, List.mem_range, Bool.or_eq_true, Bool.not_eq_true', decide_eq_false_iff_not,
      Bool.and_eq_true]
    intro x hx
    rw [C.gn] at hx
    by_cases hl : g.level x ≤ s.h
    · right
      rw [h.base.h] at hl
      rw [h.base.labOf hx, labC_labelled (h.base.lo x hx)]
      rcases Nat.lt_or_eq_of_le hl with h1 | h1
      · have := h.base.old x hx h1; exact ⟨this.1, this.2⟩
      · have := hlab x hx h1; exact ⟨this.2.1, this.1⟩
    · left; exact hl
  · refine ⟨⟨h.base.so, h.base.lab, h.base.fsz, h.base.K, h.base.icl0, h.base.lo, by show s.h + 1 = ih + 1; rw [h.base.h], ?_, ?_⟩,
      h.sd, rfl, ?_, ?_, hmi⟩
    · intro p hp hl
      rcases Nat.lt_or_eq_of_le (Nat.le_of_lt_succ hl) with h1 | h1
      · exact h.base.old p hp h1
      · have := hlab p hp h1; exact ⟨this.2.1, this.1⟩
    · intro p hp hl
      exact h.base.new p hp (by omega)
    · intro p hp hl
      exact h.base.new p hp (by omega)
    · intro p hp
      by_cases hl : g.level p = ih
      · exact (hlab p hp hl).2.2
      · exact h.lc.imdl p hp hl
end

/-! ### Hoare triples -/

section
variable {n : Nat} {nb imi ind : Array Int} {g : Graph}

def GFl (n : Nat) (ind : Array Int) (g : Graph) (trace : Array Step) (imo imd iq : Array Int) (qs qe icl : Int) (ih : Nat)
    (m : Int) (k : Nat) : Prop :=
  ∃ (s : St) (P q : List Nat), P.length = k ∧ run g trace.toList = some s ∧ QRep n iq qs qe (castL q) ∧
    RFl n ind g s P q imo imd icl ih m

def GFlMid (n : Nat) (nb ind : Array Int) (g : Graph) (trace : Array Step) (imo imd iq : Array Int) (qs qe icl : Int)
    (ih : Nat) (m : Int) (k : Nat) (ipp : Int) (i : Nat) : Prop :=
  ∃ (s : St) (P : List Nat) (v : Nat) (q : List Nat), ipp = (v : Int) ∧ P.length + 1 = k ∧ run g trace.toList = some s ∧
    QRep n iq qs qe (castL q) ∧ RFlMid n nb ind g s P v q imo imd icl ih m i

def G1c (n : Nat) (ind : Array Int) (g : Graph) (trace : Array Step) (imo imd iq : Array Int) (qs qe icl : Int) (ih : Nat)
    (m : Int) : Prop :=
  ∃ s : St, run g trace.toList = some s ∧ QRep n iq qs qe [] ∧ R1c n ind g s imo imd icl ih m

/-- the seeding loop has left: every pixel of the level is labelled and the cursor is right for the next level -/
def G1cEnd (n : Nat) (ind : Array Int) (g : Graph) (trace : Array Step) (imo imd iq : Array Int) (qs qe icl : Int) (ih : Nat)
    (m : Int) : Prop :=
  ∃ (s : St) (mm : Int), run g trace.toList = some s ∧ QRep n iq qs qe [] ∧ R1c n ind g s imo imd icl ih mm ∧
    (∀ k : Nat, k < n → g.level (ind[k]!).toNat = ih → (k : Int) < mm) ∧ MInv n ind g (ih + 1) m

/-- state between two levels -/
def GIdle (n : Nat) (ind : Array Int) (g : Graph) (trace : Array Step) (imo imd iq : Array Int) (qs qe icl : Int) (ih : Nat)
    (m : Int) : Prop :=
  ∃ s : St, run g trace.toList = some s ∧ QRep n iq qs qe [] ∧ RIdle n ind g s imo imd icl ih m

variable {trace : Array Step} {imo imd iq : Array Int} {qs qe icl : Int} {ih : Nat} {m : Int} {k : Nat}

theorem GFlMid.facts {ipp : Int} {i : Nat} (h : GFlMid n nb ind g trace imo imd iq qs qe icl ih m k ipp i) :
    Pix n ipp ∧ imo.size = n ∧ (0 ≤ qe ∧ qe.toNat < iq.size) := by
  obtain ⟨s, P, v, q, rfl, -, -, hq, hR⟩ := h
  have := (hR.ql v (by simp)).1
  have := hq.qe_range
  exact ⟨⟨by omega, by omega⟩, hR.base.so, by omega⟩

theorem GFlMid.cast {ipp : Int} {i j : Nat} (h : GFlMid n nb ind g trace imo imd iq qs qe icl ih m k ipp i) (e : i = j) :
    GFlMid n nb ind g trace imo imd iq qs qe icl ih m k ipp j := e ▸ h

theorem GFlMid.keepG {ipp : Int} {i : Nat} (h : GFlMid n nb ind g trace imo imd iq qs qe icl ih m k ipp i)
    (hc : ¬(imo[nbN nb ipp i]! == -2) = true) :
    GFlMid n nb ind g trace imo imd iq qs qe icl ih m k ipp (i + 1) := by
  obtain ⟨s, P, v, q, rfl, hk, hrun, hq, hR⟩ := h
  exact ⟨s, P, v, q, rfl, hk, hrun, hq, hR.keep (by simpa using hc)⟩

theorem GFlMid.floodG (C : Ctx n nb imi ind g) {ipp : Int} {i : Nat}
    (h : GFlMid n nb ind g trace imo imd iq qs qe icl ih m k ipp i) (hi : i < (nb[(8 + 9 * ipp).toNat]!).toNat)
    (hc : (imo[nbN nb ipp i]! == -2) = true) :
    GFlMid n nb ind g (pushIf true trace (.flood (nbN nb ipp i) ipp.toNat)) (imo.set! (nbN nb ipp i) icl) imd
      (iq.set! qe.toNat nb[((i : Int) + 9 * ipp).toNat]!) qs (fifoNextEnd n qe) icl ih m k ipp (i + 1) := by
  obtain ⟨s, P, v, q, rfl, hk, hrun, hq, hR⟩ := h
  simp only [beq_iff_eq] at hc
  obtain ⟨s', hs, hR'⟩ := hR.flood C (by omega) hc
  have hlen := hR'.len
  simp at hlen
  have hvn := (hR.ql v (by simp)).1
  have hpx := C.nbok.ent v ⟨by omega, by omega⟩ i (by omega)
  rw [Int.toNat_natCast]
  refine ⟨s', P, v, q ++ [nbN nb v i], rfl, hk, run_push hrun hs, ?_, hR'⟩
  have := hq.add (by simp; omega) nb[((i : Int) + 9 * (v : Int)).toNat]!
  have e : ((nbN nb (v : Int) i : Nat) : Int) = nb[((i : Int) + 9 * (v : Int)).toNat]! := by
    unfold nbN; have := hpx.1; omega
  simpa [castL, e] using this

theorem nbr1c_specG (C : Ctx n nb imi ind g) {ipp : Int}
    (h : GFlMid n nb ind g trace imo imd iq qs qe icl ih m k ipp 0) :
    ⦃fun o => ⌜o = false⌝⦄ nbr1c n nb true icl ipp imo iq qe trace
    ⦃⇓ r o => ⌜o = false ∧ GFlMid n nb ind g r.2.2.2 r.1 imd r.2.1 qs r.2.2.1 icl ih m k ipp
      (nb[(8 + 9 * ipp).toNat]!).toNat⌝⦄ := by
  have hnb := C.nbok
  have s1 := nbCnt_spec hnb
  have s2 := nbAt_spec hnb
  have hip := h.facts.1
  mvcgen [nbr1c, s1, s2, fifoAdd_spec]
  case inv1 =>
    exact ⇓⟨xs, imo', iq', qe', tr'⟩ o => ⌜o = false ∧
      GFlMid n nb ind g tr' imo' imd iq' qs qe' icl ih m k ipp xs.prefix.length⌝
  all_goals vcr; vcp
  all_goals try rfl
  all_goals try (grab hQ : GFlMid; have hf := hQ.facts)
  all_goals try vco
  all_goals try (simp [*]; done)
  case vc15 =>
    exact ⟨rfl, (hQ.floodG C (by assumption) (by assumption)).cast (by simp)⟩
  case vc16 =>
    exact ⟨rfl, (hQ.keepG (by assumption)).cast (by simp)⟩
  case vc18 =>
    exact ⟨rfl, hQ.cast (by simp [Std.Legacy.Range.toList])⟩

theorem nbr1c_specG' (C : Ctx n nb imi ind g) {ipp : Int} {trace : Array Step} {imo imd iq : Array Int} {qs qe icl : Int}
    {ih : Nat} {m : Int}
    (h : ∃ k, GFlMid n nb ind g trace imo imd iq qs qe icl ih m k ipp 0) :
    ⦃fun o => ⌜o = false⌝⦄ nbr1c n nb true icl ipp imo iq qe trace
    ⦃⇓ r o => ⌜o = false ∧ ∀ k, GFlMid n nb ind g trace imo imd iq qs qe icl ih m k ipp 0 →
      GFlMid n nb ind g r.2.2.2 r.1 imd r.2.1 qs r.2.2.1 icl ih m k ipp (nb[(8 + 9 * ipp).toNat]!).toNat⌝⦄ :=
  triple_forall _ _ _ (fun k hk => nbr1c_specG C hk) h

theorem GFl.facts (h : GFl n ind g trace imo imd iq qs qe icl ih m k) :
    (0 ≤ qs ∧ qs.toNat < iq.size) ∧ imo.size = n ∧ k ≤ n := by
  obtain ⟨s, P, q, hk, -, hq, hR⟩ := h
  have := hR.len
  exact ⟨hq.qs_ok, hR.base.so, by omega⟩

theorem GFl.empty (h : GFl n ind g trace imo imd iq qs qe icl ih m k) (he : (qs == qe) = true) :
    G1c n ind g trace imo imd iq qs qe icl ih m := by
  obtain ⟨s, P, q, hk, hrun, hq, hR⟩ := h
  have hnil := hq.eq_nil (by simpa [castL] using hR.qlen) he
  have : q = [] := by simpa [castL] using hnil
  subst this
  exact ⟨s, hrun, hq, hR.done⟩

theorem GFl.pop (h : GFl n ind g trace imo imd iq qs qe icl ih m k) (he : ¬(qs == qe) = true) :
    GFlMid n nb ind g trace imo imd iq (fifoNextStart n qs) qe icl ih m (k + 1) iq[qs.toNat]! 0 := by
  obtain ⟨s, P, q, hk, hrun, hq, hR⟩ := h
  obtain ⟨v, t, hvt⟩ := hq.eq_cons (by simpa [castL] using hR.qlen) he
  cases q with
  | nil => simp [castL] at hvt
  | cons a q' =>
    have hp := hq.pop
    exact ⟨s, P, a, q', hp.1, by omega, hrun, hp.2, hR.pop⟩

theorem GFlMid.closeG (C : Ctx n nb imi ind g) {ipp : Int}
    (h : GFlMid n nb ind g trace imo imd iq qs qe icl ih m k ipp (nb[(8 + 9 * ipp).toNat]!).toNat) :
    GFl n ind g (pushIf true trace (.closed ipp.toNat)) imo imd iq qs qe icl ih m k := by
  obtain ⟨s, P, v, q, rfl, hk, hrun, hq, hR⟩ := h
  obtain ⟨h1, h2⟩ := hR.close C (fun j hj => by omega)
  rw [Int.toNat_natCast]
  exact ⟨_, P ++ [v], q, by simp; omega, run_push hrun h1, hq, h2⟩

theorem flood1c_specG (C : Ctx n nb imi ind g) (h : GFl n ind g trace imo imd iq qs qe icl ih m 0) :
    ⦃fun o => ⌜o = false⌝⦄ flood1c n nb true icl imo iq qs qe trace
    ⦃⇓ r o => ⌜o = false ∧ r.2.2.2.2.2 = true ∧
      G1c n ind g r.2.2.2.2.1 r.1 imd r.2.1 r.2.2.1 r.2.2.2.1 icl ih m⌝⦄ := by
  have s1 := fun (ipp : Int) (imo iq : Array Int) (qs qe : Int) (trace : Array Step) =>
    @nbr1c_specG' n nb imi ind g C ipp trace imo imd iq qs qe icl ih m
  mvcgen [flood1c, s1, fifoFirst_spec]
  case inv1 =>
    exact ⇓⟨xs, imo', iq', qs', qe', tr', brk⟩ o => ⌜o = false ∧
      ((brk = false ∧ GFl n ind g tr' imo' imd iq' qs' qe' icl ih m xs.prefix.length) ∨
       (brk = true ∧ xs.suffix = [] ∧ G1c n ind g tr' imo' imd iq' qs' qe' icl ih m))⌝
  all_goals vcr; vcp
  all_goals try (grab hor : Or; rcases hor with ⟨hb, hQ⟩ | ⟨hb, hnil, hq'⟩ <;> try (simp at hnil; done))
  all_goals try rfl
  all_goals try (have hf := hQ.facts)
  all_goals try vco
  all_goals try (simp [*]; done)
  case vc1.step.isTrue.inl =>
    exact ⟨rfl, Or.inr ⟨by trivial, by trivial, hQ.empty (by assumption)⟩⟩
  case vc6.h.inl =>
    exact ⟨_, hQ.pop (by assumption)⟩
  case vc8.step.isFalse.post.success.post.success.inl =>
    grab_all hall
    have h3 := hall _ (hQ.pop (by assumption))
    exact ⟨rfl, Or.inl ⟨hb, by simpa using h3.closeG C⟩⟩
  case vc10.post.success.inl =>
    have := hf.2.2
    simp only [Std.Legacy.Range.toList, List.length_range', Nat.add_sub_cancel, Nat.div_one, Nat.sub_zero] at this
    omega

theorem flood1c_specG' (C : Ctx n nb imi ind g) {trace : Array Step} {imo iq : Array Int} {qs qe icl : Int} {ih : Nat}
    (h : ∃ dm : Array Int × Int, GFl n ind g trace imo dm.1 iq qs qe icl ih dm.2 0) :
    ⦃fun o => ⌜o = false⌝⦄ flood1c n nb true icl imo iq qs qe trace
    ⦃⇓ r o => ⌜o = false ∧ ∀ dm : Array Int × Int, GFl n ind g trace imo dm.1 iq qs qe icl ih dm.2 0 →
      r.2.2.2.2.2 = true ∧ G1c n ind g r.2.2.2.2.1 r.1 dm.1 r.2.1 r.2.2.1 r.2.2.2.1 icl ih dm.2⌝⦄ :=
  triple_forall _ _ _ (fun dm hdm => flood1c_specG C hdm) h

theorem G1c.facts (h : G1c n ind g trace imo imd iq qs qe icl ih m) :
    (0 ≤ qe ∧ qe.toNat < iq.size) ∧ imo.size = n ∧ imd.size = n := by
  obtain ⟨s, -, hq, hR⟩ := h
  have := hq.qe_range
  exact ⟨by omega, hR.base.so, hR.sd⟩

theorem G1c.exit_ne (C : Ctx n nb imi ind g) (h : G1c n ind g trace imo imd iq qs qe icl ih m) (hP : Pos n ind g ih m)
    (hl : (imi[(ind[m.toNat]!).toNat]! != (ih : Int)) = true) :
    G1cEnd n ind g trace imo imd iq qs qe icl ih m := by
  obtain ⟨s, hrun, hq, hR⟩ := h
  have hm0 := hP.m0; have hm1 := hP.m1
  have hpl := C.ind_lt (show m.toNat < n by omega)
  have hl' : g.level (ind[m.toNat]!).toNat ≠ ih := fun e => by
    have := (C.lev_eq hpl.1 ih).mpr e; simp [this] at hl
  exact ⟨s, m, hrun, hq, hR, fun k hk hlk => hP.exit_ne C hl' hk hlk, hP.next_ne C hl'⟩

theorem G1c.skipG (C : Ctx n nb imi ind g) (h : G1c n ind g trace imo imd iq qs qe icl ih m) (hP : Pos n ind g ih m)
    (hl : ¬(imi[(ind[m.toNat]!).toNat]! != (ih : Int)) = true)
    (hc : ¬(imo[(ind[m.toNat]!).toNat]! == -2) = true) :
    G1c n ind g trace imo (imd.set! (ind[m.toNat]!).toNat 0) iq qs qe icl ih (m + 1) := by
  obtain ⟨s, hrun, hq, hR⟩ := h
  have hm0 := hP.m0; have hm1 := hP.m1
  have hpl := C.ind_lt (show m.toNat < n by omega)
  have hl' : g.level (ind[m.toNat]!).toNat = ih := (C.lev_eq hpl.1 ih).mp (by simpa using hl)
  have hR' := hR.setd hpl.1
  have hd : (imd.set! (ind[m.toNat]!).toNat 0)[(ind[m.toNat]!).toNat]! = 0 := by
    rw [get_setP _ _ _ _ (by rw [hR.sd]; exact hpl.1), if_pos rfl]
  refine ⟨s, hrun, hq, hR'.skip C hm0 hm1 hd ?_⟩
  rcases hR.lc.lvl _ hpl.1 hl' with h1 | h1
  · simp [h1.1] at hc
  · exact h1.1

theorem G1c.seedG (C : Ctx n nb imi ind g) (h : G1c n ind g trace imo imd iq qs qe icl ih m) (hn : 2 ≤ n)
    (hP : Pos n ind g ih m) (hc : (imo[(ind[m.toNat]!).toNat]! == -2) = true) :
    GFl n ind g (pushIf true trace (.seed (ind[m.toNat]!).toNat (icl + 1).toNat)) (imo.set! (ind[m.toNat]!).toNat (icl + 1))
      (imd.set! (ind[m.toNat]!).toNat 0) (iq.set! qe.toNat ind[m.toNat]!) qs (fifoNextEnd n qe) (icl + 1) ih (m + 1) 0 := by
  obtain ⟨s, hrun, hq, hR⟩ := h
  have hm0 := hP.m0; have hm1 := hP.m1
  have hpl := C.ind_lt (show m.toNat < n by omega)
  have hR' := hR.setd hpl.1
  have hd : (imd.set! (ind[m.toNat]!).toNat 0)[(ind[m.toNat]!).toNat]! = 0 := by
    rw [get_setP _ _ _ _ (by rw [hR.sd]; exact hpl.1), if_pos rfl]
  obtain ⟨s', hs, hF⟩ := hR'.seed C hn hm0 hm1 hd (by simpa using hc)
  refine ⟨s', [], _, rfl, run_push hrun hs, ?_, hF⟩
  have := hq.add (by simp; omega) ind[m.toNat]!
  simpa [castL, Int.toNat_of_nonneg hpl.2] using this

theorem G1c.lastG (C : Ctx n nb imi ind g) (h : G1c n ind g trace imo imd iq qs qe icl ih (m + 1)) (hP : Pos n ind g ih m)
    (hl : ¬(imi[(ind[m.toNat]!).toNat]! != (ih : Int)) = true) (hm : m > (n : Int) - 2) :
    G1cEnd n ind g trace imo imd iq qs qe icl ih m := by
  obtain ⟨s, hrun, hq, hR⟩ := h
  have hm0 := hP.m0; have hm1 := hP.m1
  have hpl := C.ind_lt (show m.toNat < n by omega)
  have hl' : g.level (ind[m.toNat]!).toNat = ih := (C.lev_eq hpl.1 ih).mp (by simpa using hl)
  exact ⟨s, m + 1, hrun, hq, hR, fun k hk _ => by omega, hP.next_last hl' hm⟩

theorem step1c_specG (C : Ctx n nb imi ind g) (ihN : Nat) {imo imd iq : Array Int} {qs qe icl m : Int}
    (trace : Array Step) (hn : 2 ≤ n) (hP : Pos n ind g ihN m) (h : G1c n ind g trace imo imd iq qs qe icl ihN m) :
    ⦃fun o => ⌜o = false⌝⦄ step1c n nb imi ind (ihN : Int) true imo imd iq qs qe icl m trace
    ⦃⇓ r o => ⌜o = false ∧
      G1cEnd n ind g r.2.2.2.2.2.2.2.1 r.1 r.2.1 r.2.2.1 r.2.2.2.1 r.2.2.2.2.1 r.2.2.2.2.2.1 ihN r.2.2.2.2.2.2.1⌝⦄ := by
  have hind := C.indok
  have hi := C.isz
  have s1 := indAt_spec hind
  have s2 := fun (icl : Int) (imo iq : Array Int) (qs qe : Int) (trace : Array Step) =>
    @flood1c_specG' n nb imi ind g C trace imo iq qs qe icl ihN
  mvcgen [step1c, s1, s2, fifoAdd_spec]
  case inv1 =>
    exact ⇓⟨xs, imo', imd', iq', qs', qe', icl', m', tr', fo, brk⟩ o => ⌜o = false ∧
      ((brk = false ∧ m' = m + xs.prefix.length ∧ Pos n ind g ihN m' ∧ G1c n ind g tr' imo' imd' iq' qs' qe' icl' ihN m') ∨
       (brk = true ∧ xs.suffix = [] ∧ G1cEnd n ind g tr' imo' imd' iq' qs' qe' icl' ihN m'))⌝
  all_goals vcr; vcp
  all_goals try (grab hor : Or; rcases hor with ⟨hb, hm, hP', hQ⟩ | ⟨hb, hnil, hQ⟩ <;> try (simp at hnil; done))
  all_goals try rfl
  all_goals try (have hf := hQ.facts; have hm0' := hP'.m0; have hm1' := hP'.m1)
  all_goals try vco
  all_goals try (simp [*]; done)
  case vc7 =>
    exact ⟨rfl, Or.inr ⟨by trivial, by trivial, hQ.exit_ne C hP' (by assumption)⟩⟩
  case vc20 =>
    exact ⟨(_, _), hQ.seedG C hn hP' (by assumption)⟩
  case vc22 | vc23 =>
    grab_all hall
    have h3 := hall (_, _) (hQ.seedG C hn hP' (by assumption))
    have h4 := ‹(!_) = true›
    simp [h3.1] at h4
  case vc24 =>
    grab_all hall
    have h3 := hall (_, _) (hQ.seedG C hn hP' (by assumption))
    exact ⟨rfl, Or.inr ⟨by trivial, by trivial, h3.2.lastG C hP' (by assumption) (by assumption)⟩⟩
  case vc25 =>
    grab_all hall
    have h3 := hall (_, _) (hQ.seedG C hn hP' (by assumption))
    exact ⟨rfl, Or.inl ⟨hb, by simp; omega, hP'.step' C (by assumption) (by assumption), h3.2⟩⟩
  case vc26 =>
    exact ⟨rfl, Or.inr ⟨by trivial, by trivial,
      (hQ.skipG C hP' (by assumption) (by assumption)).lastG C hP' (by assumption) (by assumption)⟩⟩
  case vc27 =>
    exact ⟨rfl, Or.inl ⟨hb, by simp; omega, hP'.step' C (by assumption) (by assumption),
      hQ.skipG C hP' (by assumption) (by assumption)⟩⟩
  case vc29.post.success.isTrue.inl | vc30.post.success.isFalse.inl =>
    have := hP.m0
    simp only [Std.Legacy.Range.toList, List.length_range', Nat.add_sub_cancel, Nat.div_one, Nat.sub_zero] at hm; omega

end

end WS.Fld

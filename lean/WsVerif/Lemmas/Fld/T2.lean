import WsVerif.Lemmas.Fld.T1
import WsVerif.Lemmas.Fld.S2
import WsVerif.Lemmas.Fld.Top
/-! Step 2, one level, and the whole of `pt_fld` carrying the relation `TR` (label effect of the ghost trace =
concrete `imo`); see `Fld/T1`. -/
namespace WS.Fld
open Std.Do WS.SP
set_option mvcgen.warning false

theorem nb_pick {n : Nat} {nb : Array Int} (hnb : NbOK n nb) {jl ipt : Int} (hp : Pix n jl) (hgt : ipt > -1)
    (hor : ipt = -1 ∨ (0 ≤ ipt ∧ ipt < nb[(8 + 9 * jl).toNat]!)) : Pix n nb[(ipt + 9 * jl).toNat]! := by
  have h0 : 0 ≤ ipt := by omega
  have hi := hnb.ent jl hp ipt.toNat (by omega)
  rwa [Int.toNat_of_nonneg h0] at hi

theorem TR2.resolveI {n : Nat} {t : Array Flood.Step} {imo imd : Array Int} {icl : Int} (h : TR2 n t imo imd icl)
    (p : Nat) {q : Int} (hq : Pix n q) (hs : imo.size = n) :
    TR2 n (pushIf true t (.resolve p q.toNat)) imo (imd.set! ((p : Int)).toNat imo[q.toNat]!) icl := by
  have := h.resolve p q.toNat (by have := hq.1; have := hq.2; omega)
  simpa [Int.toNat_natCast] using this

theorem sweepPix_specT {n : Nat} {nb zp : Array Int} (zpmax : Int) {imo : Array Int} {jlN : Nat}
    {imd : Array Int} (trace : Array Flood.Step) (icl : Int) (hT : TR2 n trace imo imd icl)
    (hnb : NbOK n nb) (hz : zp.size = n) (hs : imo.size = n) (hd : imd.size = n) (hj : jlN < n) :
    ⦃fun o => ⌜o = false⌝⦄ sweepPix nb zp zpmax true imo jlN imd trace
    ⦃⇓ r o => ⌜o = false ∧ TR2 n r.2 imo r.1 icl ∧ r.1.size = n⌝⦄ := by
  have s1 := nbCnt_spec hnb
  have s2 := nbAt_spec hnb
  have hp : Pix n (jlN : Int) := ⟨by omega, by omega⟩
  have hc := hnb.cnt _ hp
  have he := hnb.ent _ hp
  have hsz := hnb.size
  mvcgen [sweepPix, s1, s2]
  case inv1 =>
    exact ⇓⟨_, ipt, _⟩ o => ⌜o = false ∧ (ipt = -1 ∨ (0 ≤ ipt ∧ ipt < nb[(8 + 9 * (jlN : Int)).toNat]!))⌝
  all_goals vcr; vcp
  all_goals try rfl
  all_goals try vco
  all_goals try (simp [*]; done)
  case vc18 => exact ⟨rfl, Or.inr ⟨by omega, by omega⟩⟩
  case vc24 | vc25 =>
    rename_i ipt _ _ _ _ _ _ _ _ _
    grab hor : Or
    have h0 : 0 ≤ ipt := by omega
    have hi := he ipt.toNat (by omega)
    rw [Int.toNat_of_nonneg h0] at hi
    have := hi.1; have := hi.2
    omega
  case vc30 =>
    grab hor : Or
    have hq := nb_pick hnb hp (by assumption) hor
    exact ⟨rfl, hT.resolveI jlN hq hs, by simp [*]⟩

theorem step2_specT {n : Nat} {nb zp : Array Int} (zpmax : Int) {imo : Array Int}
    (trace : Array Flood.Step) (icl : Int) (hT : TR n trace imo icl)
    (hnb : NbOK n nb) (hz : zp.size = n) (hs : imo.size = n) :
    ⦃fun o => ⌜o = false⌝⦄ step2 n nb zp zpmax true imo trace
    ⦃⇓ r o => ⌜o = false ∧ TR n r.2 r.1 icl ∧ r.1.size = n⌝⦄ := by
  have s1 := fun (zpmax : Int) (imo : Array Int) (jlN : Nat) (imd : Array Int) (trace : Array Flood.Step) =>
    @sweepPix_specT n nb zp zpmax imo jlN imd trace icl
  mvcgen [step2, s1]
  case inv1 => exact ⇓⟨_, imo', tr'⟩ o => ⌜o = false ∧ TR n tr' imo' icl ∧ imo'.size = n⌝
  case inv2 =>
    rename_i b _ _ _ _ _
    exact ⇓⟨_, tr', imd'⟩ o => ⌜o = false ∧ TR2 n tr' b.1 imd' icl ∧ imd'.size = n⌝
  all_goals vcr; vcp
  all_goals try rfl
  all_goals try vco
  all_goals try (simp [*]; done)
  case vc9 => grab hT' : TR; exact ⟨rfl, TR2.sweep hT', by assumption⟩
  case vc10 | vc11 => grab hT2 : TR2; exact ⟨rfl, hT2.done, by assumption⟩

theorem levelStep_specT {n : Nat} {nb imi ind : Array Int} (ihN : Nat) {imo imd iq : Array Int}
    {qs qe icl m : Int} (trace : Array Flood.Step) (hT : TR n trace imo icl)
    (hnb : NbOK n nb) (hind : IndOK n ind) (hi : imi.size = n) (hn : 2 ≤ n)
    (h : Idle n imo imd iq qs qe icl m) :
    ⦃fun o => ⌜o = false⌝⦄ levelStep n nb imi ind ihN true imo imd iq qs qe icl m trace
    ⦃⇓ r o => ⌜o = false ∧ TR n r.2.2.2.2.2.2.2.1 r.1 r.2.2.2.2.2.1 ∧ r.2.2.2.2.2.2.2.2 = false ∧
      Idle n r.1 r.2.1 r.2.2.1 r.2.2.2.1 r.2.2.2.2.1 r.2.2.2.2.2.1 r.2.2.2.2.2.2.1⌝⦄ := by
  have s1 := fun (ih : Int) (imo imd iq : Array Int) (qe m : Int) (trace : Array Flood.Step) =>
    @step1a_specT n nb imi ind ih imo imd iq qs qe m trace icl
  have s2 := fun (imo imd iq : Array Int) (qs qe : Int) (trace : Array Flood.Step) =>
    @step1b_specT n nb imo imd iq qs qe trace icl
  have s3 := @step1c_specT n nb imi ind
  mvcgen [levelStep, s1, s2, s3]
  all_goals vcp
  all_goals try rfl
  all_goals try vco
  all_goals try (simp [*]; done)
  case vc1 => exact hT.quiet _ rfl
  case vc5 => exact h.so
  case vc6 => exact h.sd
  case vc7 => exact h.q
  case vc8 => exact h.m0
  case vc9 => exact h.m1
  case vc15 => grab hT' : TR; exact hT'.quiet _ rfl
  case vc20 => exact ⟨by assumption, by assumption, h.m0, h.m1, h.icl0, by assumption⟩
  case vc22 =>
    grab hT' : TR
    exact ⟨rfl, hT'.quiet _ rfl, by simp [*], by assumption⟩

theorem ptFld_specT {n : Nat} {nb imi ind zp : Array Int} (ihmax : Nat) (iqFill : Int)
    (hnb : NbOK n nb) (hind : IndOK n ind) (hi : imi.size = n) (hz : zp.size = n) (hn : 2 ≤ n) :
    ⦃fun o => ⌜o = false⌝⦄ ptFld n nb imi ind zp ihmax iqFill true
    ⦃⇓ r o => ⌜o = false ∧ TR n r.trace r.imo r.npart ∧ r.imo.size = n⌝⦄ := by
  have s1 := @levelStep_specT n nb imi ind
  have s2 := @step2_specT n nb zp
  have s3 := @zpMax_spec n zp
  have h0 := Idle.init (show 1 ≤ n by omega) iqFill
  have hT0 := TR.init n
  mvcgen [ptFld, s1, s2, s3]
  case inv1 =>
    exact ⇓⟨_, imo', imd', iq', qs', qe', icl', trace', fo, m'⟩ o => ⌜o = false ∧ TR n trace' imo' icl' ∧
      Idle n imo' imd' iq' qs' qe' icl' m'⌝
  all_goals vcr; vcp
  all_goals try rfl
  all_goals try vco
  all_goals try (simp [*]; done)
  case vc17 => grab hI : Idle; exact hI.so

end WS.Fld

import WsVerif.Lemmas.Fld.Sim
import WsVerif.Lemmas.Fld.S1c
/-! Step 1a of `pt_fld` with the simulation relation: every `mark` event satisfies its guard, and the state handed
to step 1b (`R1a … n`) records which pixels were queued and why. -/
namespace WS.Fld
open Std.Do WS.SP WS.Flood
set_option mvcgen.warning false

/-- pigeonhole for lists of naturals -/
theorem pigeonN (n : Nat) (l : List Nat) (hn : l.Nodup) (h : ∀ x ∈ l, x < n) : l.length ≤ n := by
  have h2 : l ⊆ List.range n := fun x hx => List.mem_range.mpr (h x hx)
  have := hn.length_le_of_subset h2
  simpa using this

/-- cast of a list of pixels to the `int` entries of the queue -/
abbrev castL (l : List Nat) : List Int := l.map fun (x : Nat) => (x : Int)

theorem get_setN (a : Array Int) (i : Int) (v : Int) (h0 : 0 ≤ i) (hi : i.toNat < a.size) (p : Nat) :
    (a.set! i.toNat v)[p]! = if p = i.toNat then v else a[p]! := by
  rw [get_set]
  by_cases h : p = i.toNat
  · rw [if_pos ⟨h, hi⟩, if_pos h]
  · rw [if_neg (fun hh => h hh.1), if_neg h]

/-! ### the part of the relation shared by all phases of level `ih` -/

structure Base (n : Nat) (g : Graph) (s : St) (imo : Array Int) (icl : Int) (ih : Nat) : Prop where
  so : imo.size = n
  lab : s.lab = imo.map labC
  fsz : s.fin.size = n
  K : s.K = icl.toNat
  icl0 : 0 ≤ icl
  lo : ∀ p, p < n → -2 ≤ imo[p]!
  h : s.h = ih
  old : ∀ p, p < n → g.level p < ih → s.finOf p = true ∧ 0 ≤ imo[p]!
  new : ∀ p, p < n → ih < g.level p → s.finOf p = false ∧ imo[p]! = -1

theorem Base.labOf {n : Nat} {g : Graph} {s : St} {imo : Array Int} {icl : Int} {ih : Nat} (b : Base n g s imo icl ih)
    {p : Nat} (hp : p < n) : s.labOf p = labC imo[p]! :=
  labOf_map b.lab (by rw [b.so]; exact hp)

/-- state between two levels -/
structure RIdle (n : Nat) (ind : Array Int) (g : Graph) (s : St) (imo imd : Array Int) (icl : Int) (ih : Nat) (m : Int) :
    Prop where
  base : Base n g s imo icl ih
  sd : imd.size = n
  ph : s.phase = .idle
  cur : ∀ p, p < n → g.level p = ih → s.finOf p = false ∧ imo[p]! = -1
  imd0 : ∀ p, p < n → imd[p]! = 0
  mi : MInv n ind g ih m

/-- step 1a at cursor `m`, queue `q` -/
structure R1a (n : Nat) (ind : Array Int) (g : Graph) (s : St) (q : List Nat) (imo imd : Array Int) (icl : Int) (ih : Nat)
    (m : Int) : Prop where
  base : Base n g s imo icl ih
  sd : imd.size = n
  ph : s.phase = .opn
  nf : ∀ p, p < n → g.level p = ih → s.finOf p = false
  lvl : ∀ k : Nat, k < n → g.level (ind[k]!).toNat = ih →
    ((k : Int) < m → imo[(ind[k]!).toNat]! = -2 ∧ (ind[k]!).toNat ∈ s.cur) ∧ (m ≤ (k : Int) → imo[(ind[k]!).toNat]! = -1)
  cur : ∀ x ∈ s.cur, x < n ∧ g.level x = ih
  qnd : q.Nodup
  qlv : ∀ x ∈ q, x < n ∧ g.level x = ih ∧ imo[x]! = -2 ∧ imd[x]! = 1 ∧ ∃ y ∈ g.adj x, g.level y < ih
  imd0 : ∀ p, p < n → p ∉ q → imd[p]! = 0
  compl : ∀ p, p < n → imo[p]! = -2 → p ∉ q → ∀ y ∈ g.adj p, ih ≤ g.level y

section
variable {n : Nat} {nb imi ind : Array Int} {g : Graph}

/-- the queue of 1a leaves a slot for the fictitious pixel -/
theorem R1a.qlen (C : Ctx n nb imi ind g) {s : St} {q : List Nat} {imo imd : Array Int} {icl : Int} {ih : Nat} {m : Int}
    (h : R1a n ind g s q imo imd icl ih m) (hn : 1 ≤ n) : q.length + 1 ≤ n := by
  cases hq : q with
  | nil => simpa using hn
  | cons x t =>
    have hx := h.qlv x (by rw [hq]; simp)
    obtain ⟨y, hy, hly⟩ := hx.2.2.2.2
    have hyn := C.adj_lt hx.1 hy
    have hnot : y ∉ q := fun hm => by have := (h.qlv y hm).2.1; omega
    have := pigeonN n (y :: q) (List.nodup_cons.mpr ⟨hnot, h.qnd⟩) (by
      intro z hz
      rcases List.mem_cons.mp hz with rfl | hz
      · exact hyn
      · exact (h.qlv z hz).1)
    rw [hq] at this
    simpa using this

/-- level-`ih` pixels carry `-2` or `-1` during 1a -/
theorem R1a.lv_neg (C : Ctx n nb imi ind g) {s : St} {q : List Nat} {imo imd : Array Int} {icl : Int} {ih : Nat} {m : Int}
    (h : R1a n ind g s q imo imd icl ih m) {p : Nat} (hp : p < n) (hl : g.level p = ih) : imo[p]! < 0 := by
  obtain ⟨k, hk, he⟩ := C.ind_surj hp
  have := h.lvl k hk (by rw [he, Int.toNat_natCast]; exact hl)
  rw [he, Int.toNat_natCast] at this
  by_cases hkm : (k : Int) < m
  · have := (this.1 hkm).1; omega
  · have := this.2 (by omega); omega

/-- labelled pixels during 1a are those of the lower levels -/
theorem R1a.lab_old (C : Ctx n nb imi ind g) {s : St} {q : List Nat} {imo imd : Array Int} {icl : Int} {ih : Nat} {m : Int}
    (h : R1a n ind g s q imo imd icl ih m) {p : Nat} (hp : p < n) (hl : 0 ≤ imo[p]!) : g.level p < ih := by
  rcases Nat.lt_trichotomy (g.level p) ih with h1 | h1 | h1
  · exact h1
  · have := h.lv_neg C hp h1; omega
  · have := (h.base.new p hp h1).2; omega

theorem step_level {g : Graph} {s : St} {h : Nat} (hp : s.phase = .idle) (hh : h = s.h) :
    step g s (.level h) = some { s with phase := .opn, cur := [] } := by
  simp [step, hp, hh]

theorem step_mark {g : Graph} {s : St} {p : Nat} (hp : s.phase = .opn) (hn : p < g.n) (hl : s.labOf p = .init)
    (hh : g.level p = s.h) :
    step g s (.mark p) = some { s with lab := s.lab.setIfInBounds p .mask, cur := p :: s.cur } := by
  simp [step, hp, hn, hl, hh]

theorem get_setP (a : Array Int) (p j : Nat) (v : Int) (hp : p < a.size) :
    (a.set! p v)[j]! = if j = p then v else a[j]! := by
  rw [get_set]
  by_cases h : j = p
  · rw [if_pos ⟨h, hp⟩, if_pos h]
  · rw [if_neg (fun hh => h hh.1), if_neg h]

theorem Ctx.ind_lt (C : Ctx n nb imi ind g) {k : Nat} (hk : k < n) : (ind[k]!).toNat < n ∧ 0 ≤ ind[k]! := by
  have := C.indok.rng k hk
  simp only [Pix] at this; omega

theorem Ctx.ind_inj (C : Ctx n nb imi ind g) {j k : Nat} (hj : j < n) (hk : k < n)
    (h : (ind[j]!).toNat = (ind[k]!).toNat) : j = k := by
  have h1 := C.ind_lt hj; have h2 := C.ind_lt hk
  exact C.indok.inj j k hj hk (by omega)

/-- `level` event: idle → 1a -/
theorem RIdle.open (C : Ctx n nb imi ind g) {s : St} {imo imd : Array Int} {icl : Int} {ih : Nat} {m : Int}
    (h : RIdle n ind g s imo imd icl ih m) :
    step g s (.level ih) = some { s with phase := .opn, cur := [] } ∧
    R1a n ind g { s with phase := .opn, cur := [] } [] imo imd icl ih m := by
  refine ⟨step_level h.ph h.base.h.symm, ?_⟩
  refine ⟨⟨h.base.so, h.base.lab, h.base.fsz, h.base.K, h.base.icl0, h.base.lo, h.base.h, h.base.old, h.base.new⟩,
    h.sd, rfl, fun p hp hl => (h.cur p hp hl).1, ?_, by simp, List.nodup_nil, by simp, fun p hp _ => h.imd0 p hp, ?_⟩
  · intro k hk hl
    refine ⟨fun hkm => ?_, fun _ => (h.cur _ (C.ind_lt hk).1 hl).2⟩
    have := h.mi.lt k hk hkm; omega
  · intro p hp hm
    exfalso
    rcases Nat.lt_trichotomy (g.level p) ih with h1 | h1 | h1
    · have := (h.base.old p hp h1).2; omega
    · have := (h.cur p hp h1).2; omega
    · have := (h.base.new p hp h1).2; omega

/-- `mark` event, pixel not queued -/
theorem R1a.mark (C : Ctx n nb imi ind g) {s : St} {q : List Nat} {imo imd : Array Int} {icl : Int} {ih : Nat} {m : Int}
    (h : R1a n ind g s q imo imd icl ih m) (hP : Pos n ind g ih m) (hl : g.level (ind[m.toNat]!).toNat = ih) :
    let p := (ind[m.toNat]!).toNat
    let s' : St := { s with lab := s.lab.setIfInBounds p .mask, cur := p :: s.cur }
    let imo' := imo.set! p (-2)
    step g s (.mark p) = some s' ∧
    ((∀ y ∈ g.adj p, imo'[y]! < 0) → R1a n ind g s' q imo' imd icl ih (m + 1)) ∧
    ((∃ y ∈ g.adj p, 0 ≤ imo'[y]!) → R1a n ind g s' (q ++ [p]) imo' (imd.set! p 1) icl ih (m + 1)) := by
  intro p s' imo'
  have hm0 := hP.m0; have hm1 := hP.m1
  have hmn : m.toNat < n := by omega
  have hp : p < n := (C.ind_lt hmn).1
  have hl : g.level p = ih := hl
  have hps : p < imo.size := by rw [h.base.so]; exact hp
  have hpd : p < imd.size := by rw [h.sd]; exact hp
  have hget : ∀ j, imo'[j]! = if j = p then -2 else imo[j]! := fun j => get_setP imo p j (-2) hps
  have hpm1 : imo[p]! = -1 := (h.lvl m.toNat hmn hl).2 (by omega)
  have hfin : ∀ x, s'.finOf x = s.finOf x := fun _ => rfl
  have hb : Base n g s' imo' icl ih := by
    refine ⟨by simp [imo', h.base.so], ?_, h.base.fsz, h.base.K, h.base.icl0, ?_, h.base.h, ?_, ?_⟩
    · show s.lab.setIfInBounds p .mask = _
      rw [h.base.lab, map_set]; rfl
    · intro x hx; rw [hget]; split
      · omega
      · exact h.base.lo x hx
    · intro x hx hlx
      have hne : x ≠ p := fun e => by rw [e] at hlx; omega
      rw [hget, if_neg hne, hfin]; exact h.base.old x hx hlx
    · intro x hx hlx
      have hne : x ≠ p := fun e => by rw [e] at hlx; omega
      rw [hget, if_neg hne, hfin]; exact h.base.new x hx hlx
  have hlvl : ∀ k : Nat, k < n → g.level (ind[k]!).toNat = ih →
      ((k : Int) < m + 1 → imo'[(ind[k]!).toNat]! = -2 ∧ (ind[k]!).toNat ∈ s'.cur) ∧
      (m + 1 ≤ (k : Int) → imo'[(ind[k]!).toNat]! = -1) := by
    intro k hk hlk
    refine ⟨fun hkm => ?_, fun hkm => ?_⟩
    · by_cases hkm' : (k : Int) < m
      · have := (h.lvl k hk hlk).1 hkm'
        refine ⟨?_, List.mem_cons_of_mem _ this.2⟩
        rw [hget]; split
        · rfl
        · exact this.1
      · have : k = m.toNat := by omega
        subst this
        exact ⟨by rw [hget, if_pos rfl], List.mem_cons_self⟩
    · have hne : (ind[k]!).toNat ≠ p := fun e => by
        have := C.ind_inj hk hmn e; omega
      rw [hget, if_neg hne]
      exact (h.lvl k hk hlk).2 (by omega)
  have hcur : ∀ x ∈ s'.cur, x < n ∧ g.level x = ih := by
    intro x hx
    rcases List.mem_cons.mp hx with rfl | hx
    · exact ⟨hp, hl⟩
    · exact h.cur x hx
  have hpq : p ∉ q := fun hm => by have := (h.qlv p hm).2.2.1; omega
  refine ⟨step_mark h.ph (by rw [C.gn]; exact hp) (by rw [h.base.labOf hp, hpm1]; rfl) (by rw [h.base.h]; exact hl),
    fun hnf => ?_, fun hf => ?_⟩
  · refine ⟨hb, h.sd, h.ph, fun x hx hlx => h.nf x hx hlx, hlvl, hcur, h.qnd, ?_, h.imd0, ?_⟩
    · intro x hx
      obtain ⟨a, b, c, d, e⟩ := h.qlv x hx
      refine ⟨a, b, ?_, d, e⟩
      rw [hget]; split
      · rfl
      · exact c
    · intro x hx hxm hxq y hy
      by_cases hxp : x = p
      · rw [hxp] at hy
        have hyn := C.adj_lt hp hy
        apply Classical.byContradiction
        intro hlt
        have hlt : g.level y < ih := by omega
        have hne : y ≠ p := fun e => by rw [e] at hlt; omega
        have := hnf y hy
        rw [hget, if_neg hne] at this
        have := (h.base.old y hyn hlt).2
        omega
      · rw [hget, if_neg hxp] at hxm
        exact h.compl x hx hxm hxq y hy
  · obtain ⟨y, hy, hly⟩ := hf
    have hyn := C.adj_lt hp hy
    have hyp : y ≠ p := fun e => by rw [e, hget, if_pos rfl] at hly; omega
    rw [hget, if_neg hyp] at hly
    have hylv := h.lab_old C hyn hly
    have hgd : ∀ j, (imd.set! p 1)[j]! = if j = p then 1 else imd[j]! := fun j => get_setP imd p j 1 hpd
    refine ⟨hb, by simp [h.sd], h.ph, fun x hx hlx => h.nf x hx hlx, hlvl, hcur, ?_, ?_, ?_, ?_⟩
    · rw [List.nodup_append]
      exact ⟨h.qnd, by simp, by intro a ha b hb'; simp at hb'; subst hb'; exact fun e => hpq (e ▸ ha)⟩
    · intro x hx
      rcases List.mem_append.mp hx with hx | hx
      · obtain ⟨a, b, c, d, e⟩ := h.qlv x hx
        have hne : x ≠ p := fun e => hpq (e ▸ hx)
        exact ⟨a, b, by rw [hget, if_neg hne]; exact c, by rw [hgd, if_neg hne]; exact d, e⟩
      · simp at hx; subst hx
        exact ⟨hp, hl, by rw [hget, if_pos rfl], by rw [hgd, if_pos rfl], y, hy, hylv⟩
    · intro x hx hxq
      have hne : x ≠ p := fun e => hxq (by simp [e])
      rw [hgd, if_neg hne]
      exact h.imd0 x hx (fun hm => hxq (by simp [hm]))
    · intro x hx hxm hxq
      have hne : x ≠ p := fun e => hxq (by simp [e])
      rw [hget, if_neg hne] at hxm
      exact h.compl x hx hxm (fun hm => hxq (by simp [hm]))

/-- the loop leaves because `ind[m]` is of another level: all pixels of the level are marked -/
theorem R1a.exit_ne (C : Ctx n nb imi ind g) {s : St} {q : List Nat} {imo imd : Array Int} {icl : Int} {ih : Nat} {m : Int}
    (h : R1a n ind g s q imo imd icl ih m) (hP : Pos n ind g ih m) (hl : g.level (ind[m.toNat]!).toNat ≠ ih) :
    R1a n ind g s q imo imd icl ih n := by
  refine ⟨h.base, h.sd, h.ph, h.nf, ?_, h.cur, h.qnd, h.qlv, h.imd0, h.compl⟩
  intro k hk hlk
  have := hP.exit_ne C hl hk hlk
  exact ⟨fun _ => (h.lvl k hk hlk).1 this, fun hh => by omega⟩
end

/-! ### Hoare triples -/

section
variable {n : Nat} {nb imi ind : Array Int} {g : Graph}

theorem Ctx.lev_eq (C : Ctx n nb imi ind g) {p : Nat} (hp : p < n) (ih : Nat) :
    imi[p]! = (ih : Int) ↔ g.level p = ih := by
  have := C.lev p hp; omega

/-- 1.a neighbour scan: `found` iff some neighbour is labelled -/
theorem scan1a_specG (C : Ctx n nb imi ind g) {imo : Array Int} {ip : Int} (hs : imo.size = n) (hp : Pix n ip) :
    ⦃fun o => ⌜o = false⌝⦄ scan1a nb imo ip
    ⦃⇓ r o => ⌜o = false ∧ (r = true → ∃ y ∈ g.adj ip.toNat, 0 ≤ imo[y]!) ∧
      (r = false → ∀ y ∈ g.adj ip.toNat, imo[y]! < 0)⌝⦄ := by
  have hnb := C.nbok
  have s1 := nbCnt_spec hnb
  have s2 := nbAt_spec hnb
  mvcgen [scan1a, s1, s2]
  case inv1 =>
    exact ⇓⟨xs, found⟩ o => ⌜o = false ∧ (found = true → ∃ y ∈ g.adj ip.toNat, 0 ≤ imo[y]!) ∧
      (found = false → ∀ j : Nat, j < xs.prefix.length → imo[(nb[((j : Int) + 9 * ip).toNat]!).toNat]! < 0)⌝
  all_goals vcr; vcc
  all_goals try vco
  all_goals try (simp_all; done)
  case vc9.step.post.success.post.success.isTrue =>
    rename_i pref suff b h1 h2 c0 c8 hrg hlt hpx hor
    simp at hor
    exact ⟨rfl, fun _ => ⟨_, C.adj_mem ip hp pref.length (by omega), by omega⟩, fun h => by simp at h⟩
  case vc10.step.post.success.post.success.isFalse =>
    rename_i pref suff b h1 h2 c0 c8 hrg hlt hpx hor
    simp at hor
    refine ⟨rfl, h1, fun hb j hj => ?_⟩
    simp only [List.length_append, List.length_cons, List.length_nil] at hj
    by_cases hj' : j < pref.length
    · exact h2 hb j hj'
    · have : j = pref.length := by omega
      subst this; omega
  case vc12.post.success.post.success =>
    rename_i r h1 h2 c0 c8
    refine ⟨rfl, h1, fun hb y hy => ?_⟩
    obtain ⟨i, hi, he⟩ := C.adj_cov ip hp y hy
    have := h2 hb i (by simp [Std.Legacy.Range.toList]; omega)
    rw [he, Int.toNat_natCast] at this
    exact this

/-- step 1a with the simulation relation, loop-head form -/
def G1a (n : Nat) (ind : Array Int) (g : Graph) (trace : Array Step) (imo imd iq : Array Int) (qs qe icl : Int)
    (ih : Nat) (m : Int) : Prop :=
  ∃ s q, run g trace.toList = some s ∧ QRep n iq qs qe (castL q) ∧ R1a n ind g s q imo imd icl ih m

theorem G1a.qe_ok {trace : Array Step} {imo imd iq : Array Int} {qs qe icl : Int} {ih : Nat} {m : Int}
    (h : G1a n ind g trace imo imd iq qs qe icl ih m) : 0 ≤ qe ∧ qe.toNat < iq.size := by
  obtain ⟨s, q, -, hq, -⟩ := h
  have := hq.qe_range; omega

theorem G1a.sizes {trace : Array Step} {imo imd iq : Array Int} {qs qe icl : Int} {ih : Nat} {m : Int}
    (h : G1a n ind g trace imo imd iq qs qe icl ih m) : imo.size = n ∧ imd.size = n := by
  obtain ⟨s, q, -, -, hr⟩ := h
  exact ⟨hr.base.so, hr.sd⟩

theorem G1a.step_no (C : Ctx n nb imi ind g) {trace : Array Step} {imo imd iq : Array Int} {qs qe icl : Int} {ih : Nat}
    {m : Int} (h : G1a n ind g trace imo imd iq qs qe icl ih m) (hP : Pos n ind g ih m)
    (hl : ¬(imi[(ind[m.toNat]!).toNat]! != (ih : Int)) = true)
    (hnf : ∀ y ∈ g.adj (ind[m.toNat]!).toNat, (imo.set! (ind[m.toNat]!).toNat (-2))[y]! < 0) :
    G1a n ind g (pushIf true trace (.mark (ind[m.toNat]!).toNat)) (imo.set! (ind[m.toNat]!).toNat (-2)) imd iq qs qe icl
      ih (m + 1) := by
  obtain ⟨s, q, hr, hq, hR⟩ := h
  have hm0 := hP.m0; have hm1 := hP.m1
  have hl' : g.level (ind[m.toNat]!).toNat = ih :=
    (C.lev_eq (C.ind_lt (show m.toNat < n by omega)).1 ih).mp (by simpa using hl)
  obtain ⟨h1, h2, -⟩ := hR.mark C hP hl'
  exact ⟨_, q, run_push hr h1, hq, h2 hnf⟩

theorem G1a.step_add (C : Ctx n nb imi ind g) {trace : Array Step} {imo imd iq : Array Int} {qs qe icl : Int} {ih : Nat}
    {m : Int} (h : G1a n ind g trace imo imd iq qs qe icl ih m) (hP : Pos n ind g ih m)
    (hl : ¬(imi[(ind[m.toNat]!).toNat]! != (ih : Int)) = true)
    (hf : ∃ y ∈ g.adj (ind[m.toNat]!).toNat, 0 ≤ (imo.set! (ind[m.toNat]!).toNat (-2))[y]!) :
    G1a n ind g (pushIf true trace (.mark (ind[m.toNat]!).toNat)) (imo.set! (ind[m.toNat]!).toNat (-2))
      (imd.set! (ind[m.toNat]!).toNat 1) (iq.set! qe.toNat ind[m.toNat]!) qs (fifoNextEnd n qe) icl ih (m + 1) := by
  obtain ⟨s, q, hr, hq, hR⟩ := h
  have hm0 := hP.m0; have hm1 := hP.m1
  have hpl := C.ind_lt (show m.toNat < n by omega)
  have hl' : g.level (ind[m.toNat]!).toNat = ih := (C.lev_eq hpl.1 ih).mp (by simpa using hl)
  obtain ⟨h1, -, h3⟩ := hR.mark C hP hl'
  have hlen := hR.qlen C (by omega)
  refine ⟨_, _, run_push hr h1, ?_, h3 hf⟩
  have := hq.add (by simp; omega) ind[m.toNat]!
  simpa [castL, Int.toNat_of_nonneg hpl.2] using this

theorem G1a.exit_ne (C : Ctx n nb imi ind g) {trace : Array Step} {imo imd iq : Array Int} {qs qe icl : Int} {ih : Nat}
    {m : Int} (h : G1a n ind g trace imo imd iq qs qe icl ih m) (hP : Pos n ind g ih m)
    (hl : (imi[(ind[m.toNat]!).toNat]! != (ih : Int)) = true) :
    G1a n ind g trace imo imd iq qs qe icl ih n := by
  obtain ⟨s, q, hr, hq, hR⟩ := h
  have hm0 := hP.m0; have hm1 := hP.m1
  have hpl := C.ind_lt (show m.toNat < n by omega)
  have hl' : g.level (ind[m.toNat]!).toNat ≠ ih := fun e => by
    have := (C.lev_eq hpl.1 ih).mpr e; simp [this] at hl
  exact ⟨s, q, hr, hq, hR.exit_ne C hP hl'⟩

theorem G1a.last {trace : Array Step} {imo imd iq : Array Int} {qs qe icl : Int} {ih : Nat}
    {m : Int} (h : G1a n ind g trace imo imd iq qs qe icl ih (m + 1)) (h1 : m < n) (h2 : m > (n : Int) - 2) :
    G1a n ind g trace imo imd iq qs qe icl ih n := by
  have : m + 1 = n := by omega
  rwa [this] at h

theorem Pos.step' (C : Ctx n nb imi ind g) {ih : Nat} {m : Int} (h : Pos n ind g ih m)
    (hl : ¬(imi[(ind[m.toNat]!).toNat]! != (ih : Int)) = true) (hm : ¬ m > (n : Int) - 2) : Pos n ind g ih (m + 1) := by
  have hm0 := h.m0; have hm1 := h.m1
  have hpl := C.ind_lt (show m.toNat < n by omega)
  exact h.step C ((C.lev_eq hpl.1 ih).mp (by simpa using hl)) hm

theorem step1a_specG (C : Ctx n nb imi ind g) (ihN : Nat) {imo imd iq : Array Int} {qs qe m icl : Int}
    (trace : Array Step) (hn : 2 ≤ n) (hP : Pos n ind g ihN m) (h : G1a n ind g trace imo imd iq qs qe icl ihN m) :
    ⦃fun o => ⌜o = false⌝⦄ step1a n nb imi ind (ihN : Int) true imo imd iq qe m trace
    ⦃⇓ r o => ⌜o = false ∧ r.2.2.2.2.2.2 = true ∧
      G1a n ind g r.2.2.2.2.2.1 r.1 r.2.1 r.2.2.1 qs r.2.2.2.1 icl ihN n⌝⦄ := by
  have hind := C.indok
  have hi := C.isz
  have s1 := indAt_spec hind
  have s2 := @scan1a_specG n nb imi ind g C
  mvcgen [step1a, s1, s2, fifoAdd_spec]
  case inv1 =>
    exact ⇓⟨xs, imo', imd', iq', qe', m', tr', brk⟩ o => ⌜o = false ∧ imo'.size = n ∧ imd'.size = n ∧
      ((brk = false ∧ m' = m + xs.prefix.length ∧ Pos n ind g ihN m' ∧ G1a n ind g tr' imo' imd' iq' qs qe' icl ihN m') ∨
       (brk = true ∧ xs.suffix = [] ∧ G1a n ind g tr' imo' imd' iq' qs qe' icl ihN n))⌝
  all_goals vcr; vcp
  all_goals try (grab hor : Or; rcases hor with ⟨hb, hm, hP', hQ⟩ | ⟨hb, hnil, hQ⟩ <;> try (simp at hnil; done))
  all_goals try rfl
  all_goals try (have hqe := hQ.qe_ok; have hm0' := hP'.m0; have hm1' := hP'.m1)
  all_goals try vco
  all_goals try (simp [*]; done)
  case vc7.step.post.success.post.success.isTrue.inl =>
    exact ⟨rfl, by assumption, by assumption, Or.inr ⟨by trivial, by trivial, hQ.exit_ne C hP' (by assumption)⟩⟩
  case vc20.step.post.success.post.success.isFalse.post.success.post.success.isTrue.post.success.post.success.isTrue.inl =>
    refine ⟨rfl, by simp [*], by simp [*], Or.inr ⟨by trivial, by trivial, ?_⟩⟩
    exact (hQ.step_add C hP' (by assumption) (‹true = true → _› rfl)).last hm1' (by assumption)
  case vc21.step.post.success.post.success.isFalse.post.success.post.success.isTrue.post.success.post.success.isFalse.inl =>
    refine ⟨rfl, by simp [*], by simp [*], Or.inl ⟨hb, by simp; omega, hP'.step' C (by assumption) (by assumption), ?_⟩⟩
    exact hQ.step_add C hP' (by assumption) (‹true = true → _› rfl)
  case vc22.step.post.success.post.success.isFalse.post.success.post.success.isFalse.isTrue.inl =>
    refine ⟨rfl, by simp [*], by assumption, Or.inr ⟨by trivial, by trivial, ?_⟩⟩
    exact (hQ.step_no C hP' (by assumption) (‹_ = false → _› ((Bool.not_eq_true _).mp (by assumption)))).last hm1' (by assumption)
  case vc23.step.post.success.post.success.isFalse.post.success.post.success.isFalse.isFalse.inl =>
    refine ⟨rfl, by simp [*], by assumption, Or.inl ⟨hb, by simp; omega, hP'.step' C (by assumption) (by assumption), ?_⟩⟩
    exact hQ.step_no C hP' (by assumption) (‹_ = false → _› ((Bool.not_eq_true _).mp (by assumption)))
  case vc24.pre =>
    exact ⟨rfl, h.sizes.1, h.sizes.2, Or.inl ⟨by trivial, by simp, hP, h⟩⟩
  case vc25.post.success.inl =>
    have := hP.m0
    simp [Std.Legacy.Range.toList] at hm; omega
end

end WS.Fld

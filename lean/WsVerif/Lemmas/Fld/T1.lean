import WsVerif.Lemmas.Fld.S1a
import WsVerif.Lemmas.Fld.S1b
import WsVerif.Lemmas.Fld.S1c
import WsVerif.Lemmas.Fld.Eff
/-! Step 1 of `pt_fld` again, now carrying the relation `TR` (label effect of the ghost trace = concrete `imo`)
next to the safety invariants; the proofs repeat those of `Fld/S1a`, `Fld/S1b`, `Fld/S1c` with one more conjunct. -/
namespace WS.Fld
open Std.Do WS.SP
set_option mvcgen.warning false


theorem step1a_specT {n : Nat} {nb imi ind : Array Int} (ih : Int) {imo imd iq : Array Int} {qs qe m : Int}
    (trace : Array Flood.Step) (icl : Int) (hT : TR n trace imo icl)
    (hnb : NbOK n nb) (hind : IndOK n ind) (hi : imi.size = n) (hs : imo.size = n) (hd : imd.size = n)
    (hq : QRep n iq qs qe []) (hm0 : 0 ≤ m) (hm1 : m < n) :
    ⦃fun o => ⌜o = false⌝⦄ step1a n nb imi ind ih true imo imd iq qe m trace
    ⦃⇓ r o => ⌜o = false ∧ TR n r.2.2.2.2.2.1 r.1 icl ∧ r.2.2.2.2.2.2 = true ∧ Post1a n r.1 r.2.1 r.2.2.1 qs r.2.2.2.1⌝⦄ := by
  have s1 := indAt_spec hind
  have s2 := @scan1a_spec n nb
  mvcgen [step1a, s1, s2, fifoAdd_spec]
  case inv1 =>
    exact ⇓⟨xs, imo', imd', iq', qe', m', tr', brk⟩ o => ⌜o = false ∧ TR n tr' imo' icl ∧ imo'.size = n ∧ imd'.size = n ∧ 0 ≤ m' ∧ m' < n ∧
      ((brk = false ∧ m' = m + xs.prefix.length ∧ Q1a n ind m m' imo' imd' iq' qs qe') ∨
       (brk = true ∧ xs.suffix = [] ∧ Q1a n ind m (m' + 1) imo' imd' iq' qs qe'))⌝
  all_goals vcr; vcp
  all_goals try (grab hor : Or; rcases hor with ⟨hb, hm, hQ⟩ | ⟨hb, hnil, hQ⟩ <;> try (simp at hnil; done))
  all_goals try rfl
  all_goals try (grab hT' : TR)
  all_goals try (have hqe := hQ.qe_ok)
  all_goals try vco
  all_goals try (simp [*]; done)
  case vc7.step.post.success.post.success.isTrue =>
    exact ⟨rfl, hT', by assumption, by assumption, by omega, by omega, Or.inr ⟨by trivial, by trivial, hQ.mono (by omega)⟩⟩
  case vc21.step.post.success.post.success.isFalse.post.success.post.success.isTrue.post.success.post.success.isTrue =>
    refine ⟨rfl, hT'.mark _, by simp [*], by simp [*], by omega, by omega, Or.inr ⟨by trivial, by trivial, ?_⟩⟩
    exact hQ.add hind hm0 (by omega) (by omega) (by assumption) (by assumption) (‹true = true → _› rfl)
  case vc22.step.post.success.post.success.isFalse.post.success.post.success.isTrue.post.success.post.success.isFalse =>
    refine ⟨rfl, hT'.mark _, by simp [*], by simp [*], by omega, by omega, Or.inl ⟨hb, by simp; omega, ?_⟩⟩
    exact hQ.add hind hm0 (by omega) (by omega) (by assumption) (by assumption) (‹true = true → _› rfl)
  case vc23.step.post.success.post.success.isFalse.post.success.post.success.isFalse.isTrue =>
    refine ⟨rfl, hT'.mark _, by simp [*], by assumption, by omega, by omega, Or.inr ⟨by trivial, by trivial, ?_⟩⟩
    exact hQ.mark hind hm0 (by omega) (by omega) (by assumption)
  case vc24.step.post.success.post.success.isFalse.post.success.post.success.isFalse.isFalse =>
    refine ⟨rfl, hT'.mark _, by simp [*], by assumption, by omega, by omega, Or.inl ⟨hb, by simp; omega, ?_⟩⟩
    exact hQ.mark hind hm0 (by omega) (by omega) (by assumption)
  case vc25.pre =>
    exact ⟨rfl, hT', hs, hd, hm0, hm1, Or.inl ⟨by trivial, by simp, Q1a.init hq⟩⟩
  case vc26.post.success.inl =>
    simp [Std.Legacy.Range.toList] at hm; omega
  case vc26.post.success.inr =>
    exact ⟨rfl, hT', hb, hQ.post (by assumption) (by assumption)⟩




theorem nbr1b_specT {n : Nat} {nb : Array Int} {ip dist : Int} {imo imd iq : Array Int} {qs qe : Int}
    (trace : Array Flood.Step) (icl : Int) (k : Nat) (hT : TR n trace imo icl)
    (hnb : NbOK n nb) (hs : imo.size = n) (hd : imd.size = n) (hdist : dist + 1 ≠ 0)
    (h : Q1bMid n imo imd iq qs qe k ip) :
    ⦃fun o => ⌜o = false⌝⦄ nbr1b n nb true ip dist imo imd iq qe trace
    ⦃⇓ r o => ⌜o = false ∧ TR n r.2.2.2.2 r.1 icl ∧ r.1.size = n ∧ r.2.1.size = n ∧ Q1bMid n r.1 r.2.1 r.2.2.1 qs r.2.2.2.1 k ip⌝⦄ := by
  have s1 := nbCnt_spec hnb
  have s2 := nbAt_spec hnb
  have hip := h.ip_pix
  mvcgen [nbr1b, s1, s2, fifoAdd_spec]
  case inv1 =>
    exact ⇓⟨_, imo', imd', iq', qe', tr'⟩ o => ⌜o = false ∧ TR n tr' imo' icl ∧ imo'.size = n ∧ imd'.size = n ∧
      Q1bMid n imo' imd' iq' qs qe' k ip⌝
  all_goals vcr; vcp
  all_goals try rfl
  all_goals try (grab hQ : Q1bMid; have hqe := hQ.qe_ok)
  all_goals try (grab hT' : TR)
  all_goals try vco
  all_goals try (simp [*]; done)
  case vc18 =>
    exact ⟨rfl, hT'.relabel ‹WS.SP.relabel _ _ = some _› _ _ (by simp only [Pix] at *; omega) rfl, by simp [*], by assumption,
      hQ.relabel (by assumption) _⟩
  case vc26 =>
    have hc := ‹(_ && _) = true›
    simp only [Bool.and_eq_true, beq_iff_eq] at hc
    exact ⟨rfl, hT', by assumption, by simp [*], hQ.add (by assumption) (by assumption) hc.1 hc.2 hdist⟩

/-- ghost-free form of `nbr1b_spec` -/
theorem nbr1b_specT' {n : Nat} {nb : Array Int} {ip dist : Int} {imo imd iq : Array Int} {qs qe : Int}
    (trace : Array Flood.Step) (icl : Int) (hT : TR n trace imo icl)
    (hnb : NbOK n nb) (hs : imo.size = n) (hd : imd.size = n) (hdist : dist + 1 ≠ 0)
    (hex : ∃ k, Q1bMid n imo imd iq qs qe k ip) :
    ⦃fun o => ⌜o = false⌝⦄ nbr1b n nb true ip dist imo imd iq qe trace
    ⦃⇓ r o => ⌜o = false ∧ ∀ k, Q1bMid n imo imd iq qs qe k ip →
      TR n r.2.2.2.2 r.1 icl ∧ r.1.size = n ∧ r.2.1.size = n ∧ Q1bMid n r.1 r.2.1 r.2.2.1 qs r.2.2.2.1 k ip⌝⦄ :=
  triple_forall _ _ _ (fun k h => nbr1b_specT trace icl k hT hnb hs hd hdist h) hex

theorem step1b_specT {n : Nat} {nb : Array Int} {imo imd iq : Array Int} {qs qe : Int}
    (trace : Array Flood.Step) (icl : Int) (hT : TR n trace imo icl) (hnb : NbOK n nb) (h : Post1a n imo imd iq qs qe) :
    ⦃fun o => ⌜o = false⌝⦄ step1b n nb true imo imd iq qs qe trace
    ⦃⇓ r o => ⌜o = false ∧ TR n r.2.2.2.2.2.1 r.1 icl ∧ r.2.2.2.2.2.2 = true ∧ r.1.size = n ∧ r.2.1.size = n ∧
      QRep n r.2.2.1 r.2.2.2.1 r.2.2.2.2.1 []⌝⦄ := by
  have s1 := fun (ip dist : Int) (imo imd iq : Array Int) (qs qe : Int) (trace : Array Flood.Step) =>
    @nbr1b_specT' n nb ip dist imo imd iq qs qe trace icl
  have hinit := Q1b.init h
  have hs := h.1
  have hd := h.2.1
  mvcgen [step1b, s1, fifoAdd_spec, fifoFirst_spec]
  case inv1 =>
    exact ⇓⟨xs, imo', imd', iq', qs', qe', tr', dist, brk⟩ o => ⌜o = false ∧ TR n tr' imo' icl ∧ imo'.size = n ∧ imd'.size = n ∧
      ((brk = false ∧ 1 ≤ dist ∧ Q1b n imo' imd' iq' qs' qe' xs.prefix.length) ∨
       (brk = true ∧ xs.suffix = [] ∧ QRep n iq' qs' qe' []))⌝
  all_goals vcr; vcp
  all_goals try (grab hor : Or; rcases hor with ⟨hb, hdist, hQ⟩ | ⟨hb, hnil, hq'⟩ <;> try (simp at hnil; done))
  all_goals try rfl
  all_goals try (have hqs := hQ.qs_ok)
  all_goals try (grab hT' : TR)
  all_goals try vco
  all_goals try (simp [*]; done)
  case vc7 =>
    have he := ‹(_ == (-100:Int)) = true›; simp only [beq_iff_eq] at he
    exact ⟨rfl, hT', by assumption, by assumption, Or.inr ⟨by trivial, by trivial, hQ.pop_fict_done he (by assumption)⟩⟩
  case vc8 | vc9 | vc11 | vc12 =>
    have he := ‹(_ == (-100:Int)) = true›; simp only [beq_iff_eq] at he
    have hmore := hQ.pop_fict_more he (by assumption)
    first | omega | exact hmore.2.1.2
  case vc20 =>
    have he := ‹(_ == (-100:Int)) = true›; simp only [beq_iff_eq] at he
    have hmore := hQ.pop_fict_more he (by assumption)
    exact ⟨_, hmore.2.2⟩
  case vc22 =>
    have he := ‹(_ == (-100:Int)) = true›; simp only [beq_iff_eq] at he
    have hmore := hQ.pop_fict_more he (by assumption)
    grab_all hall
    obtain ⟨hT2, h1, h2, h3⟩ := hall _ hmore.2.2
    exact ⟨rfl, hT2.quiet _ rfl, h1, h2, Or.inl ⟨hb, by omega, by simpa using h3.toQ1b⟩⟩
  case vc29 =>
    have hne := ‹¬(_ == (-100:Int)) = true›; simp only [beq_iff_eq] at hne
    exact ⟨_, hQ.pop_pix hne⟩
  case vc31.step =>
    have hne := ‹¬(_ == (-100:Int)) = true›; simp only [beq_iff_eq] at hne
    grab_all hall
    obtain ⟨hT2, h1, h2, h3⟩ := hall _ (hQ.pop_pix hne)
    exact ⟨rfl, hT2.quiet _ rfl, h1, h2, Or.inl ⟨hb, by omega, by simpa using h3.toQ1b⟩⟩
  case vc32 =>
    exact ⟨rfl, hT', rfl, by assumption, Or.inl ⟨by trivial, by omega, by assumption⟩⟩
  case vc33.post.success.post.success.inl =>
    have := hQ.len
    simp only [Std.Legacy.Range.toList, List.length_range', Nat.add_sub_cancel, Nat.div_one, Nat.sub_zero] at this
    omega




theorem nbr1c_specT {n : Nat} {nb : Array Int} {icl ipp : Int} {imo iq : Array Int} {qs qe : Int}
    (trace : Array Flood.Step) (P q : List Int) (hT : TR n trace imo icl) (hi1 : 1 ≤ icl)
    (hnb : NbOK n nb) (hs : imo.size = n) (hp : Pix n ipp) (hicl : icl ≠ -2)
    (hq : QRep n iq qs qe q) (hc : QC n imo P q) (hP : P ≠ []) (hl : q.length + 1 ≤ n) :
    ⦃fun o => ⌜o = false⌝⦄ nbr1c n nb true icl ipp imo iq qe trace
    ⦃⇓ r o => ⌜o = false ∧ TR n r.2.2.2 r.1 icl ∧ r.1.size = n ∧
      ∃ q', QRep n r.2.1 qs r.2.2.1 q' ∧ QC n r.1 P q' ∧ q'.length + 1 ≤ n⌝⦄ := by
  have s1 := nbCnt_spec hnb
  have s2 := nbAt_spec hnb
  mvcgen [nbr1c, s1, s2, fifoAdd_spec]
  case inv1 =>
    exact ⇓⟨_, imo', iq', qe', tr'⟩ o => ⌜o = false ∧ TR n tr' imo' icl ∧ imo'.size = n ∧
      ∃ q', QRep n iq' qs qe' q' ∧ QC n imo' P q' ∧ q'.length + 1 ≤ n⌝
  all_goals vcr; vcp
  all_goals try rfl
  all_goals try (grab hq' : QRep; have hqe := hq'.qe_range)
  all_goals try (grab hT' : TR)
  all_goals try vco
  all_goals try (simp [*]; done)
  case vc15.step.post.success.post.success.isTrue.post.success.post.success =>
    grab hc' : QC
    have hadd := hc'.add hP ‹Pix _ _› (by simpa using ‹(_ == (-2 : Int)) = true›) hicl (by assumption)
    exact ⟨rfl, hT'.flood hi1 _ _, by simp [*], _, hq'.add (by omega) _, hadd.1, hadd.2⟩
  case vc16.step.post.success.post.success.isFalse =>
    grab hc' : QC
    exact ⟨rfl, hT', by assumption, _, hq', hc', by assumption⟩
  case vc17.post.success.pre =>
    exact ⟨rfl, hT', rfl, _, hq', hc, hl⟩
  case vc18.post.success.post.success =>
    grab hc' : QC
    exact ⟨rfl, hT', by assumption, _, hq', hc', by assumption⟩

/-- ghost-free form of `nbr1c_spec` -/
theorem nbr1c_specT' {n : Nat} {nb : Array Int} {icl ipp : Int} {imo iq : Array Int} {qs qe : Int}
    (trace : Array Flood.Step) (hT : TR n trace imo icl) (hi1 : 1 ≤ icl)
    (hnb : NbOK n nb) (hs : imo.size = n) (hp : Pix n ipp) (hicl : icl ≠ -2)
    (hex : ∃ Pq : List Int × List Int, QRep n iq qs qe Pq.2 ∧ QC n imo Pq.1 Pq.2 ∧ Pq.1 ≠ [] ∧ Pq.2.length + 1 ≤ n) :
    ⦃fun o => ⌜o = false⌝⦄ nbr1c n nb true icl ipp imo iq qe trace
    ⦃⇓ r o => ⌜o = false ∧ ∀ Pq : List Int × List Int,
      (QRep n iq qs qe Pq.2 ∧ QC n imo Pq.1 Pq.2 ∧ Pq.1 ≠ [] ∧ Pq.2.length + 1 ≤ n) →
      TR n r.2.2.2 r.1 icl ∧ r.1.size = n ∧ ∃ q', QRep n r.2.1 qs r.2.2.1 q' ∧ QC n r.1 Pq.1 q' ∧ q'.length + 1 ≤ n⌝⦄ :=
  triple_forall _ _ _ (fun Pq h => nbr1c_specT trace Pq.1 Pq.2 hT hi1 hnb hs hp hicl h.1 h.2.1 h.2.2.1 h.2.2.2) hex

theorem flood1c_specT {n : Nat} {nb : Array Int} {icl : Int} {imo iq : Array Int} {qs qe : Int}
    (trace : Array Flood.Step) (q : List Int) (hT : TR n trace imo icl) (hi1 : 1 ≤ icl)
    (hnb : NbOK n nb) (hs : imo.size = n) (hicl : icl ≠ -2)
    (hq : QRep n iq qs qe q) (hc : QC n imo [] q) (hl : q.length + 1 ≤ n) :
    ⦃fun o => ⌜o = false⌝⦄ flood1c n nb true icl imo iq qs qe trace
    ⦃⇓ r o => ⌜o = false ∧ TR n r.2.2.2.2.1 r.1 icl ∧ r.2.2.2.2.2 = true ∧ r.1.size = n ∧ QRep n r.2.1 r.2.2.1 r.2.2.2.1 []⌝⦄ := by
  mvcgen [flood1c, nbr1c_specT', fifoFirst_spec]
  case inv1 =>
    exact ⇓⟨xs, imo', iq', qs', qe', tr', brk⟩ o => ⌜o = false ∧ TR n tr' imo' icl ∧ imo'.size = n ∧
      ((brk = false ∧ ∃ P q, P.length = xs.prefix.length ∧ QRep n iq' qs' qe' q ∧ QC n imo' P q ∧ q.length + 1 ≤ n) ∨
       (brk = true ∧ xs.suffix = [] ∧ QRep n iq' qs' qe' []))⌝
  all_goals vcr; vcp
  all_goals try (grab hor : Or; rcases hor with ⟨hb, P, q', hP, hq', hc', hl'⟩ | ⟨hb, hnil, hq'⟩ <;> try (simp at hnil; done))
  all_goals try rfl
  all_goals try (have hqs := hq'.qs_ok)
  all_goals try (grab hT' : TR)
  all_goals try vco
  all_goals try (simp [*]; done)
  case vc1.step.isTrue.inl =>
    have := hq'.eq_nil hl' (by assumption); subst this
    exact ⟨rfl, hT', by assumption, Or.inr ⟨by trivial, by trivial, hq'⟩⟩
  case vc10.hp.inl =>
    obtain ⟨v, t, rfl⟩ := hq'.eq_cons hl' (by assumption)
    rw [hq'.pop.1]; exact hc'.pop.2
  case vc12.hex.inl =>
    obtain ⟨v, t, rfl⟩ := hq'.eq_cons hl' (by assumption)
    exact ⟨(P ++ [v], t), hq'.pop.2, hc'.pop.1, by simp, by simp at hl'; simp; omega⟩
  case vc14.step.isFalse.post.success.post.success.inl =>
    obtain ⟨v, t, rfl⟩ := hq'.eq_cons hl' (by assumption)
    grab_all hall
    obtain ⟨hT2, hsz, q2, h1, h2, h3⟩ := hall (P ++ [v], t) hq'.pop.2 hc'.pop.1 (by simp) (by simp at hl'; simp; omega)
    exact ⟨rfl, hT2.quiet _ rfl, hsz, Or.inl ⟨hb, P ++ [v], q2, by simp [hP], h1, h2, h3⟩⟩
  case vc15.pre =>
    exact ⟨rfl, hT', rfl, Or.inl ⟨by trivial, [], q, rfl, hq, hc, hl⟩⟩
  case vc16.post.success.inl =>
    have := hc'.len
    simp [Std.Legacy.Range.toList] at hP; omega

/-- ghost-free form of `flood1c_spec` -/
theorem flood1c_specT' {n : Nat} {nb : Array Int} {icl : Int} {imo iq : Array Int} {qs qe : Int}
    (trace : Array Flood.Step) (hT : TR n trace imo icl) (hi1 : 1 ≤ icl)
    (hnb : NbOK n nb) (hs : imo.size = n) (hicl : icl ≠ -2)
    (hex : ∃ q, QRep n iq qs qe q ∧ QC n imo [] q ∧ q.length + 1 ≤ n) :
    ⦃fun o => ⌜o = false⌝⦄ flood1c n nb true icl imo iq qs qe trace
    ⦃⇓ r o => ⌜o = false ∧ TR n r.2.2.2.2.1 r.1 icl ∧ r.2.2.2.2.2 = true ∧ r.1.size = n ∧ QRep n r.2.1 r.2.2.1 r.2.2.2.1 []⌝⦄ := by
  obtain ⟨q, h1, h2, h3⟩ := hex
  exact flood1c_specT trace q hT hi1 hnb hs hicl h1 h2 h3



theorem step1c_specT {n : Nat} {nb imi ind : Array Int} (ih : Int) {imo imd iq : Array Int}
    {qs qe icl m : Int} (trace : Array Flood.Step) (hT : TR n trace imo icl)
    (hnb : NbOK n nb) (hind : IndOK n ind) (hi : imi.size = n) (hn : 2 ≤ n)
    (h : Idle n imo imd iq qs qe icl m) :
    ⦃fun o => ⌜o = false⌝⦄ step1c n nb imi ind ih true imo imd iq qs qe icl m trace
    ⦃⇓ r o => ⌜o = false ∧ TR n r.2.2.2.2.2.2.2.1 r.1 r.2.2.2.2.2.1 ∧ r.2.2.2.2.2.2.2.2 = false ∧
      Idle n r.1 r.2.1 r.2.2.1 r.2.2.2.1 r.2.2.2.2.1 r.2.2.2.2.2.1 r.2.2.2.2.2.2.1⌝⦄ := by
  have s1 := indAt_spec hind
  have s2 := @flood1c_specT' n nb
  mvcgen [step1c, s1, s2, fifoAdd_spec]
  case inv1 =>
    exact ⇓⟨xs, imo', imd', iq', qs', qe', icl', m', tr', fo, brk⟩ o => ⌜o = false ∧ TR n tr' imo' icl' ∧ fo = false ∧
      Idle n imo' imd' iq' qs' qe' icl' m' ∧
      ((brk = false ∧ m' = m + xs.prefix.length) ∨ (brk = true ∧ xs.suffix = []))⌝
  all_goals vcr; vcp
  all_goals try (grab hor : Or; rcases hor with ⟨hb, hm⟩ | ⟨hb, hnil⟩ <;> try (simp at hnil; done))
  all_goals try rfl
  all_goals try (grab hI : Idle; have hqe := hI.q.qe_range; have h1 := hI.so; have h2 := hI.sd; have h3 := hI.m0; have h4 := hI.m1; have h5 := hI.icl0)
  all_goals try (grab hT' : TR)
  all_goals try vco
  all_goals try (simp [*]; done)
  all_goals try (exact absurd ‹(!true) = true› (by decide))
  case vc7.step.post.success.post.success.isTrue.inl =>
    exact ⟨rfl, hT', rfl, hI, Or.inr ⟨by trivial, by trivial⟩⟩
  case vc20 => exact hT'.seed _
  case vc25 =>
    grab hpx : Pix
    refine ⟨[_], hI.q.add (by simp; omega) _, QC.single hpx h1 (by omega), by simp; omega⟩
  case vc29.step =>
    exact ⟨rfl, hT', rfl, ⟨by assumption, by simp [*], by omega, by omega, by omega, by assumption⟩, Or.inr ⟨by trivial, by trivial⟩⟩
  case vc30.step =>
    exact ⟨rfl, hT', rfl, ⟨by assumption, by simp [*], by omega, by omega, by omega, by assumption⟩, Or.inl ⟨hb, by simp; omega⟩⟩
  case vc31.step =>
    exact ⟨rfl, hT', rfl, ⟨by assumption, by simp [*], by omega, by omega, by omega, hI.q⟩, Or.inr ⟨by trivial, by trivial⟩⟩
  case vc32.step =>
    exact ⟨rfl, hT', rfl, ⟨by assumption, by simp [*], by omega, by omega, by omega, hI.q⟩, Or.inl ⟨hb, by simp; omega⟩⟩
  case vc34.post.success.isTrue.inl =>
    have := h.m0
    simp only [Std.Legacy.Range.toList, List.length_range', Nat.add_sub_cancel, Nat.div_one, Nat.sub_zero] at hm; omega
  case vc34.post.success.isTrue.inr =>
    subst hb; simp at *
  case vc35 =>
    have := h.m0
    simp only [Std.Legacy.Range.toList, List.length_range', Nat.add_sub_cancel, Nat.div_one, Nat.sub_zero] at hm; omega



end WS.Fld

import WsVerif.Lemmas.Fld.GCtx
/-! The executable checker `Flood.traceCheck` accepts every trace on which `Flood.run` succeeds. -/
namespace WS.Fld
open Std.Do WS.SP WS.Flood
set_option mvcgen.warning false

theorem toList_split (t : Array Step) {i : Nat} (hi : i < t.size) :
    t.toList = t.toList.take i ++ t[i]! :: t.toList.drop (i + 1) := by
  have h1 : i < t.toList.length := by simpa using hi
  have e : t[i]! = t.toList[i] := by simp [hi]
  rw [e, ← List.drop_eq_getElem_cons h1, List.take_append_drop]

theorem take_succ_split (t : Array Step) {i : Nat} (hi : i < t.size) :
    t.toList.take (i + 1) = t.toList.take i ++ [t[i]!] := by
  have h1 : i < t.toList.length := by simpa using hi
  have e : t[i]! = t.toList[i] := by simp [hi]
  rw [e, List.take_succ_eq_append_getElem h1]

theorem traceCheck_ok {g : Graph} {t : Array Step} {s : St} (h : run g t.toList = some s) :
    traceCheck g t = .ok s := by
  generalize hr : traceCheck g t = x
  apply Id.of_wp_run_eq hr
  mvcgen
  case inv1 =>
    exact ⇓⟨xs, r⟩ => ⌜r.1 = none ∧ runFrom g (St.init g.n) (t.toList.take xs.prefix.length) = some r.2⌝
  all_goals vcr; vcp
  case vc1 =>
    have hstep := ‹step g _ _ = some _›
    have hrun := ‹runFrom g _ _ = some _›
    refine ⟨trivial, ?_⟩
    simp only [List.length_append, List.length_cons, List.length_nil, Nat.zero_add]
    rw [take_succ_split t (by assumption), runFrom_append, hrun]
    simp [runFrom, hstep]
  case vc2 =>
    have hstep := ‹step g _ _ = none›
    have hrun := ‹runFrom g _ _ = some _›
    exfalso
    unfold run at h
    rw [toList_split t (by assumption), runFrom_append, hrun] at h
    simp [runFrom, hstep] at h
  case vc3 => exact ⟨trivial, rfl⟩
  case vc4 => simp_all
  case vc5 =>
    have hrun := ‹runFrom g _ _ = some _›
    have : t.toList.take [:t.size].toList.length = t.toList := by
      rw [range_toList_length, Nat.sub_zero, ← Array.length_toList]; exact List.take_length
    rw [this] at hrun
    unfold run at h
    rw [h] at hrun
    simp at hrun
    rw [hrun]

theorem traceValid_of_run {g : Graph} {t : Array Step} {s : St} (h : run g t.toList = some s) :
    (traceValid g t).1 = true := by
  unfold traceValid
  rw [traceCheck_ok h]

end WS.Fld

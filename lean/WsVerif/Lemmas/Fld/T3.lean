import WsVerif.Lemmas.Fld.Part
import WsVerif.Lemmas.Fld.T2
/-! `partition` with ghost trace: the label effect of the emitted trace is the returned label map (copy-out loop
followed cell by cell). -/
namespace WS.Fld
open Std.Do WS.SP
set_option mvcgen.warning false

theorem toNat_mk (f mth a : Nat) : ((f : Int) * (mth : Int) + (a : Int)).toNat = f * mth + a := by
  have h : (f : Int) * (mth : Int) + (a : Int) = ((f * mth + a : Nat) : Int) := by simp
  rw [h, Int.toNat_natCast]

theorem toNat_km (f mk a : Nat) : ((f : Int) + (mk : Int) * (a : Int)).toNat = f + mk * a := by
  have h : (f : Int) + (mk : Int) * (a : Int) = ((f + mk * a : Nat) : Int) := by simp
  rw [h, Int.toNat_natCast]

theorem idx_ne {nth f t f' t' : Nat} (ht : t < nth) (ht' : t' < nth) (h : f ≠ f' ∨ t ≠ t') :
    f * nth + t ≠ f' * nth + t' := by
  intro e
  have h1 : (f * nth + t) % nth = (f' * nth + t') % nth := by rw [e]
  rw [Nat.add_comm, Nat.add_mul_mod_self_right, Nat.add_comm (f' * nth), Nat.add_mul_mod_self_right,
    Nat.mod_eq_of_lt ht, Nat.mod_eq_of_lt ht'] at h1
  subst h1
  have h2 : f * nth = f' * nth := by omega
  have h3 : f = f' := Nat.eq_of_mul_eq_mul_right (by omega) h2
  rcases h with h | h <;> contradiction

/-- one write of the copy-out loop -/
theorem out_step {nk nth : Nat} {out imo : Array Int} {f k : Nat} (hs : out.size = nk * nth) (hf : f < nk) (hk : k < nth)
    (h1 : ∀ f' t, f' < f → t < nth → out[f' * nth + t]! = imo[f' + nk * t]!)
    (h2 : ∀ t, t < k → out[f * nth + t]! = imo[f + nk * t]!) :
    let out' := out.set! ((f : Int) * (nth : Int) + (k : Int)).toNat imo[((f : Int) + (nk : Int) * (k : Int)).toNat]!
    (∀ f' t, f' < f → t < nth → out'[f' * nth + t]! = imo[f' + nk * t]!) ∧
    ∀ t, t < k + 1 → out'[f * nth + t]! = imo[f + nk * t]! := by
  intro out'
  have hlt : f * nth + k < out.size := by
    rw [hs]; have := idx_mk (mk := nk) (mth := nth) hf hk; rw [toNat_mk] at this; exact this.2
  refine ⟨fun f' t hf' ht => ?_, fun t ht => ?_⟩
  · show (out.set! _ _)[_]! = _
    rw [toNat_mk, toNat_km, get_set, if_neg (fun hh => idx_ne ht hk (Or.inl (by omega)) hh.1)]
    exact h1 f' t hf' ht
  · show (out.set! _ _)[_]! = _
    rw [toNat_mk, toNat_km, get_set]
    by_cases hc : t = k
    · subst hc; rw [if_pos ⟨rfl, hlt⟩]
    · rw [if_neg (fun hh => idx_ne (show t < nth by omega) hk (Or.inr hc) hh.1)]
      exact h2 t (by omega)

theorem partitionM_specT (nk nth ihmax : Nat) (spec : Array Int) (iqFill : Int)
    (hk : 1 ≤ nk) (ht : 1 ≤ nth) (hi : 1 ≤ ihmax) (hs : spec.size = nk * nth) :
    ⦃fun o => ⌜o = false⌝⦄ partitionM nk nth ihmax (Neigh.table nk nth) spec iqFill true
    ⦃⇓ r o => ⌜o = false ∧ (r.const = false → ∃ imoF : Array Int, imoF.size = nk * nth ∧
      (effRun (nk * nth) r.trace.toList).1 = imoF.map labC ∧
      ∀ f t, f < nk → t < nth → r.labels[f * nth + t]! = imoF[f + nk * t]!)⌝⦄ := by
  have hnb := table_ok nk nth
  have hpos : 1 ≤ nk * nth := Nat.mul_pos hk ht
  have s1 := @ptsort_spec ihmax (nk * nth)
  have s2 := @ptFld_specT (nk * nth) (Neigh.table nk nth)
  mvcgen [partitionM, s1, s2]
  case inv1 => exact ⇓⟨_, z⟩ o => ⌜o = false ∧ z.size = nk * nth⌝
  case inv2 => exact ⇓⟨_, z⟩ o => ⌜o = false ∧ z.size = nk * nth⌝
  case inv3 => exact ⇓⟨_, zmin, zmax⟩ o => ⌜o = false ∧ (nk * nth ≤ 1 → zmax = zmin)⌝
  case inv4 =>
    rename_i F _ _ _
    exact ⇓⟨xs, out⟩ o => ⌜o = false ∧ out.size = nk * nth ∧
      ∀ f t, f < xs.prefix.length → t < nth → out[f * nth + t]! = F.imo[f + nk * t]!⌝
  case inv5 =>
    rename_i F _ _ _ _ cur _ _ _ _ _
    exact ⇓⟨ys, out⟩ o => ⌜o = false ∧ out.size = nk * nth ∧
      (∀ f t, f < cur → t < nth → out[f * nth + t]! = F.imo[f + nk * t]!) ∧
      ∀ t, t < ys.prefix.length → out[cur * nth + t]! = F.imo[cur + nk * t]!⌝
  all_goals vcr; vcp
  all_goals try rfl
  all_goals try vco
  all_goals try (simp [*]; done)
  all_goals try (have h1 := idx_mk (mk := nk) (mth := nth) ‹_ < nk› ‹_ < nth›
                 have h2 := idx_km (mk := nk) (mth := nth) ‹_ < nk› ‹_ < nth›
                 omega)
  case vc18 | vc19 | vc20 => exact ⟨rfl, fun h => by omega⟩
  case vc25 =>
    exact map_level_bound _ hi _ _ _ _ (by omega)
  case vc31 =>
    have hne := ‹¬(_ == _) = true›
    apply Classical.byContradiction
    intro hlt
    have := ‹nk * nth ≤ 1 → _› (by omega)
    simp [this] at hne
  case vc39 =>
    grab_all hin
    revert hin
    grab_all hout
    intro hin'
    have hst := out_step (nk := nk) (nth := nth) (by assumption) ‹_ < nk› ‹_ < nth› hout hin'
    exact ⟨rfl, by simp [*], hst.1, fun t ht => hst.2 t (by simpa using ht)⟩
  case vc40 =>
    exact ⟨rfl, by assumption, by assumption, fun t ht => by simp at ht⟩
  case vc41 =>
    grab_all hin
    revert hin
    grab_all hout
    intro hin'
    refine ⟨rfl, by assumption, fun f t hf ht => ?_⟩
    rcases Nat.lt_succ_iff_lt_or_eq.mp (by simpa using hf) with h | h
    · exact hout f t h ht
    · subst h; exact hin' t (by simpa [range_toList_length] using ht)
  case vc43 =>
    grab_all hout
    grab hT : TR
    refine ⟨rfl, _, ?_, hT.2.1, fun f t hf ht => hout f t (by simpa [range_toList_length] using hf) ht⟩
    assumption

end WS.Fld

import WsVerif.Lemmas.Fld.G1c
import WsVerif.Lemmas.Fld.T2
/-! One level of step 1 and the level loop of `pt_fld` with the simulation relation. -/
namespace WS.Fld
open Std.Do WS.SP WS.Flood
set_option mvcgen.warning false

section
variable {n : Nat} {nb imi ind : Array Int} {g : Graph}
variable {trace : Array Step} {imo imd iq : Array Int} {qs qe icl : Int} {ih : Nat} {m : Int}

theorem GIdle.openG (C : Ctx n nb imi ind g) (h : GIdle n ind g trace imo imd iq qs qe icl ih m) :
    Pos n ind g ih m ∧ G1a n ind g (pushIf true trace (.level ih)) imo imd iq qs qe icl ih m := by
  obtain ⟨s, hrun, hq, hR⟩ := h
  obtain ⟨h1, h2⟩ := hR.open C
  exact ⟨hR.mi.pos, _, [], run_push hrun h1, by simpa [castL] using hq, h2⟩

theorem GIdle.facts (h : GIdle n ind g trace imo imd iq qs qe icl ih m) :
    MInv n ind g ih m ∧ imo.size = n ∧ imd.size = n ∧ QRep n iq qs qe [] := by
  obtain ⟨s, hrun, hq, hR⟩ := h
  exact ⟨hR.mi, hR.base.so, hR.sd, hq⟩

theorem G1bDone.endqueueG (C : Ctx n nb imi ind g) (h : G1bDone n g trace imo imd iq qs qe icl ih)
    (hm : MInv n ind g ih m) : G1c n ind g (pushIf true trace .endqueue) imo imd iq qs qe icl ih m := by
  obtain ⟨s, D, dist, hrun, hq, hR⟩ := h
  obtain ⟨h1, h2⟩ := hR.done C hm
  exact ⟨_, run_push hrun h1, hq, h2⟩

theorem G1cEnd.endlevelG (C : Ctx n nb imi ind g) (h : G1cEnd n ind g trace imo imd iq qs qe icl ih m) :
    GIdle n ind g (pushIf true trace .endlevel) imo imd iq qs qe icl (ih + 1) m := by
  obtain ⟨s, mm, hrun, hq, hR, hall, hmi⟩ := h
  obtain ⟨h1, h2⟩ := hR.endlevel C hall hmi
  exact ⟨_, run_push hrun h1, hq, h2⟩

theorem levelStep_specG (C : Ctx n nb imi ind g) (ihN : Nat) {imo imd iq : Array Int} {qs qe icl m : Int}
    (trace : Array Step) (hn : 2 ≤ n) (h : GIdle n ind g trace imo imd iq qs qe icl ihN m) :
    ⦃fun o => ⌜o = false⌝⦄ levelStep n nb imi ind ihN true imo imd iq qs qe icl m trace
    ⦃⇓ r o => ⌜o = false ∧
      GIdle n ind g r.2.2.2.2.2.2.2.1 r.1 r.2.1 r.2.2.1 r.2.2.2.1 r.2.2.2.2.1 r.2.2.2.2.2.1 (ihN + 1) r.2.2.2.2.2.2.1⌝⦄ := by
  have s1 := fun (imo imd iq : Array Int) (qe m : Int) (trace : Array Step) =>
    @step1a_specG n nb imi ind g C ihN imo imd iq qs qe m icl trace hn
  have s2 := fun (imo imd iq : Array Int) (qs qe : Int) (trace : Array Step) =>
    @step1b_specG n nb imi ind g C trace imo imd iq qs qe icl ihN hn
  have s3 := fun (imo imd iq : Array Int) (qs qe icl m : Int) (trace : Array Step) =>
    @step1c_specG n nb imi ind g C ihN imo imd iq qs qe icl m trace hn
  have ho := h.openG C
  have hf := h.facts
  mvcgen [levelStep, s1, s2, s3]
  all_goals vcp
  all_goals try rfl
  all_goals try vco
  all_goals try (simp [*]; done)
  case vc7 =>
    grab hD : G1bDone
    grab hM : MInv
    exact hD.endqueueG C hM
  case vc9 =>
    grab hE : G1cEnd
    exact ⟨rfl, hE.endlevelG C⟩

/-- before the first level -/
theorem GIdle.init (C : Ctx n nb imi ind g) (hn : 1 ≤ n) (iqFill : Int) :
    GIdle n ind g #[] (Array.replicate n (-1)) (Array.replicate n 0) (Array.replicate n iqFill) 0 0 0 0 0 := by
  refine ⟨St.init g.n, rfl, QRep.empty (by simp) (by omega) (by omega), ?_⟩
  have hget : ∀ p, p < n → (Array.replicate n (-1 : Int))[p]! = -1 := by
    intro p hp; simp [hp]
  have hfin : ∀ p, (St.init g.n).finOf p = false := by
    intro p
    simp only [St.finOf, St.init]
    rw [Array.getD_eq_getD_getElem?, Array.getElem?_replicate]
    split <;> rfl
  refine ⟨⟨by simp, ?_, by simp [St.init, C.gn], rfl, by omega, ?_, rfl, ?_, ?_⟩, by simp, rfl, ?_, ?_, MInv.zero hn⟩
  · simp [St.init, C.gn]
  · intro p hp; rw [hget p hp]; omega
  · intro p hp hl; omega
  · intro p hp hl; exact ⟨hfin p, hget p hp⟩
  · intro p hp hl; exact ⟨hfin p, hget p hp⟩
  · intro p hp; simp [hp]
end

end WS.Fld

import WsVerif.Lemmas.Fld.Eff
import WsVerif.Lemmas.Fld.Sort
/-! Simulation between the concrete arrays of `pt_fld` and the abstract flooding machine (`Model/Flood.lean`): static
context (`Ctx`: graph = neighbour table + level map, symmetric; `ind` sorted), facts about `labC`, success lemmas
for the guarded steps, the cursor invariants of the two scanning loops (`MInv`, `Pos`). -/
namespace WS.Fld
open Std.Do WS.SP WS.Flood

/-! ### static context -/

/-- what the loops of `pt_fld` are given, and the graph on which the ghost trace is replayed -/
structure Ctx (n : Nat) (nb imi ind : Array Int) (g : Graph) : Prop where
  nbok : NbOK n nb
  indok : IndOK n ind
  isz : imi.size = n
  gn : g.n = n
  adj_mem : ∀ ip : Int, Pix n ip → ∀ i : Nat, (i : Int) < nb[(8 + 9 * ip).toNat]! →
    (nb[((i : Int) + 9 * ip).toNat]!).toNat ∈ g.adj ip.toNat
  adj_cov : ∀ ip : Int, Pix n ip → ∀ y ∈ g.adj ip.toNat,
    ∃ i : Nat, (i : Int) < nb[(8 + 9 * ip).toNat]! ∧ nb[((i : Int) + 9 * ip).toNat]! = (y : Int)
  adj_symm : ∀ x y, x < n → y ∈ g.adj x → x ∈ g.adj y
  lev : ∀ p, p < n → (g.level p : Int) = imi[p]!
  sorted : ∀ j k : Nat, j ≤ k → k < n → g.level (ind[j]!).toNat ≤ g.level (ind[k]!).toNat

section
variable {n : Nat} {nb imi ind : Array Int} {g : Graph}

theorem Ctx.adj_lt (C : Ctx n nb imi ind g) {p y : Nat} (hp : p < n) (hy : y ∈ g.adj p) : y < n := by
  have hpx : Pix n (p : Int) := ⟨by omega, by omega⟩
  obtain ⟨i, hi, he⟩ := C.adj_cov p hpx y (by rw [Int.toNat_natCast]; exact hy)
  have := C.nbok.ent p hpx i hi
  rw [he] at this
  have := this.2; omega

/-- every pixel occurs in `ind` -/
theorem Ctx.ind_surj (C : Ctx n nb imi ind g) {p : Nat} (hp : p < n) : ∃ k, k < n ∧ ind[k]! = (p : Int) := by
  obtain ⟨k, hk, he⟩ := inj_surj (n := n) (fun k => (ind[k]!).toNat)
    (fun i hi => by have := C.indok.rng i hi; simp only [Pix] at this; omega)
    (fun i j hi hj h => C.indok.inj i j hi hj (by
      have h1 := C.indok.rng i hi; have h2 := C.indok.rng j hj; simp only [Pix] at h1 h2
      omega)) p hp
  exact ⟨k, hk, by have := C.indok.rng k hk; simp only [Pix] at this; omega⟩
end

/-! ### `labC` -/

@[simp] theorem labC_m1 : labC (-1) = .init := rfl
@[simp] theorem labC_m2 : labC (-2) = .mask := rfl
@[simp] theorem labC_0 : labC 0 = .wshed := rfl

theorem labC_cases {v : Int} (h : -2 ≤ v) : (v = -1 ∧ labC v = .init) ∨ (v = -2 ∧ labC v = .mask) ∨
    (v = 0 ∧ labC v = .wshed) ∨ (1 ≤ v ∧ labC v = .basin v.toNat) := by
  by_cases h1 : v = -1
  · subst h1; simp
  by_cases h2 : v = -2
  · subst h2; simp
  by_cases h3 : v = 0
  · subst h3; simp
  · right; right; right; exact ⟨by omega, labC_pos (by omega)⟩

theorem labC_init {v : Int} (h : -2 ≤ v) : labC v = .init ↔ v = -1 := by
  rcases labC_cases h with ⟨a, b⟩ | ⟨a, b⟩ | ⟨a, b⟩ | ⟨a, b⟩ <;> rw [b] <;> simp <;> omega

theorem labC_mask {v : Int} (h : -2 ≤ v) : labC v = .mask ↔ v = -2 := by
  rcases labC_cases h with ⟨a, b⟩ | ⟨a, b⟩ | ⟨a, b⟩ | ⟨a, b⟩ <;> rw [b] <;> simp <;> omega

theorem labC_wshed {v : Int} (h : -2 ≤ v) : labC v = .wshed ↔ v = 0 := by
  rcases labC_cases h with ⟨a, b⟩ | ⟨a, b⟩ | ⟨a, b⟩ | ⟨a, b⟩ <;> rw [b] <;> simp <;> omega

theorem labC_labelled {v : Int} (h : -2 ≤ v) : (labC v).labelled = true ↔ 0 ≤ v := by
  rcases labC_cases h with ⟨a, b⟩ | ⟨a, b⟩ | ⟨a, b⟩ | ⟨a, b⟩ <;> rw [b] <;> simp [Lab.labelled] <;> omega

theorem labC_unlabelled {v : Int} (h : -2 ≤ v) : (labC v).unlabelled = true ↔ v < 0 := by
  rcases labC_cases h with ⟨a, b⟩ | ⟨a, b⟩ | ⟨a, b⟩ | ⟨a, b⟩ <;> rw [b] <;> simp [Lab.unlabelled] <;> omega

theorem labC_isBasin {v : Int} (h : -2 ≤ v) : (labC v).isBasin = true ↔ 1 ≤ v := by
  rcases labC_cases h with ⟨a, b⟩ | ⟨a, b⟩ | ⟨a, b⟩ | ⟨a, b⟩ <;> rw [b] <;> simp [Lab.isBasin] <;> omega

theorem labC_inj {v w : Int} (hv : -2 ≤ v) (hw : -2 ≤ w) (h : labC v = labC w) : v = w := by
  rcases labC_cases hv with ⟨a, b⟩ | ⟨a, b⟩ | ⟨a, b⟩ | ⟨a, b⟩ <;>
    rcases labC_cases hw with ⟨c, d⟩ | ⟨c, d⟩ | ⟨c, d⟩ | ⟨c, d⟩ <;> rw [b, d] at h <;> simp at h <;> omega

/-! ### running a trace one step further -/

theorem runFrom_append {g : Graph} (t1 t2 : List Step) : ∀ s : St,
    runFrom g s (t1 ++ t2) = (runFrom g s t1).bind fun s' => runFrom g s' t2 := by
  induction t1 with
  | nil => intro s; simp [runFrom]
  | cons e t ih =>
    intro s
    simp only [List.cons_append, runFrom]
    split
    · exact ih _
    · rfl

theorem run_push {g : Graph} {t : Array Step} {s s' : St} {e : Step} (h : run g t.toList = some s)
    (hs : step g s e = some s') : run g (pushIf true t e).toList = some s' := by
  unfold run at *
  simp only [pushIf, if_true, Array.toList_push]
  rw [runFrom_append, h]
  simp [runFrom, hs]

/-! ### abstract accessors after an update -/

theorem labOf_map {s : St} {imo : Array Int} (h : s.lab = imo.map labC) {p : Nat} (hp : p < imo.size) :
    s.labOf p = labC imo[p]! := by
  unfold St.labOf; rw [h]; exact getD_map _ _ hp

theorem getD_setB (a : Array Bool) (i j : Nat) (v : Bool) :
    (a.setIfInBounds i v).getD j false = if j = i ∧ i < a.size then v else a.getD j false := by
  rw [Array.getD_eq_getD_getElem?, Array.getD_eq_getD_getElem?, Array.getElem?_setIfInBounds]
  by_cases hj : i = j
  · subst hj
    by_cases h : i < a.size <;> simp [h]
  · have : ¬ j = i := fun h => hj h.symm
    simp [hj, this]

/-! ### cursor of the scanning loops 1a / 1c -/

/-- between levels: the cursor `m` points to the first pixel of level `≥ ih` (or is clamped at `n-1`) -/
structure MInv (n : Nat) (ind : Array Int) (g : Graph) (ih : Nat) (m : Int) : Prop where
  m0 : 0 ≤ m
  m1 : m < n
  lt : ∀ k : Nat, k < n → (k : Int) < m → g.level (ind[k]!).toNat < ih
  ge : ∀ k : Nat, k < n → m < (k : Int) → ih ≤ g.level (ind[k]!).toNat
  clamp : g.level (ind[m.toNat]!).toNat < ih → m = n - 1

/-- inside the scanning loops of level `ih`: positions before `m` hold levels `≤ ih`, positions after it levels `≥ ih` -/
structure Pos (n : Nat) (ind : Array Int) (g : Graph) (ih : Nat) (m : Int) : Prop where
  m0 : 0 ≤ m
  m1 : m < n
  le : ∀ k : Nat, k < n → (k : Int) < m → g.level (ind[k]!).toNat ≤ ih
  ge : ∀ k : Nat, k < n → m < (k : Int) → ih ≤ g.level (ind[k]!).toNat
  clamp : g.level (ind[m.toNat]!).toNat < ih → m = n - 1

section
variable {n : Nat} {nb imi ind : Array Int} {g : Graph} {ih : Nat} {m : Int}

theorem MInv.pos (h : MInv n ind g ih m) : Pos n ind g ih m :=
  ⟨h.m0, h.m1, fun k hk hm => Nat.le_of_lt (h.lt k hk hm), h.ge, h.clamp⟩

theorem MInv.zero (hn : 1 ≤ n) : MInv n ind g 0 0 :=
  ⟨by omega, by omega, fun k _ h => by omega, fun _ _ _ => Nat.zero_le _, fun h => by omega⟩

/-- the pixel under the cursor belongs to the level and is not the last one: advance -/
theorem Pos.step (C : Ctx n nb imi ind g) (h : Pos n ind g ih m) (hl : g.level (ind[m.toNat]!).toNat = ih)
    (hm : ¬ m > (n : Int) - 2) : Pos n ind g ih (m + 1) := by
  have h0 := h.m0
  refine ⟨by omega, by omega, fun k hk hkm => ?_, fun k hk hkm => h.ge k hk (by omega), fun hlt => ?_⟩
  · by_cases hk' : (k : Int) < m
    · exact h.le k hk hk'
    · have : k = m.toNat := by omega
      rw [this, hl]; exact Nat.le_refl _
  · have := C.sorted m.toNat (m + 1).toNat (by omega) (by omega)
    omega

/-- all pixels of level `ih` lie before the cursor when the loop leaves because the level of `ind[m]` differs -/
theorem Pos.exit_ne (C : Ctx n nb imi ind g) (h : Pos n ind g ih m) (hl : g.level (ind[m.toNat]!).toNat ≠ ih)
    {k : Nat} (hk : k < n) (hlk : g.level (ind[k]!).toNat = ih) : (k : Int) < m := by
  have h0 := h.m0
  apply Classical.byContradiction
  intro hnot
  have hne : k ≠ m.toNat := fun e => hl (e ▸ hlk)
  have hgt : m < (k : Int) := by omega
  have hs := C.sorted m.toNat k (by omega) hk
  have hc := h.clamp (by omega)
  omega

/-- cursor for the next level, loop left because the level of `ind[m]` differs -/
theorem Pos.next_ne (C : Ctx n nb imi ind g) (h : Pos n ind g ih m) (hl : g.level (ind[m.toNat]!).toNat ≠ ih) :
    MInv n ind g (ih + 1) m := by
  have h0 := h.m0
  refine ⟨h.m0, h.m1, fun k hk hkm => Nat.lt_succ_of_le (h.le k hk hkm), fun k hk hkm => ?_, fun hlt => h.clamp (by omega)⟩
  have h1 := h.ge k hk hkm
  have hs := C.sorted m.toNat k (by omega) hk
  apply Classical.byContradiction
  intro hnot
  have hc := h.clamp (by omega)
  omega

/-- cursor for the next level, loop left after the last pixel -/
theorem Pos.next_last (h : Pos n ind g ih m) (hl : g.level (ind[m.toNat]!).toNat = ih) (hm : m > (n : Int) - 2) :
    MInv n ind g (ih + 1) m := by
  have h0 := h.m0; have h1 := h.m1
  refine ⟨h.m0, h.m1, fun k hk hkm => Nat.lt_succ_of_le (h.le k hk hkm), fun k hk hkm => by omega, fun _ => by omega⟩

/-- a level without pixels under the cursor: the cursor is also right for the next level -/
theorem MInv.le_of (h : MInv n ind g ih m) {k : Nat} (hk : k < n) (hlk : g.level (ind[k]!).toNat = ih) : m ≤ (k : Int) := by
  apply Classical.byContradiction
  intro hnot
  have := h.lt k hk (by omega)
  omega
end

end WS.Fld

import WsVerif.Lemmas.Fld.Base
import WsVerif.Lemmas.Neigh
/-! The flat neighbour table `Neigh.table` (what `partinit`/`ptnghb` leave in `neigh`) satisfies `NbOK`. -/
namespace WS.Fld
open Std.Do WS.SP WS.Neigh
set_option mvcgen.warning false

/-- the nine table slots of pixel `p`: its neighbours, zero padding, the count -/
def slots (mk mth p : Nat) : List Int :=
  (neighLin mk mth p).map (fun (x : Nat) => (x : Int)) ++ List.replicate (8 - (neighLin mk mth p).length) 0 ++
    [((neighLin mk mth p).length : Int)]

theorem table_toList (mk mth : Nat) :
    (table mk mth).toList = (List.range (mk * mth)).flatMap (slots mk mth) := by
  generalize h : table mk mth = x
  apply Id.of_wp_run_eq h
  mvcgen
  case inv1 => exact ⇓⟨xs, t⟩ => ⌜t.toList = xs.prefix.flatMap (slots mk mth)⌝
  case inv2 =>
    rename_i b _ _
    exact ⇓⟨ys, t⟩ => ⌜t.toList = b.toList ++ ys.prefix.map (fun (x : Nat) => (x : Int))⌝
  case inv3 =>
    rename_i t1 _
    exact ⇓⟨ys, t⟩ => ⌜t.toList = t1.toList ++ List.replicate ys.prefix.length 0⌝
  all_goals vcp
  all_goals try (simp_all [List.replicate_succ']; done)
  case vc5 =>
    simp_all [slots, Std.Legacy.Range.toList]
  case vc7 =>
    simp_all [Std.Legacy.Range.toList, List.range_eq_range']

theorem flatMap_block {f : Nat → List Int} {L : Nat} : ∀ (N : Nat), (∀ p, p < N → (f p).length = L) →
    ((List.range N).flatMap f).length = L * N ∧
    ∀ p i, p < N → i < L → ((List.range N).flatMap f)[L * p + i]? = (f p)[i]? := by
  intro N
  induction N with
  | zero => intro _; simp
  | succ N ih =>
    intro hl
    obtain ⟨ihl, ihg⟩ := ih (fun p hp => hl p (by omega))
    rw [List.range_succ, List.flatMap_append]
    simp only [List.flatMap_cons, List.flatMap_nil, List.append_nil, List.length_append]
    refine ⟨by rw [ihl, hl N (by omega), Nat.mul_succ], ?_⟩
    intro p i hp hi
    by_cases hpN : p < N
    · rw [List.getElem?_append_left, ihg p i hpN hi]
      rw [ihl]
      calc L * p + i < L * p + L := by omega
        _ = L * (p + 1) := by rw [Nat.mul_succ]
        _ ≤ L * N := Nat.mul_le_mul_left L hpN
    · have : p = N := by omega
      subst this
      rw [List.getElem?_append_right (by rw [ihl]; omega), ihl]
      congr 1; omega

theorem get_of_toList {a : Array Int} {l : List Int} (h : a.toList = l) {k : Nat} {v : Int}
    (hv : l[k]? = some v) : a[k]! = v := by
  subst h
  rw [Array.getElem?_toList] at hv
  rw [getElem!_def, hv]

theorem neighLin_ok {mk mth p : Nat} (hp : p < mk * mth) :
    (neighLin mk mth p).length ≤ 8 ∧ ∀ x ∈ neighLin mk mth p, x < mk * mth := by
  obtain ⟨hi, hj, e⟩ := NeighL.decomp hp
  have hrow : neighLin mk mth p = (neighIJ mk mth (p % mk) (p / mk)).map (lin mk) := by
    have := NeighL.neigh_spec mk mth (p % mk) (p / mk) hi hj
    rw [← e] at this; exact this
  refine ⟨?_, ?_⟩
  · rw [hrow, List.length_map]; exact NeighL.neighIJ_length_le _ _ _ _
  · rw [hrow]
    intro x hx
    obtain ⟨q, hq, rfl⟩ := List.mem_map.mp hx
    have := NeighL.neighIJ_bounds hi hj hq
    exact NeighL.lin_lt this.1 this.2

theorem slots_length {mk mth p : Nat} (hp : p < mk * mth) : (slots mk mth p).length = 9 := by
  have := (neighLin_ok hp).1
  simp [slots]; omega

/-- the table that `partinit` leaves behind satisfies the bounds used by `pt_fld` -/
theorem table_ok (mk mth : Nat) : NbOK (mk * mth) (table mk mth) := by
  have ht := table_toList mk mth
  obtain ⟨hlen, hget⟩ := flatMap_block (f := slots mk mth) (L := 9) (mk * mth) (fun p hp => slots_length hp)
  have hcnt : ∀ ip : Int, Pix (mk * mth) ip →
      (table mk mth)[(8 + 9 * ip).toNat]! = ((neighLin mk mth ip.toNat).length : Int) := by
    intro ip hp
    have hp' : ip.toNat < mk * mth := by have := hp.1; have := hp.2; omega
    have hl := (neighLin_ok hp').1
    have e : (8 + 9 * ip).toNat = 9 * ip.toNat + 8 := by have := hp.1; omega
    rw [e]
    apply get_of_toList ht
    rw [hget _ 8 hp' (by omega)]
    simp [slots]
    rw [List.getElem?_append_right (by simp; omega)]
    simp
  refine ⟨?_, ?_, ?_⟩
  · have := congrArg List.length ht
    rw [hlen] at this
    simpa using this
  · intro ip hp
    have hp' : ip.toNat < mk * mth := by have := hp.1; have := hp.2; omega
    rw [hcnt ip hp]
    have := (neighLin_ok hp').1
    omega
  · intro ip hp i hi
    have hp' : ip.toNat < mk * mth := by have := hp.1; have := hp.2; omega
    rw [hcnt ip hp] at hi
    have hi' : i < (neighLin mk mth ip.toNat).length := by omega
    have hl := (neighLin_ok hp').1
    have e : ((i : Int) + 9 * ip).toNat = 9 * ip.toNat + i := by have := hp.1; omega
    rw [e]
    have hv : (table mk mth)[9 * ip.toNat + i]! = (((neighLin mk mth ip.toNat)[i] : Nat) : Int) := by
      apply get_of_toList ht
      rw [hget _ i hp' (by omega)]
      simp only [slots]
      rw [List.append_assoc, List.getElem?_append_left (by simp; omega)]
      simp [hi']
    rw [hv]
    have := (neighLin_ok hp').2 _ (List.getElem_mem hi')
    exact ⟨by omega, by omega⟩
end WS.Fld

import WsVerif.Lemmas.Fld.GTop
/-! Step 2 of `pt_fld` (clean-up sweeps) with the simulation relation: `sweep` / `resolve` satisfy their guards; then the
whole of `pt_fld`: the emitted ghost trace is a valid trace of the abstract machine. -/
namespace WS.Fld
open Std.Do WS.SP WS.Flood
set_option mvcgen.warning false

/-- after the levels / between two sweeps -/
structure R2i (n : Nat) (g : Graph) (s : St) (imo : Array Int) : Prop where
  so : imo.size = n
  hh : ∀ p, p < n → g.level p < s.h
  lab : s.lab = imo.map labC
  ph : s.phase = .idle ∨ s.phase = .sweeping
  fin : ∀ p, p < n → s.finOf p = true
  lo : ∀ p, p < n → 0 ≤ imo[p]!

/-- inside a sweep: snapshot `imo`, working copy `imd`, pixels `< j` visited -/
structure R2 (n : Nat) (g : Graph) (s : St) (imo imd : Array Int) (j : Nat) : Prop where
  so : imo.size = n
  hh : ∀ p, p < n → g.level p < s.h
  sd : imd.size = n
  lab : s.lab = imd.map labC
  snap : s.snap = imo.map labC
  ph : s.phase = .sweeping
  fin : ∀ p, p < n → s.finOf p = true
  lo : ∀ p, p < n → 0 ≤ imo[p]!
  lod : ∀ p, p < n → 0 ≤ imd[p]!
  rest : ∀ p, p < n → j ≤ p → imd[p]! = imo[p]!

section
variable {n : Nat} {nb imi ind : Array Int} {g : Graph}

theorem step_sweep {g : Graph} {s : St} (h : s.phase = .idle ∨ s.phase = .sweeping) :
    step g s .sweep = some { s with phase := .sweeping, snap := s.lab } := by
  simp only [step]
  rw [if_pos h]

theorem step_resolve {g : Graph} {s : St} {p q : Nat} (hph : s.phase = .sweeping) (hp : p < g.n) (hq : q < g.n)
    (h1 : s.snapOf p = .wshed) (h2 : s.labOf p = .wshed) (ha : q ∈ g.adj p) (h3 : (s.snapOf q).isBasin = true)
    (h4 : s.finOf p = true) (h5 : s.finOf q = true) :
    step g s (.resolve p q) = some { s with lab := s.lab.setIfInBounds p (s.snapOf q) } := by
  have hc : (g.adj p).contains q = true := by simpa using ha
  simp only [step]
  rw [if_pos ⟨hph, hp, hq, h1, h2, hc, h3, h4, h5⟩]

theorem RIdle.to2 {s : St} {imo imd : Array Int} {icl : Int} {ih : Nat} {m : Int}
    (h : RIdle n ind g s imo imd icl ih m) (hl : ∀ p, p < n → g.level p < ih) : R2i n g s imo :=
  ⟨h.base.so, fun p hp => by rw [h.base.h]; exact hl p hp, h.base.lab, Or.inl h.ph, fun p hp => (h.base.old p hp (hl p hp)).1, fun p hp => (h.base.old p hp (hl p hp)).2⟩

theorem R2i.sweep {s : St} {imo : Array Int} (h : R2i n g s imo) :
    step g s .sweep = some { s with phase := .sweeping, snap := s.lab } ∧
    R2 n g { s with phase := .sweeping, snap := s.lab } imo imo 0 :=
  ⟨step_sweep h.ph, h.so, h.hh, h.so, h.lab, h.lab, rfl, h.fin, h.lo, h.lo, fun _ _ _ => rfl⟩

theorem R2.skip {s : St} {imo imd : Array Int} {j : Nat} (h : R2 n g s imo imd j) : R2 n g s imo imd (j + 1) :=
  { h with rest := fun p hp hj => h.rest p hp (by omega) }

theorem R2.done {s : St} {imo imd : Array Int} {j : Nat} (h : R2 n g s imo imd j) : R2i n g s imd :=
  ⟨h.sd, h.hh, h.lab, Or.inr h.ph, h.fin, h.lod⟩

theorem snapOf_map {s : St} {imo : Array Int} (h : s.snap = imo.map labC) {p : Nat} (hp : p < imo.size) :
    s.snapOf p = labC imo[p]! := by
  unfold St.snapOf; rw [h]; exact getD_map _ _ hp

theorem R2.resolve (C : Ctx n nb imi ind g) {s : St} {imo imd : Array Int} {j q : Nat} (h : R2 n g s imo imd j)
    (hj : j < n) (hc : imo[j]! = 0) (hq : q ∈ g.adj j) (hl : imo[q]! ≠ 0) :
    step g s (.resolve j q) = some { s with lab := s.lab.setIfInBounds j (s.snapOf q) } ∧
    R2 n g { s with lab := s.lab.setIfInBounds j (s.snapOf q) } imo (imd.set! j imo[q]!) (j + 1) := by
  have hqn := C.adj_lt hj hq
  have hjs : j < imo.size := by rw [h.so]; exact hj
  have hqs : q < imo.size := by rw [h.so]; exact hqn
  have hjd : j < imd.size := by rw [h.sd]; exact hj
  have hlq := h.lo q hqn
  have hget : ∀ x, (imd.set! j imo[q]!)[x]! = if x = j then imo[q]! else imd[x]! := fun x => get_setP imd j x _ hjd
  constructor
  · refine step_resolve h.ph (by rw [C.gn]; exact hj) (by rw [C.gn]; exact hqn) ?_ ?_ hq ?_ (h.fin j hj) (h.fin q hqn)
    · rw [snapOf_map h.snap hjs, hc]; rfl
    · rw [labOf_map h.lab hjd, h.rest j hj (Nat.le_refl _), hc]; rfl
    · rw [snapOf_map h.snap hqs]; exact (labC_isBasin (by omega)).mpr (by omega)
  · refine ⟨h.so, h.hh, by simp [h.sd], ?_, h.snap, h.ph, fun p hp => h.fin p hp, h.lo, ?_, ?_⟩
    · show s.lab.setIfInBounds j (s.snapOf q) = _
      rw [snapOf_map h.snap hqs, h.lab, map_set]
    · intro p hp; rw [hget]; split
      · exact hlq
      · exact h.lod p hp
    · intro p hp hjp
      rw [hget, if_neg (by omega)]
      exact h.rest p hp (by omega)

/-! ### Hoare triples -/

def G2i (n : Nat) (g : Graph) (trace : Array Step) (imo : Array Int) : Prop :=
  ∃ s : St, run g trace.toList = some s ∧ R2i n g s imo

def G2 (n : Nat) (g : Graph) (trace : Array Step) (imo imd : Array Int) (j : Nat) : Prop :=
  ∃ s : St, run g trace.toList = some s ∧ R2 n g s imo imd j

variable {trace : Array Step} {imo imd : Array Int}

theorem G2i.sweepG (h : G2i n g trace imo) : G2 n g (pushIf true trace .sweep) imo imo 0 := by
  obtain ⟨s, hrun, hR⟩ := h
  obtain ⟨h1, h2⟩ := hR.sweep (g := g)
  exact ⟨_, run_push hrun h1, h2⟩

theorem G2.skipG {j : Nat} (h : G2 n g trace imo imd j) : G2 n g trace imo imd (j + 1) := by
  obtain ⟨s, hrun, hR⟩ := h
  exact ⟨s, hrun, hR.skip⟩

theorem G2.doneG {j : Nat} (h : G2 n g trace imo imd j) : G2i n g trace imd := by
  obtain ⟨s, hrun, hR⟩ := h
  exact ⟨s, hrun, hR.done⟩

theorem G2.sizes {j : Nat} (h : G2 n g trace imo imd j) : imo.size = n ∧ imd.size = n := by
  obtain ⟨s, hrun, hR⟩ := h
  exact ⟨hR.so, hR.sd⟩

theorem G2.resolveG (C : Ctx n nb imi ind g) {j : Nat} (h : G2 n g trace imo imd j) (hj : j < n)
    (hc : (imo[((j : Nat) : Int).toNat]! == 0) = true) {ipt : Int} (hgt : ipt > -1)
    (hor : ipt = -1 ∨ (0 ≤ ipt ∧ ipt < nb[(8 + 9 * (j : Int)).toNat]! ∧
      imo[(nb[(ipt + 9 * (j : Int)).toNat]!).toNat]! ≠ 0)) :
    G2 n g (pushIf true trace (.resolve j (nb[(ipt + 9 * (j : Int)).toNat]!).toNat)) imo
      (imd.set! ((j : Nat) : Int).toNat imo[(nb[(ipt + 9 * (j : Int)).toNat]!).toNat]!) (j + 1) := by
  obtain ⟨s, hrun, hR⟩ := h
  rw [Int.toNat_natCast] at hc ⊢
  have hor : 0 ≤ ipt ∧ ipt < nb[(8 + 9 * (j : Int)).toNat]! ∧ imo[(nb[(ipt + 9 * (j : Int)).toNat]!).toNat]! ≠ 0 := by
    rcases hor with h1 | h1
    · omega
    · exact h1
  have hadj := C.adj_mem j ⟨by omega, by omega⟩ ipt.toNat (by omega)
  rw [Int.toNat_of_nonneg hor.1, Int.toNat_natCast] at hadj
  obtain ⟨h1, h2⟩ := hR.resolve C hj (by simpa using hc) hadj hor.2.2
  exact ⟨_, run_push hrun h1, h2⟩

theorem sweepPix_specG (C : Ctx n nb imi ind g) {zp : Array Int} (zpmax : Int) {imo : Array Int} {jlN : Nat}
    {imd : Array Int} (trace : Array Step) (hz : zp.size = n) (hj : jlN < n) (h : G2 n g trace imo imd jlN) :
    ⦃fun o => ⌜o = false⌝⦄ sweepPix nb zp zpmax true imo jlN imd trace
    ⦃⇓ r o => ⌜o = false ∧ G2 n g r.2 imo r.1 (jlN + 1)⌝⦄ := by
  have hnb := C.nbok
  have s1 := nbCnt_spec hnb
  have s2 := nbAt_spec hnb
  have hp : Pix n (jlN : Int) := ⟨by omega, by omega⟩
  have hc := hnb.cnt _ hp
  have he := hnb.ent _ hp
  have hsz := hnb.size
  have hs := h.sizes.1
  have hd := h.sizes.2
  mvcgen [sweepPix, s1, s2]
  case inv1 =>
    exact ⇓⟨_, ipt, _⟩ o => ⌜o = false ∧ (ipt = -1 ∨ (0 ≤ ipt ∧ ipt < nb[(8 + 9 * (jlN : Int)).toNat]! ∧
      imo[(nb[(ipt + 9 * (jlN : Int)).toNat]!).toNat]! ≠ 0))⌝
  all_goals vcr; vcp
  all_goals try rfl
  all_goals try vco
  all_goals try (simp [*]; done)
  case vc18 =>
    have hc := ‹(_ && _) = true›
    simp only [Bool.and_eq_true, bne_iff_ne, ne_eq] at hc
    exact ⟨rfl, Or.inr ⟨by omega, by omega, hc.2⟩⟩
  case vc24 | vc25 =>
    rename_i ipt _ _ _ _ _ _ _ _ _
    grab hor : Or
    have h0 : 0 ≤ ipt := by omega
    have hi := he ipt.toNat (by omega)
    rw [Int.toNat_of_nonneg h0] at hi
    have := hi.1; have := hi.2
    omega
  case vc30 =>
    grab hor : Or
    exact ⟨rfl, h.resolveG C hj (by assumption) (by assumption) hor⟩
  case vc31 | vc32 =>
    exact ⟨rfl, h.skipG⟩

theorem G2i.size (h : G2i n g trace imo) : imo.size = n := by
  obtain ⟨s, -, hR⟩ := h; exact hR.so

theorem step2_specG (C : Ctx n nb imi ind g) {zp : Array Int} (zpmax : Int) {imo : Array Int}
    (trace : Array Step) (hz : zp.size = n) (h : G2i n g trace imo) :
    ⦃fun o => ⌜o = false⌝⦄ step2 n nb zp zpmax true imo trace
    ⦃⇓ r o => ⌜o = false ∧ G2i n g r.2 r.1⌝⦄ := by
  have s1 := fun (zpmax : Int) (imo : Array Int) (jlN : Nat) (imd : Array Int) (trace : Array Step) =>
    @sweepPix_specG n nb imi ind g C zp zpmax imo jlN imd trace hz
  mvcgen [step2, s1]
  case inv1 => exact ⇓⟨_, imo', tr'⟩ o => ⌜o = false ∧ G2i n g tr' imo'⌝
  case inv2 =>
    rename_i b _ _ _ _ _
    exact ⇓⟨xs, tr', imd'⟩ o => ⌜o = false ∧ G2 n g tr' b.1 imd' xs.prefix.length⌝
  all_goals vcr; vcp
  all_goals try rfl
  all_goals try vco
  all_goals try (simp [*]; done)
  case vc5 => grab hG : G2i; exact ⟨rfl, hG.sweepG⟩
  case vc6 | vc7 => grab hG : G2; exact ⟨rfl, hG.doneG⟩

theorem GIdle.to2G {iq : Array Int} {qs qe icl : Int} {ih : Nat} {m : Int}
    (h : GIdle n ind g trace imo imd iq qs qe icl ih m) (hl : ∀ p, p < n → g.level p < ih) : G2i n g trace imo := by
  obtain ⟨s, hrun, -, hR⟩ := h
  exact ⟨s, hrun, hR.to2 hl⟩

/-- **`pt_fld` emits a valid trace**: for a context `Ctx` (neighbour table = adjacency of `g`, symmetric; level map of `g` =
    `imi`, all levels `< ihmax`; `ind` a sorted listing of the pixels) the ghost trace runs through the abstract machine
    on `g` without any guard failing. -/
theorem ptFld_specG (C : Ctx n nb imi ind g) {zp : Array Int} (ihmax : Nat) (iqFill : Int)
    (hz : zp.size = n) (hn : 2 ≤ n) (hl : ∀ p, p < n → g.level p < ihmax) :
    ⦃fun o => ⌜o = false⌝⦄ ptFld n nb imi ind zp ihmax iqFill true
    ⦃⇓ r o => ⌜o = false ∧ G2i n g r.trace r.imo⌝⦄ := by
  have s1 := fun (ihN : Nat) (imo imd iq : Array Int) (qs qe icl m : Int) (trace : Array Step) =>
    @levelStep_specG n nb imi ind g C ihN imo imd iq qs qe icl m trace hn
  have s2 := fun (zpmax : Int) (imo : Array Int) (trace : Array Step) =>
    @step2_specG n nb imi ind g C zp zpmax imo trace hz
  have s3 := @zpMax_spec n zp
  have h0 := GIdle.init C (show 1 ≤ n by omega) iqFill
  mvcgen [ptFld, s1, s2, s3]
  case inv1 =>
    exact ⇓⟨xs, imo', imd', iq', qs', qe', icl', trace', fo, m'⟩ o => ⌜o = false ∧
      GIdle n ind g trace' imo' imd' iq' qs' qe' icl' xs.prefix.length m'⌝
  all_goals vcr; vcp
  all_goals try rfl
  all_goals try vco
  all_goals try (simp [*]; done)
  case vc9 =>
    grab hG : GIdle
    exact hG.to2G (by simpa [range_toList_length] using hl)
end

end WS.Fld

import Lean
import Std.Do
import Std.Tactic.Do
import WsVerif.Model.Specpart
/-! Helper lemmas for `Props/C20fld.lean` (base layer): memory safety and termination of the flooding loops of `pt_fld`
(`Model/Specpart.lean`).  Pure lemmas about the bounds-checked accessors, the circular FIFO, pigeonhole counting,
and the Hoare triples (`Std.Do`) of the individual loops. -/
namespace WS.Fld
open Std.Do WS.SP
set_option mvcgen.warning false

/-! ### accessors -/

theorem rd_eq (a : Array Int) (i : Int) (h0 : 0 ≤ i) (h1 : i.toNat < a.size) (o : Bool) :
    rd a i o = (a[i.toNat]!, o) := by
  unfold rd
  rw [if_neg (by omega)]
  simp [h1]

theorem wr_eq (a : Array Int) (i v : Int) (h0 : 0 ≤ i) (h1 : i.toNat < a.size) (o : Bool) :
    wr a i v o = (a.set! i.toNat v, o) := by
  unfold wr
  rw [if_neg (by omega), if_pos h1]

/-- a Hoare triple over `M = StateM Bool` with pure assertions is a statement about the run -/
theorem triple_iff {α} (x : M α) (P : Bool → Prop) (Q : α → Bool → Prop) :
    ⦃fun o => ⌜P o⌝⦄ x ⦃⇓ r o => ⌜Q r o⌝⦄ ↔ ∀ o, P o → Q (x o).1 (x o).2 := Iff.rfl

@[spec]
theorem rd_spec (a : Array Int) (i : Int) (h0 : 0 ≤ i) (h1 : i.toNat < a.size) :
    ⦃fun o => ⌜o = false⌝⦄ rd a i ⦃⇓ r o => ⌜o = false ∧ r = a[i.toNat]!⌝⦄ := by
  rw [triple_iff]
  intro o ho
  rw [rd_eq a i h0 h1]; exact ⟨ho, rfl⟩

@[spec]
theorem wr_spec (a : Array Int) (i v : Int) (h0 : 0 ≤ i) (h1 : i.toNat < a.size) :
    ⦃fun o => ⌜o = false⌝⦄ wr a i v ⦃⇓ r o => ⌜o = false ∧ r = a.set! i.toNat v⌝⦄ := by
  rw [triple_iff]
  intro o ho
  rw [wr_eq a i v h0 h1]; exact ⟨ho, rfl⟩

theorem size_set (a : Array Int) (i : Nat) (v : Int) : (a.set! i v).size = a.size := by simp

/-- position `cur` of a `for i in [a:b]` loop: `cur = a + #done`, `cur < b` -/
theorem range_split {a b : Nat} {pref suff : List Nat} {cur : Nat}
    (h : [a:b].toList = pref ++ cur :: suff) : cur = a + pref.length ∧ cur < b := by
  simp only [Std.Legacy.Range.toList, Nat.add_sub_cancel, Nat.div_one] at h
  have hl := congrArg List.length h
  simp only [List.length_range', List.length_append, List.length_cons] at hl
  have hg : (List.range' a (b - a))[pref.length]? = some cur := by rw [h]; simp
  rw [List.getElem?_range' (by omega)] at hg
  simp at hg
  omega

/-- pigeonhole: a duplicate-free list of pixels has at most `n` entries -/
theorem pigeon (n : Nat) (l : List Int) (hn : l.Nodup) (h : ∀ x ∈ l, 0 ≤ x ∧ x < n) : l.length ≤ n := by
  have h1 : (l.map Int.toNat).Nodup := by
    rw [List.Nodup, List.pairwise_map]
    exact List.Pairwise.imp_of_mem (fun {a b} ha hb hne heq => hne (by have := h _ ha; have := h _ hb; omega)) hn
  have h2 : l.map Int.toNat ⊆ List.range n := by
    intro x hx
    obtain ⟨y, hy, rfl⟩ := List.mem_map.mp hx
    have := h _ hy
    exact List.mem_range.mpr (by omega)
  have := h1.length_le_of_subset h2
  simpa using this

/-! ### the circular FIFO -/

theorem get_set (a : Array Int) (i j : Nat) (v : Int) :
    (a.set! i v)[j]! = if j = i ∧ i < a.size then v else a[j]! := by
  by_cases hj : j = i
  · subst hj
    by_cases h : j < a.size <;> simp [h]
  · have : i ≠ j := fun h => hj h.symm
    simp [hj, Array.getElem!_eq_getD, Array.getD]
    split <;> simp [*]

theorem mod_ne {n a b : Nat} (h1 : a < b) (h2 : b - a < n) : a % n ≠ b % n := by
  intro h
  have h3 : (b - a) % n = 0 := Nat.sub_mod_eq_zero_of_mod_eq h.symm
  have h4 : n ∣ b - a := Nat.dvd_of_mod_eq_zero h3
  have := Nat.le_of_dvd (by omega) h4
  omega

theorem succ_mod {n e : Nat} (he : e < n) : (e + 1) % n = if e + 1 = n then 0 else e + 1 := by
  split
  · next h => rw [h, Nat.mod_self]
  · next h => exact Nat.mod_eq_of_lt (by omega)

structure QRep (n : Nat) (iq : Array Int) (qs qe : Int) (q : List Int) : Prop where
  size : iq.size = n
  qs0 : 0 ≤ qs
  qsn : qs < n
  len : q.length ≤ n
  qe_eq : qe = ((qs.toNat + q.length) % n : Nat)
  ent : ∀ i (h : i < q.length), iq[(qs.toNat + i) % n]! = q[i]

section
variable {n : Nat} {iq : Array Int} {qs qe : Int} {q : List Int}

theorem QRep.npos (h : QRep n iq qs qe q) : 0 < n := by
  have := h.qs0; have := h.qsn; omega

theorem QRep.qe_range (h : QRep n iq qs qe q) : 0 ≤ qe ∧ qe < n ∧ qe.toNat < iq.size := by
  have hn := h.npos
  have := Nat.mod_lt (qs.toNat + q.length) hn
  have := h.qe_eq; have := h.size
  omega

theorem QRep.empty (hs : iq.size = n) (h0 : 0 ≤ qs) (h1 : qs < n) : QRep n iq qs qs [] := by
  refine ⟨hs, h0, h1, by simp, ?_, by simp⟩
  simp only [List.length_nil, Nat.add_zero]
  rw [Nat.mod_eq_of_lt (by omega)]; omega

theorem QRep.add (h : QRep n iq qs qe q) (hl : q.length < n) (v : Int) :
    QRep n (iq.set! qe.toNat v) qs (fifoNextEnd n qe) (q ++ [v]) := by
  have hn := h.npos
  have hr := h.qe_range
  have hq := h.qe_eq
  have hlt := Nat.mod_lt (qs.toNat + q.length) hn
  have hqe : qe.toNat = (qs.toNat + q.length) % n := by omega
  refine ⟨by simp [h.size], h.qs0, h.qsn, by simp; omega, ?_, ?_⟩
  · simp only [List.length_append, List.length_cons, List.length_nil]
    rw [← Nat.add_assoc, ← Nat.mod_add_mod, ← hqe, succ_mod (by omega)]
    unfold fifoNextEnd
    split <;> split <;> omega
  · intro i hi
    simp only [List.length_append, List.length_cons, List.length_nil] at hi
    rw [get_set]
    by_cases hiL : i < q.length
    · have hne : (qs.toNat + i) % n ≠ qe.toNat := by
        rw [hqe]; exact mod_ne (by omega) (by omega)
      rw [if_neg (fun hh => hne hh.1), h.ent i hiL, List.getElem_append_left hiL]
    · have : i = q.length := by omega
      subst this
      rw [if_pos ⟨hqe.symm, hr.2.2⟩]
      simp

theorem QRep.pop {v : Int} (h : QRep n iq qs qe (v :: q)) :
    iq[qs.toNat]! = v ∧ QRep n iq (fifoNextStart n qs) qe q := by
  have hn := h.npos
  have h0 := h.qs0; have h1 := h.qsn
  have hlen := h.len
  simp only [List.length_cons] at hlen
  have hs' : ((fifoNextStart n qs).toNat) = (qs.toNat + 1) % n := by
    rw [succ_mod (by omega)]; unfold fifoNextStart; split <;> split <;> omega
  have hlt := Nat.mod_lt (qs.toNat + 1) hn
  constructor
  · have := h.ent 0 (by simp)
    simpa [Nat.mod_eq_of_lt (show qs.toNat < n by omega)] using this
  · refine ⟨h.size, by unfold fifoNextStart; split <;> omega, by unfold fifoNextStart; split <;> omega, by omega, ?_, ?_⟩
    · rw [h.qe_eq, hs', Nat.mod_add_mod]
      simp only [List.length_cons]
      congr 2; omega
    · intro i hi
      rw [hs', Nat.mod_add_mod]
      have := h.ent (i + 1) (by simp; omega)
      simp only [List.getElem_cons_succ] at this
      rw [← this]; congr 2; omega

theorem QRep.empty_iff (h : QRep n iq qs qe q) (hl : q.length < n) : qs = qe ↔ q = [] := by
  have hn := h.npos
  have h0 := h.qs0; have h1 := h.qsn
  have hq := h.qe_eq
  constructor
  · intro he
    cases hq' : q with
    | nil => rfl
    | cons a t =>
      exfalso
      have hpos : 0 < q.length := by rw [hq']; simp
      have := mod_ne (n := n) (a := qs.toNat) (b := qs.toNat + q.length) (by omega) (by omega)
      rw [Nat.mod_eq_of_lt (show qs.toNat < n by omega)] at this
      omega
  · intro he
    subst he
    simp only [List.length_nil, Nat.add_zero] at hq
    rw [Nat.mod_eq_of_lt (by omega)] at hq
    omega

end

/-! ### static facts -/

/-- valid pixel index -/
def Pix (n : Nat) (x : Int) : Prop := 0 ≤ x ∧ x < n

/-- the neighbour table: `9n` slots; per pixel a count `0..8` in slot 8 and that many valid pixels in slots `0..` -/
structure NbOK (n : Nat) (nb : Array Int) : Prop where
  size : nb.size = 9 * n
  cnt : ∀ ip : Int, Pix n ip → 0 ≤ nb[(8 + 9 * ip).toNat]! ∧ nb[(8 + 9 * ip).toNat]! ≤ 8
  ent : ∀ ip : Int, Pix n ip → ∀ i : Nat, (i : Int) < nb[(8 + 9 * ip).toNat]! → Pix n nb[((i : Int) + 9 * ip).toNat]!

/-- `ind` lists every pixel once -/
structure IndOK (n : Nat) (ind : Array Int) : Prop where
  size : ind.size = n
  rng : ∀ k : Nat, k < n → Pix n ind[k]!
  inj : ∀ j k : Nat, j < n → k < n → ind[j]! = ind[k]! → j = k

/-! ### verification-condition tactics and accessor specifications -/

/-- clean a verification condition: expose the pure content of assertions, split conjunctions, substitute -/
elab "cases_ands" : tactic => Lean.Elab.Tactic.liftMetaTactic fun g => do
  let g ← g.casesAnd
  return [g]

macro "vcc" : tactic => `(tactic| (
  intros
  (try dsimp only at *)
  (try simp only [SPred.down_pure_nil] at *)
  cases_ands
  subst_vars))

/-- arithmetic finish -/
macro "vco" : tactic => `(tactic| ((try simp only [Pix] at *); omega))

open Lean Elab Tactic Meta in
/-- `grab h : C` gives the name `h` to the most recent hypothesis whose type has head constant `C` -/
elab "grab " h:ident " : " c:ident : tactic => do
  let cname ← realizeGlobalConstNoOverloadWithInfo c
  liftMetaTactic fun g => g.withContext do
    let lctx ← getLCtx
    for d in lctx.decls.toList.reverse.filterMap id do
      if d.isImplementationDetail then continue
      let t ← instantiateMVars d.type
      if t.getAppFn.isConstOf cname then
        let g' ← g.rename d.fvarId h.getId
        return [g']
    throwError "grab: no hypothesis with head {cname}"

open Lean Elab Tactic Meta in
/-- `grab_all h` names the most recent hypothesis that is a universally quantified statement (`∀ x : α, …`, `α` a type) -/
elab "grab_all " h:ident : tactic => do
  liftMetaTactic fun g => g.withContext do
    let lctx ← getLCtx
    for d in lctx.decls.toList.reverse.filterMap id do
      if d.isImplementationDetail || d.isLet then continue
      let t ← instantiateMVars d.type
      if t.isForall then
        if !(← isProp t.bindingDomain!) then
          if (← isProp t) then
            let g' ← g.rename d.fvarId h.getId
            return [g']
    throwError "grab_all: no universally quantified hypothesis"

open Lean Elab Tactic Meta in
/-- destructure every tuple-valued variable of the context -/
elab "cases_prods" : tactic => liftMetaTactic fun g => do
  g.casesRec fun d => do
    if d.isLet then return false
    let t ← instantiateMVars d.type
    return t.isAppOf ``Prod

open Lean Elab Tactic Meta in
/-- destructure every conjunction and existential of the context -/
elab "cases_hyps" : tactic => liftMetaTactic fun g => do
  g.casesRec fun d => do
    if d.isLet then return false
    let t ← instantiateMVars d.type
    return t.isAppOf ``And || t.isAppOf ``Exists

/-- clean a verification condition (tuples destructured first, `let`s inlined) -/
macro "vcp" : tactic => `(tactic| (
  intros
  (try cases_prods)
  (try dsimp +zetaDelta only at *)
  (try simp only [SPred.down_pure_nil, Prod.mk.injEq] at *)
  cases_hyps
  subst_vars))

theorem range_split0 {b : Nat} {pref suff : List Nat} {cur : Nat}
    (h : [0:b].toList = pref ++ cur :: suff) : cur = pref.length ∧ cur < b := by
  have := range_split h; omega

open Lean Elab Tactic Meta in
/-- for every loop cursor `[a:b].toList = pref ++ cur :: suff` of the context add `cur = a + pref.length ∧ cur < b` -/
elab "range_facts" : tactic => liftMetaTactic fun g => g.withContext do
  let mut g := g
  for d in (← getLCtx) do
    if d.isImplementationDetail then continue
    let t ← instantiateMVars d.type
    if t.isAppOfArity ``Eq 3 && (t.getArg! 1).isAppOf ``Std.Legacy.Range.toList then
      try
        let pf ← (mkAppM ``WS.Fld.range_split0 #[d.toExpr]) <|> (mkAppM ``WS.Fld.range_split #[d.toExpr])
        let ty ← inferType pf
        let (_, g') ← (← g.assert `hrs ty pf).intro1
        g := g'
      catch _ => pure ()
  return [g]

/-- position of the loop cursor(s) -/
macro "vcr" : tactic => `(tactic| (try range_facts))

theorem nbCnt_spec {n : Nat} {nb : Array Int} (hnb : NbOK n nb) (ip : Int) (hp : Pix n ip) :
    ⦃fun o => ⌜o = false⌝⦄ nbCnt nb ip ⦃⇓ r o => ⌜o = false ∧ r = nb[(8 + 9 * ip).toNat]! ∧ 0 ≤ r ∧ r ≤ 8⌝⦄ := by
  have hs := hnb.size
  have hc := hnb.cnt ip hp
  unfold Pix at hp
  unfold nbCnt
  mvcgen
  all_goals vcc
  all_goals first | vco | (refine ⟨rfl, rfl, ?_, ?_⟩ <;> omega)

theorem nbAt_spec {n : Nat} {nb : Array Int} (hnb : NbOK n nb) (ip : Int) (i : Nat) (hp : Pix n ip)
    (hi : (i : Int) < nb[(8 + 9 * ip).toNat]!) :
    ⦃fun o => ⌜o = false⌝⦄ nbAt nb ip i ⦃⇓ r o => ⌜o = false ∧ r = nb[((i : Int) + 9 * ip).toNat]! ∧ Pix n r⌝⦄ := by
  have hs := hnb.size
  have hc := hnb.cnt ip hp
  have he := hnb.ent ip hp i hi
  unfold Pix at hp
  unfold nbAt
  mvcgen
  all_goals vcc
  all_goals first | vco | (exact ⟨rfl, rfl, he⟩)

theorem indAt_spec {n : Nat} {ind : Array Int} (hind : IndOK n ind) (m : Int) (h0 : 0 ≤ m) (h1 : m < n) :
    ⦃fun o => ⌜o = false⌝⦄ indAt ind m ⦃⇓ r o => ⌜o = false ∧ r = ind[m.toNat]! ∧ Pix n r⌝⦄ := by
  have hs := hind.size
  have hr := hind.rng m.toNat (by omega)
  unfold indAt
  mvcgen
  all_goals vcc
  all_goals first | vco | (exact ⟨rfl, rfl, hr⟩)

theorem scan1a_spec {n : Nat} {nb imo : Array Int} {ip : Int} (hnb : NbOK n nb) (hs : imo.size = n) (hp : Pix n ip) :
    ⦃fun o => ⌜o = false⌝⦄ scan1a nb imo ip
    ⦃⇓ r o => ⌜o = false ∧ (r = true → ∃ x : Int, Pix n x ∧ 0 ≤ imo[x.toNat]!)⌝⦄ := by
  have s1 := nbCnt_spec hnb
  have s2 := nbAt_spec hnb
  mvcgen [scan1a, s1, s2]
  case inv1 =>
    exact ⇓⟨_, found⟩ o => ⌜o = false ∧ (found = true → ∃ x : Int, Pix n x ∧ 0 ≤ imo[x.toNat]!)⌝
  all_goals vcr; vcc
  all_goals try vco
  all_goals try (simp_all; done)
  case vc9.step.post.success.post.success.isTrue =>
    rename_i hor
    simp at hor
    exact ⟨rfl, fun _ => ⟨_, ‹Pix _ _›, by omega⟩⟩


theorem get_setI {a : Array Int} {i x : Int} (v : Int) (h0 : 0 ≤ i) (hx : 0 ≤ x) (hi : i.toNat < a.size) :
    (a.set! i.toNat v)[x.toNat]! = if x = i then v else a[x.toNat]! := by
  rw [get_set]
  by_cases h : x = i
  · subst h; simp [hi]
  · rw [if_neg (fun hh => h (by omega)), if_neg h]

theorem QRep.eq_nil {n : Nat} {iq : Array Int} {qs qe : Int} {q : List Int} (h : QRep n iq qs qe q)
    (hl : q.length + 1 ≤ n) (he : (qs == qe) = true) : q = [] :=
  (h.empty_iff (by omega)).mp (by simpa using he)

theorem QRep.eq_cons {n : Nat} {iq : Array Int} {qs qe : Int} {q : List Int} (h : QRep n iq qs qe q)
    (hl : q.length + 1 ≤ n) (he : ¬(qs == qe) = true) : ∃ v t, q = v :: t := by
  cases q with
  | nil => exact absurd ((h.empty_iff (by omega)).mpr rfl) (by simpa using he)
  | cons v t => exact ⟨v, t, rfl⟩

theorem QRep.qs_ok {n : Nat} {iq : Array Int} {qs qe : Int} {q : List Int} (h : QRep n iq qs qe q) :
    0 ≤ qs ∧ qs.toNat < iq.size := by
  have := h.qs0; have := h.qsn; have := h.size; omega


theorem fifoAdd_spec (nspec : Int) (iq : Array Int) (qe v : Int) (h0 : 0 ≤ qe) (h1 : qe.toNat < iq.size) :
    ⦃fun o => ⌜o = false⌝⦄ fifoAdd nspec iq qe v
    ⦃⇓ r o => ⌜o = false ∧ r = (iq.set! qe.toNat v, fifoNextEnd nspec qe)⌝⦄ := by
  mvcgen [fifoAdd]
  all_goals vcc
  all_goals first | omega | rfl | (exact ⟨rfl, rfl⟩)

theorem fifoFirst_spec (nspec : Int) (iq : Array Int) (qs : Int) (h0 : 0 ≤ qs) (h1 : qs.toNat < iq.size) :
    ⦃fun o => ⌜o = false⌝⦄ fifoFirst nspec iq qs
    ⦃⇓ r o => ⌜o = false ∧ r = (iq[qs.toNat]!, fifoNextStart nspec qs)⌝⦄ := by
  mvcgen [fifoFirst]
  all_goals vcc
  all_goals first | omega | rfl | (exact ⟨rfl, rfl⟩)


/-- ghost generalisation: a family of specifications of the same run, indexed by ghost data `i` -/
theorem triple_forall {α : Type} {ι : Sort _} (x : M α) (H : ι → Prop) (Q : ι → α → Prop)
    (h : ∀ i, H i → ⦃fun o => ⌜o = false⌝⦄ x ⦃⇓ r o => ⌜o = false ∧ Q i r⌝⦄) (hex : ∃ i, H i) :
    ⦃fun o => ⌜o = false⌝⦄ x ⦃⇓ r o => ⌜o = false ∧ ∀ i, H i → Q i r⌝⦄ := by
  rw [triple_iff]
  intro o ho
  obtain ⟨i0, h0⟩ := hex
  exact ⟨((triple_iff _ _ _).mp (h i0 h0) o ho).1, fun i hi => ((triple_iff _ _ _).mp (h i hi) o ho).2⟩


end WS.Fld

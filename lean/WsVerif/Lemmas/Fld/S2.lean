import WsVerif.Lemmas.Fld.Base
/-! Step 2 of `pt_fld` (five clean-up sweeps) and the `zpmax` loop: Hoare triples. -/
namespace WS.Fld
open Std.Do WS.SP
set_option mvcgen.warning false

theorem sweepPix_spec {n : Nat} {nb zp : Array Int} (zpmax : Int) (tr : Bool) {imo : Array Int} {jlN : Nat}
    {imd : Array Int} (trace : Array Flood.Step)
    (hnb : NbOK n nb) (hz : zp.size = n) (hs : imo.size = n) (hd : imd.size = n) (hj : jlN < n) :
    ⦃fun o => ⌜o = false⌝⦄ sweepPix nb zp zpmax tr imo jlN imd trace
    ⦃⇓ r o => ⌜o = false ∧ r.1.size = n⌝⦄ := by
  have s1 := nbCnt_spec hnb
  have s2 := nbAt_spec hnb
  have hp : Pix n (jlN : Int) := ⟨by omega, by omega⟩
  have hc := hnb.cnt _ hp
  have he := hnb.ent _ hp
  have hsz := hnb.size
  mvcgen [sweepPix, s1, s2]
  case inv1 =>
    exact ⇓⟨_, ipt, _⟩ o => ⌜o = false ∧ (ipt = -1 ∨ (0 ≤ ipt ∧ ipt < nb[(8 + 9 * (jlN : Int)).toNat]!))⌝
  all_goals vcr; vcp
  all_goals try rfl
  all_goals try vco
  all_goals try (simp [*]; done)
  case vc18 => exact ⟨rfl, Or.inr ⟨by omega, by omega⟩⟩
  case vc24 | vc25 =>
    rename_i ipt _ _ _ _ _ _ _ _ _
    grab hor : Or
    have h0 : 0 ≤ ipt := by omega
    have hi := he ipt.toNat (by omega)
    rw [Int.toNat_of_nonneg h0] at hi
    have := hi.1; have := hi.2
    omega

theorem step2_spec {n : Nat} {nb zp : Array Int} (zpmax : Int) (tr : Bool) {imo : Array Int}
    (trace : Array Flood.Step) (hnb : NbOK n nb) (hz : zp.size = n) (hs : imo.size = n) :
    ⦃fun o => ⌜o = false⌝⦄ step2 n nb zp zpmax tr imo trace
    ⦃⇓ r o => ⌜o = false ∧ r.1.size = n⌝⦄ := by
  have s1 := @sweepPix_spec n nb zp
  mvcgen [step2, s1]
  case inv1 => exact ⇓⟨_, imo', _⟩ o => ⌜o = false ∧ imo'.size = n⌝
  case inv2 => exact ⇓⟨_, _, imd'⟩ o => ⌜o = false ∧ imd'.size = n⌝
  all_goals vcr; vcp
  all_goals try rfl
  all_goals try vco
  all_goals try (simp [*]; done)

theorem zpMax_spec {n : Nat} {zp : Array Int} (hz : zp.size = n) (hn : 1 ≤ n) :
    ⦃fun o => ⌜o = false⌝⦄ zpMax n zp ⦃⇓ _ o => ⌜o = false⌝⦄ := by
  mvcgen [zpMax]
  case inv1 => exact ⇓⟨_, _⟩ o => ⌜o = false⌝
  all_goals vcr; vcp
  all_goals try rfl
  all_goals try vco
  all_goals try (simp [*]; done)

end WS.Fld

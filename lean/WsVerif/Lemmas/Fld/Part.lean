import WsVerif.Lemmas.Fld.Top
import WsVerif.Lemmas.Fld.Table
import WsVerif.Lemmas.Fld.Sort
/-! The whole of `partition` (copy loops, range loop, constant branch, `ptsort`, `pt_fld`, copy back). -/
namespace WS.Fld
open Std.Do WS.SP
set_option mvcgen.warning false

theorem idx_km {mk mth f a : Nat} (hf : f < mk) (ha : a < mth) :
    0 ≤ (f : Int) + (mk : Int) * (a : Int) ∧ ((f : Int) + (mk : Int) * (a : Int)).toNat < mk * mth := by
  have h : (f : Int) + (mk : Int) * (a : Int) = ((f + mk * a : Nat) : Int) := by simp
  rw [h, Int.toNat_natCast]
  exact ⟨by omega, NeighL.lin_lt hf ha⟩

theorem idx_mk {mk mth f a : Nat} (hf : f < mk) (ha : a < mth) :
    0 ≤ (f : Int) * (mth : Int) + (a : Int) ∧ ((f : Int) * (mth : Int) + (a : Int)).toNat < mk * mth := by
  have h : (f : Int) * (mth : Int) + (a : Int) = ((a + mth * f : Nat) : Int) := by
    rw [Int.natCast_add, Int.natCast_mul, Int.mul_comm, Int.add_comm]
  rw [h, Int.toNat_natCast]
  refine ⟨by omega, ?_⟩
  have := NeighL.lin_lt (mk := mth) (mth := mk) ha hf
  rwa [Nat.mul_comm mth mk] at this

theorem map_level_bound (ihmax : Nat) (hi : 1 ≤ ihmax) (zmin zmax : Int) (r : Array Int) (i : Nat) (h : i < r.size) :
    0 ≤ (r.map fun v => ((levelOf ihmax zmin zmax v : Nat) : Int))[i]! ∧
    (r.map fun v => ((levelOf ihmax zmin zmax v : Nat) : Int))[i]! < ihmax := by
  have hlt : i < (r.map fun v => ((levelOf ihmax zmin zmax v : Nat) : Int)).size := by simpa using h
  have e : (r.map fun v => ((levelOf ihmax zmin zmax v : Nat) : Int))[i]! = ((levelOf ihmax zmin zmax r[i] : Nat) : Int) := by
    simp [h]
  rw [e]
  have : levelOf ihmax zmin zmax r[i] ≤ ihmax - 1 := by unfold levelOf; exact Nat.min_le_right _ _
  omega

theorem partitionM_spec (nk nth ihmax : Nat) (spec : Array Int) (iqFill : Int) (tr : Bool)
    (hk : 1 ≤ nk) (ht : 1 ≤ nth) (hi : 1 ≤ ihmax) (hs : spec.size = nk * nth) :
    ⦃fun o => ⌜o = false⌝⦄ partitionM nk nth ihmax (Neigh.table nk nth) spec iqFill tr
    ⦃⇓ r o => ⌜o = false ∧ r.fuelOut = false ∧ (r.const = false →
      r.ind.toList = (ptsortSpec ihmax (nk * nth) (levOf r.imi)).map (fun (x : Nat) => (x : Int)))⌝⦄ := by
  have hnb := table_ok nk nth
  have hpos : 1 ≤ nk * nth := Nat.mul_pos hk ht
  have s1 := @ptsort_spec ihmax (nk * nth)
  have s2 := @ptFld_spec (nk * nth) (Neigh.table nk nth)
  mvcgen [partitionM, s1, s2]
  case inv1 => exact ⇓⟨_, z⟩ o => ⌜o = false ∧ z.size = nk * nth⌝
  case inv2 => exact ⇓⟨_, z⟩ o => ⌜o = false ∧ z.size = nk * nth⌝
  case inv3 => exact ⇓⟨_, zmin, zmax⟩ o => ⌜o = false ∧ (nk * nth ≤ 1 → zmax = zmin)⌝
  case inv4 => exact ⇓⟨_, out⟩ o => ⌜o = false ∧ out.size = nk * nth⌝
  case inv5 => exact ⇓⟨_, out⟩ o => ⌜o = false ∧ out.size = nk * nth⌝
  all_goals vcr; vcp
  all_goals try rfl
  all_goals try vco
  all_goals try (simp [*]; done)
  all_goals try (have h1 := idx_mk (mk := nk) (mth := nth) ‹_ < nk› ‹_ < nth›
                 have h2 := idx_km (mk := nk) (mth := nth) ‹_ < nk› ‹_ < nth›
                 omega)
  case vc18 | vc19 | vc20 => exact ⟨rfl, fun h => by omega⟩
  case vc25 =>
    exact map_level_bound _ hi _ _ _ _ (by omega)
  case vc31 =>
    have hne := ‹¬(_ == _) = true›
    apply Classical.byContradiction
    intro hlt
    have := ‹nk * nth ≤ 1 → _› (by omega)
    simp [this] at hne

end WS.Fld

import WsVerif.Lemmas.Fld.S1a
import WsVerif.Lemmas.Fld.S1b
import WsVerif.Lemmas.Fld.S1c
import WsVerif.Lemmas.Fld.S2
/-! Composition: one level of step 1 (`levelStep`) and the whole of `pt_fld` (`ptFld`). -/
namespace WS.Fld
open Std.Do WS.SP
set_option mvcgen.warning false

theorem levelStep_spec {n : Nat} {nb imi ind : Array Int} (ihN : Nat) (tr : Bool) {imo imd iq : Array Int}
    {qs qe icl m : Int} (trace : Array Flood.Step)
    (hnb : NbOK n nb) (hind : IndOK n ind) (hi : imi.size = n) (hn : 2 ≤ n)
    (h : Idle n imo imd iq qs qe icl m) :
    ⦃fun o => ⌜o = false⌝⦄ levelStep n nb imi ind ihN tr imo imd iq qs qe icl m trace
    ⦃⇓ r o => ⌜o = false ∧ r.2.2.2.2.2.2.2.2 = false ∧
      Idle n r.1 r.2.1 r.2.2.1 r.2.2.2.1 r.2.2.2.2.1 r.2.2.2.2.2.1 r.2.2.2.2.2.2.1⌝⦄ := by
  have s1 := fun ih tr imo imd iq qe m trace =>
    @step1a_spec n nb imi ind ih tr imo imd iq qs qe m trace hnb hind hi
  have s2 := @step1b_spec n nb
  have s3 := @step1c_spec n nb imi ind
  mvcgen [levelStep, s1, s2, s3]
  all_goals vcp
  all_goals try rfl
  all_goals try vco
  all_goals try (simp [*]; done)
  case vc1 => exact h.so
  case vc2 => exact h.sd
  case vc3 => exact h.q
  case vc4 => exact h.m0
  case vc5 => exact h.m1
  case vc14 => exact ⟨by assumption, by assumption, h.m0, h.m1, h.icl0, by assumption⟩

theorem Idle.init {n : Nat} (hn : 1 ≤ n) (iqFill : Int) :
    Idle n (Array.replicate n (-1)) (Array.replicate n 0) (Array.replicate n iqFill) 0 0 0 0 :=
  ⟨by simp, by simp, by omega, by omega, by omega, QRep.empty (by simp) (by omega) (by omega)⟩

theorem ptFld_spec {n : Nat} {nb imi ind zp : Array Int} (ihmax : Nat) (iqFill : Int) (tr : Bool)
    (hnb : NbOK n nb) (hind : IndOK n ind) (hi : imi.size = n) (hz : zp.size = n) (hn : 2 ≤ n) :
    ⦃fun o => ⌜o = false⌝⦄ ptFld n nb imi ind zp ihmax iqFill tr
    ⦃⇓ r o => ⌜o = false ∧ r.fuelOut = false ∧ r.imo.size = n⌝⦄ := by
  have s1 := @levelStep_spec n nb imi ind
  have s2 := @step2_spec n nb zp
  have s3 := @zpMax_spec n zp
  have h0 := Idle.init (show 1 ≤ n by omega) iqFill
  mvcgen [ptFld, s1, s2, s3]
  case inv1 =>
    exact ⇓⟨_, imo', imd', iq', qs', qe', icl', trace', fo, m'⟩ o => ⌜o = false ∧ fo = false ∧
      Idle n imo' imd' iq' qs' qe' icl' m'⌝
  all_goals vcr; vcp
  all_goals try rfl
  all_goals try vco
  all_goals try (simp [*]; done)
  case vc15 => grab hI : Idle; exact hI.so

end WS.Fld

import WsVerif.Lemmas.Fld.Base
/-! Step 1a of `pt_fld` (marking loop): invariants and Hoare triple. -/
namespace WS.Fld
open Std.Do WS.SP
set_option mvcgen.warning false

/-! ### step 1a: pure invariants -/

/-- the pixels waiting in the queue during 1a/1b: distinct, valid, still `MASK`, with a distance -/
structure PixQ (n : Nat) (imo imd : Array Int) (l : List Int) : Prop where
  nodup : l.Nodup
  pix : ∀ x ∈ l, Pix n x
  mask : ∀ x ∈ l, imo[x.toNat]! = -2
  dist : ∀ x ∈ l, imd[x.toNat]! ≠ 0

theorem PixQ.nil (n : Nat) (imo imd : Array Int) : PixQ n imo imd [] :=
  ⟨List.nodup_nil, by simp, by simp, by simp⟩

/-- queue state of step 1a at position `m`: entries are pixels `ind[k]`, `msave ≤ k < m`, and one slot is spare -/
def Q1a (n : Nat) (ind : Array Int) (msave m : Int) (imo imd iq : Array Int) (qs qe : Int) : Prop :=
  ∃ q, QRep n iq qs qe q ∧ PixQ n imo imd q ∧ q.length + 1 ≤ n ∧
    ∀ x ∈ q, ∃ k : Nat, msave ≤ (k : Int) ∧ (k : Int) < m ∧ x = ind[k]!

theorem Q1a.qe_ok {n ind msave m imo imd iq qs qe} (h : Q1a n ind msave m imo imd iq qs qe) :
    0 ≤ qe ∧ qe.toNat < iq.size := by
  obtain ⟨q, hq, -⟩ := h
  have := hq.qe_range; omega

section
variable {n : Nat} {ind imo imd iq : Array Int} {msave m qs qe : Int}

theorem Q1a.mono {m' : Int} (h : Q1a n ind msave m imo imd iq qs qe) (hle : m ≤ m') :
    Q1a n ind msave m' imo imd iq qs qe := by
  obtain ⟨q, a, b, c, d⟩ := h
  refine ⟨q, a, b, c, fun x hx => ?_⟩
  obtain ⟨k, e, f, g⟩ := d x hx
  exact ⟨k, e, by omega, g⟩

theorem Q1a.init (hq : QRep n iq qs qe []) : Q1a n ind m m imo imd iq qs qe :=
  ⟨[], hq, PixQ.nil _ _ _, by have := hq.npos; simp; omega, by simp⟩

/-- the pixel about to be marked is not in the queue -/
theorem Q1a.fresh (hind : IndOK n ind) (h0 : 0 ≤ msave) (h1 : msave ≤ m) (h2 : m < n)
    {q : List Int} (hk : ∀ x ∈ q, ∃ k : Nat, msave ≤ (k : Int) ∧ (k : Int) < m ∧ x = ind[k]!) :
    ind[m.toNat]! ∉ q := by
  intro hmem
  obtain ⟨k, hk0, hk1, hke⟩ := hk _ hmem
  have := hind.inj m.toNat k (by omega) (by omega) hke
  omega

/-- 1a, pixel not queued: mark `ind[m]` -/
theorem Q1a.mark (hind : IndOK n ind) (h0 : 0 ≤ msave) (h1 : msave ≤ m) (h2 : m < n) (hs : imo.size = n)
    (h : Q1a n ind msave m imo imd iq qs qe) :
    Q1a n ind msave (m + 1) (imo.set! (ind[m.toNat]!).toNat (-2)) imd iq qs qe := by
  obtain ⟨q, hq, hp, hl, hk⟩ := h
  have hpx := hind.rng m.toNat (by omega)
  refine ⟨q, hq, ⟨hp.nodup, hp.pix, ?_, hp.dist⟩, hl, ?_⟩
  · intro x hx
    have := hp.pix x hx
    rw [get_setI _ hpx.1 this.1 (by have := hpx.2; omega)]
    split
    · rfl
    · exact hp.mask x hx
  · intro x hx
    obtain ⟨k, a, b, c⟩ := hk x hx
    exact ⟨k, a, by omega, c⟩

/-- 1a, pixel queued: mark `ind[m]`, set its distance, append it -/
theorem Q1a.add (hind : IndOK n ind) (h0 : 0 ≤ msave) (h1 : msave ≤ m) (h2 : m < n) (hs : imo.size = n)
    (hd : imd.size = n) (h : Q1a n ind msave m imo imd iq qs qe)
    (hw : ∃ w : Int, Pix n w ∧ 0 ≤ (imo.set! (ind[m.toNat]!).toNat (-2))[w.toNat]!) :
    Q1a n ind msave (m + 1) (imo.set! (ind[m.toNat]!).toNat (-2)) (imd.set! (ind[m.toNat]!).toNat 1)
      (iq.set! qe.toNat ind[m.toNat]!) qs (fifoNextEnd n qe) := by
  have hfresh := fun q hk => Q1a.fresh (q := q) hind h0 h1 h2 hk
  obtain ⟨q, hq, hp, hl, hk⟩ := h
  have hfresh := hfresh q hk
  have hpx := hind.rng m.toNat (by omega)
  generalize hip : ind[m.toNat]! = ip at *
  obtain ⟨w, hw, hwl⟩ := hw
  have hipn : ip.toNat < imo.size := by have := hpx.2; omega
  have hmask : ∀ x ∈ q, (imo.set! ip.toNat (-2))[x.toNat]! = -2 := by
    intro x hx
    rw [get_setI _ hpx.1 (hp.pix x hx).1 hipn]
    split
    · rfl
    · exact hp.mask x hx
  have hwq : w ∉ q := fun hx => by have := hmask w hx; omega
  have hwip : w ≠ ip := by
    intro he; subst he
    rw [get_setI _ hpx.1 hpx.1 hipn, if_pos rfl] at hwl; omega
  have hnd : (q ++ [ip, w]).Nodup := by
    rw [List.nodup_append]
    refine ⟨hp.nodup, ?_, ?_⟩
    · simp [Ne.symm hwip]
    · intro a ha b hb
      simp at hb
      rcases hb with rfl | rfl
      · exact fun e => hfresh (e ▸ ha)
      · exact fun e => hwq (e ▸ ha)
  have hlen := pigeon n _ hnd (by
    intro x hx
    simp at hx
    rcases hx with hx | rfl | rfl
    · exact hp.pix x hx
    · exact hpx
    · exact hw)
  simp at hlen
  refine ⟨q ++ [ip], hq.add (by omega) ip, ⟨?_, ?_, ?_, ?_⟩, by simp; omega, ?_⟩
  · rw [List.nodup_append]
    exact ⟨hp.nodup, by simp, by intro a ha b hb; simp at hb; subst hb; exact fun e => hfresh (e ▸ ha)⟩
  · intro x hx; simp at hx; rcases hx with hx | rfl
    · exact hp.pix x hx
    · exact hpx
  · intro x hx; simp at hx; rcases hx with hx | rfl
    · exact hmask x hx
    · rw [get_setI _ hpx.1 hpx.1 hipn, if_pos rfl]
  · intro x hx; simp at hx; rcases hx with hx | rfl
    · rw [get_setI _ hpx.1 (hp.pix x hx).1 (by have := hpx.2; omega)]
      split
      · omega
      · exact hp.dist x hx
    · rw [get_setI _ hpx.1 hpx.1 (by have := hpx.2; omega), if_pos rfl]; omega
  · intro x hx; simp at hx; rcases hx with hx | rfl
    · obtain ⟨k, a, b, c⟩ := hk x hx
      exact ⟨k, a, by omega, c⟩
    · exact ⟨m.toNat, by omega, by omega, hip.symm⟩
end

/-- queue state handed from 1a to 1b: pixel entries only, one slot spare for the fictitious pixel -/
def Post1a (n : Nat) (imo imd iq : Array Int) (qs qe : Int) : Prop :=
  imo.size = n ∧ imd.size = n ∧ ∃ q, QRep n iq qs qe q ∧ PixQ n imo imd q ∧ q.length + 1 ≤ n

theorem Q1a.post {n ind msave m imo imd iq qs qe} (h : Q1a n ind msave m imo imd iq qs qe)
    (hs : imo.size = n) (hd : imd.size = n) : Post1a n imo imd iq qs qe := by
  obtain ⟨q, a, b, c, -⟩ := h
  exact ⟨hs, hd, q, a, b, c⟩

theorem step1a_spec {n : Nat} {nb imi ind : Array Int} (ih : Int) (tr : Bool) {imo imd iq : Array Int} {qs qe m : Int}
    (trace : Array Flood.Step)
    (hnb : NbOK n nb) (hind : IndOK n ind) (hi : imi.size = n) (hs : imo.size = n) (hd : imd.size = n)
    (hq : QRep n iq qs qe []) (hm0 : 0 ≤ m) (hm1 : m < n) :
    ⦃fun o => ⌜o = false⌝⦄ step1a n nb imi ind ih tr imo imd iq qe m trace
    ⦃⇓ r o => ⌜o = false ∧ r.2.2.2.2.2.2 = true ∧ Post1a n r.1 r.2.1 r.2.2.1 qs r.2.2.2.1⌝⦄ := by
  have s1 := indAt_spec hind
  have s2 := @scan1a_spec n nb
  mvcgen [step1a, s1, s2, fifoAdd_spec]
  case inv1 =>
    exact ⇓⟨xs, imo', imd', iq', qe', m', _, brk⟩ o => ⌜o = false ∧ imo'.size = n ∧ imd'.size = n ∧ 0 ≤ m' ∧ m' < n ∧
      ((brk = false ∧ m' = m + xs.prefix.length ∧ Q1a n ind m m' imo' imd' iq' qs qe') ∨
       (brk = true ∧ xs.suffix = [] ∧ Q1a n ind m (m' + 1) imo' imd' iq' qs qe'))⌝
  all_goals vcr; vcp
  all_goals try (grab hor : Or; rcases hor with ⟨hb, hm, hQ⟩ | ⟨hb, hnil, hQ⟩ <;> try (simp at hnil; done))
  all_goals try rfl
  all_goals try (have hqe := hQ.qe_ok)
  all_goals try vco
  all_goals try (simp [*]; done)
  case vc7.step.post.success.post.success.isTrue =>
    exact ⟨rfl, by assumption, by assumption, by omega, by omega, Or.inr ⟨by trivial, by trivial, hQ.mono (by omega)⟩⟩
  case vc21.step.post.success.post.success.isFalse.post.success.post.success.isTrue.post.success.post.success.isTrue =>
    refine ⟨rfl, by simp [*], by simp [*], by omega, by omega, Or.inr ⟨by trivial, by trivial, ?_⟩⟩
    exact hQ.add hind hm0 (by omega) (by omega) (by assumption) (by assumption) (‹true = true → _› rfl)
  case vc22.step.post.success.post.success.isFalse.post.success.post.success.isTrue.post.success.post.success.isFalse =>
    refine ⟨rfl, by simp [*], by simp [*], by omega, by omega, Or.inl ⟨hb, by simp; omega, ?_⟩⟩
    exact hQ.add hind hm0 (by omega) (by omega) (by assumption) (by assumption) (‹true = true → _› rfl)
  case vc23.step.post.success.post.success.isFalse.post.success.post.success.isFalse.isTrue =>
    refine ⟨rfl, by simp [*], by assumption, by omega, by omega, Or.inr ⟨by trivial, by trivial, ?_⟩⟩
    exact hQ.mark hind hm0 (by omega) (by omega) (by assumption)
  case vc24.step.post.success.post.success.isFalse.post.success.post.success.isFalse.isFalse =>
    refine ⟨rfl, by simp [*], by assumption, by omega, by omega, Or.inl ⟨hb, by simp; omega, ?_⟩⟩
    exact hQ.mark hind hm0 (by omega) (by omega) (by assumption)
  case vc25.pre =>
    exact ⟨rfl, hs, hd, hm0, hm1, Or.inl ⟨by trivial, by simp, Q1a.init hq⟩⟩
  case vc26.post.success.inl =>
    simp [Std.Legacy.Range.toList] at hm; omega
  case vc26.post.success.inr =>
    exact ⟨rfl, hb, hQ.post (by assumption) (by assumption)⟩

end WS.Fld

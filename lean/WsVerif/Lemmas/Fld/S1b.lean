import WsVerif.Lemmas.Fld.S1a
/-! Step 1b of `pt_fld` (propagation in geodesic-distance order through the circular FIFO): invariants and Hoare triples. -/
namespace WS.Fld
open Std.Do WS.SP
set_option mvcgen.warning false

/-! ### step 1b: pure invariants -/

/-- geodesic propagation: `D` = pixels already dequeued at this level, `A`, `B` = pixels waiting before / after the
    fictitious pixel; all distinct, all with a distance, the waiting ones still `MASK` -/
structure QB (n : Nat) (imo imd : Array Int) (D A B : List Int) : Prop where
  nodup : (D ++ (A ++ B)).Nodup
  pix : ∀ x ∈ D ++ (A ++ B), Pix n x
  dist : ∀ x ∈ D ++ (A ++ B), imd[x.toNat]! ≠ 0
  mask : ∀ x ∈ A ++ B, imo[x.toNat]! = -2

theorem QB.len {n : Nat} {imo imd : Array Int} {D A B : List Int} (h : QB n imo imd D A B) :
    D.length + A.length + B.length ≤ n := by
  have := pigeon n _ h.nodup h.pix
  simp at this; omega

/-- loop head of 1b after `k` dequeued pixels: the queue is `A ++ fict :: B` -/
def Q1b (n : Nat) (imo imd iq : Array Int) (qs qe : Int) (k : Nat) : Prop :=
  ∃ D A B, D.length = k ∧ QRep n iq qs qe (A ++ (-100) :: B) ∧ QB n imo imd D A B

/-- inside an iteration of 1b: pixel `ip` has just been dequeued -/
def Q1bMid (n : Nat) (imo imd iq : Array Int) (qs qe : Int) (k : Nat) (ip : Int) : Prop :=
  ∃ D A B, D.length = k ∧ ip ∈ D ∧ QRep n iq qs qe (A ++ (-100) :: B) ∧ QB n imo imd D A B

section
variable {n : Nat} {imo imd iq : Array Int} {qs qe ip : Int} {k : Nat}

theorem Q1bMid.toQ1b (h : Q1bMid n imo imd iq qs qe k ip) : Q1b n imo imd iq qs qe k := by
  obtain ⟨D, A, B, a, -, b, c⟩ := h; exact ⟨D, A, B, a, b, c⟩

theorem Q1b.len (h : Q1b n imo imd iq qs qe k) : k ≤ n := by
  obtain ⟨D, A, B, a, -, c⟩ := h; have := c.len; omega

theorem Q1b.qs_ok (h : Q1b n imo imd iq qs qe k) : 0 ≤ qs ∧ qs.toNat < iq.size := by
  obtain ⟨D, A, B, -, b, -⟩ := h; exact b.qs_ok

theorem Q1bMid.qe_ok (h : Q1bMid n imo imd iq qs qe k ip) : 0 ≤ qe ∧ qe.toNat < iq.size := by
  obtain ⟨D, A, B, -, -, b, -⟩ := h; have := b.qe_range; omega

theorem Q1bMid.ip_pix (h : Q1bMid n imo imd iq qs qe k ip) : Pix n ip := by
  obtain ⟨D, A, B, -, hm, -, c⟩ := h; exact c.pix ip (by simp [hm])

/-- 1a → 1b: append the fictitious pixel to the pixels queued by 1a -/
theorem Q1b.init (h : Post1a n imo imd iq qs qe) :
    (0 ≤ qe ∧ qe.toNat < iq.size) ∧ Q1b n imo imd (iq.set! qe.toNat (-100)) qs (fifoNextEnd n qe) 0 := by
  obtain ⟨-, -, q, hq, hp, hl⟩ := h
  refine ⟨by have := hq.qe_range; omega, [], q, [], rfl, hq.add (by omega) _, ?_⟩
  exact ⟨by simpa using hp.nodup, by simpa using hp.pix, by simpa using hp.dist, by simpa using hp.mask⟩

/-- the head of the queue is a pixel: dequeue it -/
theorem Q1b.pop_pix (h : Q1b n imo imd iq qs qe k) (hne : iq[qs.toNat]! ≠ -100) :
    Q1bMid n imo imd iq (fifoNextStart n qs) qe (k + 1) iq[qs.toNat]! := by
  obtain ⟨D, A, B, hk, hq, hb⟩ := h
  cases A with
  | nil => exact absurd hq.pop.1 hne
  | cons a A =>
    have hp := hq.pop
    rw [hp.1]
    refine ⟨D ++ [a], A, B, by simp [hk], by simp, hp.2, ?_⟩
    have e : (D ++ [a]) ++ (A ++ B) = D ++ (a :: A ++ B) := by simp
    refine ⟨by rw [e]; exact hb.nodup, by rw [e]; exact hb.pix, by rw [e]; exact hb.dist, ?_⟩
    intro x hx; exact hb.mask x (by simp at hx ⊢; exact Or.inr hx)

theorem Q1b.head_fict (h : Q1b n imo imd iq qs qe k) (he : iq[qs.toNat]! = -100) :
    ∃ D B, D.length = k ∧ QRep n iq qs qe ((-100) :: B) ∧ QB n imo imd D [] B := by
  obtain ⟨D, A, B, hk, hq, hb⟩ := h
  cases A with
  | nil => exact ⟨D, B, hk, hq, hb⟩
  | cons a A =>
    have := hq.pop.1
    have := (hb.pix a (by simp)).1
    omega

/-- the head is the fictitious pixel and nothing is behind it: the level's propagation is finished -/
theorem Q1b.pop_fict_done (h : Q1b n imo imd iq qs qe k) (he : iq[qs.toNat]! = -100)
    (hq : (fifoNextStart n qs == qe) = true) : QRep n iq (fifoNextStart n qs) qe [] := by
  obtain ⟨D, B, hk, hq', hb⟩ := h.head_fict he
  have hp := hq'.pop.2
  have hl := hq'.len
  simp at hl
  have := hp.eq_nil (by omega) hq
  subst this; exact hp

/-- the head is the fictitious pixel and pixels follow: re-append it, advance the distance, dequeue the next pixel -/
theorem Q1b.pop_fict_more (h : Q1b n imo imd iq qs qe k) (he : iq[qs.toNat]! = -100)
    (hq : ¬(fifoNextStart n qs == qe) = true) :
    (0 ≤ qe ∧ qe.toNat < iq.size) ∧
    (0 ≤ fifoNextStart n qs ∧ (fifoNextStart n qs).toNat < (iq.set! qe.toNat (-100)).size) ∧
    Q1bMid n imo imd (iq.set! qe.toNat (-100)) (fifoNextStart n (fifoNextStart n qs)) (fifoNextEnd n qe) (k + 1)
      (iq.set! qe.toNat (-100))[(fifoNextStart n qs).toNat]! := by
  obtain ⟨D, B, hk, hq', hb⟩ := h.head_fict he
  have hp := hq'.pop.2
  have hl := hq'.len
  simp at hl
  obtain ⟨b, B, rfl⟩ := hp.eq_cons (by omega) hq
  have hadd := hp.add (by simp at hl ⊢; omega) (-100)
  have hp2 := hadd.pop
  try simp only [List.cons_append] at hp2
  refine ⟨by have := hp.qe_range; omega, hadd.qs_ok, ?_⟩
  rw [hp2.1]
  refine ⟨D ++ [b], B, [], by simp [hk], by simp, hp2.2, ?_⟩
  have e : (D ++ [b]) ++ (B ++ []) = D ++ ([] ++ b :: B) := by simp
  refine ⟨by rw [e]; exact hb.nodup, by rw [e]; exact hb.pix, by rw [e]; exact hb.dist, ?_⟩
  intro x hx; exact hb.mask x (by simp at hx ⊢; exact Or.inr hx)

/-- relabelling the dequeued pixel does not disturb the waiting ones -/
theorem Q1bMid.relabel (h : Q1bMid n imo imd iq qs qe k ip) (hs : imo.size = n) (v : Int) :
    Q1bMid n (imo.set! ip.toNat v) imd iq qs qe k ip := by
  obtain ⟨D, A, B, hk, hm, hq, hb⟩ := h
  refine ⟨D, A, B, hk, hm, hq, hb.nodup, hb.pix, hb.dist, ?_⟩
  intro x hx
  have hpx := hb.pix x (by simp at hx ⊢; exact Or.inr hx)
  have hpi := hb.pix ip (by simp [hm])
  rw [get_setI _ hpi.1 hpx.1 (by have := hpi.1; have := hpi.2; omega), if_neg]
  · exact hb.mask x hx
  · rintro rfl
    have := hb.nodup
    rw [List.nodup_append] at this
    exact this.2.2 x hm x hx rfl

/-- a `MASK` neighbour without distance joins the queue behind the fictitious pixel -/
theorem Q1bMid.add {ipp d : Int} (h : Q1bMid n imo imd iq qs qe k ip) (hd : imd.size = n)
    (hp : Pix n ipp) (hm : imo[ipp.toNat]! = -2) (h0 : imd[ipp.toNat]! = 0) (hd1 : d ≠ 0) :
    Q1bMid n imo (imd.set! ipp.toNat d) (iq.set! qe.toNat ipp) qs (fifoNextEnd n qe) k ip := by
  obtain ⟨D, A, B, hk, hmem, hq, hb⟩ := h
  have hnot : ipp ∉ D ++ (A ++ B) := fun hx => hb.dist ipp hx h0
  have hipp : ipp.toNat < imd.size := by have := hp.1; have := hp.2; omega
  have e : D ++ (A ++ (B ++ [ipp])) = (D ++ (A ++ B)) ++ [ipp] := by simp
  have hb' : QB n imo (imd.set! ipp.toNat d) D A (B ++ [ipp]) := by
    refine ⟨?_, ?_, ?_, ?_⟩
    · rw [e, List.nodup_append]
      exact ⟨hb.nodup, by simp, by intro a ha b hb'; simp at hb'; subst hb'; exact fun e => hnot (e ▸ ha)⟩
    · rw [e]; intro x hx
      rcases List.mem_append.mp hx with hx | hx
      · exact hb.pix x hx
      · simp at hx; subst hx; exact hp
    · rw [e]; intro x hx
      rcases List.mem_append.mp hx with hx | hx
      · rw [get_setI _ hp.1 (hb.pix x hx).1 hipp]
        split
        · exact hd1
        · exact hb.dist x hx
      · simp at hx; subst hx
        rw [get_setI _ hp.1 hp.1 hipp, if_pos rfl]; exact hd1
    · intro x hx
      rw [← List.append_assoc] at hx
      rcases List.mem_append.mp hx with hx | hx
      · exact hb.mask x hx
      · simp at hx; subst hx; exact hm
  have hlen := hb'.len
  have hD : 0 < D.length := List.length_pos_iff.mpr (List.ne_nil_of_mem hmem)
  simp at hlen
  have hadd := hq.add (by simp; omega) ipp
  rw [List.append_assoc, List.cons_append] at hadd
  exact ⟨D, A, B ++ [ipp], hk, hmem, hadd, hb'⟩
end

theorem nbr1b_spec {n : Nat} {nb : Array Int} (tr : Bool) {ip dist : Int} {imo imd iq : Array Int} {qs qe : Int}
    (trace : Array Flood.Step) (k : Nat)
    (hnb : NbOK n nb) (hs : imo.size = n) (hd : imd.size = n) (hdist : dist + 1 ≠ 0)
    (h : Q1bMid n imo imd iq qs qe k ip) :
    ⦃fun o => ⌜o = false⌝⦄ nbr1b n nb tr ip dist imo imd iq qe trace
    ⦃⇓ r o => ⌜o = false ∧ r.1.size = n ∧ r.2.1.size = n ∧ Q1bMid n r.1 r.2.1 r.2.2.1 qs r.2.2.2.1 k ip⌝⦄ := by
  have s1 := nbCnt_spec hnb
  have s2 := nbAt_spec hnb
  have hip := h.ip_pix
  mvcgen [nbr1b, s1, s2, fifoAdd_spec]
  case inv1 =>
    exact ⇓⟨_, imo', imd', iq', qe', _⟩ o => ⌜o = false ∧ imo'.size = n ∧ imd'.size = n ∧
      Q1bMid n imo' imd' iq' qs qe' k ip⌝
  all_goals vcr; vcp
  all_goals try rfl
  all_goals try (grab hQ : Q1bMid; have hqe := hQ.qe_ok)
  all_goals try vco
  all_goals try (simp [*]; done)
  case vc18 =>
    exact ⟨rfl, by simp [*], by assumption, hQ.relabel (by assumption) _⟩
  case vc26 =>
    have hc := ‹(_ && _) = true›
    simp only [Bool.and_eq_true, beq_iff_eq] at hc
    exact ⟨rfl, by assumption, by simp [*], hQ.add (by assumption) (by assumption) hc.1 hc.2 hdist⟩

/-- ghost-free form of `nbr1b_spec` -/
theorem nbr1b_spec' {n : Nat} {nb : Array Int} (tr : Bool) {ip dist : Int} {imo imd iq : Array Int} {qs qe : Int}
    (trace : Array Flood.Step)
    (hnb : NbOK n nb) (hs : imo.size = n) (hd : imd.size = n) (hdist : dist + 1 ≠ 0)
    (hex : ∃ k, Q1bMid n imo imd iq qs qe k ip) :
    ⦃fun o => ⌜o = false⌝⦄ nbr1b n nb tr ip dist imo imd iq qe trace
    ⦃⇓ r o => ⌜o = false ∧ ∀ k, Q1bMid n imo imd iq qs qe k ip →
      r.1.size = n ∧ r.2.1.size = n ∧ Q1bMid n r.1 r.2.1 r.2.2.1 qs r.2.2.2.1 k ip⌝⦄ :=
  triple_forall _ _ _ (fun k h => nbr1b_spec tr trace k hnb hs hd hdist h) hex

theorem step1b_spec {n : Nat} {nb : Array Int} (tr : Bool) {imo imd iq : Array Int} {qs qe : Int}
    (trace : Array Flood.Step) (hnb : NbOK n nb) (h : Post1a n imo imd iq qs qe) :
    ⦃fun o => ⌜o = false⌝⦄ step1b n nb tr imo imd iq qs qe trace
    ⦃⇓ r o => ⌜o = false ∧ r.2.2.2.2.2.2 = true ∧ r.1.size = n ∧ r.2.1.size = n ∧
      QRep n r.2.2.1 r.2.2.2.1 r.2.2.2.2.1 []⌝⦄ := by
  have s1 := @nbr1b_spec' n nb
  have hinit := Q1b.init h
  have hs := h.1
  have hd := h.2.1
  mvcgen [step1b, s1, fifoAdd_spec, fifoFirst_spec]
  case inv1 =>
    exact ⇓⟨xs, imo', imd', iq', qs', qe', _, dist, brk⟩ o => ⌜o = false ∧ imo'.size = n ∧ imd'.size = n ∧
      ((brk = false ∧ 1 ≤ dist ∧ Q1b n imo' imd' iq' qs' qe' xs.prefix.length) ∨
       (brk = true ∧ xs.suffix = [] ∧ QRep n iq' qs' qe' []))⌝
  all_goals vcr; vcp
  all_goals try (grab hor : Or; rcases hor with ⟨hb, hdist, hQ⟩ | ⟨hb, hnil, hq'⟩ <;> try (simp at hnil; done))
  all_goals try rfl
  all_goals try (have hqs := hQ.qs_ok)
  all_goals try vco
  all_goals try (simp [*]; done)
  case vc7 =>
    have he := ‹(_ == (-100:Int)) = true›; simp only [beq_iff_eq] at he
    exact ⟨rfl, by assumption, by assumption, Or.inr ⟨by trivial, by trivial, hQ.pop_fict_done he (by assumption)⟩⟩
  case vc8 | vc9 | vc11 | vc12 =>
    have he := ‹(_ == (-100:Int)) = true›; simp only [beq_iff_eq] at he
    have hmore := hQ.pop_fict_more he (by assumption)
    first | omega | exact hmore.2.1.2
  case vc19 =>
    have he := ‹(_ == (-100:Int)) = true›; simp only [beq_iff_eq] at he
    have hmore := hQ.pop_fict_more he (by assumption)
    exact ⟨_, hmore.2.2⟩
  case vc21 =>
    have he := ‹(_ == (-100:Int)) = true›; simp only [beq_iff_eq] at he
    have hmore := hQ.pop_fict_more he (by assumption)
    grab_all hall
    obtain ⟨h1, h2, h3⟩ := hall _ hmore.2.2
    exact ⟨rfl, h1, h2, Or.inl ⟨hb, by omega, by simpa using h3.toQ1b⟩⟩
  case vc27 =>
    have hne := ‹¬(_ == (-100:Int)) = true›; simp only [beq_iff_eq] at hne
    exact ⟨_, hQ.pop_pix hne⟩
  case vc29 =>
    have hne := ‹¬(_ == (-100:Int)) = true›; simp only [beq_iff_eq] at hne
    grab_all hall
    obtain ⟨h1, h2, h3⟩ := hall _ (hQ.pop_pix hne)
    exact ⟨rfl, h1, h2, Or.inl ⟨hb, by omega, by simpa using h3.toQ1b⟩⟩
  case vc30 =>
    exact ⟨rfl, rfl, by assumption, Or.inl ⟨by trivial, by omega, by assumption⟩⟩
  case vc31.post.success.post.success.inl =>
    have := hQ.len
    simp only [Std.Legacy.Range.toList, List.length_range', Nat.add_sub_cancel, Nat.div_one, Nat.sub_zero] at this
    omega

end WS.Fld

import WsVerif.Lemmas.Fld.G1a
/-! Step 1b of `pt_fld` with the simulation relation: the queue holds the pixels of the current geodesic distance,
then the fictitious pixel, then those of the next distance; every dequeued pixel finds a final labelled neighbour of
smaller distance, so `inherit` / `conflict` / `finalize` satisfy their guards; when the queue is empty no `MASK` pixel
of the level touches a labelled pixel (`endqueue`). -/
namespace WS.Fld
open Std.Do WS.SP WS.Flood
set_option mvcgen.warning false

/-- slot `j` of the neighbour row of pixel `ip`, as a pixel number -/
abbrev nbN (nb : Array Int) (ip : Int) (j : Nat) : Nat := (nb[((j : Int) + 9 * ip).toNat]!).toNat

/-- 1b at the loop head: `D` processed, `A` waiting at distance `dist`, `B` waiting at distance `dist+1` -/
structure R1b (n : Nat) (g : Graph) (s : St) (D A B : List Nat) (imo imd : Array Int) (icl : Int) (ih : Nat)
    (dist : Int) : Prop where
  base : Base n g s imo icl ih
  sd : imd.size = n
  ph : s.phase = .opn
  d1 : 1 ≤ dist
  cur1 : ∀ x ∈ s.cur, x < n ∧ g.level x = ih
  cur2 : ∀ p, p < n → g.level p = ih → p ∈ s.cur
  nd : (D ++ (A ++ B)).Nodup
  lv : ∀ x ∈ D ++ (A ++ B), x < n ∧ g.level x = ih ∧ imd[x]! ≠ 0
  imd0 : ∀ p, p < n → p ∉ D ++ (A ++ B) → imd[p]! = 0
  dfin : ∀ x ∈ D, s.finOf x = true ∧ 0 ≤ imo[x]! ∧ imd[x]! ≤ dist
  nfin : ∀ p, p < n → g.level p = ih → p ∉ D → s.finOf p = false ∧ imo[p]! = -2
  adist : ∀ x ∈ A, imd[x]! = dist ∧ ∃ y ∈ g.adj x, s.finOf y = true ∧ 0 ≤ imo[y]! ∧ imd[y]! < dist
  bdist : ∀ x ∈ B, imd[x]! = dist + 1 ∧ ∃ y ∈ g.adj x, y ∈ D
  compl : ∀ p, p < n → imo[p]! = -2 → imd[p]! = 0 → ∀ y ∈ g.adj p, ih ≤ g.level y ∧ y ∉ D

/-- 1b inside an iteration: pixel `p` dequeued, the first `i` slots of its neighbour row examined -/
structure R1bMid (n : Nat) (nb : Array Int) (g : Graph) (s : St) (D A B : List Nat) (p : Nat) (imo imd : Array Int)
    (icl : Int) (ih : Nat) (dist : Int) (i : Nat) : Prop where
  base : Base n g s imo icl ih
  sd : imd.size = n
  ph : s.phase = .opn
  d1 : 1 ≤ dist
  cur1 : ∀ x ∈ s.cur, x < n ∧ g.level x = ih
  cur2 : ∀ x, x < n → g.level x = ih → x ∈ s.cur
  nd : (D ++ p :: (A ++ B)).Nodup
  lv : ∀ x ∈ D ++ p :: (A ++ B), x < n ∧ g.level x = ih ∧ imd[x]! ≠ 0
  imd0 : ∀ x, x < n → x ∉ D ++ p :: (A ++ B) → imd[x]! = 0
  dfin : ∀ x ∈ D, s.finOf x = true ∧ 0 ≤ imo[x]! ∧ imd[x]! ≤ dist
  nfin : ∀ x, x < n → g.level x = ih → x ∉ D → x ≠ p → s.finOf x = false ∧ imo[x]! = -2
  adist : ∀ x ∈ A, imd[x]! = dist ∧ ∃ y ∈ g.adj x, s.finOf y = true ∧ 0 ≤ imo[y]! ∧ imd[y]! < dist
  bdist : ∀ x ∈ B, imd[x]! = dist + 1 ∧ ∃ y ∈ g.adj x, y ∈ D ∨ y = p
  compl : ∀ x, x < n → imo[x]! = -2 → imd[x]! = 0 → ∀ y ∈ g.adj x, ih ≤ g.level y ∧ y ∉ D
  pf : s.finOf p = false
  pd : imd[p]! = dist
  pl : imo[p]! = -2 ∨ imo[p]! = 0 ∨ (0 < imo[p]! ∧ ∃ y ∈ g.adj p, s.finOf y = true ∧ imo[y]! = imo[p]!)
  pa : ∃ y ∈ g.adj p, s.finOf y = true ∧ 0 ≤ imo[y]! ∧ imd[y]! < dist
  pw : ∀ j : Nat, j < i → 0 ≤ imo[nbN nb p j]! → imd[nbN nb p j]! < dist → 0 ≤ imo[p]!
  pc : ∀ j : Nat, j < i → ¬(imo[nbN nb p j]! = -2 ∧ imd[nbN nb p j]! = 0)

section
variable {n : Nat} {nb imi ind : Array Int} {g : Graph}

/-- 1a → 1b -/
theorem R1a.to1b (C : Ctx n nb imi ind g) {s : St} {q : List Nat} {imo imd : Array Int} {icl : Int} {ih : Nat}
    (h : R1a n ind g s q imo imd icl ih n) : R1b n g s [] q [] imo imd icl ih 1 := by
  have hmask : ∀ p, p < n → g.level p = ih → imo[p]! = -2 ∧ p ∈ s.cur := by
    intro p hp hl
    obtain ⟨k, hk, he⟩ := C.ind_surj hp
    have := (h.lvl k hk (by rw [he, Int.toNat_natCast]; exact hl)).1 (by omega)
    rwa [he, Int.toNat_natCast] at this
  refine ⟨h.base, h.sd, h.ph, by omega, h.cur, fun p hp hl => (hmask p hp hl).2, by simpa using h.qnd, ?_, ?_, by simp,
    fun p hp hl _ => ⟨h.nf p hp hl, (hmask p hp hl).1⟩, ?_, by simp, ?_⟩
  · intro x hx
    simp at hx
    obtain ⟨a, b, c, d, e⟩ := h.qlv x hx
    exact ⟨a, b, by omega⟩
  · intro p hp hq
    simp at hq
    exact h.imd0 p hp hq
  · intro x hx
    obtain ⟨a, b, c, d, y, hy, hly⟩ := h.qlv x hx
    have hyn := C.adj_lt a hy
    have hyq : y ∉ q := fun hm => by have := (h.qlv y hm).2.1; omega
    have := h.base.old y hyn hly
    exact ⟨d, y, hy, this.1, this.2, by rw [h.imd0 y hyn hyq]; omega⟩
  · intro p hp hm hd y hy
    have hpq : p ∉ q := fun hm' => by have := (h.qlv p hm').2.2.2.1; omega
    exact ⟨h.compl p hp hm hpq y hy, by simp⟩

theorem R1b.len {s : St} {D A B : List Nat} {imo imd : Array Int} {icl : Int} {ih : Nat} {dist : Int}
    (h : R1b n g s D A B imo imd icl ih dist) : D.length + A.length + B.length ≤ n := by
  have := pigeonN n _ h.nd (fun x hx => (h.lv x hx).1)
  simp at this; omega

theorem R1bMid.len {s : St} {D A B : List Nat} {p : Nat} {imo imd : Array Int} {icl : Int} {ih : Nat} {dist : Int} {i : Nat}
    (h : R1bMid n nb g s D A B p imo imd icl ih dist i) : D.length + 1 + A.length + B.length ≤ n := by
  have := pigeonN n _ h.nd (fun x hx => (h.lv x hx).1)
  simp at this; omega

/-- dequeue a pixel -/
theorem R1b.pop {s : St} {D A B : List Nat} {a : Nat} {imo imd : Array Int} {icl : Int} {ih : Nat} {dist : Int}
    (h : R1b n g s D (a :: A) B imo imd icl ih dist) : R1bMid n nb g s D A B a imo imd icl ih dist 0 := by
  have hnd : (D ++ a :: (A ++ B)).Nodup := by simpa using h.nd
  have haD : a ∉ D := fun hm => by
    rw [List.nodup_append] at hnd
    exact hnd.2.2 a hm a (by simp) rfl
  have ha := h.lv a (by simp)
  have hnf := h.nfin a ha.1 ha.2.1 haD
  refine ⟨h.base, h.sd, h.ph, h.d1, h.cur1, h.cur2, hnd, by simpa using h.lv, by simpa using h.imd0, h.dfin,
    fun x hx hl hD _ => h.nfin x hx hl hD, fun x hx => h.adist x (by simp [hx]), ?_, h.compl, hnf.1,
    (h.adist a (by simp)).1, Or.inl hnf.2, (h.adist a (by simp)).2, by intro j hj; omega, by intro j hj; omega⟩
  intro x hx
  obtain ⟨e, y, hy, hyD⟩ := h.bdist x hx
  exact ⟨e, y, hy, Or.inl hyD⟩

/-- the fictitious pixel is at the head and pixels follow: next distance -/
theorem R1b.next {s : St} {D B : List Nat} {b : Nat} {imo imd : Array Int} {icl : Int} {ih : Nat} {dist : Int}
    (h : R1b n g s D [] (b :: B) imo imd icl ih dist) : R1bMid n nb g s D B [] b imo imd icl ih (dist + 1) 0 := by
  have hd1 := h.d1
  have hnd : (D ++ b :: (B ++ [])).Nodup := by simpa using h.nd
  have hbD : b ∉ D := fun hm => by
    rw [List.nodup_append] at hnd
    exact hnd.2.2 b hm b (by simp) rfl
  have hb := h.lv b (by simp)
  have hnf := h.nfin b hb.1 hb.2.1 hbD
  have hwit : ∀ x ∈ b :: B, imd[x]! = dist + 1 ∧
      ∃ y ∈ g.adj x, s.finOf y = true ∧ 0 ≤ imo[y]! ∧ imd[y]! < dist + 1 := by
    intro x hx
    obtain ⟨e, y, hy, hyD⟩ := h.bdist x hx
    have := h.dfin y hyD
    exact ⟨e, y, hy, this.1, this.2.1, by omega⟩
  refine ⟨h.base, h.sd, h.ph, by omega, h.cur1, h.cur2, hnd, by simpa using h.lv, by simpa using h.imd0, ?_,
    fun x hx hl hD _ => h.nfin x hx hl hD, fun x hx => hwit x (by simp [hx]), by simp, h.compl, hnf.1,
    (hwit b (by simp)).1, Or.inl hnf.2, (hwit b (by simp)).2, by intro j hj; omega, by intro j hj; omega⟩
  intro x hx
  have := h.dfin x hx
  exact ⟨this.1, this.2.1, by omega⟩

theorem relabel_some {c l v : Int} {inh : Bool} (hr : WS.SP.relabel c l = some (v, inh)) :
    (inh = true ∧ v = l ∧ 0 < l ∧ (c = -2 ∨ c = 0)) ∨ (inh = false ∧ v = 0) := by
  unfold WS.SP.relabel at hr
  split at hr
  · split at hr
    · simp at hr
      rename_i h1 h2
      simp at h2
      exact Or.inl ⟨hr.2, hr.1.symm, h1, h2⟩
    · split at hr
      · simp at hr; exact Or.inr ⟨hr.2, hr.1.symm⟩
      · simp at hr
  · split at hr
    · simp at hr; exact Or.inr ⟨hr.2, hr.1.symm⟩
    · simp at hr

theorem relabel_none {c l : Int} (hr : WS.SP.relabel c l = none) (hl : 0 ≤ l) (hc : c = -2 ∨ c = 0 ∨ 0 < c) : 0 ≤ c := by
  unfold WS.SP.relabel at hr
  split at hr
  · split at hr
    · simp at hr
    · split at hr
      · simp at hr
      · rename_i h1 h2 h3
        simp at h2 h3
        omega
  · split at hr
    · simp at hr
    · rename_i h1 h2
      simp at h2
      omega

theorem step_inherit {g : Graph} {s : St} {p q : Nat} (hph : s.phase = .opn) (hp : p < g.n) (hq : q < g.n)
    (hfp : s.finOf p = false) (ha : q ∈ g.adj p) (hfq : s.finOf q = true) (hb : (s.labOf q).isBasin = true)
    (hl : s.labOf p = .mask ∨ s.labOf p = .wshed) :
    step g s (.inherit p q) = some { s with lab := s.lab.setIfInBounds p (s.labOf q) } := by
  have hc : (g.adj p).contains q = true := by simpa using ha
  simp only [step]
  rw [if_pos ⟨hph, hp, hq, hfp, hc, hfq, hb, hl⟩]

theorem step_conflict {g : Graph} {s : St} {p q : Nat} (hph : s.phase = .opn) (hp : p < g.n)
    (hfp : s.finOf p = false) (hl : s.labOf p ≠ .init) (ha : q ∈ g.adj p) (hfq : s.finOf q = true)
    (hb : (s.labOf q).labelled = true) :
    step g s (.conflict p) = some { s with lab := s.lab.setIfInBounds p .wshed } := by
  have hc : ((g.adj p).any fun q => s.finOf q && (s.labOf q).labelled) = true :=
    List.any_eq_true.mpr ⟨q, ha, by simp [hfq, hb]⟩
  simp only [step]
  rw [if_pos ⟨hph, hp, hfp, hl, hc⟩]

theorem step_finalize {g : Graph} {s : St} {p : Nat} (hph : s.phase = .opn) (hp : p < g.n)
    (hfp : s.finOf p = false)
    (hl : s.labOf p = .wshed ∨ ((s.labOf p).isBasin = true ∧ ∃ q ∈ g.adj p, s.finOf q = true ∧ s.labOf q = s.labOf p)) :
    step g s (.finalize p) = some { s with fin := s.fin.setIfInBounds p true } := by
  have hc : s.labOf p = .wshed ∨ ((s.labOf p).isBasin = true ∧
      ((g.adj p).any fun q => s.finOf q && s.labOf q == s.labOf p) = true) := by
    rcases hl with hl | ⟨hb, q, hq, hf, he⟩
    · exact Or.inl hl
    · exact Or.inr ⟨hb, List.any_eq_true.mpr ⟨q, hq, by simp [hf, he]⟩⟩
  simp only [step]
  rw [if_pos ⟨hph, hp, hfp, hc⟩]

/-- a labelled neighbour of smaller distance is final (and is not the pixel being processed) -/
theorem R1bMid.nb_fin {s : St} {D A B : List Nat} {p : Nat} {imo imd : Array Int} {icl : Int} {ih : Nat} {dist : Int}
    {i : Nat} (h : R1bMid n nb g s D A B p imo imd icl ih dist i) {y : Nat} (hy : y < n) (hl : 0 ≤ imo[y]!)
    (hd : imd[y]! < dist) : s.finOf y = true ∧ y ≠ p := by
  have hne : y ≠ p := fun e => by have := h.pd; rw [e] at hd; omega
  refine ⟨?_, hne⟩
  rcases Nat.lt_trichotomy (g.level y) ih with h1 | h1 | h1
  · exact (h.base.old y hy h1).1
  · by_cases hD : y ∈ D
    · exact (h.dfin y hD).1
    · have := (h.nfin y hy h1 hD hne).2; omega
  · have := (h.base.new y hy h1).2; omega

theorem R1bMid.p_lt {s : St} {D A B : List Nat} {p : Nat} {imo imd : Array Int} {icl : Int} {ih : Nat} {dist : Int}
    {i : Nat} (h : R1bMid n nb g s D A B p imo imd icl ih dist i) : p < n ∧ g.level p = ih ∧ p ∉ D := by
  have := h.lv p (by simp)
  refine ⟨this.1, this.2.1, fun hm => ?_⟩
  have hnd := h.nd
  rw [List.nodup_append] at hnd
  exact hnd.2.2 p hm p (by simp) rfl

/-- `inherit` / `conflict` -/
theorem R1bMid.relabel (C : Ctx n nb imi ind g) {s : St} {D A B : List Nat} {p : Nat} {imo imd : Array Int} {icl : Int}
    {ih : Nat} {dist : Int} {i : Nat} (h : R1bMid n nb g s D A B p imo imd icl ih dist i)
    (hi : (i : Int) < nb[(8 + 9 * (p : Int)).toNat]!)
    (hc : imd[nbN nb p i]! < dist ∧ 0 ≤ imo[nbN nb p i]!)
    {v : Int} {inh : Bool} (hr : WS.SP.relabel imo[p]! imo[nbN nb p i]! = some (v, inh)) :
    ∃ s', step g s (if inh then .inherit p (nbN nb p i) else .conflict p) = some s' ∧
      R1bMid n nb g s' D A B p (imo.set! p v) imd icl ih dist (i + 1) := by
  obtain ⟨hp, hpl, hpD⟩ := h.p_lt
  have hpx : Pix n (p : Int) := ⟨by omega, by omega⟩
  have hyadj : nbN nb p i ∈ g.adj p := by
    have := C.adj_mem p hpx i hi
    rwa [Int.toNat_natCast] at this
  generalize hyd : nbN nb p i = y at *
  have hy : y < n := C.adj_lt hp hyadj
  obtain ⟨hfy, hyp⟩ := h.nb_fin hy hc.2 hc.1
  have hps : p < imo.size := by rw [h.base.so]; exact hp
  have hget : ∀ j, (imo.set! p v)[j]! = if j = p then v else imo[j]! := fun j => get_setP imo p j v hps
  have hlo := h.base.lo
  have hv : 0 ≤ v := by rcases relabel_some hr with ⟨-, rfl, h2, -⟩ | ⟨-, rfl⟩ <;> omega
  have hplab : s.labOf p ≠ .init := by
    rw [h.base.labOf hp]
    intro e
    have := (labC_init (hlo p hp)).mp e
    rcases h.pl with h1 | h1 | h1 <;> omega
  -- the new abstract state
  have key : ∃ s', step g s (if inh then .inherit p y else .conflict p) = some s' ∧
      s'.lab = (imo.set! p v).map labC ∧ s'.fin = s.fin ∧ s'.K = s.K ∧ s'.h = s.h ∧ s'.phase = s.phase ∧ s'.cur = s.cur ∧
      (imo[p]! = -2 ∨ imo[p]! = 0 ∨ 0 < imo[p]!) ∧
      (v = 0 ∨ (0 < v ∧ v = imo[y]!)) := by
    rcases relabel_some hr with ⟨rfl, rfl, h2, h3⟩ | ⟨rfl, rfl⟩
    · refine ⟨_, step_inherit h.ph (by rw [C.gn]; exact hp) (by rw [C.gn]; exact hy) h.pf hyadj hfy ?_ ?_, ?_, rfl, rfl, rfl,
        rfl, rfl, by omega, Or.inr ⟨h2, rfl⟩⟩
      · rw [h.base.labOf hy]; exact (labC_isBasin (hlo y hy)).mpr (by omega)
      · rw [h.base.labOf hp]
        rcases h3 with h3 | h3 <;> rw [h3] <;> simp
      · show s.lab.setIfInBounds p (s.labOf y) = _
        rw [h.base.labOf hy, h.base.lab, map_set]
    · refine ⟨_, step_conflict h.ph (by rw [C.gn]; exact hp) h.pf hplab hyadj hfy ?_, ?_, rfl, rfl, rfl, rfl, rfl, ?_,
        Or.inl rfl⟩
      · rw [h.base.labOf hy]; exact (labC_labelled (hlo y hy)).mpr hc.2
      · show s.lab.setIfInBounds p .wshed = _
        rw [h.base.lab, map_set]; rfl
      · rcases h.pl with h1 | h1 | h1 <;> omega
  obtain ⟨s', hs, hlab, hfin, hK, hh, hph, hcur, -, hvv⟩ := key
  have hfe : ∀ x, s'.finOf x = s.finOf x := fun x => by unfold St.finOf; rw [hfin]
  refine ⟨s', hs, ⟨⟨by simp [h.base.so], hlab, by rw [hfin]; exact h.base.fsz, by rw [hK]; exact h.base.K, h.base.icl0, ?_,
    by rw [hh]; exact h.base.h, ?_, ?_⟩, h.sd, by rw [hph]; exact h.ph, h.d1, by rw [hcur]; exact h.cur1,
    by rw [hcur]; exact h.cur2, h.nd, h.lv, h.imd0, ?_, ?_, ?_, h.bdist, ?_, by rw [hfe]; exact h.pf, h.pd, ?_, ?_, ?_, ?_⟩⟩
  · intro x hx; rw [hget]; split
    · omega
    · exact hlo x hx
  · intro x hx hlx
    have hne : x ≠ p := fun e => by rw [e] at hlx; omega
    rw [hget, if_neg hne, hfe]; exact h.base.old x hx hlx
  · intro x hx hlx
    have hne : x ≠ p := fun e => by rw [e] at hlx; omega
    rw [hget, if_neg hne, hfe]; exact h.base.new x hx hlx
  · intro x hx
    have hne : x ≠ p := fun e => hpD (e ▸ hx)
    rw [hget, if_neg hne, hfe]; exact h.dfin x hx
  · intro x hx hlx hxD hxp
    rw [hget, if_neg hxp, hfe]; exact h.nfin x hx hlx hxD hxp
  · intro x hx
    obtain ⟨e, w, hw, hfw, hlw, hdw⟩ := h.adist x hx
    have hne : w ≠ p := fun e => by rw [e, h.pf] at hfw; simp at hfw
    exact ⟨e, w, hw, by rw [hfe]; exact hfw, by rw [hget, if_neg hne]; exact hlw, hdw⟩
  · intro x hx hxm
    have hne : x ≠ p := fun e => by rw [e, hget, if_pos rfl] at hxm; omega
    rw [hget, if_neg hne] at hxm
    exact h.compl x hx hxm
  · rw [hget, if_pos rfl]
    rcases hvv with rfl | ⟨h1, h2⟩
    · exact Or.inr (Or.inl rfl)
    · exact Or.inr (Or.inr ⟨h1, y, hyadj, by rw [hfe]; exact hfy, by rw [hget, if_neg hyp]; exact h2.symm⟩)
  · obtain ⟨w, hw, hfw, hlw, hdw⟩ := h.pa
    have hne : w ≠ p := fun e => by rw [e, h.pf] at hfw; simp at hfw
    exact ⟨w, hw, by rw [hfe]; exact hfw, by rw [hget, if_neg hne]; exact hlw, hdw⟩
  · intro j _ _ _
    rw [hget, if_pos rfl]; exact hv
  · intro j hj
    rw [hget]
    split
    · omega
    · by_cases hji : j < i
      · exact h.pc j hji
      · have : j = i := by omega
        subst this
        rw [hyd]; omega

/-- slot `i` changes nothing -/
theorem R1bMid.keep {s : St} {D A B : List Nat} {p : Nat} {imo imd : Array Int} {icl : Int}
    {ih : Nat} {dist : Int} {i : Nat} (h : R1bMid n nb g s D A B p imo imd icl ih dist i)
    (hc : (imd[nbN nb p i]! < dist ∧ 0 ≤ imo[nbN nb p i]! ∧ WS.SP.relabel imo[p]! imo[nbN nb p i]! = none) ∨
      (¬(imd[nbN nb p i]! < dist ∧ 0 ≤ imo[nbN nb p i]!) ∧ ¬(imo[nbN nb p i]! = -2 ∧ imd[nbN nb p i]! = 0))) :
    R1bMid n nb g s D A B p imo imd icl ih dist (i + 1) := by
  refine { h with pw := ?_, pc := ?_ }
  · intro j hj h1 h2
    by_cases hji : j < i
    · exact h.pw j hji h1 h2
    · have : j = i := by omega
      subst this
      rcases hc with ⟨-, hl, hr⟩ | ⟨hn, -⟩
      · exact relabel_none hr hl (by rcases h.pl with a | a | a <;> omega)
      · exact absurd ⟨h2, h1⟩ hn
  · intro j hj
    by_cases hji : j < i
    · exact h.pc j hji
    · have : j = i := by omega
      subst this
      rcases hc with ⟨-, hl, -⟩ | ⟨-, hn⟩
      · omega
      · exact hn

/-- slot `i` holds a `MASK` pixel without distance: it joins the queue behind the fictitious pixel -/
theorem R1bMid.add (C : Ctx n nb imi ind g) {s : St} {D A B : List Nat} {p : Nat} {imo imd : Array Int} {icl : Int}
    {ih : Nat} {dist : Int} {i : Nat} (h : R1bMid n nb g s D A B p imo imd icl ih dist i)
    (hi : (i : Int) < nb[(8 + 9 * (p : Int)).toNat]!)
    (hc : imo[nbN nb p i]! = -2 ∧ imd[nbN nb p i]! = 0) :
    R1bMid n nb g s D A (B ++ [nbN nb p i]) p imo (imd.set! (nbN nb p i) (dist + 1)) icl ih dist (i + 1) := by
  obtain ⟨hp, hpl, hpD⟩ := h.p_lt
  have hd1 := h.d1
  have hpx : Pix n (p : Int) := ⟨by omega, by omega⟩
  have hyadj : nbN nb p i ∈ g.adj p := by
    have := C.adj_mem p hpx i hi
    rwa [Int.toNat_natCast] at this
  have hpc := h.pc
  have hpw := h.pw
  generalize hyd : nbN nb p i = y at *
  have hy : y < n := C.adj_lt hp hyadj
  have hys : y < imd.size := by rw [h.sd]; exact hy
  have hget : ∀ j, (imd.set! y (dist + 1))[j]! = if j = y then dist + 1 else imd[j]! :=
    fun j => get_setP imd y j (dist + 1) hys
  have hynot : y ∉ D ++ p :: (A ++ B) := fun hm => (h.lv y hm).2.2 hc.2
  have hylv : g.level y = ih := by
    rcases Nat.lt_trichotomy (g.level y) ih with h1 | h1 | h1
    · have := (h.base.old y hy h1).2; omega
    · exact h1
    · have := (h.base.new y hy h1).2; omega
  have hmem : ∀ x, x ∈ D ++ p :: (A ++ (B ++ [y])) ↔ x ∈ D ++ p :: (A ++ B) ∨ x = y := by
    intro x; simp; grind
  refine { h with sd := by simp [h.sd], nd := ?_, lv := ?_, imd0 := ?_, dfin := ?_, adist := ?_, bdist := ?_, compl := ?_,
                  pd := ?_, pa := ?_, pw := ?_, pc := ?_ }
  · have e : D ++ p :: (A ++ (B ++ [y])) = (D ++ p :: (A ++ B)) ++ [y] := by simp
    rw [e, List.nodup_append]
    exact ⟨h.nd, by simp, by intro a ha b hb; simp at hb; subst hb; exact fun e => hynot (e ▸ ha)⟩
  · intro x hx
    rcases (hmem x).mp hx with hx | rfl
    · have := h.lv x hx
      refine ⟨this.1, this.2.1, ?_⟩
      rw [hget]; split
      · omega
      · exact this.2.2
    · exact ⟨hy, hylv, by rw [hget, if_pos rfl]; omega⟩
  · intro x hx hxn
    have h1 : x ∉ D ++ p :: (A ++ B) := fun hm => hxn ((hmem x).mpr (Or.inl hm))
    have h2 : x ≠ y := fun e => hxn ((hmem x).mpr (Or.inr e))
    rw [hget, if_neg h2]; exact h.imd0 x hx h1
  · intro x hx
    have hne : x ≠ y := fun e => hynot (by rw [← e]; simp [hx])
    rw [hget, if_neg hne]; exact h.dfin x hx
  · intro x hx
    obtain ⟨e, w, hw, hfw, hlw, hdw⟩ := h.adist x hx
    have hne : x ≠ y := fun e => hynot (by rw [← e]; simp [hx])
    have hnw : w ≠ y := fun e => by rw [e] at hlw; omega
    exact ⟨by rw [hget, if_neg hne]; exact e, w, hw, hfw, hlw, by rw [hget, if_neg hnw]; exact hdw⟩
  · intro x hx
    rcases List.mem_append.mp hx with hx | hx
    · obtain ⟨e, w, hw⟩ := h.bdist x hx
      have hne : x ≠ y := fun e => hynot (by rw [← e]; simp [hx])
      exact ⟨by rw [hget, if_neg hne]; exact e, w, hw⟩
    · simp at hx; subst hx
      exact ⟨by rw [hget, if_pos rfl], p, C.adj_symm p x hp hyadj, Or.inr rfl⟩
  · intro x hx hxm hxd
    have hne : x ≠ y := fun e => by rw [e, hget, if_pos rfl] at hxd; omega
    rw [hget, if_neg hne] at hxd
    exact h.compl x hx hxm hxd
  · have hne : p ≠ y := fun e => hynot (by rw [← e]; simp)
    rw [hget, if_neg hne]; exact h.pd
  · obtain ⟨w, hw, hfw, hlw, hdw⟩ := h.pa
    have hnw : w ≠ y := fun e => by rw [e] at hlw; omega
    exact ⟨w, hw, hfw, hlw, by rw [hget, if_neg hnw]; exact hdw⟩
  · intro j hj h1 h2
    by_cases hji : j < i
    · have hne : nbN nb p j ≠ y := fun e => by rw [e] at h1; omega
      rw [hget, if_neg hne] at h2
      exact hpw j hji h1 h2
    · have : j = i := by omega
      subst this
      rw [hyd] at h1; omega
  · intro j hj
    rw [hget]
    split
    · omega
    · by_cases hji : j < i
      · exact hpc j hji
      · have : j = i := by omega
        subst this
        rename_i hne
        exact absurd hyd hne

theorem getD_setB' {s : St} {p : Nat} (hp : p < s.fin.size) (x : Nat) :
    ({ s with fin := s.fin.setIfInBounds p true } : St).finOf x = if x = p then true else s.finOf x := by
  unfold St.finOf
  show (s.fin.setIfInBounds p true).getD x false = _
  rw [getD_setB]
  by_cases h : x = p
  · rw [if_pos ⟨h, hp⟩, if_pos h]
  · rw [if_neg (fun hh => h hh.1), if_neg h]

/-- `finalize` after the whole neighbour row -/
theorem R1bMid.finalize (C : Ctx n nb imi ind g) {s : St} {D A B : List Nat} {p : Nat} {imo imd : Array Int} {icl : Int}
    {ih : Nat} {dist : Int} {i : Nat} (h : R1bMid n nb g s D A B p imo imd icl ih dist i)
    (hi : ∀ j : Nat, (j : Int) < nb[(8 + 9 * (p : Int)).toNat]! → j < i) :
    step g s (.finalize p) = some { s with fin := s.fin.setIfInBounds p true } ∧
    R1b n g { s with fin := s.fin.setIfInBounds p true } (D ++ [p]) A B imo imd icl ih dist := by
  obtain ⟨hp, hpl, hpD⟩ := h.p_lt
  have hpx : Pix n (p : Int) := ⟨by omega, by omega⟩
  have hlo := h.base.lo
  have hcov : ∀ y ∈ g.adj p, ∃ j, j < i ∧ nbN nb p j = y := by
    intro y hy
    obtain ⟨j, hj, he⟩ := C.adj_cov p hpx y (by rw [Int.toNat_natCast]; exact hy)
    exact ⟨j, hi j hj, by unfold nbN; rw [he, Int.toNat_natCast]⟩
  have hlab : 0 ≤ imo[p]! := by
    obtain ⟨w, hw, hfw, hlw, hdw⟩ := h.pa
    obtain ⟨j, hj, he⟩ := hcov w hw
    exact h.pw j hj (by rw [he]; exact hlw) (by rw [he]; exact hdw)
  have hfe : ∀ x, ({ s with fin := s.fin.setIfInBounds p true } : St).finOf x = if x = p then true else s.finOf x :=
    getD_setB' (by rw [h.base.fsz]; exact hp)
  have hmono : ∀ x, s.finOf x = true → ({ s with fin := s.fin.setIfInBounds p true } : St).finOf x = true := by
    intro x hx; rw [hfe]; split <;> simp [hx]
  constructor
  · refine step_finalize h.ph (by rw [C.gn]; exact hp) h.pf ?_
    rw [h.base.labOf hp]
    rcases h.pl with h1 | h1 | ⟨h1, y, hy, hfy, hey⟩
    · omega
    · exact Or.inl (by rw [h1]; rfl)
    · exact Or.inr ⟨(labC_isBasin (hlo p hp)).mpr (by omega), y, hy, hfy, by
        rw [h.base.labOf (C.adj_lt hp hy), hey]⟩
  · have hmem : ∀ x, x ∈ (D ++ [p]) ++ (A ++ B) ↔ x ∈ D ++ p :: (A ++ B) := by intro x; simp
    refine ⟨⟨h.base.so, h.base.lab, by simpa using h.base.fsz, h.base.K, h.base.icl0, hlo, h.base.h, ?_, ?_⟩, h.sd, h.ph,
      h.d1, h.cur1, h.cur2, by simpa using h.nd, fun x hx => h.lv x ((hmem x).mp hx),
      fun x hx hn => h.imd0 x hx (fun hm => hn ((hmem x).mpr hm)), ?_, ?_, ?_, ?_, ?_⟩
    · intro x hx hlx
      exact ⟨hmono x (h.base.old x hx hlx).1, (h.base.old x hx hlx).2⟩
    · intro x hx hlx
      have hne : x ≠ p := fun e => by rw [e] at hlx; omega
      rw [hfe, if_neg hne]; exact h.base.new x hx hlx
    · intro x hx
      rcases List.mem_append.mp hx with hx | hx
      · have := h.dfin x hx
        exact ⟨hmono x this.1, this.2⟩
      · simp at hx; subst hx
        exact ⟨by rw [hfe, if_pos rfl], hlab, by rw [h.pd]; omega⟩
    · intro x hx hlx hxD
      have h1 : x ∉ D := fun hm => hxD (by simp [hm])
      have h2 : x ≠ p := fun e => hxD (by simp [e])
      rw [hfe, if_neg h2]; exact h.nfin x hx hlx h1 h2
    · intro x hx
      obtain ⟨e, w, hw, hfw, r⟩ := h.adist x hx
      exact ⟨e, w, hw, hmono w hfw, r⟩
    · intro x hx
      obtain ⟨e, w, hw, hD⟩ := h.bdist x hx
      exact ⟨e, w, hw, by simpa using hD⟩
    · intro x hx hxm hxd y hy
      obtain ⟨h1, h2⟩ := h.compl x hx hxm hxd y hy
      refine ⟨h1, ?_⟩
      intro hm
      rcases List.mem_append.mp hm with hm | hm
      · exact h2 hm
      · simp at hm; subst hm
        have hxadj := C.adj_symm x y hx hy
        obtain ⟨j, hj, he⟩ := hcov x hxadj
        exact h.pc j hj (by rw [he]; exact ⟨hxm, hxd⟩)

/-! ### end of the propagation: `endqueue` -/

/-- the level's pixels during step 1c: still `MASK` or labelled and final; processed positions have their distance reset -/
structure LvC (n : Nat) (ind : Array Int) (g : Graph) (s : St) (imo imd : Array Int) (ih : Nat) (m : Int) : Prop where
  lvl : ∀ p, p < n → g.level p = ih → (imo[p]! = -2 ∧ s.finOf p = false) ∨ (0 ≤ imo[p]! ∧ s.finOf p = true)
  pos : ∀ k : Nat, k < n → g.level (ind[k]!).toNat = ih → (k : Int) < m →
    0 ≤ imo[(ind[k]!).toNat]! ∧ imd[(ind[k]!).toNat]! = 0
  imdl : ∀ p, p < n → g.level p ≠ ih → imd[p]! = 0

/-- step 1c at the head of the seeding loop, cursor `m` -/
structure R1c (n : Nat) (ind : Array Int) (g : Graph) (s : St) (imo imd : Array Int) (icl : Int) (ih : Nat) (m : Int) :
    Prop where
  base : Base n g s imo icl ih
  sd : imd.size = n
  ph : s.phase = .seeding
  fr : s.frontier = []
  lc : LvC n ind g s imo imd ih m

theorem step_endqueue {g : Graph} {s : St} (hph : s.phase = .opn) (h : endqueueOk g s = true) :
    step g s .endqueue = some { s with phase := .seeding, frontier := [] } := by
  simp only [step]
  rw [if_pos ⟨hph, h⟩]

/-- the queue is empty: `endqueue` -/
theorem R1b.done (C : Ctx n nb imi ind g) {s : St} {D : List Nat} {imo imd : Array Int} {icl : Int} {ih : Nat} {dist : Int}
    {m : Int} (h : R1b n g s D [] [] imo imd icl ih dist) (hm : MInv n ind g ih m) :
    step g s .endqueue = some { s with phase := .seeding, frontier := [] } ∧
    R1c n ind g { s with phase := .seeding, frontier := [] } imo imd icl ih m := by
  have hlo := h.base.lo
  have hlab : ∀ x, x < n → g.level x = ih → (imo[x]! = -2 ∧ s.finOf x = false) ∨ (0 ≤ imo[x]! ∧ s.finOf x = true) := by
    intro x hx hl
    by_cases hD : x ∈ D
    · have := h.dfin x hD; exact Or.inr ⟨this.2.1, this.1⟩
    · have := h.nfin x hx hl hD; exact Or.inl ⟨this.2, this.1⟩
  constructor
  · refine step_endqueue h.ph ?_
    unfold endqueueOk
    simp only [Bool.and_eq_true, List.all_eq_true, List.mem_range, Bool.or_eq_true, Bool.not_eq_true', decide_eq_false_iff_not,
      bne_iff_ne, ne_eq, beq_iff_eq]
    refine ⟨⟨?_, ?_⟩, ?_⟩
    · intro x hx
      rw [C.gn] at hx
      by_cases hl : g.level x ≤ s.h
      · right
        rw [h.base.h] at hl
        rw [h.base.labOf hx, labC_init (hlo x hx)]
        rcases Nat.lt_or_eq_of_le hl with h1 | h1
        · have := (h.base.old x hx h1).2; omega
        · rcases hlab x hx h1 with h2 | h2 <;> omega
      · left; exact hl
    · intro x hx
      obtain ⟨hxn, hxl⟩ := h.cur1 x hx
      rw [h.base.labOf hxn, labC_mask (hlo x hxn)]
      rcases hlab x hxn hxl with h2 | h2
      · exact Or.inl h2.1
      · exact Or.inr h2.2
    · intro x hx
      obtain ⟨hxn, hxl⟩ := h.cur1 x hx
      rw [h.base.labOf hxn, labC_mask (hlo x hxn)]
      by_cases hm2 : imo[x]! = -2
      · right
        intro y hy
        have hyn := C.adj_lt hxn hy
        have hxD : x ∉ D := fun hD => by have := (h.dfin x hD).2.1; omega
        have hd0 := h.imd0 x hxn (by simpa using hxD)
        obtain ⟨h1, h2⟩ := h.compl x hxn hm2 hd0 y hy
        rw [h.base.labOf hyn, labC_unlabelled (hlo y hyn)]
        rcases Nat.lt_or_eq_of_le h1 with h3 | h3
        · have := (h.base.new y hyn h3).2; omega
        · have := (h.nfin y hyn h3.symm h2).2; omega
      · left; exact hm2
  · refine ⟨⟨h.base.so, h.base.lab, h.base.fsz, h.base.K, h.base.icl0, hlo, h.base.h, h.base.old, h.base.new⟩, h.sd, rfl, rfl,
      hlab, ?_, ?_⟩
    · intro k hk hl hkm
      have := hm.lt k hk hkm; omega
    · intro p hp hl
      refine h.imd0 p hp (fun hm => ?_)
      have := (h.lv p hm).2.1
      exact hl this
end

/-! ### Hoare triples -/

section
variable {n : Nat} {nb imi ind : Array Int} {g : Graph}

def G1b (n : Nat) (g : Graph) (trace : Array Step) (imo imd iq : Array Int) (qs qe icl : Int) (ih : Nat) (dist : Int)
    (k : Nat) : Prop :=
  ∃ s D A B, D.length = k ∧ run g trace.toList = some s ∧ QRep n iq qs qe (castL A ++ (-100) :: castL B) ∧
    R1b n g s D A B imo imd icl ih dist

def G1bMid (n : Nat) (nb : Array Int) (g : Graph) (trace : Array Step) (imo imd iq : Array Int) (qs qe icl : Int) (ih : Nat)
    (dist : Int) (k : Nat) (ip : Int) (i : Nat) : Prop :=
  ∃ (s : St) (D A B : List Nat) (p : Nat), ip = (p : Int) ∧ D.length + 1 = k ∧ run g trace.toList = some s ∧
    QRep n iq qs qe (castL A ++ (-100) :: castL B) ∧ R1bMid n nb g s D A B p imo imd icl ih dist i

/-- state handed to step 1c -/
def G1bDone (n : Nat) (g : Graph) (trace : Array Step) (imo imd iq : Array Int) (qs qe icl : Int) (ih : Nat) : Prop :=
  ∃ s D dist, run g trace.toList = some s ∧ QRep n iq qs qe [] ∧ R1b n g s D [] [] imo imd icl ih dist

theorem G1a.to1b (C : Ctx n nb imi ind g) {trace : Array Step} {imo imd iq : Array Int} {qs qe icl : Int} {ih : Nat}
    (h : G1a n ind g trace imo imd iq qs qe icl ih n) (hn : 1 ≤ n) :
    (0 ≤ qe ∧ qe.toNat < iq.size) ∧ G1b n g trace imo imd (iq.set! qe.toNat (-100)) qs (fifoNextEnd n qe) icl ih 1 0 := by
  obtain ⟨s, q, hr, hq, hR⟩ := h
  have hl := hR.qlen C hn
  refine ⟨by have := hq.qe_range; omega, s, [], q, [], rfl, hr, ?_, hR.to1b C⟩
  have := hq.add (by simp; omega) (-100)
  simpa [castL] using this

variable {trace : Array Step} {imo imd iq : Array Int} {qs qe icl : Int} {ih : Nat} {dist : Int} {k : Nat}

theorem G1b.qs_ok (h : G1b n g trace imo imd iq qs qe icl ih dist k) : 0 ≤ qs ∧ qs.toNat < iq.size := by
  obtain ⟨s, D, A, B, -, -, hq, -⟩ := h; exact hq.qs_ok

theorem G1b.len (h : G1b n g trace imo imd iq qs qe icl ih dist k) : k ≤ n := by
  obtain ⟨s, D, A, B, hk, -, -, hR⟩ := h; have := hR.len; omega

theorem G1b.sizes (h : G1b n g trace imo imd iq qs qe icl ih dist k) : imo.size = n ∧ imd.size = n ∧ 1 ≤ dist := by
  obtain ⟨s, D, A, B, -, -, -, hR⟩ := h; exact ⟨hR.base.so, hR.sd, hR.d1⟩

theorem castL_head_ne {A : List Nat} {B : List Int} {iq : Array Int} {qs qe : Int}
    (hq : QRep n iq qs qe (castL A ++ (-100) :: B)) (hne : iq[qs.toNat]! ≠ -100) :
    ∃ a A', A = a :: A' ∧ iq[qs.toNat]! = (a : Int) := by
  cases A with
  | nil => exact absurd hq.pop.1 hne
  | cons a A' => exact ⟨a, A', rfl, hq.pop.1⟩

theorem castL_head_eq {A : List Nat} {B : List Int} {iq : Array Int} {qs qe : Int}
    (hq : QRep n iq qs qe (castL A ++ (-100) :: B)) (he : iq[qs.toNat]! = -100) : A = [] := by
  cases A with
  | nil => rfl
  | cons a A' =>
    have := hq.pop.1
    simp only [castL, List.map_cons, List.cons_append] at this
    omega

theorem G1b.pop_pix (h : G1b n g trace imo imd iq qs qe icl ih dist k) (hne : iq[qs.toNat]! ≠ -100) :
    G1bMid n nb g trace imo imd iq (fifoNextStart n qs) qe icl ih dist (k + 1) iq[qs.toNat]! 0 := by
  obtain ⟨s, D, A, B, hk, hr, hq, hR⟩ := h
  obtain ⟨a, A', rfl, he⟩ := castL_head_ne hq hne
  exact ⟨s, D, A', B, a, he, by omega, hr, hq.pop.2, hR.pop⟩

theorem G1b.pop_fict_done (h : G1b n g trace imo imd iq qs qe icl ih dist k) (he : iq[qs.toNat]! = -100)
    (hqe : (fifoNextStart n qs == qe) = true) :
    G1bDone n g trace imo imd iq (fifoNextStart n qs) qe icl ih := by
  obtain ⟨s, D, A, B, hk, hr, hq, hR⟩ := h
  have := castL_head_eq hq he
  subst this
  have hp := hq.pop.2
  have hl := hq.len
  simp at hl
  have hnil := hp.eq_nil (by simp; omega) hqe
  have : B = [] := by simpa [castL] using hnil
  subst this
  exact ⟨s, D, dist, hr, hp, hR⟩

theorem G1b.pop_fict_more (h : G1b n g trace imo imd iq qs qe icl ih dist k) (he : iq[qs.toNat]! = -100)
    (hqe : ¬(fifoNextStart n qs == qe) = true) :
    (0 ≤ qe ∧ qe.toNat < iq.size) ∧
    (0 ≤ fifoNextStart n qs ∧ (fifoNextStart n qs).toNat < (iq.set! qe.toNat (-100)).size) ∧
    G1bMid n nb g trace imo imd (iq.set! qe.toNat (-100)) (fifoNextStart n (fifoNextStart n qs)) (fifoNextEnd n qe) icl ih
      (dist + 1) (k + 1) (iq.set! qe.toNat (-100))[(fifoNextStart n qs).toNat]! 0 := by
  obtain ⟨s, D, A, B, hk, hr, hq, hR⟩ := h
  have := castL_head_eq hq he
  subst this
  have hp := hq.pop.2
  have hl := hq.len
  simp at hl
  obtain ⟨b, B', hB⟩ := hp.eq_cons (by simp; omega) hqe
  cases B with
  | nil => simp [castL] at hB
  | cons b0 B0 =>
    have hadd := hp.add (by simp at hl ⊢; omega) (-100)
    have hp2 := hadd.pop
    refine ⟨by have := hp.qe_range; omega, hadd.qs_ok, s, D, B0, [], b0, ?_, by omega, hr, ?_, hR.next⟩
    · exact hp2.1
    · simpa [castL] using hp2.2

theorem G1bMid.qe_ok {ip : Int} {i : Nat} (h : G1bMid n nb g trace imo imd iq qs qe icl ih dist k ip i) :
    0 ≤ qe ∧ qe.toNat < iq.size := by
  obtain ⟨s, D, A, B, p, -, -, -, hq, -⟩ := h; have := hq.qe_range; omega

theorem G1bMid.facts {ip : Int} {i : Nat} (h : G1bMid n nb g trace imo imd iq qs qe icl ih dist k ip i) :
    Pix n ip ∧ imo.size = n ∧ imd.size = n ∧ 1 ≤ dist := by
  obtain ⟨s, D, A, B, p, rfl, -, -, -, hR⟩ := h
  have := hR.p_lt.1
  exact ⟨⟨by omega, by omega⟩, hR.base.so, hR.sd, hR.d1⟩


theorem G1bMid.relabelG (C : Ctx n nb imi ind g) {ip : Int} {i : Nat}
    (h : G1bMid n nb g trace imo imd iq qs qe icl ih dist k ip i) (hi : i < (nb[(8 + 9 * ip).toNat]!).toNat)
    (hc : (decide (imd[nbN nb ip i]! < dist) && (decide (imo[nbN nb ip i]! > 0) || imo[nbN nb ip i]! == 0)) = true)
    {v : Int} {inh : Bool} (hr : WS.SP.relabel imo[ip.toNat]! imo[nbN nb ip i]! = some (v, inh)) :
    G1bMid n nb g (pushIf true trace (if inh then .inherit ip.toNat (nbN nb ip i) else .conflict ip.toNat))
      (imo.set! ip.toNat v) imd iq qs qe icl ih dist k ip (i + 1) := by
  obtain ⟨s, D, A, B, p, rfl, hk, hrun, hq, hR⟩ := h
  simp only [Int.toNat_natCast] at hr ⊢
  have hc' : imd[nbN nb p i]! < dist ∧ 0 ≤ imo[nbN nb p i]! := by
    simp only [Bool.and_eq_true, Bool.or_eq_true, decide_eq_true_eq, beq_iff_eq] at hc
    omega
  obtain ⟨s', hs, hR'⟩ := hR.relabel C (by omega) hc' hr
  exact ⟨s', D, A, B, p, rfl, hk, run_push hrun hs, hq, hR'⟩

theorem G1bMid.keepG {ip : Int} {i : Nat}
    (h : G1bMid n nb g trace imo imd iq qs qe icl ih dist k ip i)
    (hc : ((decide (imd[nbN nb ip i]! < dist) && (decide (imo[nbN nb ip i]! > 0) || imo[nbN nb ip i]! == 0)) = true ∧
        WS.SP.relabel imo[ip.toNat]! imo[nbN nb ip i]! = none) ∨
      (¬(decide (imd[nbN nb ip i]! < dist) && (decide (imo[nbN nb ip i]! > 0) || imo[nbN nb ip i]! == 0)) = true ∧
        ¬(imo[nbN nb ip i]! == -2 && imd[nbN nb ip i]! == 0) = true)) :
    G1bMid n nb g trace imo imd iq qs qe icl ih dist k ip (i + 1) := by
  obtain ⟨s, D, A, B, p, rfl, hk, hrun, hq, hR⟩ := h
  simp only [Int.toNat_natCast] at hc
  refine ⟨s, D, A, B, p, rfl, hk, hrun, hq, hR.keep ?_⟩
  simp only [Bool.and_eq_true, Bool.or_eq_true, decide_eq_true_eq, beq_iff_eq] at hc
  rcases hc with ⟨h1, h2⟩ | ⟨h1, h2⟩
  · exact Or.inl ⟨h1.1, by omega, h2⟩
  · exact Or.inr ⟨fun hh => h1 ⟨hh.1, by omega⟩, h2⟩

theorem G1bMid.addG (C : Ctx n nb imi ind g) {ip : Int} {i : Nat}
    (h : G1bMid n nb g trace imo imd iq qs qe icl ih dist k ip i) (hi : i < (nb[(8 + 9 * ip).toNat]!).toNat)
    (hc : (imo[nbN nb ip i]! == -2 && imd[nbN nb ip i]! == 0) = true) :
    G1bMid n nb g trace imo (imd.set! (nbN nb ip i) (dist + 1)) (iq.set! qe.toNat nb[((i : Int) + 9 * ip).toNat]!) qs
      (fifoNextEnd n qe) icl ih dist k ip (i + 1) := by
  obtain ⟨s, D, A, B, p, rfl, hk, hrun, hq, hR⟩ := h
  simp only [Bool.and_eq_true, beq_iff_eq] at hc
  have hR' := hR.add C (by omega) hc
  have hlen := hR'.len
  simp at hlen
  have hpx := C.nbok.ent p ⟨by omega, by have := hR.p_lt.1; omega⟩ i (by omega)
  refine ⟨s, D, A, B ++ [nbN nb p i], p, rfl, hk, hrun, ?_, hR'⟩
  have := hq.add (by simp; omega) nb[((i : Int) + 9 * (p : Int)).toNat]!
  have e : ((nbN nb (p : Int) i : Nat) : Int) = nb[((i : Int) + 9 * (p : Int)).toNat]! := by
    unfold nbN; have := hpx.1; omega
  simpa [castL, e] using this

theorem G1bMid.cast {ip : Int} {i j : Nat} (h : G1bMid n nb g trace imo imd iq qs qe icl ih dist k ip i) (e : i = j) :
    G1bMid n nb g trace imo imd iq qs qe icl ih dist k ip j := e ▸ h

theorem nbr1b_specG (C : Ctx n nb imi ind g) {ip : Int}
    (h : G1bMid n nb g trace imo imd iq qs qe icl ih dist k ip 0) :
    ⦃fun o => ⌜o = false⌝⦄ nbr1b n nb true ip dist imo imd iq qe trace
    ⦃⇓ r o => ⌜o = false ∧ G1bMid n nb g r.2.2.2.2 r.1 r.2.1 r.2.2.1 qs r.2.2.2.1 icl ih dist k ip
      (nb[(8 + 9 * ip).toNat]!).toNat⌝⦄ := by
  have hnb := C.nbok
  have s1 := nbCnt_spec hnb
  have s2 := nbAt_spec hnb
  have hip := h.facts.1
  mvcgen [nbr1b, s1, s2, fifoAdd_spec]
  case inv1 =>
    exact ⇓⟨xs, imo', imd', iq', qe', tr'⟩ o => ⌜o = false ∧
      G1bMid n nb g tr' imo' imd' iq' qs qe' icl ih dist k ip xs.prefix.length⌝
  all_goals vcr; vcp
  all_goals try rfl
  all_goals try (grab hQ : G1bMid; have hqe := hQ.qe_ok; have hf := hQ.facts)
  all_goals try vco
  all_goals try (simp [*]; done)
  case vc18 =>
    refine ⟨rfl, (hQ.relabelG C (by assumption) (by assumption) (by assumption)).cast (by simp)⟩
  case vc19 =>
    exact ⟨rfl, (hQ.keepG (Or.inl ⟨by assumption, by assumption⟩)).cast (by simp)⟩
  case vc26 =>
    exact ⟨rfl, (hQ.addG C (by assumption) (by assumption)).cast (by simp)⟩
  case vc27 =>
    exact ⟨rfl, (hQ.keepG (Or.inr ⟨by assumption, by assumption⟩)).cast (by simp)⟩
  case vc29 =>
    exact ⟨rfl, hQ.cast (by simp [Std.Legacy.Range.toList])⟩

theorem G1bMid.finalizeG (C : Ctx n nb imi ind g) {ip : Int}
    (h : G1bMid n nb g trace imo imd iq qs qe icl ih dist k ip (nb[(8 + 9 * ip).toNat]!).toNat) :
    G1b n g (pushIf true trace (.finalize ip.toNat)) imo imd iq qs qe icl ih dist k := by
  obtain ⟨s, D, A, B, p, rfl, hk, hrun, hq, hR⟩ := h
  obtain ⟨h1, h2⟩ := hR.finalize C (fun j hj => by omega)
  rw [Int.toNat_natCast]
  exact ⟨_, D ++ [p], A, B, by simp; omega, run_push hrun h1, hq, h2⟩

/-- ghost-free precondition form -/
theorem nbr1b_specG' (C : Ctx n nb imi ind g) {ip : Int} {trace : Array Step} {imo imd iq : Array Int} {qs qe icl : Int}
    {ih : Nat} {dist : Int}
    (h : ∃ k, G1bMid n nb g trace imo imd iq qs qe icl ih dist k ip 0) :
    ⦃fun o => ⌜o = false⌝⦄ nbr1b n nb true ip dist imo imd iq qe trace
    ⦃⇓ r o => ⌜o = false ∧ ∀ k, G1bMid n nb g trace imo imd iq qs qe icl ih dist k ip 0 →
      G1bMid n nb g r.2.2.2.2 r.1 r.2.1 r.2.2.1 qs r.2.2.2.1 icl ih dist k ip (nb[(8 + 9 * ip).toNat]!).toNat⌝⦄ :=
  triple_forall _ _ _ (fun k hk => nbr1b_specG C hk) h

theorem step1b_specG (C : Ctx n nb imi ind g) {trace : Array Step} {imo imd iq : Array Int} {qs qe icl : Int} {ih : Nat}
    (hn : 2 ≤ n) (h : G1a n ind g trace imo imd iq qs qe icl ih n) :
    ⦃fun o => ⌜o = false⌝⦄ step1b n nb true imo imd iq qs qe trace
    ⦃⇓ r o => ⌜o = false ∧ r.2.2.2.2.2.2 = true ∧
      G1bDone n g r.2.2.2.2.2.1 r.1 r.2.1 r.2.2.1 r.2.2.2.1 r.2.2.2.2.1 icl ih⌝⦄ := by
  have s1 := fun (ip dist : Int) (imo imd iq : Array Int) (qs qe : Int) (trace : Array Step) =>
    @nbr1b_specG' n nb imi ind g C ip trace imo imd iq qs qe icl ih dist
  have hinit := h.to1b C (by omega)
  mvcgen [step1b, s1, fifoAdd_spec, fifoFirst_spec]
  case inv1 =>
    exact ⇓⟨xs, imo', imd', iq', qs', qe', tr', dist, brk⟩ o => ⌜o = false ∧
      ((brk = false ∧ G1b n g tr' imo' imd' iq' qs' qe' icl ih dist xs.prefix.length) ∨
       (brk = true ∧ xs.suffix = [] ∧ G1bDone n g tr' imo' imd' iq' qs' qe' icl ih))⌝
  all_goals vcr; vcp
  all_goals try (grab hor : Or; rcases hor with ⟨hb, hQ⟩ | ⟨hb, hnil, hq'⟩ <;> try (simp at hnil; done))
  all_goals try rfl
  all_goals try (have hqs := hQ.qs_ok; have hsz := hQ.sizes)
  all_goals try vco
  all_goals try (simp [*]; done)
  case vc7 =>
    have he := ‹(_ == (-100:Int)) = true›; simp only [beq_iff_eq] at he
    exact ⟨rfl, Or.inr ⟨by trivial, by trivial, hQ.pop_fict_done he (by assumption)⟩⟩
  case vc8 | vc9 | vc11 | vc12 =>
    have he := ‹(_ == (-100:Int)) = true›; simp only [beq_iff_eq] at he
    have hmore := hQ.pop_fict_more (nb := nb) he (by assumption)
    first | omega | exact hmore.2.1.2
  case vc15 =>
    have he := ‹(_ == (-100:Int)) = true›; simp only [beq_iff_eq] at he
    have hmore := hQ.pop_fict_more (nb := nb) he (by assumption)
    exact ⟨_, hmore.2.2⟩
  case vc17 =>
    have he := ‹(_ == (-100:Int)) = true›; simp only [beq_iff_eq] at he
    have hmore := hQ.pop_fict_more (nb := nb) he (by assumption)
    grab_all hall
    have h3 := hall _ hmore.2.2
    exact ⟨rfl, Or.inl ⟨hb, by simpa using h3.finalizeG C⟩⟩
  case vc19 =>
    have hne := ‹¬(_ == (-100:Int)) = true›; simp only [beq_iff_eq] at hne
    exact ⟨_, hQ.pop_pix hne⟩
  case vc21 =>
    have hne := ‹¬(_ == (-100:Int)) = true›; simp only [beq_iff_eq] at hne
    grab_all hall
    have h3 := hall _ (hQ.pop_pix hne)
    exact ⟨rfl, Or.inl ⟨hb, by simpa using h3.finalizeG C⟩⟩
  case vc22 =>
    exact ⟨rfl, Or.inl ⟨by trivial, by assumption⟩⟩
  case vc23.post.success.post.success.inl =>
    have := hQ.len
    simp only [Std.Legacy.Range.toList, List.length_range', Nat.add_sub_cancel, Nat.div_one, Nat.sub_zero] at this
    omega
end

end WS.Fld

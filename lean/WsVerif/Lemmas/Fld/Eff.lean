import WsVerif.Lemmas.Fld.Base
import WsVerif.Model.Flood
/-! The label effect of a ghost trace (`effRun`): what the abstract flooding machine does to `lab`, `K`, `snap` when
every guard holds (`run_eff`), and the relation `TR` "label effect of the trace so far = concrete `imo`". -/
namespace WS.Fld
open Std.Do WS.SP WS.Flood
set_option mvcgen.warning false

/-! ### the label effect of a ghost trace -/

/-- abstract label of a concrete `imo` value: `-1 ↦ init`, `-2 ↦ mask`, `0 ↦ wshed`, `k ↦ basin k` -/
def labC (v : Int) : Lab :=
  if v = -1 then .init else if v = -2 then .mask else if v = 0 then .wshed else .basin v.toNat

/-- `(lab, K, snap)`: the part of the abstract state that carries labels -/
abbrev LState := Array Lab × Nat × Array Lab

/-- effect of a step on the labels, guards ignored (what `Flood.step` does to `lab`, `K`, `snap` when the guard holds) -/
def effStep (s : LState) : Step → LState
  | .mark p => (s.1.setIfInBounds p .mask, s.2.1, s.2.2)
  | .inherit p q => (s.1.setIfInBounds p (s.1.getD q .init), s.2.1, s.2.2)
  | .conflict p => (s.1.setIfInBounds p .wshed, s.2.1, s.2.2)
  | .seed p k => (s.1.setIfInBounds p (.basin k), k, s.2.2)
  | .flood p _ => (s.1.setIfInBounds p (.basin s.2.1), s.2.1, s.2.2)
  | .sweep => (s.1, s.2.1, s.1)
  | .resolve p q => (s.1.setIfInBounds p (s.2.2.getD q .init), s.2.1, s.2.2)
  | _ => s

/-- label effect of a whole trace from the initial state of `n` pixels -/
def effRun (n : Nat) (t : List Step) : LState := t.foldl effStep (Array.replicate n .init, 0, #[])

theorem effRun_push (n : Nat) (t : Array Step) (e : Step) :
    effRun n (t.push e).toList = effStep (effRun n t.toList) e := by
  simp [effRun, List.foldl_append]

theorem step_eff {g : Graph} {s s' : St} {e : Step} (h : step g s e = some s') :
    (s'.lab, s'.K, s'.snap) = effStep (s.lab, s.K, s.snap) e := by
  cases e <;> simp only [step] at h <;> split at h <;> simp at h <;> subst h <;> simp [effStep, St.labOf, St.snapOf]

theorem runFrom_eff {g : Graph} (t : List Step) : ∀ {s s' : St}, runFrom g s t = some s' →
    (s'.lab, s'.K, s'.snap) = t.foldl effStep (s.lab, s.K, s.snap) := by
  induction t with
  | nil => intro s s' h; simp [runFrom] at h; subst h; rfl
  | cons e t ih =>
    intro s s' h
    simp only [runFrom] at h
    split at h
    · next s1 h1 => rw [List.foldl_cons, ← step_eff h1]; exact ih h
    · simp at h

/-- on a valid trace the abstract machine's labels are the label effect of the trace -/
theorem run_eff {g : Graph} {t : List Step} {s : St} (h : run g t = some s) :
    (s.lab, s.K, s.snap) = effRun g.n t := by
  have := runFrom_eff t h
  simpa [effRun, St.init] using this

theorem map_set (a : Array Int) (i : Nat) (v : Int) :
    (a.set! i v).map labC = (a.map labC).setIfInBounds i (labC v) := by
  simp [Array.set!]

theorem getD_map (a : Array Int) (q : Nat) (h : q < a.size) : (a.map labC).getD q .init = labC a[q]! := by
  simp [Array.getD, h]

/-- the label effect of the trace so far is the concrete label array (and `K` the label counter) -/
def TR (n : Nat) (trace : Array Step) (imo : Array Int) (icl : Int) : Prop :=
  0 ≤ icl ∧ (effRun n trace.toList).1 = imo.map labC ∧ (effRun n trace.toList).2.1 = icl.toNat

/-- inside a sweep of step 2: working copy `imd` is the abstract `lab`, the snapshot `imo` is the abstract `snap` -/
def TR2 (n : Nat) (trace : Array Step) (imo imd : Array Int) (icl : Int) : Prop :=
  0 ≤ icl ∧ (effRun n trace.toList).1 = imd.map labC ∧ (effRun n trace.toList).2.1 = icl.toNat ∧
    (effRun n trace.toList).2.2 = imo.map labC

section
variable {n : Nat} {t : Array Step} {imo imd : Array Int} {icl : Int}

theorem TR.init (n : Nat) : TR n #[] (Array.replicate n (-1)) 0 := by
  refine ⟨by omega, ?_, rfl⟩
  simp [effRun, labC]

theorem TR.mark (h : TR n t imo icl) (p : Nat) :
    TR n (pushIf true t (.mark p)) (imo.set! p (-2)) icl := by
  obtain ⟨h0, h1, h2⟩ := h
  simp only [pushIf, if_true]
  rw [TR, effRun_push]
  exact ⟨h0, by simp [effStep, h1, map_set, labC], by simpa [effStep] using h2⟩

theorem TR.relabel (h : TR n t imo icl) {c l v : Int} {inh : Bool} (hr : WS.SP.relabel c l = some (v, inh))
    (p q : Nat) (hq : q < imo.size) (hl : l = imo[q]!) :
    TR n (pushIf true t (if inh then .inherit p q else .conflict p)) (imo.set! p v) icl := by
  obtain ⟨h0, h1, h2⟩ := h
  have hv : (inh = true ∧ v = l) ∨ (inh = false ∧ v = 0) := by
    unfold WS.SP.relabel at hr
    split at hr
    · split at hr
      · simp at hr; exact Or.inl ⟨hr.2, hr.1.symm⟩
      · split at hr
        · simp at hr; exact Or.inr ⟨hr.2, hr.1.symm⟩
        · simp at hr
    · split at hr
      · simp at hr; exact Or.inr ⟨hr.2, hr.1.symm⟩
      · simp at hr
  simp only [pushIf, if_true]
  rw [TR, effRun_push]
  rcases hv with ⟨rfl, rfl⟩ | ⟨rfl, rfl⟩
  · refine ⟨h0, ?_, by simpa [effStep] using h2⟩
    simp only [effStep, if_true, h1, map_set, getD_map _ _ hq, hl]
  · refine ⟨h0, ?_, by simpa [effStep] using h2⟩
    simp [effStep, h1, map_set, labC]

theorem labC_pos {v : Int} (h : 1 ≤ v) : labC v = .basin v.toNat := by
  unfold labC
  rw [if_neg (by omega), if_neg (by omega), if_neg (by omega)]

theorem TR.seed (h : TR n t imo icl) (p : Nat) :
    TR n (pushIf true t (.seed p (icl + 1).toNat)) (imo.set! p (icl + 1)) (icl + 1) := by
  obtain ⟨h0, h1, h2⟩ := h
  simp only [pushIf, if_true]
  rw [TR, effRun_push]
  exact ⟨by omega, by simp [effStep, h1, map_set, labC_pos (show 1 ≤ icl + 1 by omega)], by simp [effStep]⟩

theorem TR.flood (h : TR n t imo icl) (hi : 1 ≤ icl) (p q : Nat) :
    TR n (pushIf true t (.flood p q)) (imo.set! p icl) icl := by
  obtain ⟨h0, h1, h2⟩ := h
  simp only [pushIf, if_true]
  rw [TR, effRun_push]
  exact ⟨h0, by simp [effStep, h1, h2, map_set, labC_pos hi], by simpa [effStep] using h2⟩

/-- steps without label effect -/
def Step.quiet : Step → Bool
  | .level _ | .finalize _ | .endqueue | .closed _ | .endlevel => true
  | _ => false

theorem TR.quiet (h : TR n t imo icl) (e : Step) (he : Step.quiet e = true) : TR n (pushIf true t e) imo icl := by
  simp only [pushIf, if_true]
  rw [TR, effRun_push]
  cases e <;> simp [Step.quiet] at he <;> exact h

theorem TR2.sweep (h : TR n t imo icl) : TR2 n (pushIf true t .sweep) imo imo icl := by
  obtain ⟨h0, h1, h2⟩ := h
  simp only [pushIf, if_true]
  rw [TR2, effRun_push]
  exact ⟨h0, by simpa [effStep] using h1, by simpa [effStep] using h2, by simpa [effStep] using h1⟩

theorem TR2.resolve (h : TR2 n t imo imd icl) (p q : Nat) (hq : q < imo.size) :
    TR2 n (pushIf true t (.resolve p q)) imo (imd.set! p imo[q]!) icl := by
  obtain ⟨h0, h1, h2, h3⟩ := h
  simp only [pushIf, if_true]
  rw [TR2, effRun_push]
  refine ⟨h0, ?_, by simpa [effStep] using h2, by simpa [effStep] using h3⟩
  simp only [effStep, h1, h3, map_set, getD_map _ _ hq]

theorem TR2.done (h : TR2 n t imo imd icl) : TR n t imd icl := ⟨h.1, h.2.1, h.2.2.1⟩
end

end WS.Fld

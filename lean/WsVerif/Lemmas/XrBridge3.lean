import WsVerif.Model.XrTwins3
import WsVerif.Lemmas.Sums
/-!
Helper lemmas for the T-tier bridges of `Props/C01xr3.lean`: the outer-product / broadcast forms that the labelled-array grammar
of `harness/translate_xr3.py` emits for the Stokes-drift double sums are the zipped forms of `Stats.ussSum` / `Stats.mss`.
No generated definition is mentioned here.
-/
namespace WS
open WS.Stats

/-- one row of `(dd·fk ⊗ t) · E · df`: `Σ_j ((c·t_j)·x_j)·w` -/
theorem uss_row_outer (c w : ℚ) (t r : Vec) :
    (List.map (fun x => x * w) (List.zipWith (fun a b => a * b) (List.map (fun b => c * b) t) r)).sum =
      (List.zipWith (fun x y => c * y * x * w) r t).sum := by
  induction t generalizing r with
  | nil => cases r <;> simp
  | cons y t ih =>
    cases r with
    | nil => simp
    | cons x r => simp only [List.map_cons, List.zipWith_cons_cons, List.sum_cons, ih]

/-- the double sum in outer-product form is `ussSum` -/
theorem uss_outer_eq (ddv : ℚ) (fkv t dfv : Vec) (e : Mat) :
    (List.map List.sum (List.zipWith (fun row w => List.map (fun x => x * w) row)
        (List.zipWith (fun r1 r2 => List.zipWith (fun a b => a * b) r1 r2)
          (List.map (fun a => List.map (fun b => a * b) t) (List.map (fun x => ddv * x) fkv)) e) dfv)).sum =
      (List.zipWith (fun (p : ℚ × ℚ) (r : Vec) => (List.zipWith (fun x y => ddv * p.1 * y * x * p.2) r t).sum)
        (List.zip fkv dfv) e).sum := by
  induction fkv generalizing dfv e with
  | nil => simp
  | cons a fkv ih =>
    cases e with
    | nil => simp
    | cons r e =>
      cases dfv with
      | nil => simp
      | cons w dfv =>
        simp only [List.map_cons, List.zipWith_cons_cons, List.zip_cons_cons, List.sum_cons, ih, uss_row_outer]

/-- the double sum without a direction table, row-broadcast form: `Σ_i (dd·fk_i)·(Σ_j E_ij)·df_i`, i.e. `mss`'s shape on `oned` -/
theorem uss_plain_eq (ddv : ℚ) (fkv dfv : Vec) (e : Mat) :
    (List.map List.sum (List.zipWith (fun row w => List.map (fun x => x * w) row)
        (List.zipWith (fun w row => List.map (fun x => w * x) row) (List.map (fun x => ddv * x) fkv) e) dfv)).sum =
      (List.zipWith (· * ·) (List.zipWith (· * ·) fkv (e.map fun r => ddv * r.sum)) dfv).sum := by
  induction fkv generalizing dfv e with
  | nil => simp
  | cons a fkv ih =>
    cases e with
    | nil => simp
    | cons r e =>
      cases dfv with
      | nil => simp
      | cons w dfv =>
        simp only [List.map_cons, List.zipWith_cons_cons, List.sum_cons, ih]
        congr 1
        induction r with
        | nil => simp
        | cons x r ihr =>
          simp only [List.map_cons, List.sum_cons, ihr]
          ring

/-- a row against a table of ones at least as long as the row -/
theorem uss_row_ones (c w : ℚ) (r : Vec) (n : Nat) (h : r.length ≤ n) :
    (List.zipWith (fun x y => c * y * x * w) r (List.replicate n 1)).sum = c * r.sum * w := by
  induction r generalizing n with
  | nil => simp
  | cons x r ih =>
    cases n with
    | zero => simp at h
    | succ n =>
      simp only [List.replicate_succ, List.zipWith_cons_cons, List.sum_cons, ih n (by simpa using h)]
      ring

/-- `mss`'s shape on `oned` is `ussSum` against a table of ones, for rows no longer than the table -/
theorem uss_ones_eq (ddv : ℚ) (fkv dfv : Vec) (e : Mat) (n : Nat) (h : ∀ r ∈ e, r.length ≤ n) :
    (List.zipWith (· * ·) (List.zipWith (· * ·) fkv (e.map fun r => ddv * r.sum)) dfv).sum =
      (List.zipWith (fun (p : ℚ × ℚ) (r : Vec) => (List.zipWith (fun x y => ddv * p.1 * y * x * p.2) r (List.replicate n 1)).sum)
        (List.zip fkv dfv) e).sum := by
  induction fkv generalizing dfv e with
  | nil => simp
  | cons a fkv ih =>
    cases e with
    | nil => simp
    | cons r e =>
      cases dfv with
      | nil => simp
      | cons w dfv =>
        have hr : r.length ≤ n := h r (by simp)
        have he : ∀ r' ∈ e, r'.length ≤ n := fun r' hr' => h r' (by simp [hr'])
        simp only [List.map_cons, List.zipWith_cons_cons, List.zip_cons_cons, List.sum_cons, ih dfv e he,
          uss_row_ones (ddv * a) w r n hr]
        ring

end WS

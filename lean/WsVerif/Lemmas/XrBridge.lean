import WsVerif.Model.XrTwins
import WsVerif.Lemmas.Sums
/-!
Helper lemmas for the T-tier bridges of `Props/C01xr.lean`: the map / zip forms that the labelled-array grammar of
`harness/translate_xr.py` emits are the forms used by the hand-written models.  No generated definition is mentioned here.
-/
namespace WS
open WS.Stats

/-- `dfGo` (the model's recursion for `np.gradient` after the first point) in numpy's slice form -/
theorem dfGo_eq_slices (p c : ℚ) (rest : Vec) :
    dfGo p c rest = List.zipWith (fun a b => (a - b) / 2) rest (p :: c :: rest).dropLast.dropLast
      ++ [lastD (c :: rest) - lastD (p :: c :: rest).dropLast] := by
  induction rest generalizing p c with
  | nil => simp [dfGo, lastD]
  | cons n rest ih =>
    have := ih c n
    simp only [dfGo, List.dropLast_cons_cons, List.zipWith_cons_cons, List.cons_append, lastD, List.getLastD_cons] at this ⊢
    rw [this]

/-- `np.gradient` of at least two points is the model's `df` -/
theorem npGradient_eq_df (a b : ℚ) (rest : Vec) : XrT.npGradient (a :: b :: rest) = df (a :: b :: rest) := by
  simp only [XrT.npGradient, df, dfGo_eq_slices, getR, List.getD_cons_zero, List.getD_cons_succ, List.drop_succ_cons,
    List.drop_zero, List.cons_append, List.nil_append, lastD, List.getLastD_cons]

/-- one row of `crsd`: `((dd·r)·c)·s` bin by bin -/
theorem crsd_row (ddv : ℚ) (r c s : Vec) :
    List.zipWith (fun a b => a * b) (List.zipWith (fun a b => a * b) (List.map (fun t => ddv * t) r) c) s =
      List.zipWith (fun (x : ℚ) (cs : ℚ × ℚ) => ddv * x * cs.1 * cs.2) r (List.zip c s) := by
  induction r generalizing c s with
  | nil => simp
  | cons x r ih =>
    cases c with
    | nil => simp
    | cons y c =>
      cases s with
      | nil => simp
      | cons z s => simp only [List.map_cons, List.zipWith_cons_cons, List.zip_cons_cons, ih]

theorem crsd_row_mom (ddv : ℚ) (r c s : Vec) :
    List.zipWith (fun (x : ℚ) (cs : ℚ × ℚ) => ddv * x * cs.1 * cs.2) r (List.zip c s) =
      List.zipWith (fun x y => ddv * x * y) r (List.zipWith (· * ·) c s) := by
  induction r generalizing c s with
  | nil => simp
  | cons x r ih =>
    cases c with
    | nil => simp
    | cons y c =>
      cases s with
      | nil => simp
      | cons z s =>
        simp only [List.zipWith_cons_cons, List.zip_cons_cons, ih]
        congr 1; ring

/-- the twin of `crsd` is the first directional moment against the product table `c·s` -/
theorem crsdRow_eq_momdRow (ddv : ℚ) (c s : Vec) (e : Mat) : XrT.crsdRow ddv c s e = momdRow ddv (mulV c s) e := by
  unfold XrT.crsdRow momdRow mulV
  simp only [crsd_row_mom]

/-- `x.where(x >= thr, one)` after the square root, on a possibly-NaN radicand -/
theorem where_ge_eq (sqrt : ℚ → ℚ) (thr one : ℚ) (r : Option ℚ) :
    (if (Option.any (fun t => decide (t ≥ thr)) (Option.map sqrt r)) = true then Option.map sqrt r else some one) =
      XrT.sweFull sqrt thr one r := by
  cases r <;> simp [XrT.sweFull]

/-- the arithmetic of `gw` on abstract ingredients: with an oracle `sqrt` that squares back on `H` and on `T2`,
    `(4·sqrt H / 4)² / (sqrt T2)² − ((4·sqrt H / 4)²)² / T1²` is the model's guarded `H/T2 − H²/T1²` -/
theorem gw_core (sqrt : ℚ → ℚ) (H : ℚ) (T2 T1 : Option ℚ) (h1 : sqrt H ^ 2 = H)
    (h2 : T2.map (fun t => sqrt t ^ 2) = T2) :
    (Option.bind (Option.bind (Option.map (fun t => t ^ 2) (Option.map sqrt T2)) fun y => divOpt (((4 * sqrt H) / 4) ^ 2) y)
      fun x => Option.map (fun y => x - y)
        (Option.bind (Option.map (fun t => t ^ 2) T1) fun y => divOpt ((((4 * sqrt H) / 4) ^ 2) ^ 2) y)) =
    XrT.gwCore H T2 T1 := by
  unfold XrT.gwCore
  have hm : ((4 * sqrt H) / 4) ^ 2 = H := by rw [mul_div_cancel_left₀ _ (by norm_num : (4 : ℚ) ≠ 0), h1]
  rw [hm]
  rcases T2 with _ | t2
  · rfl
  · have h2' : sqrt t2 ^ 2 = t2 := by simpa using h2
    rcases T1 with _ | t1
    · simp only [Option.map_some, Option.bind_some, h2', Option.map_none, Option.bind_none]
      unfold divOpt; split <;> simp
    · simp only [Option.map_some, Option.bind_some, h2']
      unfold divOpt
      by_cases a2 : t2 = 0 <;> by_cases a1 : t1 = 0 <;> simp [a1, a2]

end WS

import WsVerif.Model.TrackNp
import WsVerif.Model.TrkRt
import WsVerif.Lemmas.Track
/-!
# Helper lemmas for `Props/C19trk.lean`: the regenerated tracking kernels = the hand-written model

The generated definitions (`Gen/TrackKernels.lean`) are folds over explicit lists with tuple state, written in the
vocabulary of `Model/TrkRt.lean`; the model (`Model/Track.lean`) is structural recursion over `Match` / `Option Nat`.
This file states the loop bodies once more in a clean form (`gStep`, `pdGen`, …; the property file shows by `rfl` that
the generated text *is* a fold of these) and proves the equalities by induction on the loops.
-/
namespace WS.TrkBridge
open WS WS.Track WS.Trk

/-! ## the stored distance: `some 999` for "outside the thresholds" -/

/-- the number the code stores for a model entry: the value, or the sentinel 999 -/
def enc : Option Rat → Option Rat
  | some x => some x
  | none => some 999

/-- candidate tuple of the code for a candidate of the model -/
def emb (x : Nat × Rat) : Nat × Option Rat := (x.1, some x.2)

/-- entry of `partition_distance` as the generated view computes it, from the three threshold entries and the four
    statistics -/
def entryO (ddmax dfmax dfmin fc dc fpv dp : Option Rat) : Option Rat :=
  if (olt (oabs (osub (omod (oadd (osub dc dp) (some (180 : Rat))) (some (360 : Rat))) (some (180 : Rat)))) ddmax &&
      (olt (osub fc fpv) dfmax && ogt (osub fc fpv) dfmin)) then
    oadd (odiv (oabs (osub fc fpv)) (omax dfmax (oabs dfmin)))
      (odiv (oabs (osub (omod (oadd (osub dc dp) (some (180 : Rat))) (some (360 : Rat))) (some (180 : Rat)))) ddmax)
  else some (999 : Rat)

theorem entryO_eq (thr : Thr) (p : Nat) (fc dc fpv dp : Option Rat) :
    entryO (some (ddpmMax thr p)) (some (dfpMax thr p)) (dfpMin thr p) fc dc fpv dp =
      enc (distEntry thr p fc dc fpv dp) := by
  unfold entryO distEntry
  cases fc <;> cases dc <;> cases fpv <;> cases dp <;> cases hlo : dfpMin thr p <;>
    simp [enc, olt, ogt, osub, oadd, odiv, omod, oabs, omax, lift1, lift2]
  rename_i fc dc fpv dp lo
  have e : within thr p lo (ddpmOf dc dp) (fc - fpv) ↔
      (absR (pmod (dc - dp + 180) 360 - 180) < ddpmMax thr p ∧ fc - fpv < dfpMax thr p ∧ lo < fc - fpv) := Iff.rfl
  by_cases hw : within thr p lo (ddpmOf dc dp) (fc - fpv)
  · rw [if_pos (e.1 hw), if_pos hw]; rfl
  · rw [if_neg (fun h => hw (e.2 h)), if_neg hw]

/-! ## threshold vectors -/

theorem oat_cons_replicate (x b : Option Rat) (n p : Nat) (hp : p < n) :
    oat ([x] ++ List.replicate (n - 1) b) p = if p = 0 then x else b := by
  unfold oat
  cases p with
  | zero => simp
  | succ q =>
    have : q < n - 1 := by omega
    simp [List.getD_eq_getElem?_getD, this]

theorem oat_replicate (b : Option Rat) (n p : Nat) (hp : p < n) : oat (List.replicate n b) p = b := by
  unfold oat
  simp [List.getD_eq_getElem?_getD, hp]

theorem oat_zipWith_lift2 (f : Rat → Rat → Rat) (A B : List (Option Rat)) (p : Nat) :
    oat (List.zipWith (fun a b => lift2 f a b) A B) p = lift2 f (oat A p) (oat B p) := by
  unfold oat
  simp only [List.getD_eq_getElem?_getD, List.getElem?_zipWith]
  cases hA : A[p]? <;> cases hB : B[p]? <;> simp [lift2]

theorem oat_map_lift1 (f : Rat → Rat) (A : List (Option Rat)) (p : Nat) :
    oat (List.map (fun a => lift1 f a) A) p = lift1 f (oat A p) := by
  unfold oat
  simp only [List.getD_eq_getElem?_getD, List.getElem?_map]
  cases hA : A[p]? <;> simp [lift1]

/-! ## the generated view `partition_distance` -/

/-- the view `partition_distance` of the generated `trkMatch`, verbatim (the property file checks this by `rfl`) -/
def pdGen (fp dpm : List (List (Option Rat))) (dfp_sea_max : Option Rat)
    (dfp_swell_max ddpm_sea_max ddpm_swell_max : Rat) : Nat → Nat → Option Rat :=
  let ddpm : Nat → Nat → Option Rat := fun i j => (Trk.oabs (Trk.osub (Trk.omod (Trk.oadd (Trk.osub (Trk.oat (Trk.col dpm 1) i) (Trk.oat (Trk.col dpm 0) j)) (some (180 : Rat))) (some (360 : Rat))) (some (180 : Rat))))
  let dfp : Nat → Nat → Option Rat := fun i j => (Trk.osub (Trk.oat (Trk.col fp 1) i) (Trk.oat (Trk.col fp 0) j))
  let ddpm_max : List (Option Rat) := ([(some ddpm_sea_max)] ++ (List.replicate ((Trk.nrows dpm) - 1) (some ddpm_swell_max)))
  let dfp_max : List (Option Rat) := (List.replicate (Trk.nrows fp) (some dfp_swell_max))
  let dfp_min : List (Option Rat) := ([dfp_sea_max] ++ (List.replicate ((Trk.nrows fp) - 1) (some (-dfp_swell_max))))
  fun i j => (if ((Trk.olt (ddpm i j) (Trk.oat ddpm_max j)) && ((Trk.olt (dfp i j) (Trk.oat dfp_max j)) && (Trk.ogt (dfp i j) (Trk.oat dfp_min j)))) then (Trk.oadd (Trk.odiv (Trk.oabs (dfp i j)) (Trk.oat (List.zipWith (fun a b => (Trk.omax a b)) dfp_max (List.map (fun a => (Trk.oabs a)) dfp_min)) j)) (Trk.odiv (ddpm i j) (Trk.oat ddpm_max j))) else (some (999 : Rat)))

theorem pdGen_entry (fp dpm : List (List (Option Rat))) (sea : Option Rat) (swell ddSea ddSwell : Rat) (i j : Nat) :
    pdGen fp dpm sea swell ddSea ddSwell i j =
      entryO (oat ([some ddSea] ++ List.replicate (nrows dpm - 1) (some ddSwell)) j)
        (oat (List.replicate (nrows fp) (some swell)) j)
        (oat ([sea] ++ List.replicate (nrows fp - 1) (some (-swell))) j)
        (oat (col fp 1) i) (oat (col dpm 1) i) (oat (col fp 0) j) (oat (col dpm 0) j) := by
  unfold pdGen entryO
  simp only [omax, oabs, oat_zipWith_lift2, oat_map_lift1]
  rfl

/-- inside the matrix (`p < P`) the generated entry is the model's `distEntry`, stored with the sentinel -/
theorem pdGen_eq (fp dpm : List (List (Option Rat))) (sea : Option Rat) (swell ddSea ddSwell : Rat)
    (hshape : nrows dpm = nrows fp) (c p : Nat) (hp : p < nrows dpm) :
    pdGen fp dpm sea swell ddSea ddSwell c p =
      enc (distOf ⟨sea, swell, ddSea, ddSwell⟩ ⟨fp.getD 0 [], dpm.getD 0 []⟩ ⟨fp.getD 1 [], dpm.getD 1 []⟩ c p) := by
  rw [pdGen_entry, oat_cons_replicate _ _ _ _ hp, oat_replicate _ _ _ (hshape ▸ hp),
    oat_cons_replicate _ _ _ _ (hshape ▸ hp)]
  unfold distOf
  rw [← entryO_eq]
  unfold ddpmMax dfpMax dfpMin oat col
  by_cases h0 : p = 0 <;> simp [h0]

/-! ## `enumerate` -/

theorem enumFrom_map_range' {α : Type} (f : Nat → α) : ∀ (k i : Nat),
    enumFrom i (List.map f (List.range' i k)) = (List.range' i k).map fun p => (p, f p)
  | 0, _ => rfl
  | k + 1, i => by
    simp only [List.range'_succ, List.map_cons, enumFrom]
    rw [enumFrom_map_range' f k (i + 1)]

theorem enum_map_range {α : Type} (f : Nat → α) (n : Nat) :
    enum (List.map f (List.range n)) = (List.range n).map fun p => (p, f p) := by
  unfold enum
  rw [List.range_eq_range']
  exact enumFrom_map_range' f n 0

theorem enumFrom_succ {α : Type} : ∀ (l : List α) (i : Nat),
    enumFrom (i + 1) l = (enumFrom i l).map fun x => (x.1 + 1, x.2)
  | [], _ => rfl
  | x :: xs, i => by
    simp only [enumFrom, List.map_cons]
    rw [enumFrom_succ xs (i + 1)]

/-! ## `sorted(…, key=distance)[0]` = `argminFirst` -/

theorem insertBy_length {α : Type} (key : α → Option Rat) (x : α) : ∀ l : List α,
    (insertBy key x l).length = l.length + 1
  | [] => rfl
  | y :: ys => by
    unfold insertBy
    split
    · simp [insertBy_length key x ys]
    · simp

theorem sortedBy_length {α : Type} (key : α → Option Rat) : ∀ l : List α, (sortedBy key l).length = l.length
  | [] => rfl
  | x :: xs => by
    unfold sortedBy
    rw [insertBy_length, sortedBy_length key xs]
    rfl

theorem insertBy_head {α : Type} (key : α → Option Rat) (x : α) (l : List α) :
    (insertBy key x l).head? =
      match l.head? with
      | none => some x
      | some y => if olt (key y) (key x) then some y else some x := by
  cases l with
  | nil => rfl
  | cons y ys =>
    unfold insertBy
    simp only [List.head?_cons]
    split <;> rfl

theorem sortedBy_head_emb : ∀ l : List (Nat × Rat),
    (sortedBy (fun x : Nat × Option Rat => x.2) (l.map emb)).head? = (argminFirst l).map emb
  | [] => rfl
  | x :: xs => by
    simp only [List.map_cons, sortedBy, insertBy_head, sortedBy_head_emb xs, argminFirst]
    cases argminFirst xs with
    | none => rfl
    | some y =>
      simp only [Option.map_some, emb, olt]
      by_cases h : y.2 < x.2 <;> simp [h] <;> rfl

/-! ## candidates -/

theorem cands_gen (pd : Nat → Nat → Option Rat) (dist : Dist) (n : Nat) (avail : List Nat) (c : Nat)
    (hpd : ∀ p, p < n → pd c p = enc (dist c p)) (hne : ∀ p x, dist c p = some x → x ≠ 999) :
    List.filterMap (fun el3 : Nat × Option Rat =>
        if (one el3.2 (some (999 : Rat)) && decide (el3.1 ∈ avail)) then some (el3.1, el3.2) else none)
      (enum (List.map (fun j => pd c j) (List.range n))) = (cands dist avail n c).map emb := by
  rw [enum_map_range, List.filterMap_map]
  unfold cands
  rw [List.map_filterMap]
  apply List.filterMap_congr
  intro p hp
  have hp' : p < n := List.mem_range.1 hp
  simp only [Function.comp, hpd p hp']
  cases hd : dist c p with
  | none => simp [enc, one, oeq]
  | some d =>
    have : d ≠ 999 := hne p d hd
    by_cases hm : p ∈ avail <;> simp [enc, one, oeq, this, hm, emb]

/-! ## the greedy loop -/

/-- body of `for ip_curr, fp_curr in enumerate(fp[:, 1])` as generated: state = (`matches`, `available`) -/
def gStep (pd : Nat → Nat → Option Rat) (n : Nat) (st : List Int × List Nat) (el : Nat × Option Rat) :
    List Int × List Nat :=
  if (!(isnan el.2)) then
    if decide ((sortedBy (fun x : Nat × Option Rat => x.2)
        (List.filterMap (fun el3 : Nat × Option Rat =>
          if (one el3.2 (some (999 : Rat)) && decide (el3.1 ∈ st.2)) then some (el3.1, el3.2) else none)
          (enum (List.map (fun j => pd el.1 j) (List.range n))))).length = 0) then
      (List.set st.1 el.1 (-888 : Int), st.2)
    else
      (List.set st.1 el.1
          (((List.getD (sortedBy (fun x : Nat × Option Rat => x.2)
            (List.filterMap (fun el3 : Nat × Option Rat =>
              if (one el3.2 (some (999 : Rat)) && decide (el3.1 ∈ st.2)) then some (el3.1, el3.2) else none)
              (enum (List.map (fun j => pd el.1 j) (List.range n))))) 0 default).1 : Nat) : Int),
        List.erase st.2 (List.getD (sortedBy (fun x : Nat × Option Rat => x.2)
            (List.filterMap (fun el3 : Nat × Option Rat =>
              if (one el3.2 (some (999 : Rat)) && decide (el3.1 ∈ st.2)) then some (el3.1, el3.2) else none)
              (enum (List.map (fun j => pd el.1 j) (List.range n))))) 0 default).1)
  else (st.1, st.2)

theorem set_append_length {α : Type} (A B : List α) (b v : α) :
    List.set (A ++ b :: B) A.length v = A ++ v :: B := by
  induction A with
  | nil => rfl
  | cons a A ih => simp [ih]

theorem gStep_spec (pd : Nat → Nat → Option Rat) (dist : Dist) (n : Nat)
    (hpd : ∀ c p, p < n → pd c p = enc (dist c p)) (hne : ∀ c p x, dist c p = some x → x ≠ 999)
    (A B : List Int) (avail : List Nat) (c : Nat) (hA : A.length = c) (x : Option Rat) :
    gStep pd n (A ++ emptyMarker :: B, avail) (c, x) =
      if x.isSome then
        match argminFirst (cands dist avail n c) with
        | none => (A ++ matchCode Match.fresh :: B, avail)
        | some (p, _) => (A ++ matchCode (Match.prev p) :: B, avail.erase p)
      else (A ++ matchCode Match.empty :: B, avail) := by
  subst hA
  unfold gStep
  cases x with
  | none => simp [isnan, matchCode]
  | some v =>
    simp only [isnan, Option.isNone_some, Bool.not_false, if_true, Option.isSome_some]
    rw [cands_gen pd dist n avail A.length (hpd _) (hne _)]
    have hh := sortedBy_head_emb (cands dist avail n A.length)
    have hl := sortedBy_length (fun x : Nat × Option Rat => x.2) ((cands dist avail n A.length).map emb)
    cases ha : argminFirst (cands dist avail n A.length) with
    | none =>
      have : cands dist avail n A.length = [] := argminFirst_none _ ha
      simp [this, sortedBy, matchCode, unmatchedMarker]
    | some y =>
      obtain ⟨p, d⟩ := y
      rw [ha] at hh
      have hne' : cands dist avail n A.length ≠ [] := by
        intro h0; rw [h0] at ha; simp [argminFirst] at ha
      have hlen : (sortedBy (fun x : Nat × Option Rat => x.2) ((cands dist avail n A.length).map emb)).length ≠ 0 := by
        rw [hl, List.length_map]; exact fun h => hne' (List.length_eq_zero_iff.1 h)
      have hget : List.getD (sortedBy (fun x : Nat × Option Rat => x.2) ((cands dist avail n A.length).map emb)) 0 default
          = emb (p, d) := by
        rw [List.getD_eq_getElem?_getD, ← List.head?_eq_getElem?, hh]; rfl
      simp only [hlen, decide_false, hget, emb, Bool.false_eq_true, if_false]
      simp [matchCode]

/-- the whole loop: positions `c, c+1, …` of `matches` (still `-999`) are overwritten by the model's matches -/
theorem gLoop_spec (pd : Nat → Nat → Option Rat) (dist : Dist) (n : Nat)
    (hpd : ∀ c p, p < n → pd c p = enc (dist c p)) (hne : ∀ c p x, dist c p = some x → x ≠ 999) :
    ∀ (cur : List (Option Rat)) (c : Nat) (A : List Int) (avail : List Nat), A.length = c →
      (List.foldl (gStep pd n) (A ++ List.replicate cur.length emptyMarker, avail) (enumFrom c cur)).1 =
        A ++ (matchLoop dist n (cur.map Option.isSome) c avail).map matchCode
  | [], c, A, avail, _ => by simp [enumFrom, matchLoop]
  | x :: rest, c, A, avail, hA => by
    simp only [List.length_cons, List.replicate_succ, enumFrom, List.foldl_cons, List.map_cons, matchLoop]
    rw [gStep_spec pd dist n hpd hne A _ avail c hA x]
    cases x with
    | none =>
      simp only [Option.isSome_none, Bool.false_eq_true, if_false]
      have := gLoop_spec pd dist n hpd hne rest (c + 1) (A ++ [matchCode Match.empty]) avail (by simp [hA])
      simpa using this
    | some v =>
      simp only [Option.isSome_some, if_true]
      cases ha : argminFirst (cands dist avail n c) with
      | none =>
        have := gLoop_spec pd dist n hpd hne rest (c + 1) (A ++ [matchCode Match.fresh]) avail (by simp [hA])
        simpa using this
      | some y =>
        obtain ⟨p, d⟩ := y
        have := gLoop_spec pd dist n hpd hne rest (c + 1) (A ++ [matchCode (Match.prev p)]) (avail.erase p)
          (by simp [hA])
        simpa using this

/-! ## `available` -/

theorem avail_gen_aux : ∀ (l : List Bool) (i : Nat),
    List.filterMap (fun el : Nat × Bool => if el.2 then some el.1 else none) (enumFrom i l) =
      ((List.range l.length).filter fun p => l.getD p false).map (· + i)
  | [], _ => rfl
  | b :: l, i => by
    simp only [List.length_cons]
    rw [List.range_succ_eq_map]
    simp only [enumFrom, List.filterMap_cons, List.filter_cons, List.filter_map]
    rw [avail_gen_aux l (i + 1)]
    cases b <;> simp [Function.comp_def, List.map_map, Nat.add_comm, Nat.add_left_comm]

theorem avail_gen (col0 : List (Option Rat)) :
    List.filterMap (fun el : Nat × Bool => if el.2 then some el.1 else none)
      (enum (List.map (fun b => !b) (List.map isnan col0))) = availOf (col0.map Option.isSome) := by
  unfold enum availOf
  rw [avail_gen_aux]
  simp only [Nat.add_zero, List.map_id', List.length_map]
  apply List.filter_congr
  intro p _
  simp only [List.getD_eq_getElem?_getD, List.getElem?_map]
  cases col0[p]? with
  | none => rfl
  | some v => cases v <;> rfl

/-! ## `np_track_partitions`: numbering of the first step -/

/-- body of `for ip, vfp in enumerate(fp[:, 0])` as generated: state = (`part_ids`, `part_id`) -/
def tStep1 (st : List (List Int) × Int) (el : Nat × Option Rat) : List (List Int) × Int :=
  if (!(isnan el.2)) then (set2 st.1 el.1 0 st.2, st.2 + (1 : Int)) else (st.1, st.2)

theorem set2_zero (C : List Int) (rest : List (List Int)) (i : Nat) (v : Int) :
    set2 (C :: rest) i 0 v = C.set i v :: rest := by
  simp [set2]

theorem tLoop1_spec (rest : List (List Int)) : ∀ (l : List (Option Rat)) (i : Nat) (D : List (Option Nat)) (next : Nat),
    D.length = i →
    List.foldl tStep1 ((D.map idCode ++ List.replicate l.length emptyMarker) :: rest, (next : Int)) (enumFrom i l) =
      ((D ++ (firstStep (l.map Option.isSome) next).1).map idCode :: rest,
        ((firstStep (l.map Option.isSome) next).2 : Int))
  | [], i, D, next, _ => by simp [enumFrom, firstStep]
  | x :: l, i, D, next, hD => by
    subst hD
    simp only [List.length_cons, List.replicate_succ, enumFrom, List.foldl_cons, List.map_cons]
    cases x with
    | none =>
      have h := tLoop1_spec rest l (D.length + 1) (D ++ [none]) next (by simp)
      simp only [tStep1, isnan, Option.isNone_none, Bool.not_true, Bool.false_eq_true, if_false, Option.isSome_none,
        firstStep]
      simpa [idCode] using h
    | some v =>
      have h := tLoop1_spec rest l (D.length + 1) (D ++ [some next]) (next + 1) (by simp)
      simp only [tStep1, isnan, Option.isNone_some, Bool.not_false, if_true, Option.isSome_some, firstStep, set2_zero]
      have hset : (List.map idCode D ++ emptyMarker :: List.replicate l.length emptyMarker).set D.length (next : Int) =
          List.map idCode D ++ (next : Int) :: List.replicate l.length emptyMarker := by
        simp
      rw [hset]
      simpa [idCode] using h

/-! ## `np_track_partitions`: propagation through time -/

/-- body of `for ip in range(fp.shape[0])` (inside `for it in …`) as generated -/
def tCell (it : Nat) (st : List (List Int) × Int) (ip : Nat) : List (List Int) × Int :=
  if decide (get2 st.1 ip it = (-888 : Int)) then (set2 st.1 ip it st.2, st.2 + (1 : Int))
  else
    if decide (get2 st.1 ip it ≠ (-999 : Int)) then
      (set2 st.1 ip it (get2i st.1 (get2 st.1 ip it) (it - 1)), st.2)
    else (st.1, st.2)

/-- body of `for it in range(1, times.size)` as generated -/
def tCol (P : Nat) (st : List (List Int) × Int) (it : Nat) : List (List Int) × Int :=
  ((List.foldl (tCell it) (st.1, st.2) (List.range P)).1, (List.foldl (tCell it) (st.1, st.2) (List.range P)).2)

theorem getD_mid {α : Type} (pre post : List α) (a b d : α) :
    (pre ++ a :: b :: post).getD (pre.length + 1) d = b ∧ (pre ++ a :: b :: post).getD pre.length d = a := by
  constructor <;> simp [List.getD_eq_getElem?_getD]

theorem set_mid {α : Type} (pre post : List α) (a b b' : α) :
    (pre ++ a :: b :: post).set (pre.length + 1) b' = pre ++ a :: b' :: post := by
  simp

theorem getD_append_length {α : Type} (A B : List α) (b d : α) : (A ++ b :: B).getD A.length d = b := by
  simp [List.getD_eq_getElem?_getD]

/-- the inner loop on column `it = pre.length + 1`: slots `i, i+1, …` still hold the local match codes `R`; they are
    replaced one by one by what `propagate` computes -/
theorem tCell_loop (pre post : List (List Int)) (prevIds : List (Option Nat)) :
    ∀ (R : List Match) (i : Nat) (D : List (Option Nat)) (next : Nat), D.length = i →
      (∀ p, Match.prev p ∈ R → p < prevIds.length) →
      List.foldl (tCell (pre.length + 1))
          (pre ++ prevIds.map idCode :: (D.map idCode ++ R.map matchCode) :: post, (next : Int))
          (List.range' i R.length) =
        (pre ++ prevIds.map idCode :: ((D ++ (propagate prevIds R next).1).map idCode) :: post,
          ((propagate prevIds R next).2 : Int))
  | [], i, D, next, _, _ => by simp [propagate]
  | m :: R, i, D, next, hD, hR => by
    subst hD
    have hR' : ∀ p, Match.prev p ∈ R → p < prevIds.length := fun p hp => hR p (List.mem_cons_of_mem _ hp)
    simp only [List.length_cons, List.range'_succ, List.foldl_cons, List.map_cons]
    have hget : get2 (pre ++ prevIds.map idCode :: (D.map idCode ++ matchCode m :: R.map matchCode) :: post) D.length
        (pre.length + 1) = matchCode m := by
      unfold get2
      rw [(getD_mid pre post _ _ _).1]
      simp
    have hset : ∀ v : Int, set2 (pre ++ prevIds.map idCode :: (D.map idCode ++ matchCode m :: R.map matchCode) :: post)
        D.length (pre.length + 1) v = pre ++ prevIds.map idCode :: (D.map idCode ++ v :: R.map matchCode) :: post := by
      intro v
      unfold set2
      rw [(getD_mid pre post _ _ _).1, set_mid]
      have := set_append_length (D.map idCode) (R.map matchCode) (matchCode m) v
      simp only [List.length_map] at this
      rw [this]
    cases m with
    | empty =>
      have h := tCell_loop pre post prevIds R (D.length + 1) (D ++ [none]) next (by simp) hR'
      simp only [tCell]
      simp only [hget, hset]
      simp only [matchCode, emptyMarker, propagate]
      simpa [idCode, emptyMarker, matchCode] using h
    | fresh =>
      have h := tCell_loop pre post prevIds R (D.length + 1) (D ++ [some next]) (next + 1) (by simp) hR'
      simp only [tCell]
      simp only [hget, hset]
      simp only [matchCode, unmatchedMarker, propagate]
      simpa [idCode, matchCode] using h
    | prev p =>
      have hp : p < prevIds.length := hR p (by simp)
      have h := tCell_loop pre post prevIds R (D.length + 1) (D ++ [prevIds.getD p none]) next (by simp) hR'
      have h1 : ¬ ((p : Int) = -888) := by omega
      have h2 : ((p : Int) ≠ -999) := by omega
      have hread : get2i (pre ++ prevIds.map idCode :: (D.map idCode ++ (p : Int) :: R.map matchCode) :: post) (p : Int)
          (pre.length + 1 - 1) = idCode (prevIds.getD p none) := by
        unfold get2i get2 pyIdx
        simp only [Nat.add_sub_cancel, (getD_mid pre post _ _ _).2]
        have : ¬ ((p : Int) < 0) := by omega
        simp only [this, if_false, Int.toNat_natCast]
        simp [List.getD_eq_getElem?_getD, hp]
      simp only [tCell]
      simp only [hget, hset]
      simp only [matchCode, h1, h2, decide_false, decide_true, Bool.false_eq_true, if_false, if_true,
        hread, propagate, ne_eq, not_false_eq_true]
      simpa [matchCode] using h

/-- all local match vectors propagated in turn (model side) -/
def propAll (prevIds : List (Option Nat)) (next : Nat) : List (List Match) → List (List (Option Nat)) × Nat
  | [] => ([], next)
  | ms :: rest =>
    ((propagate prevIds ms next).1 :: (propAll (propagate prevIds ms next).1 (propagate prevIds ms next).2 rest).1,
      (propAll (propagate prevIds ms next).1 (propagate prevIds ms next).2 rest).2)

theorem propagate_length (prevIds : List (Option Nat)) : ∀ (ms : List Match) (next : Nat),
    (propagate prevIds ms next).1.length = ms.length
  | [], _ => rfl
  | Match.empty :: ms, next => by simp [propagate, propagate_length prevIds ms next]
  | Match.fresh :: ms, next => by simp [propagate, propagate_length prevIds ms (next + 1)]
  | Match.prev _ :: ms, next => by simp [propagate, propagate_length prevIds ms next]

/-- the outer loop: columns `pre.length + 1, …` still hold local match codes; each is globalised from the column
    before it -/
theorem tCol_loop (P : Nat) : ∀ (mss : List (List Match)) (pre : List (List Int)) (prevIds : List (Option Nat))
    (next : Nat), prevIds.length = P → (∀ ms ∈ mss, ms.length = P ∧ ∀ p, Match.prev p ∈ ms → p < P) →
      List.foldl (tCol P) (pre ++ prevIds.map idCode :: mss.map (·.map matchCode), (next : Int))
          (List.range' (pre.length + 1) mss.length) =
        (pre ++ prevIds.map idCode :: (propAll prevIds next mss).1.map (·.map idCode),
          ((propAll prevIds next mss).2 : Int))
  | [], pre, prevIds, next, _, _ => by simp [propAll]
  | ms :: mss, pre, prevIds, next, hP, hms => by
    obtain ⟨hlen, hprev⟩ := hms ms (by simp)
    have hms' : ∀ ms' ∈ mss, ms'.length = P ∧ ∀ p, Match.prev p ∈ ms' → p < P :=
      fun ms' h => hms ms' (List.mem_cons_of_mem _ h)
    simp only [List.length_cons, List.range'_succ, List.foldl_cons, List.map_cons]
    have hcell := tCell_loop pre (mss.map (·.map matchCode)) prevIds ms 0 [] next rfl
      (fun p hp => hP ▸ hprev p hp)
    simp only [List.map_nil, List.nil_append, hlen, ← List.range_eq_range'] at hcell
    have hcol : tCol P (pre ++ prevIds.map idCode :: ms.map matchCode :: mss.map (·.map matchCode), (next : Int))
        (pre.length + 1) =
        (pre ++ prevIds.map idCode :: (propagate prevIds ms next).1.map idCode :: mss.map (·.map matchCode),
          ((propagate prevIds ms next).2 : Int)) := by
      unfold tCol
      rw [hcell]
    rw [hcol]
    have h := tCol_loop P mss (pre ++ [prevIds.map idCode]) (propagate prevIds ms next).1
      (propagate prevIds ms next).2 (by rw [propagate_length, hlen]) hms'
    simp only [List.length_append, List.length_singleton, List.append_assoc, List.singleton_append] at h
    rw [h]
    simp [propAll]

/-! ## the model's time loop = first step, then `propAll` over the local matches -/

/-- the local match vectors of all steps -/
def localMatches : List Slot → List (Dist × List Slot) → List (List Match)
  | _, [] => []
  | prev, (d, s) :: rest => matchConsecutive d prev s :: localMatches s rest

theorem allStates_propAll : ∀ (steps : List (Dist × List Slot)) (st : St),
    (allStates st steps).map (·.ids) = st.ids :: (propAll st.ids st.next (localMatches st.slots steps)).1 ∧
    finalNext st steps = (propAll st.ids st.next (localMatches st.slots steps)).2
  | [], st => by simp [allStates, finalNext, propAll, localMatches]
  | (d, s) :: rest, st => by
    obtain ⟨h1, h2⟩ := allStates_propAll rest (step d st s)
    simp only [allStates, finalNext, localMatches, propAll, List.map_cons]
    exact ⟨by rw [h1]; rfl, by rw [h2]; rfl⟩

/-- local match vectors of a data history -/
def localMatchesData : Step → List (Thr × Step) → List (List Match)
  | _, [] => []
  | prev, (thr, cur) :: rest => matchData thr prev cur :: localMatchesData cur rest

theorem localMatches_mkSteps : ∀ (rest : List (Thr × Step)) (s0 : Step),
    localMatches (slotsOf s0) (mkSteps s0 rest) = localMatchesData s0 rest
  | [], _ => rfl
  | (thr, cur) :: rest, s0 => by
    simp only [mkSteps, localMatches, localMatchesData, matchData]
    rw [localMatches_mkSteps rest cur]

theorem localMatchesData_range' (thr : Nat → Thr) (stp : Nat → Step) : ∀ (k a : Nat),
    localMatchesData (stp a) ((List.range' a k).map fun i => (thr i, stp (i + 1))) =
      (List.range' a k).map fun i => matchData (thr i) (stp i) (stp (i + 1))
  | 0, _ => rfl
  | k + 1, a => by
    simp only [List.range'_succ, List.map_cons, localMatchesData]
    rw [localMatchesData_range' thr stp k (a + 1)]

/-- every local match vector has one entry per current slot and only names existing previous slots -/
theorem matchData_shape (thr : Thr) (prev cur : Step) :
    (matchData thr prev cur).length = cur.fp.length ∧
    ∀ p, Match.prev p ∈ matchData thr prev cur → p < prev.fp.length := by
  unfold matchData matchConsecutive
  constructor
  · have := congrArg List.length (matchLoop_nonempty (distOf thr prev cur) (slotsOf prev).length (slotsOf cur) 0
      (availOf (slotsOf prev)))
    simpa [slotsOf] using this
  · intro p hp
    have := (matchLoop_prevs (distOf thr prev cur) (slotsOf prev).length (slotsOf cur) 0 (availOf (slotsOf prev))
      (availOf_nodup _)).2 p (mem_prevs.2 hp)
    have h := mem_availOf.1 this
    by_contra hc
    rw [List.getElem?_eq_none (by simpa [slotsOf] using hc)] at h
    simp at h

theorem lift2_eq_seaThr (pow : Rat → Rat → Rat) (g dt scaling : Rat) (a b : Option Rat) :
    lift2 (fun w f => dfpWsea pow g w f dt scaling) a b = seaThr pow g dt scaling a b := by
  cases a <;> cases b <;> rfl

theorem oat_row (m : List (List (Option Rat))) (i t : Nat) : oat (row m i) t = (m.getD t []).getD i none := by
  unfold oat row
  simp only [List.getD_eq_getElem?_getD, List.getElem?_map]
  cases m[t]? <;> simp

theorem firstStep_length : ∀ (ss : List Slot) (next : Nat), (firstStep ss next).1.length = ss.length
  | [], _ => rfl
  | true :: ss, next => by simp [firstStep, firstStep_length ss (next + 1)]
  | false :: ss, next => by simp [firstStep, firstStep_length ss next]

theorem map_range'_pred {α : Type} (g : Nat → α) : ∀ (k a : Nat),
    (List.range' (a + 1) k).map (fun it => g (it - 1)) = (List.range' a k).map g
  | 0, _ => rfl
  | k + 1, a => by
    simp only [List.range'_succ, List.map_cons, Nat.add_sub_cancel]
    rw [map_range'_pred g k (a + 1)]

/-- the model's tracker on data, written with `firstStep` and `propAll` -/
theorem trackData_propAll (s0 : Step) (rest : List (Thr × Step)) :
    trackData s0 rest =
      ((firstStep (slotsOf s0) 0).1 ::
          (propAll (firstStep (slotsOf s0) 0).1 (firstStep (slotsOf s0) 0).2 (localMatchesData s0 rest)).1,
        (propAll (firstStep (slotsOf s0) 0).1 (firstStep (slotsOf s0) 0).2 (localMatchesData s0 rest)).2) := by
  unfold trackData track
  obtain ⟨h1, h2⟩ := allStates_propAll (mkSteps s0 rest) (init (slotsOf s0))
  rw [h1, h2]
  simp only [init, localMatches_mkSteps]

/-! ## small facts used by the property file -/

/-- the non-negative entries of a coded match vector are the predecessors, in order -/
theorem matchCode_filter_nonneg : ∀ ms : List Match,
    (ms.map matchCode).filter (fun z => decide (0 ≤ z)) = (prevs ms).map Int.ofNat
  | [] => rfl
  | Match.empty :: ms => by
    simp only [List.map_cons, matchCode, emptyMarker, prevs]
    rw [List.filter_cons_of_neg (by decide)]; exact matchCode_filter_nonneg ms
  | Match.fresh :: ms => by
    simp only [List.map_cons, matchCode, unmatchedMarker, prevs]
    rw [List.filter_cons_of_neg (by decide)]; exact matchCode_filter_nonneg ms
  | Match.prev p :: ms => by
    simp only [List.map_cons, matchCode, prevs]
    rw [List.filter_cons_of_pos (by simp), matchCode_filter_nonneg ms]
    rfl

/-- columns `a`, `a + 1` of a two-column slice -/
theorem cols_pair {α : Type} (m : List (List α)) (it : Nat) (hit : 1 ≤ it) :
    col (cols m (it - 1) (it + 1)) 0 = m.getD (it - 1) [] ∧ col (cols m (it - 1) (it + 1)) 1 = m.getD it [] := by
  obtain ⟨a, rfl⟩ : ∃ a, it = a + 1 := ⟨it - 1, by omega⟩
  have e : a + 1 + 1 - (a + 1 - 1) = 2 := by omega
  unfold col cols
  rw [e]
  constructor <;> simp [List.getD_eq_getElem?_getD]

/-- the non-negative entries of a coded identifier column are the identifiers in use, in slot order -/
theorem idCode_filter_nonneg : ∀ row : List (Option Nat),
    (row.map idCode).filter (fun z => decide (0 ≤ z)) = (present row).map Int.ofNat
  | [] => rfl
  | none :: row => by
    simp only [List.map_cons, idCode, emptyMarker, present_none]
    rw [List.filter_cons_of_neg (by decide)]; exact idCode_filter_nonneg row
  | some k :: row => by
    simp only [List.map_cons, idCode, present_some]
    rw [List.filter_cons_of_pos (by simp), idCode_filter_nonneg row]
    rfl

end WS.TrkBridge

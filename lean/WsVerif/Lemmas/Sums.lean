import WsVerif.Model.Basic
import Mathlib.Tactic.Ring
import Mathlib.Tactic.Linarith
import Mathlib.Tactic.Positivity
import Mathlib.Tactic.FieldSimp
import Mathlib.Algebra.Order.Field.Rat
import Mathlib.Algebra.BigOperators.Group.List.Basic
import Mathlib.Algebra.Order.BigOperators.Group.List
/-! Helper lemmas on finite sums over lists of rationals. -/
namespace WS

theorem sum_map_mul_const (r : List ℚ) (k : ℚ) : (r.map fun x => x * k).sum = r.sum * k := by
  induction r with
  | nil => simp
  | cons a t ih => simp [ih]; ring

theorem sum_map_const_mul (r : List ℚ) (k : ℚ) : (r.map fun x => k * x).sum = k * r.sum := by
  induction r with
  | nil => simp
  | cons a t ih => simp [ih]; ring

theorem sum_zipWith_mul_const (r t : List ℚ) (k : ℚ) (g : ℚ → ℚ → ℚ) :
    (List.zipWith (fun x y => g x y * k) r t).sum = (List.zipWith g r t).sum * k := by
  induction r generalizing t with
  | nil => simp
  | cons a r ih =>
    cases t with
    | nil => simp
    | cons b t => simp [ih]; ring

theorem sum_nonneg_of_forall {l : List ℚ} (h : ∀ x ∈ l, 0 ≤ x) : 0 ≤ l.sum := List.sum_nonneg h

end WS

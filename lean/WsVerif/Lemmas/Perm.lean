import WsVerif.Model.Basic
import WsVerif.Model.Stats
import WsVerif.Model.Peak
import WsVerif.Lemmas.Argmax
import Mathlib.Data.List.Rotate
import Mathlib.Data.Rat.Floor
import Mathlib.Algebra.BigOperators.Group.List.Basic
import Mathlib.Algebra.Order.Field.Rat
import Mathlib.Tactic.Linarith
import Mathlib.Tactic.Ring
import Mathlib.Tactic.NormNum
/-!
Helper definitions and lemmas for C05 (results depend on labelled values, not on storage order):
re-ordering of the stored direction sequence, permutation invariance of sums, column sums and argmax under
re-ordering, and circular adjacency of uniform direction grids.
-/
namespace WS

/-! ### how a re-ordering is described -/

/-- re-ordering of a direction-indexed list by the index list `σ`: position `j` of the result holds the
    entry that was stored at position `σ[j]` -/
def reorder (σ : List Nat) (l : Vec) : Vec := σ.map fun j => l.getD j 0

/-- every row of `e'` is a permutation of the corresponding row of `e` -/
def RowsPerm (e e' : Mat) : Prop := List.Forall₂ List.Perm e e'

/-- rows and a direction-indexed table (sin / cos table, direction labels, …) re-ordered *alike*: in every
    row the (value, table entry) pairs form the same multiset before and after -/
def Alike (t t' : Vec) (e e' : Mat) : Prop :=
  List.Forall₂ (fun r r' => (r.zip t).Perm (r'.zip t')) e e'

/-! ### sums -/

theorem sum_zipWith_perm (g : ℚ → ℚ → ℚ) {r t r' t' : Vec} (h : (r.zip t).Perm (r'.zip t')) :
    (List.zipWith g r t).sum = (List.zipWith g r' t').sum := by
  rw [← List.map_uncurry_zip_eq_zipWith, ← List.map_uncurry_zip_eq_zipWith]
  exact (h.map _).sum_eq

theorem map_forall₂ {α β : Type} {R : α → α → Prop} {F F' : α → β} {e e' : List α}
    (h : List.Forall₂ R e e') (hF : ∀ r r', R r r' → F r = F' r') : e.map F = e'.map F' := by
  induction h with
  | nil => rfl
  | cons hr _ ih => simp only [List.map_cons, hF _ _ hr, ih]

theorem zipWith_forall₂ {α β γ : Type} {R : α → α → Prop} {F F' : γ → α → β} {e e' : List α}
    (h : List.Forall₂ R e e') (ps : List γ) (hF : ∀ p r r', R r r' → F p r = F' p r') :
    List.zipWith F ps e = List.zipWith F' ps e' := by
  induction h generalizing ps with
  | nil => simp
  | cons hr _ ih =>
    cases ps with
    | nil => simp
    | cons p ps => simp only [List.zipWith_cons_cons, hF _ _ _ hr, ih]

theorem forall₂_zipWith_left {α β γ : Type} {R : α → α → Prop} {R' : β → β → Prop} {F : α → γ → β}
    {e e' : List α} (h : List.Forall₂ R e e') (w : List γ)
    (hF : ∀ r r' d, R r r' → R' (F r d) (F r' d)) :
    List.Forall₂ R' (List.zipWith F e w) (List.zipWith F e' w) := by
  induction h generalizing w with
  | nil => simp
  | cons hr _ ih =>
    cases w with
    | nil => simp
    | cons d w => exact List.Forall₂.cons (hF _ _ _ hr) (ih w)

theorem forall₂_map_same {α : Type} {R : α → α → Prop} (F : α → α) (e : List α) (hF : ∀ r ∈ e, R r (F r)) :
    List.Forall₂ R e (e.map F) := by
  induction e with
  | nil => exact List.Forall₂.nil
  | cons r e ih =>
    exact List.Forall₂.cons (hF r (by simp)) (ih fun r' hr' => hF r' (by simp [hr']))

/-! ### index re-orderings -/

theorem eq_map_range (l : Vec) (m : Nat) (h : l.length = m) :
    l = (List.range m).map fun j => l.getD j 0 := by
  apply List.ext_getElem
  · simp [h]
  · intro i h1 h2
    simp [List.getD_eq_getElem?_getD, h1]

theorem zip_eq_map_range (r t : Vec) (m : Nat) (hr : r.length = m) (ht : t.length = m) :
    r.zip t = (List.range m).map fun j => (r.getD j 0, t.getD j 0) := by
  conv_lhs => rw [eq_map_range r m hr, eq_map_range t m ht]
  rw [List.zip_map']

theorem rotate_eq_reorder (l : Vec) (m k : Nat) (h : l.length = m) :
    l.rotate k = reorder ((List.range m).rotate k) l := by
  unfold reorder
  rw [List.map_rotate]
  rw [← eq_map_range l m h]

theorem reverse_eq_reorder (l : Vec) (m : Nat) (h : l.length = m) :
    l.reverse = reorder (List.range m).reverse l := by
  unfold reorder
  rw [List.map_reverse, ← eq_map_range l m h]

theorem reorder_perm {σ : List Nat} {m : Nat} (hσ : σ.Perm (List.range m)) (l : Vec) (h : l.length = m) :
    (reorder σ l).Perm l := by
  unfold reorder
  conv_rhs => rw [eq_map_range l m h]
  exact hσ.map _

theorem reorder_zip_perm {σ : List Nat} {m : Nat} (hσ : σ.Perm (List.range m)) (r t : Vec)
    (hr : r.length = m) (ht : t.length = m) :
    (r.zip t).Perm ((reorder σ r).zip (reorder σ t)) := by
  unfold reorder
  rw [List.zip_map', zip_eq_map_range r t m hr ht]
  exact (hσ.map _).symm

theorem getR_reorder (σ : List Nat) (l : Vec) (j : Nat) (hj : j < σ.length) :
    getR (reorder σ l) j = getR l (σ.getD j 0) := by
  unfold getR reorder
  simp [List.getD_eq_getElem?_getD, hj]

theorem reorder_map (σ : List Nat) (g : ℚ → ℚ) (hg : g 0 = 0) (r : Vec) :
    reorder σ (r.map g) = (reorder σ r).map g := by
  unfold reorder
  rw [List.map_map]
  apply List.map_congr_left
  intro j _
  simp only [List.getD_eq_getElem?_getD, List.getElem?_map, Function.comp]
  cases r[j]? <;> simp [hg]

theorem mem_of_perm_range {σ : List Nat} {m : Nat} (hσ : σ.Perm (List.range m)) (j : Nat) (hj : j < σ.length) :
    σ.getD j 0 < m := by
  have : σ.getD j 0 ∈ σ := by
    simp [List.getD_eq_getElem?_getD, hj]
  have := hσ.mem_iff.mp this
  simpa using this

theorem exists_of_perm_range {σ : List Nat} {m : Nat} (hσ : σ.Perm (List.range m)) (i : Nat) (hi : i < m) :
    ∃ j, j < σ.length ∧ σ.getD j 0 = i := by
  have : i ∈ σ := hσ.mem_iff.mpr (by simpa using hi)
  obtain ⟨j, hj, e⟩ := List.mem_iff_getElem.mp this
  exact ⟨j, hj, by simp [List.getD_eq_getElem?_getD, hj, e]⟩

/-! ### column sums -/

theorem colSums_length (m : Nat) (e : Mat) : (colSums m e).length = m := by simp [colSums]

theorem getR_colSums (m : Nat) (e : Mat) (j : Nat) (hj : j < m) :
    getR (colSums m e) j = (e.map fun r => r.getD j 0).sum := by
  unfold getR colSums
  simp [List.getD_eq_getElem?_getD, hj]

/-- the column sums of the re-ordered matrix are the re-ordered column sums -/
theorem colSums_reorder {σ : List Nat} {m : Nat} (hσ : σ.Perm (List.range m)) (e : Mat) :
    colSums m (e.map (reorder σ)) = reorder σ (colSums m e) := by
  have hl : σ.length = m := by simpa using hσ.length_eq
  apply List.ext_getElem
  · simp [colSums, reorder, hl]
  · intro j h1 h2
    have hj : j < m := by simpa [colSums] using h1
    have e1 : (colSums m (e.map (reorder σ)))[j] = getR (colSums m (e.map (reorder σ))) j := by
      simp [getR, List.getD_eq_getElem?_getD, h1]
    have e2 : (reorder σ (colSums m e))[j] = getR (reorder σ (colSums m e)) j := by
      simp [getR, List.getD_eq_getElem?_getD, h2]
    rw [e1, e2, getR_colSums _ _ _ hj, getR_reorder _ _ _ (by omega),
      getR_colSums _ _ _ (mem_of_perm_range hσ j (by omega)), List.map_map]
    congr 1
    apply List.map_congr_left
    intro r _
    exact getR_reorder σ r j (by omega)

/-! ### argmax under re-ordering -/

/-- the entry that `argmax` picks in the re-ordered vector sits, in the original vector, at a maximiser -/
theorem argmax_reorder (cs : Vec) {σ : List Nat} (hσ : σ.Perm (List.range cs.length)) (hne : cs ≠ []) :
    argmaxFirst (reorder σ cs) < σ.length ∧
    σ.getD (argmaxFirst (reorder σ cs)) 0 < cs.length ∧
      ∀ i < cs.length, getR cs i ≤ getR cs (σ.getD (argmaxFirst (reorder σ cs)) 0) := by
  have hl : σ.length = cs.length := by simpa using hσ.length_eq
  have hlen : (reorder σ cs).length = cs.length := by simp [reorder, hl]
  have hne' : reorder σ cs ≠ [] := by
    intro h; rw [h] at hlen; exact hne (List.length_eq_zero_iff.mp hlen.symm)
  obtain ⟨hp, hmax⟩ := argmaxFirst_spec (reorder σ cs) hne'
  rw [hlen] at hp hmax
  refine ⟨by omega, mem_of_perm_range hσ _ (by omega), fun i hi => ?_⟩
  obtain ⟨j, hj, hji⟩ := exists_of_perm_range hσ i hi
  have := (hmax j (by omega)).1
  rw [getR_reorder _ _ _ hj, getR_reorder _ _ _ (by omega), hji] at this
  exact this

/-! ### circular adjacency of the stored direction labels -/

theorem absR_neg (x : ℚ) : absR (-x) = absR x := by
  unfold absR
  split <;> split <;> linarith

theorem absR_sub_comm (a b : ℚ) : absR (a - b) = absR (b - a) := by
  rw [← absR_neg (a - b)]; congr 1; ring

/-- cyclically consecutive stored labels differ by `δ` or by `360 − δ` in absolute value -/
def CircAdj (δ : ℚ) (S : Vec) : Prop :=
  ∀ j < S.length, absR (getR S ((j + 1) % S.length) - getR S j) = δ ∨
    absR (getR S ((j + 1) % S.length) - getR S j) = 360 - δ

theorem getR_rotate (S : Vec) (k i : Nat) (hi : i < S.length) :
    getR (S.rotate k) i = getR S ((i + k) % S.length) := by
  unfold getR
  rw [List.getD_eq_getElem?_getD, List.getD_eq_getElem?_getD, List.getElem?_rotate hi]

theorem getR_reverse (S : Vec) (i : Nat) (hi : i < S.length) :
    getR S.reverse i = getR S (S.length - 1 - i) := by
  unfold getR
  rw [List.getD_eq_getElem?_getD, List.getD_eq_getElem?_getD, List.getElem?_reverse hi]

theorem circAdj_rotate {δ : ℚ} {S : Vec} (h : CircAdj δ S) (k : Nat) : CircAdj δ (S.rotate k) := by
  intro j hj
  rw [List.length_rotate] at hj ⊢
  have hm : 0 < S.length := by omega
  rw [getR_rotate S k _ (Nat.mod_lt _ hm), getR_rotate S k j hj]
  have e : ((j + 1) % S.length + k) % S.length = ((j + k) % S.length + 1) % S.length := by
    rw [Nat.mod_add_mod, Nat.mod_add_mod]; congr 1; omega
  rw [e]
  exact h _ (Nat.mod_lt _ hm)

theorem circAdj_reverse {δ : ℚ} {S : Vec} (h : CircAdj δ S) : CircAdj δ S.reverse := by
  intro j hj
  rw [List.length_reverse] at hj ⊢
  have hm : 0 < S.length := by omega
  rw [getR_reverse S _ (Nat.mod_lt _ hm), getR_reverse S j hj]
  rcases Nat.lt_or_ge (j + 1) S.length with h1 | h1
  · rw [Nat.mod_eq_of_lt h1]
    have := h (S.length - 1 - (j + 1)) (by omega)
    have e : (S.length - 1 - (j + 1) + 1) % S.length = S.length - 1 - j := by
      rw [Nat.mod_eq_of_lt (by omega)]; omega
    rw [e] at this
    rw [absR_sub_comm]; exact this
  · have hj1 : j + 1 = S.length := by omega
    rw [hj1, Nat.mod_self]
    have := h (S.length - 1) (by omega)
    have e : (S.length - 1 + 1) % S.length = 0 := by
      rw [Nat.sub_add_cancel hm, Nat.mod_self]
    rw [e] at this
    have e2 : S.length - 1 - j = 0 := by omega
    rw [e2, Nat.sub_zero, absR_sub_comm]; exact this

/-- the uniform grid `θ0 + j·δ`, `j = 0..m−1`, as stored without reduction -/
def ugrid (θ0 δ : ℚ) (m : Nat) : Vec := (List.range m).map fun (j : Nat) => θ0 + (j : ℚ) * δ

/-- the same grid with every label reduced to `[0, 360)` -/
def ugridMod (θ0 δ : ℚ) (m : Nat) : Vec := (List.range m).map fun (j : Nat) => pmod (θ0 + (j : ℚ) * δ) 360

theorem getR_map_range (g : Nat → ℚ) (m i : Nat) (hi : i < m) : getR ((List.range m).map g) i = g i := by
  unfold getR
  simp [List.getD_eq_getElem?_getD, hi]

theorem circAdj_ugrid (θ0 δ : ℚ) (m : Nat) (hδ : 0 < δ) (hδ2 : δ ≤ 180) (hfull : (m : ℚ) * δ = 360) :
    CircAdj δ (ugrid θ0 δ m) := by
  intro j hj
  have hl : (ugrid θ0 δ m).length = m := by simp [ugrid]
  rw [hl] at hj ⊢
  unfold ugrid
  rw [getR_map_range _ _ _ (Nat.mod_lt _ (by omega)), getR_map_range _ _ _ hj]
  rcases Nat.lt_or_ge (j + 1) m with h1 | h1
  · left
    rw [Nat.mod_eq_of_lt h1]
    have : θ0 + ((j + 1 : ℕ) : ℚ) * δ - (θ0 + (j : ℚ) * δ) = δ := by push_cast; ring
    rw [this]; unfold absR; split <;> linarith
  · right
    have hj1 : j + 1 = m := by omega
    rw [hj1, Nat.mod_self]
    have hm : (m : ℚ) = (j : ℚ) + 1 := by rw [← hj1]; push_cast; ring
    have : θ0 + ((0 : ℕ) : ℚ) * δ - (θ0 + (j : ℚ) * δ) = δ - 360 := by
      rw [← hfull, hm]; push_cast; ring
    rw [this]; unfold absR; split <;> linarith

theorem pmod_range' (x : ℚ) : 0 ≤ pmod x 360 ∧ pmod x 360 < 360 := by
  unfold pmod
  have h1 : ((x / 360).floor : ℚ) ≤ x / 360 := Int.floor_le (x / 360)
  have h2 : x / 360 < ((x / 360).floor : ℚ) + 1 := Int.lt_floor_add_one (x / 360)
  constructor <;> linarith

/-- two labels whose unreduced difference is `δ` modulo 360 differ, after reduction to `[0,360)`, by `δ` or
    by `360 − δ` in absolute value -/
theorem absR_pmod_diff (x y δ : ℚ) (n : ℤ) (hδ : 0 < δ) (hδ2 : δ ≤ 180) (h : y - x = δ + 360 * (n : ℚ)) :
    absR (pmod y 360 - pmod x 360) = δ ∨ absR (pmod y 360 - pmod x 360) = 360 - δ := by
  obtain ⟨hx0, hx1⟩ := pmod_range' x
  obtain ⟨hy0, hy1⟩ := pmod_range' y
  have hu : pmod y 360 - pmod x 360 =
      δ + 360 * (((n - (y / 360).floor + (x / 360).floor : ℤ)) : ℚ) := by
    unfold pmod; push_cast; linarith
  generalize (n - (y / 360).floor + (x / 360).floor : ℤ) = N at hu
  have hN1 : (-2 : ℚ) < (N : ℚ) := by linarith
  have hN2 : (N : ℚ) < 1 := by linarith
  have hN1' : -2 < N := by exact_mod_cast hN1
  have hN2' : N < 1 := by exact_mod_cast hN2
  have : N = 0 ∨ N = -1 := by omega
  rcases this with rfl | rfl
  · left; rw [hu]; unfold absR; push_cast; split <;> linarith
  · right; rw [hu]; unfold absR; push_cast; split <;> linarith

theorem circAdj_ugridMod (θ0 δ : ℚ) (m : Nat) (hδ : 0 < δ) (hδ2 : δ ≤ 180) (hfull : (m : ℚ) * δ = 360) :
    CircAdj δ (ugridMod θ0 δ m) := by
  intro j hj
  have hl : (ugridMod θ0 δ m).length = m := by simp [ugridMod]
  rw [hl] at hj ⊢
  unfold ugridMod
  rw [getR_map_range _ _ _ (Nat.mod_lt _ (by omega)), getR_map_range _ _ _ hj]
  rcases Nat.lt_or_ge (j + 1) m with h1 | h1
  · rw [Nat.mod_eq_of_lt h1]
    exact absR_pmod_diff _ _ δ 0 hδ hδ2 (by push_cast; ring)
  · have hj1 : j + 1 = m := by omega
    rw [hj1, Nat.mod_self]
    have hm : (m : ℚ) = (j : ℚ) + 1 := by rw [← hj1]; push_cast; ring
    refine absR_pmod_diff _ _ δ (-1) hδ hδ2 ?_
    have : (360 : ℚ) = ((j : ℚ) + 1) * δ := by rw [← hm, hfull]
    push_cast
    linarith

end WS

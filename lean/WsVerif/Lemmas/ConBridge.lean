import WsVerif.Model.ConstructArgs
import WsVerif.Model.Consts
import WsVerif.Gen.ConKernels
import WsVerif.Props.C01
import WsVerif.Props.C01xr
import Mathlib.Tactic.Ring
import Mathlib.Tactic.FieldSimp
import Mathlib.Tactic.Linarith
/-!
Helper lemmas for `Props/C15con.lean`: the regenerated constructors (`Gen/ConKernels.lean`) against
`Model/Construct.lean` / `Model/ConstructArgs.lean`.
-/
namespace WS.ConBridge
open WS WS.Stats WS.Construct

/-- the oracle `sqrt` is a square root at the (non-negative) radicand `H` -/
def SqrtAt (sqrt : ℚ → ℚ) (H : ℚ) : Prop := 0 ≤ H ∧ sqrt H * sqrt H = H

/-- radicand of `hs` with the property's constants, tail on -/
abbrev H (f E : Vec) : ℚ := hsE Consts.thr Consts.quarter true f E

theorem oned_singletons (E : Vec) : oned 1 (E.map fun t => [t]) = E := by
  simp [oned, List.map_map, Function.comp_def]

/-- `spec.spec.hs()` of a 1-D spectrum read as an `nf × 1` matrix with `dd = 1` -/
theorem xrHs_1d (sqrt : ℚ → ℚ) (f E : Vec) (hf : f ≠ []) :
    Gen.xrHs sqrt f [] (E.map fun t => [t]) (Gen.xrDf f) 1 Gen.xrHs_tail_default = 4 * sqrt (H f E) := by
  rw [C01.genxr_df_eq f hf, C01.genxr_defaults.1, C01.genxr_hs_full, oned_singletons]

theorem scaled_core (sqrt : ℚ → ℚ) (f E : Vec) (h : ℚ) (hs : SqrtAt sqrt (H f E)) :
    Option.map (fun x => List.map (fun t => x * t) E) (Option.map (fun x => x ^ 2) (divOpt h (4 * sqrt (H f E))))
      = Construct.scaled Consts.thr Consts.quarter h f E := by
  obtain ⟨h0, hr⟩ := hs
  unfold Construct.scaled
  simp only []
  rcases h0.lt_or_eq with hpos | hz
  · have hne : sqrt (H f E) ≠ 0 := by
      intro h0'
      rw [h0'] at hr
      simp at hr
      exact absurd hr.symm (ne_of_gt hpos)
    have h4 : 4 * sqrt (H f E) ≠ 0 := mul_ne_zero (by norm_num) hne
    rw [if_neg (not_le.mpr hpos)]
    simp only [divOpt, if_neg h4, Option.map_some, scaleV]
    congr 2
    have : (h / (4 * sqrt (H f E))) ^ 2 = h ^ 2 / (16 * H f E) := by
      rw [div_pow, mul_pow, pow_two (sqrt _), hr]; norm_num
    rw [this]
  · have hr0 : sqrt (H f E) = 0 := by
      have hr' : sqrt (H f E) * sqrt (H f E) = 0 := by rw [hr]; exact hz.symm
      exact mul_self_eq_zero.mp hr'
    rw [if_pos (le_of_eq hz.symm)]
    simp [divOpt, hr0]


/-! ### list shapes produced by the translator -/

/-- the TMA depth factor as the translator writes it (one `zipWith`/`map` per Python operator) -/
theorem phi_gen (k : ℚ → ℚ) (f th sh : Vec) :
    List.zipWith (fun a b => a / b) (List.map (fun t => t ^ 2) th)
      (List.map (fun t => 1 + t) (List.zipWith (fun a b => a / b) (List.map (fun x => 2 * k x) f) sh))
      = tmaPhi (f.map k) th sh := by
  induction f generalizing th sh with
  | nil => cases th <;> simp [tmaPhi]
  | cons x f ih =>
    cases th with
    | nil => simp [tmaPhi]
    | cons t th =>
      cases sh with
      | nil => simp [tmaPhi]
      | cons s sh =>
        simp only [List.map_cons, List.zipWith_cons_cons, tmaPhi, phiElem]
        rw [ih]

theorem select_gen (c : List Bool) (x y : Vec) :
    List.zipWith (fun c p => if c = true then p.1 else p.2) c (List.zip x y) = selectV c x y := by
  induction c generalizing x y with
  | nil => simp [selectV]
  | cons b c ih =>
    cases x with
    | nil => simp [selectV]
    | cons a x =>
      cases y with
      | nil => simp [selectV]
      | cons d y => simp [selectV, ih]

/-- normalisation of one row as the translator writes it, with `n` the number of directions -/
theorem cartwrightRow_gen (pi : ℚ) (t : Vec) (n : ℕ) (hn : t.length = n) :
    Option.map (fun x => List.map (fun u => u / (180 / pi)) x)
      (Option.map (fun y => List.map (fun u => u * y) t) (divOpt 1 (t.sum * (2 * pi / ((n : ℕ) : ℚ)))))
      = cartwrightRow pi t := by
  subst hn
  unfold cartwrightRow
  simp only []
  by_cases hden : t.sum * (2 * pi / (t.length : ℚ)) = 0
  · simp [divOpt, hden]
  · have hpi : pi ≠ 0 := by
      intro h0
      apply hden
      rw [h0]; simp
    have : ¬ (t.sum * (2 * pi / (t.length : ℚ)) = 0 ∨ pi = 0) := by
      rintro (h | h)
      · exact hden h
      · exact hpi h
    simp [divOpt, hden, hpi, List.map_map, Function.comp_def]

theorem zipWith_replicate_right {α β γ} (f : α → β → γ) (l : List α) (g : β) :
    List.zipWith f l (List.replicate l.length g) = l.map fun a => f a g := by
  induction l with
  | nil => rfl
  | cons a l ih => simp [List.replicate_succ, ih]


theorem mask90_length (dirs : Vec) (m : ℚ) (t : Vec) (h : t.length = dirs.length) : (mask90 dirs m t).length = dirs.length := by
  simp [mask90, h]

theorem mask_rows_length (dirs dms : Vec) (T : Mat) (hl : ∀ t ∈ T, t.length = dirs.length) :
    ∀ t ∈ List.zipWith (fun m t => mask90 dirs m t) dms T, t.length = dirs.length := by
  induction dms generalizing T with
  | nil => simp
  | cons m dms ih =>
    cases T with
    | nil => simp
    | cons r T =>
      intro t ht
      simp only [List.zipWith_cons_cons, List.mem_cons] at ht
      rcases ht with rfl | ht
      · exact mask90_length dirs m r (hl r (by simp))
      · exact ih T (fun t ht => hl t (List.mem_cons_of_mem _ ht)) t ht

end WS.ConBridge

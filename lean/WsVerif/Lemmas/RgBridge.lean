import WsVerif.Model.RgRt
import WsVerif.Lemmas.Regrid
/-! Helper lemmas for `Props/C08rg.lean`: the vocabulary `WS.Rg` on NaN-free spectra against `Model/Regrid.lean`. -/
namespace WS.Rg
open WS WS.Regrid

theorem getO_map_some (r : Vec) (i : Nat) : getO (r.map some) i = some (getR r i) := by
  simp [getO, getR, List.getD_eq_getElem?_getD, List.getElem?_map]

theorem map_getO_range (r : ORow) : (List.range r.length).map (getO r) = r := by
  apply List.ext_getElem
  · simp
  · intro i h1 h2
    simp [getO, List.getD_eq_getElem?_getD]
    simp at h1
    simp [h1]

theorem pick_neg_one {α : Type} (l : List α) (d : α) : pick l (-1) d = l.getLastD d := by
  simp [pick, List.getD_eq_getElem?_getD, List.getLastD_eq_getLast?, List.getLast?_eq_head?_reverse, List.head?_eq_getElem?]

theorem pick_zero {α : Type} (l : List α) (d : α) : pick l 0 d = l.headD d := by
  cases l <;> simp [pick]

theorem mem_dedupGo {α : Type} : ∀ (t : List (ℚ × α)) (p x : ℚ × α), x ∈ dedupGo p t → x = p ∨ x ∈ t := by
  intro t
  induction t with
  | nil => intro p x h; simp [dedupGo] at h; exact Or.inl h
  | cons q t ih =>
    intro p x h
    rw [dedupGo_cons] at h
    split at h
    · rcases ih p x h with h | h
      · exact Or.inl h
      · exact Or.inr (List.mem_cons_of_mem _ h)
    · rcases List.mem_cons.mp h with h | h
      · exact Or.inl h
      · rcases ih q x h with h | h
        · exact Or.inr (by simp [h])
        · exact Or.inr (List.mem_cons_of_mem _ h)

theorem mem_dedupK {α : Type} (l : List (ℚ × α)) (x : ℚ × α) (h : x ∈ dedupK l) : x ∈ l := by
  cases l with
  | nil => simp [dedupK] at h
  | cons p t =>
    rcases mem_dedupGo t p x h with h | h
    · simp [h]
    · exact List.mem_cons_of_mem _ h

theorem mem_zip_range (v : Vec) (p : ℚ × Nat) (h : p ∈ v.zip (List.range v.length)) : getR v p.2 = p.1 := by
  obtain ⟨i, hi, rfl⟩ := List.mem_iff_getElem.mp h
  simp at hi
  simp [getR, List.getD_eq_getElem?_getD, hi]

/-- `isel` with the index of `np.unique` gives the sorted distinct labels -/
theorem nodes_labels (v : Vec) :
    ((dedupK (sortK (v.zip (List.range v.length)))).map (·.2)).map (getR v) =
      (dedupK (sortK (v.zip (List.range v.length)))).map (·.1) := by
  rw [List.map_map]
  apply List.map_congr_left
  intro p hp
  exact mem_zip_range v p ((mem_sortK p _).mp (mem_dedupK _ p hp))

theorem minL_sorted (l : Vec) (h : l.Pairwise (· < ·)) : minL l = l.headD 0 := by
  cases l with
  | nil => rfl
  | cons a t =>
    apply le_antisymm
    · exact minL_le_mem (a :: t) a (by simp)
    · exact head_le_minL (a :: t) h

theorem maxL_sorted (l : Vec) (h : l.Pairwise (· < ·)) : maxL l = lastD l := by
  by_cases hl : l = []
  · subst hl; rfl
  · apply le_antisymm
    · exact maxL_le_last l h
    · apply maxL_ge_mem
      have : lastD l = l.getLast hl := by
        simp [lastD, List.getLastD_eq_getLast?, List.getLast?_eq_some_getLast hl]
      rw [this]; exact List.getLast_mem hl

/-- a stable sort of strictly increasing labels is the identity -/
theorem argsort_sorted (l : Vec) (h : l.Pairwise (· < ·)) :
    (sortK (l.zip (List.range l.length))).map (·.2) = List.range l.length := by
  rw [sortK_sorted]
  · exact List.map_snd_zip (by simp)
  · rw [List.map_fst_zip (by simp)]
    exact h.imp le_of_lt

/-! ### the frequency interpolation on lifted rows (task: bridges of the frequency stage) -/

theorem insertK_map_snd {α β : Type} (g : α → β) (p : ℚ × α) : ∀ t : List (ℚ × α),
    insertK (p.1, g p.2) (t.map fun q => (q.1, g q.2)) = (insertK p t).map fun q => (q.1, g q.2) := by
  intro t
  induction t with
  | nil => rfl
  | cons q t ih =>
    simp only [List.map_cons, insertK_cons]
    split
    · simp
    · simp [ih]

theorem sortK_map_snd {α β : Type} (g : α → β) (l : List (ℚ × α)) :
    sortK (l.map fun q => (q.1, g q.2)) = (sortK l).map fun q => (q.1, g q.2) := by
  induction l with
  | nil => rfl
  | cons p t ih => simp only [List.map_cons, sortK_cons, ih, insertK_map_snd]

theorem getD_map_nil {α β : Type} (g : List α → List β) (hg : g [] = []) (l : List (List α)) (i : Nat) :
    (l.map g).getD i [] = g (l.getD i []) := by
  simp only [List.getD_eq_getElem?_getD, List.getElem?_map]
  cases l[i]? <;> simp [hg]

/-- the reading of `interp(freq=…, assume_sorted=False, fill_value=0)` on rows lifted by `M`, against the model's
    node search and `applyLocV`, for any lifting `M` / mask `K` compatible with NaN propagation -/
theorem interpFreq_lift (M : Vec → ORow) (K : Loc → Vec → ORow) (nd : Nat) (F d : Vec) (E : Mat) (tf : Vec)
    (hM0 : M [] = [])
    (hseg : ∀ i t a b, List.zipWith (fun x y => lerpO x y t) (M a) (M b) = K (.seg i t) (List.zipWith (fun x y => lerpT x y t) a b))
    (hnan : List.replicate nd none = K .nan (List.replicate nd 0))
    (hout : List.replicate nd (some 0) = K .out (List.replicate nd 0))
    (hnd : ((E.map M).headD []).length = nd) :
    interpFreq { freq := F, dir := d, e := E.map M } tf 0 =
      { freq := tf, dir := d,
        e := tf.map fun x => K (locate ((sortK (F.zip E)).map (·.1)) x)
              (applyLocV nd ((sortK (F.zip E)).map (·.2)) (locate ((sortK (F.zip E)).map (·.1)) x)) } := by
  simp only [interpFreq, hnd]
  congr 1
  apply List.map_congr_left
  intro x _
  have hz : F.zip (E.map M) = (F.zip E).map fun q => (q.1, M q.2) := by
    rw [List.zip_map_right]; rfl
  rw [hz, sortK_map_snd]
  simp only [List.map_map, Function.comp_def]
  have h2 : (sortK (F.zip E)).map (fun q => M q.2) = ((sortK (F.zip E)).map (·.2)).map M := by
    simp [List.map_map, Function.comp_def]
  rw [h2]
  simp only [lin1V]
  cases h : locate ((sortK (F.zip E)).map (·.1)) x with
  | out => simp only [applyLocV]; exact hout
  | nan => simp only [applyLocV]; exact hnan
  | seg i t => simp only [applyLocV, getD_map_nil M hM0]; exact hseg i t _ _

example : interpFreq_lift (fun _ => []) (fun _ _ => []) 0 [] [] [] [1] rfl (by simp) rfl rfl rfl =
    interpFreq_lift (fun _ => []) (fun _ _ => []) 0 [] [] [] [1] rfl (by simp) rfl rfl rfl := rfl

end WS.Rg

import WsVerif.Model.Smooth
import WsVerif.Model.SmoRt
import WsVerif.Lemmas.Smooth
/-!
Helper lemmas for `Props/C16smo.lean`: the vocabulary of the smoothing translator (`Model/SmoRt.lean`) against the
definitions of the hand model (`Model/Smooth.lean`).
-/
namespace WS.Smo
open WS WS.Smooth

theorem insertIdx_eq (d : Vec) (i : Nat) (l : List Nat) : Smo.insertIdx d i l = Smooth.insertIdx d i l := by
  induction l with
  | nil => rfl
  | cons j js ih => simp [Smo.insertIdx, Smooth.insertIdx, ih]

theorem argsortAux_eq (d : Vec) (n : Nat) : argsortAux d n = sortPermAux d n := by
  induction n with
  | zero => rfl
  | succ n ih => simp [argsortAux, sortPermAux, ih, insertIdx_eq]

theorem argsortStable_eq (d : Vec) : argsortStable d = sortPerm d := argsortAux_eq d _

theorem npDiff_eq : ∀ l : Vec, npDiff l = diffs l
  | [] => rfl
  | [_] => rfl
  | a :: b :: t => by simp [npDiff, diffs, npDiff_eq (b :: t)]

theorem amax_eq (l : Vec) : amax l = maxL l := rfl
theorem amin_eq (l : Vec) : amin l = minL l := rfl

theorem mem_listSet (x : Rat) (l : Vec) : x ∈ listSet l ↔ x ∈ l := by
  induction l with
  | nil => simp [listSet]
  | cons a t ih =>
    simp only [listSet, List.mem_cons, List.mem_filter, ih]
    by_cases h : x = a <;> simp [h]

/-- `len(set(v)) == 1` for a non-empty `v` = all entries equal the first -/
theorem listSet_length_one (d : Rat) (ds : Vec) : (listSet (d :: ds)).length = 1 ↔ ∀ x ∈ ds, x = d := by
  simp [listSet, List.filter_eq_nil_iff, mem_listSet]

theorem item0_listSet (d : Rat) (ds : Vec) : item0 (listSet (d :: ds)) = d := by
  simp [item0, listSet, getR]

theorem rollCell_eq (e : Mat) (nf nc fw dw i j : Nat) : Smo.rollCell e nf nc fw dw i j = Smooth.rollCell e nf nc fw dw i j := rfl

theorem lastN_pos {α : Type} (w : Nat) (hw : w ≠ 0) (r : List α) : lastN w r = r.drop (r.length - w) := by
  simp [lastN, hw]

theorem zipWith_pad {α : Type} (f g : List α → List α) (l : List (List α)) :
    List.zipWith (· ++ ·) (l.map f) (List.zipWith (· ++ ·) l (l.map g)) = l.map fun r => f r ++ r ++ g r := by
  induction l with
  | nil => rfl
  | cons a t ih => simp [ih]

theorem padRow_min {α : Type} (w : Nat) (r : List α) : padRow (min w r.length) r = padRow w r := by
  unfold padRow
  have h1 : r.length - min w r.length = r.length - w := by omega
  have h2 : r.take (min w r.length) = r.take w := by
    rw [List.take_eq_take_iff]; omega
  rw [h1, h2]

theorem padLabels_min (w : Nat) (l : Vec) : padLabels (min w l.length) l = padLabels w l := by
  unfold padLabels
  have h1 : l.length - min w l.length = l.length - w := by omega
  have h2 : l.take (min w l.length) = l.take w := by
    rw [List.take_eq_take_iff]; omega
  rw [h1, h2]

end WS.Smo

import WsVerif.Model.Basic
import Mathlib.Tactic.Linarith
import Mathlib.Algebra.Order.Field.Rat
/-! `argmaxFirst` returns the first index of the maximum (numpy `argmax`). -/
namespace WS

theorem getR_append_right (pre ys : Vec) (j : Nat) (h : pre.length ≤ j) :
    getR (pre ++ ys) j = getR ys (j - pre.length) := by
  unfold getR
  simp [List.getD_eq_getElem?_getD, List.getElem?_append_right h]

theorem getR_append_left (pre ys : Vec) (j : Nat) (h : j < pre.length) :
    getR (pre ++ ys) j = getR pre j := by
  unfold getR
  simp [List.getD_eq_getElem?_getD, List.getElem?_append_left h]

/-- invariant of the scan -/
theorem argmaxFirst_go_spec (pre ys : Vec) (best : Rat) (bi : Nat)
    (hbi : bi < pre.length) (hbest : best = getR (pre ++ ys) bi)
    (hinv : ∀ j < pre.length, getR (pre ++ ys) j ≤ best ∧ (j < bi → getR (pre ++ ys) j < best)) :
    let r := argmaxFirst.go best bi pre.length ys
    r < (pre ++ ys).length ∧
      ∀ j < (pre ++ ys).length, getR (pre ++ ys) j ≤ getR (pre ++ ys) r ∧
        (j < r → getR (pre ++ ys) j < getR (pre ++ ys) r) := by
  induction ys generalizing pre best bi with
  | nil =>
    simp only [argmaxFirst.go, List.append_nil, List.length_append, List.length_nil, Nat.add_zero]
    simp only [List.append_nil] at hbest hinv
    refine ⟨hbi, fun j hj => ?_⟩
    rw [← hbest]; exact hinv j hj
  | cons y ys ih =>
    have hy : getR (pre ++ y :: ys) pre.length = y := by
      rw [getR_append_right _ _ _ (le_refl _)]; simp [getR]
    have hlist : pre ++ y :: ys = (pre ++ [y]) ++ ys := by simp
    have hlen : (pre ++ [y]).length = pre.length + 1 := by simp
    simp only [argmaxFirst.go]
    by_cases hlt : best < y
    · simp only [hlt, if_true]
      have := ih (pre ++ [y]) y pre.length (by simp) (by rw [← hlist, hy])
        (by
          intro j hj
          rw [← hlist]
          rw [hlen] at hj
          rcases Nat.lt_succ_iff_lt_or_eq.mp hj with hj' | rfl
          · have := hinv j hj'
            exact ⟨by linarith [this.1], fun _ => by linarith [this.1]⟩
          · rw [hy]; exact ⟨le_refl _, fun h => absurd h (lt_irrefl _)⟩)
      rw [hlen, ← hlist] at this
      exact this
    · simp only [hlt, if_false]
      have := ih (pre ++ [y]) best bi (by simp; omega) (by rw [← hlist]; exact hbest)
        (by
          intro j hj
          rw [← hlist]
          rw [hlen] at hj
          rcases Nat.lt_succ_iff_lt_or_eq.mp hj with hj' | rfl
          · exact hinv j hj'
          · rw [hy]; exact ⟨not_lt.mp hlt, fun h => absurd h (by omega)⟩)
      rw [hlen, ← hlist] at this
      exact this

/-- numpy `argmax` semantics: a valid index, a maximiser, and the first one -/
theorem argmaxFirst_spec (l : Vec) (hne : l ≠ []) :
    argmaxFirst l < l.length ∧
      ∀ j < l.length, getR l j ≤ getR l (argmaxFirst l) ∧ (j < argmaxFirst l → getR l j < getR l (argmaxFirst l)) := by
  cases l with
  | nil => exact absurd rfl hne
  | cons x xs =>
    have := argmaxFirst_go_spec [x] xs x 0 (by simp) (by simp [getR])
      (by intro j hj; simp at hj; subst hj; simp [getR])
    simpa [argmaxFirst] using this

end WS

import WsVerif.Model.Split
import WsVerif.Model.SplRt
/-!
Helper lemmas for `Props/C09spl.lean`: the vocabulary of the split translator (`Model/SplRt.lean`) against the
hand-written model (`Model/Split.lean`), the encoding of a model box as a Python dictionary, and the loop forms
(`combinations`, fold with `partitions`/`masks`) against the model's recursive forms.  Mathlib-free.
-/
namespace WS.SplBridge
open WS WS.Split

/-! ### encoding of the model's boxes / rectangles as the Python values the generated code works on -/

/-- one limit as dictionary entries: absent key, key with `None`, key with a number -/
def entry (key : String) : Lim → Spl.Dict
  | .omitted => []
  | .none => [(key, none)]
  | .val v => [(key, some v)]

/-- the dictionary of a box (keys in the order `fmin, fmax, dmin, dmax`; `dictGet` does not depend on the order) -/
def toDict (bx : Box) : Spl.Dict :=
  entry "fmin" bx.fmin ++ entry "fmax" bx.fmax ++ entry "dmin" bx.dmin ++ entry "dmax" bx.dmax

/-- `[fmin, dmin, fmax, dmax]` -/
def rectList (r : Rect) : List Rat := [r.l, r.b, r.r, r.t]

/-! ### vocabulary twins -/

theorem amin_eq (v : Vec) : Spl.amin v = vmin v := by cases v <;> rfl
theorem amax_eq (v : Vec) : Spl.amax v = vmax v := by cases v <;> rfl
theorem truthy_eq (o : Option Rat) : Spl.truthy o = truthy o := by cases o <;> rfl
theorem inSlice_eq (lo hi : Option Rat) (x : Rat) : Spl.inSlice lo hi x = inBand lo hi x := rfl

theorem insIdx_eq (d : Vec) (a : Nat) (l : List Nat) : Spl.insIdx d a l = insIdx d a l := by
  induction l with
  | nil => rfl
  | cons b l ih => simp only [Spl.insIdx, insIdx, ih]

theorem sortIdx_eq (d : Vec) : Spl.sortIdx d = sortIdx d := by
  unfold Spl.sortIdx sortIdx
  congr 1
  funext a l
  exact insIdx_eq d a l

/-- `bbox.get(key, dflt) or alt` on the dictionary entry of a limit = the model's `Lim.get` -/
theorem orElse_get (key : String) (l : Lim) (dflt alt : Rat) (rest : Spl.Dict)
    (hrest : rest.find? (fun p => p.1 == key) = none) :
    Spl.orElse (Spl.dictGet (entry key l ++ rest) key dflt) alt = l.get dflt alt := by
  cases l with
  | omitted => simp [entry, Spl.dictGet, hrest, Spl.orElse, Lim.get]
  | none => simp [entry, Spl.dictGet, Spl.orElse, Lim.get]
  | val v => simp [entry, Spl.dictGet, Spl.orElse, Lim.get]

theorem find_entry_ne (key k : String) (l : Lim) (h : (key == k) = false) :
    (entry key l).find? (fun p => p.1 == k) = none := by
  cases l <;> simp [entry, h]

/-- looking up `k` skips the entries of another key -/
theorem dictGet_skip (key k : String) (l : Lim) (rest : Spl.Dict) (dflt : Rat) (h : (key == k) = false) :
    Spl.dictGet (entry key l ++ rest) k dflt = Spl.dictGet rest k dflt := by
  unfold Spl.dictGet
  rw [List.find?_append, find_entry_ne key k l h]
  rfl

/-! ### `combinations(rectangles, 2)` -/

theorem any_combinations2 {α : Type} (p : α → α → Bool) (l : List α) (rec : List α → Bool)
    (hnil : rec [] = false) (hcons : ∀ x xs, rec (x :: xs) = (xs.any (p x) || rec xs)) :
    (Spl.combinations2 l).any (fun q => p q.1 q.2) = rec l := by
  induction l with
  | nil => simp [Spl.combinations2, hnil]
  | cons x xs ih =>
    rw [hcons, Spl.combinations2, List.any_append, ih, List.any_map]
    rfl

/-! ### the partition loop of `bbox` -/

/-- the fold over rectangles carrying `(partitions, masks)`: appends one masked value per rectangle and ORs the masks -/
theorem foldl_parts {ρ : Type} (m : ρ → Bool) (val : Bool → Rat) (rs : List ρ) (acc : List Rat) (b : Bool) :
    rs.foldl (fun (st : List Rat × Bool) r => (st.1 ++ [val (m r)], (st.2 || m r))) (acc, b)
      = (acc ++ rs.map (fun r => val (m r)), (b || rs.any m)) := by
  induction rs generalizing acc b with
  | nil => simp
  | cons r rs ih =>
    rw [List.foldl_cons, ih]
    simp [List.append_assoc, Bool.or_assoc]

/-! ### `sorted(set(freq).union([fcut]))` on a strictly increasing frequency axis -/

theorem insertU_of_all_lt (x : Rat) (l : List Rat) (h : ∀ y ∈ l, y < x) : Spl.insertU x l = l ++ [x] := by
  induction l with
  | nil => rfl
  | cons y l ih =>
    have hy : y < x := h y (by simp)
    have h1 : ¬ x < y := by grind
    have h2 : x ≠ y := by grind
    simp only [Spl.insertU, h1, h2, if_false, List.cons_append]
    rw [ih (fun z hz => h z (by simp [hz]))]

theorem foldl_insertU_sorted (rest acc : List Rat) (h : (acc ++ rest).Pairwise (· < ·)) :
    rest.foldl (fun acc x => Spl.insertU x acc) acc = acc ++ rest := by
  induction rest generalizing acc with
  | nil => simp
  | cons x rest ih =>
    rw [List.foldl_cons]
    have hx : ∀ y ∈ acc, y < x := by
      intro y hy
      exact (List.pairwise_append.mp h).2.2 y hy x (by simp)
    rw [insertU_of_all_lt x acc hx, ih (acc ++ [x]) (by simpa using h)]
    simp

/-- `sorted(set(f).union([x]))` for a strictly increasing `f` -/
theorem sortedUnion_single (f : Vec) (x : Rat) (h : f.Pairwise (· < ·)) :
    Spl.sortedUnion f [x] = Spl.insertU x f := by
  unfold Spl.sortedUnion
  rw [List.foldl_append, foldl_insertU_sorted f [] (by simpa using h)]
  rfl

theorem insertU_sorted (x : Rat) (f : Vec) (h : f.Pairwise (· < ·)) :
    Spl.insertU x f = if f.contains x then f else f.take (searchsorted f x) ++ x :: f.drop (searchsorted f x) := by
  induction f with
  | nil => rfl
  | cons y l ih =>
    have hl := (List.pairwise_cons.mp h)
    by_cases h1 : x < y
    · have hne : ¬ x = y := by grind
      have hnm : x ∉ l := by
        intro hm; have := hl.1 x hm; grind
      have hs : searchsorted (y :: l) x = 0 := by
        have : ¬ y < x := by grind
        simp [searchsorted, List.takeWhile, this]
      simp [Spl.insertU, h1, hs, hne, hnm]
    · by_cases h2 : x = y
      · subst h2
        simp [Spl.insertU, h1]
      · have h3 : y < x := by grind
        have hs : searchsorted (y :: l) x = searchsorted l x + 1 := by
          simp [searchsorted, List.takeWhile, h3]
        have hc : (y :: l).contains x = l.contains x := by
          simp
          intro hxy; exact absurd hxy h2
        simp only [Spl.insertU, h1, h2, if_false, hs, hc, ih hl.2, List.take_succ_cons, List.drop_succ_cons]
        split <;> simp

end WS.SplBridge

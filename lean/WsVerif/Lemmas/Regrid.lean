import WsVerif.Model.Basic
import WsVerif.Model.Regrid
import WsVerif.Lemmas.Sums
import WsVerif.Lemmas.Moments
import Mathlib.Tactic.Ring
import Mathlib.Tactic.Linarith
import Mathlib.Tactic.FieldSimp
import Mathlib.Tactic.NormNum
import Mathlib.Algebra.Order.Field.Rat
import Mathlib.Data.Rat.Floor
import Mathlib.Data.List.Rotate
/-!
Helper lemmas for C08: the node search `locate`, the stable sort `sortK` / `dedupK` on already ordered and on
rotated input, `minL`/`maxL`, index bookkeeping with `getR`.
-/
namespace WS.Regrid
open WS

/-! ### `getR` bookkeeping -/

theorem getR_cons_zero (a : ℚ) (l : Vec) : getR (a :: l) 0 = a := rfl
theorem getR_cons_succ (a : ℚ) (l : Vec) (k : Nat) : getR (a :: l) (k + 1) = getR l k := rfl

theorem getR_append_add (l1 l2 : Vec) (k : Nat) : getR (l1 ++ l2) (l1.length + k) = getR l2 k := by
  simp [getR, List.getD_eq_getElem?_getD, List.getElem?_append_right]

theorem getR_of_le (l : Vec) (k : Nat) (h : l.length ≤ k) : getR l k = 0 := by
  simp [getR, List.getD_eq_getElem?_getD, List.getElem?_eq_none h]

theorem map_getR_range (r : Vec) : (List.range r.length).map (getR r) = r := by
  apply List.ext_getElem
  · simp
  · intro i h1 h2
    simp only [List.getElem_map, List.getElem_range]
    exact getR_eq_getElem r i h2

theorem getR_nonneg' (l : Vec) (h : ∀ y ∈ l, 0 ≤ y) (k : Nat) : 0 ≤ getR l k := getR_nonneg_of_forall l h k

/-! ### `lerpT` -/

theorem lerpT_zero (a b : ℚ) : lerpT a b 0 = a := by simp [lerpT]
theorem lerpT_one (a b : ℚ) : lerpT a b 1 = b := by simp [lerpT]
theorem lerpT_convex (a b t : ℚ) : lerpT a b t = (1 - t) * a + t * b := by unfold lerpT; ring
theorem lerpT_nonneg (a b t : ℚ) (ha : 0 ≤ a) (hb : 0 ≤ b) (h0 : 0 ≤ t) (h1 : t ≤ 1) : 0 ≤ lerpT a b t := by
  rw [lerpT_convex]
  have := mul_nonneg (sub_nonneg.mpr h1) ha
  have := mul_nonneg h0 hb
  linarith

/-! ### the node search -/

theorem locate_cons2 (x0 x1 : ℚ) (rest : Vec) (x : ℚ) :
    locate (x0 :: x1 :: rest) x = if x < x0 then .out else locGo x x0 0 (x1 :: rest) := rfl
theorem locate_single (x0 x : ℚ) : locate [x0] x = if x = x0 then .nan else .out := rfl
theorem locGo_cons (x x0 : ℚ) (i : Nat) (x1 : ℚ) (rest : Vec) :
    locGo x x0 i (x1 :: rest) =
      if x ≤ x1 then (if x1 = x0 then .nan else .seg i ((x - x0) / (x1 - x0))) else locGo x x1 (i + 1) rest := rfl
theorem locGo_nil (x x0 : ℚ) (i : Nat) : locGo x x0 i [] = .out := rfl

/-- whatever the nodes: a located segment brackets the target, is non-degenerate, and carries the linear weight -/
theorem locGo_seg (x : ℚ) : ∀ (rest : Vec) (x0 : ℚ) (i j : Nat) (t : ℚ), x0 ≤ x →
    locGo x x0 i rest = .seg j t →
    ∃ k, j = i + k ∧ k + 1 < (x0 :: rest).length ∧ getR (x0 :: rest) k ≤ x ∧ x ≤ getR (x0 :: rest) (k + 1) ∧
      getR (x0 :: rest) k < getR (x0 :: rest) (k + 1) ∧
      t = (x - getR (x0 :: rest) k) / (getR (x0 :: rest) (k + 1) - getR (x0 :: rest) k) := by
  intro rest
  induction rest with
  | nil => intro x0 i j t _ h; rw [locGo_nil] at h; cases h
  | cons x1 r ih =>
    intro x0 i j t h0 h
    rw [locGo_cons] at h
    by_cases hx : x ≤ x1
    · rw [if_pos hx] at h
      by_cases he : x1 = x0
      · rw [if_pos he] at h; cases h
      · rw [if_neg he] at h
        injection h with h1 h2
        refine ⟨0, by omega, by simp, ?_, ?_, ?_, ?_⟩
        · simpa [getR_cons_zero] using h0
        · simpa [getR_cons_zero, getR_cons_succ] using hx
        · simp only [getR_cons_zero, getR_cons_succ]
          exact lt_of_le_of_ne (le_trans h0 hx) (Ne.symm he)
        · simp only [getR_cons_zero, getR_cons_succ]; exact h2.symm
    · rw [if_neg hx] at h
      obtain ⟨k, hk1, hk2, hk3, hk4, hk5, hk6⟩ := ih x1 (i + 1) j t (le_of_lt (not_le.mp hx)) h
      refine ⟨k + 1, by omega, by simpa using hk2, ?_, ?_, ?_, ?_⟩
      · simpa only [getR_cons_succ] using hk3
      · simpa only [getR_cons_succ] using hk4
      · simpa only [getR_cons_succ] using hk5
      · simpa only [getR_cons_succ] using hk6

theorem locate_seg (xs : Vec) (x : ℚ) (j : Nat) (t : ℚ) (h : locate xs x = .seg j t) :
    j + 1 < xs.length ∧ getR xs j ≤ x ∧ x ≤ getR xs (j + 1) ∧ getR xs j < getR xs (j + 1) ∧
      t = (x - getR xs j) / (getR xs (j + 1) - getR xs j) := by
  match xs, h with
  | [], h => simp [locate] at h
  | [x0], h =>
    rw [locate_single] at h
    split_ifs at h
  | x0 :: x1 :: rest, h =>
    rw [locate_cons2] at h
    by_cases hx : x < x0
    · rw [if_pos hx] at h; cases h
    · rw [if_neg hx] at h
      obtain ⟨k, hk1, hk2, hk3, hk4, hk5, hk6⟩ := locGo_seg x (x1 :: rest) x0 0 j t (not_lt.mp hx) h
      have : j = k := by omega
      subst this
      exact ⟨hk2, hk3, hk4, hk5, hk6⟩

/-- the weight of a located segment lies in `[0, 1]` -/
theorem locate_seg_weight (xs : Vec) (x : ℚ) (j : Nat) (t : ℚ) (h : locate xs x = .seg j t) :
    0 ≤ t ∧ t ≤ 1 := by
  obtain ⟨_, h1, h2, h3, h4⟩ := locate_seg xs x j t h
  have hpos : 0 < getR xs (j + 1) - getR xs j := sub_pos.mpr h3
  rw [h4]
  constructor
  · exact div_nonneg (sub_nonneg.mpr h1) (le_of_lt hpos)
  · rw [div_le_one hpos]; linarith

/-- on strictly increasing nodes the `k+1`-th node is found at the right end of segment `k` -/
theorem locGo_node : ∀ (rest : Vec) (x0 : ℚ) (i k : Nat), (x0 :: rest).Pairwise (· < ·) → k < rest.length →
    locGo (getR rest k) x0 i rest = .seg (i + k) 1 := by
  intro rest
  induction rest with
  | nil => intro x0 i k _ hk; simp at hk
  | cons x1 r ih =>
    intro x0 i k hs hk
    have hs' := List.pairwise_cons.mp hs
    have h01 : x0 < x1 := hs'.1 x1 (by simp)
    cases k with
    | zero =>
      rw [getR_cons_zero, locGo_cons, if_pos (le_refl _), if_neg (ne_of_gt h01), Nat.add_zero]
      have : x1 - x0 ≠ 0 := sub_ne_zero.mpr (ne_of_gt h01)
      rw [div_self this]
    | succ k =>
      have hk' : k < r.length := by simpa using hk
      have hmem : getR r k ∈ r := getR_mem r k hk'
      have hlt : x1 < getR r k := (List.pairwise_cons.mp hs'.2).1 _ hmem
      rw [getR_cons_succ, locGo_cons, if_neg (not_le.mpr hlt)]
      have := ih x1 (i + 1) k hs'.2 hk'
      rw [this]; congr 1; omega

theorem locate_node_zero (xs : Vec) (hs : xs.Pairwise (· < ·)) (hn : 2 ≤ xs.length) :
    locate xs (getR xs 0) = .seg 0 0 := by
  match xs, hn with
  | x0 :: x1 :: rest, _ =>
    have h01 : x0 < x1 := (List.pairwise_cons.mp hs).1 x1 (by simp)
    rw [getR_cons_zero, locate_cons2, if_neg (lt_irrefl _), locGo_cons, if_pos (le_of_lt h01), if_neg (ne_of_gt h01)]
    simp

theorem locate_node_succ (xs : Vec) (hs : xs.Pairwise (· < ·)) (k : Nat) (hk : k + 1 < xs.length) :
    locate xs (getR xs (k + 1)) = .seg k 1 := by
  match xs, hk with
  | x0 :: x1 :: rest, hk =>
    have hk' : k < (x1 :: rest).length := by simpa using hk
    have hmem : getR (x1 :: rest) k ∈ x1 :: rest := getR_mem _ k hk'
    have hlt : x0 < getR (x1 :: rest) k := (List.pairwise_cons.mp hs).1 _ hmem
    rw [getR_cons_succ, locate_cons2, if_neg (not_lt.mpr (le_of_lt hlt))]
    have := locGo_node (x1 :: rest) x0 0 k hs hk'
    rw [this]; simp

/-- beyond every node: the fill value -/
theorem locGo_out (x : ℚ) : ∀ (rest : Vec) (x0 : ℚ) (i : Nat), (∀ y ∈ rest, y < x) → locGo x x0 i rest = .out := by
  intro rest
  induction rest with
  | nil => intro _ _ _; rfl
  | cons x1 r ih =>
    intro x0 i h
    rw [locGo_cons, if_neg (not_le.mpr (h x1 (by simp)))]
    exact ih x1 (i + 1) (fun y hy => h y (List.mem_cons_of_mem _ hy))

theorem locate_out_above (xs : Vec) (x : ℚ) (h : ∀ y ∈ xs, y < x) : locate xs x = .out := by
  match xs, h with
  | [], _ => rfl
  | [x0], h =>
    rw [locate_single, if_neg (ne_of_gt (h x0 (by simp)))]
  | x0 :: x1 :: rest, h =>
    rw [locate_cons2, if_neg (not_lt.mpr (le_of_lt (h x0 (by simp))))]
    exact locGo_out x (x1 :: rest) x0 0 (fun y hy => h y (List.mem_cons_of_mem _ hy))

/-- a target in the first segment -/
theorem locate_first_seg (a b : ℚ) (rest : Vec) (x : ℚ) (h1 : a ≤ x) (h2 : x ≤ b) (hab : a ≠ b) :
    locate (a :: b :: rest) x = .seg 0 ((x - a) / (b - a)) := by
  rw [locate_cons2, if_neg (not_lt.mpr h1), locGo_cons, if_pos h2, if_neg (Ne.symm hab)]

/-- a target in the last segment -/
theorem locGo_last_seg (x a b : ℚ) (ha : a < x) (hb : x ≤ b) : ∀ (l : Vec) (x0 : ℚ) (i : Nat),
    (∀ y ∈ l, y < x) → locGo x x0 i (l ++ [a, b]) = .seg (i + l.length + 1) ((x - a) / (b - a)) := by
  intro l
  induction l with
  | nil =>
    intro x0 i _
    rw [List.nil_append, locGo_cons, if_neg (not_le.mpr ha), locGo_cons, if_pos hb,
      if_neg (ne_of_gt (lt_of_lt_of_le ha hb))]
    simp
  | cons y l ih =>
    intro x0 i h
    rw [List.cons_append, locGo_cons, if_neg (not_le.mpr (h y (by simp)))]
    rw [ih y (i + 1) (fun z hz => h z (List.mem_cons_of_mem _ hz))]
    congr 1; simp; omega

theorem locate_last_seg (l : Vec) (a b x : ℚ) (hl : ∀ y ∈ l, y < x) (ha : a < x) (hb : x ≤ b) :
    locate (l ++ [a, b]) x = .seg l.length ((x - a) / (b - a)) := by
  cases l with
  | nil =>
    simp only [List.nil_append, List.length_nil]
    exact locate_first_seg a b [] x (le_of_lt ha) hb (ne_of_lt (lt_of_lt_of_le ha hb))
  | cons y l =>
    have hy : y < x := hl y (by simp)
    have : (y :: l) ++ [a, b] = y :: (l ++ [a, b]) := rfl
    rw [this]
    cases hl' : l ++ [a, b] with
    | nil => simp at hl'
    | cons z zs =>
      rw [locate_cons2, if_neg (not_lt.mpr (le_of_lt hy)), ← hl']
      rw [locGo_last_seg x a b ha hb l y 0 (fun z hz => hl z (List.mem_cons_of_mem _ hz))]
      simp

/-! ### stable sort and `np.unique` on input that is already ordered, or a rotation of an ordered list -/

section SortLemmas
variable {α : Type}

theorem insertK_nil (p : ℚ × α) : insertK p [] = [p] := rfl
theorem insertK_cons (p q : ℚ × α) (t : List (ℚ × α)) :
    insertK p (q :: t) = if p.1 ≤ q.1 then p :: q :: t else q :: insertK p t := rfl
theorem sortK_nil : sortK ([] : List (ℚ × α)) = [] := rfl
theorem sortK_cons (p : ℚ × α) (t : List (ℚ × α)) : sortK (p :: t) = insertK p (sortK t) := rfl

/-- keys weakly below every key of the list: inserted in front -/
theorem insertK_front (p : ℚ × α) (t : List (ℚ × α)) (h : ∀ q ∈ t, p.1 ≤ q.1) : insertK p t = p :: t := by
  cases t with
  | nil => rfl
  | cons q t => rw [insertK_cons, if_pos (h q (by simp))]

theorem sortK_sorted (l : List (ℚ × α)) (h : (l.map (·.1)).Pairwise (· ≤ ·)) : sortK l = l := by
  induction l with
  | nil => rfl
  | cons p t ih =>
    simp only [List.map_cons, List.pairwise_cons] at h
    rw [sortK_cons, ih h.2]
    exact insertK_front p t (fun q hq => h.1 q.1 (List.mem_map_of_mem hq))

theorem mem_insertK (p x : ℚ × α) (t : List (ℚ × α)) : x ∈ insertK p t ↔ x = p ∨ x ∈ t := by
  induction t with
  | nil => simp [insertK_nil]
  | cons q t ih =>
    rw [insertK_cons]
    split
    · simp
    · simp only [List.mem_cons, ih]; tauto

theorem mem_sortK (x : ℚ × α) (l : List (ℚ × α)) : x ∈ sortK l ↔ x ∈ l := by
  induction l with
  | nil => simp [sortK_nil]
  | cons p t ih => rw [sortK_cons, mem_insertK, ih]; simp

theorem length_insertK (p : ℚ × α) (t : List (ℚ × α)) : (insertK p t).length = t.length + 1 := by
  induction t with
  | nil => rfl
  | cons q t ih => rw [insertK_cons]; split <;> simp [ih]

theorem length_sortK (l : List (ℚ × α)) : (sortK l).length = l.length := by
  induction l with
  | nil => rfl
  | cons p t ih => rw [sortK_cons, length_insertK, ih]; rfl

/-- a key above every key of `l2`: inserted behind `l2` -/
theorem insertK_append (p : ℚ × α) (l2 t : List (ℚ × α)) (h : ∀ q ∈ l2, q.1 < p.1) :
    insertK p (l2 ++ t) = l2 ++ insertK p t := by
  induction l2 with
  | nil => rfl
  | cons q l2 ih =>
    rw [List.cons_append, insertK_cons, if_neg (not_le.mpr (h q (by simp)))]
    rw [ih (fun r hr => h r (List.mem_cons_of_mem _ hr))]; rfl

theorem foldr_insertK_append (l2 : List (ℚ × α)) : ∀ l1 : List (ℚ × α),
    ((l2 ++ l1).map (·.1)).Pairwise (· < ·) → List.foldr insertK l2 l1 = l2 ++ l1 := by
  intro l1
  induction l1 with
  | nil => intro _; simp
  | cons a t ih =>
    intro h
    have hsub : ((l2 ++ t).map (·.1)).Pairwise (· < ·) := by
      refine List.Pairwise.sublist ?_ h
      exact List.Sublist.map _ (List.Sublist.append_left (List.sublist_cons_self a t) l2)
    rw [List.foldr_cons, ih hsub]
    rw [List.map_append, List.pairwise_append] at h
    have h2 : ∀ q ∈ l2, q.1 < a.1 := fun q hq => h.2.2 q.1 (List.mem_map_of_mem hq) a.1 (by simp)
    rw [insertK_append a l2 t h2]
    have h3 := h.2.1
    simp only [List.map_cons, List.pairwise_cons] at h3
    rw [insertK_front a t (fun q hq => le_of_lt (h3.1 q.1 (List.mem_map_of_mem hq)))]

/-- sorting a rotation `l1 ++ l2` of a strictly ordered list `l2 ++ l1` gives the ordered list back -/
theorem sortK_rotated (l1 l2 : List (ℚ × α)) (h : ((l2 ++ l1).map (·.1)).Pairwise (· < ·)) :
    sortK (l1 ++ l2) = l2 ++ l1 := by
  unfold sortK
  rw [List.foldr_append]
  have h2 : (l2.map (·.1)).Pairwise (· ≤ ·) := by
    rw [List.map_append, List.pairwise_append] at h
    exact h.1.imp le_of_lt
  have : List.foldr insertK [] l2 = l2 := sortK_sorted l2 h2
  rw [this]
  exact foldr_insertK_append l2 l1 h

theorem dedupGo_strict : ∀ (t : List (ℚ × α)) (p : ℚ × α), (((p :: t).map (·.1))).Pairwise (· < ·) →
    dedupGo p t = p :: t := by
  intro t
  induction t with
  | nil => intro p _; rfl
  | cons q t ih =>
    intro p h
    simp only [List.map_cons, List.pairwise_cons] at h
    have hpq : p.1 < q.1 := h.1 q.1 (by simp)
    show (if p.1 = q.1 then dedupGo p t else p :: dedupGo q t) = p :: q :: t
    rw [if_neg (ne_of_lt hpq), ih q (by simp only [List.map_cons, List.pairwise_cons]; exact h.2)]

theorem dedupK_strict (l : List (ℚ × α)) (h : (l.map (·.1)).Pairwise (· < ·)) : dedupK l = l := by
  cases l with
  | nil => rfl
  | cons p t => exact dedupGo_strict t p h

end SortLemmas

/-! ### `min()` / `max()` of a coordinate array -/

theorem minD_le_init (l : Vec) (a : ℚ) : minD l a ≤ a := by
  unfold minD
  induction l generalizing a with
  | nil => exact le_refl _
  | cons b l ih =>
    simp only [List.foldl_cons]
    split
    · exact le_trans (ih b) (le_of_lt ‹b < a›)
    · exact ih a

theorem minD_le_mem (l : Vec) (a : ℚ) : ∀ y ∈ l, minD l a ≤ y := by
  unfold minD
  induction l generalizing a with
  | nil => intro y hy; simp at hy
  | cons b l ih =>
    intro y hy
    simp only [List.foldl_cons]
    rcases List.mem_cons.mp hy with rfl | hy
    · split
      · exact minD_le_init l y
      · exact le_trans (minD_le_init l a) (not_lt.mp ‹¬ y < a›)
    · exact ih _ y hy

theorem minD_mem (l : Vec) (a : ℚ) : minD l a = a ∨ minD l a ∈ l := by
  unfold minD
  induction l generalizing a with
  | nil => left; rfl
  | cons b l ih =>
    simp only [List.foldl_cons]
    split
    · rcases ih b with h | h
      · right; rw [h]; simp
      · right; exact List.mem_cons_of_mem _ h
    · rcases ih a with h | h
      · left; exact h
      · right; exact List.mem_cons_of_mem _ h

theorem maxD_ge_init (l : Vec) (a : ℚ) : a ≤ maxD l a := by
  unfold maxD
  induction l generalizing a with
  | nil => exact le_refl _
  | cons b l ih =>
    simp only [List.foldl_cons]
    split
    · exact le_trans (le_of_lt ‹a < b›) (ih b)
    · exact ih a

theorem maxD_ge_mem (l : Vec) (a : ℚ) : ∀ y ∈ l, y ≤ maxD l a := by
  unfold maxD
  induction l generalizing a with
  | nil => intro y hy; simp at hy
  | cons b l ih =>
    intro y hy
    simp only [List.foldl_cons]
    rcases List.mem_cons.mp hy with rfl | hy
    · split
      · exact maxD_ge_init l y
      · exact le_trans (not_lt.mp ‹¬ a < y›) (maxD_ge_init l a)
    · exact ih _ y hy

theorem maxD_mem (l : Vec) (a : ℚ) : maxD l a = a ∨ maxD l a ∈ l := by
  unfold maxD
  induction l generalizing a with
  | nil => left; rfl
  | cons b l ih =>
    simp only [List.foldl_cons]
    split
    · rcases ih b with h | h
      · right; rw [h]; simp
      · right; exact List.mem_cons_of_mem _ h
    · rcases ih a with h | h
      · left; exact h
      · right; exact List.mem_cons_of_mem _ h

theorem minL_le_mem (l : Vec) : ∀ y ∈ l, minL l ≤ y := minD_le_mem l _
theorem maxL_ge_mem (l : Vec) : ∀ y ∈ l, y ≤ maxL l := maxD_ge_mem l _

theorem minL_mem (l : Vec) (h : l ≠ []) : minL l ∈ l := by
  unfold minL
  cases l with
  | nil => exact absurd rfl h
  | cons a t =>
    rcases minD_mem (a :: t) a with h1 | h1
    · simp only [List.headD_cons]; rw [h1]; simp
    · exact h1

theorem maxL_mem (l : Vec) (h : l ≠ []) : maxL l ∈ l := by
  unfold maxL
  cases l with
  | nil => exact absurd rfl h
  | cons a t =>
    rcases maxD_mem (a :: t) a with h1 | h1
    · simp only [List.headD_cons]; rw [h1]; simp
    · exact h1

/-- on a strictly increasing list the minimum is the head and the maximum the last element -/
theorem head_le_minL (l : Vec) (h : l.Pairwise (· < ·)) : l.headD 0 ≤ minL l := by
  cases l with
  | nil => simp [minL, minD]
  | cons a t => exact (pairwise_lt_bounds (a :: t) h _ (minL_mem (a :: t) (by simp))).1

theorem maxL_le_last (l : Vec) (h : l.Pairwise (· < ·)) : maxL l ≤ lastD l := by
  cases l with
  | nil => simp [maxL, maxD, lastD]
  | cons a t => exact (pairwise_lt_bounds (a :: t) h _ (maxL_mem (a :: t) (by simp))).2

/-! ### `%` -/

theorem pmod_of_range (x m : ℚ) (hm : 0 < m) (h0 : 0 ≤ x) (h1 : x < m) : pmod x m = x := by
  unfold pmod
  have : (x / m).floor = 0 :=
    (Int.floor_eq_iff (a := x / m) (z := 0)).mpr
      ⟨by simpa using div_nonneg h0 (le_of_lt hm), by simpa using (div_lt_one hm).mpr h1⟩
  rw [this]; simp

theorem pmod_add_mul_int (x m : ℚ) (z : ℤ) (hm : 0 < m) : pmod (x + m * z) m = pmod x m := by
  unfold pmod
  have hm' : m ≠ 0 := ne_of_gt hm
  have e : (x + m * z) / m = x / m + (z : ℚ) := by field_simp
  have hfl : (x / m + (z : ℚ)).floor = (x / m).floor + z := Int.floor_add_intCast (x / m) z
  rw [e, hfl]; push_cast; ring

/-! ### the stable sort and `np.unique` in general: sorted, strictly increasing after `dedupK`, same key set -/

section SortGeneral
variable {α : Type}

theorem insertK_keys_sorted (p : ℚ × α) (t : List (ℚ × α)) (h : (t.map (·.1)).Pairwise (· ≤ ·)) :
    ((insertK p t).map (·.1)).Pairwise (· ≤ ·) := by
  induction t with
  | nil => simp [insertK_nil]
  | cons q t ih =>
    simp only [List.map_cons, List.pairwise_cons] at h
    rw [insertK_cons]
    split
    · rename_i hpq
      simp only [List.map_cons, List.pairwise_cons]
      refine ⟨?_, h⟩
      intro y hy
      rcases List.mem_cons.mp hy with rfl | hy
      · exact hpq
      · exact le_trans hpq (h.1 y hy)
    · rename_i hpq
      simp only [List.map_cons, List.pairwise_cons]
      refine ⟨?_, ih h.2⟩
      intro y hy
      simp only [List.mem_map] at hy
      obtain ⟨r, hr, rfl⟩ := hy
      rcases (mem_insertK p r t).mp hr with rfl | hr
      · exact le_of_lt (not_le.mp hpq)
      · exact h.1 r.1 (List.mem_map_of_mem hr)

theorem sortK_keys_sorted (l : List (ℚ × α)) : ((sortK l).map (·.1)).Pairwise (· ≤ ·) := by
  induction l with
  | nil => simp [sortK_nil]
  | cons p t ih => rw [sortK_cons]; exact insertK_keys_sorted p _ ih

theorem dedupGo_cons (p q : ℚ × α) (t : List (ℚ × α)) :
    dedupGo p (q :: t) = if p.1 = q.1 then dedupGo p t else p :: dedupGo q t := rfl

/-- on key-sorted input `np.unique` leaves strictly increasing keys, the same key set, starting with the first -/
theorem dedupGo_spec : ∀ (t : List (ℚ × α)) (p : ℚ × α), (((p :: t).map (·.1))).Pairwise (· ≤ ·) →
    ((dedupGo p t).map (·.1)).Pairwise (· < ·) ∧
      (∀ y, y ∈ (dedupGo p t).map (·.1) ↔ y ∈ (p :: t).map (·.1)) ∧
      (∃ rest, dedupGo p t = p :: rest) := by
  intro t
  induction t with
  | nil => intro p _; exact ⟨by simp [dedupGo], fun y => by simp [dedupGo], ⟨[], rfl⟩⟩
  | cons q t ih =>
    intro p h
    simp only [List.map_cons, List.pairwise_cons] at h
    rw [dedupGo_cons]
    by_cases hpq : p.1 = q.1
    · rw [if_pos hpq]
      have hpt : (((p :: t).map (·.1))).Pairwise (· ≤ ·) := by
        simp only [List.map_cons, List.pairwise_cons]
        exact ⟨fun y hy => h.1 y (List.mem_cons_of_mem _ hy), h.2.2⟩
      obtain ⟨h1, h2, h3⟩ := ih p hpt
      refine ⟨h1, fun y => ?_, h3⟩
      rw [h2 y]
      simp only [List.map_cons, List.mem_cons]
      constructor
      · rintro (hy | hy)
        · exact Or.inl hy
        · exact Or.inr (Or.inr hy)
      · rintro (hy | hy | hy)
        · exact Or.inl hy
        · exact Or.inl (hy.trans hpq.symm)
        · exact Or.inr hy
    · rw [if_neg hpq]
      have hqt : (((q :: t).map (·.1))).Pairwise (· ≤ ·) := by
        simp only [List.map_cons, List.pairwise_cons]; exact h.2
      obtain ⟨h1, h2, h3⟩ := ih q hqt
      have hlt : p.1 < q.1 := lt_of_le_of_ne (h.1 q.1 (by simp)) hpq
      refine ⟨?_, fun y => ?_, ⟨dedupGo q t, rfl⟩⟩
      · simp only [List.map_cons, List.pairwise_cons]
        refine ⟨fun y hy => ?_, h1⟩
        have := (h2 y).mp hy
        simp only [List.map_cons, List.mem_cons] at this
        rcases this with rfl | hy'
        · exact hlt
        · exact lt_of_lt_of_le hlt (h.2.1 y hy')
      · simp only [List.map_cons, List.mem_cons]
        rw [h2 y]
        simp only [List.map_cons, List.mem_cons]

theorem dedupK_sortK_spec (l : List (ℚ × α)) :
    ((dedupK (sortK l)).map (·.1)).Pairwise (· < ·) ∧ (∀ y, y ∈ (dedupK (sortK l)).map (·.1) ↔ y ∈ l.map (·.1)) := by
  have hs := sortK_keys_sorted l
  have hmem : ∀ y, y ∈ (sortK l).map (·.1) ↔ y ∈ l.map (·.1) := by
    intro y
    simp only [List.mem_map]
    constructor
    · rintro ⟨p, hp, rfl⟩; exact ⟨p, (mem_sortK p l).mp hp, rfl⟩
    · rintro ⟨p, hp, rfl⟩; exact ⟨p, (mem_sortK p l).mpr hp, rfl⟩
  cases hl : sortK l with
  | nil =>
    rw [hl] at hmem
    exact ⟨by simp [dedupK], fun y => by rw [← hmem y]; simp [dedupK]⟩
  | cons p t =>
    rw [hl] at hs hmem
    obtain ⟨h1, h2, _⟩ := dedupGo_spec t p hs
    exact ⟨h1, fun y => by rw [← hmem y]; exact h2 y⟩

end SortGeneral

theorem two_le_length_of_mem_ne (l : Vec) (a b : ℚ) (ha : a ∈ l) (hb : b ∈ l) (hab : a ≠ b) : 2 ≤ l.length := by
  match l, ha, hb with
  | [x], ha, hb =>
    simp only [List.mem_singleton] at ha hb
    exact absurd (ha.trans hb.symm) hab
  | _ :: _ :: _, _, _ => simp

/-- inside the node range of strictly increasing nodes (at least two) a segment is always found -/
theorem locGo_in_range (x : ℚ) : ∀ (rest : Vec) (x0 : ℚ) (i : Nat), (x0 :: rest).Pairwise (· < ·) → rest ≠ [] →
    x ≤ lastD (x0 :: rest) → (locGo x x0 i rest).isSeg = true := by
  intro rest
  induction rest with
  | nil => intro _ _ _ h; exact absurd rfl h
  | cons x1 r ih =>
    intro x0 i hs _ hx
    have hs' := List.pairwise_cons.mp hs
    rw [locGo_cons]
    by_cases h1 : x ≤ x1
    · rw [if_pos h1, if_neg (ne_of_gt (hs'.1 x1 (by simp)))]; rfl
    · rw [if_neg h1]
      have hr : r ≠ [] := by
        intro hr
        subst hr
        simp [lastD] at hx
        exact h1 hx
      apply ih x1 (i + 1) hs'.2 hr
      have : lastD (x0 :: x1 :: r) = lastD (x1 :: r) := by simp [lastD]
      rw [← this]; exact hx

theorem locate_in_range (xs : Vec) (x : ℚ) (hs : xs.Pairwise (· < ·)) (hn : 2 ≤ xs.length) (h0 : xs.headD 0 ≤ x)
    (h1 : x ≤ lastD xs) : (locate xs x).isSeg = true := by
  match xs, hn with
  | x0 :: x1 :: rest, _ =>
    simp only [List.headD_cons] at h0
    rw [locate_cons2, if_neg (not_lt.mpr h0)]
    exact locGo_in_range x (x1 :: rest) x0 0 hs (by simp) h1

end WS.Regrid

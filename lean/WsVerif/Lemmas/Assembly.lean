import WsVerif.Model.Assembly
import WsVerif.Lemmas.Sums
import Mathlib.Data.List.Nodup
import Mathlib.Data.List.Count
import Mathlib.Data.List.Perm.Basic
import Mathlib.Data.List.Forall2
import Mathlib.Data.List.Range
import Mathlib.Tactic.Linarith
/-!
Helper lemmas for C03: the partition assembly of `Model/Assembly.lean` seen as "every bin has at most one
destination".  A method is described by a destination function `dest : Bin → Option Dest`; the partition of
destination `d` is `render d = where(dest == d, E, 0)`.  The lemmas show that the accumulated arrays of the code
are such renders, that sorting / truncating / padding only permutes, drops or adds all-zero entries, and what
the per-bin column sums and column counts of a list of renders are.
-/
namespace WS.Assembly
open WS

/-- where a bin ends up -/
inductive Dest where
  | wsea | wsea2 | swell (k : Nat)
deriving DecidableEq, Repr

/-! ### generic list helpers -/

theorem zipWith_map_map {α β γ δ} (f : β → γ → δ) (g : α → β) (h : α → γ) (l : List α) :
    List.zipWith f (l.map g) (l.map h) = l.map (fun x => f (g x) (h x)) := by
  induction l <;> simp_all

theorem zipWith_self_map {α β γ} (f : α → β → γ) (h : α → β) (l : List α) :
    List.zipWith f l (l.map h) = l.map (fun x => f x (h x)) := by
  induction l <;> simp_all

/-! ### `select`, `add`, `whereWs` -/

@[simp] theorem select_mask (bins : List Bin) (s : Bin → Bool) : (select bins s).mask = bins.map s := rfl
@[simp] theorem select_vals (bins : List Bin) (s : Bin → Bool) :
    (select bins s).vals = bins.map (fun b => if s b then b.e else 0) := rfl

theorem select_congr {bins : List Bin} {s t : Bin → Bool} (h : ∀ b ∈ bins, s b = t b) :
    select bins s = select bins t := by
  unfold select
  congr 1
  · exact List.map_congr_left h
  · exact List.map_congr_left fun b hb => by rw [h b hb]

theorem add_select (bins : List Bin) (s t : Bin → Bool) (h : ∀ b ∈ bins, ¬ (s b = true ∧ t b = true)) :
    (select bins s).add (select bins t) = select bins (fun b => s b || t b) := by
  unfold Part.add
  simp only [select_mask, select_vals, zipWith_map_map]
  unfold select
  congr 1
  apply List.map_congr_left
  intro b hb
  have := h b hb
  cases hs : s b <;> cases ht : t b <;> simp_all

theorem zeros_add_select (bins : List Bin) (t : Bin → Bool) : (zeros bins).add (select bins t) = select bins t := by
  unfold zeros
  rw [add_select bins _ t (by simp)]
  simp

theorem whereWs_select (bins : List Bin) (s : Bin → Bool) :
    whereWs bins (select bins s) = select bins (fun b => b.ws && s b) := by
  unfold whereWs
  simp only [select_mask, select_vals, zipWith_self_map]
  unfold select
  congr 1
  apply List.map_congr_left
  intro b _
  cases hws : b.ws <;> cases hsb : s b <;> simp [hws, hsb]

theorem whereNotWs_select (bins : List Bin) (s : Bin → Bool) :
    whereNotWs bins (select bins s) = select bins (fun b => !b.ws && s b) := by
  unfold whereNotWs
  simp only [select_mask, select_vals, zipWith_self_map]
  unfold select
  congr 1
  apply List.map_congr_left
  intro b _
  cases hws : b.ws <;> cases hsb : s b <;> simp [hws, hsb]

/-! ### labels -/

theorem lab_le_nparts {bins : List Bin} {b : Bin} (h : b ∈ bins) : b.lab ≤ nparts bins := by
  induction bins with
  | nil => cases h
  | cons a t ih =>
    unfold nparts
    rcases List.mem_cons.mp h with rfl | h'
    · exact Nat.le_max_left _ _
    · exact Nat.le_trans (ih h') (Nat.le_max_right _ _)

theorem mem_labels {bins : List Bin} {k : Nat} : k ∈ labels bins ↔ 1 ≤ k ∧ k ≤ nparts bins := by
  unfold labels
  rw [List.mem_range'_1]
  omega

theorem labels_nodup (bins : List Bin) : (labels bins).Nodup := by
  unfold labels
  exact List.nodup_range'

theorem labels_length (bins : List Bin) : (labels bins).length = nparts bins := by simp [labels]

theorem lab_mem_labels {bins : List Bin} {b : Bin} (h : b ∈ bins) : b.lab ∈ labels bins ↔ 1 ≤ b.lab := by
  rw [mem_labels]
  have := lab_le_nparts h
  omega

/-! ### the accumulated wind-sea partitions are selections -/

theorem wseaAcc_select (wscut : Rat) (bins : List Bin) (ks : List Nat) (hnd : ks.Nodup) (s : Bin → Bool)
    (hs : ∀ b ∈ bins, s b = true → b.lab ∉ ks) :
    wseaAcc wscut bins ks (select bins s) =
      select bins (fun b => s b || (ks.contains b.lab && isWindSea wscut bins b.lab)) := by
  induction ks generalizing s with
  | nil => simp [wseaAcc]
  | cons k ks ih =>
    have hk : k ∉ ks := (List.nodup_cons.mp hnd).1
    have hnd' : ks.Nodup := (List.nodup_cons.mp hnd).2
    unfold wseaAcc
    rw [List.foldl_cons]
    by_cases hw : isWindSea wscut bins k = true
    · simp only [hw, if_true]
      rw [show basin bins k = select bins (fun b => b.lab == k) from rfl, add_select bins s _ (by
        intro b hb ⟨h1, h2⟩
        have := hs b hb h1
        simp at h2
        simp [h2] at this)]
      have := ih hnd' (fun b => s b || b.lab == k) (by
        intro b hb h
        simp at h
        rcases h with h | h
        · have := hs b hb h; simp at this; exact this.2
        · rw [h]; exact hk)
      unfold wseaAcc at this
      rw [this]
      apply select_congr
      intro b _
      by_cases hbk : b.lab = k
      · simp [hbk, hw]
      · have h1 : (b.lab == k) = false := by simp [hbk]
        simp [h1, hbk]
    · simp only [hw]
      have := ih hnd' s (by
        intro b hb h
        have := hs b hb h; simp at this; exact this.2)
      unfold wseaAcc at this
      simp only [Bool.false_eq_true, if_false]
      rw [this]
      apply select_congr
      intro b _
      by_cases hbk : b.lab = k
      · simp at hw
        simp [hbk, hw]
      · have h1 : (b.lab == k) = false := by simp [hbk]
        simp [h1, hbk]

theorem wsea2Acc_select (wscut : Rat) (bins : List Bin) (ks : List Nat) (hnd : ks.Nodup) (s : Bin → Bool)
    (hs : ∀ b ∈ bins, s b = true → b.lab ∉ ks) :
    wsea2Acc wscut bins ks (select bins s) =
      select bins (fun b => s b || (ks.contains b.lab && !isWindSea wscut bins b.lab && b.ws)) := by
  induction ks generalizing s with
  | nil => simp [wsea2Acc]
  | cons k ks ih =>
    have hk : k ∉ ks := (List.nodup_cons.mp hnd).1
    have hnd' : ks.Nodup := (List.nodup_cons.mp hnd).2
    unfold wsea2Acc
    rw [List.foldl_cons]
    by_cases hw : isWindSea wscut bins k = true
    · simp only [hw, if_true]
      have := ih hnd' s (by
        intro b hb h
        have := hs b hb h; simp at this; exact this.2)
      unfold wsea2Acc at this
      rw [this]
      apply select_congr
      intro b _
      by_cases hbk : b.lab = k
      · simp [hbk, hw]
      · have h1 : (b.lab == k) = false := by simp [hbk]
        simp [h1, hbk]
    · simp only [hw, Bool.false_eq_true, if_false]
      rw [show basin bins k = select bins (fun b => b.lab == k) from rfl, whereWs_select, add_select bins s _ (by
        intro b hb ⟨h1, h2⟩
        have := hs b hb h1
        simp at h2
        simp [h2.2] at this)]
      have := ih hnd' (fun b => s b || (b.ws && b.lab == k)) (by
        intro b hb h
        simp at h
        rcases h with h | h
        · have := hs b hb h; simp at this; exact this.2
        · rw [h.2]; exact hk)
      unfold wsea2Acc at this
      rw [this]
      apply select_congr
      intro b _
      by_cases hbk : b.lab = k
      · simp at hw
        simp [hbk, hw]
        cases hws : b.ws <;> cases hsb : s b <;> simp [hws, hsb]
      · have h1 : (b.lab == k) = false := by simp [hbk]
        simp [h1, hbk]


/-! ### renders: `where(dest == d, E, 0)` -/

def render (bins : List Bin) (dest : Bin → Option Dest) (d : Dest) : Part :=
  select bins (fun b => dest b == some d)

/-- number of partitions of the list whose assignment mask holds at bin `i` -/
def colCount (ps : List Part) (i : Nat) : Nat := (ps.filter (fun p => p.mask.getD i false)).length

/-- sum over the partitions of the list of their value at bin `i` -/
def colSum (ps : List Part) (i : Nat) : Rat := (ps.map (fun p => p.vals.getD i 0)).sum

theorem colCount_append (a b : List Part) (i : Nat) : colCount (a ++ b) i = colCount a i + colCount b i := by
  simp [colCount]

theorem colSum_append (a b : List Part) (i : Nat) : colSum (a ++ b) i = colSum a i + colSum b i := by
  simp [colSum]

theorem zeros_mask_getD (bins : List Bin) (i : Nat) : (zeros bins).mask.getD i false = false := by
  unfold zeros
  rw [select_mask, List.getD_eq_getElem?_getD, List.getElem?_map]
  cases bins[i]? <;> simp

theorem zeros_vals_getD (bins : List Bin) (i : Nat) : (zeros bins).vals.getD i 0 = 0 := by
  unfold zeros
  rw [select_vals, List.getD_eq_getElem?_getD, List.getElem?_map]
  cases bins[i]? <;> simp

theorem colCount_replicate_zeros (bins : List Bin) (m i : Nat) : colCount (List.replicate m (zeros bins)) i = 0 := by
  unfold colCount
  rw [List.length_eq_zero_iff, List.filter_eq_nil_iff]
  intro p hp
  rw [(List.mem_replicate.mp hp).2, zeros_mask_getD]
  simp

theorem colSum_replicate_zeros (bins : List Bin) (m i : Nat) : colSum (List.replicate m (zeros bins)) i = 0 := by
  unfold colSum
  rw [List.map_replicate, zeros_vals_getD]
  simp

theorem render_mask_getD (bins : List Bin) (dest : Bin → Option Dest) (d : Dest) (i : Nat) :
    (render bins dest d).mask.getD i false = (bins[i]?.map (fun b => dest b == some d)).getD false := by
  unfold render
  rw [select_mask, List.getD_eq_getElem?_getD, List.getElem?_map]

theorem render_vals_getD (bins : List Bin) (dest : Bin → Option Dest) (d : Dest) (i : Nat) :
    (render bins dest d).vals.getD i 0 = (bins[i]?.map (fun b => if dest b == some d then b.e else 0)).getD 0 := by
  unfold render
  rw [select_vals, List.getD_eq_getElem?_getD, List.getElem?_map]

theorem filter_dest_le_one (ds : List Dest) (hnd : ds.Nodup) (x : Option Dest) :
    (ds.filter (fun d => x == some d)).length ≤ 1 := by
  induction ds with
  | nil => simp
  | cons d t ih =>
    have hd : d ∉ t := (List.nodup_cons.mp hnd).1
    have ht := ih (List.nodup_cons.mp hnd).2
    by_cases h : x = some d
    · have : t.filter (fun d' => x == some d') = [] := by
        rw [List.filter_eq_nil_iff]
        intro d' hd' hx
        rw [h] at hx
        simp at hx
        exact hd (hx ▸ hd')
      rw [List.filter_cons]
      simp [h, this]
      rw [h] at this
      simpa using this
    · rw [List.filter_cons]
      have : (x == some d) = false := by simp [h]
      simp only [this]
      exact ht

/-- no bin is assigned to two renders of distinct destinations -/
theorem colCount_render_le (bins : List Bin) (dest : Bin → Option Dest) (ds : List Dest) (hnd : ds.Nodup) (i : Nat) :
    colCount (ds.map (render bins dest)) i ≤ 1 := by
  unfold colCount
  rw [List.filter_map, List.length_map]
  cases hb : bins[i]? with
  | none =>
    have : ds.filter ((fun p => p.mask.getD i false) ∘ render bins dest) = [] := by
      rw [List.filter_eq_nil_iff]
      intro d _
      simp only [Function.comp]
      rw [render_mask_getD, hb]
      simp
    rw [this]; simp
  | some b =>
    have : ds.filter ((fun p => p.mask.getD i false) ∘ render bins dest) = ds.filter (fun d => dest b == some d) := by
      apply List.filter_congr
      intro d _
      simp only [Function.comp]
      rw [render_mask_getD, hb]
      rfl
    rw [this]
    exact filter_dest_le_one ds hnd (dest b)

/-- the renders of a duplicate-free list of destinations add up, at a bin, to the bin's energy if its destination
    is in the list and to zero otherwise -/
theorem colSum_render (bins : List Bin) (dest : Bin → Option Dest) (ds : List Dest) (hnd : ds.Nodup) (i : Nat)
    (hi : i < bins.length) :
    colSum (ds.map (render bins dest)) i = if (∃ d ∈ ds, dest bins[i] = some d) then bins[i].e else 0 := by
  unfold colSum
  rw [List.map_map]
  have hb : bins[i]? = some bins[i] := List.getElem?_eq_getElem hi
  induction ds with
  | nil => simp
  | cons d t ih =>
    have hd : d ∉ t := (List.nodup_cons.mp hnd).1
    have ht := ih (List.nodup_cons.mp hnd).2
    rw [List.map_cons, List.sum_cons, ht]
    show List.getD (render bins dest d).vals i 0 + _ = _
    rw [render_vals_getD, hb]
    simp only [Option.map_some, Option.getD_some]
    by_cases h : dest bins[i] = some d
    · have hno : ¬ ∃ d' ∈ t, dest bins[i] = some d' := by
        rintro ⟨d', hd', he⟩
        rw [h] at he
        exact hd (by cases he; exact hd')
      have hyes : ∃ d' ∈ d :: t, dest bins[i] = some d' := ⟨d, List.mem_cons_self, h⟩
      have hbeq : (dest bins[i] == some d) = true := by simp [h]
      rw [if_pos hyes, if_neg hno, hbeq]
      simp
    · have hbeq : (dest bins[i] == some d) = false := by simp [h]
      rw [hbeq]
      by_cases h2 : ∃ d' ∈ t, dest bins[i] = some d'
      · have : ∃ d' ∈ d :: t, dest bins[i] = some d' := by
          obtain ⟨d', hd', he⟩ := h2; exact ⟨d', List.mem_cons_of_mem _ hd', he⟩
        rw [if_pos h2, if_pos this]
        simp
      · have : ¬ ∃ d' ∈ d :: t, dest bins[i] = some d' := by
          rintro ⟨d', hd', he⟩
          rcases List.mem_cons.mp hd' with rfl | hd''
          · exact h he
          · exact h2 ⟨d', hd'', he⟩
        rw [if_neg h2, if_neg this]
        simp

theorem colSum_perm {a b : List Part} (h : a.Perm b) (i : Nat) : colSum a i = colSum b i := by
  unfold colSum
  exact (h.map _).sum_eq

theorem colCount_perm {a b : List Part} (h : a.Perm b) (i : Nat) : colCount a i = colCount b i := by
  unfold colCount
  exact (h.filter _).length_eq

/-! ### sorting, truncating, padding lists of renders -/

/-- the sort of `sortSlots`, on destinations -/
def sortDs (bins : List Bin) (dest : Bin → Option Dest) (key : Vec → Rat) (ds : List Dest) : List Dest :=
  ds.mergeSort fun a b => decide (key (render bins dest b).vals ≤ key (render bins dest a).vals)

theorem sortSlots_map (bins : List Bin) (dest : Bin → Option Dest) (key : Vec → Rat) (ds : List Dest) :
    sortSlots key (ds.map (render bins dest)) = (sortDs bins dest key ds).map (render bins dest) := by
  unfold sortSlots sortDs
  exact (List.map_mergeSort (f := render bins dest)
    (r := fun a b => decide (key (render bins dest b).vals ≤ key (render bins dest a).vals))
    (s := fun a b => decide (key b.vals ≤ key a.vals)) (l := ds) (fun _ _ _ _ => rfl)).symm

theorem sortDs_perm (bins : List Bin) (dest : Bin → Option Dest) (key : Vec → Rat) (ds : List Dest) :
    (sortDs bins dest key ds).Perm ds := List.mergeSort_perm _ _

theorem sortDs_pairwise (bins : List Bin) (dest : Bin → Option Dest) (key : Vec → Rat) (ds : List Dest) :
    (sortDs bins dest key ds).Pairwise
      (fun a b => key (render bins dest b).vals ≤ key (render bins dest a).vals) := by
  have := List.pairwise_mergeSort
    (le := fun a b => decide (key (render bins dest b).vals ≤ key (render bins dest a).vals))
    (by intro a b c h1 h2; simp only [decide_eq_true_eq] at *; exact le_trans h2 h1)
    (by intro a b; simp only [Bool.or_eq_true, decide_eq_true_eq]; exact le_total _ _) ds
  exact this.imp (by intro a b h; simpa using h)

theorem fitCount_map (bins : List Bin) (dest : Bin → Option Dest) (n s : Nat) (l : List Dest) :
    fitCount bins n s (l.map (render bins dest)) =
      ((if s < n then l.take s else l).map (render bins dest)) ++
        List.replicate (if s < n then 0 else if n < s then s - l.length else 0) (zeros bins) := by
  unfold fitCount
  split_ifs <;> simp [List.map_take]

theorem dropNull_map (bins : List Bin) (dest : Bin → Option Dest) (l : List Dest) :
    dropNull (l.map (render bins dest)) =
      (l.filter (fun d => decide (0 < (render bins dest d).vals.sum))).map (render bins dest) := by
  unfold dropNull
  rw [List.filter_map]
  rfl

/-! ### the three methods as destination functions -/

def swellDs (bins : List Bin) : List Dest := (labels bins).map Dest.swell

theorem swellDs_nodup (bins : List Bin) : (swellDs bins).Nodup :=
  (labels_nodup bins).map (fun a b h => by cases h; rfl)

theorem swellDs_length (bins : List Bin) : (swellDs bins).length = nparts bins := by
  simp [swellDs, labels_length]

theorem wsea_not_mem_swellDs (bins : List Bin) : Dest.wsea ∉ swellDs bins := by simp [swellDs]
theorem wsea2_not_mem_swellDs (bins : List Bin) : Dest.wsea2 ∉ swellDs bins := by simp [swellDs]

theorem mem_swellDs {bins : List Bin} {d : Dest} : d ∈ swellDs bins ↔ ∃ k, 1 ≤ k ∧ k ≤ nparts bins ∧ d = .swell k := by
  unfold swellDs
  rw [List.mem_map]
  constructor
  · rintro ⟨k, hk, rfl⟩; exact ⟨k, (mem_labels.mp hk).1, (mem_labels.mp hk).2, rfl⟩
  · rintro ⟨k, h1, h2, rfl⟩; exact ⟨k, mem_labels.mpr ⟨h1, h2⟩, rfl⟩

/-- PTM1: wind-sea basins go to the wind sea, every other basin is its own swell; label-0 bins go nowhere -/
def dest1 (wscut : Rat) (bins : List Bin) (b : Bin) : Option Dest :=
  if b.lab ∈ labels bins then (if isWindSea wscut bins b.lab then some .wsea else some (.swell b.lab)) else none

/-- PTM2: as PTM1, but the wind-sea bins of the swell basins go to the secondary wind sea -/
def dest2 (wscut : Rat) (bins : List Bin) (b : Bin) : Option Dest :=
  if b.lab ∈ labels bins then
    (if isWindSea wscut bins b.lab then some .wsea else if b.ws then some .wsea2 else some (.swell b.lab))
  else none

/-- PTM3: every basin is a partition -/
def dest3 (bins : List Bin) (b : Bin) : Option Dest :=
  if b.lab ∈ labels bins then some (.swell b.lab) else none

theorem ptm1Wsea_eq (wscut : Rat) (bins : List Bin) :
    ptm1Wsea wscut bins = render bins (dest1 wscut bins) .wsea := by
  unfold ptm1Wsea zeros
  rw [wseaAcc_select wscut bins (labels bins) (labels_nodup bins) _ (by simp)]
  unfold render
  apply select_congr
  intro b _
  unfold dest1
  by_cases h1 : b.lab ∈ labels bins <;> by_cases h2 : isWindSea wscut bins b.lab = true <;> simp [h1, h2]

theorem ptm2Wsea1_eq (wscut : Rat) (bins : List Bin) :
    ptm1Wsea wscut bins = render bins (dest2 wscut bins) .wsea := by
  unfold ptm1Wsea zeros
  rw [wseaAcc_select wscut bins (labels bins) (labels_nodup bins) _ (by simp)]
  unfold render
  apply select_congr
  intro b _
  unfold dest2
  by_cases h1 : b.lab ∈ labels bins <;> by_cases h2 : isWindSea wscut bins b.lab = true <;>
    cases h3 : b.ws <;> simp [h1, h2, h3]

theorem ptm2Wsea2_eq (wscut : Rat) (bins : List Bin) :
    ptm2Wsea2 wscut bins = render bins (dest2 wscut bins) .wsea2 := by
  unfold ptm2Wsea2 zeros
  rw [wsea2Acc_select wscut bins (labels bins) (labels_nodup bins) _ (by simp)]
  unfold render
  apply select_congr
  intro b _
  unfold dest2
  by_cases h1 : b.lab ∈ labels bins <;> by_cases h2 : isWindSea wscut bins b.lab = true <;>
    cases h3 : b.ws <;> simp [h1, h2, h3]

theorem ptm1Slots_eq (wscut : Rat) (bins : List Bin) :
    ptm1Slots wscut bins = (swellDs bins).map (render bins (dest1 wscut bins)) := by
  unfold ptm1Slots swellDs
  rw [List.map_map]
  apply List.map_congr_left
  intro k hk
  simp only [Function.comp]
  unfold render
  by_cases hw : isWindSea wscut bins k = true
  · simp only [hw, if_true]
    unfold zeros
    apply select_congr
    intro b _
    unfold dest1
    by_cases h1 : b.lab ∈ labels bins <;> by_cases h2 : isWindSea wscut bins b.lab = true <;> simp [h1, h2]
    intro h; rw [h] at h2; exact h2 hw
  · simp only [hw, Bool.false_eq_true, if_false]
    unfold basin
    rw [zeros_add_select]
    apply select_congr
    intro b _
    unfold dest1
    by_cases hbk : b.lab = k
    · have : b.lab ∈ labels bins := hbk ▸ hk
      simp [hbk, hk, hw]
    · by_cases h1 : b.lab ∈ labels bins <;> by_cases h2 : isWindSea wscut bins b.lab = true <;> simp [h1, h2, hbk]

theorem ptm2Slots_eq (wscut : Rat) (bins : List Bin) :
    ptm2Slots wscut bins = (swellDs bins).map (render bins (dest2 wscut bins)) := by
  unfold ptm2Slots swellDs
  rw [List.map_map]
  apply List.map_congr_left
  intro k hk
  simp only [Function.comp]
  unfold render
  by_cases hw : isWindSea wscut bins k = true
  · simp only [hw, if_true]
    unfold zeros
    apply select_congr
    intro b _
    unfold dest2
    by_cases h1 : b.lab ∈ labels bins <;> by_cases h2 : isWindSea wscut bins b.lab = true <;>
      cases h3 : b.ws <;> simp [h1, h2, h3]
    intro h; rw [h] at h2; exact h2 hw
  · simp only [hw, Bool.false_eq_true, if_false]
    unfold basin
    rw [whereNotWs_select, zeros_add_select]
    apply select_congr
    intro b _
    unfold dest2
    by_cases hbk : b.lab = k
    · have : b.lab ∈ labels bins := hbk ▸ hk
      cases h3 : b.ws <;> simp [hbk, hk, hw, h3]
    · by_cases h1 : b.lab ∈ labels bins <;> by_cases h2 : isWindSea wscut bins b.lab = true <;>
        cases h3 : b.ws <;> simp [h1, h2, h3, hbk]

theorem ptm3Slots_eq (bins : List Bin) :
    ptm3Slots bins = (swellDs bins).map (render bins (dest3 bins)) := by
  unfold ptm3Slots swellDs
  rw [List.map_map]
  apply List.map_congr_left
  intro k hk
  simp only [Function.comp]
  unfold render basin
  apply select_congr
  intro b _
  unfold dest3
  by_cases hbk : b.lab = k
  · simp [hbk, hk]
  · by_cases h1 : b.lab ∈ labels bins <;> simp [h1, hbk]


/-! ### the sort key of the code (`npstats.hs` radicand) is non-negative and vanishes on all-zero arrays -/

theorem getLastD_prop (P : Rat → Prop) (l : Vec) (d : Rat) (hd : P d) (h : ∀ x ∈ l, P x) : P (l.getLastD d) := by
  induction l generalizing d with
  | nil => simpa using hd
  | cons a t ih =>
    rw [List.getLastD_cons]
    exact ih a (h a List.mem_cons_self) (fun x hx => h x (List.mem_cons_of_mem _ hx))

theorem absR_nonneg (x : Rat) : 0 ≤ absR x := by
  unfold absR
  split_ifs with h
  · linarith
  · linarith

theorem npDf_nonneg (f : Vec) : ∀ x ∈ Stats.npDf f, 0 ≤ x := by
  induction f with
  | nil => simp [Stats.npDf]
  | cons a t ih =>
    cases t with
    | nil => simp [Stats.npDf]
    | cons b r =>
      intro x hx
      rw [Stats.npDf] at hx
      rcases List.mem_cons.mp hx with rfl | hx'
      · exact absR_nonneg _
      · exact ih x hx'

theorem trapz_nonneg (ds E : Vec) (hd : ∀ x ∈ ds, 0 ≤ x) (hE : ∀ x ∈ E, 0 ≤ x) : 0 ≤ Stats.trapz ds E := by
  induction ds generalizing E with
  | nil => simp [Stats.trapz]
  | cons d t ih =>
    match E with
    | [] => simp [Stats.trapz]
    | [_] => simp [Stats.trapz]
    | a :: b :: rest =>
      rw [Stats.trapz]
      have h1 := hd d List.mem_cons_self
      have ha := hE a List.mem_cons_self
      have hb := hE b (List.mem_cons_of_mem _ List.mem_cons_self)
      have h2 := ih (b :: rest) (fun x hx => hd x (List.mem_cons_of_mem _ hx))
        (fun x hx => hE x (List.mem_cons_of_mem _ hx))
      have : 0 ≤ d * (b + a) / 2 := by positivity
      linarith

theorem trapz_zero (ds E : Vec) (hE : ∀ x ∈ E, x = 0) : Stats.trapz ds E = 0 := by
  induction ds generalizing E with
  | nil => simp [Stats.trapz]
  | cons d t ih =>
    match E with
    | [] => simp [Stats.trapz]
    | [_] => simp [Stats.trapz]
    | a :: b :: rest =>
      rw [Stats.trapz]
      have ha := hE a List.mem_cons_self
      have hb := hE b (List.mem_cons_of_mem _ List.mem_cons_self)
      have h2 := ih (b :: rest) (fun x hx => hE x (List.mem_cons_of_mem _ hx))
      rw [h2, ha, hb]; simp

theorem mem_rowsOf {nf nd : Nat} {v r : Vec} (h : r ∈ rowsOf nf nd v) : ∀ x ∈ r, x ∈ v := by
  unfold rowsOf at h
  obtain ⟨i, _, rfl⟩ := List.mem_map.mp h
  intro x hx
  exact List.mem_of_mem_drop (List.mem_of_mem_take hx)

theorem npDdir_nonneg (a b : Rat) (h : absR (b - a) ≤ 360) : 0 ≤ npDdir a b := by
  unfold npDdir minR
  have := absR_nonneg (b - a)
  split_ifs <;> linarith

theorem npHsRow_prop (P : Rat → Prop) (nf : Nat) (dirs v : Vec) (hv : ∀ x ∈ v, P x)
    (hrow : ∀ (a b : Rat) (r : Vec), (∃ t, dirs = a :: b :: t) → (∀ x ∈ r, P x) → P (npDdir a b * r.sum)) :
    ∀ x ∈ npHsRow nf dirs v, P x := by
  unfold npHsRow
  match dirs with
  | [] => exact hv
  | [_] => exact hv
  | a :: b :: t =>
    intro x hx
    obtain ⟨r, hr, rfl⟩ := List.mem_map.mp hx
    exact hrow a b r ⟨t, rfl⟩ (fun y hy => hv y (mem_rowsOf hr y hy))

theorem thr_pos : (0 : Rat) < Consts.thr := by unfold Consts.thr; norm_num

theorem npHsKey_nonneg (f dirs v : Vec) (hd : DirsOk dirs) (hv : ∀ x ∈ v, 0 ≤ x) : 0 ≤ npHsKey f dirs v := by
  unfold npHsKey Stats.npHsE
  have hrow : ∀ x ∈ npHsRow f.length dirs v, 0 ≤ x :=
    npHsRow_prop (fun x => 0 ≤ x) _ _ _ hv (fun a b r ⟨t, ht⟩ hr => by
      subst ht
      exact mul_nonneg (npDdir_nonneg a b hd) (List.sum_nonneg hr))
  have h1 := trapz_nonneg (Stats.npDf f) _ (npDf_nonneg f) hrow
  have hl : 0 ≤ lastD (npHsRow f.length dirs v) := getLastD_prop (fun x => 0 ≤ x) _ 0 le_rfl hrow
  split_ifs with h
  · simp only [Bool.true_and, decide_eq_true_eq] at h
    have : 0 < lastD f := lt_trans thr_pos h
    have : 0 ≤ Consts.quarter * lastD (npHsRow f.length dirs v) * lastD f := by
      unfold Consts.quarter; positivity
    linarith
  · linarith

theorem npHsKey_zero (f dirs v : Vec) (hv : ∀ x ∈ v, x = 0) : npHsKey f dirs v = 0 := by
  unfold npHsKey Stats.npHsE
  have hrow : ∀ x ∈ npHsRow f.length dirs v, x = 0 :=
    npHsRow_prop (fun x => x = 0) _ _ _ hv (fun a b r _ hr => by
      rw [List.sum_eq_zero hr]; simp)
  rw [trapz_zero _ _ hrow]
  have hl : lastD (npHsRow f.length dirs v) = 0 := getLastD_prop (fun x => x = 0) _ 0 rfl hrow
  rw [hl]; simp

theorem zeros_vals_all_zero (bins : List Bin) : ∀ x ∈ (zeros bins).vals, x = 0 := by
  unfold zeros
  intro x hx
  rw [select_vals] at hx
  obtain ⟨b, _, rfl⟩ := List.mem_map.mp hx
  simp

theorem select_vals_nonneg (bins : List Bin) (s : Bin → Bool) (h : ∀ b ∈ bins, 0 ≤ b.e) :
    ∀ x ∈ (select bins s).vals, 0 ≤ x := by
  intro x hx
  rw [select_vals] at hx
  obtain ⟨b, hb, rfl⟩ := List.mem_map.mp hx
  split_ifs
  · exact h b hb
  · exact le_rfl


/-! ### outputs as `renders of a duplicate-free destination list ++ zero padding` -/

/-- the destinations of the output partitions: heads, then the sorted swell destinations after
    `swells=None` filtering (`filt`) or truncation -/
def outDs (bins : List Bin) (dest : Bin → Option Dest) (key : Vec → Rat) (hs : List Dest) (n : Nat) (ds : List Dest)
    (cnt : Option Nat) (filt : Bool) : List Dest :=
  hs ++ (match cnt with
    | none => if filt then (sortDs bins dest key ds).filter (fun d => decide (0 < (render bins dest d).vals.sum))
              else sortDs bins dest key ds
    | some s => if s < n then (sortDs bins dest key ds).take s else sortDs bins dest key ds)

/-- number of all-zero partitions appended -/
def outPad (n : Nat) : Option Nat → Nat
  | none => 0
  | some s => if s < n then 0 else if n < s then s - n else 0

theorem outDs_tail_sublist (bins : List Bin) (dest : Bin → Option Dest) (key : Vec → Rat) (n : Nat) (ds : List Dest)
    (cnt : Option Nat) (filt : Bool) :
    ∃ t, outDs bins dest key hs n ds cnt filt = hs ++ t ∧ t.Sublist (sortDs bins dest key ds) := by
  unfold outDs
  cases cnt with
  | none =>
    cases filt
    · exact ⟨_, rfl, List.Sublist.refl _⟩
    · exact ⟨_, rfl, List.filter_sublist⟩
  | some s =>
    by_cases h : s < n
    · exact ⟨(sortDs bins dest key ds).take s, by simp [h], List.take_sublist _ _⟩
    · exact ⟨sortDs bins dest key ds, by simp [h], List.Sublist.refl _⟩

theorem outDs_nodup (bins : List Bin) (dest : Bin → Option Dest) (key : Vec → Rat) (hs : List Dest) (n : Nat)
    (ds : List Dest) (cnt : Option Nat) (filt : Bool) (hnd : (hs ++ ds).Nodup) :
    (outDs bins dest key hs n ds cnt filt).Nodup := by
  obtain ⟨t, ht, hsub⟩ := outDs_tail_sublist (hs := hs) bins dest key n ds cnt filt
  rw [ht]
  have h1 : (hs ++ sortDs bins dest key ds).Nodup :=
    ((List.Perm.append_left hs (sortDs_perm bins dest key ds)).nodup_iff).mpr hnd
  exact h1.sublist (List.Sublist.append_left hsub hs)

theorem outDs_mem (bins : List Bin) (dest : Bin → Option Dest) (key : Vec → Rat) (hs : List Dest) (n : Nat)
    (ds : List Dest) (cnt : Option Nat) (filt : Bool) {d : Dest}
    (h : d ∈ outDs bins dest key hs n ds cnt filt) : d ∈ hs ∨ d ∈ ds := by
  obtain ⟨t, ht, hsub⟩ := outDs_tail_sublist (hs := hs) bins dest key n ds cnt filt
  rw [ht] at h
  rcases List.mem_append.mp h with h | h
  · exact Or.inl h
  · exact Or.inr ((sortDs_perm bins dest key ds).mem_iff.mp (hsub.subset h))

theorem outDs_full (bins : List Bin) (dest : Bin → Option Dest) (key : Vec → Rat) (hs : List Dest) (n s : Nat)
    (ds : List Dest) (filt : Bool) (h : n ≤ s) {d : Dest} (hd : d ∈ hs ∨ d ∈ ds) :
    d ∈ outDs bins dest key hs n ds (some s) filt := by
  unfold outDs
  have : ¬ s < n := by omega
  simp only [this, if_false]
  rcases hd with hd | hd
  · exact List.mem_append_left _ hd
  · exact List.mem_append_right _ ((sortDs_perm bins dest key ds).mem_iff.mpr hd)

theorem gen_disjoint (bins : List Bin) (dest : Bin → Option Dest) (ds : List Dest) (m : Nat) (hnd : ds.Nodup) (i : Nat) :
    colCount (ds.map (render bins dest) ++ List.replicate m (zeros bins)) i ≤ 1 := by
  rw [colCount_append, colCount_replicate_zeros]
  exact colCount_render_le bins dest ds hnd i

theorem gen_sum (bins : List Bin) (dest : Bin → Option Dest) (ds : List Dest) (m : Nat) (hnd : ds.Nodup) (i : Nat)
    (hi : i < bins.length) :
    colSum (ds.map (render bins dest) ++ List.replicate m (zeros bins)) i =
      if (∃ d ∈ ds, dest bins[i] = some d) then bins[i].e else 0 := by
  rw [colSum_append, colSum_replicate_zeros, colSum_render bins dest ds hnd i hi]
  simp

theorem gen_select (bins : List Bin) (dest : Bin → Option Dest) (ds : List Dest) (m : Nat) :
    ∀ p ∈ ds.map (render bins dest) ++ List.replicate m (zeros bins), ∃ sel, p = select bins sel := by
  intro p hp
  rcases List.mem_append.mp hp with h | h
  · obtain ⟨d, _, rfl⟩ := List.mem_map.mp h
    exact ⟨_, rfl⟩
  · rw [(List.mem_replicate.mp h).2]
    exact ⟨_, rfl⟩

/-- keys along `tail.map render ++ padding` never increase, provided the all-zero array has the smallest key -/
theorem gen_sorted (bins : List Bin) (dest : Bin → Option Dest) (key : Vec → Rat) (ds t : List Dest) (m : Nat)
    (hsub : t.Sublist (sortDs bins dest key ds))
    (hkey0 : ∀ d ∈ ds, key (zeros bins).vals ≤ key (render bins dest d).vals) :
    ((t.map (render bins dest) ++ List.replicate m (zeros bins)).map (fun p => key p.vals)).Pairwise
      (fun x y => y ≤ x) := by
  rw [List.map_append, List.pairwise_append]
  refine ⟨?_, ?_, ?_⟩
  · rw [List.map_map, List.pairwise_map]
    exact ((sortDs_pairwise bins dest key ds).sublist hsub).imp (fun h => h)
  · rw [List.map_replicate]
    exact List.pairwise_replicate.mpr (Or.inr le_rfl)
  · intro x hx y hy
    rw [List.map_replicate] at hy
    rw [(List.mem_replicate.mp hy).2]
    obtain ⟨p, hp, rfl⟩ := List.mem_map.mp hx
    obtain ⟨d, hd, rfl⟩ := List.mem_map.mp hp
    exact hkey0 d ((sortDs_perm bins dest key ds).mem_iff.mp (hsub.subset hd))

/-! ### structure of the three outputs -/

theorem ptm1_struct (key : Vec → Rat) (wscut : Rat) (bins : List Bin) (cnt : Option Nat) :
    ptm1 key wscut bins cnt =
      (outDs bins (dest1 wscut bins) key [.wsea] (nparts bins) (swellDs bins) cnt true).map
          (render bins (dest1 wscut bins)) ++
        List.replicate (outPad (nparts bins) cnt) (zeros bins) := by
  unfold ptm1 ptm1Sorted outDs outPad
  rw [ptm1Wsea_eq, ptm1Slots_eq, sortSlots_map]
  cases cnt with
  | none => simp [dropNull_map]
  | some s =>
    simp only [fitCount_map]
    have hl : (sortDs bins (dest1 wscut bins) key (swellDs bins)).length = nparts bins := by
      rw [(sortDs_perm _ _ _ _).length_eq, swellDs_length]
    rw [hl]
    simp

theorem ptm2_struct (key : Vec → Rat) (wscut : Rat) (bins : List Bin) (cnt : Option Nat) :
    ptm2 key wscut bins cnt =
      (outDs bins (dest2 wscut bins) key [.wsea, .wsea2] (nparts bins) (swellDs bins) cnt true).map
          (render bins (dest2 wscut bins)) ++
        List.replicate (outPad (nparts bins) cnt) (zeros bins) := by
  unfold ptm2 ptm2Sorted outDs outPad
  rw [ptm2Wsea1_eq, ptm2Wsea2_eq, ptm2Slots_eq, sortSlots_map]
  cases cnt with
  | none => simp [dropNull_map]
  | some s =>
    simp only [fitCount_map]
    have hl : (sortDs bins (dest2 wscut bins) key (swellDs bins)).length = nparts bins := by
      rw [(sortDs_perm _ _ _ _).length_eq, swellDs_length]
    rw [hl]
    simp

theorem ptm3_struct (key : Vec → Rat) (bins : List Bin) (cnt : Option Nat) :
    ptm3 key bins cnt =
      (outDs bins (dest3 bins) key [] (nparts bins) (swellDs bins) cnt false).map (render bins (dest3 bins)) ++
        List.replicate (outPad (nparts bins) cnt) (zeros bins) := by
  unfold ptm3 ptm3Sorted outDs outPad
  rw [ptm3Slots_eq, sortSlots_map]
  cases cnt with
  | none => simp
  | some s =>
    simp only [fitCount_map]
    have hl : (sortDs bins (dest3 bins) key (swellDs bins)).length = nparts bins := by
      rw [(sortDs_perm _ _ _ _).length_eq, swellDs_length]
    rw [hl]
    simp

theorem heads1_nodup (bins : List Bin) : ([Dest.wsea] ++ swellDs bins).Nodup := by
  simp [swellDs_nodup, wsea_not_mem_swellDs]

theorem heads2_nodup (bins : List Bin) : ([Dest.wsea, Dest.wsea2] ++ swellDs bins).Nodup := by
  simp [swellDs_nodup, wsea_not_mem_swellDs, wsea2_not_mem_swellDs]

theorem heads3_nodup (bins : List Bin) : (([] : List Dest) ++ swellDs bins).Nodup := by
  simp [swellDs_nodup]


/-! ### `swells=None`: dropping partitions whose sum is not positive loses nothing of a non-negative spectrum -/

theorem colSum_cons (a : Part) (l : List Part) (i : Nat) : colSum (a :: l) i = a.vals.getD i 0 + colSum l i := by
  simp [colSum]

theorem colSum_filter (l : List Part) (q : Part → Bool) (i : Nat)
    (h : ∀ p ∈ l, q p = false → p.vals.getD i 0 = 0) : colSum (l.filter q) i = colSum l i := by
  induction l with
  | nil => rfl
  | cons a t ih =>
    have iht := ih (fun p hp => h p (List.mem_cons_of_mem _ hp))
    rw [List.filter_cons]
    by_cases hq : q a = true
    · rw [if_pos hq, colSum_cons, colSum_cons, iht]
    · have hq' : q a = false := by simpa using hq
      rw [if_neg hq, colSum_cons, iht, h a List.mem_cons_self hq']
      simp

theorem all_zero_of_sum_nonpos (l : Vec) (hn : ∀ x ∈ l, 0 ≤ x) (hs : ¬ 0 < l.sum) : ∀ x ∈ l, x = 0 := by
  induction l with
  | nil => intro x hx; cases hx
  | cons a t ih =>
    have ha := hn a List.mem_cons_self
    have ht : 0 ≤ t.sum := List.sum_nonneg (fun x hx => hn x (List.mem_cons_of_mem _ hx))
    rw [List.sum_cons] at hs
    have ha0 : a = 0 := by linarith
    have hts : ¬ 0 < t.sum := by linarith
    intro x hx
    rcases List.mem_cons.mp hx with rfl | hx'
    · exact ha0
    · exact ih (fun x hx => hn x (List.mem_cons_of_mem _ hx)) hts x hx'

theorem getD_zero_of_all_zero (l : Vec) (h : ∀ x ∈ l, x = 0) (i : Nat) : l.getD i 0 = 0 := by
  rw [List.getD_eq_getElem?_getD]
  cases hx : l[i]? with
  | none => rfl
  | some x => exact h x (List.mem_of_getElem? hx)

theorem colSum_dropNull (l : List Part) (i : Nat) (hn : ∀ p ∈ l, ∀ x ∈ p.vals, 0 ≤ x) :
    colSum (dropNull l) i = colSum l i := by
  unfold dropNull
  apply colSum_filter
  intro p hp hq
  have : ¬ 0 < p.vals.sum := by simpa using hq
  exact getD_zero_of_all_zero _ (all_zero_of_sum_nonpos _ (hn p hp) this) i


/-! ### small helpers used by the property theorems -/

theorem sortSlots_length (key : Vec → Rat) (slots : List Part) : (sortSlots key slots).length = slots.length := by
  simp [sortSlots]

theorem fitCount_length (bins : List Bin) (n s : Nat) (sorted : List Part) (h : sorted.length = n) :
    (fitCount bins n s sorted).length = s := by
  unfold fitCount
  split_ifs with h1 h2
  · simp; omega
  · simp; omega
  · omega

theorem dest1_some {wscut : Rat} {bins : List Bin} {b : Bin} (hb : b ∈ bins) (h1 : 1 ≤ b.lab) :
    dest1 wscut bins b = some .wsea ∨ dest1 wscut bins b = some (.swell b.lab) := by
  unfold dest1
  rw [if_pos ((lab_mem_labels hb).mpr h1)]
  by_cases h : isWindSea wscut bins b.lab = true <;> simp [h]

theorem dest2_some {wscut : Rat} {bins : List Bin} {b : Bin} (hb : b ∈ bins) (h1 : 1 ≤ b.lab) :
    dest2 wscut bins b = some .wsea ∨ dest2 wscut bins b = some .wsea2 ∨ dest2 wscut bins b = some (.swell b.lab) := by
  unfold dest2
  rw [if_pos ((lab_mem_labels hb).mpr h1)]
  by_cases h : isWindSea wscut bins b.lab = true <;> cases h3 : b.ws <;> simp [h]

theorem swell_lab_mem {bins : List Bin} {b : Bin} (hb : b ∈ bins) (h1 : 1 ≤ b.lab) : Dest.swell b.lab ∈ swellDs bins :=
  mem_swellDs.mpr ⟨b.lab, h1, lab_le_nparts hb, rfl⟩

theorem sortSlots_perm (key : Vec → Rat) (slots : List Part) : (sortSlots key slots).Perm slots :=
  List.mergeSort_perm _ _

theorem sortSlots_pairwise (key : Vec → Rat) (slots : List Part) :
    (sortSlots key slots).Pairwise (fun a b => key b.vals ≤ key a.vals) := by
  have := List.pairwise_mergeSort (le := fun (a b : Part) => decide (key b.vals ≤ key a.vals))
    (by intro a b c h1 h2; simp only [decide_eq_true_eq] at *; exact le_trans h2 h1)
    (by intro a b; simp only [Bool.or_eq_true, decide_eq_true_eq]; exact le_total _ _) slots
  exact this.imp (by intro a b h; simpa using h)

/-- with the code's key (radicand of `npstats.hs`) and a non-negative spectrum the all-zero array is smallest -/
theorem hs_key_zero_least (f dirs : Vec) (bins : List Bin) (sel : Bin → Bool) (hd : DirsOk dirs)
    (hnonneg : ∀ b ∈ bins, 0 ≤ b.e) :
    npHsKey f dirs (zeros bins).vals ≤ npHsKey f dirs (select bins sel).vals := by
  rw [npHsKey_zero f dirs _ (zeros_vals_all_zero bins)]
  exact npHsKey_nonneg f dirs _ hd (select_vals_nonneg bins sel hnonneg)

end WS.Assembly

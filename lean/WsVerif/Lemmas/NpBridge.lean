import WsVerif.Model.NpTwins
import WsVerif.Lemmas.Sums
/-!
Helper lemmas for the T-tier bridges of `Props/C01.lean`, `Props/C02.lean`: the slice / zip / map forms that the
vector grammar of `harness/translate_np.py` emits are the recursive forms used by the hand-written models.
No generated definition is mentioned here.
-/
namespace WS
open WS.Stats WS.Peak

/-- `npDf f = |f[1:] − f[:-1]|` -/
theorem npDf_eq_slices : ∀ f : Vec,
    npDf f = List.map (fun t => absR t) (List.zipWith (fun a b => a - b) (List.drop 1 f) (List.dropLast f))
  | [] => rfl
  | [_] => rfl
  | a :: b :: rest => by
    have ih := npDf_eq_slices (b :: rest)
    simp only [npDf, List.drop_succ_cons, List.drop_zero, List.dropLast_cons_cons, List.zipWith_cons_cons,
      List.map_cons] at ih ⊢
    rw [ih]

/-- `trapz d E = ½·Σ d·(E[1:] + E[:-1])` -/
theorem trapz_eq_slices (d E : Vec) :
    trapz d E = (1 / 2) * (List.zipWith (fun a b => a * b) d
      (List.zipWith (fun a b => a + b) (List.drop 1 E) (List.dropLast E))).sum := by
  induction d generalizing E with
  | nil => simp [trapz]
  | cons x ds ih =>
    match E with
    | [] => simp [trapz]
    | [_] => simp [trapz]
    | a :: b :: rest =>
      have := ih (b :: rest)
      simp only [trapz, List.drop_succ_cons, List.drop_zero, List.dropLast_cons_cons, List.zipWith_cons_cons,
        List.sum_cons] at this ⊢
      rw [this]; ring

/-- `((dd * spectrum * t).sum(axis=1))` written with maps and zips is `momdRow dd t` -/
theorem mom1_rows (dd : ℚ) (t : Vec) (e : Mat) :
    List.map List.sum (List.map (fun row => List.zipWith (fun a b => a * b) row t)
      (List.map (fun row => List.map (fun x => dd * x) row) e)) = momdRow dd t e := by
  unfold momdRow
  simp only [List.map_map]
  apply List.map_congr_left
  intro r _
  simp only [Function.comp_def, List.zipWith_map_left]

/-- `np.where((f > lo·fp) & (f < hi·fp))[0]` written with maps, zips and a filtered range is `windowIdx` -/
theorem where_window_eq (lo hi fp : ℚ) (f : Vec) :
    (let b := (List.zipWith (fun a b => a && b) (List.map (fun t => decide (t > lo * fp)) f)
        (List.map (fun t => decide (t < hi * fp)) f))
     (List.range b.length).filter (fun i => b.getD i false)) = windowIdx lo hi fp f := by
  unfold windowIdx
  simp only [List.length_zipWith, List.length_map, Nat.min_self]
  apply List.filter_congr
  intro i hi'
  have hi'' : i < f.length := List.mem_range.mp hi'
  simp [List.getD_eq_getElem?_getD, getR, hi'']

/-- `Σ s·f⁵·ex` over fancy-indexed vectors is the sum over the positions -/
theorem sum_zip3_map (pos : List Nat) (a b c : Nat → ℚ) :
    (List.zipWith (fun x y => x * y) (List.zipWith (fun x y => x * y) (pos.map a) (List.map (fun t => t ^ 5) (pos.map b)))
      (pos.map c)).sum = (pos.map fun i => a i * b i ^ 5 * c i).sum := by
  induction pos with
  | nil => rfl
  | cons i pos ih => simp only [List.map_cons, List.zipWith_cons_cons, List.sum_cons, ih]

end WS

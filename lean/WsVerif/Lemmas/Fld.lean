import WsVerif.Lemmas.Fld.Base
import WsVerif.Lemmas.Fld.S1a
import WsVerif.Lemmas.Fld.S1b
import WsVerif.Lemmas.Fld.S1c
import WsVerif.Lemmas.Fld.S2
import WsVerif.Lemmas.Fld.Top
import WsVerif.Lemmas.Fld.Table
import WsVerif.Lemmas.Fld.Sort
import WsVerif.Lemmas.Fld.Part
import WsVerif.Lemmas.Fld.Eff
import WsVerif.Lemmas.Fld.T1
import WsVerif.Lemmas.Fld.T2
import WsVerif.Lemmas.Fld.T3
import WsVerif.Lemmas.Fld.Sim
import WsVerif.Lemmas.Fld.G1a
import WsVerif.Lemmas.Fld.G1b
import WsVerif.Lemmas.Fld.G1c
import WsVerif.Lemmas.Fld.GTop
import WsVerif.Lemmas.Fld.G2
import WsVerif.Lemmas.Fld.GCtx
import WsVerif.Lemmas.Fld.GValid
import WsVerif.Lemmas.Fld.GSound
import WsVerif.Lemmas.Fld.GConst
/-! Helper lemmas for `Props/C20fld.lean`: memory safety and termination of the flooding loops of `pt_fld`
(`Model/Specpart.lean`).  `Fld/Base` = bounds-checked accessors, verification-condition tactics, the circular FIFO,
pigeonhole counting; `Fld/S1a`, `Fld/S1b`, `Fld/S1c`, `Fld/S2`, `Fld/Top` = invariants and Hoare triples (`Std.Do`) of the
individual loops and their composition; `Fld/Table`, `Fld/Sort`, `Fld/Part` = neighbour table, counting sort, `partition`;
`Fld/Eff`, `Fld/T1`, `Fld/T2`, `Fld/T3` = label effect of the ghost trace (`effRun`) and the relation `TR`;
`Fld/Sim`, `Fld/G1a`, `Fld/G1b`, `Fld/G1c`, `Fld/GTop`, `Fld/G2`, `Fld/GCtx`, `Fld/GValid` = simulation relation between the
concrete arrays and the abstract flooding machine: the ghost trace is valid (G3); `Fld/GSound`, `Fld/GConst` = helpers of
`Props/C04sound.lean` (well-formedness of `graphOf`, label decoding; the constant-spectrum branch). -/
